/-
  Lemmas for the full inverse law of C15, the row side:
  * `toTable_eq_filterMap`: on a tree of uniform depth with distinct keys, `tree_to_table(t, P)` is exactly the rows
    (`rowOf`) of the items of `t` that match `P`, in `tree_items` order;
  * `rowItem_ok_iff`: the item `table_to_tree` writes for a row, as one equation on the segment values;
  * `restrict`: a row restricted to the names of the pattern (in `tree_to_table`'s column order), characterised by
    `restrict_lookup` / `restrict_keys_nodup` / `restrict_eq_of_nodup`;
  * `rowOf_rowItem` (`rowOf P (rowItem P row) = restrict P row`) and `rowItem_rowOf` (the other direction, names distinct).
-/
import PygProofs.Lemmas.TreeTableInv

namespace Pyg.TreeTable
open Pyg Pyg.DA Pyg.Tree

/-! ### `rowOf`, equation by equation -/

theorem rowOf_nil (p : Path) (v : Val) : rowOf [] p v = none := by cases p <;> rfl

theorem rowOf_wild_cons (n k : String) (rest : List Seg) (p : Path) (v : Val) :
    rowOf (.wild n :: rest) (k :: p) v = (rowOf rest p v).map (DA.set n (.cell (.str k))) := by
  cases rest <;> rfl

theorem rowOf_lit_cons (s k : String) (rest : List Seg) (p : Path) (v : Val) :
    rowOf (.lit s :: rest) (k :: p) v = if k = s then rowOf rest p v else none := by
  cases rest <;> rfl

theorem rowOf_long_nil (seg s2 : Seg) (r2 : List Seg) (v : Val) : rowOf (seg :: s2 :: r2) [] v = none := by
  cases seg <;> rfl

/-- a matching item has one key per segment but the last -/
theorem rowOf_length : ∀ (P : List Seg) (p : Path) (v : Val) (r : Row), rowOf P p v = some r → p.length + 1 = P.length
  | [], p, v, r, h => by rw [rowOf_nil] at h; cases h
  | [_], [], _, _, _ => rfl
  | seg :: s2 :: r2, [], v, r, h => by rw [rowOf_long_nil] at h; cases h
  | .wild n :: rest, k :: p, v, r, h => by
      rw [rowOf_wild_cons] at h
      cases hr : rowOf rest p v with
      | none => simp [hr] at h
      | some r0 => simp [rowOf_length rest p v r0 hr]
  | .lit s :: rest, k :: p, v, r, h => by
      rw [rowOf_lit_cons] at h
      split at h
      · simp [rowOf_length rest p v r h]
      · cases h

/-! ### `tree_to_table` on a tree of uniform depth = the rows of the matching items -/

theorem flatMap_congr' {α β} (f g : α → List β) : ∀ (l : List α), (∀ x ∈ l, f x = g x) → l.flatMap f = l.flatMap g
  | [], _ => rfl
  | x :: l, h => by
      simp only [List.flatMap_cons]
      rw [h x (by simp), flatMap_congr' f g l (fun y hy => h y (by simp [hy]))]

theorem flatMap_lookup {β} (s : String) (f : Val → List β) : ∀ (kvs : List (String × Val)), (kvs.map (·.1)).Nodup →
    kvs.flatMap (fun kv => if kv.1 = s then f kv.2 else []) = (match lookup s kvs with | some v => f v | none => [])
  | [], _ => rfl
  | (l, w) :: kvs, hn => by
      simp only [List.map_cons, List.nodup_cons] at hn
      simp only [List.flatMap_cons, lookup]
      by_cases e : s = l
      · subst e
        simp only [if_true]
        have : kvs.flatMap (fun kv => if kv.1 = s then f kv.2 else []) = [] := by
          rw [List.flatMap_eq_nil_iff]
          intro x hx
          have : x.1 ≠ s := by rintro rfl; exact hn.1 (List.mem_map.2 ⟨x, hx, rfl⟩)
          simp [this]
        simp [this]
      · have e' : ¬ l = s := fun h => e h.symm
        simp only [if_neg e, if_neg e', List.nil_append]
        exact flatMap_lookup s f kvs hn.2

/-- `tree_to_table(t, P)` for a tree whose leaves are all at depth `len(P) - 1`, distinct keys in every branch:
exactly the rows of the items that match, in `tree_items` order — nothing else, each once -/
theorem toTable_eq_filterMap : ∀ (P : List Seg) (t : Val), P ≠ [] → Uni (P.length - 1) t →
    toTable P t = (items t).filterMap fun pv => rowOf P pv.1 pv.2
  | [], _, h, _ => absurd rfl h
  | [seg], t, _, hU => by
      have hleaf : ∀ s, t ≠ .dict s := (Uni_zero t).1 hU
      rw [items_leaf t hleaf]
      cases seg with
      | wild n =>
        cases t with
        | dict s => exact absurd rfl (hleaf s)
        | _ => simp [toTable, rowOf]
      | lit s =>
        cases t with
        | dict s => exact absurd rfl (hleaf s)
        | _ => simp only [toTable, rowOf, List.filterMap_cons, List.filterMap_nil]; split <;> simp_all
  | seg :: s2 :: r2, t, _, hU => by
      have hlen : (seg :: s2 :: r2).length - 1 = ((s2 :: r2).length - 1) + 1 := by simp
      rw [hlen] at hU
      obtain ⟨kvs, rfl⟩ := Uni_succ_inv _ t hU
      rw [Uni_succ_dict] at hU
      have ih : ∀ kv ∈ kvs, toTable (s2 :: r2) kv.2 = (items kv.2).filterMap fun pv => rowOf (s2 :: r2) pv.1 pv.2 :=
        fun kv hkv => toTable_eq_filterMap (s2 :: r2) kv.2 (by simp) (hU.2 kv hkv)
      simp only [items]
      rw [itemsKVs_eq_flatMap, List.filterMap_flatMap]
      cases seg with
      | wild n =>
        simp only [toTable]
        apply flatMap_congr'
        intro kv hkv
        rw [ih kv hkv, List.map_filterMap, List.filterMap_map]
        congr 1
      | lit s =>
        simp only [toTable]
        have := flatMap_lookup s (fun v => (items v).filterMap fun pv => rowOf (s2 :: r2) pv.1 pv.2) kvs hU.1
        have e : (kvs.flatMap fun a => List.filterMap (fun pv => rowOf (Seg.lit s :: s2 :: r2) pv.1 pv.2)
            (List.map (fun pv => (a.1 :: pv.1, pv.2)) (items a.2))) =
            kvs.flatMap (fun kv => if kv.1 = s then (items kv.2).filterMap (fun pv => rowOf (s2 :: r2) pv.1 pv.2) else []) := by
          apply flatMap_congr'
          intro kv _
          rw [List.filterMap_map]
          by_cases e : kv.1 = s
          · simp only [if_pos e]; congr 1; funext pv; simp [Function.comp, rowOf_lit_cons, e]
          · simp only [if_neg e]
            rw [List.filterMap_eq_nil_iff]
            intro pv _
            simp [rowOf_lit_cons, e]
        rw [e, this]
        cases hl : lookup s kvs with
        | none => rfl
        | some v => exact ih (s, v) (mem_of_lookup s v kvs hl)

/-! ### the item `table_to_tree` writes for a row -/

/-- the value a segment contributes to the item: the literal itself / the row's cell of that name (`KeyError` if unbound) -/
def segVal (row : Row) : Seg → Res Val
  | .lit s => pure (.cell (.str s))
  | .wild n => match lookup n row with
    | some v => pure v
    | none => throw Err.key

/-- keys of the path must be strings -/
def asKey : Val → Res String
  | .cell (.str s) => pure s
  | _ => throw Err.other

abbrev strV (s : String) : Val := .cell (.str s)

theorem rowItem_eq (P : List Seg) (row : Row) : rowItem P row = (do
    let vals ← P.mapM (segVal row)
    match vals.reverse with
    | [] => throw Err.value
    | v :: rp =>
      let path ← rp.reverse.mapM asKey
      pure (path, v)) := by
  rfl

theorem mapM_cons_ok {α β : Type} (f : α → Res β) (x : α) (xs : List α) (ys : List β) :
    (x :: xs).mapM f = .ok ys ↔ ∃ y ys', f x = .ok y ∧ xs.mapM f = .ok ys' ∧ ys = y :: ys' := by
  simp only [List.mapM_cons, bind, Except.bind]
  cases hx : f x with
  | error e => simp
  | ok y =>
    cases hr : xs.mapM f with
    | error e => simp
    | ok zs =>
      simp only [pure, Except.pure, Except.ok.injEq]
      constructor
      · rintro rfl; exact ⟨y, zs, rfl, rfl, rfl⟩
      · rintro ⟨y', ys', h1, h2, rfl⟩; cases h1; cases h2; rfl

theorem mapM_nil_ok {α β : Type} (f : α → Res β) (ys : List β) : ([] : List α).mapM f = .ok ys ↔ ys = [] := by
  simp only [List.mapM_nil, pure, Except.pure, Except.ok.injEq]
  exact eq_comm

theorem mapM_asKey_ok : ∀ (xs : List Val) (ys : List String), xs.mapM asKey = .ok ys ↔ xs = ys.map strV
  | [], ys => by rw [mapM_nil_ok]; cases ys <;> simp
  | x :: xs, ys => by
      rw [mapM_cons_ok]
      constructor
      · rintro ⟨y, ys', h1, h2, rfl⟩
        have : x = strV y := by
          unfold asKey at h1
          split at h1
          · simp only [pure, Except.pure, Except.ok.injEq] at h1; subst h1; rfl
          · cases h1
        rw [this, (mapM_asKey_ok xs ys').1 h2]; rfl
      · intro h
        cases ys with
        | nil => simp at h
        | cons y ys' =>
          simp only [List.map_cons, List.cons.injEq] at h
          exact ⟨y, ys', by rw [h.1]; rfl, (mapM_asKey_ok xs ys').2 h.2, rfl⟩

theorem map_strV_inj : ∀ (a b : List String), a.map strV = b.map strV → a = b
  | [], [], _ => rfl
  | [], _ :: _, h => by simp at h
  | _ :: _, [], h => by simp at h
  | x :: a, y :: b, h => by
      simp only [List.map_cons, List.cons.injEq, strV, Val.cell.injEq, Cell.str.injEq] at h
      rw [h.1, map_strV_inj a b h.2]

/-- `rowItem P row = (p, v)` says: the segment values are the keys of `p` (as strings) followed by the leaf `v` -/
theorem rowItem_ok_iff (P : List Seg) (row : Row) (p : Path) (v : Val) :
    rowItem P row = .ok (p, v) ↔ P.mapM (segVal row) = .ok (p.map strV ++ [v]) := by
  rw [rowItem_eq]
  simp only [bind, Except.bind]
  cases hm : P.mapM (segVal row) with
  | error e => simp
  | ok vals =>
    simp only [Except.ok.injEq]
    cases hr : vals.reverse with
    | nil =>
      have : vals = [] := by simpa using hr
      subst this
      simp [throw, throwThe, MonadExceptOf.throw]
    | cons v' rp =>
      have hv : vals = rp.reverse ++ [v'] := by
        have := congrArg List.reverse hr
        simpa using this
      subst hv
      simp only []
      cases hk : rp.reverse.mapM asKey with
      | error e =>
        simp only [false_iff, reduceCtorEq]
        intro h
        have h' := List.append_inj' h rfl
        have := (mapM_asKey_ok rp.reverse p).2 h'.1
        rw [hk] at this; cases this
      | ok path =>
        have hp := (mapM_asKey_ok _ _).1 hk
        simp only [pure, Except.pure, Except.ok.injEq, Prod.mk.injEq]
        rw [hp]
        constructor
        · rintro ⟨rfl, rfl⟩; rfl
        · intro h
          have h' := List.append_inj' h rfl
          exact ⟨map_strV_inj _ _ h'.1, by simpa using h'.2⟩

/-! ### a row restricted to the names of the pattern -/

/-- the wildcard names of a pattern, in order -/
def names : List Seg → List String
  | [] => []
  | .wild n :: rest => n :: names rest
  | .lit _ :: rest => names rest

/-- the row restricted to the names of the pattern, columns in the order `tree_to_table` emits them (innermost wildcard
first; a repeated name keeps its innermost position).  Pinned down by `restrict_lookup`, `restrict_keys_nodup` and, for
distinct names, `restrict_eq_of_nodup`. -/
def restrict : List Seg → Row → Row
  | [], _ => []
  | .lit _ :: rest, row => restrict rest row
  | .wild n :: rest, row =>
    match lookup n row with
    | some x => DA.set n x (restrict rest row)
    | none => restrict rest row

/-- cell by cell: a name of the pattern keeps the row's cell, every other column is dropped -/
theorem restrict_lookup (row : Row) (m : String) : ∀ (P : List Seg),
    lookup m (restrict P row) = if m ∈ names P then lookup m row else none
  | [] => by simp [restrict, names, lookup]
  | .lit _ :: rest => by simp only [restrict, names]; exact restrict_lookup row m rest
  | .wild n :: rest => by
      simp only [restrict, names, List.mem_cons]
      cases hl : lookup n row with
      | none =>
        simp only []
        rw [restrict_lookup row m rest]
        by_cases e : m = n
        · subst e; simp [hl]
        · simp [e]
      | some x =>
        simp only []
        rw [lookup_set, restrict_lookup row m rest]
        by_cases e : m = n
        · subst e; simp [hl]
        · simp [e]

theorem restrict_keys_nodup (row : Row) : ∀ (P : List Seg), ((restrict P row).map (·.1)).Nodup
  | [] => by simp [restrict]
  | .lit _ :: rest => by simp only [restrict]; exact restrict_keys_nodup row rest
  | .wild n :: rest => by
      simp only [restrict]
      split
      · exact nodup_keys_set _ _ _ (restrict_keys_nodup row rest)
      · exact restrict_keys_nodup row rest

theorem restrict_keys_sub (row : Row) (P : List Seg) (k : String) (h : k ∈ (restrict P row).map (·.1)) : k ∈ names P := by
  have := (lookup_isSome_iff k (restrict P row)).2 h
  rw [restrict_lookup] at this
  by_cases e : k ∈ names P
  · exact e
  · simp [e] at this

/-- distinct names: the columns are the pattern's names, last wildcard first, each with the row's cell -/
theorem restrict_eq_of_nodup (row : Row) : ∀ (P : List Seg), (names P).Nodup →
    restrict P row = (names P).reverse.filterMap fun n => (lookup n row).map fun x => (n, x)
  | [], _ => rfl
  | .lit _ :: rest, h => by simp only [restrict, names] at h ⊢; exact restrict_eq_of_nodup row rest h
  | .wild n :: rest, h => by
      simp only [names, List.nodup_cons] at h
      simp only [restrict, names, List.reverse_cons, List.filterMap_append, List.filterMap_cons, List.filterMap_nil]
      rw [← restrict_eq_of_nodup row rest h.2]
      cases hl : lookup n row with
      | none => simp
      | some x =>
        simp only [Option.map_some]
        exact set_of_not_mem n x _ (fun hk => h.1 (restrict_keys_sub row rest n hk))

/-! ### (b) `rowOf P (rowItem P row)` is the row restricted to the pattern's names -/

theorem rowOf_of_segs (row : Row) : ∀ (P : List Seg) (p : Path) (v : Val),
    P.mapM (segVal row) = .ok (p.map strV ++ [v]) → rowOf P p v = some (restrict P row)
  | [], p, v, h => by
      rw [mapM_nil_ok] at h
      simp at h
  | seg :: rest, p, v, h => by
      rw [mapM_cons_ok] at h
      obtain ⟨x, xs, hx, hxs, e⟩ := h
      cases p with
      | nil =>
        simp only [List.map_nil, List.nil_append, List.cons.injEq] at e
        obtain ⟨rfl, rfl⟩ := e
        have hrest : rest = [] := by
          have := mapM_ok_length _ rest [] hxs
          exact List.eq_nil_of_length_eq_zero this.symm
        subst hrest
        cases seg with
        | wild n =>
          simp only [segVal] at hx
          cases hl : lookup n row with
          | none => simp [hl, throw, throwThe, MonadExceptOf.throw] at hx
          | some y =>
            simp only [hl, pure, Except.pure, Except.ok.injEq] at hx
            subst hx
            simp [rowOf, restrict, hl, DA.set]
        | lit s =>
          simp only [segVal, pure, Except.pure, Except.ok.injEq] at hx
          subst hx
          simp [rowOf, restrict]
      | cons k p' =>
        simp only [List.map_cons, List.cons_append, List.cons.injEq] at e
        obtain ⟨rfl, rfl⟩ := e
        have ih := rowOf_of_segs row rest p' v hxs
        cases seg with
        | wild n =>
          simp only [segVal] at hx
          cases hl : lookup n row with
          | none => simp [hl, throw, throwThe, MonadExceptOf.throw] at hx
          | some y =>
            simp only [hl, pure, Except.pure, Except.ok.injEq] at hx
            subst hx
            rw [rowOf_wild_cons, ih]
            simp [restrict, hl]
        | lit s =>
          simp only [segVal, pure, Except.pure, Except.ok.injEq, strV, Val.cell.injEq, Cell.str.injEq] at hx
          subst hx
          rw [rowOf_lit_cons, if_pos rfl, ih]
          simp [restrict]

/-- (b) the row `tree_to_table` makes of the item written for `row` is `row` restricted to the pattern's names -/
theorem rowOf_rowItem (P : List Seg) (row : Row) (pv : Path × Val) (h : rowItem P row = .ok pv) :
    rowOf P pv.1 pv.2 = some (restrict P row) :=
  rowOf_of_segs row P pv.1 pv.2 ((rowItem_ok_iff P row pv.1 pv.2).1 h)

/-! ### the other direction: the item written for the row of an item is that item (distinct names) -/

theorem segs_of_rowOf : ∀ (P : List Seg) (p : Path) (v : Val) (r : Row), (names P).Nodup → rowOf P p v = some r →
    ∀ row' : Row, (∀ n ∈ names P, lookup n row' = lookup n r) → P.mapM (segVal row') = .ok (p.map strV ++ [v])
  | [], p, v, r, _, h, _, _ => by rw [rowOf_nil] at h; cases h
  | seg :: rest, [], v, r, _, h, row', hrow => by
      cases rest with
      | cons s2 r2 => rw [rowOf_long_nil] at h; cases h
      | nil =>
        rw [mapM_cons_ok]
        refine ⟨v, [], ?_, by simp [pure, Except.pure], rfl⟩
        cases seg with
        | wild n =>
          simp only [rowOf, Option.some.injEq] at h
          subst h
          have := hrow n (by simp [names])
          simp only [lookup, if_true] at this
          simp [segVal, this, pure, Except.pure]
        | lit s =>
          simp only [rowOf] at h
          split at h
          · rename_i e; subst e; rfl
          · cases h
  | .wild n :: rest, k :: p', v, r, hn, h, row', hrow => by
      simp only [names, List.nodup_cons] at hn
      rw [rowOf_wild_cons] at h
      cases hr : rowOf rest p' v with
      | none => simp [hr] at h
      | some r0 =>
        simp only [hr, Option.map_some, Option.some.injEq] at h
        subst h
        have hk : lookup n row' = some (strV k) := by
          rw [hrow n (by simp [names]), lookup_set]; simp
        have ih := segs_of_rowOf rest p' v r0 hn.2 hr row' (by
          intro m hm
          have hne : m ≠ n := by rintro rfl; exact hn.1 hm
          rw [hrow m (by simp [names, hm]), lookup_set, if_neg hne])
        rw [mapM_cons_ok]
        exact ⟨strV k, _, by simp [segVal, hk, pure, Except.pure], ih, rfl⟩
  | .lit s :: rest, k :: p', v, r, hn, h, row', hrow => by
      simp only [names] at hn hrow
      rw [rowOf_lit_cons] at h
      split at h
      · rename_i e
        subst e
        have ih := segs_of_rowOf rest p' v r hn h row' hrow
        rw [mapM_cons_ok]
        exact ⟨strV k, _, rfl, ih, rfl⟩
      · cases h

/-- for a pattern with distinct names, `table_to_tree` writes for the row of an item exactly that item -/
theorem rowItem_rowOf (P : List Seg) (p : Path) (v : Val) (r : Row) (hn : (names P).Nodup) (h : rowOf P p v = some r) :
    rowItem P r = .ok (p, v) :=
  (rowItem_ok_iff P r p v).2 (segs_of_rowOf P p v r hn h r (fun _ _ => rfl))

/-- mapping a partial inverse over the image -/
theorem mapM_filterMap_inv {α β : Type} (f : α → Option β) (g : β → Res α) : ∀ (xs : List α),
    (∀ x ∈ xs, ∃ y, f x = some y ∧ g y = .ok x) → (xs.filterMap f).mapM g = .ok xs
  | [], _ => rfl
  | x :: xs, h => by
      obtain ⟨y, hy, hg⟩ := h x (by simp)
      simp only [List.filterMap_cons, hy]
      rw [mapM_cons_ok]
      exact ⟨x, xs, hg, mapM_filterMap_inv f g xs (fun z hz => h z (by simp [hz])), rfl⟩

/-- the rows of a table whose rows all bind the pattern, item by item -/
theorem filterMap_rowOf_of_mapM (P : List Seg) : ∀ (rows : List Row) (its : List (Path × Val)),
    rows.mapM (rowItem P) = .ok its → (its.filterMap fun pv => rowOf P pv.1 pv.2) = rows.map (restrict P)
  | [], its, h => by rw [mapM_nil_ok] at h; subst h; rfl
  | row :: rows, its, h => by
      rw [mapM_cons_ok] at h
      obtain ⟨pv, its', h1, h2, rfl⟩ := h
      simp only [List.filterMap_cons, rowOf_rowItem P row pv h1, List.map_cons]
      rw [filterMap_rowOf_of_mapM P rows its' h2]

theorem mem_of_mapM_ok {α β : Type} (f : α → Res β) : ∀ (xs : List α) (ys : List β), xs.mapM f = .ok ys →
    ∀ y ∈ ys, ∃ x ∈ xs, f x = .ok y
  | [], ys, h, y, hy => by rw [mapM_nil_ok] at h; subst h; simp at hy
  | x :: xs, ys, h, y, hy => by
      rw [mapM_cons_ok] at h
      obtain ⟨y0, ys', h1, h2, rfl⟩ := h
      rcases List.mem_cons.1 hy with rfl | hy
      · exact ⟨x, by simp, h1⟩
      · obtain ⟨x', hx', hf⟩ := mem_of_mapM_ok f xs ys' h2 y hy
        exact ⟨x', by simp [hx'], hf⟩

end Pyg.TreeTable
