/-
  Lemmas for bound lists with an unbounded end (`None` as the last upper bound): C13.
-/
import PygModel.Slice
import PygProofs.Lemmas.DfSliceLemmas

namespace Pyg.Slice
open Pyg

theorem filterMap_id_map_some {α} (l : List α) : (l.map some).filterMap id = l := by
  induction l with
  | nil => rfl
  | cons a l ih => simp

theorem any_isNone_map_some {α} (l : List α) : (l.map some).any Option.isNone = false := by
  induction l with
  | nil => rfl
  | cons a l ih => simp

/-- on a list of dates `_is_non_decreasing` is `nonDecreasing` -/
theorem directionO_dates (l : List Int) : directionO (l.map some) = .ok (nonDecreasing l) := by
  unfold directionO
  by_cases h : l.length < 2
  · simp only [List.length_map, h, if_true]
    match l, h with
    | [], _ => rfl
    | [a], _ => rfl
  · have h1 : (l.map some).getLast? ≠ some Option.none := by
      rw [List.getLast?_map]; cases l.getLast? <;> simp
    have h2 : (l.map some).head? ≠ some Option.none := by
      rw [List.head?_map]; cases l.head? <;> simp
    simp [h]

/-- a list of dates followed by `None`: the `None` is set aside, the dates decide -/
theorem directionO_open (ubs : List Int) (hne : ubs ≠ []) :
    directionO (ubs.map some ++ [Option.none]) = .ok (nonDecreasing ubs) := by
  unfold directionO
  have hl : ¬ (ubs.map some ++ [Option.none]).length < 2 := by
    cases ubs with
    | nil => exact absurd rfl hne
    | cons a t => simp
  have hl' : ¬ (ubs.length + 1 < 2) := by simpa using hl
  simp [hl']

theorem normaliseO_dates {α} (dfs : List α) (lb ub : Option (List Int)) :
    normaliseO dfs (lb.map (List.map some)) (ub.map (List.map some)) = normalise dfs lb ub := by
  cases lb with
  | none =>
    cases ub with
    | none => rfl
    | some ub =>
      simp only [normaliseO, normalise, Option.map_none, Option.map_some, directionO_dates, bind, Except.bind, pure, Except.pure]
      split <;> simp [List.map_reverse, List.map_dropLast]
  | some lb =>
    cases ub with
    | none =>
      simp only [normaliseO, normalise, Option.map_none, Option.map_some, directionO_dates, bind, Except.bind, pure, Except.pure]
      split <;> simp [List.map_reverse]
    | some ub =>
      simp only [normaliseO, normalise, Option.map_some, directionO_dates, bind, Except.bind, pure, Except.pure]
      split
      · rfl
      · split <;> simp [List.map_reverse]

/-- every row of the frames `df_slice` builds from the series carries a timestamp of one of the series -/
theorem framesOf_rows_lt (dfs : List TS) (n : Nat) (M : Int) (hM : ∀ s ∈ dfs, ∀ t ∈ s.index, t < M) :
    ∀ f ∈ framesOf dfs n, ∀ r ∈ f.rows, r.1 < M := by
  intro f hf r hr
  unfold framesOf at hf
  split at hf
  · simp only [List.mem_map, List.mem_range] at hf
    obtain ⟨i, _, rfl⟩ := hf
    obtain ⟨⟨s, hs, ht⟩, _⟩ := mem_concatCols.mp hr
    exact hM s (List.mem_of_mem_drop (List.mem_of_mem_take hs)) _ ht
  · simp only [List.mem_map] at hf
    obtain ⟨s, hs, rfl⟩ := hf
    simp only [ofTS, List.mem_map] at hr
    obtain ⟨p, hp, rfl⟩ := hr
    exact hM s hs p.1 (by simp only [TS.index, List.mem_map]; exact ⟨p, hp, rfl⟩)

theorem stitchO_general (dfs : List TS) (lb ub : Option (List (Option Int))) (oc : Option (List Char)) (n : Nat) (l u : Bool)
    (hb : brackets oc = .ok (l, u)) (dfs' : List TS) (lbs ubs : List (Option Int))
    (hnorm : normaliseO dfs lb ub = .ok (dfs', lbs, ubs)) (h1 : lbs.length = dfs'.length) (h2 : ubs.length = dfs'.length) :
    stitchO dfs lb ub oc n = .ok (assemble (piecesG dfs' lbs ubs n l u)) := by
  simp only [stitchO, hnorm, bind, Except.bind, pure, Except.pure]
  rw [zipper3_eq _ _ _ (by rw [framesOf_length]; exact h1) (by rw [framesOf_length]; exact h2)]
  simp only [cutAll_eq _ oc l u hb]
  rfl

/-- an unbounded last piece is the piece cut at any bound beyond every timestamp -/
theorem piecesG_open (dfs : List TS) (lbs : List (Option Int)) (ubs : List Int) (n : Nat) (l u : Bool) (M : Int)
    (hM : ∀ s ∈ dfs, ∀ t ∈ s.index, t < M) :
    piecesG dfs lbs (ubs.map some ++ [Option.none]) n l u = piecesG dfs lbs ((ubs ++ [M]).map some) n l u := by
  simp only [piecesG]
  apply List.ext_getElem
  · simp
  · intro i h1 h2
    simp only [List.getElem_map, List.getElem_zip, cut]
    congr 1
    apply List.filter_congr
    intro r hr
    have hlt : r.1 < M := framesOf_rows_lt dfs n M hM _ (List.getElem_mem _) r hr
    simp only [List.length_map, List.length_zip, List.length_append, List.length_cons, List.length_nil] at h1
    by_cases hi : i < ubs.length
    · simp [List.getElem_append_left, hi]
    · have hi' : i = ubs.length := by omega
      subst hi'
      simp [inWindow, ubOk, optDate]
      cases u <;> simp <;> omega

end Pyg.Slice
