/-
  Lemmas for bound lists with an unbounded end (`None` as the last upper bound): C13.
-/
import PygModel.Slice
import PygProofs.Lemmas.DfSliceLemmas

namespace Pyg.Slice
open Pyg

theorem filterMap_id_map_some {α} (l : List α) : (l.map some).filterMap id = l := by
  induction l with
  | nil => rfl
  | cons a l ih => simp

theorem any_isNone_map_some {α} (l : List α) : (l.map some).any Option.isNone = false := by
  induction l with
  | nil => rfl
  | cons a l ih => simp

/-- on a list of dates `_is_non_decreasing` is `nonDecreasing` -/
theorem directionO_dates (l : List Int) : directionO (l.map some) = .ok (nonDecreasing l) := by
  unfold directionO
  by_cases h : l.length < 2
  · simp only [List.length_map, h, if_true]
    match l, h with
    | [], _ => rfl
    | [a], _ => rfl
  · have h1 : (l.map some).getLast? ≠ some Option.none := by
      rw [List.getLast?_map]; cases l.getLast? <;> simp
    have h2 : (l.map some).head? ≠ some Option.none := by
      rw [List.head?_map]; cases l.head? <;> simp
    simp [h]

/-- a list of dates followed by `None`: the `None` is set aside, the dates decide -/
theorem directionO_open (ubs : List Int) (hne : ubs ≠ []) :
    directionO (ubs.map some ++ [Option.none]) = .ok (nonDecreasing ubs) := by
  unfold directionO
  have hl : ¬ (ubs.map some ++ [Option.none]).length < 2 := by
    cases ubs with
    | nil => exact absurd rfl hne
    | cons a t => simp
  have hl' : ¬ (ubs.length + 1 < 2) := by simpa using hl
  simp [hl']

theorem normaliseO_dates {α} (dfs : List α) (lb ub : Option (List Int)) :
    normaliseO dfs (lb.map (List.map some)) (ub.map (List.map some)) = normalise dfs lb ub := by
  cases lb with
  | none =>
    cases ub with
    | none => rfl
    | some ub =>
      simp only [normaliseO, normalise, Option.map_none, Option.map_some, directionO_dates, bind, Except.bind, pure, Except.pure]
      split <;> simp [List.map_reverse, List.map_dropLast]
  | some lb =>
    cases ub with
    | none =>
      simp only [normaliseO, normalise, Option.map_none, Option.map_some, directionO_dates, bind, Except.bind, pure, Except.pure]
      split <;> simp [List.map_reverse]
    | some ub =>
      simp only [normaliseO, normalise, Option.map_some, directionO_dates, bind, Except.bind, pure, Except.pure]
      split
      · rfl
      · split <;> simp [List.map_reverse]

/-- every row of the frames `df_slice` builds from the series carries a timestamp of one of the series -/
theorem framesOf_rows_lt (dfs : List TS) (n : Nat) (M : Int) (hM : ∀ s ∈ dfs, ∀ t ∈ s.index, t < M) :
    ∀ f ∈ framesOf dfs n, ∀ r ∈ f.rows, r.1 < M := by
  intro f hf r hr
  unfold framesOf at hf
  split at hf
  · simp only [List.mem_map, List.mem_range] at hf
    obtain ⟨i, _, rfl⟩ := hf
    obtain ⟨⟨s, hs, ht⟩, _⟩ := mem_concatCols.mp hr
    exact hM s (List.mem_of_mem_drop (List.mem_of_mem_take hs)) _ ht
  · simp only [List.mem_map] at hf
    obtain ⟨s, hs, rfl⟩ := hf
    simp only [ofTS, List.mem_map] at hr
    obtain ⟨p, hp, rfl⟩ := hr
    exact hM s hs p.1 (by simp only [TS.index, List.mem_map]; exact ⟨p, hp, rfl⟩)

theorem stitchO_general (dfs : List TS) (lb ub : Option (List (Option Int))) (oc : Option (List Char)) (n : Nat) (l u : Bool)
    (hb : brackets oc = .ok (l, u)) (dfs' : List TS) (lbs ubs : List (Option Int))
    (hnorm : normaliseO dfs lb ub = .ok (dfs', lbs, ubs)) (h1 : lbs.length = dfs'.length) (h2 : ubs.length = dfs'.length) :
    stitchO dfs lb ub oc n = .ok (assemble (piecesG dfs' lbs ubs n l u)) := by
  simp only [stitchO, hnorm, bind, Except.bind, pure, Except.pure]
  rw [zipper3_eq _ _ _ (by rw [framesOf_length]; exact h1) (by rw [framesOf_length]; exact h2)]
  simp only [cutAll_eq _ oc l u hb]
  rfl

/-- an unbounded last piece is the piece cut at any bound beyond every timestamp -/
theorem piecesG_open (dfs : List TS) (lbs : List (Option Int)) (ubs : List Int) (n : Nat) (l u : Bool) (M : Int)
    (hM : ∀ s ∈ dfs, ∀ t ∈ s.index, t < M) :
    piecesG dfs lbs (ubs.map some ++ [Option.none]) n l u = piecesG dfs lbs ((ubs ++ [M]).map some) n l u := by
  simp only [piecesG]
  apply List.ext_getElem
  · simp
  · intro i h1 h2
    simp only [List.getElem_map, List.getElem_zip, cut]
    congr 1
    apply List.filter_congr
    intro r hr
    have hlt : r.1 < M := framesOf_rows_lt dfs n M hM _ (List.getElem_mem _) r hr
    simp only [List.length_map, List.length_zip, List.length_append, List.length_cons, List.length_nil] at h1
    by_cases hi : i < ubs.length
    · simp [List.getElem_append_left, hi]
    · have hi' : i = ubs.length := by omega
      subst hi'
      simp [inWindow, ubOk, optDate]
      cases u <;> simp <;> omega

end Pyg.Slice

namespace Pyg.Slice
open Pyg

/-! ### `df_unslice` under an unbounded last bound -/

/-- the key an auxiliary closing bound `M` stands for -/
def reopen (M : Int) (k : Int) : Option Int := if k = M then Option.none else some k

theorem reopen_inj (M : Int) {a b : Int} (h : reopen M a = reopen M b) : a = b := by
  unfold reopen at h
  by_cases ha : a = M <;> by_cases hb : b = M <;> simp_all

theorem map_reopen (M : Int) (ubs : List Int) (hM : M ∉ ubs) :
    (ubs ++ [M]).map (reopen M) = ubs.map some ++ [Option.none] := by
  rw [List.map_append]
  congr 1
  · apply List.map_congr_left
    intro a ha
    have : a ≠ M := fun h => hM (h ▸ ha)
    simp [reopen, this]
  · simp [reopen]

theorem eraseDups_of_nodup {α} [BEq α] [LawfulBEq α] : ∀ (l : List α), l.Nodup → l.eraseDups = l
  | [], _ => by simp
  | a :: l, h => by
    have hn := List.nodup_cons.mp h
    rw [List.eraseDups_cons]
    have : l.filter (fun b => !b == a) = l := by
      rw [List.filter_eq_self]
      intro b hb
      have : b ≠ a := fun e => hn.1 (e ▸ hb)
      simp [this]
    rw [this, eraseDups_of_nodup l hn.2]

/-- the slices `df_unslice` cuts under `[u_0 .. u_{k-1}, None]` are the slices under `[u_0 .. u_{k-1}, M]`, `M` beyond every row -/
theorem slicesO_eq (F : Frame) (ubs : List Int) (M : Int) (hM : ∀ r ∈ F.rows, r.1 < M) :
    ((Option.none :: ubs.map some).zip (ubs.map some ++ [Option.none])).map
      (fun x => F.rows.filter fun r => inWindow false true (optDate x.1) (optDate x.2) r.1) = slicesOf F (ubs ++ [M]) := by
  unfold slicesOf
  apply List.ext_getElem
  · simp
  · intro i h1 h2
    simp only [List.getElem_map, List.getElem_zip]
    apply List.filter_congr
    intro r hr
    have hlt := hM r hr
    simp only [List.length_map, List.length_zip, List.length_append, List.length_cons, List.length_nil] at h1
    have hlo : optDate ((Option.none :: ubs.map some)[i]'(by simp; omega)) =
        (Bound.none :: (ubs ++ [M]).dropLast.map Bound.date)[i]'(by simp; omega) := by
      cases i with
      | zero => rfl
      | succ k => simp [optDate]
    rw [hlo]
    by_cases hi : i < ubs.length
    · simp [List.getElem_append_left, hi, optDate]
    · have hi' : i = ubs.length := by simp at h1; omega
      subst hi'
      simp [inWindow, ubOk, optDate]
      omega

theorem handedO_open (F : Frame) (ubs : List Int) (M : Int) (hM : ∀ r ∈ F.rows, r.1 < M) (hMu : M ∉ ubs) :
    handedO F (ubs.map some ++ [Option.none]) = .ok ((rsOf F (ubs ++ [M])).map fun p => (reopen M p.1, p.2)) := by
  have hm : ((Option.none :: (ubs.map some ++ [Option.none]).dropLast).zip (ubs.map some ++ [Option.none])).mapM
      (fun (x : Option Int × Option Int) => match x with
        | (l, u) => sliceWrap F.rows (optDate l) (optDate u) (some ['(', ']'])) = .ok (slicesOf F (ubs ++ [M])) := by
    rw [← slicesO_eq F ubs M hM]
    have hd : (ubs.map some ++ [Option.none]).dropLast = ubs.map some := by simp
    rw [hd]
    apply mapM_ok
    intro x
    obtain ⟨a, b⟩ := x
    have : sliceWrap F.rows (optDate a) (optDate b) (some ['(', ']']) =
        sliceOne F.rows (optDate a) (optDate b) (some ['(', ']']) := by
      cases a <;> cases b <;> rfl
    show sliceWrap F.rows (optDate a) (optDate b) (some ['(', ']']) = _
    rw [this, sliceOne_eq _ _ _ _ false true rfl]
  unfold handedO
  simp only [bind, Except.bind, pure, Except.pure]
  rw [hm]
  simp only [rsOf, List.map_flatMap, List.map_map]
  rw [← map_reopen M ubs hMu]
  congr 2
  funext x
  rw [← List.map_drop, ← List.map_take, List.zipIdx_map, List.map_map]
  rfl

theorem filter_reopen (M : Int) (rs : List (Int × TS)) (u : Int) :
    ((rs.map fun p => (reopen M p.1, p.2)).filter (·.1 == reopen M u)).flatMap (·.2) =
      (rs.filter (·.1 == u)).flatMap (·.2) := by
  induction rs with
  | nil => rfl
  | cons p rs ih =>
    simp only [List.map_cons, List.filter_cons]
    by_cases h : p.1 = u
    · simp only [h, beq_self_eq_true, if_true, List.flatMap_cons, ih]
    · have h' : reopen M p.1 ≠ reopen M u := fun e => h (reopen_inj M e)
      simp only [beq_iff_eq, h, h', if_false, ih]

/-- the series `df_unslice` recovers hold timestamps of the frame only -/
theorem rsOf_index_sub (F : Frame) (ub : List Int) (u : Int) (c : TS) (h : (u, c) ∈ rsOf F ub) :
    ∀ t ∈ c.index, ∃ r ∈ F.rows, r.1 = t := by
  obtain ⟨i, j, hi, _, _, rfl⟩ := mem_rsOf.mp h
  intro t ht
  simp only [TS.index, column, List.mem_map, List.mem_filter] at ht
  obtain ⟨p, ⟨r, ⟨hr, _⟩, rfl⟩, rfl⟩ := ht
  exact ⟨r, hr, rfl⟩

theorem column_ofTS_filter (s : TS) (w : Int → Bool) :
    column 0 ((ofTS s).filter fun r => w r.1) = s.filter fun p => w p.1 := by
  induction s with
  | nil => rfl
  | cons p s ih =>
    simp only [ofTS, List.map_cons, List.filter_cons] at ih ⊢
    split
    · simp only [column, List.map_cons, List.cons.injEq]
      exact ⟨by simp, ih⟩
    · exact ih

/-- a leading `None` is set aside too -/
theorem directionO_leading_none (ds : List Int) (hne : ds ≠ []) :
    directionO (Option.none :: ds.map some) = .ok (nonDecreasing ds) := by
  unfold directionO
  obtain ⟨x, hx⟩ : ∃ x, (ds.map some).getLast? = some (some x) := by
    rw [List.getLast?_map]
    cases h : ds.getLast? with
    | none => exact absurd (List.getLast?_eq_none_iff.mp h) hne
    | some x => exact ⟨x, rfl⟩
  have hne' : ds.map some ≠ [] := by simpa using hne
  have hlast : (Option.none :: ds.map some).getLast? = some (some x) := by
    rw [List.getLast?_cons_of_ne_nil hne', hx]
  have hl : ¬ ((Option.none :: ds.map some).length < 2) := by
    cases ds with
    | nil => exact absurd rfl hne
    | cons a t => simp
  rw [if_neg hl, hlast]
  simp [any_isNone_map_some, filterMap_id_map_some]


theorem nodup_rev {α} {l : List α} (h : l.Nodup) : l.reverse.Nodup :=
  List.pairwise_reverse.mpr (h.imp (fun hab e => hab e.symm))

/-- a bound list read as DEcreasing is the reversed list (with the series reversed) read as increasing -/
theorem stitchO_reverse (dfs : List TS) (D : List (Option Int)) (h1 : directionO D = .ok false) (h2 : directionO D.reverse = .ok true)
    (oc : Option (List Char)) (n : Nat) :
    stitchO dfs Option.none (some D) oc n = stitchO dfs.reverse Option.none (some D.reverse) oc n := by
  simp [stitchO, normaliseO, h1, h2, bind, Except.bind, pure, Except.pure]

theorem unsliceO_reverse (F : Frame) (D : List (Option Int)) (h1 : directionO D = .ok false) (h2 : directionO D.reverse = .ok true)
    (hnd : D.Nodup) :
    unsliceO F D = (unsliceO F D.reverse).map List.reverse := by
  simp only [unsliceO, h1, h2, bind, Except.bind, pure, Except.pure, if_true, Bool.false_eq_true, if_false]
  cases handedO F D.reverse with
  | error e => rfl
  | ok rs =>
    simp only [Except.map]
    rw [eraseDups_of_nodup _ hnd, eraseDups_of_nodup _ (nodup_rev hnd), List.map_reverse, List.reverse_reverse]

end Pyg.Slice
