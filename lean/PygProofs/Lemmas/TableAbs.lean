/-
  Refinement lemmas of C01: every operation of the dictable model (PygModel/Table.lean), seen through
  `Table.abs`, is the list-of-records operation of PygModel/TableSpec.lean.  Part 1: fields, assignment,
  deletion, update, queries.
-/
import PygProofs.Lemmas.TableNodup
import PygModel.TableSpec

namespace Pyg
namespace Abs   -- generic helpers, kept in their own namespace to avoid clashes between merged lemma files

theorem zipWith_map_range {α β} (f : α → Cell → β) (g : Nat → α) (v : List Cell) :
    List.zipWith f ((List.range v.length).map g) v
      = (List.range v.length).map fun i => f (g i) (v.getD i .none) := by
  apply List.ext_getElem
  · simp
  · intro i h1 h2
    have hi : i < v.length := by simpa using h2
    simp [List.getD_eq_getElem?_getD, hi]

theorem mapE_map {α β γ ε} (f : β → Except ε γ) (g : α → β) (xs : List α) :
    mapE f (xs.map g) = mapE (fun x => f (g x)) xs := by
  induction xs with
  | nil => rfl
  | cons x xs ih => simp only [List.map_cons, mapE, ih]

theorem mapE_congr {α β ε} {f g : α → Except ε β} {xs : List α} (h : ∀ x ∈ xs, f x = g x) :
    mapE f xs = mapE g xs := by
  induction xs with
  | nil => rfl
  | cons x xs ih =>
    simp only [mapE, h x List.mem_cons_self, ih fun y hy => h y (List.mem_cons_of_mem _ hy)]

theorem pyIdx_lt {n : Nat} {i : Int} {j : Nat} (h : pyIdx n i = some j) : j < n := by
  unfold pyIdx at h
  split at h
  · cases h; omega
  · split at h
    · cases h; omega
    · cases h

end Abs
open Abs

namespace Table

theorem abs_nil : abs ([] : Table) = ⟨[], []⟩ := rfl

theorem abs_cols (t : Table) : (abs t).cols = t.cols := rfl

theorem abs_rows_length (t : Table) : (abs t).rows.length = t.nrows := by simp [abs, rows]

theorem abs_rows {t : Table} {n : Nat} (hr : t.Rect n) (hne : t ≠ []) :
    (abs t).rows = (List.range n).map t.row := by
  simp [abs, rows, nrows_of_rect hr hne]

theorem abs_of_rect {t : Table} {n : Nat} (hr : t.Rect n) (hne : t ≠ []) :
    abs t = ⟨t.cols, (List.range n).map t.row⟩ := by
  simp [abs, rows, nrows_of_rect hr hne]

theorem cols_isEmpty (t : Table) : t.cols.isEmpty = t.isEmpty := by cases t <;> rfl

theorem cols_ne_nil {t : Table} (hne : t ≠ []) : t.cols ≠ [] := by
  cases t with
  | nil => exact absurd rfl hne
  | cons c t => simp [cols]

theorem isEmpty_false {t : Table} (hne : t ≠ []) : t.isEmpty = false := by cases t <;> simp_all

theorem contains_cols (t : Table) (k : String) : t.cols.contains k = t.has k := by
  unfold Table.has cols
  induction t with
  | nil => rfl
  | cons c t ih =>
    simp only [List.map_cons, List.contains_cons, List.any_cons, ih]
    rw [Bool.beq_comm]

theorem zip_cols_row (t : Table) (i : Nat) :
    t.cols.zip (t.row i) = t.map fun c => (c.1, c.2.getD i .none) := by
  simp [cols, row, List.zip_map']

theorem get?_row (t : Table) (i : Nat) : Recs.get? t.cols (t.row i) = t.cellAt i := by
  funext k
  unfold Recs.get? cellAt col?
  rw [zip_cols_row, List.find?_map]
  have : ((fun x : String × Cell => x.1 == k) ∘ fun c : String × List Cell => (c.1, c.2.getD i Cell.none))
      = fun c => c.1 == k := by funext c; rfl
  rw [this]
  cases t.find? (fun c => c.1 == k) <;> rfl

theorem len_abs {t : Table} {n : Nat} (hr : t.Rect n) : t.len = .ok (abs t).rows.length := by
  rw [len_rect' hr, abs_rows_length]

/-! ### assignment -/

theorem row_set_has {t : Table} {k : String} (v : List Cell) (i : Nat) (h : t.has k = true) :
    (t.set k v).row i = Recs.setField t.cols (t.row i) k (v.getD i .none) := by
  unfold Recs.setField
  rw [contains_cols, h, if_pos rfl, zip_cols_row]
  unfold Table.set row
  rw [if_pos h, List.map_map, List.map_map]
  apply List.map_congr_left
  intro c _
  simp only [Function.comp]
  split <;> rfl

theorem row_set_not_has {t : Table} {k : String} (v : List Cell) (i : Nat) (h : t.has k = false) :
    (t.set k v).row i = Recs.setField t.cols (t.row i) k (v.getD i .none) := by
  unfold Recs.setField
  rw [contains_cols, h]
  simp [Table.set, h, row]

theorem abs_set {t : Table} {n : Nat} (hr : t.Rect n) (hne : t ≠ []) (k : String) {v : List Cell}
    (hv : v.length = n) : abs (t.set k v) = (abs t).setCol k v := by
  rw [abs_of_rect (set_rect hr hv) (set_ne_nil t k v)]
  unfold Recs.setCol
  have he : (abs t).cols.isEmpty = false := by rw [abs_cols, cols_isEmpty, isEmpty_false hne]
  rw [he, abs_rows hr hne, abs_cols, contains_cols]
  simp only [Bool.false_eq_true, if_false]
  subst hv
  rw [zipWith_map_range]
  cases hh : t.has k with
  | true =>
    rw [cols_set_of_has v hh]
    simp only [if_true]
    congr 1
    apply List.map_congr_left
    intro i _
    exact row_set_has v i hh
  | false =>
    rw [cols_set_of_not_has v hh]
    simp only [Bool.false_eq_true, if_false]
    congr 1
    apply List.map_congr_left
    intro i _
    exact row_set_not_has v i hh

theorem abs_set_nil (k : String) (v : List Cell) : abs (Table.set [] k v) = (abs []).setCol k v := by
  simp only [Table.set, has_nil, Bool.false_eq_true, if_false, List.nil_append, abs_nil, Recs.setCol,
    List.isEmpty_nil, if_true]
  simp only [abs, cols, rows, nrows, List.map_cons, List.map_nil, Recs.mk.injEq, true_and]
  apply List.ext_getElem
  · simp
  · intro i h1 h2
    have hi : i < v.length := by simpa using h1
    simp [row, List.getD_eq_getElem?_getD, hi]

/-- **assignment refines the record-wise assignment** (all branches: fits, first column, length 1, misfit) -/
theorem abs_setitem {t : Table} {n : Nat} (hr : t.Rect n) (k : String) (v : ColVal) :
    (t.setitem k v).map abs = (abs t).setitem k v := by
  unfold setitem Recs.setitem
  rw [len_abs hr, abs_cols, cols_isEmpty]
  simp only
  by_cases hne : t = []
  · subst hne
    simp only [List.isEmpty_nil, Bool.or_true, if_true]
    exact congrArg Except.ok (abs_set_nil k v.value)
  · have hn : (abs t).rows.length = n := by rw [abs_rows_length, nrows_of_rect hr hne]
    rw [isEmpty_false hne, hn]
    simp only [Bool.or_false]
    split
    · rename_i h1
      exact congrArg Except.ok (abs_set hr hne k (by simpa using h1))
    · split
      · rename_i h2
        exact congrArg Except.ok (abs_set hr hne k (bcast_length (Or.inr (by simpa using h2))))
      · rfl

/-! ### deletion -/

theorem cols_erase (t : Table) (k : String) : (t.erase k).cols = t.cols.filter (· != k) := by
  unfold erase cols
  rw [List.filter_map]
  rfl

theorem row_erase (t : Table) (k : String) (i : Nat) :
    (t.erase k).row i = Recs.delField t.cols (t.row i) k := by
  unfold Recs.delField
  rw [zip_cols_row, List.filter_map, List.map_map]
  rfl

theorem abs_erase {t : Table} {n : Nat} (hr : t.Rect n) (k : String) :
    abs (t.erase k) =
      Recs.norm ⟨(abs t).cols.filter (· != k), (abs t).rows.map fun row => Recs.delField (abs t).cols row k⟩ := by
  unfold Recs.norm
  simp only [abs_cols, ← cols_erase, cols_isEmpty]
  by_cases he : t.erase k = []
  · rw [he]; rfl
  · have hne : t ≠ [] := by intro h; subst h; exact he rfl
    rw [isEmpty_false he, abs_of_rect (erase_rect k hr) he, abs_rows hr hne]
    simp only [Bool.false_eq_true, if_false, List.map_map, Recs.mk.injEq, true_and]
    apply List.map_congr_left
    intro i _
    exact row_erase t k i

theorem abs_delitem {t : Table} {n : Nat} (hr : t.Rect n) (k : String) :
    (t.delitem k).map abs = (abs t).delitem k := by
  unfold delitem Recs.delitem
  rw [abs_cols, contains_cols]
  split
  · exact congrArg Except.ok (abs_erase hr k)
  · rfl

/-! ### update -/

theorem abs_update {t : Table} {n : Nat} (hr : t.Rect n) (kvs : List (String × ColVal)) :
    (abs t).update kvs = (abs (t.update kvs).1, (t.update kvs).2) := by
  induction kvs generalizing t n with
  | nil => rfl
  | cons kv kvs ih =>
    obtain ⟨k, v⟩ := kv
    have h := abs_setitem hr k v
    simp only [update, Recs.update]
    cases hs : t.setitem k v with
    | error e =>
      rw [hs] at h
      rw [← h]
      rfl
    | ok t' =>
      rw [hs] at h
      rw [← h]
      obtain ⟨n', hn'⟩ := setitem_rect hr hs
      exact ih hn'

theorem abs_updateE {t : Table} {n : Nat} (hr : t.Rect n) (kvs : List (String × ColVal)) :
    (t.updateE kvs).map abs = (abs t).updateE kvs := by
  unfold updateE Recs.updateE
  rw [abs_update hr]
  cases hu : t.update kvs with
  | mk t' oe => cases oe <;> rfl

/-! ### queries -/

theorem abs_getRow {t : Table} {n : Nat} (hr : t.Rect n) (i : Int) : t.getRow i = (abs t).getRow i := by
  unfold Recs.getRow
  rw [abs_cols, cols_isEmpty]
  by_cases hne : t = []
  · subst hne; rfl
  · rw [isEmpty_false hne, abs_rows_length, nrows_of_rect hr hne]
    simp only [Bool.false_eq_true, if_false]
    cases hp : pyIdx n i with
    | none =>
      cases t with
      | nil => exact absurd rfl hne
      | cons c t =>
        simp only [getRow, mapE]
        rw [hr c List.mem_cons_self, hp]
    | some j =>
      have hj := pyIdx_lt hp
      have hrow : (abs t).rows.getD j [] = t.row j := by
        simp [abs_rows hr hne, List.getD_eq_getElem?_getD, hj]
      simp only [hrow]
      rw [zip_cols_row]
      unfold getRow
      apply mapE_of_ok
      intro c hc
      rw [hr c hc, hp]

theorem getCol_of_col? {t : Table} {k : String} {c : List Cell} (h : t.col? k = some c) : t.getCol k = c := by
  simp [getCol, h]

theorem has_eq_isSome_col? (t : Table) (k : String) : t.has k = (t.col? k).isSome := by
  unfold Table.has col?
  rw [Option.isSome_map]
  induction t with
  | nil => rfl
  | cons c t ih =>
    simp only [List.any_cons, List.find?_cons]
    cases c.1 == k <;> simp [ih]

theorem getCol_eq_rows {t : Table} {n : Nat} (hr : t.Rect n) (hne : t ≠ []) (k : String) :
    t.getCol k = (abs t).rows.map fun row => Recs.lookup (abs t).cols row k := by
  rw [abs_rows hr hne, List.map_map]
  have hl : (t.getCol k).length = n := by rw [getCol_length k hr, nrows_of_rect hr hne]
  apply List.ext_getElem
  · simp [hl]
  · intro i h1 h2
    simp only [List.getElem_map, List.getElem_range, Function.comp, abs_cols, lookup_row]
    simp [List.getD_eq_getElem?_getD, h1]

theorem abs_getColE {t : Table} {n : Nat} (hr : t.Rect n) (k : String) : t.getColE k = (abs t).getCol k := by
  unfold getColE Recs.getCol
  rw [abs_cols, contains_cols, has_eq_isSome_col?]
  cases hc : t.col? k with
  | none => rfl
  | some c =>
    have hne : t ≠ [] := by intro h; subst h; simp [col?] at hc
    simp only [Option.isSome_some, if_true]
    have := getCol_eq_rows hr hne k
    rw [abs_cols] at this
    rw [← this, getCol_of_col? hc]

theorem abs_iter (t : Table) : t.iter = (abs t).iter := rfl

theorem abs_applyFn (t : Table) (f : Fn) : t.applyFn f = (abs t).applyFn f := by
  unfold applyFn Recs.applyFn
  simp only [abs, rows, mapE_map, get?_row]

theorem abs_applyFnK (t : Table) (key : String) (f : Fn) : t.applyFnK key f = (abs t).applyFnK key f := by
  unfold applyFnK Recs.applyFnK
  simp only [abs, rows, mapE_map, get?_row]

/-- all requested columns exist: `mapE getColE` returns them -/
theorem mapE_getColE_ok (t : Table) (ks : List String) (h : ks.all t.cols.contains = true) :
    mapE t.getColE ks = .ok (ks.map t.getCol) := by
  apply mapE_of_ok
  intro k hk
  have := List.all_eq_true.1 h k hk
  rw [contains_cols, has_eq_isSome_col?] at this
  unfold getColE
  cases hc : t.col? k with
  | none => simp [hc] at this
  | some c => simp [getCol, hc]

theorem mapE_getColE_err (t : Table) (ks : List String) (h : ¬ ks.all t.cols.contains = true) :
    mapE t.getColE ks = .error .key := by
  induction ks with
  | nil => simp at h
  | cons k ks ih =>
    simp only [mapE]
    cases hc : t.getColE k with
    | error e =>
      unfold getColE at hc
      split at hc
      · cases hc
      · cases hc; rfl
    | ok c =>
      have hk : t.cols.contains k = true := by
        rw [contains_cols, has_eq_isSome_col?]
        unfold getColE at hc
        split at hc
        · rename_i c' hc'; simp [hc']
        · cases hc
      have : ¬ ks.all t.cols.contains = true := by
        intro hall
        apply h
        rw [List.all_cons, hk, hall]
        rfl
      simp only [ih this]

theorem foldl_min_const (ls : List Nat) (n : Nat) (h : ∀ l ∈ ls, l = n) : ls.foldl min n = n := by
  induction ls with
  | nil => rfl
  | cons l ls ih =>
    rw [List.foldl_cons, h l List.mem_cons_self, Nat.min_self]
    exact ih fun l' hl' => h l' (List.mem_cons_of_mem _ hl')

theorem abs_getTuple {t : Table} {n : Nat} (hr : t.Rect n) (ks : List String) :
    t.getTuple ks = (abs t).getTuple ks := by
  unfold getTuple Recs.getTuple
  rw [abs_cols]
  by_cases hall : ks.all t.cols.contains = true
  · rw [mapE_getColE_ok t ks hall, if_pos hall]
    simp only
    cases ks with
    | nil => rfl
    | cons k ks =>
      have hk : t.has k = true := by
        have := List.all_eq_true.1 hall k List.mem_cons_self
        rwa [contains_cols] at this
      have hne : t ≠ [] := by intro h; subst h; simp [Table.has] at hk
      have hlen : ∀ k', (t.getCol k').length = n := fun k' => by
        rw [getCol_length k' hr, nrows_of_rect hr hne]
      have hmin : (((k :: ks).map t.getCol).map (·.length)).foldl min (((k :: ks).map t.getCol).headD []).length = n := by
        simp only [List.map_cons, List.headD_cons, hlen]
        apply foldl_min_const
        intro l hl
        simp only [List.mem_cons, List.mem_map] at hl
        rcases hl with rfl | ⟨c, ⟨k', _, rfl⟩, rfl⟩
        · rfl
        · exact hlen k'
      rw [hmin, abs_rows hr hne]
      simp only [List.isEmpty_cons, Bool.false_eq_true, if_false, List.map_map]
      congr 1
      apply List.map_congr_left
      intro i _
      simp only [Function.comp]
      apply List.map_congr_left
      intro k' _
      simp only [Function.comp]
      exact (lookup_row t i k').symm
  · rw [mapE_getColE_err t ks hall, if_neg hall]

end Table
end Pyg
