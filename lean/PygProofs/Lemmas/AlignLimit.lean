/-
  Helper lemmas for C03: `limit` on the as-of join.  The model walks along the requested labels with a counter
  (`limAux`, pandas' `pad` / `backfill`); here it is shown equal to a counter-free description: a requested label `t` gets
  the observation `(s, v)` it lands on iff `s = t` or fewer than `limit` requested labels lie strictly between `s` and `t`.
  Both directions are handled by one induction (`before d`).
-/
import PygModel.Align
import PygProofs.Lemmas.AlignLemmas
import PygProofs.Lemmas.AlignAsOf

namespace Pyg.Align
open Pyg Pyg.Fill

/-- `a` comes strictly before `b` in the direction of the fill -/
def before (d : Dir) (a b : Int) : Bool :=
  match d with
  | .ffill => decide (a < b)
  | .bfill => decide (b < a)

theorem before_irrefl (d : Dir) (a : Int) : before d a a = false := by cases d <;> simp [before]
theorem before_asymm (d : Dir) (a b : Int) (h : before d a b = true) : before d b a = false := by
  cases d <;> simp [before] at * <;> omega
theorem before_trans (d : Dir) (a b c : Int) (h1 : before d a b = true) (h2 : before d b c = true) : before d a c = true := by
  cases d <;> simp [before] at * <;> omega
theorem before_total (d : Dir) (a b : Int) (hne : a ≠ b) (h : before d b a = false) : before d a b = true := by
  cases d <;> simp [before] at * <;> omega

/-- what the lookup `asofObs` must satisfy for the counter argument (both hold for `posAsOf` on sorted labels and for `posNext`) -/
structure AsofOK (d : Dir) (o : List (Int × Int)) : Prop where
  notAfter : ∀ t s v, asofObs d o t = some (s, v) → before d t s = false
  mono : ∀ t t' s' v', before d t t' = true → asofObs d o t' = some (s', v') →
    (asofObs d o t).map Prod.fst ≠ some s' → before d t s' = true

/-- counter-free cell: `pre` = the requested labels already passed -/
def limCell (d : Dir) (lim : Option Nat) (o : List (Int × Int)) (pre : List Int) (t : Int) : Option Int :=
  match asofObs d o t with
  | Option.none => Option.none
  | some (s, v) => if s = t ∨ within lim (pre.countP fun u => before d s u) = true then some v else Option.none

def limSpec (d : Dir) (lim : Option Nat) (o : List (Int × Int)) : List Int → List Int → Col
  | _, [] => []
  | pre, t :: ts => limCell d lim o pre t :: limSpec d lim o (pre ++ [t]) ts

/-- the meaning of the state `(prev, k)` after the requested labels `pre` -/
def LimState (d : Dir) (o : List (Int × Int)) (pre : List Int) (prev : Option Int) (k : Nat) : Prop :=
  (pre = [] ∧ prev = Option.none ∧ k = 0) ∨
  ∃ init u, pre = init ++ [u] ∧ prev = (asofObs d o u).map Prod.fst ∧
    ∀ s, prev = some s → k = pre.countP fun x => before d s x

theorem limAux_spec (d : Dir) (lim : Option Nat) (o : List (Int × Int)) (hok : AsofOK d o) (ts pre : List Int)
    (prev : Option Int) (k : Nat) (hs : (pre ++ ts).Pairwise fun a b => before d a b = true)
    (hst : LimState d o pre prev k) :
    limAux d lim o prev k ts = limSpec d lim o pre ts := by
  induction ts generalizing pre prev k with
  | nil => rfl
  | cons t ts ih =>
    have hs' : ((pre ++ [t]) ++ ts).Pairwise fun a b => before d a b = true := by
      rw [List.append_assoc]; exact hs
    have hpre_t : ∀ u ∈ pre, before d u t = true := by
      intro u hu
      have := List.pairwise_append.mp hs
      exact this.2.2 u hu t (by simp)
    simp only [limAux, limSpec, limCell]
    cases ha : asofObs d o t with
    | none =>
      simp only
      congr 1
      refine ih (pre ++ [t]) Option.none 0 hs' (Or.inr ⟨pre, t, rfl, by simp [ha], fun s h => by cases h⟩)
    | some sv =>
      obtain ⟨s, v⟩ := sv
      simp only
      by_cases hst' : s = t
      · simp only [hst', true_or, if_true]
        congr 1
        refine ih (pre ++ [t]) (some t) 0 hs' (Or.inr ⟨pre, t, rfl, by simp [ha, hst'], ?_⟩)
        intro s' hs''
        cases hs''
        symm
        rw [List.countP_eq_zero]
        intro x hx
        rcases List.mem_append.mp hx with hx | hx
        · simp [before_asymm d x t (hpre_t x hx)]
        · simp at hx; subst hx; simp [before_irrefl]
      · -- inexact match: the counter is the number of requested labels beyond `s` so far
        have hk : (if prev = some s then k else 0) = pre.countP fun u => before d s u := by
          rcases hst with ⟨rfl, rfl, rfl⟩ | ⟨init, u, hpre, hprev, hcnt⟩
          · simp
          · by_cases hp : prev = some s
            · simp only [hp, if_true]; exact hcnt s hp
            · simp only [hp, if_false]
              symm
              rw [List.countP_eq_zero]
              intro x hx
              have hut : before d u t = true := hpre_t u (by rw [hpre]; simp)
              have hus : before d u s = true := hok.mono u t s v hut ha (by rw [← hprev]; exact hp)
              have hxs : before d x s = true := by
                rw [hpre] at hx
                rcases List.mem_append.mp hx with hx | hx
                · have hpw : (init ++ [u]).Pairwise fun a b => before d a b = true := by
                    rw [← hpre]; exact (List.pairwise_append.mp hs).1
                  have := (List.pairwise_append.mp hpw).2.2 x hx u (by simp)
                  exact before_trans d x u s this hus
                · simp at hx; subst hx; exact hus
              simp [before_asymm d x s hxs]
        have hbt : before d s t = true := before_total d s t hst' (hok.notAfter t s v ha)
        simp only [hst', false_or, hk, if_false]
        congr 1
        refine ih (pre ++ [t]) (some s) _ hs' (Or.inr ⟨pre, t, rfl, by simp [ha], ?_⟩)
        intro s' hs''
        cases hs''
        simp [List.countP_append, hbt]

/-- on labels sorted in the direction of the fill the passed labels beyond `s` are the labels strictly between `s` and `t` -/
theorem countP_between (d : Dir) (s t : Int) (pre rest : List Int)
    (hs : (pre ++ t :: rest).Pairwise fun a b => before d a b = true) :
    (pre ++ t :: rest).countP (fun u => before d s u && before d u t) = pre.countP fun u => before d s u := by
  have hp := List.pairwise_append.mp hs
  rw [List.countP_append]
  have h2 : (t :: rest).countP (fun u => before d s u && before d u t) = 0 := by
    rw [List.countP_eq_zero]
    intro x hx
    rcases List.mem_cons.mp hx with rfl | hx
    · simp [before_irrefl]
    · have := (List.pairwise_cons.mp hp.2.1).1 x hx
      simp [before_asymm d _ _ this]
  rw [h2, Nat.add_zero]
  apply List.countP_congr
  intro x hx
  have := hp.2.2 x hx t (by simp)
  simp [this]

/-- the cell with the count taken over ALL requested labels -/
def limCellAll (d : Dir) (lim : Option Nat) (o : List (Int × Int)) (all : List Int) (t : Int) : Option Int :=
  match asofObs d o t with
  | Option.none => Option.none
  | some (s, v) =>
    if s = t ∨ within lim (all.countP fun u => before d s u && before d u t) = true then some v else Option.none

theorem limSpec_eq_map (d : Dir) (lim : Option Nat) (o : List (Int × Int)) (ts pre : List Int)
    (hs : (pre ++ ts).Pairwise fun a b => before d a b = true) :
    limSpec d lim o pre ts = ts.map (limCellAll d lim o (pre ++ ts)) := by
  induction ts generalizing pre with
  | nil => rfl
  | cons t ts ih =>
    simp only [limSpec, List.map_cons]
    congr 1
    · simp only [limCell, limCellAll, countP_between d _ t pre ts hs]
    · have := ih (pre ++ [t]) (by rw [List.append_assoc]; exact hs)
      rw [this, List.append_assoc]; rfl

/-- the counter walk along labels sorted in the direction of the fill = the counter-free description, label by label -/
theorem limAux_eq_map (d : Dir) (lim : Option Nat) (o : List (Int × Int)) (hok : AsofOK d o) (idx : List Int)
    (hs : idx.Pairwise fun a b => before d a b = true) :
    limAux d lim o Option.none 0 idx = idx.map (limCellAll d lim o idx) := by
  rw [limAux_spec d lim o hok idx [] Option.none 0 (by simpa using hs) (Or.inl ⟨rfl, rfl, rfl⟩)]
  simpa using limSpec_eq_map d lim o idx [] (by simpa using hs)

/-! ### the two lookups satisfy `AsofOK` -/

theorem asofObs_ffill_some (o : List (Int × Int)) (hs : SortedL (o.map Prod.fst)) (t s v : Int)
    (h : asofObs .ffill o t = some (s, v)) :
    ∃ p, posAsOf (o.map Prod.fst) t = some p ∧ o[p]? = some (s, v) ∧ s ≤ t ∧
      ∀ q s', p < q → (o.map Prod.fst)[q]? = some s' → t < s' := by
  unfold asofObs asofPos at h
  cases hp : posAsOf (o.map Prod.fst) t with
  | none => rw [hp] at h; simp at h
  | some p =>
    rw [hp] at h; simp only [Option.bind_some] at h
    obtain ⟨⟨s0, h1, h2⟩, h3⟩ := posAsOf_some _ hs t p hp
    have : s0 = s := by simp [h] at h1; exact h1.symm
    subst this
    exact ⟨p, rfl, h, h2, h3⟩

theorem asofOK_ffill (o : List (Int × Int)) (hs : SortedL (o.map Prod.fst)) : AsofOK .ffill o := by
  constructor
  · intro t s v h
    obtain ⟨_, _, _, h2, _⟩ := asofObs_ffill_some o hs t s v h
    simp [before]; omega
  · intro t t' s' v' htt h hne
    simp only [before, decide_eq_true_eq] at htt ⊢
    obtain ⟨p', hp', ho', hle', hlater'⟩ := asofObs_ffill_some o hs t' s' v' h
    apply Classical.byContradiction
    intro hnot
    have hst : s' ≤ t := by omega
    apply hne
    have hlab' : (o.map Prod.fst)[p']? = some s' := by simp [ho']
    cases hp : posAsOf (o.map Prod.fst) t with
    | none =>
      have := posAsOf_none _ hs t hp s' (List.mem_of_getElem? hlab')
      omega
    | some p =>
      obtain ⟨⟨s0, h1, h2⟩, h3⟩ := posAsOf_some _ hs t p hp
      have hpp : p = p' := by
        rcases Nat.lt_trichotomy p p' with hlt | heq | hgt
        · have := h3 p' s' hlt hlab'; omega
        · exact heq
        · have := hlater' p s0 hgt h1; omega
      subst hpp
      simp [asofObs, asofPos, hp, ho']

theorem asofObs_bfill_some (o : List (Int × Int)) (t s v : Int) (h : asofObs .bfill o t = some (s, v)) :
    ∃ p, posNext (o.map Prod.fst) t = some p ∧ o[p]? = some (s, v) ∧ t ≤ s ∧
      ∀ q s', q < p → (o.map Prod.fst)[q]? = some s' → s' < t := by
  unfold asofObs asofPos at h
  cases hp : posNext (o.map Prod.fst) t with
  | none => rw [hp] at h; simp at h
  | some p =>
    rw [hp] at h; simp only [Option.bind_some] at h
    obtain ⟨⟨s0, h1, h2⟩, h3⟩ := posNext_some _ t p hp
    have : s0 = s := by simp [h] at h1; exact h1.symm
    subst this
    exact ⟨p, rfl, h, h2, h3⟩

theorem asofOK_bfill (o : List (Int × Int)) : AsofOK .bfill o := by
  constructor
  · intro t s v h
    obtain ⟨_, _, _, h2, _⟩ := asofObs_bfill_some o t s v h
    simp [before]; omega
  · intro t t' s' v' htt h hne
    simp only [before, decide_eq_true_eq] at htt ⊢
    obtain ⟨p', hp', ho', hle', hearlier'⟩ := asofObs_bfill_some o t' s' v' h
    apply Classical.byContradiction
    intro hnot
    have hst : t ≤ s' := by omega
    apply hne
    have hlab' : (o.map Prod.fst)[p']? = some s' := by simp [ho']
    cases hp : posNext (o.map Prod.fst) t with
    | none =>
      have := posNext_none _ t hp s' (List.mem_of_getElem? hlab')
      omega
    | some p =>
      obtain ⟨⟨s0, h1, h2⟩, h3⟩ := posNext_some _ t p hp
      have hpp : p = p' := by
        rcases Nat.lt_trichotomy p p' with hlt | heq | hgt
        · have := hearlier' p s0 hlt h1; omega
        · exact heq
        · have := h3 p' s' hgt hlab'; omega
      subst hpp
      simp [asofObs, asofPos, hp, ho']

/-! ### the observations of a column -/

theorem obs_labels_sublist (ix : List Int) (c : Col) : ((obs ix c).map Prod.fst).Sublist ix := by
  induction ix generalizing c with
  | nil => cases c <;> simp [obs]
  | cons x xs ih =>
    cases c with
    | nil => simp [obs]
    | cons v vs =>
      cases v with
      | none => simp only [obs]; exact (ih vs).cons x
      | some w => simp only [obs, List.map_cons]; exact (ih vs).cons_cons x

theorem obs_labels_sorted (ix : List Int) (c : Col) (hs : SortedL ix) : SortedL ((obs ix c).map Prod.fst) :=
  List.Pairwise.sublist (obs_labels_sublist ix c) hs

/-- without a limit the counter walk is the plain as-of lookup of every requested label (no sortedness needed) -/
theorem limAux_nolimit (d : Dir) (o : List (Int × Int)) (prev : Option Int) (k : Nat) (idx : List Int) :
    limAux d Option.none o prev k idx = idx.map (asofAt d o) := by
  induction idx generalizing prev k with
  | nil => rfl
  | cons t ts ih =>
    have hat : asofAt d o t = (asofObs d o t).map Prod.snd := by
      simp only [asofAt, asofObs]
      cases asofPos d (o.map Prod.fst) t <;> simp
    simp only [limAux, List.map_cons, hat]
    cases asofObs d o t with
    | none => simp [ih]
    | some sv =>
      obtain ⟨s, v⟩ := sv
      by_cases hst : s = t <;> simp [hst, within, ih]

theorem asofColLim_nolimit (d : Dir) (fidx : List Int) (c : Col) (idx : List Int) :
    asofColLim d Option.none fidx c idx = asofCol d fidx c idx := by
  cases d with
  | ffill => simp only [asofColLim, limAux_nolimit, asofCol_eq]
  | bfill => simp only [asofColLim, limAux_nolimit, asofCol_eq, List.map_reverse, List.reverse_reverse]

theorem asofColLim_length (d : Dir) (lim : Option Nat) (fidx : List Int) (c : Col) (idx : List Int) :
    (asofColLim d lim fidx c idx).length = idx.length := by
  have key : ∀ (o : List (Int × Int)) (prev : Option Int) (k : Nat) (ts : List Int), (limAux d lim o prev k ts).length = ts.length := by
    intro o prev k ts
    induction ts generalizing prev k with
    | nil => rfl
    | cons t ts ih =>
      simp only [limAux]
      cases asofObs d o t with
      | none => simp [ih]
      | some sv => obtain ⟨s, v⟩ := sv; by_cases hst : s = t <;> simp [hst, ih]
  cases d <;> simp [asofColLim, key]

/-! ### an independent reference for the observation a label lands on: label AND value

`lastObsG` / `firstObsG` are `lastObs` / `firstObs` over cells of any type; on the column paired with its labels they give
the label and the value of the last / next non-NaN observation. -/

def lastObsG {α : Type} : List Int → List (Option α) → Int → Option α
  | x :: xs, v :: vs, t =>
    match lastObsG xs vs t with
    | some w => some w
    | Option.none => if x ≤ t then v else Option.none
  | _, _, _ => Option.none

def firstObsG {α : Type} : List Int → List (Option α) → Int → Option α
  | x :: xs, v :: vs, t => if t ≤ x ∧ v.isSome = true then v else firstObsG xs vs t
  | _, _, _ => Option.none

theorem lastObsG_iff {α : Type} (ix : List Int) (c : List (Option α)) (t : Int) (v : α) :
    lastObsG ix c t = some v ↔
      ∃ (i : Nat) (s : Int), ix[i]? = some s ∧ s ≤ t ∧ c[i]? = some (some v) ∧
        ∀ (j : Nat) (s' : Int) (w : α), i < j → ix[j]? = some s' → s' ≤ t → c[j]? ≠ some (some w) := by
  induction ix generalizing c v with
  | nil => cases c <;> simp [lastObsG]
  | cons x xs ih =>
    cases c with
    | nil => simp [lastObsG]
    | cons u us =>
      simp only [lastObsG]
      constructor
      · intro h
        cases hl : lastObsG xs us t with
        | some w =>
          rw [hl] at h; simp at h; subst h
          obtain ⟨i, s, h1, h2, h3, h4⟩ := (ih us _).mp hl
          refine ⟨i + 1, s, by simpa using h1, h2, by simpa using h3, ?_⟩
          intro j s' w' hj hjs hle
          cases j with
          | zero => omega
          | succ j => simpa using h4 j s' w' (by omega) (by simpa using hjs) hle
        | none =>
          rw [hl] at h; simp at h
          refine ⟨0, x, by simp, h.1, by simp [h.2], ?_⟩
          intro j s' w' hj hjs hle
          cases j with
          | zero => omega
          | succ j =>
            intro hc
            have : lastObsG xs us t ≠ Option.none := by
              -- some later position qualifies, so the scan of the tail finds something
              have hex : ∃ v', lastObsG xs us t = some v' := by
                clear ih hl h
                induction xs generalizing us j with
                | nil => simp at hjs
                | cons y ys ih2 =>
                  cases us with
                  | nil => simp at hc
                  | cons z zs =>
                    simp only [lastObsG]
                    cases hz : lastObsG ys zs t with
                    | some q => exact ⟨q, rfl⟩
                    | none =>
                      cases j with
                      | zero =>
                        simp at hjs hc; subst hjs; subst hc
                        exact ⟨w', by simp [hle]⟩
                      | succ j =>
                        obtain ⟨q, hq⟩ := ih2 zs j (by omega) (by simpa using hjs) (by simpa using hc)
                        rw [hq] at hz; cases hz
              obtain ⟨v', hv'⟩ := hex
              rw [hv']; simp
            exact this hl
      · rintro ⟨i, s, h1, h2, h3, h4⟩
        cases i with
        | zero =>
          simp at h1 h3; subst h1; subst h3
          cases hl : lastObsG xs us t with
          | none => simp [h2]
          | some w =>
            obtain ⟨i', s', g1, g2, g3, _⟩ := (ih us _).mp hl
            exact (h4 (i' + 1) s' w (by omega) (by simpa using g1) g2 (by simpa using g3)).elim
        | succ i =>
          have : lastObsG xs us t = some v := by
            refine (ih us _).mpr ⟨i, s, by simpa using h1, h2, by simpa using h3, ?_⟩
            intro j s' w hj hjs hle
            simpa using h4 (j + 1) s' w (by omega) (by simpa using hjs) hle
          rw [this]

theorem firstObsG_iff {α : Type} (ix : List Int) (c : List (Option α)) (t : Int) (v : α) :
    firstObsG ix c t = some v ↔
      ∃ (i : Nat) (s : Int), ix[i]? = some s ∧ t ≤ s ∧ c[i]? = some (some v) ∧
        ∀ (j : Nat) (s' : Int) (w : α), j < i → ix[j]? = some s' → t ≤ s' → c[j]? ≠ some (some w) := by
  induction ix generalizing c v with
  | nil => cases c <;> simp [firstObsG]
  | cons x xs ih =>
    cases c with
    | nil => simp [firstObsG]
    | cons u us =>
      simp only [firstObsG]
      split
      · rename_i hq
        constructor
        · intro h; subst h
          exact ⟨0, x, by simp, hq.1, by simp, fun j _ _ hj => by omega⟩
        · rintro ⟨i, s, h1, h2, h3, h4⟩
          cases i with
          | zero => simp at h3; exact h3
          | succ i =>
            obtain ⟨w, hw⟩ := Option.isSome_iff_exists.mp hq.2
            exact (h4 0 x w (by omega) (by simp) hq.1 (by simp [hw])).elim
      · rename_i hq
        rw [ih us]
        constructor
        · rintro ⟨i, s, h1, h2, h3, h4⟩
          refine ⟨i + 1, s, by simpa using h1, h2, by simpa using h3, ?_⟩
          intro j s' w hj hjs hle
          cases j with
          | zero =>
            simp at hjs; subst hjs
            intro hc; simp at hc
            exact hq ⟨hle, by simp [hc]⟩
          | succ j => simpa using h4 j s' w (by omega) (by simpa using hjs) hle
        · rintro ⟨i, s, h1, h2, h3, h4⟩
          cases i with
          | zero =>
            simp at h1 h3; subst h1; subst h3
            exact (hq ⟨h2, rfl⟩).elim
          | succ i =>
            refine ⟨i, s, by simpa using h1, h2, by simpa using h3, ?_⟩
            intro j s' w hj hjs hle
            simpa using h4 (j + 1) s' w (by omega) (by simpa using hjs) hle


/-- every cell paired with its label -/
def pairCol : List Int → Col → List (Option (Int × Int))
  | x :: xs, v :: vs => v.map (fun w => (x, w)) :: pairCol xs vs
  | _, _ => []

/-- the last non-NaN observation at or before `t`: (label, value) -/
def lastObsAt (ix : List Int) (c : Col) (t : Int) : Option (Int × Int) := lastObsG ix (pairCol ix c) t
/-- the next non-NaN observation at or after `t`: (label, value) -/
def firstObsAt (ix : List Int) (c : Col) (t : Int) : Option (Int × Int) := firstObsG ix (pairCol ix c) t

theorem pairCol_get (ix : List Int) (c : Col) (i : Nat) (s v : Int) :
    (pairCol ix c)[i]? = some (some (s, v)) ↔ ix[i]? = some s ∧ c[i]? = some (some v) := by
  induction ix generalizing c i with
  | nil => cases c <;> simp [pairCol]
  | cons x xs ih =>
    cases c with
    | nil => simp [pairCol]
    | cons u us =>
      cases i with
      | zero =>
        cases u with
        | none => simp [pairCol]
        | some w => simp [pairCol]
      | succ i => simpa [pairCol] using ih us i

theorem pairCol_some (ix : List Int) (c : Col) (i : Nat) (s : Int) (hi : ix[i]? = some s) :
    (∃ w, (pairCol ix c)[i]? = some (some w)) ↔ ∃ v, c[i]? = some (some v) := by
  induction ix generalizing c i with
  | nil => simp at hi
  | cons x xs ih =>
    cases c with
    | nil => simp [pairCol]
    | cons u us =>
      cases i with
      | zero => cases u <;> simp [pairCol]
      | succ i => simpa [pairCol] using ih us i (by simpa using hi)

theorem asofObs_ffill_cons (x v : Int) (o : List (Int × Int)) (t : Int) :
    asofObs .ffill ((x, v) :: o) t =
      if x ≤ t then (match asofObs .ffill o t with | some w => some w | Option.none => some (x, v)) else Option.none := by
  unfold asofObs asofPos
  simp only [List.map_cons, posAsOf]
  split
  · cases hp : posAsOf (o.map Prod.fst) t with
    | none => simp
    | some p =>
      have hlt := posAsOf_lt _ _ _ hp
      simp only [List.length_map] at hlt
      simp [List.getElem?_eq_getElem hlt]
  · simp

theorem asofObs_bfill_cons (x v : Int) (o : List (Int × Int)) (t : Int) :
    asofObs .bfill ((x, v) :: o) t = if t ≤ x then some (x, v) else asofObs .bfill o t := by
  unfold asofObs asofPos
  simp only [List.map_cons, posNext]
  split
  · simp
  · cases hp : posNext (o.map Prod.fst) t <;> simp

theorem lastObsG_none_of_gt {α : Type} (xs : List Int) (vs : List (Option α)) (t : Int) (h : ∀ s ∈ xs, t < s) :
    lastObsG xs vs t = Option.none := by
  induction xs generalizing vs with
  | nil => cases vs <;> rfl
  | cons x xs ih =>
    cases vs with
    | nil => rfl
    | cons v vs =>
      have hx : ¬ x ≤ t := by have := h x (by simp); omega
      simp only [lastObsG, ih vs (fun s hs => h s (by simp [hs])), hx, if_false]

/-- on a strictly increasing index the observation the model's forward lookup lands on is the reference -/
theorem asofObs_ffill (ix : List Int) (c : Col) (t : Int) (hs : SortedL ix) :
    asofObs .ffill (obs ix c) t = lastObsAt ix c t := by
  unfold lastObsAt
  induction ix generalizing c with
  | nil => cases c <;> rfl
  | cons x xs ih =>
    have hx := List.pairwise_cons.mp hs
    cases c with
    | nil => rfl
    | cons v vs =>
      cases v with
      | none =>
        simp only [obs, pairCol, lastObsG, Option.map_none]
        rw [ih vs hx.2]
        cases lastObsG xs (pairCol xs vs) t <;> simp
      | some v =>
        simp only [obs, pairCol, lastObsG, Option.map_some]
        rw [asofObs_ffill_cons, ih vs hx.2]
        by_cases hxt : x ≤ t
        · simp only [hxt, if_true]
          cases lastObsG xs (pairCol xs vs) t <;> rfl
        · simp only [hxt, if_false]
          rw [lastObsG_none_of_gt xs _ t (fun s hs' => by have := hx.1 s hs'; omega)]

theorem asofObs_bfill (ix : List Int) (c : Col) (t : Int) : asofObs .bfill (obs ix c) t = firstObsAt ix c t := by
  unfold firstObsAt
  induction ix generalizing c with
  | nil => cases c <;> rfl
  | cons x xs ih =>
    cases c with
    | nil => rfl
    | cons v vs =>
      cases v with
      | none => simp only [obs, pairCol, firstObsG, Option.map_none]; rw [ih vs]; simp
      | some v =>
        simp only [obs, pairCol, firstObsG, Option.map_some]
        rw [asofObs_bfill_cons, ih vs]
        simp

/-- what `lastObsAt` is, by positions -/
theorem lastObsAt_iff (ix : List Int) (c : Col) (t s v : Int) :
    lastObsAt ix c t = some (s, v) ↔
      ∃ i, ix[i]? = some s ∧ s ≤ t ∧ c[i]? = some (some v) ∧
        ∀ (j : Nat) (s' w : Int), i < j → ix[j]? = some s' → s' ≤ t → c[j]? ≠ some (some w) := by
  unfold lastObsAt
  rw [lastObsG_iff]
  constructor
  · rintro ⟨i, s0, h1, h2, h3, h4⟩
    obtain ⟨g1, g2⟩ := (pairCol_get ix c i s v).mp h3
    have : s0 = s := by rw [h1] at g1; exact Option.some.inj g1
    subst this
    refine ⟨i, h1, h2, g2, ?_⟩
    intro j s' w hj hjs hle hc
    exact h4 j s' (s', w) hj hjs hle ((pairCol_get ix c j s' w).mpr ⟨hjs, hc⟩)
  · rintro ⟨i, h1, h2, h3, h4⟩
    refine ⟨i, s, h1, h2, (pairCol_get ix c i s v).mpr ⟨h1, h3⟩, ?_⟩
    intro j s' w hj hjs hle hc
    obtain ⟨v', hv'⟩ := (pairCol_some ix c j s' hjs).mp ⟨w, hc⟩
    exact h4 j s' v' hj hjs hle hv'

theorem firstObsAt_iff (ix : List Int) (c : Col) (t s v : Int) :
    firstObsAt ix c t = some (s, v) ↔
      ∃ i, ix[i]? = some s ∧ t ≤ s ∧ c[i]? = some (some v) ∧
        ∀ (j : Nat) (s' w : Int), j < i → ix[j]? = some s' → t ≤ s' → c[j]? ≠ some (some w) := by
  unfold firstObsAt
  rw [firstObsG_iff]
  constructor
  · rintro ⟨i, s0, h1, h2, h3, h4⟩
    obtain ⟨g1, g2⟩ := (pairCol_get ix c i s v).mp h3
    have : s0 = s := by rw [h1] at g1; exact Option.some.inj g1
    subst this
    refine ⟨i, h1, h2, g2, ?_⟩
    intro j s' w hj hjs hle hc
    exact h4 j s' (s', w) hj hjs hle ((pairCol_get ix c j s' w).mpr ⟨hjs, hc⟩)
  · rintro ⟨i, h1, h2, h3, h4⟩
    refine ⟨i, s, h1, h2, (pairCol_get ix c i s v).mpr ⟨h1, h3⟩, ?_⟩
    intro j s' w hj hjs hle hc
    obtain ⟨v', hv'⟩ := (pairCol_some ix c j s' hjs).mp ⟨w, hc⟩
    exact h4 j s' v' hj hjs hle hv'

/-- the reference with values only is the value half of the pair reference -/
theorem lastObsAt_snd (ix : List Int) (c : Col) (t : Int) : (lastObsAt ix c t).map Prod.snd = lastObs ix c t := by
  unfold lastObsAt
  induction ix generalizing c with
  | nil => cases c <;> rfl
  | cons x xs ih =>
    cases c with
    | nil => rfl
    | cons v vs =>
      simp only [pairCol, lastObsG, lastObs]
      rw [← ih vs]
      cases lastObsG xs (pairCol xs vs) t with
      | some w => simp
      | none => by_cases hxt : x ≤ t <;> cases v <;> simp [hxt]

theorem firstObsAt_snd (ix : List Int) (c : Col) (t : Int) : (firstObsAt ix c t).map Prod.snd = firstObs ix c t := by
  unfold firstObsAt
  induction ix generalizing c with
  | nil => cases c <;> rfl
  | cons x xs ih =>
    cases c with
    | nil => rfl
    | cons v vs =>
      simp only [pairCol, firstObsG, firstObs]
      rw [← ih vs]
      cases v with
      | none => simp
      | some w => by_cases hxt : t ≤ x <;> simp [hxt]

/-! ### the column of the model against the reference -/

/-- number of requested labels strictly between `a` and `b` -/
def between (idx : List Int) (a b : Int) : Nat := idx.countP fun u => decide (a < u ∧ u < b)

/-- the cell of a requested label `t` under ffill with a limit, from the reference: the last non-NaN observation `(s, v)` at or
before `t` iff `s = t` or fewer than `limit` requested labels lie strictly between `s` and `t` -/
def ffillLim (lim : Option Nat) (idx : List Int) (ix : List Int) (c : Col) (t : Int) : Option Int :=
  match lastObsAt ix c t with
  | Option.none => Option.none
  | some (s, v) => if s = t ∨ within lim (between idx s t) = true then some v else Option.none

/-- the mirror image for bfill (the count runs over the requested labels strictly between `t` and `s`) -/
def bfillLim (lim : Option Nat) (idx : List Int) (ix : List Int) (c : Col) (t : Int) : Option Int :=
  match firstObsAt ix c t with
  | Option.none => Option.none
  | some (s, v) => if s = t ∨ within lim (between idx t s) = true then some v else Option.none

theorem ffillLim_none {lim idx ix c t} (h : lastObsAt ix c t = Option.none) : ffillLim lim idx ix c t = Option.none := by
  simp [ffillLim, h]
theorem ffillLim_some {lim idx ix c t s v} (h : lastObsAt ix c t = some (s, v)) :
    ffillLim lim idx ix c t = if s = t ∨ within lim (between idx s t) = true then some v else Option.none := by
  simp [ffillLim, h]
theorem bfillLim_none {lim idx ix c t} (h : firstObsAt ix c t = Option.none) : bfillLim lim idx ix c t = Option.none := by
  simp [bfillLim, h]
theorem bfillLim_some {lim idx ix c t s v} (h : firstObsAt ix c t = some (s, v)) :
    bfillLim lim idx ix c t = if s = t ∨ within lim (between idx t s) = true then some v else Option.none := by
  simp [bfillLim, h]

/-- ffill with a limit, one column -/
theorem asofColLim_ffill (lim : Option Nat) (fidx : List Int) (c : Col) (idx : List Int) (hf : SortedL fidx) (hi : SortedL idx) :
    asofColLim .ffill lim fidx c idx = idx.map (ffillLim lim idx fidx c) := by
  simp only [asofColLim]
  rw [limAux_eq_map .ffill lim _ (asofOK_ffill _ (obs_labels_sorted fidx c hf)) idx (by simpa [before] using hi)]
  apply List.map_congr_left
  intro t _
  simp only [limCellAll, asofObs_ffill fidx c t hf, between, before]
  cases ho : lastObsAt fidx c t with
  | none => rw [ffillLim_none ho]
  | some sv =>
    obtain ⟨s, v⟩ := sv
    rw [ffillLim_some ho]
    have : (idx.countP fun u => decide (s < u) && decide (u < t)) = idx.countP fun u => decide (s < u ∧ u < t) := by
      apply List.countP_congr; intro u _; simp
    simp only [this, between]
    congr

/-- bfill with a limit, one column -/
theorem asofColLim_bfill (lim : Option Nat) (fidx : List Int) (c : Col) (idx : List Int) (hi : SortedL idx) :
    asofColLim .bfill lim fidx c idx = idx.map (bfillLim lim idx fidx c) := by
  simp only [asofColLim]
  have hr : idx.reverse.Pairwise fun a b => before .bfill a b = true := by
    rw [List.pairwise_reverse]; simpa [before] using hi
  rw [limAux_eq_map .bfill lim _ (asofOK_bfill _) idx.reverse hr, ← List.map_reverse, List.reverse_reverse]
  apply List.map_congr_left
  intro t _
  simp only [limCellAll, asofObs_bfill fidx c t, between, before, List.countP_reverse]
  cases ho : firstObsAt fidx c t with
  | none => rw [bfillLim_none ho]
  | some sv =>
    obtain ⟨s, v⟩ := sv
    rw [bfillLim_some ho]
    have : (idx.countP fun u => decide (u < s) && decide (t < u)) = idx.countP fun u => decide (t < u ∧ u < s) := by
      apply List.countP_congr; intro u _; simp [and_comm]
    simp only [this, between]
    congr

end Pyg.Align
