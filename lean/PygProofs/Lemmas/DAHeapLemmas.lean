import PygModel.DAHeap
import PygProofs.Lemmas.USetLemmas

/-! helper lemmas for the dictattr heap model (C16): the shape of one step, distinct keys -/

namespace Pyg.DA
variable {V : Type}

theorem set_keys_nodup (k : String) (v : V) (l : List (String × V)) (h : (l.map (·.1)).Nodup) :
    ((set k v l).map (·.1)).Nodup := by
  by_cases hm : k ∈ l.map (·.1)
  · rw [map_fst_set_of_mem k v l hm]; exact h
  · rw [set_of_not_mem k v l hm, List.map_append, List.nodup_append]
    refine ⟨h, by simp, ?_⟩
    intro a ha b hb
    simp only [List.map_cons, List.map_nil, List.mem_singleton] at hb
    rintro rfl
    exact hm (hb ▸ ha)

theorem setAll_keys_nodup : ∀ (ps base : List (String × V)), (base.map (·.1)).Nodup →
    ((setAll base ps).map (·.1)).Nodup
  | [], _, h => h
  | p :: ps, base, h => by
      have e : setAll base (p :: ps) = setAll (set p.1 p.2 base) ps := by simp [setAll]
      rw [e]
      exact setAll_keys_nodup ps _ (set_keys_nodup p.1 p.2 base h)

theorem subKeys_keys_nodup (ks : List String) : ∀ d : D V, (keys d).Nodup → (keys (subKeys d ks)).Nodup := by
  induction ks with
  | nil => intro d h; exact h
  | cons j js ih =>
    intro d h
    have e : subKeys d (j :: js) = subKeys (subKey d j) js := rfl
    rw [e]
    apply ih
    exact h.sublist (List.filter_sublist.map _)

end Pyg.DA

namespace Pyg.DA
variable {V : Type}

/-- what the heap theorems need of `Dict.__add__`: the result has the receiver's class' distinct keys -/
class LawfulTreeAdd (V : Type) [TreeAdd V] : Prop where
  keys_nodup : ∀ (a b r : List (String × V)), (a.map (·.1)).Nodup → TreeAdd.treeAdd a b = .ok r →
    (r.map (·.1)).Nodup

theorem addC_cls [TreeAdd V] (d r : D V) (o : List (String × V)) (h : addC d o = .ok r) : r.cls = d.cls := by
  unfold addC at h
  split at h
  · cases hm : TreeAdd.treeAdd d.items o with
    | error e => simp [hm, Except.map] at h
    | ok kvs => simp only [hm, Except.map] at h; cases h; rfl
  · cases h; rfl

theorem addC_keys_nodup [TreeAdd V] [LawfulTreeAdd V] (d r : D V) (o : List (String × V))
    (hd : (keys d).Nodup) (h : addC d o = .ok r) : (keys r).Nodup := by
  unfold addC at h
  split at h
  · cases hm : TreeAdd.treeAdd d.items o with
    | error e => simp [hm, Except.map] at h
    | ok kvs =>
      simp only [hm, Except.map] at h; cases h
      exact LawfulTreeAdd.keys_nodup _ _ _ hd hm
  · cases h; exact setAll_keys_nodup o _ hd

end Pyg.DA

namespace Pyg.DAHeap
open Pyg.DA
variable {V : Type} [TreeAdd V]

omit [TreeAdd V] in
theorem deref_ok {heap : Heap V} {h : Nat} {d : D V} (e : deref heap h = .ok d) : heap[h]? = some d := by
  unfold deref at e
  cases hh : heap[h]? with
  | none => rw [hh] at e; cases e
  | some d' => rw [hh] at e; cases e; rfl

/-- a successful step either allocates exactly one new handle at the end of the heap, or rewrites
the items (not the class) of its target, or leaves the heap alone -/
theorem step_shape (heap heap' : Heap V) (op : Op V) (out : Out V)
    (h : step heap op = .ok (heap', out)) :
    (∃ d, heap' = heap ++ [d] ∧ out = .obj heap.length d ∧ op.target = none) ∨
    (∃ t d d', op.target = some t ∧ heap[t]? = some d ∧ heap' = heap.set t d' ∧ d'.cls = d.cls ∧
      out = .unit) ∨
    (heap' = heap ∧ op.target = none) := by
  cases op <;> simp only [step, alloc, bind, Except.bind, pure, Except.pure] at h
  case new cls items => cases h; exact Or.inl ⟨_, rfl, rfl, rfl⟩
  case copy t =>
    cases hd : deref heap t with
    | error e => simp [hd] at h
    | ok d => simp only [hd] at h; cases h; exact Or.inl ⟨_, rfl, rfl, rfl⟩
  case subK t k =>
    cases hd : deref heap t with
    | error e => simp [hd] at h
    | ok d => simp only [hd] at h; cases h; exact Or.inl ⟨_, rfl, rfl, rfl⟩
  case subKs t ks =>
    cases hd : deref heap t with
    | error e => simp [hd] at h
    | ok d => simp only [hd] at h; cases h; exact Or.inl ⟨_, rfl, rfl, rfl⟩
  case andKs t ks =>
    cases hd : deref heap t with
    | error e => simp [hd] at h
    | ok d => simp only [hd] at h; cases h; exact Or.inl ⟨_, rfl, rfl, rfl⟩
  case add t o =>
    cases hd : deref heap t with
    | error e => simp [hd] at h
    | ok d =>
      simp only [hd] at h
      cases ha : addC d o with
      | error e => simp [ha] at h
      | ok r => simp only [ha] at h; cases h; exact Or.inl ⟨_, rfl, rfl, rfl⟩
  case addH t g =>
    cases hd : deref heap t with
    | error e => simp [hd] at h
    | ok d =>
      simp only [hd] at h
      cases hg : deref heap g with
      | error e => simp [hg] at h
      | ok o =>
        simp only [hg] at h
        cases ha : addC d o.items with
        | error e => simp [ha] at h
        | ok r => simp only [ha] at h; cases h; exact Or.inl ⟨_, rfl, rfl, rfl⟩
  case getL t ks =>
    cases hd : deref heap t with
    | error e => simp [hd] at h
    | ok d =>
      simp only [hd] at h
      cases hg : getList d ks with
      | error e => simp [hg] at h
      | ok r => simp only [hg] at h; cases h; exact Or.inl ⟨_, rfl, rfl, rfl⟩
  case relabel t m =>
    cases hd : deref heap t with
    | error e => simp [hd] at h
    | ok d => simp only [hd] at h; cases h; exact Or.inl ⟨_, rfl, rfl, rfl⟩
  case setItem t k v =>
    cases hd : deref heap t with
    | error e => simp [hd] at h
    | ok d => simp only [hd] at h; cases h; exact Or.inr (Or.inl ⟨t, d, _, rfl, deref_ok hd, rfl, rfl, rfl⟩)
  case setAttr t k v =>
    cases hd : deref heap t with
    | error e => simp [hd] at h
    | ok d =>
      simp only [hd] at h
      split at h <;> cases h <;> exact Or.inr (Or.inl ⟨t, d, _, rfl, deref_ok hd, rfl, rfl, rfl⟩)
  case delItem t k =>
    cases hd : deref heap t with
    | error e => simp [hd] at h
    | ok d =>
      simp only [hd] at h
      cases hk : delKey d k with
      | error e => simp [hk] at h
      | ok d' =>
        simp only [hk] at h; cases h
        refine Or.inr (Or.inl ⟨t, d, d', rfl, deref_ok hd, rfl, ?_, rfl⟩)
        unfold delKey at hk
        split at hk
        · cases hk; rfl
        · cases hk
  case delAttr t k =>
    cases hd : deref heap t with
    | error e => simp [hd] at h
    | ok d =>
      simp only [hd, asAttr] at h
      cases hk : delKey d k with
      | error e => cases e <;> simp [hk] at h
      | ok d' =>
        simp only [hk] at h; cases h
        refine Or.inr (Or.inl ⟨t, d, d', rfl, deref_ok hd, rfl, ?_, rfl⟩)
        unfold delKey at hk
        split at hk
        · cases hk; rfl
        · cases hk
  case getItem t k =>
    cases hd : deref heap t with
    | error e => simp [hd] at h
    | ok d =>
      simp only [hd] at h
      cases hk : getKey d k with
      | error e => simp [hk] at h
      | ok v => simp only [hk] at h; cases h; exact Or.inr (Or.inr ⟨rfl, rfl⟩)
  case getAttr t k =>
    cases hd : deref heap t with
    | error e => simp [hd] at h
    | ok d =>
      simp only [hd, asAttr] at h
      split at h
      · cases h; exact Or.inr (Or.inr ⟨rfl, rfl⟩)
      · cases hk : getKey d k with
        | error e => cases e <;> simp [hk] at h
        | ok v => simp only [hk] at h; cases h; exact Or.inr (Or.inr ⟨rfl, rfl⟩)
  case getT t ks =>
    cases hd : deref heap t with
    | error e => simp [hd] at h
    | ok d =>
      simp only [hd] at h
      cases hk : getTuple d ks with
      | error e => simp [hk] at h
      | ok v => simp only [hk] at h; cases h; exact Or.inr (Or.inr ⟨rfl, rfl⟩)
  case keys t =>
    cases hd : deref heap t with
    | error e => simp [hd] at h
    | ok d => simp only [hd] at h; cases h; exact Or.inr (Or.inr ⟨rfl, rfl⟩)

omit [TreeAdd V] in
theorem getList_keys_nodup (d r : D V) (ks : List String) (h : getList d ks = .ok r) :
    (keys r).Nodup := by
  simp only [getList, bind, Except.bind] at h
  split at h
  · cases h
  · cases h; exact setAll_keys_nodup _ [] (by simp)

/-- every step keeps the keys of every handle distinct -/
theorem step_keys_nodup [LawfulTreeAdd V] (heap heap' : Heap V) (op : Op V) (out : Out V)
    (inv : ∀ d ∈ heap, (keys d).Nodup) (h : step heap op = .ok (heap', out)) :
    ∀ d ∈ heap', (keys d).Nodup := by
  have hget : ∀ t d, deref heap t = .ok d → (keys d).Nodup := fun t d e =>
    inv d (List.mem_of_getElem? (deref_ok e))
  have happ : ∀ d0 : D V, (keys d0).Nodup → ∀ d ∈ heap ++ [d0], (keys d).Nodup := by
    intro d0 h0 d hd
    rcases List.mem_append.1 hd with hd | hd
    · exact inv d hd
    · rw [List.mem_singleton] at hd; exact hd ▸ h0
  have hset : ∀ t (d0 : D V), (keys d0).Nodup → ∀ d ∈ heap.set t d0, (keys d).Nodup := by
    intro t d0 h0 d hd
    rcases List.mem_or_eq_of_mem_set hd with hd | hd
    · exact inv d hd
    · exact hd ▸ h0
  cases op <;> simp only [step, alloc, bind, Except.bind, pure, Except.pure] at h
  case new cls items => cases h; exact happ _ (setAll_keys_nodup items [] (by simp))
  case copy t =>
    cases hd : deref heap t with
    | error e => simp [hd] at h
    | ok d => simp only [hd] at h; cases h; exact happ _ (hget t d hd)
  case subK t k =>
    cases hd : deref heap t with
    | error e => simp [hd] at h
    | ok d =>
      simp only [hd] at h; cases h
      exact happ _ ((hget t d hd).sublist (List.filter_sublist.map _))
  case subKs t ks =>
    cases hd : deref heap t with
    | error e => simp [hd] at h
    | ok d => simp only [hd] at h; cases h; exact happ _ (subKeys_keys_nodup ks d (hget t d hd))
  case andKs t ks =>
    cases hd : deref heap t with
    | error e => simp [hd] at h
    | ok d => simp only [hd] at h; cases h; exact happ _ (setAll_keys_nodup _ [] (by simp))
  case add t o =>
    cases hd : deref heap t with
    | error e => simp [hd] at h
    | ok d =>
      simp only [hd] at h
      cases ha : addC d o with
      | error e => simp [ha] at h
      | ok r => simp only [ha] at h; cases h; exact happ _ (addC_keys_nodup d r o (hget t d hd) ha)
  case addH t g =>
    cases hd : deref heap t with
    | error e => simp [hd] at h
    | ok d =>
      simp only [hd] at h
      cases hg : deref heap g with
      | error e => simp [hg] at h
      | ok o =>
        simp only [hg] at h
        cases ha : addC d o.items with
        | error e => simp [ha] at h
        | ok r => simp only [ha] at h; cases h; exact happ _ (addC_keys_nodup d r o.items (hget t d hd) ha)
  case getL t ks =>
    cases hd : deref heap t with
    | error e => simp [hd] at h
    | ok d =>
      simp only [hd] at h
      cases hg : getList d ks with
      | error e => simp [hg] at h
      | ok r => simp only [hg] at h; cases h; exact happ _ (getList_keys_nodup d r ks hg)
  case relabel t m =>
    cases hd : deref heap t with
    | error e => simp [hd] at h
    | ok d => simp only [hd] at h; cases h; exact happ _ (setAll_keys_nodup _ [] (by simp))
  case setItem t k v =>
    cases hd : deref heap t with
    | error e => simp [hd] at h
    | ok d => simp only [hd] at h; cases h; exact hset t _ (set_keys_nodup k v d.items (hget t d hd))
  case setAttr t k v =>
    cases hd : deref heap t with
    | error e => simp [hd] at h
    | ok d =>
      simp only [hd] at h
      split at h <;> cases h
      · exact hset t _ (hget t d hd)
      · exact hset t _ (set_keys_nodup k v d.items (hget t d hd))
  case delItem t k =>
    cases hd : deref heap t with
    | error e => simp [hd] at h
    | ok d =>
      simp only [hd] at h
      cases hk : delKey d k with
      | error e => simp [hk] at h
      | ok d' =>
        simp only [hk] at h; cases h
        apply hset
        unfold delKey at hk
        split at hk
        · cases hk; exact (hget t d hd).sublist (List.filter_sublist.map _)
        · cases hk
  case delAttr t k =>
    cases hd : deref heap t with
    | error e => simp [hd] at h
    | ok d =>
      simp only [hd, asAttr] at h
      cases hk : delKey d k with
      | error e => cases e <;> simp [hk] at h
      | ok d' =>
        simp only [hk] at h; cases h
        apply hset
        unfold delKey at hk
        split at hk
        · cases hk; exact (hget t d hd).sublist (List.filter_sublist.map _)
        · cases hk
  case getItem t k =>
    cases hd : deref heap t with
    | error e => simp [hd] at h
    | ok d =>
      simp only [hd] at h
      cases hk : getKey d k with
      | error e => simp [hk] at h
      | ok v => simp only [hk] at h; cases h; exact inv
  case getAttr t k =>
    cases hd : deref heap t with
    | error e => simp [hd] at h
    | ok d =>
      simp only [hd, asAttr] at h
      split at h
      · cases h; exact inv
      · cases hk : getKey d k with
        | error e => cases e <;> simp [hk] at h
        | ok v => simp only [hk] at h; cases h; exact inv
  case getT t ks =>
    cases hd : deref heap t with
    | error e => simp [hd] at h
    | ok d =>
      simp only [hd] at h
      cases hk : getTuple d ks with
      | error e => simp [hk] at h
      | ok v => simp only [hk] at h; cases h; exact inv
  case keys t =>
    cases hd : deref heap t with
    | error e => simp [hd] at h
    | ok d => simp only [hd] at h; cases h; exact inv

end Pyg.DAHeap
