/-
  Every table-producing operation of the dictable model returns a rectangular table when its operands
  are rectangular (the per-operation cases of `Pyg.Props.C01.rect_step`).
-/
import PygProofs.Lemmas.TableLemmas

namespace Pyg
namespace Table

theorem col?_mem {t : Table} {k : String} {c : List Cell} (h : t.col? k = some c) : ∃ e ∈ t, e.2 = c := by
  unfold col? at h
  cases hf : t.find? (·.1 == k) with
  | none => simp [hf] at h
  | some e =>
    simp [hf] at h
    exact ⟨e, List.mem_of_find?_eq_some hf, h⟩

theorem col?_length {t : Table} {n : Nat} {k : String} {c : List Cell} (hr : t.Rect n)
    (h : t.col? k = some c) : c.length = n := by
  obtain ⟨e, he, rfl⟩ := col?_mem h
  exact hr e he

theorem getSlice_rect {t t' : Table} {n : Nat} {a b s : Option Int} (h : t.Rect n)
    (hs : t.getSlice a b s = .ok t') : t'.Rect (sliceIdx n a b (s.getD 1)).length := by
  unfold getSlice at hs
  split at hs
  · cases hs
  · cases hs
    intro c hc
    obtain ⟨c', hc', rfl⟩ := List.mem_map.1 hc
    simp [pySlice, h c' hc']

theorem getMask_rect {t t' : Table} {m : List Bool} (hs : t.getMask m = .ok t') : ∃ n', t'.Rect n' := by
  unfold getMask at hs
  split at hs
  · cases hs
  · split at hs
    · cases hs; exact ⟨0, emptyLike_rect t⟩
    · cases hs; exact ⟨_, gatherRows_rect t _⟩

theorem getTake_rect {t t' : Table} {is : List Int} (hs : t.getTake is = .ok t') : ∃ n', t'.Rect n' := by
  unfold getTake at hs
  split at hs
  · cases hs; exact ⟨0, emptyLike_rect t⟩
  · split at hs
    · cases hs
    · cases hs; exact ⟨_, gatherRows_rect t _⟩

theorem getProj_rect {t t' : Table} {n : Nat} {ks : List String} (h : t.Rect n)
    (hs : t.getProj ks = .ok t') : ∃ n', t'.Rect n' := by
  unfold getProj at hs
  split at hs
  · cases hs; exact ⟨0, emptyLike_rect t⟩
  · split at hs
    · cases hs
    · rename_i kvs hk
      cases hs
      refine ⟨n, ofPairs_rect ?_⟩
      intro kv hkv
      obtain ⟨k, _, hf⟩ := mapE_ok_mem hk hkv
      unfold getColE at hf
      split at hf
      · rename_i c hc
        split at hc
        · rename_i c' hc'
          cases hc; cases hf
          exact col?_length h hc'
        · cases hc
      · cases hf

/-! ### derived columns and per-column transforms -/

theorem setFn_rect {t t' : Table} {n : Nat} {kf : String × Fn} (h : t.Rect n)
    (hs : t.setFn kf = .ok t') : ∃ n', t'.Rect n' := by
  unfold setFn at hs
  split at hs
  · cases hs
  · exact setitem_rect h hs

theorem setFns_rect {t t' : Table} {n : Nat} (fns : List (String × Fn)) (h : t.Rect n)
    (hs : t.setFns fns = .ok t') : ∃ n', t'.Rect n' := by
  induction fns generalizing t n with
  | nil => simp [setFns] at hs; cases hs; exact ⟨n, h⟩
  | cons kf fns ih =>
    simp only [setFns] at hs
    split at hs
    · cases hs
    · rename_i t1 h1
      obtain ⟨n1, hn1⟩ := setFn_rect h h1
      exact ih hn1 hs

theorem callLoop_rect {t t' : Table} {n : Nat} (fuel : Nat) (fns : List (String × Fn)) (h : t.Rect n)
    (hs : t.callLoop fuel fns = .ok t') : ∃ n', t'.Rect n' := by
  induction fuel generalizing t n fns with
  | zero => exact setFns_rect fns h hs
  | succ fuel ih =>
    simp only [callLoop] at hs
    split at hs
    · split at hs
      · cases hs
      · split at hs
        · cases hs
        · rename_i t1 h1
          obtain ⟨n1, hn1⟩ := setFns_rect _ h h1
          exact ih _ hn1 hs
    · exact setFns_rect fns h hs

theorem call_rect {t t' : Table} {n : Nat} {consts : List (String × ColVal)} {fns : List (String × Fn)}
    (h : t.Rect n) (hs : t.call consts fns = .ok t') : ∃ n', t'.Rect n' := by
  unfold call at hs
  split at hs
  · cases hs
  · rename_i t1 h1
    obtain ⟨n1, hn1⟩ := updateE_rect h h1
    exact callLoop_rect _ _ hn1 hs

theorem doKey_rect {t t' : Table} {n : Nat} {f : DoFn} {k : String} (h : t.Rect n)
    (hs : t.doKey f k = .ok t') : ∃ n', t'.Rect n' := by
  unfold doKey at hs
  split at hs
  · cases hs
  · exact setitem_rect h hs

theorem doKeys_rect {t t' : Table} {n : Nat} {f : DoFn} (ks : List String) (h : t.Rect n)
    (hs : t.doKeys f ks = .ok t') : ∃ n', t'.Rect n' := by
  induction ks generalizing t n with
  | nil => simp [doKeys] at hs; cases hs; exact ⟨n, h⟩
  | cons k ks ih =>
    simp only [doKeys] at hs
    split at hs
    · cases hs
    · rename_i t1 h1
      obtain ⟨n1, hn1⟩ := doKey_rect h h1
      exact ih hn1 hs

theorem relabel_rect {t : Table} {n : Nat} (r : Relabel) (h : t.Rect n) : (t.relabel r).Rect n := by
  unfold relabel
  apply ofPairs_rect
  intro kv hkv
  obtain ⟨c, hc, rfl⟩ := List.mem_map.1 hkv
  exact h c hc

/-! ### concatenation -/

theorem getCol_length {t : Table} {n : Nat} (k : String) (h : t.Rect n) : (t.getCol k).length = t.nrows := by
  unfold getCol
  cases hc : t.col? k with
  | none => simp
  | some c =>
    simp only [Option.getD_some]
    have hne : t ≠ [] := by
      intro he; subst he; simp [col?] at hc
    rw [col?_length h hc, nrows_of_rect h hne]

theorem flatMap_getCol_length {ts : List Table} (k : String) (h : ∀ t ∈ ts, ∃ n, t.Rect n) :
    (ts.flatMap fun t => t.getCol k).length = (ts.map Table.nrows).sum := by
  induction ts with
  | nil => rfl
  | cons t ts ih =>
    obtain ⟨n, hn⟩ := h t List.mem_cons_self
    simp only [List.flatMap_cons, List.length_append, List.map_cons, List.sum_cons]
    rw [getCol_length k hn, ih (fun t' ht' => h t' (List.mem_cons_of_mem _ ht'))]

theorem concat_rect {ts : List Table} (h : ∀ t ∈ ts, ∃ n, t.Rect n) :
    (concat ts).Rect ((ts.map Table.nrows).sum) := by
  intro c hc
  unfold concat at hc
  obtain ⟨k, _, rfl⟩ := List.mem_map.1 hc
  exact flatMap_getCol_length k h

/-! ### construction -/

/-- the constructor returns a rectangular table whenever it returns -/
theorem construct_rect {data : Data} {columns : Option (List String)} {kwargs : List (String × ColVal)}
    {t : Table} (h : construct data columns kwargs = some (.ok t)) : ∃ n, t.Rect n := by
  unfold construct at h
  split at h
  · cases h
  · cases h
  · simp only [Option.some.injEq] at h
    exact finish_ok_rect h

end Table
end Pyg

/-! ### heaps -/

namespace Pyg

/-- every live table is rectangular -/
def HeapRect (s : Heap) : Prop := ∀ t ∈ s, ∃ n, t.Rect n

theorem HeapRect.nil : HeapRect [] := by intro t ht; cases ht

theorem HeapRect.get {s : Heap} (hs : HeapRect s) {h : Nat} {t : Table} (ht : s[h]? = some t) :
    ∃ n, t.Rect n := hs t (List.mem_of_getElem? ht)

theorem HeapRect.set {s : Heap} (hs : HeapRect s) (h : Nat) {t : Table} (ht : ∃ n, t.Rect n) :
    HeapRect (s.set h t) := by
  intro t' ht'
  rcases List.mem_or_eq_of_mem_set ht' with hm | rfl
  · exact hs t' hm
  · exact ht

theorem HeapRect.put {s : Heap} (hs : HeapRect s) (d : Nat) {t : Table} (ht : ∃ n, t.Rect n) :
    HeapRect (s.put d t) := by
  unfold Heap.put
  split
  · exact hs.set d ht
  · intro t' ht'
    rcases List.mem_append.1 ht' with hm | hm
    · exact hs t' hm
    · simp at hm; subst hm; exact ht

theorem HeapRect.bind {s : Heap} (hs : HeapRect s) (d : Nat) {r : Except Err Table}
    (hr : ∀ t, r = .ok t → ∃ n, t.Rect n) : HeapRect (s.bind d r).1 := by
  unfold Heap.bind
  split
  · rename_i t
    exact hs.put d (hr t rfl)
  · exact hs

theorem Heap.query_fst (s : Heap) (r : Except Err Val) : (s.query r).1 = s := by
  unfold Heap.query; split <;> rfl

/-- the handle an operation writes: its destination, or the table it assigns to; queries write nothing -/
def Op.writes : Op → Option Nat
  | .new d .. | .slice d .. | .mask d .. | .take d .. | .proj d .. | .call d .. | .relabel d ..
  | .doo d .. | .concat d .. | .addrec d .. | .copy d .. => some d
  | .setitem h .. | .delitem h .. | .update h .. => some h
  | .len .. | .shape .. | .row .. | .col .. | .iter .. | .tup .. | .apply .. | .addnone .. => Option.none

theorem Heap.put_getElem? (s : Heap) (d : Nat) (t : Table) (i : Nat) (hi : i < s.length) (hd : d ≠ i) :
    (s.put d t)[i]? = s[i]? := by
  unfold Heap.put
  split
  · exact List.getElem?_set_ne hd
  · exact List.getElem?_append_left hi

theorem Heap.bind_getElem? (s : Heap) (d : Nat) (r : Except Err Table) (i : Nat) (hi : i < s.length)
    (hd : d ≠ i) : (s.bind d r).1[i]? = s[i]? := by
  unfold Heap.bind
  split
  · exact Heap.put_getElem? s d _ i hi hd
  · rfl

theorem Heap.bind_err (s : Heap) (d : Nat) (r : Except Err Table) (e : Err) (h : (s.bind d r).2 = .err e) :
    (s.bind d r).1 = s := by
  unfold Heap.bind at *
  split
  · rename_i t; simp at h
  · rfl

end Pyg
