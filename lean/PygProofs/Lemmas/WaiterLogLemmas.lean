/-
  Lemmas about PygModel.WaiterLog (round k6): the log-based gather is positional (`logResults_positional`) and the log machine
  refines the slot machine of PygModel.Waiter (`completeL_refines`, `startL_refines`, `foldL_refines`); invariant `TaskL.ok`:
  the log of every gather node is a permutation of the completion records of its children.
-/
import PygModel.WaiterLog
import PygProofs.Lemmas.WaiterLemmas

namespace Pyg

theorem doneLog_keys_ge : ∀ (i : Nat) (ts : List TaskL) (j : Nat) (v : Val), (j, v) ∈ doneLog i ts → i ≤ j
  | _, [], _, _, h => by simp [doneLog] at h
  | i, t :: ts, j, v, h => by
      cases t with
      | ret x =>
        simp only [doneLog, List.mem_cons, Prod.mk.injEq] at h
        rcases h with ⟨rfl, _⟩ | h
        · exact Nat.le_refl _
        · exact Nat.le_of_succ_le (doneLog_keys_ge (i + 1) ts j v h)
      | wait id => exact Nat.le_of_succ_le (doneLog_keys_ge (i + 1) ts j v (by simpa [doneLog] using h))
      | gather k c l => exact Nat.le_of_succ_le (doneLog_keys_ge (i + 1) ts j v (by simpa [doneLog] using h))

theorem doneLog_keys_nodup : ∀ (i : Nat) (ts : List TaskL), ((doneLog i ts).map (·.1)).Nodup
  | _, [] => by simp [doneLog]
  | i, t :: ts => by
      have ih := doneLog_keys_nodup (i + 1) ts
      cases t with
      | ret x =>
        simp only [doneLog, List.map_cons, List.nodup_cons]
        refine ⟨?_, ih⟩
        intro hm
        obtain ⟨⟨j, v⟩, hp, hj⟩ := List.mem_map.1 hm
        have := doneLog_keys_ge (i + 1) ts j v hp
        simp only at hj
        omega
      | wait id => simpa [doneLog] using ih
      | gather k c l => simpa [doneLog] using ih

theorem mem_doneLog_of_getElem : ∀ (i : Nat) (ts : List TaskL) (j : Nat) (v : Val),
    ts[j]? = some (.ret v) → (i + j, v) ∈ doneLog i ts
  | _, [], j, v, h => by simp at h
  | i, t :: ts, 0, v, h => by
      simp only [List.getElem?_cons_zero, Option.some.injEq] at h
      subst h
      simp [doneLog]
  | i, t :: ts, j + 1, v, h => by
      have ih := mem_doneLog_of_getElem (i + 1) ts j v (by simpa using h)
      have e : i + 1 + j = i + (j + 1) := by omega
      rw [e] at ih
      cases t <;> simp [doneLog, ih]

theorem lookupNat_of_mem_nodup : ∀ (l : List (Nat × Val)) (j : Nat) (v : Val), (l.map (·.1)).Nodup → (j, v) ∈ l →
    l.lookup j = some v
  | [], _, _, _, h => by simp at h
  | (a, b) :: l, j, v, hn, h => by
      simp only [List.map_cons, List.nodup_cons] at hn
      simp only [List.mem_cons, Prod.mk.injEq] at h
      rcases h with ⟨rfl, rfl⟩ | h
      · simp [List.lookup]
      · have hne : j ≠ a := by
          intro e; subst e
          exact hn.1 (List.mem_map.2 ⟨(j, v), h, rfl⟩)
        have : (j == a) = false := by simpa using hne
        simp only [List.lookup, this]
        exact lookupNat_of_mem_nodup l j v hn.2 h

theorem doneLog_length_le : ∀ (i : Nat) (ts : List TaskL), (doneLog i ts).length ≤ ts.length
  | _, [] => by simp [doneLog]
  | i, t :: ts => by
      have ih := doneLog_length_le (i + 1) ts
      cases t <;> simp [doneLog] <;> omega

theorem doneLog_length_lt : ∀ (i : Nat) (ts : List TaskL), allRet (TaskL.toTaskList ts) = none →
    (doneLog i ts).length < ts.length
  | _, [], h => by simp [TaskL.toTaskList, allRet] at h
  | i, t :: ts, h => by
      have hle := doneLog_length_le (i + 1) ts
      cases t with
      | ret x =>
        simp only [TaskL.toTaskList, TaskL.toTask, allRet, Option.map_eq_none_iff] at h
        have := doneLog_length_lt (i + 1) ts h
        simp [doneLog]; omega
      | wait id => simp [doneLog]; omega
      | gather k c l => simp [doneLog]; omega

theorem allRet_toTask_some : ∀ (ts : List TaskL) (vs : List Val), allRet (TaskL.toTaskList ts) = some vs →
    (∀ i, (doneLog i ts).length = ts.length) ∧ vs.length = ts.length ∧
    ∀ (j : Nat) (hj : j < vs.length), ts[j]? = some (.ret vs[j])
  | [], vs, h => by
      simp only [TaskL.toTaskList, allRet, Option.some.injEq] at h
      subst h; simp [doneLog]
  | t :: ts, vs, h => by
      cases t with
      | ret x =>
        simp only [TaskL.toTaskList, TaskL.toTask, allRet, Option.map_eq_some_iff] at h
        obtain ⟨vs', h', rfl⟩ := h
        obtain ⟨a, b, c⟩ := allRet_toTask_some ts vs' h'
        refine ⟨fun i => by simp [doneLog, a (i + 1)], by simp [b], ?_⟩
        intro j hj
        cases j with
        | zero => simp
        | succ j => simpa using c j (by simpa using hj)
      | wait id => simp [TaskL.toTaskList, TaskL.toTask, allRet] at h
      | gather k c l => simp [TaskL.toTaskList, TaskL.toTask, allRet] at h

/-- **`asyncio.gather` is positional - as a lemma about the log-based gather**: whatever order the completions were logged in
(any permutation of the children's completion records), once every child is done the results read off the log are the
children's results in the order of the CHILDREN -/
theorem logResults_positional (ts : List TaskL) (vs : List Val) (log : List (Nat × Val))
    (hall : allRet (TaskL.toTaskList ts) = some vs) (hp : log.Perm (doneLog 0 ts)) :
    log.length = ts.length ∧ logResults ts.length log = vs := by
  obtain ⟨hlen, hvl, hget⟩ := allRet_toTask_some ts vs hall
  refine ⟨by rw [hp.length_eq, hlen 0], ?_⟩
  have hnd : (log.map (·.1)).Nodup := (hp.map (·.1)).nodup_iff.2 (doneLog_keys_nodup 0 ts)
  apply List.ext_getElem
  · simp [logResults, hvl]
  · intro j h1 h2
    have hm : (j, vs[j]) ∈ log := by
      apply hp.mem_iff.2
      have := mem_doneLog_of_getElem 0 ts j vs[j] (hget j h2)
      simpa using this
    simp [logResults, lookupNat_of_mem_nodup log j vs[j] hnd hm]

/-- a gather node whose log is a permutation of its children's completion records is the slot machine's gather node -/
theorem collapseL_toTask (k : Kind) (ts : List TaskL) (log : List (Nat × Val)) (hp : log.Perm (doneLog 0 ts)) :
    (collapseL k ts log).toTask = collapse k (TaskL.toTaskList ts) := by
  cases hall : allRet (TaskL.toTaskList ts) with
  | some vs =>
    obtain ⟨hl, hr⟩ := logResults_positional ts vs log hall hp
    simp [collapseL, collapse, hall, hl, hr, TaskL.toTask]
  | none =>
    have := doneLog_length_lt 0 ts hall
    have hne : log.length ≠ ts.length := by rw [hp.length_eq]; omega
    simp [collapseL, collapse, hall, hne, TaskL.toTask]

theorem collapseL_ok (k : Kind) (ts : List TaskL) (log : List (Nat × Val)) (hok : TaskL.okList ts)
    (hp : log.Perm (doneLog 0 ts)) : (collapseL k ts log).ok := by
  unfold collapseL
  split
  · simp [TaskL.ok]
  · exact ⟨hok, hp⟩

/-- the completion records after a step = those before + the children that finished in the step -/
theorem doneLog_step (f : TaskL → TaskL) (hf : ∀ x, f (.ret x) = .ret x) : ∀ (i : Nat) (ts : List TaskL),
    (doneLog i ts ++ newlyDone i ts (ts.map f)).Perm (doneLog i (ts.map f))
  | _, [] => by simp [doneLog, newlyDone]
  | i, t :: ts => by
      have ih := doneLog_step f hf (i + 1) ts
      cases t with
      | ret x => simpa [doneLog, newlyDone, hf] using ih
      | wait id =>
        cases hft : f (.wait id) with
        | ret v => simp only [List.map_cons, doneLog, newlyDone, hft]; exact List.perm_middle.trans (ih.cons _)
        | wait j => simpa [doneLog, newlyDone, hft] using ih
        | gather k c l => simpa [doneLog, newlyDone, hft] using ih
      | gather k0 c0 l0 =>
        cases hft : f (.gather k0 c0 l0) with
        | ret v => simp only [List.map_cons, doneLog, newlyDone, hft]; exact List.perm_middle.trans (ih.cons _)
        | wait j => simpa [doneLog, newlyDone, hft] using ih
        | gather k c l => simpa [doneLog, newlyDone, hft] using ih

theorem completeLList_eq_map (id : Nat) (v : Val) : ∀ ts, completeLList id v ts = ts.map (completeL id v)
  | [] => rfl
  | t :: ts => by simp [completeLList, completeLList_eq_map id v ts]

mutual
  theorem completeL_refines (id : Nat) (v : Val) : ∀ t : TaskL, t.ok →
      (completeL id v t).toTask = complete id v t.toTask ∧ (completeL id v t).ok
    | .ret x, _ => by simp [completeL, complete, TaskL.toTask, TaskL.ok]
    | .wait j, _ => by by_cases h : j = id <;> simp [completeL, complete, TaskL.toTask, TaskL.ok, h]
    | .gather k ch log, hok => by
        obtain ⟨hch, hp⟩ := hok
        obtain ⟨h1, h2⟩ := completeLList_refines id v ch hch
        have hp' : (log ++ newlyDone 0 ch (completeLList id v ch)).Perm (doneLog 0 (completeLList id v ch)) := by
          rw [completeLList_eq_map]
          exact (hp.append_right _).trans (doneLog_step (completeL id v) (fun x => by simp [completeL]) 0 ch)
        refine ⟨?_, collapseL_ok k _ _ h2 hp'⟩
        simp only [completeL, TaskL.toTask, complete]
        rw [collapseL_toTask k _ _ hp', h1]
  theorem completeLList_refines (id : Nat) (v : Val) : ∀ ts : List TaskL, TaskL.okList ts →
      TaskL.toTaskList (completeLList id v ts) = completeList id v (TaskL.toTaskList ts) ∧
      TaskL.okList (completeLList id v ts)
    | [], _ => by simp [completeLList, completeList, TaskL.toTaskList, TaskL.okList]
    | t :: ts, hok => by
        obtain ⟨a1, a2⟩ := completeL_refines id v t hok.1
        obtain ⟨b1, b2⟩ := completeLList_refines id v ts hok.2
        exact ⟨by simp [completeLList, completeList, TaskL.toTaskList, a1, b1], ⟨a2, b2⟩⟩
end

mutual
  theorem startL_refines : ∀ w : W, (startL w).toTask = start w ∧ (startL w).ok
    | .val c => by simp [startL, start, TaskL.toTask, TaskL.ok]
    | .aw id => by simp [startL, start, TaskL.toTask, TaskL.ok]
    | .list xs => by
        obtain ⟨h1, h2⟩ := startLList_refines xs
        exact ⟨by simp only [startL, start]; rw [collapseL_toTask _ _ _ (List.Perm.refl _), h1],
          collapseL_ok _ _ _ h2 (List.Perm.refl _)⟩
    | .tuple xs => by
        obtain ⟨h1, h2⟩ := startLList_refines xs
        exact ⟨by simp only [startL, start]; rw [collapseL_toTask _ _ _ (List.Perm.refl _), h1],
          collapseL_ok _ _ _ h2 (List.Perm.refl _)⟩
    | .dict kvs => by
        obtain ⟨h1, h2⟩ := startLKVs_refines kvs
        exact ⟨by simp only [startL, start]; rw [collapseL_toTask _ _ _ (List.Perm.refl _), h1],
          collapseL_ok _ _ _ h2 (List.Perm.refl _)⟩
  theorem startLList_refines : ∀ xs : List W,
      TaskL.toTaskList (startLList xs) = startList xs ∧ TaskL.okList (startLList xs)
    | [] => by simp [startLList, startList, TaskL.toTaskList, TaskL.okList]
    | x :: xs => by
        obtain ⟨a1, a2⟩ := startL_refines x
        obtain ⟨b1, b2⟩ := startLList_refines xs
        exact ⟨by simp [startLList, startList, TaskL.toTaskList, a1, b1], ⟨a2, b2⟩⟩
  theorem startLKVs_refines : ∀ kvs : List (String × W),
      TaskL.toTaskList (startLKVs kvs) = startKVs kvs ∧ TaskL.okList (startLKVs kvs)
    | [] => by simp [startLKVs, startKVs, TaskL.toTaskList, TaskL.okList]
    | (_, x) :: kvs => by
        obtain ⟨a1, a2⟩ := startL_refines x
        obtain ⟨b1, b2⟩ := startLKVs_refines kvs
        exact ⟨by simp [startLKVs, startKVs, TaskL.toTaskList, a1, b1], ⟨a2, b2⟩⟩
end

theorem foldL_refines : ∀ (evs : List (Nat × Val)) (t : TaskL), t.ok →
    (evs.foldl (fun t e => completeL e.1 e.2 t) t).toTask = evs.foldl (fun t e => complete e.1 e.2 t) t.toTask ∧
    (evs.foldl (fun t e => completeL e.1 e.2 t) t).ok
  | [], t, h => ⟨rfl, h⟩
  | e :: evs, t, h => by
      obtain ⟨a1, a2⟩ := completeL_refines e.1 e.2 t h
      simp only [List.foldl]
      rw [← a1]
      exact foldL_refines evs _ a2

theorem toTask_result (t : TaskL) : t.toTask.result = t.result := by
  cases t <;> simp [TaskL.toTask, Task.result, TaskL.result]

end Pyg
