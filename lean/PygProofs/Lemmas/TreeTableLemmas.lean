/-
  Lemmas for the table side of C15 (`tree_to_table` / `table_to_tree`, PygModel/TreeTable.lean): what is written by a
  sequence of path writes with pairwise branching paths is read back, and a value readable at a path that matches the
  pattern yields its row in `toTable`.
-/
import PygModel.TreeTable
import PygProofs.Lemmas.TreeLemmas
import PygProofs.Lemmas.TreeMerge

namespace Pyg.TreeTable
open Pyg Pyg.DA Pyg.Tree

/-- two paths part at some position (equal before it, different keys at it) -/
def Branch (p q : Path) : Prop :=
  ∃ i, i < p.length ∧ i < q.length ∧ p[i]? ≠ q[i]? ∧ p.take i = q.take i

theorem Branch.symm {p q : Path} (h : Branch p q) : Branch q p := by
  obtain ⟨i, h1, h2, h3, h4⟩ := h
  exact ⟨i, h2, h1, fun e => h3 e.symm, h4.symm⟩

/-- distinct paths of the same length part somewhere (no path is a prefix of another) -/
theorem branch_of_ne : ∀ (p q : Path), p.length = q.length → p ≠ q → Branch p q
  | [], [], _, h => absurd rfl h
  | [], _ :: _, h, _ => by simp at h
  | _ :: _, [], h, _ => by simp at h
  | a :: p, b :: q, hl, hne => by
      by_cases e : a = b
      · subst e
        obtain ⟨i, h1, h2, h3, h4⟩ := branch_of_ne p q (by simpa using hl) (fun e => hne (by rw [e]))
        exact ⟨i + 1, by simpa using h1, by simpa using h2, by simpa using h3, by simp [h4]⟩
      · exact ⟨0, by simp, by simp, by simpa using e, rfl⟩

/-- frame at any depth (as `C15.setitem_frame_deep`): a path write preserves every successful read through a path
branching off the written one -/
theorem getItem_setKVs_branch (v : Val) (ig : List Val) : ∀ (p q : Path) (kvs : List (String × Val)) (w : Val),
    Branch p q → getItem (.dict kvs) q = .ok w → getItem (.dict (setKVs kvs p v ig)) q = .ok w
  | [], q, kvs, w, h, _ => by obtain ⟨i, hi, _⟩ := h; simp at hi
  | k :: rest, [], kvs, w, h, _ => by obtain ⟨i, _, hi, _⟩ := h; simp at hi
  | k :: rest, j :: qs, kvs, w, h, hr => by
      obtain ⟨i, hip, hiq, hne, htk⟩ := h
      by_cases e : j = k
      · subst e
        cases i with
        | zero => simp at hne
        | succ i =>
          simp only [List.length_cons, Nat.add_lt_add_iff_right] at hip hiq
          simp only [List.getElem?_cons_succ, List.take_succ_cons, List.cons.injEq, true_and] at hne htk
          cases rest with
          | nil => simp at hip
          | cons k2 r2 =>
            rw [setKVs_deep]
            simp only [getItem, lookup_set, if_true]
            simp only [getItem] at hr
            cases hl : lookup j kvs with
            | none => simp [hl, throw, throwThe, MonadExceptOf.throw] at hr
            | some old =>
              simp only [hl] at hr
              cases old with
              | dict s =>
                have : subOf j kvs = s := by simp [subOf, hl]
                rw [this]
                exact getItem_setKVs_branch v ig (k2 :: r2) qs s w ⟨i, hip, hiq, hne, htk⟩ hr
              | _ => cases qs with
                | nil => simp at hiq
                | cons q1 qr => simp [getItem, throw, throwThe, MonadExceptOf.throw] at hr
      · have hj : (k :: rest).head? ≠ some j := by simp [Ne.symm e]
        simp only [getItem, lookup_setKVs_other (k :: rest) kvs v ig j hj]
        simpa [getItem] using hr

/-- successive path writes (no ignore list) -/
abbrev buildOn (base : List (String × Val)) (its : List (Path × Val)) : List (String × Val) :=
  its.foldl (fun acc pv => setKVs acc pv.1 pv.2 []) base

/-- later writes at branching paths keep a readable value readable -/
theorem buildOn_keeps (p : Path) (w : Val) : ∀ (its : List (Path × Val)) (base : List (String × Val)),
    (∀ pv ∈ its, Branch pv.1 p) → getItem (.dict base) p = .ok w → getItem (.dict (buildOn base its)) p = .ok w
  | [], _, _, h => h
  | pv :: its, base, hb, h => by
      simp only [buildOn, List.foldl_cons]
      exact buildOn_keeps p w its _ (fun x hx => hb x (by simp [hx]))
        (getItem_setKVs_branch pv.2 [] pv.1 p base w (hb pv (by simp)) h)

/-- every item written is read back at its path when the paths pairwise branch -/
theorem buildOn_reads_back : ∀ (its : List (Path × Val)) (base : List (String × Val)),
    (its.map (·.1)).Pairwise Branch → (∀ pv ∈ its, pv.1 ≠ []) →
    ∀ pv ∈ its, getItem (.dict (buildOn base its)) pv.1 = .ok pv.2
  | [], _, _, _, pv, hm => by simp at hm
  | x :: its, base, hp, hne, pv, hm => by
      simp only [List.map_cons, List.pairwise_cons] at hp
      simp only [buildOn, List.foldl_cons]
      rcases List.mem_cons.1 hm with rfl | hm
      · apply buildOn_keeps
        · intro y hy; exact (hp.1 y.1 (List.mem_map.2 ⟨y, hy, rfl⟩)).symm
        · exact getItem_setKVs pv.1 base pv.2 (hne pv (by simp))
      · exact buildOn_reads_back its _ hp.2 (fun y hy => hne y (by simp [hy])) pv hm

theorem mem_of_lookup {V} (k : String) (v : V) : ∀ (kvs : List (String × V)), lookup k kvs = some v → (k, v) ∈ kvs
  | [], h => by simp [lookup] at h
  | (l, w) :: kvs, h => by
      simp only [lookup] at h
      split at h
      · rename_i e; cases h; simp [e]
      · simp [mem_of_lookup k v kvs h]

/-- the row `tree_to_table` makes of the item `(path, leaf)` under a pattern: wildcards bind the keys / the leaf,
literals must match (`none`: the item does not match the pattern) -/
def rowOf : List Seg → Path → Val → Option Row
  | [.wild n], [], v => some [(n, v)]
  | [.lit s], [], v => if v = .cell (.str s) then some [] else none
  | .wild n :: rest, k :: p, v => (rowOf rest p v).map (DA.set n (.cell (.str k)))
  | .lit s :: rest, k :: p, v => if k = s then rowOf rest p v else none
  | _, _, _ => none

/-- a leaf readable at a path that matches the pattern comes out of `tree_to_table` as its row -/
theorem toTable_complete : ∀ (P : List Seg) (p : Path) (t v : Val) (r : Row), (∀ s, v ≠ .dict s) →
    rowOf P p v = some r → getItem t p = .ok v → r ∈ toTable P t
  | [], p, t, v, r, _, h, _ => by cases p <;> simp [rowOf] at h
  | seg :: rest, [], t, v, r, hv, h, hg => by
      simp only [getItem, pure, Except.pure, Except.ok.injEq] at hg
      subst hg
      cases rest with
      | cons s2 r2 => cases seg <;> simp [rowOf] at h
      | nil =>
        cases seg with
        | wild n =>
          simp only [rowOf, Option.some.injEq] at h; subst h
          cases t with
          | dict s => exact absurd rfl (hv s)
          | _ => simp [toTable]
        | lit s =>
          simp only [rowOf] at h
          split at h
          · rename_i e; cases h; subst e; simp [toTable]
          · cases h
  | seg :: rest, k :: p, t, v, r, hv, h, hg => by
      cases t with
      | dict kvs =>
        simp only [getItem] at hg
        cases hl : lookup k kvs with
        | none => simp [hl, throw, throwThe, MonadExceptOf.throw] at hg
        | some w =>
          simp only [hl] at hg
          cases seg with
          | wild n =>
            have h' : (rowOf rest p v).map (DA.set n (.cell (.str k))) = some r := by
              cases rest <;> simpa [rowOf] using h
            cases hr : rowOf rest p v with
            | none => simp [hr] at h'
            | some r0 =>
              simp only [hr, Option.map_some, Option.some.injEq] at h'
              subst h'
              simp only [toTable, List.mem_flatMap, List.mem_map]
              exact ⟨(k, w), mem_of_lookup k w kvs hl, r0, toTable_complete rest p w v r0 hv hr hg, rfl⟩
          | lit s =>
            have h' : (if k = s then rowOf rest p v else none) = some r := by
              cases rest <;> simpa [rowOf] using h
            split at h'
            · rename_i e; subst e
              simp only [toTable, hl]
              exact toTable_complete rest p w v r hv h' hg
            · cases h'
      | _ => simp [getItem, throw, throwThe, MonadExceptOf.throw] at hg

end Pyg.TreeTable

namespace Pyg.TreeTable
open Pyg Pyg.DA Pyg.Tree

theorem mapM_ok_length {α β : Type} (f : α → Res β) : ∀ (xs : List α) (ys : List β),
    xs.mapM f = .ok ys → ys.length = xs.length
  | [], ys, h => by simp [pure, Except.pure] at h; subst h; rfl
  | x :: xs, ys, h => by
      simp only [List.mapM_cons, bind, Except.bind] at h
      cases hx : f x with
      | error e => simp [hx] at h
      | ok y =>
        simp only [hx] at h
        cases hr : xs.mapM f with
        | error e => simp [hr] at h
        | ok zs =>
          simp only [hr, pure, Except.pure, Except.ok.injEq] at h
          subst h
          simp [mapM_ok_length f xs zs hr]

/-- the item of a row has one key per segment but the last -/
theorem rowItem_length (P : List Seg) (row : Row) (pv : Path × Val) (h : rowItem P row = .ok pv) :
    pv.1.length + 1 = P.length := by
  simp only [rowItem, bind, Except.bind] at h
  split at h
  · cases h
  · rename_i vals hvals
    have hl := mapM_ok_length _ P vals hvals
    split at h
    · cases h
    · rename_i v rp hrev
      split at h
      · cases h
      · rename_i path hpath
        simp only [pure, Except.pure, Except.ok.injEq] at h
        subst h
        have h2 := mapM_ok_length _ _ path hpath
        have h3 : vals.length = rp.length + 1 := by
          have := congrArg List.length hrev
          simpa using this
        simp only [h2, List.length_reverse]
        omega

/-- `table_to_tree(None, P, rows)` is the sequence of path writes of the rows' items -/
theorem toTree_eq_buildOn (P : List Seg) : ∀ (rows : List Row) (its : List (Path × Val)) (acc : List (String × Val)),
    rows.mapM (rowItem P) = .ok its → (∀ pv ∈ its, pv.1 ≠ []) →
    rows.foldlM (fun acc row => do
      let (p, v) ← rowItem P row
      if p.isEmpty then throw Err.value else pure (setKVs acc p v [])) acc = (.ok (buildOn acc its) : Res _)
  | [], its, acc, h, _ => by simp [pure, Except.pure] at h; subst h; rfl
  | row :: rows, its, acc, h, hne => by
      simp only [List.mapM_cons, bind, Except.bind] at h
      cases hx : rowItem P row with
      | error e => simp [hx] at h
      | ok pv =>
        simp only [hx] at h
        cases hr : rows.mapM (rowItem P) with
        | error e => simp [hr] at h
        | ok its' =>
          simp only [hr, pure, Except.pure, Except.ok.injEq] at h
          subst h
          have hp : pv.1 ≠ [] := hne pv (by simp)
          have hemp : pv.1.isEmpty = false := by cases hpv : pv.1 <;> simp_all
          simp only [List.foldlM_cons, bind, Except.bind, hx, hemp, Bool.false_eq_true, if_false, pure, Except.pure]
          exact toTree_eq_buildOn P rows its' _ hr (fun y hy => hne y (by simp [hy]))

end Pyg.TreeTable
