/-
  Refinement lemmas of C01, part 2: row selection (slice, mask, int list), `dict(pairs)` tables
  (projection, relabel), derived columns, per-column transforms, construction.
-/
import PygProofs.Lemmas.TableAbs
import PygProofs.Lemmas.SliceLemmas

namespace Pyg
open Abs
namespace Abs

theorem bcast_map {α β} (f : α → β) (n : Nat) (xs : List α) : bcast n (xs.map f) = (bcast n xs).map f := by
  cases xs with
  | nil => rfl
  | cons x xs =>
    cases xs with
    | nil => simp [bcast]
    | cons y ys => rfl

theorem zipper2_map {α β γ} (f : α → γ) (xs : List α) (m : List β) :
    zipper2 (xs.map f) m =
      match zipper2 xs m with
      | .error e => .error e
      | .ok ps => .ok (ps.map fun p => (f p.1, p.2)) := by
  unfold zipper2
  rw [List.length_map]
  cases lens [xs.length, m.length] with
  | error e => rfl
  | ok n =>
    simp only [bcast_map, List.zip_map_left]
    congr 1

theorem rev_induction {α} {P : List α → Prop} (nil : P []) (snoc : ∀ l a, P l → P (l ++ [a])) :
    ∀ l, P l := by
  intro l
  rw [← List.reverse_reverse l]
  induction l.reverse with
  | nil => exact nil
  | cons a as ih => rw [List.reverse_cons]; exact snoc _ _ ih

theorem pyIdx_zero (i : Int) : pyIdx 0 i = Option.none := by
  unfold pyIdx
  rw [if_neg (by omega), if_neg (by omega)]

end Abs

namespace Table

/-! ### slices -/

theorem abs_gatherRows {t : Table} (hne : t ≠ []) (idx : List Nat) :
    abs (t.gatherRows idx) = ⟨t.cols, idx.map t.row⟩ := by
  simp [abs, cols_gatherRows, rows_gatherRows hne]

theorem abs_emptyLike (t : Table) : abs t.emptyLike = ⟨t.cols, []⟩ := by
  cases t with
  | nil => rfl
  | cons c t => simp [abs, cols_emptyLike, rows_emptyLike]

theorem abs_getSlice {t : Table} {n : Nat} (hr : t.Rect n) (a b s : Option Int) :
    (t.getSlice a b s).map abs = (abs t).getSlice a b s := by
  unfold Recs.getSlice
  rw [abs_cols, cols_isEmpty]
  by_cases hne : t = []
  · subst hne
    simp only [getSlice, List.isEmpty_nil, Bool.not_true, Bool.and_false, Bool.false_eq_true, if_false, if_true]
    rfl
  · rw [isEmpty_false hne]
    simp only [Bool.false_eq_true, if_false]
    by_cases hs : s = some 0
    · subst hs
      simp [getSlice, isEmpty_false hne]
      rfl
    · have hs' : (s == some 0) = false := by
        cases s with
        | none => rfl
        | some x =>
          have : x ≠ 0 := fun hx => hs (by rw [hx])
          simp [this]
      rw [getSlice_eq_gather hr a b s hs, hs']
      simp only [Bool.false_eq_true, if_false]
      apply congrArg Except.ok
      rw [abs_gatherRows hne]
      have hs0 : s.getD 1 ≠ 0 := by
        cases s with
        | none => decide
        | some x => exact fun hx => hs (by simp at hx; rw [hx])
      unfold Recs.slice
      rw [abs_rows_length, nrows_of_rect hr hne, abs_cols]
      congr 1
      apply List.map_congr_left
      intro j hj
      have hj' := sliceIdx_lt n a b (s.getD 1) hs0 j hj
      simp [abs_rows hr hne, List.getD_eq_getElem?_getD, hj']

/-! ### masks -/

theorem abs_getMask {t : Table} (m : List Bool) : (t.getMask m).map abs = (abs t).getMask m := by
  unfold getMask maskIdx Recs.getMask
  have hrows : (abs t).rows = (List.range t.nrows).map t.row := rfl
  rw [hrows, zipper2_map]
  cases hz : zipper2 (List.range t.nrows) m with
  | error e => rfl
  | ok ps =>
    simp only
    have hidx : ((ps.map fun p => (t.row p.1, p.2)).filter (·.2)).map (·.1)
        = ((ps.filter (·.2)).map (·.1)).map t.row := by
      rw [List.filter_map, List.map_map, List.map_map]
      rfl
    rw [hidx]
    by_cases hne : t = []
    · subst hne
      have h0 : (ps.filter (·.2)).map (·.1) = [] := by
        have hm : maskIdx 0 m = .ok ((ps.filter (·.2)).map (·.1)) := by
          unfold maskIdx
          have : zipper2 (List.range 0) m = .ok ps := hz
          rw [this]
        have := maskIdx_lt hm
        cases hl : (ps.filter (·.2)).map (·.1) with
        | nil => rfl
        | cons a as => exact absurd (this a (by rw [hl]; exact List.mem_cons_self)) (by omega)
      rw [h0]
      rfl
    · split
      · rename_i he
        have : (ps.filter (·.2)).map (·.1) = [] := by simpa using he
        rw [this]
        exact congrArg Except.ok (abs_emptyLike t)
      · exact congrArg Except.ok (abs_gatherRows hne _)

/-! ### integer lists -/

theorem abs_getTake {t : Table} {n : Nat} (hr : t.Rect n) (is : List Int) :
    (t.getTake is).map abs = (abs t).take is := by
  by_cases hne : t = []
  · subst hne
    cases is with
    | nil => rfl
    | cons i is =>
      simp only [getTake, List.isEmpty_cons, Bool.false_eq_true, if_false, nrows, mapE, pyIdx_zero]
      simp [Recs.take, abs_nil, pyIdx_zero]
      rfl
  · have hlen : (abs t).rows.length = n := by rw [abs_rows_length, nrows_of_rect hr hne]
    cases hg : t.getTake is with
    | ok t' =>
      obtain ⟨h1, h2, h3⟩ := getTake_ok hr hne hg
      have hall : (is.all fun i => (pyIdx (abs t).rows.length i).isSome) = true := by
        rw [hlen]; exact List.all_eq_true.2 h2
      unfold Recs.take
      rw [if_pos hall, hlen]
      simp only [Except.map, abs, h1, h3]
      congr 2
      apply filterMap_congr'
      intro i _
      cases hp : pyIdx n i with
      | none => rfl
      | some j =>
        have := abs_rows_getD t n hr hne j (pyIdx_lt hp)
        simp only [Option.map_some]
        rw [this]
    | error e =>
      unfold getTake at hg
      rw [nrows_of_rect hr hne] at hg
      split at hg
      · cases hg
      · split at hg
        · rename_i e' he'
          cases hg
          obtain ⟨he, i, hi, hnone⟩ := mapE_pyIdx_error he'
          subst he
          have hbad : ¬ (is.all fun i => (pyIdx (abs t).rows.length i).isSome) = true := by
            rw [hlen]
            intro hall
            have := List.all_eq_true.1 hall i hi
            simp [hnone] at this
          simp only [Recs.take, Except.map]
          rw [if_neg hbad]
        · cases hg

/-! ### tables built by `dict(pairs)` -/

theorem dedupKeys_append_singleton (xs : List String) (k : String) :
    dedupKeys (xs ++ [k]) = if k ∈ xs then dedupKeys xs else dedupKeys xs ++ [k] := by
  induction xs with
  | nil => simp [dedupKeys]
  | cons a xs ih =>
    simp only [List.cons_append, dedupKeys, ih]
    by_cases hk : k ∈ xs
    · simp [hk]
    · simp only [hk, if_false, List.mem_cons]
      by_cases hka : k = a
      · subst hka
        simp [List.filter_append]
      · simp [hka, List.filter_append]

theorem ofPairs_append (kvs : List (String × List Cell)) (kv : String × List Cell) :
    ofPairs (kvs ++ [kv]) = (ofPairs kvs).set kv.1 kv.2 := by
  simp [ofPairs, List.foldl_append]

theorem cols_ofPairs (kvs : List (String × List Cell)) : (ofPairs kvs).cols = dedupKeys (kvs.map (·.1)) := by
  induction kvs using rev_induction with
  | nil => rfl
  | snoc kvs kv ih =>
    rw [ofPairs_append, List.map_append, List.map_cons, List.map_nil, dedupKeys_append_singleton]
    cases hh : (ofPairs kvs).has kv.1 with
    | true =>
      have : kv.1 ∈ kvs.map (·.1) := by
        have := (has_iff_mem_cols _ _).1 hh
        rwa [ih, mem_dedupKeys] at this
      rw [cols_set_of_has _ hh, if_pos this, ih]
    | false =>
      have : ¬ kv.1 ∈ kvs.map (·.1) := by
        intro hm
        have : (ofPairs kvs).has kv.1 = true := by
          rw [has_iff_mem_cols, ih, mem_dedupKeys]; exact hm
        rw [hh] at this; cases this
      rw [cols_set_of_not_has _ hh, if_neg this, ih]

/-- a key of `dict(pairs)` holds the value of the LAST pair with that key -/
theorem col?_ofPairs (kvs : List (String × List Cell)) (k : String) :
    (ofPairs kvs).col? k = (kvs.reverse.find? (·.1 == k)).map (·.2) := by
  induction kvs using rev_induction with
  | nil => rfl
  | snoc kvs kv ih =>
    rw [ofPairs_append, col?_set, List.reverse_append, List.reverse_cons, List.reverse_nil, List.nil_append,
      List.singleton_append, List.find?_cons]
    by_cases hk : k = kv.1
    · subst hk; simp
    · have : (kv.1 == k) = false := by simpa using fun h => hk h.symm
      rw [if_neg hk, this, ih]

theorem row_of_nodup {t : Table} (hn : t.cols.Nodup) (i : Nat) :
    t.row i = t.cols.map fun k => ((t.col? k).getD []).getD i .none := by
  unfold row cols
  rw [List.map_map]
  apply List.map_congr_left
  intro e he
  simp [Function.comp, col?_of_mem_nodup hn he]

/-- the records of a `dict(pairs)` table with `n`-long values -/
theorem abs_ofPairs {kvs : List (String × List Cell)} {n : Nat} (h : ∀ kv ∈ kvs, kv.2.length = n)
    (hne : kvs ≠ []) :
    abs (ofPairs kvs) = ⟨dedupKeys (kvs.map (·.1)), (List.range n).map fun i =>
      (dedupKeys (kvs.map (·.1))).map fun k =>
        (((kvs.reverse.find? (·.1 == k)).map (·.2)).getD []).getD i .none⟩ := by
  have hne' : ofPairs kvs ≠ [] := by
    obtain ⟨init, last, rfl⟩ : ∃ init last, kvs = init ++ [last] := by
      cases h' : kvs.reverse with
      | nil => simp at h'; exact absurd h' hne
      | cons a as => exact ⟨as.reverse, a, by rw [← List.reverse_reverse kvs, h']; simp⟩
    rw [ofPairs_append]
    exact set_ne_nil _ _ _
  rw [abs_of_rect (ofPairs_rect h) hne', cols_ofPairs]
  congr 1
  apply List.map_congr_left
  intro i _
  rw [row_of_nodup (ofPairs_nodup kvs), cols_ofPairs]
  apply List.map_congr_left
  intro k _
  rw [col?_ofPairs]

/-! ### projection -/

theorem mapE_proj_ok (t : Table) (ks : List String) (h : ks.all t.cols.contains = true) :
    mapE (fun k => (t.getColE k).map fun c => (k, c)) ks = .ok (ks.map fun k => (k, t.getCol k)) := by
  apply mapE_of_ok
  intro k hk
  have := List.all_eq_true.1 h k hk
  rw [contains_cols, has_eq_isSome_col?] at this
  unfold getColE
  cases hc : t.col? k with
  | none => simp [hc] at this
  | some c => simp [getCol, hc, Except.map]

theorem mapE_proj_err (t : Table) (ks : List String) (h : ¬ ks.all t.cols.contains = true) :
    mapE (fun k => (t.getColE k).map fun c => (k, c)) ks = .error .key := by
  induction ks with
  | nil => simp at h
  | cons k ks ih =>
    simp only [mapE]
    cases hc : t.getColE k with
    | error e =>
      unfold getColE at hc
      split at hc
      · cases hc
      · cases hc; rfl
    | ok c =>
      have hk : t.cols.contains k = true := by
        rw [contains_cols, has_eq_isSome_col?]
        unfold getColE at hc
        split at hc
        · rename_i c' hc'; simp [hc']
        · cases hc
      have : ¬ ks.all t.cols.contains = true := by
        intro hall
        apply h
        rw [List.all_cons, hk, hall]
        rfl
      rw [ih this]
      rfl

theorem find?_reverse_map_key (ks : List String) (F : String → List Cell) (k : String) (hk : k ∈ ks) :
    ((ks.map fun k' => (k', F k')).reverse.find? (·.1 == k)).map (·.2) = some (F k) := by
  rw [← List.map_reverse, List.find?_map]
  have hk' : k ∈ ks.reverse := List.mem_reverse.2 hk
  generalize ks.reverse = l at hk'
  induction l with
  | nil => cases hk'
  | cons a as ih =>
    simp only [List.find?_cons, Function.comp]
    by_cases ha : a = k
    · subst ha; simp
    · have : (a == k) = false := by simpa using ha
      simp only [this]
      rcases List.mem_cons.1 hk' with rfl | hm
      · exact absurd rfl ha
      · exact ih hm

theorem abs_getProj {t : Table} {n : Nat} (hr : t.Rect n) (ks : List String) :
    (t.getProj ks).map abs = (abs t).getProj ks := by
  unfold getProj Recs.getProj
  rw [abs_cols]
  cases hks : ks.isEmpty with
  | true => exact congrArg Except.ok (abs_emptyLike t)
  | false =>
    simp only [Bool.false_eq_true, if_false]
    rw [mapE_congr (xs := ks) (g := fun k => (t.getColE k).map fun c => (k, c))
      (fun k _ => by cases t.getColE k <;> rfl)]
    by_cases hall : ks.all t.cols.contains = true
    · rw [mapE_proj_ok t ks hall, if_pos hall]
      apply congrArg Except.ok
      obtain ⟨k0, ks', rfl⟩ : ∃ k0 ks', ks = k0 :: ks' := by
        cases ks with
        | nil => simp at hks
        | cons a as => exact ⟨a, as, rfl⟩
      have hne : t ≠ [] := by
        intro h; subst h
        have := List.all_eq_true.1 hall k0 List.mem_cons_self
        simp [cols] at this
      have hlen : ∀ kv ∈ (k0 :: ks').map (fun k => (k, t.getCol k)), kv.2.length = n := by
        intro kv hkv
        obtain ⟨k, _, rfl⟩ := List.mem_map.1 hkv
        rw [getCol_length k hr, nrows_of_rect hr hne]
      rw [abs_ofPairs hlen (by simp), abs_rows hr hne]
      have hkeys : ((k0 :: ks').map fun k => (k, t.getCol k)).map (·.1) = k0 :: ks' := by
        simp [List.map_map, Function.comp_def]
      rw [hkeys, List.map_map]
      congr 1
      apply List.map_congr_left
      intro i _
      apply List.map_congr_left
      intro k hk
      rw [mem_dedupKeys] at hk
      rw [find?_reverse_map_key (k0 :: ks') t.getCol k hk]
      simp only [Option.getD_some, lookup_row]
    · rw [mapE_proj_err t ks hall, if_neg hall]
      rfl

/-! ### renaming -/

theorem abs_relabel_any {t : Table} {n : Nat} (hr : t.Rect n) (r : Relabel) :
    abs (t.relabel r) = (abs t).relabel r.key := by
  by_cases hne : t = []
  · subst hne; rfl
  · unfold relabel Recs.relabel
    have hlen : ∀ kv ∈ t.map (fun c => (r.key c.1, c.2)), kv.2.length = n := by
      intro kv hkv
      obtain ⟨c, hc, rfl⟩ := List.mem_map.1 hkv
      exact hr c hc
    rw [abs_ofPairs hlen (by simpa using hne), abs_rows hr hne, abs_cols]
    have hkeys : (t.map fun c => (r.key c.1, c.2)).map (·.1) = t.cols.map r.key := by
      simp [cols, List.map_map, Function.comp_def]
    simp only [hkeys, List.map_map]
    congr 1
    apply List.map_congr_left
    intro i _
    apply List.map_congr_left
    intro k _
    simp only [Recs.lookupLast]
    have hz : (t.cols.map r.key).zip (t.row i) = t.map fun c => (r.key c.1, c.2.getD i .none) := by
      simp [cols, row, List.zip_map', List.map_map, Function.comp_def]
    rw [hz, ← List.map_reverse, ← List.map_reverse, List.find?_map, List.find?_map]
    have hf : ((fun x : String × List Cell => x.1 == k) ∘ fun c : String × List Cell => (r.key c.1, c.2))
        = ((fun x : String × Cell => x.1 == k) ∘ fun c : String × List Cell => (r.key c.1, c.2.getD i Cell.none)) := by
      funext c; rfl
    rw [hf]
    cases t.reverse.find? ((fun x : String × Cell => x.1 == k) ∘ fun c : String × List Cell =>
        (r.key c.1, c.2.getD i Cell.none)) with
    | none => simp
    | some c => simp

/-! ### derived columns -/

theorem abs_setFn {t : Table} {n : Nat} (hr : t.Rect n) (kf : String × Fn) :
    (t.setFn kf).map abs = (abs t).setFn kf := by
  unfold setFn Recs.setFn
  rw [abs_applyFnK t]
  cases (abs t).applyFnK kf.1 kf.2 with
  | error e => rfl
  | ok vs => exact abs_setitem hr kf.1 (.many vs)

theorem abs_setFns {t : Table} {n : Nat} (hr : t.Rect n) (fns : List (String × Fn)) :
    (t.setFns fns).map abs = (abs t).setFns fns := by
  induction fns generalizing t n with
  | nil => rfl
  | cons kf fns ih =>
    simp only [setFns, Recs.setFns]
    have h := abs_setFn hr kf
    cases hs : t.setFn kf with
    | error e => rw [hs] at h; rw [← h]; rfl
    | ok t' =>
      rw [hs] at h
      rw [← h]
      obtain ⟨n', hn'⟩ := setFn_rect hr hs
      exact ih hn'

theorem abs_callLoop {t : Table} {n : Nat} (hr : t.Rect n) (fuel : Nat) (fns : List (String × Fn)) :
    (t.callLoop fuel fns).map abs = (abs t).callLoop fuel fns := by
  induction fuel generalizing t n fns with
  | zero => exact abs_setFns hr fns
  | succ fuel ih =>
    simp only [callLoop, Recs.callLoop]
    split
    · split
      · rfl
      · have h := abs_setFns hr (fns.filter fun kf => kf.2.args.all fun a => !(fns.map (·.1)).contains a)
        cases hs : t.setFns (fns.filter fun kf => kf.2.args.all fun a => !(fns.map (·.1)).contains a) with
        | error e => rw [hs] at h; rw [← h]; rfl
        | ok t' =>
          rw [hs] at h
          rw [← h]
          obtain ⟨n', hn'⟩ := setFns_rect _ hr hs
          exact ih hn' _
    · exact abs_setFns hr fns

theorem abs_call {t : Table} {n : Nat} (hr : t.Rect n) (consts : List (String × ColVal))
    (fns : List (String × Fn)) : (t.call consts fns).map abs = (abs t).call consts fns := by
  unfold call Recs.call
  have h := abs_updateE hr consts
  cases hu : t.updateE consts with
  | error e => rw [hu] at h; rw [← h]; rfl
  | ok t' =>
    rw [hu] at h
    rw [← h]
    obtain ⟨n', hn'⟩ := updateE_rect hr hu
    exact abs_callLoop hn' _ _

/-! ### per-column transforms -/

theorem abs_doKey {t : Table} {n : Nat} (hr : t.Rect n) (f : DoFn) (k : String) :
    (t.doKey f k).map abs = (abs t).doKey f k := by
  unfold doKey Recs.doKey
  rw [mapE_congr (xs := List.range t.nrows) (g := fun i => Recs.doCell f k (t.cellAt i))
    (fun i _ => by unfold Recs.doCell; cases t.cellAt i k <;> rfl)]
  rw [show (abs t).rows = (List.range t.nrows).map t.row from rfl, mapE_map]
  simp only [abs_cols, get?_row]
  cases mapE (fun i => Recs.doCell f k (t.cellAt i)) (List.range t.nrows) with
  | error e => rfl
  | ok vs => exact abs_setitem hr k (.many vs)

theorem abs_doKeys {t : Table} {n : Nat} (hr : t.Rect n) (f : DoFn) (ks : List String) :
    (t.doKeys f ks).map abs = (abs t).doKeys f ks := by
  induction ks generalizing t n with
  | nil => rfl
  | cons k ks ih =>
    simp only [doKeys, Recs.doKeys]
    have h := abs_doKey hr f k
    cases hs : t.doKey f k with
    | error e => rw [hs] at h; rw [← h]; rfl
    | ok t' =>
      rw [hs] at h
      rw [← h]
      obtain ⟨n', hn'⟩ := doKey_rect hr hs
      exact ih hn'

theorem abs_doCols {t : Table} {n : Nat} (hr : t.Rect n) (f : DoFn) (keys : Option (List String)) :
    (t.doCols f keys).map abs = (abs t).doCols f keys := abs_doKeys hr f _

/-! ### construction -/

theorem abs_finish (kw : Table) : kw.finish.map abs = Recs.ofCols kw := by
  unfold finish Recs.ofCols Table.len
  cases hl : lens (kw.map (·.2.length)) with
  | error e => rfl
  | ok n =>
    by_cases hne : kw = []
    · subst hne
      have : n = 0 := by simpa [lens] using hl.symm
      subst this
      rfl
    · have hrect : Rect (kw.map fun c => (c.1, bcast n c.2)) n := by
        intro c hc
        obtain ⟨c', hc', rfl⟩ := List.mem_map.1 hc
        exact bcast_length (lens_ok hl _ (List.mem_map.2 ⟨c', hc', rfl⟩))
      apply congrArg Except.ok
      rw [abs_of_rect hrect (by simpa using hne)]
      simp [cols, row, List.map_map, Function.comp_def]

theorem abs_construct (data : Data) (columns : Option (List String)) (kwargs : List (String × ColVal)) :
    (construct data columns kwargs).map (Except.map abs) = Recs.construct data columns kwargs := by
  unfold construct Recs.construct
  cases dataCols data columns with
  | none => rfl
  | some r =>
    cases r with
    | error e => rfl
    | ok dk => exact congrArg some (abs_finish _)

/-! ### keys of nested concatenations, reading records over a key list -/

theorem lookup_map_keys (keys : List String) (F : String → Cell) (k : String) :
    Recs.lookup keys (keys.map F) k = if k ∈ keys then F k else .none := by
  unfold Recs.lookup
  induction keys with
  | nil => rfl
  | cons a as ih =>
    simp only [List.map_cons, List.zip_cons_cons, List.find?_cons, List.mem_cons]
    by_cases ha : a = k
    · subst ha; simp
    · have h1 : (a == k) = false := by simpa using ha
      have h2 : ¬ k = a := fun h => ha h.symm
      simp only [h1, h2, false_or]
      exact ih

theorem dedupKeys_of_nodup (l : List String) (h : l.Nodup) : dedupKeys l = l := by
  induction l using rev_induction with
  | nil => rfl
  | snoc l k ih =>
    have hn := List.nodup_append.1 h
    have hk : k ∉ l := fun hm => hn.2.2 k hm k (by simp) rfl
    rw [dedupKeys_append_singleton, if_neg hk, ih hn.1]

theorem dedupKeys_dedup_left (xs ys : List String) : dedupKeys (dedupKeys xs ++ ys) = dedupKeys (xs ++ ys) := by
  induction ys using rev_induction with
  | nil => simp only [List.append_nil]; exact dedupKeys_of_nodup _ (nodup_dedupKeys xs)
  | snoc ys k ih =>
    rw [← List.append_assoc, ← List.append_assoc, dedupKeys_append_singleton, dedupKeys_append_singleton, ih]
    have : k ∈ dedupKeys xs ++ ys ↔ k ∈ xs ++ ys := by simp [mem_dedupKeys]
    by_cases hk : k ∈ xs ++ ys
    · rw [if_pos hk, if_pos (this.2 hk)]
    · rw [if_neg hk, if_neg (fun h => hk (this.1 h))]

theorem dedupKeys_dedup_right (xs ys : List String) : dedupKeys (xs ++ dedupKeys ys) = dedupKeys (xs ++ ys) := by
  induction ys using rev_induction with
  | nil => rfl
  | snoc ys k ih =>
    rw [dedupKeys_append_singleton]
    by_cases hk : k ∈ ys
    · rw [if_pos hk, ih, ← List.append_assoc, dedupKeys_append_singleton, if_pos (by simp [hk])]
    · rw [if_neg hk, ← List.append_assoc, ← List.append_assoc, dedupKeys_append_singleton,
        dedupKeys_append_singleton, ih]
      have : k ∈ xs ++ dedupKeys ys ↔ k ∈ xs ++ ys := by simp [mem_dedupKeys]
      by_cases hk' : k ∈ xs ++ ys
      · rw [if_pos hk', if_pos (this.2 hk')]
      · rw [if_neg hk', if_neg (fun h => hk' (this.1 h))]

theorem lookup_absent (cols : List String) (row : List Cell) (k : String) (hk : k ∉ cols) :
    Recs.lookup cols row k = .none := by
  unfold Recs.lookup
  have : (cols.zip row).find? (·.1 == k) = Option.none := by
    apply List.find?_eq_none.2
    intro p hp hpk
    have : p.1 = k := by simpa using hpk
    exact hk (this ▸ (List.of_mem_zip hp).1)
  rw [this]; rfl

/-- reading a record of an inner concatenation over the outer keys = reading the original record -/
theorem lookup_through (K K' cols : List String) (row : List Cell) (hsub : ∀ k ∈ cols, k ∈ K') :
    K.map (fun k => Recs.lookup K' (K'.map fun k' => Recs.lookup cols row k') k)
      = K.map fun k => Recs.lookup cols row k := by
  apply List.map_congr_left
  intro k _
  rw [lookup_map_keys]
  split
  · rfl
  · rename_i hk
    exact (lookup_absent cols row k (fun h => hk (hsub k h))).symm


end Table
end Pyg
