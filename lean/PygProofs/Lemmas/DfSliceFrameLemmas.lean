/-
  Helper lemmas for C13: lists of frames / scalars, bound lists of times of day, one series with bound lists.
-/
import PygModel.Slice
import PygProofs.Lemmas.DfSliceLemmas
import PygProofs.Lemmas.DfSliceBcastLemmas

namespace Pyg.Slice
open List

/-! ### a single window, wrap included -/

/-- a window of two times of day whose start is later than its end -/
def wraps (lb ub : Bound) : Bool :=
  match lb, ub with
  | .time a, .time b => decide (b < a)
  | _, _ => false

/-- the row test of `df_slice` on one frame: both masks, or - a wrapping window - either of them -/
def inWindowW (l u : Bool) (lb ub : Bound) (t : Int) : Bool :=
  if wraps lb ub then lbOk l lb t || ubOk u ub t else lbOk l lb t && ubOk u ub t

theorem sliceWrap_eq {α} (df : Rows α) (lb ub : Bound) (oc : Option (List Char)) (l u : Bool)
    (h : brackets oc = .ok (l, u)) (hs : wraps lb ub = true → df.Pairwise (fun x y => x.1 < y.1)) :
    sliceWrap df lb ub oc = .ok (df.filter fun r => inWindowW l u lb ub r.1) := by
  unfold sliceWrap
  split
  · rename_i a b
    by_cases hab : b < a
    · have hw : wraps (.time a) (.time b) = true := by simp [wraps, hab]
      simp only [hab, if_true, inWindowW, hw]
      rw [sliceOne_eq df .none (.time b) oc l u h, sliceOne_eq df (.time a) .none oc l u h]
      simp only [bind, Except.bind, pure, Except.pure, inWindow]
      congr 1
      have hd : ∀ x : Int × α, ¬ ((lbOk l Bound.none x.1 && ubOk u (.time b) x.1) = true ∧
          (lbOk l (.time a) x.1 && ubOk u Bound.none x.1) = true) := by
        intro x ⟨h1, h2⟩
        cases l <;> cases u <;> simp [lbOk, ubOk] at h1 h2 <;> omega
      rw [sortIndex_disjoint df (hs hw) _ _ hd]
      apply List.filter_congr
      intro x _
      simp [lbOk, ubOk]
    · have hw : wraps (.time a) (.time b) = false := by simp [wraps, hab]
      simp only [hab, if_false, inWindowW, hw]
      rw [sliceOne_eq df _ _ oc l u h]; rfl
  · rename_i hne
    have hw : wraps lb ub = false := by
      unfold wraps
      split
      · rename_i a b; exact absurd rfl (hne a b rfl)
      · rfl
    simp only [inWindowW, hw]
    rw [sliceOne_eq df _ _ oc l u h]; rfl

theorem wraps_date (a b : Option Int) : wraps (BKind.date.bound a) (BKind.date.bound b) = false := by
  cases a <;> cases b <;> rfl

theorem inWindowW_date (l u : Bool) (a b : Option Int) (t : Int) :
    inWindowW l u (BKind.date.bound a) (BKind.date.bound b) t = inWindow l u (optDate a) (optDate b) t := by
  simp only [inWindowW, wraps_date]; rfl

/-! ### the pieces -/

theorem mapM_ok_mem {α β} (f : α → Res β) (g : α → β) (l : List α) (h : ∀ x ∈ l, f x = .ok (g x)) :
    l.mapM f = .ok (l.map g) := by
  induction l with
  | nil => rfl
  | cons x l ih =>
    simp [List.mapM_cons, h x (by simp), ih (fun y hy => h y (by simp [hy])), bind, Except.bind, pure, Except.pure]

/-- one piece: frame `d` cut to its window (bounds of kind `k`) -/
def cutB (k : BKind) (l u : Bool) (x : Frame × Option Int × Option Int) : Frame :=
  ⟨x.1.width, x.1.rows.filter fun r => inWindowW l u (k.bound x.2.1) (k.bound x.2.2) r.1⟩

def SortedRows (f : Frame) : Prop := f.rows.Pairwise (fun x y => x.1 < y.1)

theorem cutAllB_eq (k : BKind) (dlu : List (Frame × Option Int × Option Int)) (oc : Option (List Char)) (l u : Bool)
    (h : brackets oc = .ok (l, u)) (hs : ∀ x ∈ dlu, SortedRows x.1) : cutAllB k dlu oc = .ok (dlu.map (cutB k l u)) := by
  unfold cutAllB
  apply mapM_ok_mem
  intro ⟨d, lo, hi⟩ hx
  simp [sliceWrap_eq _ _ _ oc l u h (fun _ => hs _ hx), cutB, bind, Except.bind, pure, Except.pure]

theorem cutAllB_date (dlu : List (Frame × Option Int × Option Int)) (oc : Option (List Char)) :
    cutAllB .date dlu oc = cutAll dlu oc := by
  unfold cutAllB cutAll
  congr 1
  funext ⟨d, lo, hi⟩
  have : sliceWrap d.rows (BKind.date.bound lo) (BKind.date.bound hi) oc = sliceOne d.rows (optDate lo) (optDate hi) oc := by
    unfold sliceWrap
    cases lo <;> cases hi <;> rfl
  simp only [this]

theorem framesOfF_length (fs : List Frame) (n : Nat) : (framesOfF fs n).length = fs.length := by
  unfold framesOfF; split <;> simp

/-- the pieces of the stitch of a list of frames -/
def piecesM (fs : List Frame) (k : BKind) (lbs ubs : List (Option Int)) (n : Nat) (l u : Bool) : List Frame :=
  ((framesOfF fs n).zip (lbs.zip ubs)).map (cutB k l u)

theorem piecesM_length (fs : List Frame) (k : BKind) (lbs ubs : List (Option Int)) (n : Nat) (l u : Bool)
    (h1 : lbs.length = fs.length) (h2 : ubs.length = fs.length) : (piecesM fs k lbs ubs n l u).length = fs.length := by
  simp [piecesM, framesOfF_length, h1, h2]

theorem piecesM_getElem (fs : List Frame) (k : BKind) (lbs ubs : List (Option Int)) (n : Nat) (l u : Bool)
    (i : Nat) (hi : i < (piecesM fs k lbs ubs n l u).length) (hf : i < (framesOfF fs n).length)
    (hl : i < lbs.length) (hu : i < ubs.length) :
    (piecesM fs k lbs ubs n l u)[i] = ⟨(framesOfF fs n)[i].width,
      (framesOfF fs n)[i].rows.filter fun r => inWindowW l u (k.bound lbs[i]) (k.bound ubs[i]) r.1⟩ := by
  simp only [piecesM, List.getElem_map, List.getElem_zip, cutB]

theorem mem_zip_left {α β} {l : List α} {r : List β} {x : α × β} (h : x ∈ l.zip r) : x.1 ∈ l :=
  (List.of_mem_zip h).1

theorem stitchM_eq (ms : List Member) (k : BKind) (lb ub : Option (List Int)) (oc : Option (List Char)) (n : Nat) (l u : Bool)
    (hb : brackets oc = .ok (l, u)) (ms' : List Member) (lbs ubs : List (Option Int))
    (hnorm : normalise ms lb ub = .ok (ms', lbs, ubs)) (fs : List Frame)
    (hfs : ms'.mapM (Member.toFrame k (boundariesOf lbs ubs)) = .ok fs)
    (h1 : lbs.length = fs.length) (h2 : ubs.length = fs.length) (hs : ∀ f ∈ framesOfF fs n, SortedRows f) :
    stitchM ms k lb ub oc n = .ok (assemble (piecesM fs k lbs ubs n l u)) := by
  simp only [stitchM, hnorm, hfs, bind, Except.bind, pure, Except.pure]
  rw [zipper3_eq _ _ _ (by rw [framesOfF_length]; exact h1) (by rw [framesOfF_length]; exact h2)]
  simp only []
  rw [cutAllB_eq k _ oc l u hb (fun x hx => hs _ (mem_zip_left hx))]
  rfl

/-! ### frames side by side -/

theorem frameIndex_sorted (fs : List Frame) :
    (((fs.flatMap Frame.index).eraseDups).mergeSort (fun a b => decide (a ≤ b))).Pairwise (· < ·) := dedupSort_sorted _

theorem concatFrames_sorted (fs : List Frame) : (concatFrames fs).Pairwise (fun a b => a.1 < b.1) := by
  simp only [concatFrames, List.pairwise_map]
  exact frameIndex_sorted fs

theorem mem_concatFrames {fs : List Frame} {x : Int × List (Option Int)} :
    x ∈ concatFrames fs ↔ (∃ f ∈ fs, x.1 ∈ f.index) ∧ x.2 = fs.flatMap (rowAt · x.1) := by
  simp only [concatFrames, List.mem_map, mem_dedupSort, List.mem_flatMap]
  constructor
  · rintro ⟨t, ht, rfl⟩; exact ⟨ht, rfl⟩
  · rintro ⟨ht, h2⟩; exact ⟨x.1, ht, by rw [← h2]⟩

theorem framesOfF_getElem_cols (fs : List Frame) (n : Nat) (hn : 1 < n) (i : Nat) (hi : i < (framesOfF fs n).length) :
    (framesOfF fs n)[i] = ⟨(((fs.drop i).take n).map (·.width)).sum, concatFrames ((fs.drop i).take n)⟩ := by
  simp [framesOfF, hn]

theorem framesOfF_getElem_one (fs : List Frame) (n : Nat) (hn : n ≤ 1) (i : Nat) (hi : i < (framesOfF fs n).length)
    (hd : i < fs.length) : (framesOfF fs n)[i] = fs[i] := by
  have : ¬ n > 1 := by omega
  simp [framesOfF, this]

theorem framesOfF_sorted (fs : List Frame) (n : Nat) (hs : ∀ f ∈ fs, SortedRows f) : ∀ f ∈ framesOfF fs n, SortedRows f := by
  intro f hf
  unfold framesOfF at hf
  split at hf
  · simp only [List.mem_map] at hf
    obtain ⟨i, _, rfl⟩ := hf
    exact concatFrames_sorted _
  · exact hs f hf

theorem framesOfF_sorted_cols (fs : List Frame) (n : Nat) (hn : 1 < n) : ∀ f ∈ framesOfF fs n, SortedRows f := by
  intro f hf
  simp only [framesOfF, hn, if_true, List.mem_map] at hf
  obtain ⟨i, _, rfl⟩ := hf
  exact concatFrames_sorted _

/-! ### scalars: the constant series on the boundaries -/

theorem mem_boundariesOf {lbs ubs : List (Option Int)} {t : Int} :
    t ∈ boundariesOf lbs ubs ↔ some t ∈ lbs ∨ some t ∈ ubs := by
  simp [boundariesOf, List.mem_filterMap]

theorem boundariesOf_sorted (lbs ubs : List (Option Int)) : (boundariesOf lbs ubs).Pairwise (· < ·) := dedupSort_sorted _

/-! ### a list of Series is the special case -/

theorem rowAt_ofTS (s : TS) (t : Int) : rowAt ⟨1, ofTS s⟩ t = [s.get t] := by
  unfold rowAt TS.get ofTS
  simp only [List.find?_map]
  cases h : s.find? ((fun r : Int × List (Option Int) => r.1 == t) ∘ fun p => (p.1, [p.2])) with
  | none =>
    have : s.find? (fun p => p.1 == t) = Option.none := h
    simp [this]
  | some p =>
    have : s.find? (fun p => p.1 == t) = some p := h
    simp [this]

theorem concatFrames_series (S : List TS) : concatFrames (S.map fun s => ⟨1, ofTS s⟩) = concatCols S := by
  unfold concatFrames concatCols unionIndex
  have hidx : (S.map fun s => (⟨1, ofTS s⟩ : Frame)).flatMap Frame.index = S.flatMap TS.index := by
    rw [List.flatMap_map]
    congr 1; funext s
    simp [Frame.index, ofTS, TS.index, List.map_map, Function.comp_def]
  rw [hidx]
  apply List.map_congr_left
  intro t _
  congr 1
  rw [List.flatMap_map]
  exact flatMap_singleton_congr S _ (·.get t) (fun a _ => rowAt_ofTS a t)

theorem sum_map_one {α} (l : List α) : (l.map fun _ => 1).sum = l.length := by
  induction l with
  | nil => rfl
  | cons a l ih => simp [ih]; omega

theorem framesOfF_series (dfs : List TS) (n : Nat) : framesOfF (dfs.map fun s => ⟨1, ofTS s⟩) n = framesOf dfs n := by
  unfold framesOfF framesOf
  split
  · simp only [List.length_map]
    apply List.map_congr_left
    intro i _
    rw [← List.map_drop, ← List.map_take, concatFrames_series]
    simp only [List.map_map, Function.comp_def, sum_map_one]
  · rfl

theorem mapM_toFrame_series (k : BKind) (bs : List Int) (dfs : List TS) :
    (dfs.map Member.series).mapM (Member.toFrame k bs) = .ok (dfs.map fun s => ⟨1, ofTS s⟩) := by
  induction dfs with
  | nil => rfl
  | cons s dfs ih => simp [List.mapM_cons, Member.toFrame, ih, bind, Except.bind, pure, Except.pure]

theorem normalise_map' {α β} (f : α → β) (dfs : List α) (lb ub : Option (List Int)) :
    normalise (dfs.map f) lb ub = (normalise dfs lb ub).map fun x => (x.1.map f, x.2) := by
  cases lb with
  | none =>
    cases ub with
    | none => rfl
    | some ub => simp only [normalise]; split <;> simp [pure, Except.pure, Except.map]
  | some lb =>
    cases ub with
    | none => simp only [normalise]; split <;> simp [pure, Except.pure, Except.map]
    | some ub =>
      simp only [normalise]
      split
      · rfl
      · split <;> simp [pure, Except.pure, Except.map]

/-- **refinement**: on a list of Series and date bounds the general model is the model the theorems on `stitch` speak about -/
theorem stitchM_series_eq (dfs : List TS) (lb ub : Option (List Int)) (oc : Option (List Char)) (n : Nat) :
    stitchM (dfs.map Member.series) .date lb ub oc n = stitch dfs lb ub oc n := by
  unfold stitchM stitch
  rw [normalise_map']
  cases hn : normalise dfs lb ub with
  | error e => rfl
  | ok x =>
    obtain ⟨d, lbs, ubs⟩ := x
    simp only [Except.map, bind, Except.bind, mapM_toFrame_series, framesOfF_series, cutAllB_date]

/-! ### one series with bound lists -/

theorem mapM_sliceWrap_eq {α} (df : Rows α) (oc : Option (List Char)) (l u : Bool) (h : brackets oc = .ok (l, u))
    (bs : List (Rows α × Bound × Bound)) (hb : ∀ x ∈ bs, x.1 = df)
    (hs : ∀ x ∈ bs, wraps x.2.1 x.2.2 = true → df.Pairwise (fun x y => x.1 < y.1)) :
    bs.mapM (fun (x : Rows α × Bound × Bound) => match x with | (d, lo, hi) => sliceWrap d lo hi oc) =
      .ok (bs.map fun x => df.filter fun r => inWindowW l u x.2.1 x.2.2 r.1) := by
  apply mapM_ok_mem
  intro ⟨d, lo, hi⟩ hx
  have := hb _ hx
  simp only at this
  subst this
  exact sliceWrap_eq d lo hi oc l u h (fun hw => hs _ hx hw)

theorem zip_replicate_left {α β} (a : α) (l : List β) : (List.replicate l.length a).zip l = l.map fun b => (a, b) := by
  induction l with
  | nil => rfl
  | cons b l ih => simp [List.replicate_succ, ih]

theorem zip_replicate_right {α β} (l : List α) (b : β) : l.zip (List.replicate l.length b) = l.map fun a => (a, b) := by
  induction l with
  | nil => rfl
  | cons a l ih => simp [List.replicate_succ, ih]

theorem flatMap_congr_mem {α β} (L : List α) (f g : α → List β) (h : ∀ x ∈ L, f x = g x) : L.flatMap f = L.flatMap g := by
  induction L with
  | nil => rfl
  | cons a L ih => simp only [List.flatMap_cons, h a (by simp), ih (fun x hx => h x (by simp [hx]))]

/-- `zipper([ts], lb, [ub...])`: the series and the single lower bound are repeated -/
theorem zipper3_single_left {α β γ} (df : α) (b0 : β) (bs : List γ) (htwo : 2 ≤ bs.length) :
    zipper3 [df] [b0] bs = .ok (bs.map fun b => (df, b0, b)) := by
  rw [zipper3_bcast _ _ _ bs.length (by omega) (Or.inr rfl) (Or.inr rfl) (Or.inl rfl) (Or.inr (Or.inr rfl))]
  rw [bcast_one _ (by omega), bcast_one _ (by omega), bcast_self _ bs (by omega), zip_replicate_left]
  have : (List.replicate bs.length df).zip (bs.map fun b => (b0, b)) = (bs.map fun b => (b0, b)).map fun y => (df, y) := by
    have := zip_replicate_left df (bs.map fun b => (b0, b))
    simpa using this
  rw [this, List.map_map]; rfl

/-- `zipper([ts], [lb...], [ub...])`: the series is repeated -/
theorem zipper3_single_both {α β γ} (df : α) (as : List β) (bs : List γ) (hlen : as.length = bs.length) (htwo : 2 ≤ bs.length) :
    zipper3 [df] as bs = .ok ((as.zip bs).map fun x => (df, x.1, x.2)) := by
  rw [zipper3_bcast _ _ _ bs.length (by omega) (Or.inr rfl) (Or.inl hlen) (Or.inl rfl) (Or.inr (Or.inr rfl))]
  rw [bcast_one _ (by omega), bcast_self _ bs (by omega), bcast_self _ as (by omega)]
  have := zip_replicate_left df (as.zip bs)
  have hz : (as.zip bs).length = bs.length := by simp [hlen]
  rw [hz] at this
  rw [this]

/-- on a non-decreasing index two selections of which the first lies wholly before the second concatenate to the
    selection by their disjunction -/
theorem filter_append_ordered {α} (p q : Int × α → Bool) (hpq : ∀ x y, p x = true → q y = true → x.1 < y.1) :
    ∀ (df : Rows α), (df.map (·.1)).Pairwise (· ≤ ·) → df.filter p ++ df.filter q = df.filter fun x => p x || q x
  | [], _ => rfl
  | x :: df, hs => by
    have hx : (∀ y ∈ df.map (·.1), x.1 ≤ y) ∧ (df.map (·.1)).Pairwise (· ≤ ·) := List.pairwise_cons.mp hs
    have ih := filter_append_ordered p q hpq df hx.2
    by_cases hp : p x = true
    · have hq : q x = false := by
        cases hqq : q x
        · rfl
        · have := hpq x x hp hqq; omega
      simp only [List.filter_cons, hp, hq, if_true, Bool.or_false, List.cons_append, Bool.false_eq_true, if_false]
      rw [ih]
    · simp only [Bool.not_eq_true] at hp
      by_cases hq : q x = true
      · have hnil : df.filter p = [] := by
          rw [List.filter_eq_nil_iff]
          intro y hy hpy
          have h1 := hx.1 y.1 (List.mem_map.mpr ⟨y, hy, rfl⟩)
          have h2 := hpq y x hpy hq
          omega
        rw [hnil] at ih
        simp only [List.filter_cons, hp, hq, Bool.false_eq_true, if_false, if_true, Bool.false_or, hnil, List.nil_append] at ih ⊢
        rw [ih]
      · simp only [Bool.not_eq_true] at hq
        simp only [List.filter_cons, hp, hq, Bool.false_eq_true, if_false, Bool.or_false]
        exact ih

end Pyg.Slice

