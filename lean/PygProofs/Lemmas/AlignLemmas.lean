/-
  Helper lemmas for C03 (PygModel/Align.lean): set operations on sorted indices, as-of positions,
  structure preservation of the container recursion.
-/
import PygModel.Align
import PygProofs.Lemmas.FillLemmas

namespace Pyg.Align
open Pyg Pyg.Fill

abbrev SortedL (l : List Int) : Prop := l.Pairwise (· < ·)

/-! ### intersection / union -/

theorem mem_inter (a b : List Int) (t : Int) : t ∈ inter a b ↔ t ∈ a ∧ t ∈ b := by
  simp [inter, List.mem_filter]

theorem sorted_inter (a b : List Int) (h : SortedL a) : SortedL (inter a b) :=
  List.Pairwise.sublist List.filter_sublist h

theorem mem_ins (t s : Int) (l : List Int) : t ∈ ins s l ↔ t = s ∨ t ∈ l := by
  induction l with
  | nil => simp [ins]
  | cons x xs ih =>
    simp only [ins]
    split
    · simp
    · split
      · rename_i h1 h2; subst h2; simp
      · simp [ih]; constructor
        · rintro (h | h | h) <;> simp [h]
        · rintro (h | h | h) <;> simp [h]

theorem sorted_ins (s : Int) (l : List Int) (h : SortedL l) : SortedL (ins s l) := by
  induction l with
  | nil => simp [ins]
  | cons x xs ih =>
    have hx := List.pairwise_cons.mp h
    simp only [ins]
    split
    · rename_i h1
      refine List.pairwise_cons.mpr ⟨?_, h⟩
      intro y hy
      rcases List.mem_cons.mp hy with rfl | hy
      · exact h1
      · have := hx.1 y hy; omega
    · split
      · exact h
      · rename_i h1 h2
        refine List.pairwise_cons.mpr ⟨?_, ih hx.2⟩
        intro y hy
        rcases (mem_ins y s xs).mp hy with rfl | hy
        · omega
        · exact hx.1 y hy

theorem mem_union (a b : List Int) (t : Int) : t ∈ union a b ↔ t ∈ a ∨ t ∈ b := by
  unfold union
  induction b generalizing a with
  | nil => simp
  | cons x xs ih =>
    simp only [List.foldl_cons]
    rw [ih, mem_ins]
    simp only [List.mem_cons]
    constructor
    · rintro ((h | h) | h) <;> simp [h]
    · rintro (h | h | h) <;> simp [h]

theorem sorted_union (a b : List Int) (h : SortedL a) : SortedL (union a b) := by
  unfold union
  induction b generalizing a with
  | nil => simpa using h
  | cons x xs ih => simp only [List.foldl_cons]; exact ih _ (sorted_ins x a h)

theorem mem_foldl_inter (ix : List Int) (ixs : List (List Int)) (t : Int) :
    t ∈ ixs.foldl inter ix ↔ t ∈ ix ∧ ∀ j ∈ ixs, t ∈ j := by
  induction ixs generalizing ix with
  | nil => simp
  | cons x xs ih =>
    simp only [List.foldl_cons]
    rw [ih, mem_inter]
    simp only [List.mem_cons, forall_eq_or_imp]
    exact and_assoc

theorem mem_foldl_union (ix : List Int) (ixs : List (List Int)) (t : Int) :
    t ∈ ixs.foldl union ix ↔ t ∈ ix ∨ ∃ j ∈ ixs, t ∈ j := by
  induction ixs generalizing ix with
  | nil => simp
  | cons x xs ih =>
    simp only [List.foldl_cons]
    rw [ih, mem_union]
    simp only [List.mem_cons, exists_eq_or_imp]
    exact or_assoc

theorem sorted_foldl_inter (ix : List Int) (ixs : List (List Int)) (h : SortedL ix) : SortedL (ixs.foldl inter ix) := by
  induction ixs generalizing ix with
  | nil => exact h
  | cons x xs ih => exact ih _ (sorted_inter ix x h)

theorem sorted_foldl_union (ix : List Int) (ixs : List (List Int)) (h : SortedL ix) : SortedL (ixs.foldl union ix) := by
  induction ixs generalizing ix with
  | nil => exact h
  | cons x xs ih => exact ih _ (sorted_union ix x h)

/-! ### label lookup, as-of and next-observation positions -/

theorem posOf_some (idx : List Int) (t : Int) (i : Nat) (h : posOf idx t = some i) :
    idx[i]? = some t ∧ ∀ j, j < i → idx[j]? ≠ some t := by
  unfold posOf at h
  rw [List.findIdx?_eq_some_iff_getElem] at h
  obtain ⟨hi, h1, h2⟩ := h
  refine ⟨by rw [List.getElem?_eq_getElem hi]; simpa using h1, ?_⟩
  intro j hj hc
  have hjl : j < idx.length := by omega
  rw [List.getElem?_eq_getElem hjl] at hc
  have := h2 j hj
  simp at hc; simp [hc] at this

theorem posOf_none (idx : List Int) (t : Int) : posOf idx t = Option.none ↔ t ∉ idx := by
  unfold posOf
  rw [List.findIdx?_eq_none_iff]
  constructor
  · intro h hc; have := h t hc; simp at this
  · intro h x hx; simp; intro e; subst e; exact h hx

theorem posOf_of_mem (idx : List Int) (t : Int) (h : t ∈ idx) : ∃ i, posOf idx t = some i := by
  cases hp : posOf idx t with
  | none => exact ((posOf_none idx t).mp hp h).elim
  | some i => exact ⟨i, rfl⟩

/-- `posAsOf` on a sorted index finds the last label `≤ t` -/
theorem posAsOf_some (idx : List Int) (hs : SortedL idx) (t : Int) (p : Nat) (h : posAsOf idx t = some p) :
    (∃ s, idx[p]? = some s ∧ s ≤ t) ∧ ∀ q s, p < q → idx[q]? = some s → t < s := by
  induction idx generalizing p with
  | nil => simp [posAsOf] at h
  | cons x xs ih =>
    have hx := List.pairwise_cons.mp hs
    simp only [posAsOf] at h
    split at h
    · rename_i hxt
      cases hp : posAsOf xs t with
      | some p' =>
        rw [hp] at h; simp at h; subst h
        obtain ⟨h1, h2⟩ := ih hx.2 p' hp
        refine ⟨by simpa using h1, ?_⟩
        intro q s hq hqs
        cases q with
        | zero => omega
        | succ q => exact h2 q s (by omega) (by simpa using hqs)
      | none =>
        rw [hp] at h; simp at h; subst h
        refine ⟨⟨x, by simp, hxt⟩, ?_⟩
        intro q s hq hqs
        cases q with
        | zero => omega
        | succ q =>
          have hqs' : xs[q]? = some s := by simpa using hqs
          -- `posAsOf xs t = none` on a sorted list: its head (hence everything) is above `t`
          cases xs with
          | nil => simp at hqs'
          | cons y ys =>
            simp only [posAsOf] at hp
            split at hp
            · cases h' : posAsOf ys t <;> rw [h'] at hp <;> simp at hp
            · rename_i hyt
              have hy := List.pairwise_cons.mp hx.2
              cases q with
              | zero => simp at hqs'; omega
              | succ q =>
                have : s ∈ ys := List.mem_of_getElem? (by simpa using hqs')
                have := hy.1 s this; omega
    · cases h

theorem posAsOf_none (idx : List Int) (hs : SortedL idx) (t : Int) (h : posAsOf idx t = Option.none) :
    ∀ s ∈ idx, t < s := by
  cases idx with
  | nil => simp
  | cons x xs =>
    have hx := List.pairwise_cons.mp hs
    simp only [posAsOf] at h
    split at h
    · cases h' : posAsOf xs t <;> rw [h'] at h <;> simp at h
    · intro s hs'
      rcases List.mem_cons.mp hs' with rfl | hs'
      · omega
      · have := hx.1 s hs'; omega

/-- `posNext` on a sorted index finds the first label `≥ t` -/
theorem posNext_some (idx : List Int) (t : Int) (p : Nat) (h : posNext idx t = some p) :
    (∃ s, idx[p]? = some s ∧ t ≤ s) ∧ ∀ q s, q < p → idx[q]? = some s → s < t := by
  induction idx generalizing p with
  | nil => simp [posNext] at h
  | cons x xs ih =>
    simp only [posNext] at h
    split at h
    · rename_i hxt
      simp at h; subst h
      exact ⟨⟨x, by simp, hxt⟩, fun q s hq _ => by omega⟩
    · rename_i hxt
      cases hp : posNext xs t with
      | none => rw [hp] at h; simp at h
      | some p' =>
        rw [hp] at h; simp at h; subst h
        obtain ⟨h1, h2⟩ := ih p' hp
        refine ⟨by simpa using h1, ?_⟩
        intro q s hq hqs
        cases q with
        | zero => simp at hqs; omega
        | succ q => exact h2 q s (by omega) (by simpa using hqs)

theorem posNext_none (idx : List Int) (t : Int) (h : posNext idx t = Option.none) : ∀ s ∈ idx, s < t := by
  induction idx with
  | nil => simp
  | cons x xs ih =>
    simp only [posNext] at h
    split at h
    · cases h
    · rename_i hxt
      intro s hs
      rcases List.mem_cons.mp hs with rfl | hs
      · omega
      · exact ih (by cases hp : posNext xs t <;> rw [hp] at h <;> simp at h ⊢) s hs

/-! ### numpy end alignment -/

theorem alignArr_length (n : Nat) (xs : Col) : (alignArr n xs).length = n := by
  unfold alignArr; split <;> simp <;> omega

/-- counted from the end, the last `min n len` entries are preserved in place -/
theorem alignArr_suffix (n : Nat) (xs : Col) (k : Nat) (hk : k < n) (hk' : k < xs.length) :
    (alignArr n xs)[n - 1 - k]? = xs[xs.length - 1 - k]? := by
  unfold alignArr; split
  · rw [List.getElem?_drop]; congr 1; omega
  · rw [List.getElem?_append_right (by simp; omega)]; simp; congr 1; omega

/-- a shorter array is NaN-padded in front -/
theorem alignArr_pad (n : Nat) (xs : Col) (i : Nat) (hi : i + xs.length < n) :
    (alignArr n xs)[i]? = some Option.none := by
  unfold alignArr; split
  · omega
  · rw [List.getElem?_append_left (by rw [List.length_replicate]; omega)]
    rw [List.getElem?_replicate]; simp; omega

/-! ### the container recursion keeps the structure and passes non-timeseries through -/

/-- what must not change: the kind of a member, and a non-timeseries member entirely -/
def Leaf.skel : Leaf → Leaf
  | .ts s _ => .ts s default
  | .arr _ => .arr []
  | .other v => .other v

mutual
  /-- the container with every timeseries / array blanked out: tags, keys, order, sizes and all other members remain -/
  def Tree.skel : Tree → Tree
    | .leaf l => .leaf l.skel
    | .node tag kids => .node tag (skelKids kids)
  def skelKids : List (String × Tree) → List (String × Tree)
    | [] => []
    | (k, t) :: r => (k, t.skel) :: skelKids r
end

mutual
  /-- all members, in order (tuples included) -/
  def Tree.leaves : Tree → List Leaf
    | .leaf l => [l]
    | .node _ kids => leavesKids kids
  def leavesKids : List (String × Tree) → List Leaf
    | [] => []
    | (_, t) :: r => t.leaves ++ leavesKids r
end

mutual
  theorem skel_mapM (g : Leaf → Res Leaf) (hg : ∀ l l', g l = .ok l' → l'.skel = l.skel) :
      ∀ (t t' : Tree), t.mapM g = .ok t' → t'.skel = t.skel
    | .leaf l, t', h => by
      simp only [Tree.mapM] at h
      cases hl : g l with
      | error e => rw [hl] at h; cases h
      | ok l' => rw [hl] at h; cases h; simp [Tree.skel, hg l l' hl]
    | .node tag kids, t', h => by
      simp only [Tree.mapM] at h
      cases hk : mapKidsM g kids with
      | error e => rw [hk] at h; cases h
      | ok ks' => rw [hk] at h; cases h; simp [Tree.skel, skel_mapKidsM g hg kids ks' hk]
  theorem skel_mapKidsM (g : Leaf → Res Leaf) (hg : ∀ l l', g l = .ok l' → l'.skel = l.skel) :
      ∀ (ks ks' : List (String × Tree)), mapKidsM g ks = .ok ks' → skelKids ks' = skelKids ks
    | [], ks', h => by simp [mapKidsM] at h; cases h; rfl
    | (k, t) :: r, ks', h => by
      simp only [mapKidsM] at h
      cases ht : t.mapM g with
      | error e => rw [ht] at h; cases h
      | ok t' =>
        rw [ht] at h
        cases hr : mapKidsM g r with
        | error e => rw [hr] at h; cases h
        | ok r' =>
          rw [hr] at h; cases h
          simp [skelKids, skel_mapM g hg t t' ht, skel_mapKidsM g hg r r' hr]
end

mutual
  /-- every member of the result is the image of a member of the input -/
  theorem leaves_mapM (g : Leaf → Res Leaf) :
      ∀ (t t' : Tree), t.mapM g = .ok t' → ∀ l' ∈ t'.leaves, ∃ l ∈ t.leaves, g l = .ok l'
    | .leaf l, t', h => by
      simp only [Tree.mapM] at h
      cases hl : g l with
      | error e => rw [hl] at h; cases h
      | ok l1 =>
        rw [hl] at h; cases h
        intro l' hl'
        simp [Tree.leaves] at hl'; subst hl'
        exact ⟨l, by simp [Tree.leaves], hl⟩
    | .node tag kids, t', h => by
      simp only [Tree.mapM] at h
      cases hk : mapKidsM g kids with
      | error e => rw [hk] at h; cases h
      | ok ks' =>
        rw [hk] at h; cases h
        intro l' hl'
        exact leaves_mapKidsM g kids ks' hk l' (by simpa [Tree.leaves] using hl')
  theorem leaves_mapKidsM (g : Leaf → Res Leaf) :
      ∀ (ks ks' : List (String × Tree)), mapKidsM g ks = .ok ks' → ∀ l' ∈ leavesKids ks', ∃ l ∈ leavesKids ks, g l = .ok l'
    | [], ks', h => by simp [mapKidsM] at h; cases h; intro l' hl'; simp [leavesKids] at hl'
    | (k, t) :: r, ks', h => by
      simp only [mapKidsM] at h
      cases ht : t.mapM g with
      | error e => rw [ht] at h; cases h
      | ok t' =>
        rw [ht] at h
        cases hr : mapKidsM g r with
        | error e => rw [hr] at h; cases h
        | ok r' =>
          rw [hr] at h; cases h
          intro l' hl'
          simp only [leavesKids, List.mem_append] at hl' ⊢
          rcases hl' with hl' | hl'
          · obtain ⟨l, hl, e⟩ := leaves_mapM g t t' ht l' hl'
            exact ⟨l, Or.inl hl, e⟩
          · obtain ⟨l, hl, e⟩ := leaves_mapKidsM g r r' hr l' hl'
            exact ⟨l, Or.inr hl, e⟩
end

/-! ### values by label -/

/-- the value a series `(idx, c)` holds at label `t` (`none`: no such label, or NaN there) -/
def valueAt (idx : List Int) (c : Col) (t : Int) : Option Int := (posOf idx t).bind fun i => (c[i]?).join

/-- the value at the last label `≤ t` -/
def asOfValue (idx : List Int) (c : Col) (t : Int) : Option Int := (posAsOf idx t).bind fun i => (c[i]?).join

/-- the value at the first label `≥ t` -/
def nextValue (idx : List Int) (c : Col) (t : Int) : Option Int := (posNext idx t).bind fun i => (c[i]?).join

/-- the rows `_nona` keeps: those holding a non-NaN cell -/
def nonaFrame (f : Frame) : Frame := f.gather ((List.range f.nrows).filter f.rowValid)

theorem reindexFrame_idx (f : Frame) (idx : List Int) (m : Option Dir) : (reindexFrame f idx m).idx = idx := by
  cases m with
  | none => rfl
  | some d => cases d <;> rfl

theorem recolumnLeaf_ts (cols : Option (List String)) (l : Leaf) (s : Bool) (f : Frame)
    (h : recolumnLeaf cols l = .ok (.ts s f)) : ∃ f0, l = .ts s f0 ∧ f0.idx = f.idx := by
  cases l with
  | arr xs => simp [recolumnLeaf] at h
  | other v => simp [recolumnLeaf] at h
  | ts s0 f0 =>
    cases s0 with
    | true => simp [recolumnLeaf] at h; obtain ⟨rfl, rfl⟩ := h; exact ⟨_, rfl, rfl⟩
    | false =>
      cases cols with
      | none => simp [recolumnLeaf] at h; obtain ⟨rfl, rfl⟩ := h; exact ⟨_, rfl, rfl⟩
      | some cs =>
        simp only [recolumnLeaf] at h
        split at h
        · simp at h; obtain ⟨rfl, rfl⟩ := h; exact ⟨_, rfl, rfl⟩
        · simp at h; obtain ⟨rfl, rfl⟩ := h; exact ⟨_, rfl, rfl⟩

theorem reindexLeaf_ts (ix : List Int) (m : Option Dir) (l : Leaf) (s : Bool) (f : Frame)
    (h : reindexLeaf (.times ix) m l = .ok (.ts s f)) : f.idx = ix := by
  cases l with
  | ts s0 f0 => simp [reindexLeaf] at h; obtain ⟨_, rfl⟩ := h; exact reindexFrame_idx _ _ _
  | arr xs => simp only [reindexLeaf] at h; split at h <;> cases h
  | other v => simp [reindexLeaf] at h

theorem reindexLeaf_skel (ix : Index) (m : Option Dir) (l l' : Leaf) (h : reindexLeaf ix m l = .ok l') :
    l'.skel = l.skel := by
  cases l with
  | ts s f => cases ix <;> simp [reindexLeaf] at h <;> subst h <;> rfl
  | other v => simp [reindexLeaf] at h; subst h; rfl
  | arr xs =>
    cases ix with
    | times idx => simp only [reindexLeaf] at h; split at h <;> cases h; rfl
    | none => simp [reindexLeaf] at h; subst h; rfl
    | len n =>
      simp only [reindexLeaf] at h
      split at h <;> cases h
      rfl

theorem recolumnLeaf_skel (cols : Option (List String)) (l l' : Leaf) (h : recolumnLeaf cols l = .ok l') :
    l'.skel = l.skel := by
  cases l with
  | arr xs => simp [recolumnLeaf] at h; subst h; rfl
  | other v => simp [recolumnLeaf] at h; subst h; rfl
  | ts s f =>
    cases s with
    | true => simp [recolumnLeaf] at h; subst h; rfl
    | false =>
      cases cols with
      | none => simp [recolumnLeaf] at h; subst h; rfl
      | some cs => simp only [recolumnLeaf] at h; split at h <;> cases h <;> rfl

end Pyg.Align
