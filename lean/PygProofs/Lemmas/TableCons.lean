/-
  Helper lemmas for the constructor and the column-level operations of the dictable model:
  `lens` raises exactly on two different lengths other than 1; `ofPairs` on distinct keys is the list
  itself; `set` changes one column only.
-/
import PygProofs.Lemmas.TableRows

namespace Pyg

/-- `lens` raises `ValueError` iff two of the lengths differ and neither is 1 -/
theorem lens_error_iff (ls : List Nat) :
    lens ls = .error .value ↔ ∃ a ∈ ls, ∃ b ∈ ls, a ≠ 1 ∧ b ≠ 1 ∧ a ≠ b := by
  unfold lens
  split
  · rename_i he
    have : ls = [] := by simpa using he
    subst this; simp
  · split
    · rename_i hf
      constructor
      · intro h; cases h
      · rintro ⟨a, ha, _, _, h1, _, _⟩
        have := List.filter_eq_nil_iff.1 hf a ha
        simp at this; exact absurd this h1
    · rename_i m rest hf
      have hmem : ∀ x, x ∈ m :: rest ↔ x ∈ ls ∧ x ≠ 1 := by
        intro x; rw [← hf, List.mem_filter]; simp
      split
      · rename_i hall
        constructor
        · intro h; cases h
        · rintro ⟨a, ha, b, hb, h1, h2, hab⟩
          have ha' := (hmem a).2 ⟨ha, h1⟩
          have hb' := (hmem b).2 ⟨hb, h2⟩
          have eqm : ∀ x ∈ m :: rest, x = m := by
            intro x hx
            rcases List.mem_cons.1 hx with rfl | hr
            · rfl
            · simpa using List.all_eq_true.1 hall x hr
          exact absurd ((eqm a ha').trans (eqm b hb').symm) hab
      · rename_i hall
        constructor
        · intro _
          have : ∃ x ∈ rest, x ≠ m := by
            apply Classical.byContradiction
            intro hcon
            apply hall
            apply List.all_eq_true.2
            intro x hx
            by_cases hxm : x = m
            · simp [hxm]
            · exact absurd ⟨x, hx, hxm⟩ hcon
          obtain ⟨x, hx, hne⟩ := this
          have hx' := (hmem x).1 (List.mem_cons_of_mem _ hx)
          have hm' := (hmem m).1 List.mem_cons_self
          exact ⟨x, hx'.1, m, hm'.1, hx'.2, hm'.2, hne⟩
        · intro _; rfl

/-- the only error `lens` can raise is `ValueError` -/
theorem lens_error_value {ls : List Nat} {e : Err} (h : lens ls = .error e) : e = .value := by
  unfold lens at h
  split at h
  · cases h
  · split at h
    · cases h
    · split at h
      · cases h
      · cases h; rfl

namespace Table

theorem cols_set_of_has {t : Table} {k : String} (v : List Cell) (h : t.has k = true) :
    (t.set k v).cols = t.cols := by
  unfold Table.set cols
  rw [if_pos h, List.map_map]
  apply List.map_congr_left
  intro c _
  simp only [Function.comp]
  split
  · rename_i hc
    have : c.1 = k := by simpa using hc
    exact this.symm
  · rfl

theorem cols_set_of_not_has {t : Table} {k : String} (v : List Cell) (h : t.has k = false) :
    (t.set k v).cols = t.cols ++ [k] := by
  unfold Table.set cols
  simp [h]

theorem has_iff_mem_cols (t : Table) (k : String) : t.has k = true ↔ k ∈ t.cols := by
  unfold Table.has cols
  simp [List.any_eq_true]

/-- `dict.__setitem__` keeps the keys distinct -/
theorem set_nodup {t : Table} (k : String) (v : List Cell) (h : t.cols.Nodup) : (t.set k v).cols.Nodup := by
  cases hh : t.has k with
  | true => rw [cols_set_of_has v hh]; exact h
  | false =>
    rw [cols_set_of_not_has v hh]
    have hk : k ∉ t.cols := fun hm => by
      have := (has_iff_mem_cols t k).2 hm
      rw [hh] at this; cases this
    refine List.nodup_append.2 ⟨h, by simp, ?_⟩
    intro a ha b hb
    simp only [List.mem_cons, List.not_mem_nil, or_false] at hb
    subst hb
    exact fun hab => hk (hab ▸ ha)

theorem foldl_set_nodup (kvs : List (String × List Cell)) (t : Table) (h : t.cols.Nodup) :
    (kvs.foldl (fun t kv => t.set kv.1 kv.2) t).cols.Nodup := by
  induction kvs generalizing t with
  | nil => exact h
  | cons kv kvs ih => exact ih _ (set_nodup _ _ h)

theorem ofPairs_nodup (kvs : List (String × List Cell)) : (ofPairs kvs).cols.Nodup :=
  foldl_set_nodup kvs [] (by simp [cols])

/-- appending pairs with fresh distinct keys -/
theorem foldl_set_fresh (kvs : List (String × List Cell)) (t : Table)
    (hn : (kvs.map (·.1)).Nodup) (hf : ∀ kv ∈ kvs, t.has kv.1 = false) :
    kvs.foldl (fun t kv => t.set kv.1 kv.2) t = t ++ kvs := by
  induction kvs generalizing t with
  | nil => simp
  | cons kv kvs ih =>
    rw [List.map_cons, List.nodup_cons] at hn
    simp only [List.foldl_cons]
    have h0 := hf kv List.mem_cons_self
    have hset : t.set kv.1 kv.2 = t ++ [kv] := by simp [Table.set, h0]
    rw [hset, ih _ hn.2]
    · simp
    · intro kv' hkv'
      have h1 := hf kv' (List.mem_cons_of_mem _ hkv')
      have hne : kv.1 ≠ kv'.1 := by
        intro he
        exact hn.1 (by rw [he]; exact List.mem_map.2 ⟨kv', hkv', rfl⟩)
      have hb : (kv.1 == kv'.1) = false := by simpa using hne
      simp only [Table.has] at h1
      simp [Table.has, h1, hb]

/-- `dict(pairs)` for pairs with distinct keys is the list of pairs -/
theorem ofPairs_of_nodup (kvs : List (String × List Cell)) (hn : (kvs.map (·.1)).Nodup) :
    ofPairs kvs = kvs := by
  have := foldl_set_fresh kvs [] hn (fun _ _ => rfl)
  simpa [ofPairs] using this

/-- an assignment changes the assigned column only -/
theorem col?_set (t : Table) (k : String) (v : List Cell) (k' : String) :
    (t.set k v).col? k' = if k' = k then some v else t.col? k' := by
  unfold Table.set
  split
  · rename_i hh
    unfold col?
    have hf : ((fun x : String × List Cell => x.1 == k') ∘ fun c => if c.1 == k then (k, v) else c)
        = fun x => x.1 == k' := by
      funext c
      simp only [Function.comp]
      split
      · rename_i h
        have : c.1 = k := by simpa using h
        simp [this]
      · rfl
    rw [List.find?_map, hf]
    cases hfind : t.find? (fun x => x.1 == k') with
    | none =>
      by_cases hk : k' = k
      · subst hk
        obtain ⟨c, hc, hck⟩ := List.any_eq_true.1 hh
        have := List.find?_eq_none.1 hfind c hc
        exact absurd hck this
      · simp [hk]
    | some e =>
      have he : e.1 = k' := by simpa using List.find?_some hfind
      by_cases hk : k' = k
      · subst hk
        simp [he]
      · have hek : ¬ e.1 = k := by rw [he]; exact hk
        simp [hk, hek]
  · rename_i hh
    unfold col?
    rw [List.find?_append]
    by_cases hk : k' = k
    · subst hk
      have : t.find? (fun x => x.1 == k') = Option.none := by
        apply List.find?_eq_none.2
        intro c hc hck
        apply hh
        exact List.any_eq_true.2 ⟨c, hc, hck⟩
      simp [this]
    · have : (k == k') = false := by simpa using fun h => hk h.symm
      simp only [hk, if_false, List.find?_cons, this, List.find?_nil]
      cases t.find? (fun x => x.1 == k') <;> simp

end Table
end Pyg

namespace Pyg

theorem nodup_dedupKeys (ks : List String) : (dedupKeys ks).Nodup := by
  induction ks with
  | nil => simp [dedupKeys]
  | cons k ks ih =>
    simp only [dedupKeys]
    apply List.nodup_cons.2
    refine ⟨?_, ih.sublist List.filter_sublist⟩
    intro hm
    have := (List.mem_filter.1 hm).2
    simp at this

namespace Table

theorem cols_dictConcat (rs : List (List (String × Cell))) :
    (dictConcat rs).cols = dedupKeys (rs.flatMap fun r => r.map (·.1)) := by
  simp [dictConcat, cols, List.map_map, Function.comp_def]

theorem dictConcat_rect (rs : List (List (String × Cell))) : (dictConcat rs).Rect rs.length := by
  intro c hc
  unfold dictConcat at hc
  obtain ⟨k, _, rfl⟩ := List.mem_map.1 hc
  simp

theorem updateWith_nil (u : Table) : Table.updateWith [] u = ofPairs u := rfl

theorem ofPairs_self_of_nodup (t : Table) (h : t.cols.Nodup) : ofPairs t = t :=
  ofPairs_of_nodup t h

end Table
end Pyg

namespace Pyg
namespace Table

/-- in a table with distinct column names every entry is found under its own name -/
theorem col?_of_mem_nodup {t : Table} (hn : t.cols.Nodup) {e : String × List Cell} (he : e ∈ t) :
    t.col? e.1 = some e.2 := by
  unfold col?
  induction t with
  | nil => cases he
  | cons a as ih =>
    have hn' : a.1 ∉ as.map (·.1) ∧ (as.map (·.1)).Nodup := by
      simpa [cols, List.nodup_cons] using hn
    simp only [List.find?_cons]
    rcases List.mem_cons.1 he with rfl | hm
    · simp
    · have : (a.1 == e.1) = false := by
        have : a.1 ≠ e.1 := fun h => hn'.1 (h ▸ List.mem_map.2 ⟨e, hm, rfl⟩)
        simpa using this
      simp only [this]
      exact ih (by simpa [cols] using hn'.2) hm

/-- restricting a dict to its own keys (line 334 with `columns` = the keys) changes nothing -/
theorem restrict_self {t : Table} (hn : t.cols.Nodup) :
    ofPairs (t.cols.map fun k => (k, (t.col? k).getD [Cell.none])) = t := by
  have h1 : (t.cols.map fun k => (k, (t.col? k).getD [Cell.none])) = t := by
    unfold cols
    rw [List.map_map]
    calc t.map ((fun k => (k, (t.col? k).getD [Cell.none])) ∘ fun c => c.1) = t.map (fun c => c) := by
          apply List.map_congr_left
          intro e he
          simp [Function.comp, col?_of_mem_nodup hn he]
      _ = t := by simp
  rw [h1]
  exact ofPairs_of_nodup t hn

theorem ofRows_cols (cs : List String) (rs : List (List Cell)) : (ofRows cs rs).cols = cs := by
  unfold ofRows cols
  rw [List.map_map]
  have : ((fun c : String × List Cell => c.1) ∘ fun (x : String × Nat) => (x.1, rs.map fun r => r.getD x.2 .none))
      = Prod.fst := by funext x; rfl
  rw [this, List.zipIdx_map_fst]

theorem ofRows_rect (cs : List String) (rs : List (List Cell)) : (ofRows cs rs).Rect rs.length := by
  intro c hc
  unfold ofRows at hc
  obtain ⟨x, _, rfl⟩ := List.mem_map.1 hc
  simp

/-- `ofRows` as the zip of the names with the transposed rows -/
theorem ofRows_eq_zip (cs : List String) (rs : List (List Cell)) :
    ofRows cs rs = cs.zip ((List.range cs.length).map fun j => rs.map fun r => r.getD j .none) := by
  unfold ofRows
  rw [List.zipIdx_eq_zip_range', List.zip_map_right, ← List.range_eq_range']
  apply List.map_congr_left
  intro x _
  rfl

theorem ofRows_rows (cs : List String) (rs : List (List Cell)) (hk : cs ≠ [])
    (hrs : ∀ r ∈ rs, r.length = cs.length) : (ofRows cs rs).rows = rs := by
  have hne : ofRows cs rs ≠ [] := by
    intro he
    have := ofRows_cols cs rs
    rw [he] at this
    exact hk this.symm
  unfold rows
  rw [nrows_of_rect (ofRows_rect cs rs) hne]
  apply List.ext_getElem
  · simp
  · intro i h1 h2
    simp only [List.getElem_map, List.getElem_range]
    have hi : i < rs.length := by simpa using h1
    have hlen := hrs rs[i] (List.getElem_mem hi)
    unfold row ofRows
    rw [List.map_map]
    apply List.ext_getElem
    · simp [hlen]
    · intro j hj1 hj2
      simp [List.getD_eq_getElem?_getD, hi, hj2]

end Table
end Pyg
