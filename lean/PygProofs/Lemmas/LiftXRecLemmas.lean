/-
  Round k6: refinement of the extended lifting model UP TO a map of the leaf results (`ExtendsUpTo`), so that `liftx_refines`
  applies to the recording function of the extended driver (`recorderX` returns an opaque object where `recorder` returns a tuple).
-/
import PygModel.LiftX
import PygProofs.Lemmas.LiftXLemmas

namespace Pyg

/-- a leaf function on extended values that agrees with `f` on plain ones UP TO a map `g` of its results (the recording function
of the extended driver returns an opaque object where the plain one returns a tuple) -/
def ExtendsUpTo (g : XVal → XVal) (f' : XLeafFn) (f : LeafFn) : Prop :=
  ∀ a args kw, (f' (Val.emb a) (Val.embList args) (Val.embKVs kw)).map g = (f a args kw).map Val.emb

/-- `g` goes through the looped containers -/
structure ThroughContainers (g : XVal → XVal) : Prop where
  list : ∀ xs, g (.list xs) = .list (xs.map g)
  tuple : ∀ xs, g (.tuple xs) = .tuple (xs.map g)
  dict : ∀ kvs, g (.dict 0 kvs) = .dict 0 (kvs.map fun p => (p.1, g p.2))

mutual
  theorem wrappedX_embed_upto (g : XVal → XVal) (hg : ThroughContainers g) (T : LoopTypes) (f' : XLeafFn) (f : LeafFn)
      (hl : T.list = true) (ht : T.tuple = true) (hd : T.dicts.contains 0 = true) (hf : ExtendsUpTo g f' f) :
      ∀ (v : Val) (args : List Val) (kw : KW),
      (wrappedX T f' v.emb (Val.embList args) (Val.embKVs kw)).map g = (wrapped f v args kw).map Val.emb
    | .cell c, args, kw => by
        simp only [Val.emb, wrappedX, wrapped, dropAxisX_emb]
        exact hf (.cell c) args (dropAxis kw)
    | .list xs, args, kw => by
        simp only [Val.emb, wrappedX, wrapped, hl, if_true, dropAxisX_emb]
        have e : (Val.embList xs).length = xs.length := by simp [embList_eq_map]
        have ih := wrappedXSeq_embed_upto g hg T f' f hl ht hd hf xs.length 0 xs args (dropAxis kw)
        rw [e]
        cases hx : wrappedXSeq T f' xs.length 0 (Val.embList xs) (Val.embList args) (Val.embKVs (dropAxis kw)) <;>
          cases hs : wrappedSeq f xs.length 0 xs args (dropAxis kw) <;> simp [hx, hs, Except.map] at ih ⊢
        · exact ih
        · simp [hg.list, Val.emb, ih]
    | .tuple xs, args, kw => by
        simp only [Val.emb, wrappedX, wrapped, ht, if_true, dropAxisX_emb]
        have e : (Val.embList xs).length = xs.length := by simp [embList_eq_map]
        have ih := wrappedXSeq_embed_upto g hg T f' f hl ht hd hf xs.length 0 xs args (dropAxis kw)
        rw [e]
        cases hx : wrappedXSeq T f' xs.length 0 (Val.embList xs) (Val.embList args) (Val.embKVs (dropAxis kw)) <;>
          cases hs : wrappedSeq f xs.length 0 xs args (dropAxis kw) <;> simp [hx, hs, Except.map] at ih ⊢
        · exact ih
        · simp [hg.tuple, Val.emb, ih]
    | .dict kvs, args, kw => by
        simp only [Val.emb, wrappedX, wrapped, hd, if_true, dropAxisX_emb, embKVs_keys]
        have ih := wrappedXKVs_embed_upto g hg T f' f hl ht hd hf (sortStr (keysOf kvs)) kvs args (dropAxis kw)
        cases hx : wrappedXKVs T f' (sortStr (keysOf kvs)) (Val.embKVs kvs) (Val.embList args) (Val.embKVs (dropAxis kw)) <;>
          cases hs : wrappedKVs f (sortStr (keysOf kvs)) kvs args (dropAxis kw) <;> simp [hx, hs, Except.map] at ih ⊢
        · exact ih
        · simp [hg.dict, Val.emb, ih]
  theorem wrappedXSeq_embed_upto (g : XVal → XVal) (hg : ThroughContainers g) (T : LoopTypes) (f' : XLeafFn) (f : LeafFn)
      (hl : T.list = true) (ht : T.tuple = true) (hd : T.dicts.contains 0 = true) (hf : ExtendsUpTo g f' f) :
      ∀ (n i : Nat) (xs : List Val) (args : List Val) (kw : KW),
      (wrappedXSeq T f' n i (Val.embList xs) (Val.embList args) (Val.embKVs kw)).map (List.map g)
        = (wrappedSeq f n i xs args kw).map Val.embList
    | n, i, [], args, kw => by simp [Val.embList, wrappedXSeq, wrappedSeq, Except.map]
    | n, i, x :: xs, args, kw => by
        simp only [Val.embList, wrappedXSeq, wrappedSeq, map_itemByIX_emb, mapXKW_itemByIX_emb]
        have ih1 := wrappedX_embed_upto g hg T f' f hl ht hd hf x (args.map (itemByI i n)) (mapKW (itemByI i n) kw)
        have ih2 := wrappedXSeq_embed_upto g hg T f' f hl ht hd hf n (i + 1) xs args kw
        cases h1 : wrappedX T f' x.emb (Val.embList (args.map (itemByI i n))) (Val.embKVs (mapKW (itemByI i n) kw)) <;>
          cases k1 : wrapped f x (args.map (itemByI i n)) (mapKW (itemByI i n) kw) <;> simp [h1, k1, Except.map] at ih1 ⊢
        · exact ih1
        · cases h2 : wrappedXSeq T f' n (i + 1) (Val.embList xs) (Val.embList args) (Val.embKVs kw) <;>
            cases k2 : wrappedSeq f n (i + 1) xs args kw <;> simp [h2, k2, Except.map] at ih2 ⊢
          · exact ih2
          · simp [Val.embList, ih1, ih2]
  theorem wrappedXKVs_embed_upto (g : XVal → XVal) (hg : ThroughContainers g) (T : LoopTypes) (f' : XLeafFn) (f : LeafFn)
      (hl : T.list = true) (ht : T.tuple = true) (hd : T.dicts.contains 0 = true) (hf : ExtendsUpTo g f' f) :
      ∀ (keys : List String) (kvs : KW) (args : List Val) (kw : KW),
      (wrappedXKVs T f' keys (Val.embKVs kvs) (Val.embList args) (Val.embKVs kw)).map (List.map fun p => (p.1, g p.2))
        = (wrappedKVs f keys kvs args kw).map Val.embKVs
    | keys, [], args, kw => by simp [Val.embKVs, wrappedXKVs, wrappedKVs, Except.map]
    | keys, (k, v) :: kvs, args, kw => by
        simp only [Val.embKVs, wrappedXKVs, wrappedKVs, map_itemByKeyX_emb, mapXKW_itemByKeyX_emb]
        have ih1 := wrappedX_embed_upto g hg T f' f hl ht hd hf v (args.map (itemByKey k keys)) (mapKW (itemByKey k keys) kw)
        have ih2 := wrappedXKVs_embed_upto g hg T f' f hl ht hd hf keys kvs args kw
        cases h1 : wrappedX T f' v.emb (Val.embList (args.map (itemByKey k keys))) (Val.embKVs (mapKW (itemByKey k keys) kw)) <;>
          cases k1 : wrapped f v (args.map (itemByKey k keys)) (mapKW (itemByKey k keys) kw) <;> simp [h1, k1, Except.map] at ih1 ⊢
        · exact ih1
        · cases h2 : wrappedXKVs T f' keys (Val.embKVs kvs) (Val.embList args) (Val.embKVs kw) <;>
            cases k2 : wrappedKVs f keys kvs args kw <;> simp [h2, k2, Except.map] at ih2 ⊢
          · exact ih2
          · simp [Val.embKVs, ih1, ih2]
end


mutual
  /-- opaque record objects read as the tuples of their fields, everywhere -/
  def XVal.unobj : XVal → XVal
    | .obj fs => .tuple (XVal.unobjList fs)
    | .list xs => .list (XVal.unobjList xs)
    | .tuple xs => .tuple (XVal.unobjList xs)
    | .dict cls kvs => .dict cls (XVal.unobjKVs kvs)
    | .arr1 xs => .arr1 (XVal.unobjList xs)
    | .ser ks xs => .ser ks (XVal.unobjList xs)
    | .cell c => .cell c
    | .arr2 nc rows => .arr2 nc rows
    | .frame idx cols rows => .frame idx cols rows
  def XVal.unobjList : List XVal → List XVal
    | [] => []
    | x :: xs => x.unobj :: XVal.unobjList xs
  def XVal.unobjKVs : List (String × XVal) → List (String × XVal)
    | [] => []
    | (k, v) :: kvs => (k, v.unobj) :: XVal.unobjKVs kvs
end

theorem unobjList_eq_map : ∀ xs, XVal.unobjList xs = xs.map XVal.unobj
  | [] => rfl
  | x :: xs => by simp [XVal.unobjList, unobjList_eq_map xs]

theorem unobjKVs_eq_map : ∀ kvs, XVal.unobjKVs kvs = kvs.map fun p => (p.1, p.2.unobj)
  | [] => rfl
  | (k, v) :: kvs => by simp [XVal.unobjKVs, unobjKVs_eq_map kvs]

theorem unobj_through : ThroughContainers XVal.unobj :=
  ⟨fun xs => by simp [XVal.unobj, unobjList_eq_map], fun xs => by simp [XVal.unobj, unobjList_eq_map],
   fun kvs => by simp [XVal.unobj, unobjKVs_eq_map]⟩

mutual
  /-- plain values hold no record objects -/
  theorem unobj_emb : ∀ v : Val, v.emb.unobj = v.emb
    | .cell c => by simp [Val.emb, XVal.unobj]
    | .list xs => by simp [Val.emb, XVal.unobj, unobjList_emb xs]
    | .tuple xs => by simp [Val.emb, XVal.unobj, unobjList_emb xs]
    | .dict kvs => by simp [Val.emb, XVal.unobj, unobjKVs_emb kvs]
  theorem unobjList_emb : ∀ xs : List Val, XVal.unobjList (Val.embList xs) = Val.embList xs
    | [] => by simp [Val.embList, XVal.unobjList]
    | x :: xs => by simp [Val.embList, XVal.unobjList, unobj_emb x, unobjList_emb xs]
  theorem unobjKVs_emb : ∀ kvs : KW, XVal.unobjKVs (Val.embKVs kvs) = Val.embKVs kvs
    | [] => by simp [Val.embKVs, XVal.unobjKVs]
    | (k, v) :: kvs => by simp [Val.embKVs, XVal.unobjKVs, unobj_emb v, unobjKVs_emb kvs]
end

/-- the recording function of the extended driver is the recording function of the plain driver, its record read as a tuple -/
theorem recorderX_extends : ExtendsUpTo XVal.unobj recorderX recorder := by
  intro a args kw
  have hrec : (XVal.obj [a.emb, .tuple (Val.embList args), .dict 0 (Val.embKVs kw)]).unobj =
      (Val.tuple [a, .tuple args, .dict kw]).emb := by
    simp [XVal.unobj, XVal.unobjList, Val.emb, Val.embList, unobj_emb, unobjList_emb, unobjKVs_emb]
  cases a with
  | cell c =>
    cases c with
    | str s =>
      simp only [recorderX, recorder, Val.emb]
      by_cases h1 : s.startsWith "!v" = true
      · simp [h1, Except.map]
      · by_cases h2 : s.startsWith "!k" = true
        · simp [h1, h2, Except.map]
        · by_cases h3 : s.startsWith "!" = true
          · simp [h1, h2, h3, Except.map]
          · simp only [h1, h2, h3, if_false, Bool.false_eq_true]
            simpa [Except.map, Val.emb] using hrec
    | _ => simpa [recorderX, recorder, Except.map, Val.emb] using hrec
  | _ => simpa [recorderX, recorder, Except.map, Val.emb] using hrec

end Pyg
