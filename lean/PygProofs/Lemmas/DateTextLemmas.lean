/-
  Text-level lemmas for C04: what the model's scanner reads from ANY numerals (padded or not), any pair of separators and
  any time-of-day suffix.  The spellings are described by independent predicates (`IsNumeral`, `TimeText`), not by the
  scanner's own functions.
-/
import PygModel.DateParse
import PygProofs.Lemmas.DateStrLemmas
namespace Pyg.DateParse
open Pyg Pyg.Bump

/-- a decimal numeral of at most `k` digits: a non-empty run of the characters `0..9` -/
def IsNumeral (k : Nat) (cs : List Char) : Prop := cs ≠ [] ∧ cs.length ≤ k ∧ ∀ c ∈ cs, c.isDigit = true

instance (k : Nat) (cs : List Char) : Decidable (IsNumeral k cs) := by unfold IsNumeral; exact inferInstance

/-- views of a reply for evaluation examples (`Res` has no decidable equality) -/
def okView : Option (Res Int) → Option Int
  | some (.ok t) => some t
  | _ => none

def isValueError : Option (Res Int) → Bool
  | some (.error .value) => true
  | _ => false

theorem eq_of_okView {r : Option (Res Int)} {t : Int} (h : okView r = some t) : r = some (.ok t) := by
  match r, h with
  | some (.ok v), h => simp only [okView, Option.some.injEq] at h; rw [h]

theorem eq_of_isValueError {r : Option (Res Int)} (h : isValueError r = true) : r = some (.error .value) := by
  match r, h with
  | some (.error .value), _ => rfl

theorem isDigit_not_alpha (c : Char) (h : c.isDigit = true) : c.isAlpha = false := by
  simp only [Char.isDigit, Char.isAlpha, Char.isUpper, Char.isLower, Bool.and_eq_true, decide_eq_true_eq, Bool.or_eq_false_iff,
    Bool.and_eq_false_iff, decide_eq_false_iff_not] at *
  have h1 := h.1; have h2 := h.2
  simp only [UInt32.le_iff_toNat_le, ge_iff_le] at *
  have e0 : '0'.val.toNat = 48 := by decide
  have e9 : '9'.val.toNat = 57 := by decide
  have eA : 'A'.val.toNat = 65 := by decide
  have eZ : 'Z'.val.toNat = 90 := by decide
  have ea : 'a'.val.toNat = 97 := by decide
  have ez : 'z'.val.toNat = 122 := by decide
  constructor <;> omega

theorem IsNumeral.len_pos {k : Nat} {cs : List Char} (h : IsNumeral k cs) : 1 ≤ cs.length := by
  have := h.1; cases cs with
  | nil => exact absurd rfl this
  | cons c r => simp

theorem isNumeral_pad2 (n : Nat) : IsNumeral 2 (pad2 n) := ⟨by simp [pad2], by simp [pad2], all_pad2 n⟩
theorem isNumeral_pad4 (n : Nat) : IsNumeral 4 (pad4 n) := ⟨by simp [pad4], by simp [pad4], all_pad4 n⟩
theorem isNumeral_pad6 (n : Nat) : IsNumeral 6 (pad6 n) := ⟨by simp [pad6], by simp [pad6], all_pad6 n⟩

/-- a numeral followed by a non-digit (or the end) is one `num` token carrying its value and its length -/
theorem scan_numeral (fuel : Nat) (hf : 0 < fuel) (k : Nat) (cs rest : List Char) (h : IsNumeral k cs) (hr : NonDigitHead rest) :
    scan fuel (cs ++ rest) = .num (digitsVal cs) cs.length :: scan (fuel - 1) rest := by
  cases cs with
  | nil => exact absurd rfl h.1
  | cons d0 ds => exact scan_num fuel hf d0 ds rest h.2.2 hr

/-- `T` in front of a digit is the one-letter word `t` -/
theorem scan_T' (fuel : Nat) (hf : 0 < fuel) (c : Char) (rest : List Char) (hc : c.isDigit = true) :
    scan fuel ('T' :: c :: rest) = .word ['t'] :: scan (fuel - 1) (c :: rest) := by
  obtain ⟨f, rfl⟩ : ∃ f, fuel = f + 1 := ⟨fuel - 1, by omega⟩
  have h1 : 'T'.isDigit = false := by decide
  have h2 : 'T'.isAlpha = true := by decide
  have h3 : 'T'.toLower = 't' := by decide
  simp [scan, h1, h2, h3, spanAlpha, isDigit_not_alpha c hc]

/-- what may stand between the date and the time of day -/
def IsLead (l : Char) : Prop := l = ' ' ∨ l = 'T'

/-- the time-of-day suffixes of the spellings (independent description): nothing, or a blank / `T` followed by `h:m`,
`h:m:s` or `h:m:s.f` with 1-2 digit fields and a fraction of 1-6 digits; the last two arguments are the value in
microseconds of the `h:m:s` part and of the fraction -/
inductive TimeText : List Char → Int → Int → Prop
  | none : TimeText [] 0 0
  | hm (l : Char) (hh mm : List Char) : IsLead l → IsNumeral 2 hh → IsNumeral 2 mm → digitsVal hh < 24 → digitsVal mm < 60 →
      TimeText (l :: (hh ++ ':' :: mm)) ((digitsVal hh * 3600000000 + digitsVal mm * 60000000 : Nat) : Int) 0
  | hms (l : Char) (hh mm ss : List Char) : IsLead l → IsNumeral 2 hh → IsNumeral 2 mm → IsNumeral 2 ss →
      digitsVal hh < 24 → digitsVal mm < 60 → digitsVal ss < 60 →
      TimeText (l :: (hh ++ ':' :: (mm ++ ':' :: ss)))
        ((digitsVal hh * 3600000000 + digitsVal mm * 60000000 + digitsVal ss * 1000000 : Nat) : Int) 0
  | frac (l : Char) (hh mm ss fr : List Char) : IsLead l → IsNumeral 2 hh → IsNumeral 2 mm → IsNumeral 2 ss → IsNumeral 6 fr →
      digitsVal hh < 24 → digitsVal mm < 60 → digitsVal ss < 60 →
      TimeText (l :: (hh ++ ':' :: (mm ++ ':' :: (ss ++ '.' :: fr))))
        ((digitsVal hh * 3600000000 + digitsVal mm * 60000000 + digitsVal ss * 1000000 : Nat) : Int)
        ((digitsVal fr * 10 ^ (6 - fr.length) : Nat) : Int)

/-- the `h:m:s` part of a time suffix is a time of day ≥ 0 (so `dtCs` does not take the "impossible time" exit) -/
theorem TimeText.nonneg {tm : List Char} {a b : Int} (h : TimeText tm a b) : ¬ (a < 0) := by
  cases h <;> omega

theorem TimeText.ndh {tm : List Char} {a b : Int} (h : TimeText tm a b) : NonDigitHead tm := by
  cases h with
  | none => exact ndh_nil
  | hm l _ _ hl | hms l _ _ _ hl | frac l _ _ _ _ hl =>
    rcases hl with rfl | rfl <;> exact ndh_cons _ _ (by decide)

theorem scan_lead (fuel : Nat) (hf : 0 < fuel) (l : Char) (hl : IsLead l) (k : Nat) (cs rest : List Char) (h : IsNumeral k cs) :
    ∃ tk, (tk = Tk.sep ' ' ∨ tk = Tk.word ['t']) ∧ scan fuel (l :: (cs ++ rest)) = tk :: scan (fuel - 1) (cs ++ rest) := by
  rcases hl with rfl | rfl
  · exact ⟨_, Or.inl rfl, scan_sep fuel hf ' ' _ (by decide) (by decide)⟩
  · cases cs with
    | nil => exact absurd rfl h.1
    | cons c r => exact ⟨_, Or.inr rfl, scan_T' fuel hf c _ (h.2.2 c (by simp))⟩

/-- the scanner + `parseTime` read every such suffix as its value -/
theorem parseTime_text (fuel : Nat) (tm : List Char) (hms us : Int) (h : TimeText tm hms us) (hf : tm.length < fuel) :
    parseTime (scan fuel tm) = some (hms, us) := by
  have colon : ∀ r, NonDigitHead (':' :: r) := fun r => ndh_cons _ _ (by decide)
  have dot : ∀ r, NonDigitHead ('.' :: r) := fun r => ndh_cons _ _ (by decide)
  cases h with
  | none => rw [scan_nil]; rfl
  | hm l hh mm hl h1 h2 r1 r2 =>
    have l1 := h1.len_pos; have l2 := h2.len_pos
    simp only [List.length_cons, List.length_append] at hf
    obtain ⟨tk, htk, e⟩ := scan_lead fuel (by omega) l hl 2 hh (':' :: mm) h1
    rw [e, scan_numeral _ (by omega) 2 hh _ h1 (colon _), scan_sep _ (by omega) _ _ (by decide) (by decide)]
    have := scan_numeral (fuel - 1 - 1 - 1) (by omega) 2 mm [] h2 ndh_nil
    rw [List.append_nil] at this
    rw [this, scan_nil]
    rcases htk with rfl | rfl <;> simp [parseTime, r1, r2]
  | hms l hh mm ss hl h1 h2 h3 r1 r2 r3 =>
    have l1 := h1.len_pos; have l2 := h2.len_pos; have l3 := h3.len_pos
    simp only [List.length_cons, List.length_append] at hf
    obtain ⟨tk, htk, e⟩ := scan_lead fuel (by omega) l hl 2 hh (':' :: (mm ++ ':' :: ss)) h1
    rw [e, scan_numeral _ (by omega) 2 hh _ h1 (colon _), scan_sep _ (by omega) _ _ (by decide) (by decide)]
    rw [scan_numeral _ (by omega) 2 mm _ h2 (colon _), scan_sep _ (by omega) _ _ (by decide) (by decide)]
    have := scan_numeral (fuel - 1 - 1 - 1 - 1 - 1) (by omega) 2 ss [] h3 ndh_nil
    rw [List.append_nil] at this
    rw [this, scan_nil]
    rcases htk with rfl | rfl <;> simp [parseTime, r1, r2, r3]
  | frac l hh mm ss fr hl h1 h2 h3 h4 r1 r2 r3 =>
    have l1 := h1.len_pos; have l2 := h2.len_pos; have l3 := h3.len_pos; have l4 := h4.len_pos
    have l4' := h4.2.1
    simp only [List.length_cons, List.length_append] at hf
    obtain ⟨tk, htk, e⟩ := scan_lead fuel (by omega) l hl 2 hh (':' :: (mm ++ ':' :: (ss ++ '.' :: fr))) h1
    rw [e, scan_numeral _ (by omega) 2 hh _ h1 (colon _), scan_sep _ (by omega) _ _ (by decide) (by decide)]
    rw [scan_numeral _ (by omega) 2 mm _ h2 (colon _), scan_sep _ (by omega) _ _ (by decide) (by decide)]
    rw [scan_numeral _ (by omega) 2 ss _ h3 (dot _), scan_sep _ (by omega) _ _ (by decide) (by decide)]
    have := scan_numeral (fuel - 1 - 1 - 1 - 1 - 1 - 1 - 1) (by omega) 6 fr [] h4 ndh_nil
    rw [List.append_nil] at this
    rw [this, scan_nil]
    rcases htk with rfl | rfl <;> simp [parseTime, l4', r1, r2, r3]

/-- ANY text `a<sep>b<sep>yyyy[ time]` — one or two digit fields, padded or not, any two of the four separators, any
time suffix — is the ambiguous form whose first number is the value of `a` -/
theorem parse_numeric3_text (a b yy tm : List Char) (s1 s2 : Char) (hms us : Int) (ha : IsNumeral 2 a) (hb : IsNumeral 2 b)
    (hy : IsNumeral 4 yy) (hy4 : yy.length = 4) (h1 : isDateSep s1 = true) (h2 : isDateSep s2 = true) (ht : TimeText tm hms us) :
    parseCs (a ++ s1 :: (b ++ s2 :: (yy ++ tm)))
      = some ⟨true, digitsVal a, digitsVal yy, (duResolve (digitsVal a) (digitsVal b)).1, (duResolve (digitsVal a) (digitsVal b)).2, hms, us⟩ := by
  have p1 := sep_props s1 h1
  have p2 := sep_props s2 h2
  have la := ha.len_pos; have lb := hb.len_pos
  unfold parseCs
  have hl : a.length + b.length + 6 + tm.length + 1 = (a ++ s1 :: (b ++ s2 :: (yy ++ tm))).length + 1 := by
    simp only [List.length_append, List.length_cons, hy4]; omega
  rw [← hl]
  rw [scan_numeral _ (by omega) 2 a _ ha (ndh_cons _ _ p1.1), scan_sep _ (by omega) _ _ p1.1 p1.2]
  rw [scan_numeral _ (by omega) 2 b _ hb (ndh_cons _ _ p2.1), scan_sep _ (by omega) _ _ p2.1 p2.2]
  rw [scan_numeral _ (by omega) 4 yy _ hy ht.ndh]
  have pt := parseTime_text (a.length + b.length + 6 + tm.length + 1 - 1 - 1 - 1 - 1 - 1) tm hms us ht (by omega)
  simp only [parseTokens, hy4, ha.2.1, hb.2.1, h1, h2, and_self, if_true, pt, mk, Option.map_some]

/-- ANY year-first text `yyyy<sep>m<sep>d[ time]` — month and day of one or two digits, padded or not, any two of the four
separators, any time suffix — is read as its fields, in that order (round k3: `iso_any_sep`) -/
theorem parse_iso_any_text (yy mm dd tm : List Char) (s1 s2 : Char) (hms us : Int) (hy : IsNumeral 4 yy) (hy4 : yy.length = 4)
    (hm : IsNumeral 2 mm) (hd : IsNumeral 2 dd) (h1 : isDateSep s1 = true) (h2 : isDateSep s2 = true)
    (hdot : s1 = s2 ∨ (s1 ≠ '.' ∧ s2 ≠ '.')) (ht : TimeText tm hms us) :
    parseCs (yy ++ s1 :: (mm ++ s2 :: (dd ++ tm))) = some ⟨false, 0, digitsVal yy, digitsVal mm, digitsVal dd, hms, us⟩ := by
  have p1 := sep_props s1 h1
  have p2 := sep_props s2 h2
  have lm := hm.len_pos; have ld := hd.len_pos
  unfold parseCs
  have hl : mm.length + dd.length + 6 + tm.length + 1 = (yy ++ s1 :: (mm ++ s2 :: (dd ++ tm))).length + 1 := by
    simp only [List.length_append, List.length_cons, hy4]; omega
  rw [← hl]
  rw [scan_numeral _ (by omega) 4 yy _ hy (ndh_cons _ _ p1.1), scan_sep _ (by omega) _ _ p1.1 p1.2]
  rw [scan_numeral _ (by omega) 2 mm _ hm (ndh_cons _ _ p2.1), scan_sep _ (by omega) _ _ p2.1 p2.2]
  rw [scan_numeral _ (by omega) 2 dd _ hd ht.ndh]
  have pt := parseTime_text (mm.length + dd.length + 6 + tm.length + 1 - 1 - 1 - 1 - 1 - 1) tm hms us ht (by omega)
  generalize (mm.length + dd.length + 6 + tm.length + 1 - 1 - 1 - 1 - 1 - 1) = F at pt ⊢
  have hm' := hm.2.1
  have hdl : dd.length = 1 ∨ dd.length = 2 := by have := hd.2.1; omega
  have h12 : (1 : Nat) ≤ 2 := by omega
  rcases hdl with e | e <;>
    simp only [parseTokens, hy4, e, hm', h1, h2, hdot, and_self, if_true, pt, mk, Option.map_some, Nat.le_refl, h12, true_and, and_true]

/-- ANY ISO text `yyyy-mm-dd[ time]` is read as its fields -/
theorem parse_iso_text (yy mm dd tm : List Char) (hms us : Int) (hy : IsNumeral 4 yy) (hy4 : yy.length = 4)
    (hm : IsNumeral 2 mm) (hm2 : mm.length = 2) (hd : IsNumeral 2 dd) (hd2 : dd.length = 2) (ht : TimeText tm hms us) :
    parseCs (yy ++ '-' :: (mm ++ '-' :: (dd ++ tm))) = some ⟨false, 0, digitsVal yy, digitsVal mm, digitsVal dd, hms, us⟩ :=
  parse_iso_any_text yy mm dd tm '-' '-' hms us hy hy4 hm hd (by decide) (by decide) (Or.inl rfl) ht

end Pyg.DateParse
