/-
  Helper lemmas for C11 (unpivot ∘ pivot as one equation): counting the groups that match a key,
  partition of a list of row ids by the groups, the list of non-`None` pivot cells in closed form,
  and the table plumbing of `unpivot` on the table `pivot` builds.
-/
import PygModel.Group
import PygProofs.Lemmas.PivotLemmas

namespace Pyg

/-! ### exactly one group per key -/

/-- in a strictly increasing group list the groups matching a key are exactly the one group -/
theorem sortedG_filter_eq {G : List Grp} (h : SortedG G) {g : Grp} (hg : g ∈ G) {k : Val}
    (hk : cmp k g.1 = .eq) : G.filter (fun g' => cmp k g'.1 == .eq) = [g] := by
  induction G with
  | nil => cases hg
  | cons a as ih =>
    have hx := List.pairwise_cons.1 h
    rcases List.mem_cons.1 hg with rfl | hg'
    · have hrest : as.filter (fun g' => cmp k g'.1 == .eq) = [] := by
        rw [List.filter_eq_nil_iff]
        intro b hb
        have := cmp_lt_of_eq_of_lt hk (hx.1 b hb)
        simp [this]
      simp [hk, hrest]
    · have hne : cmp k a.1 ≠ .eq := by
        intro he
        have := cmp_lt_of_eq_of_lt he (hx.1 g hg')
        rw [hk] at this; cases this
      have hb : (cmp k a.1 == .eq) = false := by simpa using hne
      rw [List.filter_cons, hb]
      exact ih hx.2 hg'

theorem sortedG_countP {G : List Grp} (h : SortedG G) {g : Grp} (hg : g ∈ G) {k : Val}
    (hk : cmp k g.1 = .eq) : G.countP (fun g' => cmp k g'.1 == .eq) = 1 := by
  rw [List.countP_eq_length_filter, sortedG_filter_eq h hg hk]; rfl

/-- the key of the group that matches `k` (`None` if there is none) -/
def groupKeyOf (G : List Grp) (k : Val) : Val :=
  ((G.find? fun g => cmp k g.1 == .eq).map (·.1)).getD (.cell .none)

theorem groupKeyOf_eq {G : List Grp} (h : SortedG G) {g : Grp} (hg : g ∈ G) {k : Val}
    (hk : cmp k g.1 = .eq) : groupKeyOf G k = g.1 := by
  unfold groupKeyOf
  cases hf : G.find? (fun g => cmp k g.1 == .eq) with
  | none =>
    rw [List.find?_eq_none] at hf
    exact absurd (by simpa using hk) (hf g hg)
  | some g' =>
    have hm := List.mem_of_find?_eq_some hf
    have hp := List.find?_some hf
    have : g' = g := group_unique h hm hg (cmp_eq_trans (cmp_eq_symm (by simpa using hp)) hk)
    simp [this]

theorem groupKeyOf_congr (G : List Grp) {k k' : Val} (h : cmp k k' = .eq) :
    groupKeyOf G k = groupKeyOf G k' := by
  unfold groupKeyOf
  have : (fun g : Grp => cmp k g.1 == .eq) = fun g : Grp => cmp k' g.1 == .eq := by
    funext g
    rw [cmp_congr h (cmp_self g.1)]
  rw [this]

/-! ### partition of a list by predicates of which exactly one holds -/

theorem sum_map_ite {γ} (G : List γ) (q : γ → Bool) (c : Nat) :
    (G.map fun g => if q g then c else 0).sum = c * G.countP q := by
  induction G with
  | nil => simp
  | cons a as ih =>
    simp only [List.map_cons, List.sum_cons, ih, List.countP_cons]
    cases q a <;> simp [Nat.mul_add, Nat.add_comm]

theorem count_filter_ite (l : List Nat) (p : Nat → Bool) (a : Nat) :
    (l.filter p).count a = if p a then l.count a else 0 := by
  by_cases h : p a = true
  · simp [h, List.count_filter]
  · have : a ∉ l.filter p := by simp [List.mem_filter, h]
    simp [h, List.count_eq_zero_of_not_mem this]

/-- if every element of `l` satisfies exactly one of the predicates `P g` (`g` in `G`), `l` is the
disjoint union of its parts -/
theorem perm_flatMap_filter {γ} (G : List γ) (P : γ → Nat → Bool) (l : List Nat)
    (h : ∀ a ∈ l, G.countP (fun g => P g a) = 1) :
    l.Perm (G.flatMap fun g => l.filter (P g)) := by
  rw [List.perm_iff_count]
  intro a
  rw [List.count_flatMap]
  have : (List.count a ∘ fun g => l.filter (P g)) = fun g => if P g a then l.count a else 0 := by
    funext g; simp [count_filter_ite]
  rw [this, sum_map_ite]
  by_cases ha : a ∈ l
  · rw [h a ha]; simp
  · simp [List.count_eq_zero_of_not_mem ha]

theorem perm_flatMap_left {α β} (l : List α) {f g : α → List β} (h : ∀ a ∈ l, (f a).Perm (g a)) :
    (l.flatMap f).Perm (l.flatMap g) := by
  induction l with
  | nil => simp
  | cons a as ih =>
    simp only [List.flatMap_cons]
    exact (h a (by simp)).append (ih fun b hb => h b (by simp [hb]))

theorem filter_map_eq_flatMap {α β} (l : List α) (F : α → β) (p : β → Bool) :
    (l.map F).filter p = l.flatMap fun a => [F a].filter p := by
  induction l with
  | nil => rfl
  | cons a as ih => simp only [List.map_cons, List.flatMap_cons, ← ih]; cases h : p (F a) <;> simp [h]

/-! ### the non-`None` cells of the pivot, in closed form -/

/-- `None` as a value -/
def isNoneV : Val → Bool
  | .cell .none => true
  | _ => false

/-- the rows addressed by the x-group key `kx` and the y-group key `ky` -/
def matchRows (n : Nat) (xp : Nat → List Val) (yc : Nat → Val) (kx ky : Val) : List Nat :=
  (List.range n).filter fun i => cmp (.tuple (xp i)) kx == .eq && cmp (.tuple [yc i]) ky == .eq

/-- with unique `(x, y)` pairs at most one row is addressed -/
theorem matchRows_le_one {n : Nat} {xp : Nat → List Val} {yc : Nat → Val}
    (huniq : ∀ i j, i < n → j < n → cmp (.tuple (xp i)) (.tuple (xp j)) = .eq →
      cmp (.tuple [yc i]) (.tuple [yc j]) = .eq → i = j) (kx ky : Val) :
    matchRows n xp yc kx ky = [] ∨ ∃ i, matchRows n xp yc kx ky = [i] := by
  have hnd : (matchRows n xp yc kx ky).Nodup := List.Nodup.sublist List.filter_sublist List.nodup_range
  have hall : ∀ i ∈ matchRows n xp yc kx ky, ∀ j ∈ matchRows n xp yc kx ky, i = j := by
    intro i hi j hj
    simp only [matchRows, List.mem_filter, List.mem_range, Bool.and_eq_true, beq_iff_eq] at hi hj
    exact huniq i j hi.1 hj.1 (cmp_eq_trans hi.2.1 (cmp_eq_symm hj.2.1))
      (cmp_eq_trans hi.2.2 (cmp_eq_symm hj.2.2))
  cases hm : matchRows n xp yc kx ky with
  | nil => exact Or.inl rfl
  | cons i rest =>
    right
    refine ⟨i, ?_⟩
    cases rest with
    | nil => rfl
    | cons j rest' =>
      rw [hm] at hnd hall
      have : i = j := hall i (by simp) j (by simp)
      subst this
      simp at hnd

theorem listbyG_ne_nil {keys : List Val} (hkl : keys ≠ []) : listbyG keys ≠ [] := by
  intro h
  have := (listbyG_perm keys).length_eq
  rw [h] at this
  simp at this
  exact hkl (List.eq_nil_of_length_eq_zero this.symm)

theorem xyg_ne_nil {n : Nat} (xp : Nat → List Val) (yc : Nat → Val) (hn : n ≠ 0) :
    listbyG (xyKeys n xp yc) ≠ [] := by
  apply listbyG_ne_nil
  intro h; have := congrArg List.length h; simp [xyKeys] at this; exact hn this

/-- the key of an x-group is the x key of some row -/
theorem xg_key_rep {n nx : Nat} (xp : Nat → List Val) (yc : Nat → Val) (hn : n ≠ 0)
    (hxp : ∀ i, (xp i).length = nx) (gx : Grp)
    (hgx : gx ∈ listbyG ((listbyG (xyKeys n xp yc)).map fun g => xPart nx g.1)) :
    ∃ l, l < n ∧ gx.1 = .tuple (xp l) := by
  have hne : ((listbyG (xyKeys n xp yc)).map fun g => xPart nx g.1) ≠ [] := by
    simpa using xyg_ne_nil xp yc hn
  have hm := listbyG_key_mem hne gx hgx
  obtain ⟨g', hg', he⟩ := List.mem_map.1 hm
  obtain ⟨l, hl, _, hrep⟩ := xyg_rep xp yc hn g' hg'
  refine ⟨l, hl, ?_⟩
  rw [← he, hrep, ← hxp l]; exact xPart_snoc _ _

/-- the key of a y-group is the y value of some row -/
theorem ys_key_rep {n nx : Nat} (xp : Nat → List Val) (yc : Nat → Val) (hn : n ≠ 0)
    (hxp : ∀ i, (xp i).length = nx) (gy : Grp)
    (hgy : gy ∈ listbyG (((listbyG (xyKeys n xp yc)).map fun g => tupleGet nx g.1).map
      fun v => Val.tuple [v])) :
    ∃ l, l < n ∧ gy.1 = .tuple [yc l] := by
  have hne : (((listbyG (xyKeys n xp yc)).map fun g => tupleGet nx g.1).map
      fun v => Val.tuple [v]) ≠ [] := by
    simpa using xyg_ne_nil xp yc hn
  have hm := listbyG_key_mem hne gy hgy
  simp only [List.map_map, List.mem_map, Function.comp_def] at hm
  obtain ⟨g', hg', he⟩ := hm
  obtain ⟨l, hl, _, hrep⟩ := xyg_rep xp yc hn g' hg'
  refine ⟨l, hl, ?_⟩
  rw [← he, hrep, ← hxp l, tupleGet_snoc]

/-- **the non-`None` cells of the pivot table, row-major, are the rows with a non-`None` z**
(unique `(x, y)` pairs, `agg = last`): reading the cells `(x-group key, y-group key, cell)` row by
row and dropping the `None` cells gives, for a permutation `idx` of the rows whose z is not `None`,
the list of `(key of the row's x-group, key of the row's y-group, z)` -/
theorem pivot_cells_nonNone (n nx : Nat) (xp : Nat → List Val) (yc : Nat → Val)
    (zs : List Cell) (hn : n ≠ 0) (hxp : ∀ i, (xp i).length = nx)
    (huniq : ∀ i j, i < n → j < n → cmp (.tuple (xp i)) (.tuple (xp j)) = .eq →
      cmp (.tuple [yc i]) (.tuple [yc j]) = .eq → i = j) :
    let xyg := listbyG (xyKeys n xp yc)
    let xg := listbyG (xyg.map fun g => xPart nx g.1)
    let ys := listbyG ((xyg.map fun g => tupleGet nx g.1).map fun v => .tuple [v])
    ∃ idx : List Nat, idx.Perm ((List.range n).filter fun i => zs.getD i .none != .none) ∧
      ((xg.flatMap fun gx => ys.map fun gy =>
          (gx.1, gy.1, pivotCell xyg nx zs .last gx.2 gy.1)).filter fun r => !isNoneV r.2.2) =
      idx.map fun i => (groupKeyOf xg (.tuple (xp i)), groupKeyOf ys (.tuple [yc i]),
        Val.cell (zs.getD i .none)) := by
  intro xyg xg ys
  refine ⟨xg.flatMap fun gx => ys.flatMap fun gy =>
    (matchRows n xp yc gx.1 gy.1).filter fun i => zs.getD i .none != .none, ?_, ?_⟩
  · -- the permutation
    apply List.Perm.symm
    generalize hL : ((List.range n).filter fun i => zs.getD i .none != .none) = L
    have hLn : ∀ a ∈ L, a < n := by
      intro a ha; rw [← hL] at ha; exact List.mem_range.1 (List.mem_filter.1 ha).1
    have h1 : L.Perm (xg.flatMap fun gx => L.filter fun i => cmp (.tuple (xp i)) gx.1 == .eq) := by
      apply perm_flatMap_filter xg (fun gx i => cmp (.tuple (xp i)) gx.1 == .eq)
      intro a ha
      obtain ⟨⟨gx, hgx, hex⟩, _⟩ := pivot_addresses n nx xp yc hn hxp a (hLn a ha)
      exact sortedG_countP (listbyG_sorted _) hgx hex
    refine h1.trans ?_
    apply perm_flatMap_left
    intro gx _
    have h2 : (L.filter fun i => cmp (.tuple (xp i)) gx.1 == .eq).Perm
        (ys.flatMap fun gy => (L.filter fun i => cmp (.tuple (xp i)) gx.1 == .eq).filter
          fun i => cmp (.tuple [yc i]) gy.1 == .eq) := by
      apply perm_flatMap_filter ys (fun gy i => cmp (.tuple [yc i]) gy.1 == .eq)
      intro a ha
      obtain ⟨_, ⟨gy, hgy, hey⟩⟩ := pivot_addresses n nx xp yc hn hxp a (hLn a (List.mem_filter.1 ha).1)
      exact sortedG_countP (listbyG_sorted _) hgy hey
    refine h2.trans (List.Perm.of_eq ?_)
    apply flatMap_congr'
    intro gy _
    rw [← hL]
    simp only [matchRows, List.filter_filter]
    apply List.filter_congr
    intro i _
    cases (cmp (.tuple (xp i)) gx.1 == .eq) <;> cases (cmp (.tuple [yc i]) gy.1 == .eq) <;>
      cases (zs.getD i .none != .none) <;> rfl
  · -- the cells
    rw [List.filter_flatMap, List.map_flatMap]
    apply flatMap_congr'
    intro gx hgx
    rw [filter_map_eq_flatMap, List.map_flatMap]
    apply flatMap_congr'
    intro gy hgy
    have hs : pivotCell xyg nx zs .last gx.2 gy.1 =
        if matchRows n xp yc gx.1 gy.1 = [] then .cell .none
        else Agg.last.apply ((matchRows n xp yc gx.1 gy.1).map fun i => zs.getD i .none) :=
      pivotCell_spec n nx xp yc zs .last hn hxp gx gy hgx
    rcases matchRows_le_one huniq gx.1 gy.1 with h0 | ⟨i, hi⟩
    · rw [hs, h0]; simp [isNoneV]
    · have him : i ∈ matchRows n xp yc gx.1 gy.1 := by rw [hi]; simp
      simp only [matchRows, List.mem_filter, List.mem_range, Bool.and_eq_true, beq_iff_eq] at him
      have hkx : groupKeyOf xg (.tuple (xp i)) = gx.1 := groupKeyOf_eq (listbyG_sorted _) hgx him.2.1
      have hky : groupKeyOf ys (.tuple [yc i]) = gy.1 := groupKeyOf_eq (listbyG_sorted _) hgy him.2.2
      rw [hs, hi]
      by_cases hz : zs.getD i .none = .none
      · rw [List.getD_eq_getElem?_getD] at hz
        simp [Agg.apply, hz, isNoneV]
      · have hz' : isNoneV (.cell (zs.getD i .none)) = false := by
          cases hc : zs.getD i .none <;> simp_all [isNoneV]
        rw [List.getD_eq_getElem?_getD] at hz hz'
        simp [Agg.apply, hz, hz', hkx, hky]

end Pyg
