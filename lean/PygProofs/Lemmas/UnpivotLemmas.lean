/-
  Helper lemmas for C11 (unpivot ∘ pivot as one equation): counting the groups that match a key,
  partition of a list of row ids by the groups, the list of non-`None` pivot cells in closed form,
  and the table plumbing of `unpivot` on the table `pivot` builds.
-/
import PygModel.Group
import PygProofs.Lemmas.PivotLemmas

namespace Pyg

/-! ### exactly one group per key -/

/-- in a strictly increasing group list the groups matching a key are exactly the one group -/
theorem sortedG_filter_eq {G : List Grp} (h : SortedG G) {g : Grp} (hg : g ∈ G) {k : Val}
    (hk : cmp k g.1 = .eq) : G.filter (fun g' => cmp k g'.1 == .eq) = [g] := by
  induction G with
  | nil => cases hg
  | cons a as ih =>
    have hx := List.pairwise_cons.1 h
    rcases List.mem_cons.1 hg with rfl | hg'
    · have hrest : as.filter (fun g' => cmp k g'.1 == .eq) = [] := by
        rw [List.filter_eq_nil_iff]
        intro b hb
        have := cmp_lt_of_eq_of_lt hk (hx.1 b hb)
        simp [this]
      simp [hk, hrest]
    · have hne : cmp k a.1 ≠ .eq := by
        intro he
        have := cmp_lt_of_eq_of_lt he (hx.1 g hg')
        rw [hk] at this; cases this
      have hb : (cmp k a.1 == .eq) = false := by simpa using hne
      rw [List.filter_cons, hb]
      exact ih hx.2 hg'

theorem sortedG_countP {G : List Grp} (h : SortedG G) {g : Grp} (hg : g ∈ G) {k : Val}
    (hk : cmp k g.1 = .eq) : G.countP (fun g' => cmp k g'.1 == .eq) = 1 := by
  rw [List.countP_eq_length_filter, sortedG_filter_eq h hg hk]; rfl

/-- the key of the group that matches `k` (`None` if there is none) -/
def groupKeyOf (G : List Grp) (k : Val) : Val :=
  ((G.find? fun g => cmp k g.1 == .eq).map (·.1)).getD (.cell .none)

theorem groupKeyOf_eq {G : List Grp} (h : SortedG G) {g : Grp} (hg : g ∈ G) {k : Val}
    (hk : cmp k g.1 = .eq) : groupKeyOf G k = g.1 := by
  unfold groupKeyOf
  cases hf : G.find? (fun g => cmp k g.1 == .eq) with
  | none =>
    rw [List.find?_eq_none] at hf
    exact absurd (by simpa using hk) (hf g hg)
  | some g' =>
    have hm := List.mem_of_find?_eq_some hf
    have hp := List.find?_some hf
    have : g' = g := group_unique h hm hg (cmp_eq_trans (cmp_eq_symm (by simpa using hp)) hk)
    simp [this]

theorem groupKeyOf_congr (G : List Grp) {k k' : Val} (h : cmp k k' = .eq) :
    groupKeyOf G k = groupKeyOf G k' := by
  unfold groupKeyOf
  have : (fun g : Grp => cmp k g.1 == .eq) = fun g : Grp => cmp k' g.1 == .eq := by
    funext g
    rw [cmp_congr h (cmp_self g.1)]
  rw [this]

/-! ### partition of a list by predicates of which exactly one holds -/

theorem sum_map_ite {γ} (G : List γ) (q : γ → Bool) (c : Nat) :
    (G.map fun g => if q g then c else 0).sum = c * G.countP q := by
  induction G with
  | nil => simp
  | cons a as ih =>
    simp only [List.map_cons, List.sum_cons, ih, List.countP_cons]
    cases q a <;> simp [Nat.mul_add, Nat.add_comm]

theorem count_filter_ite (l : List Nat) (p : Nat → Bool) (a : Nat) :
    (l.filter p).count a = if p a then l.count a else 0 := by
  by_cases h : p a = true
  · simp [h, List.count_filter]
  · have : a ∉ l.filter p := by simp [List.mem_filter, h]
    simp [h, List.count_eq_zero_of_not_mem this]

/-- if every element of `l` satisfies exactly one of the predicates `P g` (`g` in `G`), `l` is the
disjoint union of its parts -/
theorem perm_flatMap_filter {γ} (G : List γ) (P : γ → Nat → Bool) (l : List Nat)
    (h : ∀ a ∈ l, G.countP (fun g => P g a) = 1) :
    l.Perm (G.flatMap fun g => l.filter (P g)) := by
  rw [List.perm_iff_count]
  intro a
  rw [List.count_flatMap]
  have : (List.count a ∘ fun g => l.filter (P g)) = fun g => if P g a then l.count a else 0 := by
    funext g; simp [count_filter_ite]
  rw [this, sum_map_ite]
  by_cases ha : a ∈ l
  · rw [h a ha]; simp
  · simp [List.count_eq_zero_of_not_mem ha]

theorem perm_flatMap_left {α β} (l : List α) {f g : α → List β} (h : ∀ a ∈ l, (f a).Perm (g a)) :
    (l.flatMap f).Perm (l.flatMap g) := by
  induction l with
  | nil => simp
  | cons a as ih =>
    simp only [List.flatMap_cons]
    exact (h a (by simp)).append (ih fun b hb => h b (by simp [hb]))

theorem filter_map_eq_flatMap {α β} (l : List α) (F : α → β) (p : β → Bool) :
    (l.map F).filter p = l.flatMap fun a => [F a].filter p := by
  induction l with
  | nil => rfl
  | cons a as ih => simp only [List.map_cons, List.flatMap_cons, ← ih]; cases h : p (F a) <;> simp [h]

/-! ### the non-`None` cells of the pivot, in closed form -/

/-- `None` as a value -/
def isNoneV : Val → Bool
  | .cell .none => true
  | _ => false

/-- the rows addressed by the x-group key `kx` and the y-group key `ky` -/
def matchRows (n : Nat) (xp : Nat → List Val) (yc : Nat → Val) (kx ky : Val) : List Nat :=
  (List.range n).filter fun i => cmp (.tuple (xp i)) kx == .eq && cmp (.tuple [yc i]) ky == .eq

/-- with unique `(x, y)` pairs at most one row is addressed -/
theorem matchRows_le_one {n : Nat} {xp : Nat → List Val} {yc : Nat → Val}
    (huniq : ∀ i j, i < n → j < n → cmp (.tuple (xp i)) (.tuple (xp j)) = .eq →
      cmp (.tuple [yc i]) (.tuple [yc j]) = .eq → i = j) (kx ky : Val) :
    matchRows n xp yc kx ky = [] ∨ ∃ i, matchRows n xp yc kx ky = [i] := by
  have hnd : (matchRows n xp yc kx ky).Nodup := List.Nodup.sublist List.filter_sublist List.nodup_range
  have hall : ∀ i ∈ matchRows n xp yc kx ky, ∀ j ∈ matchRows n xp yc kx ky, i = j := by
    intro i hi j hj
    simp only [matchRows, List.mem_filter, List.mem_range, Bool.and_eq_true, beq_iff_eq] at hi hj
    exact huniq i j hi.1 hj.1 (cmp_eq_trans hi.2.1 (cmp_eq_symm hj.2.1))
      (cmp_eq_trans hi.2.2 (cmp_eq_symm hj.2.2))
  cases hm : matchRows n xp yc kx ky with
  | nil => exact Or.inl rfl
  | cons i rest =>
    right
    refine ⟨i, ?_⟩
    cases rest with
    | nil => rfl
    | cons j rest' =>
      rw [hm] at hnd hall
      have : i = j := hall i (by simp) j (by simp)
      subst this
      simp at hnd

theorem listbyG_ne_nil {keys : List Val} (hkl : keys ≠ []) : listbyG keys ≠ [] := by
  intro h
  have := (listbyG_perm keys).length_eq
  rw [h] at this
  simp at this
  exact hkl (List.eq_nil_of_length_eq_zero this.symm)

theorem xyg_ne_nil {n : Nat} (xp : Nat → List Val) (yc : Nat → Val) (hn : n ≠ 0) :
    listbyG (xyKeys n xp yc) ≠ [] := by
  apply listbyG_ne_nil
  intro h; have := congrArg List.length h; simp [xyKeys] at this; exact hn this

/-- the key of an x-group is the x key of some row -/
theorem xg_key_rep {n nx : Nat} (xp : Nat → List Val) (yc : Nat → Val) (hn : n ≠ 0)
    (hxp : ∀ i, (xp i).length = nx) (gx : Grp)
    (hgx : gx ∈ listbyG ((listbyG (xyKeys n xp yc)).map fun g => xPart nx g.1)) :
    ∃ l, l < n ∧ gx.1 = .tuple (xp l) := by
  have hne : ((listbyG (xyKeys n xp yc)).map fun g => xPart nx g.1) ≠ [] := by
    simpa using xyg_ne_nil xp yc hn
  have hm := listbyG_key_mem hne gx hgx
  obtain ⟨g', hg', he⟩ := List.mem_map.1 hm
  obtain ⟨l, hl, _, hrep⟩ := xyg_rep xp yc hn g' hg'
  refine ⟨l, hl, ?_⟩
  rw [← he, hrep, ← hxp l]; exact xPart_snoc _ _

/-- the key of a y-group is the y value of some row -/
theorem ys_key_rep {n nx : Nat} (xp : Nat → List Val) (yc : Nat → Val) (hn : n ≠ 0)
    (hxp : ∀ i, (xp i).length = nx) (gy : Grp)
    (hgy : gy ∈ listbyG (((listbyG (xyKeys n xp yc)).map fun g => tupleGet nx g.1).map
      fun v => Val.tuple [v])) :
    ∃ l, l < n ∧ gy.1 = .tuple [yc l] := by
  have hne : (((listbyG (xyKeys n xp yc)).map fun g => tupleGet nx g.1).map
      fun v => Val.tuple [v]) ≠ [] := by
    simpa using xyg_ne_nil xp yc hn
  have hm := listbyG_key_mem hne gy hgy
  simp only [List.map_map, List.mem_map, Function.comp_def] at hm
  obtain ⟨g', hg', he⟩ := hm
  obtain ⟨l, hl, _, hrep⟩ := xyg_rep xp yc hn g' hg'
  refine ⟨l, hl, ?_⟩
  rw [← he, hrep, ← hxp l, tupleGet_snoc]

/-- **the non-`None` cells of the pivot table, row-major, are the rows with a non-`None` z**
(unique `(x, y)` pairs, `agg = last`): reading the cells `(x-group key, y-group key, cell)` row by
row and dropping the `None` cells gives, for a permutation `idx` of the rows whose z is not `None`,
the list of `(key of the row's x-group, key of the row's y-group, z)` -/
theorem pivot_cells_nonNone (n nx : Nat) (xp : Nat → List Val) (yc : Nat → Val)
    (zs : List Cell) (hn : n ≠ 0) (hxp : ∀ i, (xp i).length = nx)
    (huniq : ∀ i j, i < n → j < n → cmp (.tuple (xp i)) (.tuple (xp j)) = .eq →
      cmp (.tuple [yc i]) (.tuple [yc j]) = .eq → i = j) :
    let xyg := listbyG (xyKeys n xp yc)
    let xg := listbyG (xyg.map fun g => xPart nx g.1)
    let ys := listbyG ((xyg.map fun g => tupleGet nx g.1).map fun v => .tuple [v])
    ∃ idx : List Nat, idx.Perm ((List.range n).filter fun i => zs.getD i .none != .none) ∧
      ((xg.flatMap fun gx => ys.map fun gy =>
          (gx.1, gy.1, pivotCell xyg nx zs .last gx.2 gy.1)).filter fun r => !isNoneV r.2.2) =
      idx.map fun i => (groupKeyOf xg (.tuple (xp i)), groupKeyOf ys (.tuple [yc i]),
        Val.cell (zs.getD i .none)) := by
  intro xyg xg ys
  refine ⟨xg.flatMap fun gx => ys.flatMap fun gy =>
    (matchRows n xp yc gx.1 gy.1).filter fun i => zs.getD i .none != .none, ?_, ?_⟩
  · -- the permutation
    apply List.Perm.symm
    generalize hL : ((List.range n).filter fun i => zs.getD i .none != .none) = L
    have hLn : ∀ a ∈ L, a < n := by
      intro a ha; rw [← hL] at ha; exact List.mem_range.1 (List.mem_filter.1 ha).1
    have h1 : L.Perm (xg.flatMap fun gx => L.filter fun i => cmp (.tuple (xp i)) gx.1 == .eq) := by
      apply perm_flatMap_filter xg (fun gx i => cmp (.tuple (xp i)) gx.1 == .eq)
      intro a ha
      obtain ⟨⟨gx, hgx, hex⟩, _⟩ := pivot_addresses n nx xp yc hn hxp a (hLn a ha)
      exact sortedG_countP (listbyG_sorted _) hgx hex
    refine h1.trans ?_
    apply perm_flatMap_left
    intro gx _
    have h2 : (L.filter fun i => cmp (.tuple (xp i)) gx.1 == .eq).Perm
        (ys.flatMap fun gy => (L.filter fun i => cmp (.tuple (xp i)) gx.1 == .eq).filter
          fun i => cmp (.tuple [yc i]) gy.1 == .eq) := by
      apply perm_flatMap_filter ys (fun gy i => cmp (.tuple [yc i]) gy.1 == .eq)
      intro a ha
      obtain ⟨_, ⟨gy, hgy, hey⟩⟩ := pivot_addresses n nx xp yc hn hxp a (hLn a (List.mem_filter.1 ha).1)
      exact sortedG_countP (listbyG_sorted _) hgy hey
    refine h2.trans (List.Perm.of_eq ?_)
    apply flatMap_congr'
    intro gy _
    rw [← hL]
    simp only [matchRows, List.filter_filter]
    apply List.filter_congr
    intro i _
    cases (cmp (.tuple (xp i)) gx.1 == .eq) <;> cases (cmp (.tuple [yc i]) gy.1 == .eq) <;>
      cases (zs.getD i .none != .none) <;> rfl
  · -- the cells
    rw [List.filter_flatMap, List.map_flatMap]
    apply flatMap_congr'
    intro gx hgx
    rw [filter_map_eq_flatMap, List.map_flatMap]
    apply flatMap_congr'
    intro gy hgy
    have hs : pivotCell xyg nx zs .last gx.2 gy.1 =
        if matchRows n xp yc gx.1 gy.1 = [] then .cell .none
        else Agg.last.apply ((matchRows n xp yc gx.1 gy.1).map fun i => zs.getD i .none) :=
      pivotCell_spec n nx xp yc zs .last hn hxp gx gy hgx
    rcases matchRows_le_one huniq gx.1 gy.1 with h0 | ⟨i, hi⟩
    · rw [hs, h0]; simp [isNoneV]
    · have him : i ∈ matchRows n xp yc gx.1 gy.1 := by rw [hi]; simp
      simp only [matchRows, List.mem_filter, List.mem_range, Bool.and_eq_true, beq_iff_eq] at him
      have hkx : groupKeyOf xg (.tuple (xp i)) = gx.1 := groupKeyOf_eq (listbyG_sorted _) hgx him.2.1
      have hky : groupKeyOf ys (.tuple [yc i]) = gy.1 := groupKeyOf_eq (listbyG_sorted _) hgy him.2.2
      rw [hs, hi]
      by_cases hz : zs.getD i .none = .none
      · rw [List.getD_eq_getElem?_getD] at hz
        simp [Agg.apply, hz, isNoneV]
      · have hz' : isNoneV (.cell (zs.getD i .none)) = false := by
          cases hc : zs.getD i .none <;> simp_all [isNoneV]
        rw [List.getD_eq_getElem?_getD] at hz hz'
        simp [Agg.apply, hz, hz', hkx, hky]

/-! ### the rows of a table as `(x cells, y, z)` triples; `unpivot` of the table `pivot` builds -/

/-- the cell of column `k` in row `r` (`None` outside the table) -/
def VTable.cellAt (u : VTable) (k : String) (r : Nat) : Val :=
  (((u.find? (·.1 == k)).map (·.2)).getD []).getD r (.cell .none)

/-- the rows of `u` as triples: the cells of the `x` columns, the `y` cell, the `z` cell -/
def uRows (u : VTable) (x : List String) (y z : String) : List (List Val × Val × Val) :=
  (List.range u.nrows).map fun r => (x.map fun k => u.cellAt k r, u.cellAt y r, u.cellAt z r)

theorem range_flatMap_of_get {α β} (l : List α) (F : Nat → List β) (G : α → List β)
    (h : ∀ i (hi : i < l.length), F i = G l[i]) : (List.range l.length).flatMap F = l.flatMap G := by
  rw [List.flatMap_def, List.flatMap_def]
  congr 1
  apply List.ext_getElem
  · simp
  · intro i h1 h2
    simp only [List.length_map, List.length_range] at h1
    simp [h i h1]

theorem map_eq_zipIdx_map {α β} (l : List α) (g : α → β) : l.map g = l.zipIdx.map fun kj => g kj.1 := by
  conv => lhs; rw [← List.zipIdx_map_fst 0 l]
  rw [List.map_map]; rfl

theorem keyColsOf_eq (by_ : List String) (gs : List Grp) :
    keyColsOf by_ gs = by_.zipIdx.map fun c => (c.1, gs.map fun g => tupleGet c.2 g.1) := rfl

/-- `unpivot`, closed form (every `x` column present) -/
theorem unpivot_closed (p : VTable) (x : List String) (y z : String)
    (hx : ∀ k ∈ x, (p.find? (·.1 == k)).isSome = true) :
    p.unpivot x y z = .ok (
      (x.map fun k => (k, (List.range p.nrows).flatMap fun i =>
        List.replicate ((p.map (·.1)).filter fun c => !x.contains c).length
          ((((p.find? (·.1 == k)).map (·.2)).getD []).getD i (.cell .none)))) ++
      [(y, (List.range p.nrows).flatMap fun _ =>
          ((p.map (·.1)).filter fun c => !x.contains c).map fun c => Val.cell (.str c)),
       (z, (List.range p.nrows).flatMap fun i =>
          ((p.map (·.1)).filter fun c => !x.contains c).map fun c =>
            (((p.find? (·.1 == c)).map (·.2)).getD []).getD i (.cell .none))]) := by
  simp only [VTable.unpivot]
  rw [mapM_ok_of_forall (g := fun k => (k, (List.range p.nrows).flatMap fun i =>
    List.replicate ((p.map (·.1)).filter fun c => !x.contains c).length
      ((((p.find? (·.1 == k)).map (·.2)).getD []).getD i (.cell .none))))]
  · rfl
  · intro k hk
    have := hx k hk
    cases hf : p.find? (·.1 == k) with
    | none => simp [hf] at this
    | some c => simp

/-- the triples of a table given by three kinds of columns over one list of "row descriptors" -/
theorem uRows_of_maps {α} (x : List String) (y z : String) (pairs : List α)
    (fx : String × Nat → α → Val) (fy fz : α → Val) (hx : x ≠ []) (hyz : (x ++ [y, z]).Nodup) :
    uRows ((x.zipIdx.map fun kj => (kj.1, pairs.map (fx kj))) ++
        [(y, pairs.map fy), (z, pairs.map fz)]) x y z =
      pairs.map fun pq => (x.zipIdx.map fun kj => fx kj pq, fy pq, fz pq) := by
  generalize hu : ((x.zipIdx.map fun kj => (kj.1, pairs.map (fx kj))) ++
        [(y, pairs.map fy), (z, pairs.map fz)] : VTable) = u
  have hnd := List.nodup_append.1 hyz
  have hxnd : (x.zipIdx.map (·.1)).Nodup := by rw [List.zipIdx_map_fst]; exact hnd.1
  have hyx : ∀ c ∈ (x.zipIdx.map fun kj => (kj.1, pairs.map (fx kj))), c.1 ≠ y := by
    intro c hc
    obtain ⟨kj, hkj, rfl⟩ := List.mem_map.1 hc
    have : kj.1 ∈ x := by
      have := List.mem_map_of_mem (f := Prod.fst) hkj
      rwa [List.zipIdx_map_fst] at this
    exact hnd.2.2 _ this y (by simp)
  have hzx : ∀ c ∈ (x.zipIdx.map fun kj => (kj.1, pairs.map (fx kj))), c.1 ≠ z := by
    intro c hc
    obtain ⟨kj, hkj, rfl⟩ := List.mem_map.1 hc
    have : kj.1 ∈ x := by
      have := List.mem_map_of_mem (f := Prod.fst) hkj
      rwa [List.zipIdx_map_fst] at this
    exact hnd.2.2 _ this z (by simp)
  have hyz' : y ≠ z := by
    have := hnd.2.1; simp at this; exact this
  have hnr : VTable.nrows u = pairs.length := by
    rw [← hu]
    cases x with
    | nil => exact absurd rfl hx
    | cons k0 x' => simp [VTable.nrows, List.zipIdx_cons]
  have hcx : ∀ kj ∈ x.zipIdx, ∀ r, VTable.cellAt u kj.1 r = (pairs.map (fx kj)).getD r (.cell .none) := by
    intro kj hkj r
    have := find_named (·.1) (fun kj => pairs.map (fx kj)) x.zipIdx hxnd kj hkj
    simp only [VTable.cellAt, ← hu, find_append_left _ _ _ _ this, Option.map_some, Option.getD_some]
  have hcy : ∀ r, VTable.cellAt u y r = (pairs.map fy).getD r (.cell .none) := by
    intro r
    simp only [VTable.cellAt, ← hu, find_append_right _ _ _ hyx]
    simp
  have hcz : ∀ r, VTable.cellAt u z r = (pairs.map fz).getD r (.cell .none) := by
    intro r
    simp only [VTable.cellAt, ← hu, find_append_right _ _ _ hzx]
    have : (y == z) = false := by simpa using hyz'
    simp [this]
  unfold uRows
  rw [hnr]
  apply List.ext_getElem
  · simp
  · intro r h1 h2
    simp only [List.length_map, List.length_range] at h1
    simp only [List.getElem_map, List.getElem_range, hcy, hcz]
    rw [map_eq_zipIdx_map x]
    congr 1
    · apply List.map_congr_left
      intro kj hkj
      rw [hcx kj hkj]
      simp [List.getD_eq_getElem?_getD, h1]
    · simp [List.getD_eq_getElem?_getD, h1]

/-- **`unpivot` of a pivot-shaped table**: key columns `x` over the x-groups `xg`, one column
`lab gy` per y-group holding the cells `C gx gy`.  The result lists, row-major, one row
`(x cells of gx, label of gy, C gx gy)` per (x-group, y-group). -/
theorem unpivot_pivotTable (x : List String) (y z : String) (xg ys : List Grp) (lab : Grp → String)
    (C : Grp → Grp → Val) (hx : x ≠ []) (hnd : (x ++ ys.map lab).Nodup) (hyz : (x ++ [y, z]).Nodup) :
    ∃ u, VTable.unpivot (keyColsOf x xg ++ ys.map fun gy => (lab gy, xg.map fun gx => C gx gy)) x y z
        = .ok u ∧
      uRows u x y z = xg.flatMap fun gx => ys.map fun gy =>
        (x.zipIdx.map fun kj => tupleGet kj.2 gx.1, Val.cell (.str (lab gy)), C gx gy) := by
  generalize hP : (keyColsOf x xg ++ ys.map fun gy => (lab gy, xg.map fun gx => C gx gy)) = P
  have hn := List.nodup_append.1 hnd
  have hxnd : (x.zipIdx.map (·.1)).Nodup := by rw [List.zipIdx_map_fst]; exact hn.1
  have hmemx : ∀ kj ∈ x.zipIdx, kj.1 ∈ x := by
    intro kj hkj
    have := List.mem_map_of_mem (f := Prod.fst) hkj
    rwa [List.zipIdx_map_fst] at this
  have hnames : List.map (·.1) P = x ++ ys.map lab := by
    rw [← hP, keyColsOf_eq]
    simp only [List.map_append, List.map_map, Function.comp_def]
    congr 1
    exact List.zipIdx_map_fst 0 x
  have hyc : ((List.map (·.1) P).filter fun c => !x.contains c) = ys.map lab := by
    rw [hnames, List.filter_append]
    have h1 : (x.filter fun c => !x.contains c) = [] := by
      rw [List.filter_eq_nil_iff]; intro a ha; simp [ha]
    have h2 : ((ys.map lab).filter fun c => !x.contains c) = ys.map lab := by
      rw [List.filter_eq_self]
      intro b hb
      have : b ∉ x := fun hbx => hn.2.2 b hbx b hb rfl
      simp [this]
    rw [h1, h2]; rfl
  have hnr : VTable.nrows P = xg.length := by
    rw [← hP, keyColsOf_eq]
    cases x with
    | nil => exact absurd rfl hx
    | cons k0 x' => simp [VTable.nrows, List.zipIdx_cons]
  have hfx : ∀ kj ∈ x.zipIdx,
      P.find? (·.1 == kj.1) = some (kj.1, xg.map fun g => tupleGet kj.2 g.1) := by
    intro kj hkj
    rw [← hP, keyColsOf_eq]
    exact find_append_left _ _ _ _
      (find_named (·.1) (fun kj => xg.map fun g => tupleGet kj.2 g.1) x.zipIdx hxnd kj hkj)
  have hfy : ∀ gy ∈ ys, P.find? (·.1 == lab gy) = some (lab gy, xg.map fun gx => C gx gy) := by
    intro gy hgy
    rw [← hP, keyColsOf_eq, find_append_right]
    · exact find_named lab (fun gy => xg.map fun gx => C gx gy) ys hn.2.1 gy hgy
    · intro c hc
      obtain ⟨kj, hkj, rfl⟩ := List.mem_map.1 hc
      exact hn.2.2 _ (hmemx kj hkj) _ (List.mem_map_of_mem hgy)
  have hpx : ∀ k ∈ x, (P.find? (·.1 == k)).isSome = true := by
    intro k hk
    have hk' : k ∈ x.zipIdx.map (·.1) := by rw [List.zipIdx_map_fst]; exact hk
    obtain ⟨kj, hkj, rfl⟩ := List.mem_map.1 hk'
    simp [hfx kj hkj]
  refine ⟨_, unpivot_closed P x y z hpx, ?_⟩
  rw [hyc, hnr]
  have hX : (x.map fun k => (k, (List.range xg.length).flatMap fun i =>
        List.replicate (ys.map lab).length
          ((((P.find? (·.1 == k)).map (·.2)).getD []).getD i (.cell .none)))) =
      x.zipIdx.map fun kj => (kj.1, (xg.flatMap fun gx => ys.map fun gy => (gx, gy)).map
        fun pq => tupleGet kj.2 pq.1.1) := by
    rw [map_eq_zipIdx_map x]
    apply List.map_congr_left
    intro kj hkj
    congr 1
    rw [hfx kj hkj, List.map_flatMap]
    apply range_flatMap_of_get
    intro i hi
    simp [List.getD_eq_getElem?_getD, hi, Function.comp_def, List.map_const']
  have hY : ((List.range xg.length).flatMap fun _ => (ys.map lab).map fun c => Val.cell (.str c)) =
      (xg.flatMap fun gx => ys.map fun gy => (gx, gy)).map fun pq => Val.cell (.str (lab pq.2)) := by
    rw [List.map_flatMap]
    apply range_flatMap_of_get
    intro i hi
    simp [List.map_map, Function.comp_def]
  have hZ : ((List.range xg.length).flatMap fun i => (ys.map lab).map fun c =>
        (((P.find? (·.1 == c)).map (·.2)).getD []).getD i (.cell .none)) =
      (xg.flatMap fun gx => ys.map fun gy => (gx, gy)).map fun pq => C pq.1 pq.2 := by
    rw [List.map_flatMap]
    apply range_flatMap_of_get
    intro i hi
    rw [List.map_map, List.map_map]
    apply List.map_congr_left
    intro gy hgy
    simp [hfy gy hgy, List.getD_eq_getElem?_getD, hi]
  rw [hX, hY, hZ, uRows_of_maps x y z _ _ _ _ hx hyz, List.map_flatMap]
  apply flatMap_congr'
  intro gx _
  rw [List.map_map]
  rfl

/-! ### the shape of a successful `pivot` -/

theorem optMapM_inv {α β} (F : α → Option β) (d : β) : ∀ (l : List α) (r : List β),
    l.mapM F = some r → r = l.map (fun a => (F a).getD d) ∧ ∀ a ∈ l, (F a).isSome = true
  | [], r, h => by
    simp at h; subst h; simp
  | a :: l, r, h => by
    rw [List.mapM_cons] at h
    cases hF : F a with
    | none => simp [hF] at h
    | some b =>
      cases hr : l.mapM F with
      | none => simp [hF, hr] at h
      | some bs =>
        simp [hF, hr] at h
        obtain ⟨h1, h2⟩ := optMapM_inv F d l bs hr
        subst h
        constructor
        · simp [hF, ← h1]
        · intro a' ha'
          rcases List.mem_cons.1 ha' with rfl | ha''
          · simp [hF]
          · exact h2 a' ha''

/-- the column label of a y-group -/
def labOf (gy : Grp) : String := (yLabel (tupleGet 0 gy.1)).getD ""

/-- a successful `pivot`: every y-group has a label, the column names are distinct, and the table -/
theorem pivot_ok_shape (t : Table) (x : List String) (y z : String) (agg : Agg) (zs : List Cell)
    (p : VTable) (hn : t.nrows ≠ 0) (hx : x ≠ [])
    (hcols : ∀ k ∈ x ++ [y], (t.col? k).isSome = true) (hz : t.col? z = some zs)
    (hp : t.pivot x y z agg = some (.ok p)) :
    let xyg := listbyG (xyKeys t.nrows (xCells t x) (yCell t y))
    let xg := listbyG (xyg.map fun g => xPart x.length g.1)
    let ys := listbyG ((xyg.map fun g => tupleGet x.length g.1).map fun v => .tuple [v])
    (∀ gy ∈ ys, (yLabel (tupleGet 0 gy.1)).isSome = true) ∧ (x ++ ys.map labOf).Nodup ∧
    p = keyColsOf x xg ++ ys.map fun gy =>
      (labOf gy, xg.map fun gx => pivotCell xyg x.length zs agg gx.2 gy.1) := by
  intro xyg xg ys
  have hx' : x.isEmpty = false := by cases x <;> simp_all
  have hk := keysOf_xy t x y hcols
  simp only [Table.pivot, hn, hx', or_self, Bool.false_eq_true, if_false, hk, hz] at hp
  cases hm : ys.mapM (fun g => yLabel (tupleGet 0 g.1)) with
  | none =>
    simp only [xyg, ys] at hm
    rw [hm] at hp
    cases hp
  | some labels =>
    obtain ⟨hl, hsome⟩ := optMapM_inv _ "" ys labels hm
    have hl' : labels = ys.map labOf := hl
    simp only [xyg, ys] at hm
    rw [hm] at hp
    simp only at hp
    split at hp
    · cases hp
    · split at hp
      · cases hp
      · rename_i _ hnd
        have hnd' : (x ++ labels).Nodup := by simpa using hnd
        refine ⟨hsome, by rw [← hl']; exact hnd', ?_⟩
        injection hp with hp
        injection hp with hp
        rw [← hp]
        congr 1
        rw [hl', ← List.map_prod_right_eq_zip, List.map_map]
        rfl

/-! ### labels -/

theorem cmp_cell1 (a b : Cell) : cmp (.tuple [.cell a]) (.tuple [.cell b]) = Cell.cmp a b := by
  simp [cmp, Val.norm, normList, cmpN, cmpArr]

/-- an int beside a float: `cmp`-equal values (`1`, `1.0`) of different types, whose column keys differ (`'1'`, `1.0`) -/
def mixedNum : Val → Val → Bool
  | .cell (.int _), .cell (.flt _) => true
  | .cell (.flt _), .cell (.int _) => true
  | _, _ => false

/-- `cmp`-equal y values that both have a label have the same label — unless one is an int and the other a float -/
theorem yLabel_congr {a b : Val} {s s' : String} (h : cmp (.tuple [a]) (.tuple [b]) = .eq)
    (hk : mixedNum a b = false) (ha : yLabel a = some s) (hb : yLabel b = some s') : s = s' := by
  cases a with
  | cell ca =>
    cases b with
    | cell cb =>
      rw [cmp_cell1] at h
      cases ca <;> cases cb <;>
        simp_all [yLabel, keyName, mixedNum, Cell.cmp, Cell.cmpSame, Cell.rank, Cell.num, Cell.skey]
      all_goals first
        | (rename_i n1 n2; have : n1 = n2 := by omega
           subst this; exact ha.symm.trans hb)
        | skip
    | _ => simp [yLabel] at hb
  | _ => simp [yLabel] at ha

theorem eq_of_nodup_map {α β} {f : α → β} : ∀ {l : List α}, (l.map f).Nodup →
    ∀ a ∈ l, ∀ b ∈ l, f a = f b → a = b
  | [], _, a, ha, _, _, _ => by cases ha
  | c :: l, h, a, ha, b, hb, hab => by
    simp only [List.map_cons, List.nodup_cons] at h
    rcases List.mem_cons.1 ha with rfl | ha' <;> rcases List.mem_cons.1 hb with rfl | hb'
    · rfl
    · exact absurd (hab ▸ List.mem_map_of_mem hb') h.1
    · exact absurd (hab ▸ List.mem_map_of_mem ha') h.1
    · exact eq_of_nodup_map h.2 a ha' b hb' hab

theorem zipIdx_tupleGet {α} (x : List α) (vs : List Val) (h : vs.length = x.length) :
    (x.zipIdx.map fun kj => tupleGet kj.2 (.tuple vs)) = vs := by
  apply List.ext_getElem
  · simp [h]
  · intro i h1 h2
    simp [tupleGet, List.getD_eq_getElem?_getD, h2]

/-- the rows of the original table as `(x cells, y cell, z cell)` triples -/
def tRows (t : Table) (x : List String) (y : String) (zs : List Cell) : List (List Val × Val × Val) :=
  (List.range t.nrows).map fun i => (xCells t x i, yCell t y i, Val.cell (zs.getD i .none))

theorem isNoneV_cell (c : Cell) : (!isNoneV (.cell c)) = (c != .none) := by
  cases c <;> rfl

theorem tRows_filter (t : Table) (x : List String) (y : String) (zs : List Cell) :
    (tRows t x y zs).filter (fun r => !isNoneV r.2.2) =
      ((List.range t.nrows).filter fun i => zs.getD i .none != .none).map fun i =>
        (xCells t x i, yCell t y i, Val.cell (zs.getD i .none)) := by
  rw [tRows, List.filter_map]
  congr 2
  funext i
  exact isNoneV_cell _

end Pyg
