/-
  Helper lemmas for C05 (Calendar), second file: the year-month key of `adjust 'm'` (range of `Civil.month`), and
  `adjust` at and beyond the ends of the calendar's range (the second pair of while-loops, which only leaves weekend days).
-/
import PygModel.Calendar
import PygProofs.Lemmas.CalendarLemmas

namespace Pyg.Calendar
open Pyg
open Pyg.Civil (wd)

/-! ### `Civil.month` is a month number, `ymKey` identifies (year, month) -/

/-- day of the (March-based) year inside a 400-year era: 0..365 -/
theorem doy_range (doe : Int) (h0 : 0 ≤ doe) (h1 : doe < 146097) :
    let yoe := (doe - doe / 1460 + doe / 36524 - doe / 146096) / 365
    let doy := doe - (365 * yoe + yoe / 4 - yoe / 100)
    0 ≤ doy ∧ doy ≤ 365 := by
  intro yoe doy
  have hf : doe / 36524 = 0 ∨ doe / 36524 = 1 ∨ doe / 36524 = 2 ∨ doe / 36524 = 3 ∨ doe / 36524 = 4 := by omega
  have hg : doe / 146096 = 0 ∨ doe / 146096 = 1 := by omega
  have hd : yoe / 100 = 0 ∨ yoe / 100 = 1 ∨ yoe / 100 = 2 ∨ yoe / 100 = 3 ∨ yoe / 100 = 4 := by omega
  rcases hf with hf | hf | hf | hf | hf <;> rcases hg with hg | hg <;> rcases hd with hd | hd | hd | hd | hd <;> omega

/-- `Civil.month` of any day number is a month number 1..12 -/
theorem month_range (n : Int) : 1 ≤ Civil.month n ∧ Civil.month n ≤ 12 := by
  have h := doy_range ((n + 305) % 146097) (by omega) (by omega)
  unfold Civil.month Civil.ymd
  simp only [] at h ⊢
  generalize (n + 305) % 146097 - (365 * (((n + 305) % 146097 - (n + 305) % 146097 / 1460 + (n + 305) % 146097 / 36524 - (n + 305) % 146097 / 146096) / 365) + (((n + 305) % 146097 - (n + 305) % 146097 / 1460 + (n + 305) % 146097 / 36524 - (n + 305) % 146097 / 146096) / 365) / 4 - (((n + 305) % 146097 - (n + 305) % 146097 / 1460 + (n + 305) % 146097 / 36524 - (n + 305) % 146097 / 146096) / 365) / 100) = doy at h ⊢
  split <;> omega

/-- the key `12 * year + month` is injective on (year, month) -/
theorem ymKey_eq_iff' (a b : Int) :
    ymKey a = ymKey b ↔ Civil.year a = Civil.year b ∧ Civil.month a = Civil.month b := by
  have ha := month_range a
  have hb := month_range b
  unfold ymKey
  constructor
  · intro h; omega
  · intro ⟨h1, h2⟩; rw [h1, h2]

/-! ### a weekend that leaves at least one weekday -/

/-- some weekday is not a weekend day (otherwise the real `adjust` never returns; the driver refuses such calendars) -/
def NonDeg (c : Cal) : Prop := ∃ d : Int, 0 ≤ d ∧ d < 7 ∧ d ∉ c.weekend

theorem wd_hit_up (r d : Int) (h0 : 0 ≤ d) (h7 : d < 7) : ∃ b, r ≤ b ∧ b < r + 7 ∧ wd b = d := by
  refine ⟨r + (d - (r + 6) % 7) % 7, by omega, by omega, ?_⟩
  unfold wd; omega

theorem wd_hit_down (r d : Int) (h0 : 0 ≤ d) (h7 : d < 7) : ∃ b, b ≤ r ∧ r < b + 7 ∧ wd b = d := by
  refine ⟨r - ((r + 6) % 7 - d) % 7, by omega, by omega, ?_⟩
  unfold wd; omega

/-- beyond `t1` the forward adjustment stops on the first day that is not a weekend day: the result is inside the range
or not a weekend day, and every day it stepped over beyond `t1` is a weekend day (holiday or not - holidays are not
consulted there) -/
theorem adjF_beyond (c : Cal) (hnd : NonDeg c) (t : Int) :
    (c.adjF t ≤ c.t1 ∨ wd (c.adjF t) ∉ c.weekend) ∧
    ∀ s, t ≤ s → c.t1 < s → s < c.adjF t → wd s ∈ c.weekend := by
  unfold Cal.adjF
  generalize hc1 : (fun t => c.isHol t && decide (t ≤ c.t1)) = cond1
  generalize hc2 : (fun t => decide (t > c.t1) && c.weekend.contains (wd t)) = cond2
  generalize hk : (c.t1 + 1 - t).toNat + 1 = k
  generalize hr1 : loopUp cond1 k t = r1
  have s1 := loopUp_skipped cond1 k t
  have s2 := loopUp_skipped cond2 7 r1
  obtain ⟨d, d0, d7, dw⟩ := hnd
  obtain ⟨b, b1, b2, b3⟩ := wd_hit_up r1 d d0 d7
  have hb : cond2 b = false := by
    rw [← hc2]; simp only [Bool.and_eq_false_imp, decide_eq_true_eq]
    intro _; rw [b3]; simpa using dw
  have st := loopUp_stops cond2 7 r1 b b1 (by omega) hb
  generalize hg : loopUp cond2 7 r1 = g at *
  refine ⟨?_, ?_⟩
  · have := st.2
    rw [← hc2] at this
    simp only [Bool.and_eq_false_imp, decide_eq_true_eq] at this
    by_cases hle : g ≤ c.t1
    · exact Or.inl hle
    · right
      have := this (by omega)
      simpa using this
  · intro s hs1 hs2 hs3
    by_cases hlt : s < r1
    · have := s1 s hs1 (by rw [hr1]; exact hlt)
      rw [← hc1] at this
      simp at this
      omega
    · have := s2 s (by omega) hs3
      rw [← hc2] at this
      simp at this
      exact this.2

theorem adjP_beyond (c : Cal) (hnd : NonDeg c) (t : Int) :
    (c.t0 ≤ c.adjP t ∨ wd (c.adjP t) ∉ c.weekend) ∧
    ∀ s, s ≤ t → s < c.t0 → c.adjP t < s → wd s ∈ c.weekend := by
  unfold Cal.adjP
  generalize hc1 : (fun t => c.isHol t && decide (t ≥ c.t0)) = cond1
  generalize hc2 : (fun t => decide (t < c.t0) && c.weekend.contains (wd t)) = cond2
  generalize hk : (t + 1 - c.t0).toNat + 1 = k
  generalize hr1 : loopDown cond1 k t = r1
  have s1 := loopDown_skipped cond1 k t
  have s2 := loopDown_skipped cond2 7 r1
  obtain ⟨d, d0, d7, dw⟩ := hnd
  obtain ⟨b, b1, b2, b3⟩ := wd_hit_down r1 d d0 d7
  have hb : cond2 b = false := by
    rw [← hc2]; simp only [Bool.and_eq_false_imp, decide_eq_true_eq]
    intro _; rw [b3]; simpa using dw
  have st := loopDown_stops cond2 7 r1 b b1 (by omega) hb
  generalize hg : loopDown cond2 7 r1 = g at *
  refine ⟨?_, ?_⟩
  · have := st.2
    rw [← hc2] at this
    simp only [Bool.and_eq_false_imp, decide_eq_true_eq] at this
    by_cases hle : c.t0 ≤ g
    · exact Or.inl hle
    · right
      have := this (by omega)
      simpa using this
  · intro s hs1 hs2 hs3
    by_cases hlt : r1 < s
    · have := s1 s hs1 (by rw [hr1]; exact hlt)
      rw [← hc1] at this
      simp at this
      omega
    · have := s2 s (by omega) hs3
      rw [← hc2] at this
      simp at this
      exact this.2

end Pyg.Calendar
