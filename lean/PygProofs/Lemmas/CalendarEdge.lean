/-
  Helper lemmas for C05 (Calendar), second file: the year-month key of `adjust 'm'` (range of `Civil.month`), and
  `adjust` at and beyond the ends of the calendar's range (the second pair of while-loops, which only leaves weekend days).
-/
import PygModel.Calendar
import PygProofs.Lemmas.CalendarLemmas

namespace Pyg.Calendar
open Pyg
open Pyg.Civil (wd)

/-! ### `Civil.month` is a month number, `ymKey` identifies (year, month) -/

/-- day of the (March-based) year inside a 400-year era: 0..365 -/
theorem doy_range (doe : Int) (h0 : 0 ≤ doe) (h1 : doe < 146097) :
    let yoe := (doe - doe / 1460 + doe / 36524 - doe / 146096) / 365
    let doy := doe - (365 * yoe + yoe / 4 - yoe / 100)
    0 ≤ doy ∧ doy ≤ 365 := by
  intro yoe doy
  have hf : doe / 36524 = 0 ∨ doe / 36524 = 1 ∨ doe / 36524 = 2 ∨ doe / 36524 = 3 ∨ doe / 36524 = 4 := by omega
  have hg : doe / 146096 = 0 ∨ doe / 146096 = 1 := by omega
  have hd : yoe / 100 = 0 ∨ yoe / 100 = 1 ∨ yoe / 100 = 2 ∨ yoe / 100 = 3 ∨ yoe / 100 = 4 := by omega
  rcases hf with hf | hf | hf | hf | hf <;> rcases hg with hg | hg <;> rcases hd with hd | hd | hd | hd | hd <;> omega

/-- `Civil.month` of any day number is a month number 1..12 -/
theorem month_range (n : Int) : 1 ≤ Civil.month n ∧ Civil.month n ≤ 12 := by
  have h := doy_range ((n + 305) % 146097) (by omega) (by omega)
  unfold Civil.month Civil.ymd
  simp only [] at h ⊢
  generalize (n + 305) % 146097 - (365 * (((n + 305) % 146097 - (n + 305) % 146097 / 1460 + (n + 305) % 146097 / 36524 - (n + 305) % 146097 / 146096) / 365) + (((n + 305) % 146097 - (n + 305) % 146097 / 1460 + (n + 305) % 146097 / 36524 - (n + 305) % 146097 / 146096) / 365) / 4 - (((n + 305) % 146097 - (n + 305) % 146097 / 1460 + (n + 305) % 146097 / 36524 - (n + 305) % 146097 / 146096) / 365) / 100) = doy at h ⊢
  split <;> omega

/-- the key `12 * year + month` is injective on (year, month) -/
theorem ymKey_eq_iff' (a b : Int) :
    ymKey a = ymKey b ↔ Civil.year a = Civil.year b ∧ Civil.month a = Civil.month b := by
  have ha := month_range a
  have hb := month_range b
  unfold ymKey
  constructor
  · intro h; omega
  · intro ⟨h1, h2⟩; rw [h1, h2]

/-! ### a weekend that leaves at least one weekday -/

/-- some weekday is not a weekend day (otherwise the real `adjust` never returns; the driver refuses such calendars) -/
def NonDeg (c : Cal) : Prop := ∃ d : Int, 0 ≤ d ∧ d < 7 ∧ d ∉ c.weekend

theorem wd_hit_up (r d : Int) (h0 : 0 ≤ d) (h7 : d < 7) : ∃ b, r ≤ b ∧ b < r + 7 ∧ wd b = d := by
  refine ⟨r + (d - (r + 6) % 7) % 7, by omega, by omega, ?_⟩
  unfold wd; omega

theorem wd_hit_down (r d : Int) (h0 : 0 ≤ d) (h7 : d < 7) : ∃ b, b ≤ r ∧ r < b + 7 ∧ wd b = d := by
  refine ⟨r - ((r + 6) % 7 - d) % 7, by omega, by omega, ?_⟩
  unfold wd; omega

/-- beyond `t1` the forward adjustment stops on the first day that is not a weekend day: the result is inside the range
or not a weekend day, and every day it stepped over beyond `t1` is a weekend day (holiday or not - holidays are not
consulted there) -/
theorem adjF_beyond (c : Cal) (hnd : NonDeg c) (t : Int) :
    (c.adjF t ≤ c.t1 ∨ wd (c.adjF t) ∉ c.weekend) ∧
    ∀ s, t ≤ s → c.t1 < s → s < c.adjF t → wd s ∈ c.weekend := by
  unfold Cal.adjF
  generalize hc1 : (fun t => c.isHol t && decide (t ≤ c.t1)) = cond1
  generalize hc2 : (fun t => decide (t > c.t1) && c.weekend.contains (wd t)) = cond2
  generalize hk : (c.t1 + 1 - t).toNat + 1 = k
  generalize hr1 : loopUp cond1 k t = r1
  have s1 := loopUp_skipped cond1 k t
  have s2 := loopUp_skipped cond2 7 r1
  obtain ⟨d, d0, d7, dw⟩ := hnd
  obtain ⟨b, b1, b2, b3⟩ := wd_hit_up r1 d d0 d7
  have hb : cond2 b = false := by
    rw [← hc2]; simp only [Bool.and_eq_false_imp, decide_eq_true_eq]
    intro _; rw [b3]; simpa using dw
  have st := loopUp_stops cond2 7 r1 b b1 (by omega) hb
  generalize hg : loopUp cond2 7 r1 = g at *
  refine ⟨?_, ?_⟩
  · have := st.2
    rw [← hc2] at this
    simp only [Bool.and_eq_false_imp, decide_eq_true_eq] at this
    by_cases hle : g ≤ c.t1
    · exact Or.inl hle
    · right
      have := this (by omega)
      simpa using this
  · intro s hs1 hs2 hs3
    by_cases hlt : s < r1
    · have := s1 s hs1 (by rw [hr1]; exact hlt)
      rw [← hc1] at this
      simp at this
      omega
    · have := s2 s (by omega) hs3
      rw [← hc2] at this
      simp at this
      exact this.2

theorem adjP_beyond (c : Cal) (hnd : NonDeg c) (t : Int) :
    (c.t0 ≤ c.adjP t ∨ wd (c.adjP t) ∉ c.weekend) ∧
    ∀ s, s ≤ t → s < c.t0 → c.adjP t < s → wd s ∈ c.weekend := by
  unfold Cal.adjP
  generalize hc1 : (fun t => c.isHol t && decide (t ≥ c.t0)) = cond1
  generalize hc2 : (fun t => decide (t < c.t0) && c.weekend.contains (wd t)) = cond2
  generalize hk : (t + 1 - c.t0).toNat + 1 = k
  generalize hr1 : loopDown cond1 k t = r1
  have s1 := loopDown_skipped cond1 k t
  have s2 := loopDown_skipped cond2 7 r1
  obtain ⟨d, d0, d7, dw⟩ := hnd
  obtain ⟨b, b1, b2, b3⟩ := wd_hit_down r1 d d0 d7
  have hb : cond2 b = false := by
    rw [← hc2]; simp only [Bool.and_eq_false_imp, decide_eq_true_eq]
    intro _; rw [b3]; simpa using dw
  have st := loopDown_stops cond2 7 r1 b b1 (by omega) hb
  generalize hg : loopDown cond2 7 r1 = g at *
  refine ⟨?_, ?_⟩
  · have := st.2
    rw [← hc2] at this
    simp only [Bool.and_eq_false_imp, decide_eq_true_eq] at this
    by_cases hle : c.t0 ≤ g
    · exact Or.inl hle
    · right
      have := this (by omega)
      simpa using this
  · intro s hs1 hs2 hs3
    by_cases hlt : r1 < s
    · have := s1 s hs1 (by rw [hr1]; exact hlt)
      rw [← hc1] at this
      simp at this
      omega
    · have := s2 s (by omega) hs3
      rw [← hc2] at this
      simp at this
      exact this.2

/-! ### `Calendar.drange(.., 'kb')` for any k -/

theorem mapM_ok_get (f : Int → Res Int) : ∀ (l r : List Int), l.mapM f = .ok r →
    r.length = l.length ∧ ∀ (i : Nat) (x : Int), l[i]? = some x → ∃ v, f x = .ok v ∧ r[i]? = some v
  | [], r, h => by
    simp [pure, Except.pure] at h; subst h; simp
  | a :: l, r, h => by
    rw [List.mapM_cons] at h
    cases hfa : f a with
    | error e => rw [hfa] at h; cases h
    | ok b =>
      rw [hfa] at h
      cases hl : l.mapM f with
      | error e => rw [hl] at h; cases h
      | ok bs =>
        rw [hl] at h
        have : r = b :: bs := by cases h; rfl
        subst this
        have ih := mapM_ok_get f l bs hl
        refine ⟨by simp [ih.1], ?_⟩
        intro i x hx
        cases i with
        | zero => simp at hx; subst hx; exact ⟨b, hfa, rfl⟩
        | succ i =>
          simp at hx
          obtain ⟨v, h1, h2⟩ := ih.2 i x hx
          exact ⟨v, h1, by simpa using h2⟩

theorem idxIn_getElem? (a : Int) : ∀ (l : List Int) (i : Nat), idxIn a l = some i → l[i]? = some a
  | [], i, h => by simp [idxIn] at h
  | x :: xs, i, h => by
    unfold idxIn at h
    split at h
    · next hx => simp at h; subst h; simp [hx]
    · cases hr : idxIn a xs with
      | none => rw [hr] at h; simp at h
      | some j =>
        rw [hr] at h; simp at h; subst h
        simpa using idxIn_getElem? a xs j hr

theorem clockOfT_getElem? (tbl : List Int) (a : Int) (i : Nat) (h : clockOfT tbl a = .ok i) : tbl[i]? = some a := by
  unfold clockOfT at h
  split at h
  · next j hj => cases h; exact idxIn_getElem? a tbl _ hj
  · cases h

theorem atIdxT_ok (tbl : List Int) (j v : Int) (h : atIdxT tbl j = .ok v) : 0 ≤ j ∧ tbl[j.toNat]? = some v := by
  unfold atIdxT at h
  split at h
  · cases h
  · split at h
    · next r hr => cases h; exact ⟨by omega, hr⟩
    · cases h

/-- number of elements of python `range(a, stop, step)` -/
def pyRangeLen (a stop step : Int) : Nat :=
  (if step > 0 then (stop - a + step - 1) / step else (a - stop + (-step) - 1) / (-step)).toNat

theorem pyRange_getElem? (a stop step : Int) (i : Nat) (h : i < pyRangeLen a stop step) :
    (pyRange a stop step)[i]? = some (a + (i : Int) * step) := by
  unfold pyRange
  unfold pyRangeLen at h
  simp only [List.getElem?_map]
  rw [List.getElem?_range h]
  rfl

theorem pyRange_length (a stop step : Int) : (pyRange a stop step).length = pyRangeLen a stop step := by
  unfold pyRange pyRangeLen; simp


/-- `Calendar.drange(x, y, 'kb')` for any `k ≠ 0`, against the table: the result has python's `range(i0, i1 + k, k)`
length and its `i`-th entry is the table entry at position `i0 + k*i` (`i0`, `i1` the positions of the adjusted endpoints) -/
theorem drangeB_spec (c : Cal) (x y k : Int) (lk : List Int) (h : c.drangeB x y k = .ok lk) :
    ∃ i0 i1 : Nat, clockOfT c.bdays (c.adjust c.adj x) = .ok i0 ∧ clockOfT c.bdays (c.adjust c.adj y) = .ok i1 ∧
      c.bdays[i0]? = some (c.adjust c.adj x) ∧ c.bdays[i1]? = some (c.adjust c.adj y) ∧ k ≠ 0 ∧
      lk.length = pyRangeLen i0 (i1 + k) k ∧
      ∀ i : Nat, i < lk.length → 0 ≤ (i0 : Int) + i * k ∧ lk[i]? = c.bdays[((i0 : Int) + i * k).toNat]? := by
  unfold Cal.drangeB Cal.drangeBT at h
  cases h0 : clockOfT c.bdays (c.adjust c.adj x) with
  | error e => rw [h0] at h; cases h
  | ok i0 =>
    rw [h0] at h
    cases h1 : clockOfT c.bdays (c.adjust c.adj y) with
    | error e => rw [h1] at h; cases h
    | ok i1 =>
      rw [h1] at h
      simp only [bind, Except.bind] at h
      by_cases hk : k = 0
      · simp [hk] at h
      · simp only [hk, if_false] at h
        have hm := mapM_ok_get (atIdxT c.bdays) _ lk h
        rw [pyRange_length] at hm
        refine ⟨i0, i1, rfl, rfl, clockOfT_getElem? _ _ _ h0, clockOfT_getElem? _ _ _ h1, hk, hm.1, ?_⟩
        intro i hi
        rw [hm.1] at hi
        obtain ⟨v, hv, hr⟩ := hm.2 i _ (pyRange_getElem? _ _ _ i hi)
        have := atIdxT_ok _ _ _ hv
        exact ⟨this.1, by rw [hr, this.2]⟩

end Pyg.Calendar
