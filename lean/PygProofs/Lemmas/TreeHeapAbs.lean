/-
  helper lemmas for C15 on the heap model, part 2: abstraction.  `Own sep H v r fp`: in heap `H` the
  reference `r` represents the pure tree `v`, the dict nodes used being `fp` (the footprint); with
  `sep = true` the representation is tree-shaped (no node is used twice: what `_tree_copy` produces and
  `_tree_setitem` maintains), with `sep = false` sharing between branches is allowed (the operands).
-/
import PygModel.TreeHeap
import PygProofs.Lemmas.TreeHeapLemmas

namespace Pyg.TreeHeap
open Pyg Pyg.DA Pyg.Tree

mutual
  def Own (sep : Bool) (H : Heap) : Val → Ref → List Nat → Prop
    | .dict kvs, r, fp => ∃ a nd fps, r = .ptr a ∧ H[a]? = some nd ∧ fp = a :: fps ∧
        (sep = true → a ∉ fps) ∧ OwnKVs sep H kvs nd fps
    | .cell c, r, fp => r = .val (.cell c) ∧ fp = []
    | .list c, r, fp => r = .val (.list c) ∧ fp = []
    | .tuple c, r, fp => r = .val (.tuple c) ∧ fp = []
  def OwnKVs (sep : Bool) (H : Heap) : List (String × Val) → Node → List Nat → Prop
    | [], nd, fp => nd = [] ∧ fp = []
    | (k, v) :: kvs, nd, fp => ∃ r nd' fp1 fp2, nd = (k, r) :: nd' ∧ fp = fp1 ++ fp2 ∧
        Own sep H v r fp1 ∧ OwnKVs sep H kvs nd' fp2 ∧ (sep = true → ∀ x ∈ fp1, x ∉ fp2)
end

mutual
  def depth : Val → Nat
    | .dict kvs => depthKVs kvs + 1
    | _ => 0
  def depthKVs : List (String × Val) → Nat
    | [] => 0
    | (_, v) :: kvs => max (depth v) (depthKVs kvs)
end

theorem Own_leaf {sep : Bool} {H : Heap} {v : Val} (hv : ∀ s, v ≠ .dict s) (r : Ref) (fp : List Nat) :
    Own sep H v r fp ↔ r = .val v ∧ fp = [] := by
  cases v with
  | dict s => exact absurd rfl (hv s)
  | _ => simp [Own]

theorem Own_ptr_dict {sep : Bool} {H : Heap} {v : Val} {a : Nat} {fp : List Nat}
    (h : Own sep H v (.ptr a) fp) : ∃ s, v = .dict s := by
  cases v with
  | dict s => exact ⟨s, rfl⟩
  | _ => simp [Own] at h

theorem Own_val {sep : Bool} {H : Heap} {v w : Val} {fp : List Nat}
    (h : Own sep H v (.val w) fp) : v = w ∧ fp = [] ∧ ∀ s, v ≠ .dict s := by
  cases v with
  | dict s => simp [Own] at h
  | _ => simp only [Own, Ref.val.injEq] at h; exact ⟨h.1.symm, h.2, by intro s e; cases e⟩

mutual
  /-- the representation only depends on the nodes of its footprint -/
  theorem Own.congr {sep : Bool} {H H' : Heap} : ∀ (v : Val) (r : Ref) (fp : List Nat),
      Own sep H v r fp → (∀ x ∈ fp, H'[x]? = H[x]?) → Own sep H' v r fp
    | .dict kvs, r, fp, h, hh => by
        simp only [Own] at h ⊢
        obtain ⟨a, nd, fps, rfl, ha, rfl, hs, hk⟩ := h
        exact ⟨a, nd, fps, rfl, (hh a (by simp)).trans ha, rfl, hs,
          OwnKVs.congr kvs nd fps hk fun x hx => hh x (by simp [hx])⟩
    | .cell _, _, _, h, _ => by simpa [Own] using h
    | .list _, _, _, h, _ => by simpa [Own] using h
    | .tuple _, _, _, h, _ => by simpa [Own] using h
  theorem OwnKVs.congr {sep : Bool} {H H' : Heap} : ∀ (kvs : List (String × Val)) (nd : Node) (fp : List Nat),
      OwnKVs sep H kvs nd fp → (∀ x ∈ fp, H'[x]? = H[x]?) → OwnKVs sep H' kvs nd fp
    | [], _, _, h, _ => by simpa [OwnKVs] using h
    | (k, v) :: kvs, nd, fp, h, hh => by
        simp only [OwnKVs] at h ⊢
        obtain ⟨r, nd', fp1, fp2, rfl, rfl, h1, h2, hd⟩ := h
        exact ⟨r, nd', fp1, fp2, rfl, rfl, Own.congr v r fp1 h1 fun x hx => hh x (by simp [hx]),
          OwnKVs.congr kvs nd' fp2 h2 fun x hx => hh x (by simp [hx]), hd⟩
end

mutual
  /-- footprints are made of existing nodes -/
  theorem Own.lt {sep : Bool} {H : Heap} : ∀ (v : Val) (r : Ref) (fp : List Nat),
      Own sep H v r fp → ∀ x ∈ fp, x < H.length
    | .dict kvs, r, fp, h, x, hx => by
        simp only [Own] at h
        obtain ⟨a, nd, fps, rfl, ha, rfl, _, hk⟩ := h
        rcases List.mem_cons.1 hx with rfl | hx
        · apply Nat.lt_of_not_le
          intro hle
          rw [List.getElem?_eq_none hle] at ha
          cases ha
        · exact OwnKVs.lt kvs nd fps hk x hx
    | .cell _, _, _, h, x, hx => by simp only [Own] at h; simp [h.2] at hx
    | .list _, _, _, h, x, hx => by simp only [Own] at h; simp [h.2] at hx
    | .tuple _, _, _, h, x, hx => by simp only [Own] at h; simp [h.2] at hx
  theorem OwnKVs.lt {sep : Bool} {H : Heap} : ∀ (kvs : List (String × Val)) (nd : Node) (fp : List Nat),
      OwnKVs sep H kvs nd fp → ∀ x ∈ fp, x < H.length
    | [], _, _, h, x, hx => by simp only [OwnKVs] at h; simp [h.2] at hx
    | (k, v) :: kvs, nd, fp, h, x, hx => by
        simp only [OwnKVs] at h
        obtain ⟨r, nd', fp1, fp2, rfl, rfl, h1, h2, _⟩ := h
        rcases List.mem_append.1 hx with hx | hx
        · exact Own.lt v r fp1 h1 x hx
        · exact OwnKVs.lt kvs nd' fp2 h2 x hx
end

mutual
  /-- a tree-shaped representation is a representation -/
  theorem Own.weaken {H : Heap} : ∀ (v : Val) (r : Ref) (fp : List Nat), Own true H v r fp → Own false H v r fp
    | .dict kvs, r, fp, h => by
        simp only [Own] at h ⊢
        obtain ⟨a, nd, fps, rfl, ha, rfl, _, hk⟩ := h
        exact ⟨a, nd, fps, rfl, ha, rfl, by simp, OwnKVs.weaken kvs nd fps hk⟩
    | .cell _, _, _, h => by simpa [Own] using h
    | .list _, _, _, h => by simpa [Own] using h
    | .tuple _, _, _, h => by simpa [Own] using h
  theorem OwnKVs.weaken {H : Heap} : ∀ (kvs : List (String × Val)) (nd : Node) (fp : List Nat),
      OwnKVs true H kvs nd fp → OwnKVs false H kvs nd fp
    | [], _, _, h => by simpa [OwnKVs] using h
    | (k, v) :: kvs, nd, fp, h => by
        simp only [OwnKVs] at h ⊢
        obtain ⟨r, nd', fp1, fp2, rfl, rfl, h1, h2, _⟩ := h
        exact ⟨r, nd', fp1, fp2, rfl, rfl, Own.weaken v r fp1 h1, OwnKVs.weaken kvs nd' fp2 h2, by simp⟩
end

theorem OwnKVs.keys {sep : Bool} {H : Heap} : ∀ (kvs : List (String × Val)) (nd : Node) (fp : List Nat),
    OwnKVs sep H kvs nd fp → nd.map (·.1) = kvs.map (·.1)
  | [], _, _, h => by simp only [OwnKVs] at h; simp [h.1]
  | (k, v) :: kvs, nd, fp, h => by
      simp only [OwnKVs] at h
      obtain ⟨r, nd', fp1, fp2, rfl, rfl, _, h2, _⟩ := h
      simp [OwnKVs.keys kvs nd' fp2 h2]

theorem OwnKVs.append {sep : Bool} {H : Heap} : ∀ (k1 : List (String × Val)) (n1 : Node) (f1 : List Nat)
    (k2 : List (String × Val)) (n2 : Node) (f2 : List Nat),
    OwnKVs sep H k1 n1 f1 → OwnKVs sep H k2 n2 f2 → (∀ x ∈ f1, x ∉ f2) →
    OwnKVs sep H (k1 ++ k2) (n1 ++ n2) (f1 ++ f2)
  | [], _, _, k2, n2, f2, h1, h2, _ => by
      simp only [OwnKVs] at h1
      simpa [h1.1, h1.2] using h2
  | (k, v) :: k1, n1, f1, k2, n2, f2, h1, h2, hd => by
      simp only [OwnKVs] at h1
      obtain ⟨r, nd', fp1, fp2, rfl, rfl, ho, hk, hdis⟩ := h1
      simp only [List.cons_append, OwnKVs]
      refine ⟨r, nd' ++ n2, fp1, fp2 ++ f2, rfl, by simp, ho,
        OwnKVs.append k1 nd' fp2 k2 n2 f2 hk h2 (fun x hx => hd x (by simp [hx])), ?_⟩
      intro hs x hx hm
      rcases List.mem_append.1 hm with hm | hm
      · exact hdis hs x hx hm
      · exact hd x (by simp [hx]) hm

/-! ### reading a represented tree: `tree_items` on the heap, and the read-back function -/

theorem depth_leaf (v : Val) (hv : ∀ s, v ≠ .dict s) : depth v = 0 := by
  cases v with
  | dict s => exact absurd rfl (hv s)
  | _ => rfl

mutual
  theorem itemsH_of_Own {sep : Bool} {H : Heap} : ∀ (v : Val) (r : Ref) (fp : List Nat) (f : Nat),
      Own sep H v r fp → depth v ≤ f → itemsH H f r = .ok (items v)
    | .dict kvs, r, fp, f, h, hd => by
        simp only [Own] at h
        obtain ⟨a, nd, fps, rfl, ha, rfl, _, hk⟩ := h
        simp only [depth] at hd
        obtain ⟨f', rfl⟩ : ∃ f', f = f' + 1 := ⟨f - 1, by omega⟩
        simp only [itemsH, ha, items]
        exact itemsN_of_OwnKVs kvs nd fps f' hk (by omega)
    | .cell _, r, fp, f, h, _ => by simp only [Own] at h; cases f <;> simp [h.1, itemsH, items]
    | .list _, r, fp, f, h, _ => by simp only [Own] at h; cases f <;> simp [h.1, itemsH, items]
    | .tuple _, r, fp, f, h, _ => by simp only [Own] at h; cases f <;> simp [h.1, itemsH, items]
  theorem itemsN_of_OwnKVs {sep : Bool} {H : Heap} : ∀ (kvs : List (String × Val)) (nd : Node) (fp : List Nat)
      (f : Nat), OwnKVs sep H kvs nd fp → depthKVs kvs ≤ f → itemsN (itemsH H f) nd = .ok (itemsKVs kvs)
    | [], _, _, f, h, _ => by simp only [OwnKVs] at h; simp [h.1, itemsN, itemsKVs]
    | (k, v) :: kvs, nd, fp, f, h, hd => by
        simp only [OwnKVs] at h
        obtain ⟨r, nd', fp1, fp2, rfl, rfl, h1, h2, _⟩ := h
        simp only [depthKVs] at hd
        simp only [itemsN, itemsH_of_Own v r fp1 f h1 (by omega),
          itemsN_of_OwnKVs kvs nd' fp2 f h2 (by omega), itemsKVs]
end

mutual
  /-- reading the node back gives the pure tree -/
  theorem readH_of_Own {sep : Bool} {H : Heap} : ∀ (v : Val) (r : Ref) (fp : List Nat) (f : Nat),
      Own sep H v r fp → depth v ≤ f → readH H f r = some v
    | .dict kvs, r, fp, f, h, hd => by
        simp only [Own] at h
        obtain ⟨a, nd, fps, rfl, ha, rfl, _, hk⟩ := h
        simp only [depth] at hd
        obtain ⟨f', rfl⟩ : ∃ f', f = f' + 1 := ⟨f - 1, by omega⟩
        simp only [readH, ha, readN_of_OwnKVs kvs nd fps f' hk (by omega), Option.map_some]
    | .cell _, r, fp, f, h, _ => by simp only [Own] at h; cases f <;> simp [h.1, readH]
    | .list _, r, fp, f, h, _ => by simp only [Own] at h; cases f <;> simp [h.1, readH]
    | .tuple _, r, fp, f, h, _ => by simp only [Own] at h; cases f <;> simp [h.1, readH]
  theorem readN_of_OwnKVs {sep : Bool} {H : Heap} : ∀ (kvs : List (String × Val)) (nd : Node) (fp : List Nat)
      (f : Nat), OwnKVs sep H kvs nd fp → depthKVs kvs ≤ f → readN (readH H f) nd = some kvs
    | [], _, _, f, h, _ => by simp only [OwnKVs] at h; simp [h.1, readN]
    | (k, v) :: kvs, nd, fp, f, h, hd => by
        simp only [OwnKVs] at h
        obtain ⟨r, nd', fp1, fp2, rfl, rfl, h1, h2, _⟩ := h
        simp only [depthKVs] at hd
        simp only [readN, readH_of_Own v r fp1 f h1 (by omega),
          readN_of_OwnKVs kvs nd' fp2 f h2 (by omega)]
end

/-! ### `_tree_setitem` on a tree-shaped representation -/

/-- what is left of a branch when the entry at key `k` is taken out: any tree-shaped subtree whose
footprint avoids the other entries' footprint `fpo` can be put (back) at `k` -/
def Wand (H : Heap) (k : String) (kvs : List (String × Val)) (nd : Node) (fpo : List Nat) : Prop :=
  ∀ (H' : Heap) (r' : Ref) (v' : Val) (fpr' : List Nat), (∀ x ∈ fpo, H'[x]? = H[x]?) →
    Own true H' v' r' fpr' → (∀ x ∈ fpr', x ∉ fpo) →
    ∃ fps', OwnKVs true H' (DA.set k v' kvs) (DA.set k r' nd) fps' ∧ ∀ x ∈ fps', x ∈ fpr' ∨ x ∈ fpo

theorem OwnKVs.split {H : Heap} (k : String) : ∀ (kvs : List (String × Val)) (nd : Node) (fps : List Nat),
    OwnKVs true H kvs nd fps →
    ∃ fpo, (∀ x ∈ fpo, x ∈ fps) ∧ (lookup k nd = none → lookup k kvs = none) ∧
      (∀ r, lookup k nd = some r → ∃ v fpr, lookup k kvs = some v ∧ Own true H v r fpr ∧
        ∀ x ∈ fpr, x ∈ fps ∧ x ∉ fpo) ∧
      Wand H k kvs nd fpo
  | [], nd, fps, h => by
      simp only [OwnKVs] at h
      obtain ⟨rfl, rfl⟩ := h
      refine ⟨[], by simp, by simp [lookup], by simp [lookup], ?_⟩
      intro H' r' v' fpr' _ ho _
      refine ⟨fpr' ++ [], ?_, by simp⟩
      simp only [DA.set, OwnKVs]
      exact ⟨r', [], fpr', [], rfl, rfl, ho, ⟨rfl, rfl⟩, by simp⟩
  | (k0, v0) :: kvs, nd, fps, h => by
      simp only [OwnKVs] at h
      obtain ⟨r0, nd', fp1, fp2, rfl, rfl, h1, h2, hd⟩ := h
      have hd := hd trivial
      by_cases e : k = k0
      · subst e
        refine ⟨fp2, by simp +contextual, by simp [lookup], ?_, ?_⟩
        · intro r hr
          simp only [lookup, if_true, Option.some.injEq] at hr
          subst hr
          exact ⟨v0, fp1, by simp [lookup], h1, fun x hx => ⟨by simp [hx], hd x hx⟩⟩
        · intro H' r' v' fpr' hsame ho hdis
          refine ⟨fpr' ++ fp2, ?_, by simp⟩
          simp only [DA.set, if_true, OwnKVs]
          exact ⟨r', nd', fpr', fp2, rfl, rfl, ho, OwnKVs.congr kvs nd' fp2 h2 hsame, fun _ => hdis⟩
      · obtain ⟨fpo, hsub, hnone, hsome, wand⟩ := OwnKVs.split k kvs nd' fp2 h2
        refine ⟨fp1 ++ fpo, ?_, ?_, ?_, ?_⟩
        · intro x hx
          rcases List.mem_append.1 hx with hx | hx
          · simp [hx]
          · simp [hsub x hx]
        · simpa [lookup, e] using hnone
        · intro r hr
          simp only [lookup, if_neg e] at hr
          obtain ⟨v, fpr, hl, ho, hf⟩ := hsome r hr
          refine ⟨v, fpr, by simp [lookup, e, hl], ho, fun x hx => ⟨by simp [(hf x hx).1], ?_⟩⟩
          intro hm
          rcases List.mem_append.1 hm with hm | hm
          · exact hd x hm (hf x hx).1
          · exact (hf x hx).2 hm
        · intro H' r' v' fpr' hsame ho hdis
          obtain ⟨fps2, hk2, hsub2⟩ := wand H' r' v' fpr' (fun x hx => hsame x (by simp [hx])) ho
            (fun x hx hm => hdis x hx (by simp [hm]))
          refine ⟨fp1 ++ fps2, ?_, ?_⟩
          · simp only [DA.set, if_neg e, OwnKVs]
            refine ⟨r0, DA.set k r' nd', fp1, fps2, rfl, rfl,
              Own.congr v0 r0 fp1 h1 (fun x hx => hsame x (by simp [hx])), hk2, fun _ x hx hm => ?_⟩
            rcases hsub2 x hm with h | h
            · exact hdis x h (by simp [hx])
            · exact hd x hx (hsub x h)
          · intro x hx
            rcases List.mem_append.1 hx with hx | hx
            · right; simp [hx]
            · rcases hsub2 x hx with h | h
              · left; exact h
              · right; simp [h]

theorem getElem?_lt {α} {l : List α} {x : Nat} {a : α} (h : l[x]? = some a) : x < l.length := by
  apply Nat.lt_of_not_le
  intro hle
  rw [List.getElem?_eq_none hle] at h
  cases h

/-- `_tree_setitem` at the root `a` of a tree-shaped representation of `dict kvs` yields a tree-shaped
representation of `setKVs kvs …`; it only touches nodes of the footprint and new nodes -/
theorem setItemH_abs (v : Val) (hv : ∀ s, v ≠ .dict s) (ig : List Val) :
    ∀ (p : Path) (m : Mem) (a : Nat) (kvs : List (String × Val)) (fp : List Nat),
    Own true m.heap (.dict kvs) (.ptr a) fp →
    ∃ fp', Own true (setItemH m a p v ig).heap (.dict (setKVs kvs p v ig)) (.ptr a) fp' ∧
      (∀ x ∈ fp', x ∈ fp ∨ m.heap.length ≤ x) ∧
      (∀ x, x < m.heap.length → x ∉ fp → (setItemH m a p v ig).heap[x]? = m.heap[x]?) ∧
      m.heap.length ≤ (setItemH m a p v ig).heap.length
  | [], m, a, kvs, fp, h => by
      exact ⟨fp, by simpa only [setItemH, setKVs] using h, fun x hx => Or.inl hx,
        fun _ _ _ => by simp only [setItemH], by simp only [setItemH]; exact Nat.le_refl _⟩
  | [k], m, a, kvs, fp, h => by
      simp only [Own, Ref.ptr.injEq] at h
      obtain ⟨a', nd, fps, e, ha, rfl, hs, hk⟩ := h
      subst e
      have hs := hs trivial
      have hnode : node m a = nd := by simp [node, ha]
      obtain ⟨fpo, hsub, hnone, hsome, wand⟩ := OwnKVs.split k kvs nd fps hk
      have hiso : (lookup k nd).isSome = (lookup k kvs).isSome := by
        cases hl : lookup k nd with
        | none => simp [hnone hl]
        | some r => obtain ⟨v0, _, hl0, _⟩ := hsome r hl; simp [hl0]
      simp only [setItemH, setKVs, hnode, hiso]
      by_cases hc : ((lookup k kvs).isSome && ig.contains v) = true
      · rw [if_pos hc, if_pos hc]
        refine ⟨a :: fps, ?_, fun x hx => Or.inl hx, fun _ _ _ => rfl, Nat.le_refl _⟩
        simp only [Own, Ref.ptr.injEq]
        exact ⟨a, nd, fps, rfl, ha, rfl, fun _ => hs, hk⟩
      · rw [if_neg hc, if_neg hc]
        have hane : ∀ x ∈ fps, a ≠ x := fun x hx e => hs (e ▸ hx)
        obtain ⟨fps', hk', hsub'⟩ := wand (store m a k (.val v)).heap (.val v) v []
          (fun x hx => by simp only [store]; rw [List.getElem?_modify_ne _ _ (hane x (hsub x hx))])
          ((Own_leaf hv _ _).2 ⟨rfl, rfl⟩) (by simp)
        have hfps' : ∀ x ∈ fps', x ∈ fps := fun x hx => by
          rcases hsub' x hx with h | h
          · simp at h
          · exact hsub x h
        refine ⟨a :: fps', ?_, ?_, ?_, by rw [store_len]; omega⟩
        · simp only [Own, Ref.ptr.injEq]
          refine ⟨a, DA.set k (.val v) nd, fps', rfl, ?_, rfl, fun _ hm => hs (hfps' a hm), hk'⟩
          simp [store, ha]
        · intro x hx
          rcases List.mem_cons.1 hx with rfl | hx
          · left; simp
          · left; simp [hfps' x hx]
        · intro x _ hx
          simp only [store]
          rw [List.getElem?_modify_ne]
          intro e; apply hx; simp [e]
  | k :: k2 :: rest, m, a, kvs, fp, h => by
      simp only [Own, Ref.ptr.injEq] at h
      obtain ⟨a', nd, fps, e, ha, rfl, hs, hk⟩ := h
      subst e
      have hs := hs trivial
      have halt : a < m.heap.length := getElem?_lt ha
      have hnode : node m a = nd := by simp [node, ha]
      have hfpslt := OwnKVs.lt kvs nd fps hk
      obtain ⟨fpo, hsub, hnone, hsome, wand⟩ := OwnKVs.split k kvs nd fps hk
      rw [setKVs_deep]
      simp only [setItemH, hnode]
      split
      · -- an existing branch: walk into it
        next b hl =>
        obtain ⟨v0, fpr, hl0, ho, hf⟩ := hsome _ hl
        obtain ⟨s, rfl⟩ := Own_ptr_dict ho
        have hsubof : subOf k kvs = s := by simp [subOf, hl0]
        rw [hsubof]
        obtain ⟨fpb, hob, hsubb, hsame, hlen⟩ := setItemH_abs v hv ig (k2 :: rest) m b s fpr ho
        have hanot : a ∉ fpr := fun hm => hs (hf a hm).1
        obtain ⟨fps', hk', hsub'⟩ := wand (setItemH m b (k2 :: rest) v ig).heap (.ptr b) _ fpb
          (fun x hx => hsame x (hfpslt x (hsub x hx)) (fun hm => (hf x hm).2 hx)) hob
          (fun x hx hm => by
            rcases hsubb x hx with h | h
            · exact (hf x h).2 hm
            · have := hfpslt x (hsub x hm); omega)
        rw [set_lookup_self k _ nd hl] at hk'
        have hfps' : ∀ x ∈ fps', x ∈ fps ∨ m.heap.length ≤ x := fun x hx => by
          rcases hsub' x hx with h | h
          · rcases hsubb x h with h | h
            · exact Or.inl (hf x h).1
            · exact Or.inr h
          · exact Or.inl (hsub x h)
        refine ⟨a :: fps', ?_, ?_, ?_, hlen⟩
        · simp only [Own, Ref.ptr.injEq]
          refine ⟨a, nd, fps', rfl, (hsame a halt hanot).trans ha, rfl, fun _ hm => ?_, hk'⟩
          rcases hfps' a hm with h | h
          · exact hs h
          · omega
        · intro x hx
          rcases List.mem_cons.1 hx with rfl | hx
          · left; simp
          · rcases hfps' x hx with h | h
            · left; simp [h]
            · right; exact h
        · intro x hxl hx
          exact hsame x hxl (fun hm => hx (by simp [(hf x hm).1]))
      · -- a missing key or a leaf: a new branch
        next hnp =>
        have hsubof : subOf k kvs = [] := by
          cases hl : lookup k nd with
          | none => simp [subOf, hnone hl]
          | some r =>
            obtain ⟨v0, fpr, hl0, ho, _⟩ := hsome r hl
            cases r with
            | ptr b => exact absurd hl (hnp b)
            | val w =>
              obtain ⟨rfl, _, hnd⟩ := Own_val ho
              simp only [subOf, hl0]
              cases v0 with
              | dict s => exact absurd rfl (hnd s)
              | _ => rfl
        rw [hsubof]
        let m2 := store (alloc m []).1 a k (.ptr m.heap.length)
        have hm2len : m2.heap.length = m.heap.length + 1 := by simp [m2, store_len, alloc_len]
        have hm2b : m2.heap[m.heap.length]? = some [] := by
          simp only [m2, store, alloc_heap]
          rw [List.getElem?_modify_ne _ _ (by omega)]
          simp
        have hm2a : m2.heap[a]? = some (DA.set k (.ptr m.heap.length) nd) := by
          simp only [m2, store, alloc_heap, List.getElem?_modify_eq]
          rw [List.getElem?_append_left halt, ha]
          rfl
        have hm2o : ∀ x, x < m.heap.length → x ≠ a → m2.heap[x]? = m.heap[x]? := by
          intro x hx hne
          simp only [m2, store, alloc_heap]
          rw [List.getElem?_modify_ne _ _ (Ne.symm hne), List.getElem?_append_left hx]
        have ho2 : Own true m2.heap (.dict []) (.ptr m.heap.length) [m.heap.length] := by
          simp only [Own, Ref.ptr.injEq]
          exact ⟨_, [], [], rfl, hm2b, rfl, by simp, by simp [OwnKVs]⟩
        obtain ⟨fpb, hob, hsubb, hsame, hlen⟩ :=
          setItemH_abs v hv ig (k2 :: rest) m2 m.heap.length [] [m.heap.length] ho2
        have hfpb : ∀ x ∈ fpb, m.heap.length ≤ x := fun x hx => by
          rcases hsubb x hx with h | h
          · simp at h; omega
          · omega
        have hsame' : ∀ x, x < m.heap.length → (setItemH m2 m.heap.length (k2 :: rest) v ig).heap[x]? = m2.heap[x]? :=
          fun x hx => hsame x (by omega) (by simp; omega)
        obtain ⟨fps', hk', hsub'⟩ := wand (setItemH m2 m.heap.length (k2 :: rest) v ig).heap
          (.ptr m.heap.length) _ fpb
          (fun x hx => by
            have hxl := hfpslt x (hsub x hx)
            have hxa : x ≠ a := fun e => hs (e ▸ hsub x hx)
            rw [hsame' x hxl, hm2o x hxl hxa]) hob
          (fun x hx hm => by have := hfpb x hx; have := hfpslt x (hsub x hm); omega)
        have hfps' : ∀ x ∈ fps', x ∈ fps ∨ m.heap.length ≤ x := fun x hx => by
          rcases hsub' x hx with h | h
          · exact Or.inr (hfpb x h)
          · exact Or.inl (hsub x h)
        refine ⟨a :: fps', ?_, ?_, ?_, ?_⟩
        rotate_left 3
        · show m.heap.length ≤ (setItemH m2 m.heap.length (k2 :: rest) v ig).heap.length
          omega
        · simp only [Own, Ref.ptr.injEq]
          refine ⟨a, _, fps', rfl, (hsame' a halt).trans hm2a, rfl, fun _ hm => ?_, hk'⟩
          rcases hfps' a hm with h | h
          · exact hs h
          · omega
        · intro x hx
          rcases List.mem_cons.1 hx with rfl | hx
          · left; simp
          · rcases hfps' x hx with h | h
            · left; simp [h]
            · right; exact h
        · intro x hxl hx
          rw [hsame' x hxl, hm2o x hxl (fun e => hx (by simp [e]))]

/-! ### `_tree_copy` turns a representation (sharing allowed) into a fresh tree-shaped one -/

theorem set_append_mid {V} (k : String) (r r0 : V) : ∀ (l1 l2 : List (String × V)), k ∉ l1.map (·.1) →
    DA.set k r (l1 ++ (k, r0) :: l2) = l1 ++ (k, r) :: l2
  | [], l2, _ => by simp [DA.set]
  | (l, w) :: l1, l2, h => by
      have h1 : k ≠ l := by intro e; apply h; simp [e]
      have h2 : k ∉ l1.map (·.1) := by intro e; apply h; simp [e]
      simp [DA.set, h1, set_append_mid k r r0 l1 l2 h2]

mutual
  theorem copyH_abs : ∀ (v : Val) (f : Nat) (m : Mem) (t : Nat) (fp : List Nat),
      Own false m.heap v (.ptr t) fp → depth v ≤ f → wf v = true →
      ∃ m' fp', copyH f m t = .ok (m', m.heap.length) ∧
        Own true m'.heap v (.ptr m.heap.length) fp' ∧ (∀ x ∈ fp', m.heap.length ≤ x)
    | .dict kvs, f, m, t, fp, h, hd, hw => by
        simp only [Own, Ref.ptr.injEq] at h
        obtain ⟨a, nd, fps, e, ha, rfl, _, hk⟩ := h
        subst e
        simp only [depth] at hd
        obtain ⟨f', rfl⟩ : ∃ f', f = f' + 1 := ⟨f - 1, by omega⟩
        simp only [wf, Bool.and_eq_true, decide_eq_true_eq] at hw
        have hlt := OwnKVs.lt kvs nd fps hk
        obtain ⟨m', nd', fp', hkids, hc, hown, hgt⟩ :=
          copyKids_abs kvs f' (alloc m nd).1 m.heap.length [] [] nd [] fps (by omega) hw.2
            (OwnKVs.congr kvs nd fps hk fun x hx => by
              rw [alloc_heap, List.getElem?_append_left (hlt x hx)])
            hlt (by simp [alloc_heap]) (by simpa [OwnKVs.keys kvs nd fps hk] using hw.1)
            (by simp [OwnKVs]) (by simp)
        refine ⟨m', m.heap.length :: fp', ?_, ?_, ?_⟩
        · simp only [copyH, ha, hkids]
        · simp only [Own, Ref.ptr.injEq]
          refine ⟨_, nd', fp', rfl, hc, rfl, fun _ hm => ?_, by simpa using hown⟩
          have := hgt _ hm
          omega
        · intro x hx
          rcases List.mem_cons.1 hx with rfl | hx
          · exact Nat.le_refl _
          · exact Nat.le_of_lt (hgt x hx)
    | .cell _, _, _, _, _, h, _, _ => by simp [Own] at h
    | .list _, _, _, _, _, h, _, _ => by simp [Own] at h
    | .tuple _, _, _, _, _, h, _, _ => by simp [Own] at h
  /-- the loop over the items of the fresh copy `c`: `doneNd` are the entries already processed (fresh,
  tree-shaped), `restNd` the entries still pointing into the original -/
  theorem copyKids_abs : ∀ (kvs : List (String × Val)) (f : Nat) (m : Mem) (c : Nat)
      (doneKvs : List (String × Val)) (doneNd restNd : Node) (fpd fpr : List Nat),
      depthKVs kvs ≤ f → wfKVs kvs = true →
      OwnKVs false m.heap kvs restNd fpr → (∀ x ∈ fpr, x < c) →
      m.heap[c]? = some (doneNd ++ restNd) → ((doneNd ++ restNd).map (·.1)).Nodup →
      OwnKVs true m.heap doneKvs doneNd fpd → (∀ x ∈ fpd, c < x) →
      ∃ m' nd' fp', copyKids (copyH f) c m restNd = .ok m' ∧ m'.heap[c]? = some nd' ∧
        OwnKVs true m'.heap (doneKvs ++ kvs) nd' fp' ∧ (∀ x ∈ fp', c < x)
    | [], f, m, c, doneKvs, doneNd, restNd, fpd, fpr, _, _, hr, _, hc, _, hdone, hgt => by
        simp only [OwnKVs] at hr
        obtain ⟨rfl, rfl⟩ := hr
        exact ⟨m, doneNd, fpd, by simp [copyKids], by simpa using hc, by simpa using hdone, hgt⟩
    | (k, v) :: kvs, f, m, c, doneKvs, doneNd, restNd, fpd, fpr, hd, hw, hr, hfpr, hc, hnd, hdone, hgt => by
        simp only [OwnKVs] at hr
        obtain ⟨r, restNd', fp1, fp2, rfl, rfl, h1, h2, _⟩ := hr
        simp only [depthKVs] at hd
        simp only [wfKVs, Bool.and_eq_true] at hw
        have hclt : c < m.heap.length := getElem?_lt hc
        have hfpdlt := OwnKVs.lt doneKvs doneNd fpd hdone
        cases r with
        | val w =>
          obtain ⟨rfl, rfl, hleaf⟩ := Own_val h1
          have hone : OwnKVs true m.heap [(k, v)] [(k, .val v)] ([] ++ []) := by
            simp only [OwnKVs]
            exact ⟨.val v, [], [], [], rfl, rfl, (Own_leaf hleaf _ _).2 ⟨rfl, rfl⟩, ⟨rfl, rfl⟩, by simp⟩
          obtain ⟨m', nd', fp', hk', hc', hown', hgt'⟩ :=
            copyKids_abs kvs f m c (doneKvs ++ [(k, v)]) (doneNd ++ [(k, .val v)]) restNd' (fpd ++ ([] ++ [])) fp2
              (by omega) hw.2 h2 (fun x hx => hfpr x (by simp [hx]))
              (by simpa [List.append_assoc] using hc) (by simpa [List.append_assoc] using hnd)
              (OwnKVs.append _ _ _ _ _ _ hdone hone (by simp)) (by simpa using hgt)
          exact ⟨m', nd', fp', by simpa [copyKids] using hk', hc', by simpa [List.append_assoc] using hown', hgt'⟩
        | ptr b =>
          obtain ⟨m1, fpc, hcopy, hownc, hfpc⟩ := copyH_abs v f m b fp1 h1 (by omega) hw.1
          obtain ⟨_, _, hsafe, _⟩ := copyH_spec f m b m1 _ hcopy
          have hknot : k ∉ doneNd.map (·.1) := by
            intro hm
            simp only [List.map_append, List.map_cons] at hnd
            rw [List.nodup_append] at hnd
            exact hnd.2.2 k hm k (by simp) rfl
          have hm2 : ∀ x, x ≠ c → x < m.heap.length →
              (store m1 c k (.ptr m.heap.length)).heap[x]? = m.heap[x]? := by
            intro x hxc hxl
            simp only [store]
            rw [List.getElem?_modify_ne _ _ (Ne.symm hxc), hsafe.same x hxl]
          have hm2c : (store m1 c k (.ptr m.heap.length)).heap[c]? =
              some ((doneNd ++ [(k, .ptr m.heap.length)]) ++ restNd') := by
            simp only [store, List.getElem?_modify_eq, hsafe.same c hclt, hc, Option.map_eq_map, Option.map_some]
            rw [set_append_mid k _ _ doneNd restNd' hknot]
            simp
          have hone : OwnKVs true (store m1 c k (.ptr m.heap.length)).heap [(k, v)]
              [(k, .ptr m.heap.length)] (fpc ++ []) := by
            simp only [OwnKVs]
            refine ⟨_, [], fpc, [], rfl, rfl, ?_, ⟨rfl, rfl⟩, by simp⟩
            refine Own.congr v _ fpc hownc fun x hx => ?_
            simp only [store]
            rw [List.getElem?_modify_ne]
            have := hfpc x hx
            omega
          obtain ⟨m', nd', fp', hk', hc', hown', hgt'⟩ :=
            copyKids_abs kvs f (store m1 c k (.ptr m.heap.length)) c (doneKvs ++ [(k, v)])
              (doneNd ++ [(k, .ptr m.heap.length)]) restNd' (fpd ++ (fpc ++ [])) fp2
              (by omega) hw.2
              (OwnKVs.congr kvs restNd' fp2 h2 fun x hx => by
                have := hfpr x (by simp [hx])
                exact hm2 x (by omega) (by omega))
              (fun x hx => hfpr x (by simp [hx])) hm2c
              (by simpa [List.append_assoc] using hnd)
              (OwnKVs.append _ _ _ _ _ _
                (OwnKVs.congr doneKvs doneNd fpd hdone fun x hx => by
                  have := hgt x hx
                  exact hm2 x (by omega) (hfpdlt x hx))
                hone (fun x hx hm => by
                  have := hfpdlt x hx
                  have := hfpc x (by simpa using hm)
                  omega))
              (fun x hx => by
                rcases List.mem_append.1 hx with h | h
                · exact hgt x h
                · have := hfpc x (by simpa using h); omega)
          refine ⟨m', nd', fp', ?_, hc', by simpa [List.append_assoc] using hown', hgt'⟩
          simp only [copyKids, hcopy]
          exact hk'
end

/-! ### the loop of `items_to_tree` -/

mutual
  theorem items_snd_leaf : ∀ (v : Val) (pv : Path × Val), pv ∈ items v → ∀ s, pv.2 ≠ .dict s
    | .dict kvs, pv, h => itemsKVs_snd_leaf kvs pv (by simpa [items] using h)
    | .cell _, pv, h => by simp only [items, List.mem_singleton] at h; subst h; intro s e; cases e
    | .list _, pv, h => by simp only [items, List.mem_singleton] at h; subst h; intro s e; cases e
    | .tuple _, pv, h => by simp only [items, List.mem_singleton] at h; subst h; intro s e; cases e
  theorem itemsKVs_snd_leaf : ∀ (kvs : List (String × Val)) (pv : Path × Val), pv ∈ itemsKVs kvs →
      ∀ s, pv.2 ≠ .dict s
    | [], pv, h => by simp [itemsKVs] at h
    | (k, v) :: kvs, pv, h => by
        simp only [itemsKVs, List.mem_append, List.mem_map] at h
        rcases h with ⟨q, hq, rfl⟩ | h
        · exact items_snd_leaf v q hq
        · exact itemsKVs_snd_leaf kvs pv h
end

theorem setItemsH_abs (ig : List Val) (c : Nat) : ∀ (its : List (Path × Val)),
    (∀ pv ∈ its, ∀ s, pv.2 ≠ .dict s) → ∀ (m : Mem) (kvs : List (String × Val)) (fp : List Nat),
    Own true m.heap (.dict kvs) (.ptr c) fp →
    ∃ fp', Own true (setItemsH m c its ig).heap (.dict (build ig its kvs)) (.ptr c) fp'
  | [], _, m, kvs, fp, h => ⟨fp, h⟩
  | (p, v) :: its, hl, m, kvs, fp, h => by
      obtain ⟨fp1, h1, _⟩ := setItemH_abs v (hl (p, v) (by simp)) ig p m c kvs fp h
      obtain ⟨fp2, h2⟩ := setItemsH_abs ig c its (fun pv hm => hl pv (by simp [hm]))
        (setItemH m c p v ig) (setKVs kvs p v ig) fp1 h1
      exact ⟨fp2, by simpa [setItemsH, build] using h2⟩

/-! ### every pure tree has a tree-shaped representation (`allocTree`): the hypotheses of the
abstraction theorems are satisfiable for all trees -/

mutual
  theorem allocTree_Own : ∀ (v : Val) (m : Mem),
      ∃ fp, Own true (allocTree m v).1.heap v (allocTree m v).2 fp ∧ (∀ x ∈ fp, m.heap.length ≤ x) ∧
        m.heap.length ≤ (allocTree m v).1.heap.length ∧
        ∀ x, x < m.heap.length → (allocTree m v).1.heap[x]? = m.heap[x]?
    | .dict kvs, m => by
        obtain ⟨fps, hk, hge, hlen, hsame⟩ := allocKVs_Own kvs m
        have hlt := OwnKVs.lt kvs _ fps hk
        refine ⟨(allocKVs m kvs).1.heap.length :: fps, ?_, ?_, ?_, ?_⟩
        · simp only [allocTree, Own, Ref.ptr.injEq]
          refine ⟨_, (allocKVs m kvs).2, fps, rfl, by simp, rfl, fun _ hm => ?_, ?_⟩
          · have := hlt _ hm; omega
          · exact OwnKVs.congr kvs _ fps hk fun x hx => List.getElem?_append_left (hlt x hx)
        · intro x hx
          rcases List.mem_cons.1 hx with rfl | hx
          · exact hlen
          · exact hge x hx
        · simp only [allocTree, List.length_append, List.length_singleton]; omega
        · intro x hx
          simp only [allocTree]
          rw [List.getElem?_append_left (by omega)]
          exact hsame x hx
    | .cell c, m => ⟨[], by simp [allocTree, Own], by simp, by simp [allocTree], by simp [allocTree]⟩
    | .list c, m => ⟨[], by simp [allocTree, Own], by simp, by simp [allocTree], by simp [allocTree]⟩
    | .tuple c, m => ⟨[], by simp [allocTree, Own], by simp, by simp [allocTree], by simp [allocTree]⟩
  theorem allocKVs_Own : ∀ (kvs : List (String × Val)) (m : Mem),
      ∃ fp, OwnKVs true (allocKVs m kvs).1.heap kvs (allocKVs m kvs).2 fp ∧ (∀ x ∈ fp, m.heap.length ≤ x) ∧
        m.heap.length ≤ (allocKVs m kvs).1.heap.length ∧
        ∀ x, x < m.heap.length → (allocKVs m kvs).1.heap[x]? = m.heap[x]?
    | [], m => ⟨[], by simp [allocKVs, OwnKVs], by simp, by simp [allocKVs], by simp [allocKVs]⟩
    | (k, v) :: kvs, m => by
        obtain ⟨fp1, h1, hge1, hlen1, hsame1⟩ := allocTree_Own v m
        obtain ⟨fp2, h2, hge2, hlen2, hsame2⟩ := allocKVs_Own kvs (allocTree m v).1
        have hlt1 := Own.lt v _ fp1 h1
        refine ⟨fp1 ++ fp2, ?_, ?_, ?_, ?_⟩
        · simp only [allocKVs, OwnKVs]
          refine ⟨_, _, fp1, fp2, rfl, rfl, Own.congr v _ fp1 h1 fun x hx => hsame2 x (hlt1 x hx), h2,
            fun _ x hx hm => ?_⟩
          have := hlt1 x hx
          have := hge2 x hm
          omega
        · intro x hx
          rcases List.mem_append.1 hx with hx | hx
          · exact hge1 x hx
          · exact Nat.le_trans hlen1 (hge2 x hx)
        · simp only [allocKVs]; omega
        · intro x hx
          simp only [allocKVs]
          rw [hsame2 x (by omega), hsame1 x hx]
end

end Pyg.TreeHeap
