/-
  Ordering-level "consistent triple" calculus used to prove transitivity of lexicographic
  comparison functions defined by nested recursion (cmp, eq).
-/
namespace Pyg

/-- `tri ab bc ac`: the three comparison outcomes `cmp a b`, `cmp b c`, `cmp a c` (with the
reverse outcomes given by `swap`) are those of some total preorder on `{a,b,c}`. -/
def tri (ab bc ac : Ordering) : Bool :=
  let ba := ab.swap; let cb := bc.swap; let ca := ac.swap
  (!(ab.isLE && bc.isLE) || ac.isLE) &&
  (!(ac.isLE && cb.isLE) || ab.isLE) &&
  (!(ba.isLE && ac.isLE) || bc.isLE) &&
  (!(bc.isLE && ca.isLE) || ba.isLE) &&
  (!(ca.isLE && ab.isLE) || cb.isLE) &&
  (!(cb.isLE && ba.isLE) || ca.isLE)

theorem tri_then {a1 b1 c1 a2 b2 c2 : Ordering} (h1 : tri a1 b1 c1) (h2 : tri a2 b2 c2) :
    tri (a1.then a2) (b1.then b2) (c1.then c2) := by
  revert h1 h2
  cases a1 <;> cases b1 <;> cases c1 <;> cases a2 <;> cases b2 <;> cases c2 <;> decide

/-- variant: the second triple only needs to be consistent when the first is all-equal -/
theorem tri_then' {a1 b1 c1 a2 b2 c2 : Ordering} (h1 : tri a1 b1 c1)
    (h2 : a1 = .eq → b1 = .eq → c1 = .eq → tri a2 b2 c2) :
    tri (a1.then a2) (b1.then b2) (c1.then c2) := by
  cases a1 <;> cases b1 <;> cases c1 <;> simp_all <;>
    (revert h1; cases a2 <;> cases b2 <;> cases c2 <;> decide)

theorem tri_isLE {ab bc ac : Ordering} (h : tri ab bc ac) : ab.isLE → bc.isLE → ac.isLE := by
  revert h; cases ab <;> cases bc <;> cases ac <;> decide

theorem tri_eq {ab bc ac : Ordering} (h : tri ab bc ac) : ab = .eq → bc = .eq → ac = .eq := by
  revert h; cases ab <;> cases bc <;> cases ac <;> decide

theorem tri_compare {α} [Ord α] [Std.TransOrd α] (x y z : α) :
    tri (compare x y) (compare y z) (compare x z) := by
  have sxy := Std.OrientedOrd.eq_swap (a := y) (b := x)
  have syz := Std.OrientedOrd.eq_swap (a := z) (b := y)
  have sxz := Std.OrientedOrd.eq_swap (a := z) (b := x)
  have t1 := @Std.TransOrd.isLE_trans α _ _ x y z
  have t2 := @Std.TransOrd.isLE_trans α _ _ x z y
  have t3 := @Std.TransOrd.isLE_trans α _ _ y x z
  have t4 := @Std.TransOrd.isLE_trans α _ _ y z x
  have t5 := @Std.TransOrd.isLE_trans α _ _ z x y
  have t6 := @Std.TransOrd.isLE_trans α _ _ z y x
  rw [sxy, syz, sxz] at *
  revert t1 t2 t3 t4 t5 t6
  generalize compare x y = ab; generalize compare y z = bc; generalize compare x z = ac
  cases ab <;> cases bc <;> cases ac <;> simp [tri]

/-- first non-`eq` outcome along two zipped lists (Python: `cmparr`) -/
def lexArr {α β} (f : α → β → Ordering) : List α → List β → Ordering
  | x :: xs, y :: ys => (f x y).then (lexArr f xs ys)
  | _, _ => .eq

theorem tri_lexArr {α} (f : α → α → Ordering) :
    ∀ (xs ys zs : List α), xs.length = ys.length → ys.length = zs.length →
      (∀ x ∈ xs, ∀ y ∈ ys, ∀ z ∈ zs, tri (f x y) (f y z) (f x z)) →
      tri (lexArr f xs ys) (lexArr f ys zs) (lexArr f xs zs)
  | [], [], [], _, _, _ => by simp [lexArr, tri]
  | x :: xs, y :: ys, z :: zs, h1, h2, h => by
      simp only [lexArr]
      apply tri_then
      · exact h x (by simp) y (by simp) z (by simp)
      · apply tri_lexArr f xs ys zs (by simpa using h1) (by simpa using h2)
        intro a ha b hb c hc
        exact h a (by simp [ha]) b (by simp [hb]) c (by simp [hc])
  | [], _ :: _, _, h1, _, _ => by simp at h1
  | _ :: _, [], _, h1, _, _ => by simp at h1
  | _, [], _ :: _, _, h2, _ => by simp at h2
  | _, _ :: _, [], _, h2, _ => by simp at h2

theorem swap_lexArr {α} (f : α → α → Ordering) :
    ∀ (xs ys : List α), (∀ x ∈ xs, ∀ y ∈ ys, f x y = (f y x).swap) →
      lexArr f xs ys = (lexArr f ys xs).swap
  | [], [], _ => rfl
  | [], _ :: _, _ => rfl
  | _ :: _, [], _ => rfl
  | x :: xs, y :: ys, h => by
      simp only [lexArr, Ordering.swap_then]
      rw [h x (by simp) y (by simp), swap_lexArr f xs ys]
      intro a ha b hb
      exact h a (by simp [ha]) b (by simp [hb])

end Pyg
