/-
  C05 (round k3): calendar OBJECTS with a lazily built table (PygModel/Calendar.lean `CalObj`, `ObjRegistry`): the table of an object
  is never stale, so an object answers what the calendar value answers; registry frame lemmas for objects.
-/
import PygModel.Calendar
import PygProofs.Lemmas.CalendarLemmas

namespace Pyg.Calendar
open Pyg

/-- the table of an object, if built, is the table of ITS configuration -/
def CalObj.WF (o : CalObj) : Prop := o.tbl = none ∨ o.tbl = some o.cal.bdays

theorem CalObj.fresh_wf (c : Cal) : (CalObj.fresh c).WF := Or.inl rfl

theorem CalObj.table_of_wf (o : CalObj) (h : o.WF) : o.table = o.cal.bdays := by
  unfold CalObj.table
  rcases h with h | h <;> rw [h]

theorem CalObj.populate_cal (o : CalObj) : o.populate.cal = o.cal := by
  unfold CalObj.populate; split <;> rfl

theorem CalObj.populate_wf (o : CalObj) (h : o.WF) : o.populate.WF := by
  unfold CalObj.populate
  split
  · exact h
  · exact Or.inr rfl

theorem CalObj.populate_table (o : CalObj) (h : o.WF) : o.populate.table = o.cal.bdays := by
  rw [CalObj.table_of_wf _ (CalObj.populate_wf o h), CalObj.populate_cal]

theorem CalObj.use_cal (o : CalObj) (u : Use) : (o.use u).1.cal = o.cal := by
  cases u <;> simp only [CalObj.use] <;> (try split) <;> simp [CalObj.populate_cal]

theorem CalObj.use_wf (o : CalObj) (h : o.WF) (u : Use) : (o.use u).1.WF := by
  cases u <;> simp only [CalObj.use] <;> (try split) <;> first | exact h | exact CalObj.populate_wf o h

/-- the single-step path of `add` does not read the table -/
theorem addT_small (c : Cal) (t1 t2 : List Int) (a : Adj) (t n : Int) (h : ¬ n.natAbs > 1) : c.addT t1 a t n = c.addT t2 a t n := by
  unfold Cal.addT; simp only [h, if_false]

/-- an object whose table is not stale answers every operation as the calendar value does -/
theorem CalObj.use_ans (o : CalObj) (h : o.WF) (u : Use) : (o.use u).2 = o.cal.use u := by
  cases u with
  | isb t => rfl
  | adjust a t => rfl
  | add a t n =>
    simp only [CalObj.use, Cal.use, Cal.add]
    split
    · simp only [CalObj.populate_table o h]
    · next hn => simp only [addT_small o.cal [] o.cal.bdays a t n hn]
  | bdays a x y => simp only [CalObj.use, Cal.use, Cal.bdaysBetween, CalObj.populate_table o h]
  | drange x y b => simp only [CalObj.use, Cal.use, Cal.drangeB, CalObj.populate_table o h]
  | clock t => simp only [CalObj.use, Cal.use, Cal.clock, CalObj.populate_table o h]

theorem oget?_set_same (r : ObjRegistry) (k : String) (o : CalObj) : (r.set k o).get? k = some o := by
  simp [ObjRegistry.set, ObjRegistry.get?]

theorem oget?_set_other (r : ObjRegistry) (k k' : String) (o : CalObj) (h : k' ≠ k) :
    (r.set k' o).get? k = r.get? k := by
  have h1 : (k' == k) = false := by simpa using h
  simp only [ObjRegistry.set, ObjRegistry.get?, List.find?, h1]
  congr 1
  apply find?_filter_of_imp
  intro e he
  have : e.1 = k := by simpa using he
  simp [this]
  intro e'; exact h e'.symm

theorem ocalendar_fetch (month : Int → Int) (r : ObjRegistry) (k : String) (o : CalObj) (h : r.get? k = some o) :
    r.calendar month k ⟨none, none, none, none⟩ = (r, o) := by
  simp [ObjRegistry.calendar, h, CalArgs.isDefault]

/-- a `calendar(k', …)` call that does not (re-)register `k` leaves the OBJECT of `k` alone -/
theorem ocalendar_frame (month : Int → Int) (r : ObjRegistry) (k k' : String) (a : CalArgs) (o : CalObj)
    (hk : r.get? k = some o) (h : k' = k → a.isDefault = true) :
    ((r.calendar month k' a).1).get? k = some o := by
  unfold ObjRegistry.calendar
  by_cases e : k' = k
  · subst e
    simp [hk, h rfl]
  · cases hg : r.get? k' <;> cases hd : a.isDefault <;> simp [oget?_set_other r k k' _ e, hk]

end Pyg.Calendar
