/-
  C04: `squeeze` (blanks around the date separators, which the `ambiguity` regex allows as `\s*`) maps every padded
  spelling `a <sep> b <sep> yyyy[ time]` to the tight text the dialect theorems are about.
-/
import PygModel.DateParse
import PygProofs.Lemmas.DateTextLemmas
namespace Pyg.DateParse
open Pyg Pyg.Bump

/-- a character `squeeze` copies without looking at its neighbours: not a blank, not `/`, not `-` -/
def Plain (c : Char) : Prop := c ≠ ' ' ∧ c ≠ '/' ∧ c ≠ '-'

theorem plain_of_digit (c : Char) (h : c.isDigit = true) : Plain c := by
  refine ⟨?_, ?_, ?_⟩ <;> rintro rfl <;> exact absurd h (by decide)

theorem squeezeGo_plain_run (ds rest : List Char) (h : ∀ c ∈ ds, Plain c) :
    squeezeGo false false (ds ++ rest) = ds ++ squeezeGo false false rest := by
  induction ds with
  | nil => rfl
  | cons c r ih =>
    obtain ⟨h0, h1, h2⟩ := h c (by simp)
    simp only [List.cons_append, squeezeGo, h0, h1, h2, if_false, decide_false, Bool.or_false, Bool.false_and, Bool.false_eq_true]
    rw [ih (fun x hx => h x (by simp [hx]))]

/-- a non-empty run of plain characters: ONE blank is written in front of it iff blanks were skipped and the last character
written was not a separator -/
theorem squeezeGo_plain (after pending : Bool) (c : Char) (ds rest : List Char) (h : ∀ x ∈ c :: ds, Plain x) :
    squeezeGo after pending (c :: ds ++ rest)
      = (if pending && !after then [' '] else []) ++ (c :: ds ++ squeezeGo false false rest) := by
  obtain ⟨h0, h1, h2⟩ := h c (by simp)
  have hr := squeezeGo_plain_run ds rest (fun x hx => h x (by simp [hx]))
  simp only [List.cons_append, squeezeGo, h0, h1, h2, if_false, decide_false, Bool.or_false, Bool.not_false, Bool.and_true]
  rw [hr]
  cases pending <;> cases after <;> simp

theorem squeezeGo_blanks (after pending : Bool) (l rest : List Char) (h : ∀ c ∈ l, c = ' ') :
    squeezeGo after pending (l ++ rest) = squeezeGo after (pending || !l.isEmpty) rest := by
  induction l generalizing pending with
  | nil => simp
  | cons c r ih =>
    have hc : c = ' ' := h c (by simp)
    subst hc
    simp only [List.cons_append, squeezeGo, if_true]
    rw [ih true (fun x hx => h x (by simp [hx]))]
    simp

theorem squeezeGo_sep (after pending : Bool) (s : Char) (rest : List Char) (hs : s = '/' ∨ s = '-') :
    squeezeGo after pending (s :: rest) = s :: squeezeGo true false rest := by
  rcases hs with rfl | rfl <;> cases pending <;> cases after <;> simp [squeezeGo]

/-- a separator of the quantifier's set that `squeeze` handles (the `.` is left alone: dateutil does not read blanks around it
as the tight text) -/
def IsSqSep (s : Char) : Prop := s = '/' ∨ s = '-' ∨ s = ' '

/-- a separator with blanks on both sides, after a plain character and in front of a plain run, is squeezed to the separator -/
theorem squeezeGo_padded_sep (s : Char) (hs : IsSqSep s) (l r : List Char) (hl : ∀ c ∈ l, c = ' ') (hr : ∀ c ∈ r, c = ' ')
    (c : Char) (ds rest : List Char) (h : ∀ x ∈ c :: ds, Plain x) :
    squeezeGo false false (l ++ s :: (r ++ (c :: ds ++ rest))) = s :: (c :: ds ++ squeezeGo false false rest) := by
  rcases hs with hs | hs | rfl
  · rw [squeezeGo_blanks _ _ l _ hl, squeezeGo_sep _ _ s _ (Or.inl hs), squeezeGo_blanks _ _ r _ hr, squeezeGo_plain _ _ c ds rest h]
    simp
  · rw [squeezeGo_blanks _ _ l _ hl, squeezeGo_sep _ _ s _ (Or.inr hs), squeezeGo_blanks _ _ r _ hr, squeezeGo_plain _ _ c ds rest h]
    simp
  · have hb : ∀ x ∈ l ++ ' ' :: r, x = ' ' := by
      intro x hx; simp only [List.mem_append, List.mem_cons] at hx
      rcases hx with hx | rfl | hx
      · exact hl x hx
      · rfl
      · exact hr x hx
    have e : l ++ ' ' :: (r ++ (c :: ds ++ rest)) = (l ++ ' ' :: r) ++ (c :: ds ++ rest) := by simp
    rw [e, squeezeGo_blanks _ _ _ _ hb, squeezeGo_plain _ _ c ds rest h]
    simp

/-- a time suffix is empty or a lead (blank / `T`) followed by plain characters -/
theorem TimeText.squeeze_id {tm : List Char} {a b : Int} (h : TimeText tm a b) : squeezeGo false false tm = tm := by
  have pl : ∀ k (cs : List Char), IsNumeral k cs → ∀ x ∈ cs, Plain x := fun k cs hn x hx => plain_of_digit x (hn.2.2 x hx)
  have colon : Plain ':' := by unfold Plain; decide
  have dot : Plain '.' := by unfold Plain; decide
  have tee : Plain 'T' := by unfold Plain; decide
  have key : ∀ (l : Char) (p : List Char), IsLead l → p ≠ [] → (∀ x ∈ p, Plain x) → squeezeGo false false (l :: p) = l :: p := by
    intro l p hl hp hpl
    cases p with
    | nil => exact absurd rfl hp
    | cons c ds =>
      rcases hl with rfl | rfl
      · have := squeezeGo_blanks false false [' '] (c :: ds) (by simp)
        simp only [List.cons_append, List.nil_append] at this
        rw [this]
        have e : (false || ![' '].isEmpty) = true := by decide
        rw [e]
        have h2 := squeezeGo_plain false true c ds [] hpl
        simp only [List.append_nil] at h2
        rw [h2]; simp [squeezeGo]
      · have h2 := squeezeGo_plain_run ('T' :: c :: ds) [] (by
          intro x hx; simp only [List.mem_cons] at hx
          rcases hx with rfl | hx
          · exact tee
          · exact hpl x (by simpa using hx))
        simpa [squeezeGo] using h2
  cases h with
  | none => rfl
  | hm l hh mm hl h1 h2 _ _ =>
    refine key l _ hl (by have := h1.len_pos; intro e; simp at e) ?_
    intro x hx; simp only [List.mem_append, List.mem_cons] at hx
    rcases hx with hx | rfl | hx
    · exact pl 2 hh h1 x hx
    · exact colon
    · exact pl 2 mm h2 x hx
  | hms l hh mm ss hl h1 h2 h3 _ _ _ =>
    refine key l _ hl (by have := h1.len_pos; intro e; simp at e) ?_
    intro x hx; simp only [List.mem_append, List.mem_cons] at hx
    rcases hx with hx | rfl | hx | rfl | hx
    · exact pl 2 hh h1 x hx
    · exact colon
    · exact pl 2 mm h2 x hx
    · exact colon
    · exact pl 2 ss h3 x hx
  | frac l hh mm ss fr hl h1 h2 h3 h4 _ _ _ =>
    refine key l _ hl (by have := h1.len_pos; intro e; simp at e) ?_
    intro x hx; simp only [List.mem_append, List.mem_cons] at hx
    rcases hx with hx | rfl | hx | rfl | hx | rfl | hx
    · exact pl 2 hh h1 x hx
    · exact colon
    · exact pl 2 mm h2 x hx
    · exact colon
    · exact pl 2 ss h3 x hx
    · exact dot
    · exact pl 6 fr h4 x hx

/-- EVERY spelling `a<blanks><sep><blanks>b<blanks><sep><blanks>yyyy[ time]` (sep one of `/`, `-`, blank) is squeezed to the tight
text `a<sep>b<sep>yyyy[ time]` -/
theorem squeeze_padded_seps (a b yy tm : List Char) (s1 s2 : Char) (l1 r1 l2 r2 : List Char) (hms us : Int)
    (ha : IsNumeral 2 a) (hb : IsNumeral 2 b) (hy : IsNumeral 4 yy) (h1 : IsSqSep s1) (h2 : IsSqSep s2)
    (bl1 : ∀ c ∈ l1, c = ' ') (br1 : ∀ c ∈ r1, c = ' ') (bl2 : ∀ c ∈ l2, c = ' ') (br2 : ∀ c ∈ r2, c = ' ') (ht : TimeText tm hms us) :
    squeeze (a ++ (l1 ++ s1 :: (r1 ++ (b ++ (l2 ++ s2 :: (r2 ++ (yy ++ tm))))))) = a ++ s1 :: (b ++ s2 :: (yy ++ tm)) := by
  have pa : ∀ x ∈ a, Plain x := fun x hx => plain_of_digit x (ha.2.2 x hx)
  have pb : ∀ x ∈ b, Plain x := fun x hx => plain_of_digit x (hb.2.2 x hx)
  have py : ∀ x ∈ yy, Plain x := fun x hx => plain_of_digit x (hy.2.2 x hx)
  unfold squeeze
  rw [squeezeGo_plain_run a _ pa]
  match b, hb.1, pb with
  | b0 :: bs, _, pb =>
    match yy, hy.1, py with
    | y0 :: ys, _, py =>
      rw [squeezeGo_padded_sep s1 h1 l1 r1 bl1 br1 b0 bs _ pb]
      rw [squeezeGo_padded_sep s2 h2 l2 r2 bl2 br2 y0 ys _ py]
      rw [ht.squeeze_id]

end Pyg.DateParse
