/-
  Helper lemmas for C11 (pivot): `cmp` of key tuples decomposes into the x part and the y part;
  the cell that `pivotCell` computes.
-/
import PygModel.Group
import PygProofs.Lemmas.GroupLemmas
import PygProofs.Lemmas.UnlistLemmas

namespace Pyg

theorem normList_length : ∀ xs : List Val, (normList xs).length = xs.length
  | [] => rfl
  | x :: xs => by simp [normList, normList_length xs]

theorem normList_append : ∀ xs ys : List Val, normList (xs ++ ys) = normList xs ++ normList ys
  | [], ys => rfl
  | x :: xs, ys => by simp [normList, normList_append xs ys]

theorem cmpArr_append : ∀ (a a' b b' : List Val), a.length = a'.length →
    cmpArr (a ++ b) (a' ++ b') = (cmpArr a a').then (cmpArr b b')
  | [], [], b, b', _ => by simp [cmpArr]
  | x :: a, y :: a', b, b', h => by
    simp only [List.cons_append, cmpArr]
    rw [cmpArr_append a a' b b' (by simpa using h), Ordering.then_assoc]
  | [], _ :: _, _, _, h => by simp at h
  | _ :: _, [], _, _, h => by simp at h

theorem then_eq_eq_iff (a b : Ordering) : a.then b = .eq ↔ a = .eq ∧ b = .eq := by
  cases a <;> cases b <;> simp [Ordering.then]

theorem cmp_tuple (a b : List Val) (h : a.length = b.length) :
    cmp (.tuple a) (.tuple b) = cmpArr (normList a) (normList b) := by
  simp [cmp, Val.norm, cmpN, normList_length, h]

/-- key tuples `(x.., y)`: equal iff the x parts are equal and the y parts are equal -/
theorem cmp_tuple_snoc (xs xs' : List Val) (y y' : Val) (h : xs.length = xs'.length) :
    cmp (.tuple (xs ++ [y])) (.tuple (xs' ++ [y'])) = .eq ↔
      cmp (.tuple xs) (.tuple xs') = .eq ∧ cmp (.tuple [y]) (.tuple [y']) = .eq := by
  rw [cmp_tuple _ _ (by simp [h]), cmp_tuple _ _ h, cmp_tuple [y] [y'] rfl, normList_append,
    normList_append, cmpArr_append _ _ _ _ (by simp [normList_length, h]), then_eq_eq_iff]

/-! ### the pivot cell -/

/-- the `(x.., y)` keys of `n` rows whose x cells are `xp i` and whose y cell is `yc i` -/
def xyKeys (n : Nat) (xp : Nat → List Val) (yc : Nat → Val) : List Val :=
  (List.range n).map fun i => .tuple (xp i ++ [yc i])

theorem xyKeys_get {n : Nat} {xp : Nat → List Val} {yc : Nat → Val} {i : Nat} (hi : i < n) :
    keyAt (xyKeys n xp yc) i = .tuple (xp i ++ [yc i]) := by
  simp [keyAt, xyKeys, List.getD_eq_getElem?_getD, hi]

theorem xPart_snoc (xs : List Val) (y : Val) : xPart xs.length (.tuple (xs ++ [y])) = .tuple xs := by
  simp [xPart]

theorem tupleGet_snoc (xs : List Val) (y : Val) : tupleGet xs.length (.tuple (xs ++ [y])) = y := by
  simp [tupleGet, List.getD_eq_getElem?_getD]

/-- every `(x, y)` group's key is the key of one of its rows -/
theorem xyg_rep {n : Nat} (xp : Nat → List Val) (yc : Nat → Val) (hn : n ≠ 0)
    (g : Grp) (hg : g ∈ listbyG (xyKeys n xp yc)) :
    ∃ l, l < n ∧ l ∈ g.2 ∧ g.1 = .tuple (xp l ++ [yc l]) := by
  have hne : xyKeys n xp yc ≠ [] := by
    intro h; have := congrArg List.length h; simp [xyKeys] at this; exact hn this
  have hn' := listbyG_nonempty hne g hg
  obtain ⟨l, hl⟩ : ∃ l, g.2.getLast? = some l := by
    cases h : g.2.getLast? with
    | none => simp at h; exact absurd h hn'
    | some l => exact ⟨l, rfl⟩
  have hk := listbyG_rep _ g hg l hl
  have hlt : l < n := by
    have := (List.getElem?_eq_some_iff.1 hk).1
    simpa [xyKeys] using this
  refine ⟨l, hlt, List.mem_of_getLast? hl, ?_⟩
  have := keyAt_of_get hk
  rw [xyKeys_get hlt] at this
  exact this.symm

/-- **pivot cell**: for an x-group `gx` and a y-label group `gy`, `pivotCell` is `None` when no row
has that x key and that y value, and otherwise the aggregate of the z values of exactly those rows,
in original row order. -/
theorem pivotCell_spec (n nx : Nat) (xp : Nat → List Val) (yc : Nat → Val) (zs : List Cell)
    (agg : Agg) (hn : n ≠ 0) (hxp : ∀ i, (xp i).length = nx)
    (gx gy : Grp)
    (hgx : gx ∈ listbyG ((listbyG (xyKeys n xp yc)).map fun g => xPart nx g.1)) :
    let rows := (List.range n).filter fun i =>
      cmp (.tuple (xp i)) gx.1 == .eq && cmp (.tuple [yc i]) gy.1 == .eq
    pivotCell (listbyG (xyKeys n xp yc)) nx zs agg gx.2 gy.1 =
      if rows = [] then .cell .none else agg.apply (rows.map fun i => zs.getD i .none) := by
  intro rows
  -- abbreviations
  generalize hxyg : listbyG (xyKeys n xp yc) = xyg at hgx ⊢
  have hmemg : ∀ g, g ∈ xyg → g ∈ listbyG (xyKeys n xp yc) := by intro g hg; rw [hxyg]; exact hg
  -- membership of a row in an (x, y) group, through the representative
  have hrow : ∀ g ∈ xyg, ∀ l, g.1 = .tuple (xp l ++ [yc l]) → ∀ i,
      i ∈ g.2 ↔ i < n ∧ cmp (.tuple (xp i)) (.tuple (xp l)) = .eq ∧
        cmp (.tuple [yc i]) (.tuple [yc l]) = .eq := by
    intro g hg l hl i
    rw [mem_group_iff (hmemg g hg)]
    simp only [xyKeys, List.length_map, List.length_range]
    constructor
    · rintro ⟨hi, he⟩
      have := xyKeys_get (xp := xp) (yc := yc) hi
      simp only [xyKeys] at this
      rw [this, hl, cmp_tuple_snoc _ _ _ _ (by rw [hxp, hxp])] at he
      exact ⟨hi, he⟩
    · rintro ⟨hi, he⟩
      have := xyKeys_get (xp := xp) (yc := yc) hi
      simp only [xyKeys] at this
      refine ⟨hi, ?_⟩
      rw [this, hl, cmp_tuple_snoc _ _ _ _ (by rw [hxp, hxp])]
      exact he
  -- membership of an (x, y) group in the x-group
  have hjx : ∀ j (hj : j < xyg.length) l, xyg[j].1 = .tuple (xp l ++ [yc l]) →
      (j ∈ gx.2 ↔ cmp (.tuple (xp l)) gx.1 = .eq) := by
    intro j hj l hl
    rw [mem_group_iff hgx]
    have : keyAt (xyg.map fun g => xPart nx g.1) j = .tuple (xp l) := by
      simp only [keyAt, List.getD_eq_getElem?_getD, List.getElem?_map, List.getElem?_eq_getElem hj,
        Option.map_some, Option.getD_some, hl]
      rw [← hxp l]; exact xPart_snoc _ _
    rw [this]
    simp [hj]
  have hgetD : ∀ j (hj : j < xyg.length), xyg.getD j (.cell .none, []) = xyg[j] := by
    intro j hj; simp [List.getD_eq_getElem?_getD, List.getElem?_eq_getElem hj]
  -- any (x, y) group selected by the filter holds exactly `rows`
  have hsel : ∀ j, j ∈ gx.2 →
      cmp (.tuple [tupleGet nx (xyg.getD j (.cell .none, [])).1]) gy.1 = .eq →
      (xyg.getD j (.cell .none, [])).2 = rows ∧ rows ≠ [] := by
    intro j hjin hjy
    have hj : j < xyg.length := by
      have := ((mem_group_iff hgx).1 hjin).1
      simpa using this
    rw [hgetD j hj] at hjy ⊢
    have hgj : xyg[j] ∈ xyg := List.getElem_mem hj
    obtain ⟨l, hl, hlm, hrep⟩ := xyg_rep xp yc hn xyg[j] (hmemg _ hgj)
    have hx : cmp (.tuple (xp l)) gx.1 = .eq := (hjx j hj l hrep).1 hjin
    have hy : cmp (.tuple [yc l]) gy.1 = .eq := by
      rw [hrep, ← hxp l, tupleGet_snoc] at hjy; exact hjy
    have heq : xyg[j].2 = rows := by
      rw [group_eq_filter (hmemg _ hgj)]
      simp only [xyKeys, List.length_map, List.length_range, rows]
      apply List.filter_congr
      intro i hi
      have hi' : i < n := List.mem_range.1 hi
      have hk := xyKeys_get (xp := xp) (yc := yc) hi'
      simp only [xyKeys] at hk
      rw [hk, hrep]
      have h1 := cmp_tuple_snoc (xp i) (xp l) (yc i) (yc l) (by rw [hxp, hxp])
      have e1 : cmp (.tuple (xp i)) (.tuple (xp l)) = cmp (.tuple (xp i)) gx.1 :=
        cmp_congr (cmp_self _) hx
      have e2 : cmp (.tuple [yc i]) (.tuple [yc l]) = cmp (.tuple [yc i]) gy.1 :=
        cmp_congr (cmp_self _) hy
      rw [← e1, ← e2]
      rw [Bool.eq_iff_iff]
      simp only [beq_iff_eq, Bool.and_eq_true]
      exact h1
    refine ⟨heq, ?_⟩
    rw [← heq]
    intro h; rw [h] at hlm; cases hlm
  simp only [pivotCell]
  split
  · rename_i hnone
    -- no (x, y) group selected: no row has this x key and y value
    have hJ : (gx.2.filter fun j =>
        cmp (.tuple [tupleGet nx (xyg.getD j (.cell .none, [])).1]) gy.1 == .eq) = [] := by
      simpa using hnone
    have hrows : rows = [] := by
      rw [List.eq_nil_iff_forall_not_mem]
      intro i hi
      simp only [rows, List.mem_filter, List.mem_range, Bool.and_eq_true, beq_iff_eq] at hi
      obtain ⟨hin, hix, hiy⟩ := hi
      -- the (x, y) group of row i
      obtain ⟨g, hg, hig⟩ := mem_listbyG.2 (show i < (xyKeys n xp yc).length by simpa [xyKeys] using hin)
      rw [hxyg] at hg
      obtain ⟨j, hj, rfl⟩ := List.getElem_of_mem hg
      obtain ⟨l, hl, _, hrep⟩ := xyg_rep xp yc hn xyg[j] (hmemg _ hg)
      have hil := (hrow xyg[j] hg l hrep i).1 hig
      have hx : cmp (.tuple (xp l)) gx.1 = .eq := cmp_eq_trans (cmp_eq_symm hil.2.1) hix
      have hy : cmp (.tuple [yc l]) gy.1 = .eq := cmp_eq_trans (cmp_eq_symm hil.2.2) hiy
      have hjmem : j ∈ gx.2.filter fun j =>
          cmp (.tuple [tupleGet nx (xyg.getD j (.cell .none, [])).1]) gy.1 == .eq := by
        rw [List.mem_filter]
        refine ⟨(hjx j hj l hrep).2 hx, ?_⟩
        rw [hgetD j hj, hrep, ← hxp l, tupleGet_snoc]
        simpa using hy
      rw [hJ] at hjmem; cases hjmem
    simp [hrows]
  · rename_i j hsome
    have hjm := List.mem_of_getLast? hsome
    rw [List.mem_filter] at hjm
    obtain ⟨h1, h2⟩ := hsel j hjm.1 (by simpa using hjm.2)
    rw [h1, if_neg h2]

/-! ### the keys `dictable[cols]` builds, in closed form -/

theorem keysOf_cols (t : Table) (ks : List String) (h : ∀ k ∈ ks, (t.col? k).isSome = true) :
    t.keysOf (ks.map .col) =
      .ok ((List.range t.nrows).map fun i => .tuple (ks.map fun k => .cell (t.jcellAt k i))) := by
  have hm : (ks.map KeySpec.col).mapM t.keyCol =
      .ok ((ks.map KeySpec.col).map fun s => match s with
        | .col k => ((t.col? k).getD []).map Val.cell
        | .fn _ => []) := by
    apply mapM_ok_of_forall
    intro s hs
    obtain ⟨k, hk, rfl⟩ := List.mem_map.1 hs
    have := h k hk
    simp only [Table.keyCol]
    cases hc : t.col? k with
    | none => simp [hc] at this
    | some xs => simp
  simp only [Table.keysOf, hm, bind, Except.bind, pure, Except.pure, zipCols, List.map_map]
  congr 1
  apply List.map_congr_left
  intro i _
  congr 1
  apply List.map_congr_left
  intro k _
  simp only [Function.comp_def, Table.jcellAt, List.getD_eq_getElem?_getD, List.getElem?_map]
  cases ((t.col? k).getD [])[i]? <;> simp

/-- x cells and y cell of row `i` -/
def xCells (t : Table) (x : List String) (i : Nat) : List Val := x.map fun k => .cell (t.jcellAt k i)
def yCell (t : Table) (y : String) (i : Nat) : Val := .cell (t.jcellAt y i)

theorem keysOf_xy (t : Table) (x : List String) (y : String)
    (h : ∀ k ∈ x ++ [y], (t.col? k).isSome = true) :
    t.keysOf ((x ++ [y]).map .col) = .ok (xyKeys t.nrows (xCells t x) (yCell t y)) := by
  rw [keysOf_cols t (x ++ [y]) h]
  simp [xyKeys, xCells, yCell]

/-- every row has its x-group and its y-label group -/
theorem pivot_addresses (n nx : Nat) (xp : Nat → List Val) (yc : Nat → Val) (hn : n ≠ 0)
    (hxp : ∀ i, (xp i).length = nx) (i : Nat) (hi : i < n) :
    (∃ gx ∈ listbyG ((listbyG (xyKeys n xp yc)).map fun g => xPart nx g.1),
      cmp (.tuple (xp i)) gx.1 = .eq) ∧
    (∃ gy ∈ listbyG (((listbyG (xyKeys n xp yc)).map fun g => tupleGet nx g.1).map fun v => .tuple [v]),
      cmp (.tuple [yc i]) gy.1 = .eq) := by
  obtain ⟨g, hg, hig⟩ := mem_listbyG.2 (show i < (xyKeys n xp yc).length by simpa [xyKeys] using hi)
  obtain ⟨j, hj, rfl⟩ := List.getElem_of_mem hg
  obtain ⟨l, hl, _, hrep⟩ := xyg_rep xp yc hn _ hg
  have hil := (mem_group_iff hg).1 hig
  rw [xyKeys_get hi, hrep, cmp_tuple_snoc _ _ _ _ (by rw [hxp, hxp])] at hil
  constructor
  · have hjl : j < ((listbyG (xyKeys n xp yc)).map fun g => xPart nx g.1).length := by simpa using hj
    obtain ⟨gx, hgx, hjgx⟩ := mem_listbyG.2 hjl
    refine ⟨gx, hgx, ?_⟩
    have := ((mem_group_iff hgx).1 hjgx).2
    have hk : keyAt ((listbyG (xyKeys n xp yc)).map fun g => xPart nx g.1) j = .tuple (xp l) := by
      simp only [keyAt, List.getD_eq_getElem?_getD, List.getElem?_map, List.getElem?_eq_getElem hj,
        Option.map_some, Option.getD_some, hrep]
      rw [← hxp l]; exact xPart_snoc _ _
    rw [hk] at this
    exact cmp_eq_trans hil.2.1 this
  · have hjl : j < (((listbyG (xyKeys n xp yc)).map fun g => tupleGet nx g.1).map
        fun v => Val.tuple [v]).length := by simpa using hj
    obtain ⟨gy, hgy, hjgy⟩ := mem_listbyG.2 hjl
    refine ⟨gy, hgy, ?_⟩
    have := ((mem_group_iff hgy).1 hjgy).2
    have hk : keyAt (((listbyG (xyKeys n xp yc)).map fun g => tupleGet nx g.1).map
        fun v => Val.tuple [v]) j = .tuple [yc l] := by
      simp only [keyAt, List.getD_eq_getElem?_getD, List.getElem?_map, List.getElem?_eq_getElem hj,
        Option.map_some, Option.getD_some, hrep]
      rw [← hxp l, tupleGet_snoc]
    rw [hk] at this
    exact cmp_eq_trans hil.2.2 this

end Pyg
