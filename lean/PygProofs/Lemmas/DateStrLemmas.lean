/-
  Char-level lemmas for C04: what the model's scanner reads back from the fixed-width text `dt2str` writes.
-/
import PygModel.DateParse
import PygProofs.Lemmas.TokenLemmas
import PygProofs.Lemmas.DateLemmas
import PygProofs.Lemmas.GregPeriod
namespace Pyg.DateParse
open Pyg Pyg.Bump

theorem ofNat_digit : ∀ k, k < 10 → (Char.ofNat (48 + k)).isDigit = true ∧ (Char.ofNat (48 + k)).isAlpha = false
    ∧ (Char.ofNat (48 + k)).toNat - 48 = k := by decide

theorem digit_isDigit (n : Nat) : (digit n).isDigit = true := (ofNat_digit (n % 10) (Nat.mod_lt _ (by omega))).1
theorem digit_not_alpha (n : Nat) : (digit n).isAlpha = false := (ofNat_digit (n % 10) (Nat.mod_lt _ (by omega))).2.1
theorem digit_val (n : Nat) : (digit n).toNat - 48 = n % 10 := (ofNat_digit (n % 10) (Nat.mod_lt _ (by omega))).2.2

theorem digitsVal_pad2 (n : Nat) : digitsVal (pad2 n) = (n / 10 % 10) * 10 + n % 10 := by
  simp [digitsVal, pad2, digit_val]; omega
theorem digitsVal_pad4 (n : Nat) : digitsVal (pad4 n) = (n / 1000 % 10) * 1000 + (n / 100 % 10) * 100 + (n / 10 % 10) * 10 + n % 10 := by
  simp [digitsVal, pad4, digit_val]; omega
theorem digitsVal_pad6 (n : Nat) : digitsVal (pad6 n) = (n / 100000 % 10) * 100000 + (n / 10000 % 10) * 10000 + (n / 1000 % 10) * 1000 + (n / 100 % 10) * 100 + (n / 10 % 10) * 10 + n % 10 := by
  simp [digitsVal, pad6, digit_val]; omega

theorem all_pad2 (n : Nat) : ∀ c ∈ pad2 n, c.isDigit = true := by
  intro c hc; simp [pad2] at hc; rcases hc with rfl | rfl <;> exact digit_isDigit _
theorem all_pad4 (n : Nat) : ∀ c ∈ pad4 n, c.isDigit = true := by
  intro c hc; simp [pad4] at hc; rcases hc with rfl | rfl | rfl | rfl <;> exact digit_isDigit _
theorem all_pad6 (n : Nat) : ∀ c ∈ pad6 n, c.isDigit = true := by
  intro c hc; simp [pad6] at hc; rcases hc with rfl | rfl | rfl | rfl | rfl | rfl <;> exact digit_isDigit _

theorem spanDigits_all (ds : List Char) (hd : ∀ c ∈ ds, c.isDigit = true) : spanDigits ds = (ds, []) := by
  induction ds with
  | nil => rfl
  | cons c cs ih =>
    have hc : c.isDigit = true := hd c (by simp)
    have := ih (fun x hx => hd x (by simp [hx]))
    simp [spanDigits, hc, this]

/-- a run of digits followed by a non-digit (or the end) is one `num` token -/
theorem scan_num (fuel : Nat) (hf : 0 < fuel) (d0 : Char) (ds rest : List Char) (hd : ∀ c ∈ d0 :: ds, c.isDigit = true)
    (hr : rest = [] ∨ ∃ u r, rest = u :: r ∧ u.isDigit = false) :
    scan fuel (d0 :: ds ++ rest) = .num (digitsVal (d0 :: ds)) (ds.length + 1) :: scan (fuel - 1) rest := by
  obtain ⟨f, rfl⟩ : ∃ f, fuel = f + 1 := ⟨fuel - 1, by omega⟩
  have h0 : d0.isDigit = true := hd d0 (by simp)
  have hs : spanDigits (d0 :: (ds ++ rest)) = (d0 :: ds, rest) := by
    rcases hr with rfl | ⟨u, r, rfl, hu⟩
    · simpa using spanDigits_all (d0 :: ds) hd
    · exact spanDigits_run (d0 :: ds) u r hd hu
  simp only [List.cons_append, scan, h0, if_true, hs, List.length_cons, Nat.add_sub_cancel]

theorem scan_sep (fuel : Nat) (hf : 0 < fuel) (c : Char) (rest : List Char) (h1 : c.isDigit = false) (h2 : c.isAlpha = false) :
    scan fuel (c :: rest) = .sep c :: scan (fuel - 1) rest := by
  obtain ⟨f, rfl⟩ : ∃ f, fuel = f + 1 := ⟨fuel - 1, by omega⟩
  simp [scan, h1, h2]

theorem scan_T (fuel : Nat) (hf : 0 < fuel) (n : Nat) (rest : List Char) :
    scan fuel ('T' :: digit n :: rest) = .word ['t'] :: scan (fuel - 1) (digit n :: rest) := by
  obtain ⟨f, rfl⟩ : ∃ f, fuel = f + 1 := ⟨fuel - 1, by omega⟩
  have h1 : 'T'.isDigit = false := by decide
  have h2 : 'T'.isAlpha = true := by decide
  have h3 : 'T'.toLower = 't' := by decide
  simp [scan, h1, h2, h3, spanAlpha, digit_not_alpha]

theorem scan_nil (fuel : Nat) : scan fuel [] = [] := by cases fuel <;> rfl

def NonDigitHead (rest : List Char) : Prop := rest = [] ∨ ∃ u r, rest = u :: r ∧ u.isDigit = false

theorem scan_pad2 (fuel : Nat) (hf : 0 < fuel) (n : Nat) (rest : List Char) (hr : NonDigitHead rest) :
    scan fuel (pad2 n ++ rest) = .num (digitsVal (pad2 n)) 2 :: scan (fuel - 1) rest :=
  scan_num fuel hf _ _ rest (all_pad2 n) hr
theorem scan_pad4 (fuel : Nat) (hf : 0 < fuel) (n : Nat) (rest : List Char) (hr : NonDigitHead rest) :
    scan fuel (pad4 n ++ rest) = .num (digitsVal (pad4 n)) 4 :: scan (fuel - 1) rest :=
  scan_num fuel hf _ _ rest (all_pad4 n) hr
theorem scan_pad6 (fuel : Nat) (hf : 0 < fuel) (n : Nat) (rest : List Char) (hr : NonDigitHead rest) :
    scan fuel (pad6 n ++ rest) = .num (digitsVal (pad6 n)) 6 :: scan (fuel - 1) rest :=
  scan_num fuel hf _ _ rest (all_pad6 n) hr

theorem ndh_cons (u : Char) (r : List Char) (h : u.isDigit = false) : NonDigitHead (u :: r) := Or.inr ⟨u, r, rfl, h⟩
theorem ndh_nil : NonDigitHead [] := Or.inl rfl

/-- the tokens of `yyyy-mm-ddTHH:MM:SS` followed by `tail` (empty, or `.ffffff`) -/
theorem scan_iso (fuel : Nat) (hf : 14 ≤ fuel) (y m d h mi s : Nat) (tail : List Char) (ht : NonDigitHead tail) :
    scan fuel (pad4 y ++ '-' :: (pad2 m ++ '-' :: (pad2 d ++ 'T' :: (pad2 h ++ ':' :: (pad2 mi ++ ':' :: (pad2 s ++ tail))))))
    = [.num (digitsVal (pad4 y)) 4, .sep '-', .num (digitsVal (pad2 m)) 2, .sep '-', .num (digitsVal (pad2 d)) 2, .word ['t'],
       .num (digitsVal (pad2 h)) 2, .sep ':', .num (digitsVal (pad2 mi)) 2, .sep ':', .num (digitsVal (pad2 s)) 2]
      ++ scan (fuel - 11) tail := by
  rw [scan_pad4 _ (by omega) _ _ (ndh_cons _ _ (by decide))]
  rw [scan_sep _ (by omega) _ _ (by decide) (by decide)]
  rw [scan_pad2 _ (by omega) _ _ (ndh_cons _ _ (by decide))]
  rw [scan_sep _ (by omega) _ _ (by decide) (by decide)]
  rw [scan_pad2 _ (by omega) _ _ (ndh_cons _ _ (by decide))]
  have hT : 'T' :: (pad2 h ++ ':' :: (pad2 mi ++ ':' :: (pad2 s ++ tail)))
      = 'T' :: digit (h / 10) :: ([digit h] ++ ':' :: (pad2 mi ++ ':' :: (pad2 s ++ tail))) := rfl
  rw [hT, scan_T _ (by omega)]
  have hT' : digit (h / 10) :: ([digit h] ++ ':' :: (pad2 mi ++ ':' :: (pad2 s ++ tail)))
      = pad2 h ++ ':' :: (pad2 mi ++ ':' :: (pad2 s ++ tail)) := rfl
  rw [hT']
  rw [scan_pad2 _ (by omega) _ _ (ndh_cons _ _ (by decide))]
  rw [scan_sep _ (by omega) _ _ (by decide) (by decide)]
  rw [scan_pad2 _ (by omega) _ _ (ndh_cons _ _ (by decide))]
  rw [scan_sep _ (by omega) _ _ (by decide) (by decide)]
  rw [scan_pad2 _ (by omega) _ _ ht]
  have e : fuel - 1 - 1 - 1 - 1 - 1 - 1 - 1 - 1 - 1 - 1 - 1 = fuel - 11 := by omega
  rw [e]; rfl

theorem scan_frac (fuel : Nat) (hf : 2 ≤ fuel) (us : Nat) :
    scan fuel ('.' :: pad6 us) = [.sep '.', .num (digitsVal (pad6 us)) 6] := by
  rw [scan_sep _ (by omega) _ _ (by decide) (by decide)]
  have := scan_pad6 (fuel - 1) (by omega) us [] ndh_nil
  rw [List.append_nil] at this
  rw [this, scan_nil]

theorem pad_lengths (n : Nat) : (pad2 n).length = 2 ∧ (pad4 n).length = 4 ∧ (pad6 n).length = 6 := ⟨rfl, rfl, rfl⟩

theorem dec2 (n : Nat) (h : n < 100) : n / 10 % 10 * 10 + n % 10 = n := by omega
theorem dec4 (n : Nat) (h : n < 10000) : n / 1000 % 10 * 1000 + n / 100 % 10 * 100 + n / 10 % 10 * 10 + n % 10 = n := by omega
theorem dec6 (n : Nat) (h : n < 1000000) :
    n / 100000 % 10 * 100000 + n / 10000 % 10 * 10000 + n / 1000 % 10 * 1000 + n / 100 % 10 * 100 + n / 10 % 10 * 10 + n % 10 = n := by omega

theorem val_pad2 (n : Nat) (h : n < 100) : digitsVal (pad2 n) = n := by rw [digitsVal_pad2]; exact dec2 n h
theorem val_pad4 (n : Nat) (h : n < 10000) : digitsVal (pad4 n) = n := by rw [digitsVal_pad4]; exact dec4 n h
theorem val_pad6 (n : Nat) (h : n < 1000000) : digitsVal (pad6 n) = n := by rw [digitsVal_pad6]; exact dec6 n h

theorem digitsVal_compact (y m d : Nat) (hy : y < 10000) (hm : m < 100) (hd : d < 100) :
    digitsVal [digit (y / 1000), digit (y / 100), digit (y / 10), digit y, digit (m / 10), digit m, digit (d / 10), digit d]
      = 10000 * y + 100 * m + d := by
  simp only [digitsVal, List.foldl, digit_val]
  have h1 := dec4 y hy; have h2 := dec2 m hm; have h3 := dec2 d hd
  generalize y / 1000 % 10 = a at *
  generalize y / 100 % 10 = b at *
  generalize y / 10 % 10 = c at *
  generalize y % 10 = e at *
  generalize m / 10 % 10 = f at *
  generalize m % 10 = g at *
  generalize d / 10 % 10 = i at *
  generalize d % 10 = j at *
  omega

/-- `yyyymmdd` is read back as its fields -/
theorem parse_compact (y m d : Nat) (hy : y < 10000) (hm : m < 100) (hd : d < 100) :
    parseCs (pad4 y ++ pad2 m ++ pad2 d) = some ⟨false, 0, y, m, d, 0, 0⟩ := by
  unfold parseCs
  have hl : (pad4 y ++ pad2 m ++ pad2 d).length + 1 = 9 := rfl
  rw [hl]
  have hs : pad4 y ++ pad2 m ++ pad2 d
      = digit (y / 1000) :: [digit (y / 100), digit (y / 10), digit y, digit (m / 10), digit m, digit (d / 10), digit d] ++ [] := rfl
  rw [hs, scan_num 9 (by omega) _ _ [] _ (Or.inl rfl), scan_nil]
  · rw [digitsVal_compact y m d hy hm hd]
    simp only [parseTokens, mk, List.length_cons, List.length_nil, Option.map_some,
      Option.some.injEq, Parsed.mk.injEq, true_and]
    have e1 : (10000 * y + 100 * m + d) / 10000 = y := by omega
    have e2 : (10000 * y + 100 * m + d) % 10000 / 100 = m := by omega
    have e3 : (10000 * y + 100 * m + d) % 100 = d := by omega
    rw [e1, e2, e3]; simp
  · intro c hc
    simp only [List.mem_cons, List.not_mem_nil, or_false] at hc
    rcases hc with rfl | rfl | rfl | rfl | rfl | rfl | rfl | rfl <;> exact digit_isDigit _

/-- `yyyy-mm-ddTHH:MM:SS` is read back as its fields -/
theorem parse_iso (y m d h mi s : Nat) (hy : y < 10000) (hm : m < 100) (hd : d < 100) (hh : h < 24) (hmi : mi < 60) (hs : s < 60) :
    parseCs (pad4 y ++ '-' :: (pad2 m ++ '-' :: (pad2 d ++ 'T' :: (pad2 h ++ ':' :: (pad2 mi ++ ':' :: (pad2 s ++ []))))))
      = some ⟨false, 0, y, m, d, ((h * 3600000000 + mi * 60000000 + s * 1000000 : Nat) : Int), 0⟩ := by
  unfold parseCs
  rw [scan_iso _ (by simp [pad_lengths]) y m d h mi s [] ndh_nil, scan_nil]
  rw [val_pad4 y hy, val_pad2 m hm, val_pad2 d hd, val_pad2 h (by omega), val_pad2 mi (by omega), val_pad2 s (by omega)]
  have hdash : isDateSep '-' = true := by decide
  simp [parseTokens, parseTime, mk, hh, hmi, hs, hdash]

/-- `yyyy-mm-ddTHH:MM:SS.ffffff` is read back as its fields -/
theorem parse_iso_frac (y m d h mi s us : Nat) (hy : y < 10000) (hm : m < 100) (hd : d < 100) (hh : h < 24) (hmi : mi < 60)
    (hs : s < 60) (hus : us < 1000000) :
    parseCs (pad4 y ++ '-' :: (pad2 m ++ '-' :: (pad2 d ++ 'T' :: (pad2 h ++ ':' :: (pad2 mi ++ ':' :: (pad2 s ++ '.' :: pad6 us))))))
      = some ⟨false, 0, y, m, d, ((h * 3600000000 + mi * 60000000 + s * 1000000 : Nat) : Int), (us : Int)⟩ := by
  unfold parseCs
  rw [scan_iso _ (by simp [pad_lengths]) y m d h mi s _ (ndh_cons _ _ (by decide)), scan_frac _ (by simp [pad_lengths])]
  rw [val_pad4 y hy, val_pad2 m hm, val_pad2 d hd, val_pad2 h (by omega), val_pad2 mi (by omega), val_pad2 s (by omega), val_pad6 us hus]
  have hdash : isDateSep '-' = true := by decide
  simp [parseTokens, parseTime, mk, hh, hmi, hs, hdash]

open Pyg.Greg in
/-- a non-ambiguous reading of a calendar date: both dialects return date + time of day -/
theorem decide_plain (uk : Bool) (y m d : Nat) (v : Valid y m d) (hms us : Int) :
    ((mkDateChecked y m d).bind fun _ =>
        if uk then ukDecide ⟨false, 0, y, m, d, hms, us⟩ else usDecide ⟨false, 0, y, m, d, hms, us⟩)
      = checkRange (mkDate y m d + hms + us) := by
  rw [mkDateChecked_valid y m d v]
  cases uk <;> simp [ukDecide, usDecide, mkDateChecked_valid y m d v, Except.bind]

theorem dby_1000 : Greg.dby 1000 = 364877 := by decide

/-- the four separators the `ambiguity` regex accepts -/
theorem sep_cases (c : Char) (h : isDateSep c = true) : c = '-' ∨ c = '/' ∨ c = '.' ∨ c = ' ' := by
  simp only [isDateSep, Bool.or_eq_true, decide_eq_true_eq] at h
  rcases h with ((h | h) | h) | h <;> simp [h]

theorem sep_props (c : Char) (h : isDateSep c = true) : c.isDigit = false ∧ c.isAlpha = false := by
  rcases sep_cases c h with rfl | rfl | rfl | rfl <;> decide

/-- the padded text `aa<sep>bb<sep>yyyy` is the ambiguous form with first number `a` -/
theorem parse_numeric3 (a b y : Nat) (s1 s2 : Char) (h1 : isDateSep s1 = true) (h2 : isDateSep s2 = true)
    (ha : a < 100) (hb : b < 100) (hy : y < 10000) :
    parseCs (pad2 a ++ s1 :: (pad2 b ++ s2 :: (pad4 y ++ [])))
      = some ⟨true, a, y, (duResolve a b).1, (duResolve a b).2, 0, 0⟩ := by
  have p1 := sep_props s1 h1
  have p2 := sep_props s2 h2
  unfold parseCs
  have hl : 6 ≤ (pad2 a ++ s1 :: (pad2 b ++ s2 :: (pad4 y ++ []))).length + 1 := by simp [pad_lengths]
  generalize (pad2 a ++ s1 :: (pad2 b ++ s2 :: (pad4 y ++ []))).length + 1 = fuel at *
  rw [scan_pad2 _ (by omega) _ _ (ndh_cons _ _ p1.1)]
  rw [scan_sep _ (by omega) _ _ p1.1 p1.2]
  rw [scan_pad2 _ (by omega) _ _ (ndh_cons _ _ p2.1)]
  rw [scan_sep _ (by omega) _ _ p2.1 p2.2]
  rw [scan_pad4 _ (by omega) _ _ ndh_nil, scan_nil]
  rw [val_pad2 a ha, val_pad2 b hb, val_pad4 y hy]
  simp [parseTokens, parseTime, mk, h1, h2]

/-! ### `str.strip()` -/

theorem dropWhile_ws_append (ws rest : List Char) (h : ∀ c ∈ ws, isWs c = true) :
    (ws ++ rest).dropWhile isWs = rest.dropWhile isWs := by
  induction ws with
  | nil => rfl
  | cons c cs ih =>
    have hc : isWs c = true := h c (by simp)
    simp only [List.cons_append, List.dropWhile_cons, hc, if_true]
    exact ih (fun x hx => h x (by simp [hx]))

theorem dropWhile_ws_cons (c : Char) (rest : List Char) (h : isWs c = false) : (c :: rest).dropWhile isWs = c :: rest := by
  simp [h]

/-- white space around a text that starts and ends with other characters is removed, nothing else -/
theorem strip_wrapped (ws1 ws2 mid : List Char) (c0 c1 : Char) (h1 : ∀ c ∈ ws1, isWs c = true) (h2 : ∀ c ∈ ws2, isWs c = true)
    (n0 : isWs c0 = false) (n1 : isWs c1 = false) :
    strip (ws1 ++ (c0 :: (mid ++ [c1])) ++ ws2) = c0 :: (mid ++ [c1]) := by
  unfold strip
  rw [List.append_assoc, dropWhile_ws_append _ _ h1]
  rw [show (c0 :: (mid ++ [c1])) ++ ws2 = c0 :: (mid ++ [c1] ++ ws2) by simp]
  rw [dropWhile_ws_cons _ _ n0]
  have hr : (c0 :: (mid ++ [c1] ++ ws2)).reverse = ws2.reverse ++ (c1 :: (mid.reverse ++ [c0])) := by simp
  rw [hr, dropWhile_ws_append _ _ (fun c hc => h2 c (by simpa using hc)), dropWhile_ws_cons _ _ n1]
  simp

theorem strip_id (mid : List Char) (c0 c1 : Char) (n0 : isWs c0 = false) (n1 : isWs c1 = false) :
    strip (c0 :: (mid ++ [c1])) = c0 :: (mid ++ [c1]) := by
  have := strip_wrapped [] [] mid c0 c1 (by simp) (by simp) n0 n1
  simpa using this

theorem ofNat_digit_ws : ∀ k, k < 10 → isWs (Char.ofNat (48 + k)) = false := by decide
theorem digit_not_ws (n : Nat) : isWs (digit n) = false := ofNat_digit_ws (n % 10) (Nat.mod_lt _ (by omega))

/-- the text `dt2str` writes starts and ends with a digit: `strip` leaves it alone -/
theorem strip_dt2strCs (t : Int) : strip (dt2strCs t) = dt2strCs t := by
  unfold dt2strCs
  simp only []
  split
  · have e : ∀ (y m d : Nat), pad4 y ++ pad2 m ++ pad2 d
        = digit (y / 1000) :: ([digit (y / 100), digit (y / 10), digit y, digit (m / 10), digit m, digit (d / 10)] ++ [digit d]) := by
      intros; rfl
    rw [e]; exact strip_id _ _ _ (digit_not_ws _) (digit_not_ws _)
  · split
    · have e : ∀ (y m d h mi s : Nat), pad4 y ++ '-' :: pad2 m ++ '-' :: pad2 d ++ 'T' :: pad2 h ++ ':' :: pad2 mi ++ ':' :: pad2 s
          = digit (y / 1000) :: ([digit (y / 100), digit (y / 10), digit y, '-', digit (m / 10), digit m, '-', digit (d / 10), digit d, 'T',
              digit (h / 10), digit h, ':', digit (mi / 10), digit mi, ':', digit (s / 10)] ++ [digit s]) := by
        intros; rfl
      rw [e]; exact strip_id _ _ _ (digit_not_ws _) (digit_not_ws _)
    · have e : ∀ (y m d h mi s us : Nat), pad4 y ++ '-' :: pad2 m ++ '-' :: pad2 d ++ 'T' :: pad2 h ++ ':' :: pad2 mi ++ ':' :: pad2 s ++ '.' :: pad6 us
          = digit (y / 1000) :: ([digit (y / 100), digit (y / 10), digit y, '-', digit (m / 10), digit m, '-', digit (d / 10), digit d, 'T',
              digit (h / 10), digit h, ':', digit (mi / 10), digit mi, ':', digit (s / 10), digit s, '.', digit (us / 100000),
              digit (us / 10000), digit (us / 1000), digit (us / 100), digit (us / 10)] ++ [digit us]) := by
        intros; rfl
      rw [e]; exact strip_id _ _ _ (digit_not_ws _) (digit_not_ws _)

/-! ### blanks around the separators (`squeeze`) -/

theorem squeezeGo_noblank (after : Bool) (cs : List Char) (h : ∀ c ∈ cs, c ≠ ' ') : squeezeGo after false cs = cs := by
  induction cs generalizing after with
  | nil => rfl
  | cons c r ih =>
    have hc : c ≠ ' ' := h c (by simp)
    simp only [squeezeGo, hc, if_false, Bool.false_and, Bool.false_eq_true]
    rw [ih _ (fun x hx => h x (by simp [hx]))]

theorem ofNat_digit_ne_blank : ∀ k, k < 10 → Char.ofNat (48 + k) ≠ ' ' := by decide
theorem digit_ne_blank (n : Nat) : digit n ≠ ' ' := ofNat_digit_ne_blank (n % 10) (Nat.mod_lt _ (by omega))

/-- the text `dt2str` writes has no blank: `squeeze` leaves it alone -/
theorem squeeze_dt2strCs (t : Int) : squeeze (dt2strCs t) = dt2strCs t := by
  apply squeezeGo_noblank
  intro c hc
  unfold dt2strCs at hc
  simp only [] at hc
  have hd : ∀ n, digit n ≠ ' ' := digit_ne_blank
  split at hc
  · simp only [pad4, pad2, List.mem_append, List.mem_cons, List.not_mem_nil, or_false] at hc
    rcases hc with (((h | h | h | h) | (h | h)) | (h | h)) <;> rw [h] <;> first | exact hd _ | decide
  · split at hc
    · simp only [pad4, pad2, List.mem_append, List.mem_cons, List.not_mem_nil, or_false, List.cons_append, List.nil_append] at hc
      rcases hc with h | h | h | h | h | h | h | h | h | h | h | h | h | h | h | h | h | h | h <;> rw [h] <;> first | exact hd _ | decide
    · simp only [pad4, pad2, pad6, List.mem_append, List.mem_cons, List.not_mem_nil, or_false, List.cons_append, List.nil_append] at hc
      rcases hc with h | h | h | h | h | h | h | h | h | h | h | h | h | h | h | h | h | h | h | h | h | h | h | h | h | h <;>
        rw [h] <;> first | exact hd _ | decide

theorem ofNat_digit_ne_seps : ∀ k, k < 10 → Char.ofNat (48 + k) ≠ '/' ∧ Char.ofNat (48 + k) ≠ '-' := by decide
theorem digit_ne_slash (n : Nat) : digit n ≠ '/' := (ofNat_digit_ne_seps (n % 10) (Nat.mod_lt _ (by omega))).1
theorem digit_ne_dash (n : Nat) : digit n ≠ '-' := (ofNat_digit_ne_seps (n % 10) (Nat.mod_lt _ (by omega))).2

/-- the tight padded text `aa<sep>bb<sep>yyyy` (any of the four separators, also the blank) is left alone by `squeeze` -/
theorem squeeze_padded (a b y : Nat) (s1 s2 : Char) (h1 : isDateSep s1 = true) (h2 : isDateSep s2 = true) :
    squeeze (pad2 a ++ s1 :: (pad2 b ++ s2 :: (pad4 y ++ []))) = pad2 a ++ s1 :: (pad2 b ++ s2 :: (pad4 y ++ [])) := by
  have b0 := digit_ne_blank; have b1 := digit_ne_slash; have b2 := digit_ne_dash
  rcases sep_cases s1 h1 with rfl | rfl | rfl | rfl <;> rcases sep_cases s2 h2 with rfl | rfl | rfl | rfl <;>
    simp [squeeze, squeezeGo, pad2, pad4, b0, b1, b2]

theorem mkDateChecked_cases (y m d : Int) : (∃ t, mkDateChecked y m d = .ok t) ∨ mkDateChecked y m d = .error .value := by
  unfold mkDateChecked; split
  · exact Or.inl ⟨_, rfl⟩
  · exact Or.inr rfl

end Pyg.DateParse
