/-
  The step of the drange model (C10: `DRange.bump1` / `DRange.dtBump`, closed-form `Civil` arithmetic) IS the C09
  model of `dt_bump` (`Pyg.Bump`, whose integer kernels are generated from the text of _dates.py and whose calendar
  is `Pyg.Greg`): whenever `Bump.applyStep` / `Bump.bumpCs` return a value from an instant `t ≥ 0`
  (0001-01-01 or later), that value is the DRange step.  So drange is specified against ONE model of dt_bump.
-/
import PygProofs.Lemmas.DRangeMonth
import PygProofs.Lemmas.CivilGreg
import PygProofs.Lemmas.MonthLemmas
import PygProofs.Lemmas.TokenLemmas

namespace Pyg.DRange
open Pyg

/-- the unit letter of the `period` regex -/
def Per.letter : Per → Char
  | .d => 'd' | .b => 'b' | .w => 'w' | .m => 'm' | .q => 'q' | .y => 'y' | .h => 'h' | .n => 'n' | .s => 's'

theorem unitOf_letter (u : Per) : unitOf u.letter = some u := by cases u <;> rfl

/-- the hand-written business-day offset of DRange.lean is the generated one -/
theorem bOff_eq_gen (w n : Int) : bOff w n = Gen.bOff w n := by
  unfold bOff Gen.bOff; simp only []; repeat' split
  all_goals omega

theorem wdT_eq (t : Int) : wdT t = Bump.wdOf t := by
  unfold wdT Bump.wdOf Bump.wd Bump.ordOf DAY Bump.DAYUS; omega

/-- `(t.year, t.month, t.day)` of the C09 model are the `Civil` fields, for every instant from 0001-01-01 on -/
theorem ymdOf_eq_civil (t : Int) (ht : 0 ≤ t) :
    Civil.ymd (dayOf t) = (((Bump.ymdOf t).y : Int), ((Bump.ymdOf t).m : Int), ((Bump.ymdOf t).d : Int)) := by
  have h1 : 1 ≤ (Bump.ordOf t).toNat := by unfold Bump.ordOf Bump.DAYUS; omega
  have e : dayOf t = ((Bump.ordOf t).toNat : Int) := by unfold dayOf Bump.ordOf DAY Bump.DAYUS; omega
  rw [e, Civil.ymd_eq_greg _ h1]; rfl

/-- the month / quarter / year step of the C09 model, `_ymd(t.year + dy, t.month + dm, t.day)` with the generated
`ym`/`ymd`, in terms of `Civil`: ValueError when the target year leaves 1..9999, otherwise the checked instant -/
theorem applyStep_ymdShift (t dy dm : Int) (ht : 0 ≤ t) :
    Bump.applyStep t (.ymdShift dy dm) =
      (if 1 ≤ (Civil.ymNorm ((Civil.ymd (dayOf t)).1 + dy) ((Civil.ymd (dayOf t)).2.1 + dm)).1 ∧
          (Civil.ymNorm ((Civil.ymd (dayOf t)).1 + dy) ((Civil.ymd (dayOf t)).2.1 + dm)).1 ≤ 9999 then
        Bump.checkRange ((Civil.ordYM ((Civil.ymd (dayOf t)).1 + dy) ((Civil.ymd (dayOf t)).2.1 + dm)
          (Civil.ymd (dayOf t)).2.2 - 1) * DAY)
      else .error .value) := by
  rw [ymdOf_eq_civil t ht]
  simp only [Bump.applyStep, Bump.ymdDate]
  obtain ⟨v, _⟩ := Greg.good_all (Bump.ordOf t).toNat (by unfold Bump.ordOf Bump.DAYUS; omega)
  have hd : ((Bump.ymdOf t).d : Int) ≤ 31 := by
    have := Greg.dim_bounds (Greg.fromOrd (Bump.ordOf t).toNat).y _ v.2.1 v.2.2.1
    have := v.2.2.2.2
    unfold Bump.ymdOf; omega
  rw [Bump.ymd_small_day _ _ _ (by omega)]
  generalize ((Bump.ymdOf t).y : Int) + dy = Y
  generalize ((Bump.ymdOf t).m : Int) + dm = M
  generalize ((Bump.ymdOf t).d : Int) = D
  have hym : Gen.ym Y M = Civil.ymNorm Y M := rfl
  rw [hym]
  unfold Bump.mkMonthPlus
  simp only []
  have hm : 1 ≤ (Civil.ymNorm Y M).2 ∧ (Civil.ymNorm Y M).2 ≤ 12 := by unfold Civil.ymNorm; simp only []; omega
  by_cases hy : 1 ≤ (Civil.ymNorm Y M).1 ∧ (Civil.ymNorm Y M).1 ≤ 9999
  · have hc : 1 ≤ (Civil.ymNorm Y M).1 ∧ (Civil.ymNorm Y M).1 ≤ 9999 ∧ 1 ≤ (Civil.ymNorm Y M).2 ∧
        (Civil.ymNorm Y M).2 ≤ 12 := ⟨hy.1, hy.2, hm.1, hm.2⟩
    simp only [hc, and_self, if_true]
    congr 1
    have ho := Civil.ord_eq_greg (Civil.ymNorm Y M).1.toNat (Civil.ymNorm Y M).2.toNat 1 (by omega) (by omega) (by omega)
    have e1 : (((Civil.ymNorm Y M).1.toNat : Nat) : Int) = (Civil.ymNorm Y M).1 := by omega
    have e2 : (((Civil.ymNorm Y M).2.toNat : Nat) : Int) = (Civil.ymNorm Y M).2 := by omega
    rw [e1, e2] at ho
    have e3 : Civil.ordYM Y M D = Civil.ord (Civil.ymNorm Y M).1 (Civil.ymNorm Y M).2 D := rfl
    rw [e3, Civil.ord_day, ← ho]
    unfold Bump.ofOrd Bump.DAYUS DAY
    simp only [Int.natCast_one]
  · have hc : ¬ (1 ≤ (Civil.ymNorm Y M).1 ∧ (Civil.ymNorm Y M).1 ≤ 9999 ∧ 1 ≤ (Civil.ymNorm Y M).2 ∧
        (Civil.ymNorm Y M).2 ≤ 12) := fun h => hy ⟨h.1, h.2.1⟩
    simp only [hc, hy, if_false]

/-- one period part: whenever the C09 model's step returns a value, it is the DRange step (`t ≥ 0`) -/
theorem bump1_refines (t n : Int) (u : Per) (ht : 0 ≤ t) (st : Gen.Step) (t' : Int)
    (hst : Gen.bumpUnit u.letter n = some st) (h : Bump.applyStep t st = .ok t') : t' = bump1 t n u := by
  cases u <;> simp [Per.letter, Gen.bumpUnit] at hst <;> subst hst
  · simp only [Bump.applyStep, Bump.checkRange_ok] at h; rw [h.2]; simp only [bump1, DAY, Bump.DAYUS]; omega
  · have h := Bump.bday_ok _ _ _ h
    rw [h.2]; simp only [bump1, bOff_eq_gen, wdT_eq, DAY, Bump.DAYUS]; omega
  · simp only [Bump.applyStep, Bump.checkRange_ok] at h; rw [h.2]; simp only [bump1, DAY, Bump.DAYUS]; omega
  · rw [applyStep_ymdShift t 0 n ht] at h
    split at h
    · rw [Bump.checkRange_ok] at h; rw [h.2]; simp only [bump1, monthBump, Civil.addMonths, Int.add_zero]
    · cases h
  · rw [applyStep_ymdShift t 0 (3 * n) ht] at h
    split at h
    · rw [Bump.checkRange_ok] at h; rw [h.2]; simp only [bump1, monthBump, Civil.addMonths, Int.add_zero]
    · cases h
  · rw [applyStep_ymdShift t n 0 ht] at h
    split at h
    · rw [Bump.checkRange_ok] at h; rw [h.2]; simp only [bump1, yearBump, Int.add_zero]
    · cases h
  · simp only [Bump.applyStep, Bump.checkRange_ok] at h; rw [h.2]; simp only [bump1, HOUR]
  · simp only [Bump.applyStep, Bump.checkRange_ok] at h; rw [h.2]; simp only [bump1, MINUTE]
  · simp only [Bump.applyStep, Bump.checkRange_ok] at h; rw [h.2]; simp only [bump1, SECOND]

/-- results of the C09 model are instants of the representable range -/
theorem applyStep_nonneg (t : Int) (st : Gen.Step) (t' : Int) (ht : 0 ≤ t) (h : Bump.applyStep t st = .ok t') :
    0 ≤ t' := by
  cases st with
  | days k => simp only [Bump.applyStep, Bump.checkRange_ok] at h; omega
  | micros k => simp only [Bump.applyStep, Bump.checkRange_ok] at h; omega
  | bday k => have h := Bump.bday_ok _ _ _ h; omega
  | ymdShift dy dm =>
    rw [applyStep_ymdShift t dy dm ht] at h
    split at h
    · rw [Bump.checkRange_ok] at h; omega
    · cases h

/-! ### …and the C09 step returns a value exactly when the DRange step lands in the representable range -/

theorem monthStart_10000 : Civil.monthStart 120000 = 3652060 := by decide
theorem monthStart_dec0 : Civil.monthStart 11 = -30 := by decide

/-- a month-based step whose result is a representable instant has a representable target year: the C09 model
returns exactly that instant -/
theorem applyStep_ymdShift_defined (t dy dm : Int) (ht : 0 ≤ t)
    (h0 : 0 ≤ (Civil.ordYM ((Civil.ymd (dayOf t)).1 + dy) ((Civil.ymd (dayOf t)).2.1 + dm) (Civil.ymd (dayOf t)).2.2 - 1) * DAY)
    (h1 : (Civil.ordYM ((Civil.ymd (dayOf t)).1 + dy) ((Civil.ymd (dayOf t)).2.1 + dm) (Civil.ymd (dayOf t)).2.2 - 1) * DAY
      < Bump.MAXUS) :
    Bump.applyStep t (.ymdShift dy dm) =
      .ok ((Civil.ordYM ((Civil.ymd (dayOf t)).1 + dy) ((Civil.ymd (dayOf t)).2.1 + dm) (Civil.ymd (dayOf t)).2.2 - 1) * DAY) := by
  rw [applyStep_ymdShift t dy dm ht]
  obtain ⟨v, _⟩ := Civil.ord_ymd (dayOf t)
  obtain ⟨_, _, hd1, hd2⟩ := v
  have hdim := Civil.dim_bounds (Civil.ymd (dayOf t)).1 (Civil.ymd (dayOf t)).2.1
  generalize (Civil.ymd (dayOf t)).1 + dy = Y at *
  generalize (Civil.ymd (dayOf t)).2.1 + dm = M at *
  generalize (Civil.ymd (dayOf t)).2.2 = D at *
  have he := Civil.ordYM_eq Y M D
  have hY : (Civil.ymNorm Y M).1 = (12 * Y + M - 1) / 12 := by unfold Civil.ymNorm; simp only []; omega
  have hy : 1 ≤ (Civil.ymNorm Y M).1 ∧ (Civil.ymNorm Y M).1 ≤ 9999 := by
    rw [hY]
    refine ⟨?_, ?_⟩
    · by_cases hc : 12 * Y + M - 1 ≤ 11
      · have hm := (Civil.monthStart_add (12 * Y + M - 1) (11 - (12 * Y + M - 1)) (by omega)).1
        have e : 12 * Y + M - 1 + (11 - (12 * Y + M - 1)) = 11 := by omega
        rw [e, monthStart_dec0] at hm
        unfold DAY at h0; omega
      · omega
    · by_cases hc : 120000 ≤ 12 * Y + M - 1
      · have hm := (Civil.monthStart_add 120000 (12 * Y + M - 1 - 120000) (by omega)).1
        have e : 120000 + (12 * Y + M - 1 - 120000) = 12 * Y + M - 1 := by omega
        rw [e, monthStart_10000] at hm
        unfold DAY Bump.MAXUS at h1; omega
      · omega
  simp only [hy, and_self, if_true]
  rw [Bump.checkRange_ok]; exact ⟨⟨h0, h1⟩, rfl⟩

/-- one period part, both directions: from `t ≥ 0` the C09 step returns a value iff the DRange step is a
representable instant, and then it is that instant -/
theorem bump1_defined (t n : Int) (u : Per) (ht : 0 ≤ t) (h0 : 0 ≤ bump1 t n u) (h1 : bump1 t n u < Bump.MAXUS)
    (hb : u = Per.b → ∀ k ∈ Gen.bOffPath (Bump.wdOf t) n, Bump.InRange (t + k * Bump.DAYUS)) :
    ∃ st, Gen.bumpUnit u.letter n = some st ∧ Bump.applyStep t st = .ok (bump1 t n u) := by
  have hr : Bump.checkRange (bump1 t n u) = .ok (bump1 t n u) := by rw [Bump.checkRange_ok]; exact ⟨⟨h0, h1⟩, rfl⟩
  cases u
  · refine ⟨.days n, by simp [Per.letter, Gen.bumpUnit], ?_⟩
    rw [← hr]; simp only [Bump.applyStep, bump1, DAY, Bump.DAYUS]; congr 1; omega
  · refine ⟨.bday n, by simp [Per.letter, Gen.bumpUnit], ?_⟩
    rw [Bump.bday_ok_iff]
    refine ⟨hb rfl, ?_⟩
    simp only [bump1, bOff_eq_gen, wdT_eq, DAY, Bump.DAYUS]; omega
  · refine ⟨.days (7 * n), by simp [Per.letter, Gen.bumpUnit], ?_⟩
    rw [← hr]; simp only [Bump.applyStep, bump1, DAY, Bump.DAYUS]; congr 1; omega
  · refine ⟨.ymdShift 0 n, by simp [Per.letter, Gen.bumpUnit], ?_⟩
    have := applyStep_ymdShift_defined t 0 n ht
    simp only [Int.add_zero] at this
    exact this h0 h1
  · refine ⟨.ymdShift 0 (3 * n), by simp [Per.letter, Gen.bumpUnit], ?_⟩
    have := applyStep_ymdShift_defined t 0 (3 * n) ht
    simp only [Int.add_zero] at this
    exact this h0 h1
  · refine ⟨.ymdShift n 0, by simp [Per.letter, Gen.bumpUnit], ?_⟩
    have := applyStep_ymdShift_defined t n 0 ht
    simp only [Int.add_zero] at this
    exact this h0 h1
  · refine ⟨.micros (3600000000 * n), by simp [Per.letter, Gen.bumpUnit], ?_⟩
    rw [← hr]; simp only [Bump.applyStep, bump1, HOUR]
  · refine ⟨.micros (60000000 * n), by simp [Per.letter, Gen.bumpUnit], ?_⟩
    rw [← hr]; simp only [Bump.applyStep, bump1, MINUTE]
  · refine ⟨.micros (1000000 * n), by simp [Per.letter, Gen.bumpUnit], ?_⟩
    rw [← hr]; simp only [Bump.applyStep, bump1, SECOND]

/-- a single token: the C09 model's run over `[k]` -/
theorem runToks_single_defined (k : Bump.Tok) (n : Int) (u : Per) (hk : k.value = n ∧ k.unit = u.letter) (t : Int)
    (ht : 0 ≤ t) (h0 : 0 ≤ bump1 t n u) (h1 : bump1 t n u < Bump.MAXUS)
    (hb : u = Per.b → ∀ j ∈ Gen.bOffPath (Bump.wdOf t) n, Bump.InRange (t + j * Bump.DAYUS)) :
    Bump.runToks t [k] = .ok (bump1 t n u) := by
  obtain ⟨st, hst, ha⟩ := bump1_defined t n u ht h0 h1 hb
  simp only [Bump.runToks, Bump.applyTok, hk.1, hk.2, hst, ha, Except.bind]

/-- the parts a token list stands for -/
def TokParts : List Bump.Tok → List (Int × Per) → Prop
  | [], [] => True
  | k :: ks, p :: ps => (k.value = p.1 ∧ k.unit = p.2.letter) ∧ TokParts ks ps
  | _, _ => False

/-- compound tenors: whenever the C09 model's left-to-right run over the tokens returns a value, it is the
DRange `dtBump` of the parts -/
theorem runToks_refines : ∀ (ks : List Bump.Tok) (parts : List (Int × Per)), TokParts ks parts →
    ∀ (t t' : Int), 0 ≤ t → Bump.runToks t ks = .ok t' → t' = dtBump parts t
  | [], [], _, t, t', _, h => by
    simp only [Bump.runToks] at h; cases h; rfl
  | [], _ :: _, hf, _, _, _, _ => by simp [TokParts] at hf
  | _ :: _, [], hf, _, _, _, _ => by simp [TokParts] at hf
  | k :: ks, p :: parts, ⟨hk, hks⟩, t, t', ht, h => by
    simp only [Bump.runToks] at h
    have hu : ∃ st, Gen.bumpUnit k.unit k.value = some st := by
      rw [hk.2]; cases p.2 <;> simp [Per.letter, Gen.bumpUnit]
    obtain ⟨st, hst⟩ := hu
    simp only [Bump.applyTok, hst] at h
    cases h1 : Bump.applyStep t st with
    | error e => rw [h1] at h; cases h
    | ok t1 =>
      rw [h1] at h
      simp only [Except.bind] at h
      have e1 : t1 = bump1 t p.1 p.2 := bump1_refines t p.1 p.2 ht st t1 (by rw [← hk.1, ← hk.2]; exact hst) h1
      have := runToks_refines ks parts hks t1 t' (applyStep_nonneg t st t1 ht h1) h
      rw [this, e1]; rfl

end Pyg.DRange
