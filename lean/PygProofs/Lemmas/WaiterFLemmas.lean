import PygModel.WaiterF

namespace Pyg

theorem fail_absorbing (e : Nat) : ∀ evs : List (Nat × Outcome),
    evs.foldl (fun t ev => completeF ev.1 ev.2 t) (.fail e) = .fail e
  | [] => rfl
  | ev :: evs => by simp [List.foldl, completeF, fail_absorbing e evs]

theorem slotsF_clean_not_failed : ∀ ts, TaskF.cleanList ts = true → ∀ e, slotsF ts ≠ .failed e
  | [], _, e => by simp [slotsF]
  | t :: ts, h, e => by
      simp only [TaskF.cleanList, Bool.and_eq_true] at h
      have ih := slotsF_clean_not_failed ts h.2
      cases t with
      | fail e' => simp [TaskF.clean] at h
      | ret v => simp only [slotsF] <;> (try split) <;> simp_all
      | wait j => simp only [slotsF] <;> (try split) <;> simp_all
      | gather k s => simp only [slotsF] <;> (try split) <;> simp_all

theorem slotsF_waits_pending (id : Nat) : ∀ ts, TaskF.cleanList ts = true → TaskF.waitsList id ts = true →
    slotsF ts = .pending
  | [], _, h => by simp [TaskF.waitsList] at h
  | t :: ts, hc, hw => by
      simp only [TaskF.cleanList, Bool.and_eq_true] at hc
      simp only [TaskF.waitsList, Bool.or_eq_true] at hw
      have nf := slotsF_clean_not_failed ts hc.2
      cases t with
      | fail e' => simp [TaskF.clean] at hc
      | ret v =>
        have := slotsF_waits_pending id ts hc.2 (by simpa [TaskF.waits] using hw)
        simp [slotsF, this]
      | wait j => simp only [slotsF] <;> (try split) <;> simp_all
      | gather k s => simp only [slotsF] <;> (try split) <;> simp_all

theorem collapseF_clean (k : Kind) (ts : List TaskF) (h : TaskF.cleanList ts = true) : (collapseF k ts).clean = true := by
  have nf := slotsF_clean_not_failed ts h
  simp only [collapseF]
  split
  · rename_i e he; exact absurd he (nf e)
  · rfl
  · simpa [TaskF.clean] using h

mutual
  /-- a failure produced by the event "awaitable `id` raises `e`" in a tree without failures is `e` -/
  theorem step_fail_kind (id e : Nat) : ∀ (t : TaskF) (e' : Nat), t.clean = true →
      completeF id (.error e) t = .fail e' → e' = e
    | .ret v, e', _, h => by simp [completeF] at h
    | .fail _, e', hc, _ => by simp [TaskF.clean] at hc
    | .wait j, e', _, h => by
        simp only [completeF] at h
        split at h
        · cases h; rfl
        · cases h
    | .gather k slots, e', hc, h => by
        simp only [completeF, collapseF] at h
        split at h
        · rename_i e'' he
          cases h
          exact step_fail_kind_list id e slots e' (by simpa [TaskF.clean] using hc) he
        · cases h
        · cases h
  theorem step_fail_kind_list (id e : Nat) : ∀ (ts : List TaskF) (e' : Nat), TaskF.cleanList ts = true →
      slotsF (completeFList id (.error e) ts) = .failed e' → e' = e
    | [], e', _, h => by simp [completeFList, slotsF] at h
    | t :: ts, e', hc, h => by
        simp only [TaskF.cleanList, Bool.and_eq_true] at hc
        simp only [completeFList] at h
        have iht := step_fail_kind id e t
        have ihl := step_fail_kind_list id e ts
        cases ht : completeF id (.error e) t with
        | fail e'' =>
          rw [ht] at h
          simp only [slotsF] at h
          cases h
          exact iht e' hc.1 ht
        | ret v =>
          rw [ht] at h
          simp only [slotsF] at h
          split at h
          · cases h
          · rename_i e2 he2; cases h; exact ihl e' hc.2 he2
          · cases h
        | wait j =>
          rw [ht] at h
          simp only [slotsF] at h
          split at h
          · rename_i e2 he2; cases h; exact ihl e' hc.2 he2
          · cases h
        | gather k s =>
          rw [ht] at h
          simp only [slotsF] at h
          split at h
          · rename_i e2 he2; cases h; exact ihl e' hc.2 he2
          · cases h
end

theorem slotsF_cons_failed (t : TaskF) (ts : List TaskF) (e : Nat) (ht : ∀ e', t = .fail e' → e' = e)
    (h : slotsF ts = .failed e) : slotsF (t :: ts) = .failed e := by
  cases t with
  | fail e' => simp [slotsF, ht e' rfl]
  | ret v => simp [slotsF, h]
  | wait j => simp [slotsF, h]
  | gather k s => simp [slotsF, h]

mutual
  /-- **the failure of an awaited awaitable fails the whole task at once** -/
  theorem completeF_fail (id e : Nat) : ∀ t : TaskF, t.clean = true → t.waits id = true →
      completeF id (.error e) t = .fail e
    | .ret v, _, h => by simp [TaskF.waits] at h
    | .fail _, h, _ => by simp [TaskF.clean] at h
    | .wait j, _, h => by
        have : j = id := by simpa [TaskF.waits] using h
        simp [completeF, this]
    | .gather k slots, hc, hw => by
        have := completeFList_fail id e slots (by simpa [TaskF.clean] using hc) (by simpa [TaskF.waits] using hw)
        simp [completeF, collapseF, this]
  theorem completeFList_fail (id e : Nat) : ∀ ts : List TaskF, TaskF.cleanList ts = true →
      TaskF.waitsList id ts = true → slotsF (completeFList id (.error e) ts) = .failed e
    | [], _, h => by simp [TaskF.waitsList] at h
    | t :: ts, hc, hw => by
        simp only [TaskF.cleanList, Bool.and_eq_true] at hc
        simp only [TaskF.waitsList, Bool.or_eq_true] at hw
        simp only [completeFList]
        by_cases h1 : t.waits id = true
        · rw [completeF_fail id e t hc.1 h1]; simp [slotsF]
        · have h2 : TaskF.waitsList id ts = true := by
            rcases hw with h | h
            · exact absurd h h1
            · exact h
          apply slotsF_cons_failed
          · intro e' he'; exact step_fail_kind id e t e' hc.1 he'
          · exact completeFList_fail id e ts hc.2 h2
end

/-! ### invariants along a schedule: results keep the tree free of failures and keep other awaitables awaited -/

mutual
  theorem completeF_ok_clean (j : Nat) (v : Val) : ∀ t : TaskF, t.clean = true → (completeF j (.ok v) t).clean = true
    | .ret x, _ => by simp [completeF, TaskF.clean]
    | .fail _, h => by simp [TaskF.clean] at h
    | .wait i, _ => by simp only [completeF]; split <;> simp [TaskF.clean]
    | .gather k slots, h => by
        simp only [completeF]
        exact collapseF_clean k _ (completeFList_ok_clean j v slots (by simpa [TaskF.clean] using h))
  theorem completeFList_ok_clean (j : Nat) (v : Val) : ∀ ts : List TaskF, TaskF.cleanList ts = true →
      TaskF.cleanList (completeFList j (.ok v) ts) = true
    | [], _ => by simp [completeFList, TaskF.cleanList]
    | t :: ts, h => by
        simp only [TaskF.cleanList, Bool.and_eq_true] at h
        simp [completeFList, TaskF.cleanList, completeF_ok_clean j v t h.1, completeFList_ok_clean j v ts h.2]
end

mutual
  theorem completeF_ok_waits (id j : Nat) (v : Val) (hne : j ≠ id) : ∀ t : TaskF, t.clean = true → t.waits id = true →
      (completeF j (.ok v) t).waits id = true
    | .ret x, _, h => by simp [TaskF.waits] at h
    | .fail _, h, _ => by simp [TaskF.clean] at h
    | .wait i, _, h => by
        have : i = id := by simpa [TaskF.waits] using h
        subst this
        have : ¬ i = j := fun e => hne e.symm
        simp [completeF, this, TaskF.waits]
    | .gather k slots, hc, hw => by
        have hc' : TaskF.cleanList slots = true := by simpa [TaskF.clean] using hc
        have h1 := completeFList_ok_clean j v slots hc'
        have h2 := completeFList_ok_waits id j v hne slots hc' (by simpa [TaskF.waits] using hw)
        have := slotsF_waits_pending id _ h1 h2
        simp [completeF, collapseF, this, TaskF.waits, h2]
  theorem completeFList_ok_waits (id j : Nat) (v : Val) (hne : j ≠ id) : ∀ ts : List TaskF, TaskF.cleanList ts = true →
      TaskF.waitsList id ts = true → TaskF.waitsList id (completeFList j (.ok v) ts) = true
    | [], _, h => by simp [TaskF.waitsList] at h
    | t :: ts, hc, hw => by
        simp only [TaskF.cleanList, Bool.and_eq_true] at hc
        simp only [TaskF.waitsList, Bool.or_eq_true] at hw
        simp only [completeFList, TaskF.waitsList, Bool.or_eq_true]
        rcases hw with h | h
        · exact Or.inl (completeF_ok_waits id j v hne t hc.1 h)
        · exact Or.inr (completeFList_ok_waits id j v hne ts hc.2 h)
end

mutual
  theorem startF_clean : ∀ w : W, (startF w).clean = true
    | .val c => by simp [startF, TaskF.clean]
    | .aw id => by simp [startF, TaskF.clean]
    | .list xs => by simp only [startF]; exact collapseF_clean _ _ (startFList_clean xs)
    | .tuple xs => by simp only [startF]; exact collapseF_clean _ _ (startFList_clean xs)
    | .dict kvs => by simp only [startF]; exact collapseF_clean _ _ (startFKVs_clean kvs)
  theorem startFList_clean : ∀ xs : List W, TaskF.cleanList (startFList xs) = true
    | [] => by simp [startFList, TaskF.cleanList]
    | x :: xs => by simp [startFList, TaskF.cleanList, startF_clean x, startFList_clean xs]
  theorem startFKVs_clean : ∀ kvs : List (String × W), TaskF.cleanList (startFKVs kvs) = true
    | [] => by simp [startFKVs, TaskF.cleanList]
    | (_, x) :: kvs => by simp [startFKVs, TaskF.cleanList, startF_clean x, startFKVs_clean kvs]
end

theorem collapseF_waits (id : Nat) (k : Kind) (ts : List TaskF) (hc : TaskF.cleanList ts = true)
    (hw : TaskF.waitsList id ts = true) : (collapseF k ts).waits id = true := by
  simp [collapseF, slotsF_waits_pending id ts hc hw, TaskF.waits, hw]

mutual
  theorem startF_waits (id : Nat) : ∀ w : W, id ∈ awaitables w → (startF w).waits id = true
    | .val c, h => by simp [awaitables] at h
    | .aw j, h => by
        have : id = j := by simpa [awaitables] using h
        simp [startF, TaskF.waits, this]
    | .list xs, h => by
        simp only [startF]
        exact collapseF_waits id _ _ (startFList_clean xs) (startFList_waits id xs (by simpa [awaitables] using h))
    | .tuple xs, h => by
        simp only [startF]
        exact collapseF_waits id _ _ (startFList_clean xs) (startFList_waits id xs (by simpa [awaitables] using h))
    | .dict kvs, h => by
        simp only [startF]
        exact collapseF_waits id _ _ (startFKVs_clean kvs) (startFKVs_waits id kvs (by simpa [awaitables] using h))
  theorem startFList_waits (id : Nat) : ∀ xs : List W, id ∈ awaitablesList xs → TaskF.waitsList id (startFList xs) = true
    | [], h => by simp [awaitablesList] at h
    | x :: xs, h => by
        simp only [awaitablesList, List.mem_append] at h
        simp only [startFList, TaskF.waitsList, Bool.or_eq_true]
        rcases h with h | h
        · exact Or.inl (startF_waits id x h)
        · exact Or.inr (startFList_waits id xs h)
  theorem startFKVs_waits (id : Nat) : ∀ kvs : List (String × W), id ∈ awaitablesKVs kvs →
      TaskF.waitsList id (startFKVs kvs) = true
    | [], h => by simp [awaitablesKVs] at h
    | (_, x) :: kvs, h => by
        simp only [awaitablesKVs, List.mem_append] at h
        simp only [startFKVs, TaskF.waitsList, Bool.or_eq_true]
        rcases h with h | h
        · exact Or.inl (startF_waits id x h)
        · exact Or.inr (startFKVs_waits id kvs h)
end

/-- after any run of RESULT events that does not complete `id`, the tree is free of failures and still awaits `id` -/
theorem run_ok_invariant (id : Nat) : ∀ (pre : List (Nat × Outcome)) (t : TaskF), t.clean = true → t.waits id = true →
    (∀ ev ∈ pre, ev.1 ≠ id ∧ ∃ v, ev.2 = .ok v) →
    (pre.foldl (fun t ev => completeF ev.1 ev.2 t) t).clean = true ∧
    (pre.foldl (fun t ev => completeF ev.1 ev.2 t) t).waits id = true
  | [], t, hc, hw, _ => ⟨hc, hw⟩
  | ev :: pre, t, hc, hw, h => by
      obtain ⟨hne, v, hv⟩ := h ev (by simp)
      simp only [List.foldl]
      rw [hv]
      exact run_ok_invariant id pre _ (completeF_ok_clean ev.1 v t hc) (completeF_ok_waits id ev.1 v hne t hc hw)
        (fun ev' h' => h ev' (by simp [h']))


/-! ## round k6: the extension without failure events is the model of the statement -/


theorem slotsF_toF : ∀ ts : List Task,
    slotsF (Task.toFList ts) = (match allRet ts with | some vs => SlotsF.done vs | Option.none => SlotsF.pending)
  | [] => by simp [Task.toFList, slotsF, allRet]
  | t :: ts => by
      have ih := slotsF_toF ts
      cases t with
      | ret v =>
        simp only [Task.toFList, Task.toF, slotsF, allRet, ih]
        cases allRet ts <;> simp
      | wait j =>
        simp only [Task.toFList, Task.toF, slotsF, allRet, ih]
        cases allRet ts <;> simp
      | gather k s =>
        simp only [Task.toFList, Task.toF, slotsF, allRet, ih]
        cases allRet ts <;> simp

theorem collapseF_toF (k : Kind) (ts : List Task) : collapseF k (Task.toFList ts) = (collapse k ts).toF := by
  simp only [collapseF, collapse, slotsF_toF]
  cases allRet ts <;> simp [Task.toF]

mutual
  theorem startF_toF : ∀ w : W, startF w = (start w).toF
    | .val c => by simp [startF, start, Task.toF]
    | .aw id => by simp [startF, start, Task.toF]
    | .list xs => by simp only [startF, start, startFList_toF xs, collapseF_toF]
    | .tuple xs => by simp only [startF, start, startFList_toF xs, collapseF_toF]
    | .dict kvs => by simp only [startF, start, startFKVs_toF kvs, collapseF_toF]
  theorem startFList_toF : ∀ xs : List W, startFList xs = Task.toFList (startList xs)
    | [] => by simp [startFList, startList, Task.toFList]
    | x :: xs => by simp [startFList, startList, Task.toFList, startF_toF x, startFList_toF xs]
  theorem startFKVs_toF : ∀ kvs : List (String × W), startFKVs kvs = Task.toFList (startKVs kvs)
    | [] => by simp [startFKVs, startKVs, Task.toFList]
    | (_, x) :: kvs => by simp [startFKVs, startKVs, Task.toFList, startF_toF x, startFKVs_toF kvs]
end

mutual
  theorem completeF_toF (id : Nat) (v : Val) : ∀ t : Task, completeF id (.ok v) t.toF = (complete id v t).toF
    | .ret x => by simp [completeF, complete, Task.toF]
    | .wait j => by
        by_cases h : j = id <;> simp [completeF, complete, Task.toF, h]
    | .gather k slots => by
        simp only [Task.toF, completeF, complete, completeFList_toF id v slots, collapseF_toF]
  theorem completeFList_toF (id : Nat) (v : Val) : ∀ ts : List Task,
      completeFList id (.ok v) (Task.toFList ts) = Task.toFList (completeList id v ts)
    | [] => by simp [completeFList, completeList, Task.toFList]
    | t :: ts => by
        simp [completeFList, completeList, Task.toFList, completeF_toF id v t, completeFList_toF id v ts]
end

theorem foldF_toF : ∀ (evs : List (Nat × Val)) (t : Task),
    (evs.map fun e => (e.1, (Except.ok e.2 : Outcome))).foldl (fun t e => completeF e.1 e.2 t) t.toF
      = (evs.foldl (fun t e => complete e.1 e.2 t) t).toF
  | [], t => rfl
  | e :: evs, t => by
      simp only [List.map, List.foldl, completeF_toF]
      exact foldF_toF evs _

end Pyg
