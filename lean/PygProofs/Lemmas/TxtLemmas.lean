/-
  Lemmas about PygModel.Txt (round k6): `split` with a one-character separator - joining the words gives the text back, no word
  holds the separator, and the words are the ONLY such decomposition.
-/
import PygModel.Txt

namespace Pyg

theorem splitAux_join (sep : Char) : ∀ cs, joinChars sep (splitAux sep cs).1 (splitAux sep cs).2 = cs
  | [] => by simp [splitAux, joinChars]
  | c :: cs => by
      have ih := splitAux_join sep cs
      simp only [joinChars] at ih
      by_cases h : c = sep
      · subst h; simp [splitAux, joinChars, ih]
      · simp [splitAux, h, joinChars, ih]

theorem splitAux_no_sep (sep : Char) : ∀ cs, sep ∉ (splitAux sep cs).1 ∧ ∀ x ∈ (splitAux sep cs).2, sep ∉ x
  | [] => by simp [splitAux]
  | c :: cs => by
      obtain ⟨h1, h2⟩ := splitAux_no_sep sep cs
      by_cases h : c = sep
      · subst h
        simp only [splitAux, if_true]
        refine ⟨by simp, ?_⟩
        intro x hx
        simp only [List.mem_cons] at hx
        rcases hx with rfl | hx
        · exact h1
        · exact h2 x hx
      · simp only [splitAux, h, if_false]
        refine ⟨?_, h2⟩
        simp only [List.mem_cons, not_or]
        exact ⟨fun e => h e.symm, h1⟩

theorem flatMap_sep_nil (sep : Char) : ∀ ws : List (List Char), (ws.flatMap fun x => sep :: x) = [] → ws = []
  | [], _ => rfl
  | w :: ws, h => by simp at h

/-- **uniqueness**: the only way to write `cs` as separator-free words joined by the separator is `splitAux` -/
theorem splitAux_unique (sep : Char) : ∀ (cs w : List Char) (ws : List (List Char)), sep ∉ w → (∀ x ∈ ws, sep ∉ x) →
    joinChars sep w ws = cs → splitAux sep cs = (w, ws)
  | [], w, ws, _, _, h => by
      simp only [joinChars, List.append_eq_nil_iff] at h
      obtain ⟨rfl, h2⟩ := h
      rw [flatMap_sep_nil sep ws h2]; simp [splitAux]
  | c :: cs, w, ws, hw, hws, h => by
      cases w with
      | nil =>
        cases ws with
        | nil => simp [joinChars] at h
        | cons x ws' =>
          simp only [joinChars, List.nil_append, List.flatMap_cons, List.cons_append, List.cons.injEq] at h
          obtain ⟨rfl, h2⟩ := h
          have ih := splitAux_unique sep cs x ws' (hws x (by simp)) (fun y hy => hws y (by simp [hy])) (by simpa [joinChars] using h2)
          simp [splitAux, ih]
      | cons a w' =>
        simp only [joinChars, List.cons_append, List.cons.injEq] at h
        obtain ⟨rfl, h2⟩ := h
        have hne : a ≠ sep := by
          intro e; apply hw; simp [e]
        have ih := splitAux_unique sep cs w' ws (by intro hm; apply hw; simp [hm]) hws (by simpa [joinChars] using h2)
        simp [splitAux, hne, ih]

theorem splitAux_length (sep : Char) : ∀ cs, (splitAux sep cs).2.length = cs.count sep
  | [] => by simp [splitAux]
  | c :: cs => by
      have ih := splitAux_length sep cs
      by_cases h : c = sep
      · subst h; simp [splitAux, ih]
      · have : (c == sep) = false := by simpa using h
        simp [splitAux, h, ih]

/-- `text.replace(old, new) == new.join(text.split(old))` -/
theorem replaceChars_eq_join_split (old : Char) (new : List Char) : ∀ cs,
    replaceChars old new cs = joinStr new (splitAux old cs).1 (splitAux old cs).2
  | [] => by simp [replaceChars, splitAux, joinStr]
  | c :: cs => by
      have ih := replaceChars_eq_join_split old new cs
      simp only [replaceChars, joinStr] at ih
      by_cases h : c = old
      · subst h; simp [replaceChars, splitAux, joinStr, ih]
      · simp [replaceChars, splitAux, h, joinStr, ih]

theorem replaceChars_no_old (old : Char) (new : List Char) (hn : old ∉ new) : ∀ cs, old ∉ replaceChars old new cs
  | [] => by simp [replaceChars]
  | c :: cs => by
      have ih := replaceChars_no_old old new hn cs
      simp only [replaceChars] at ih
      by_cases h : c = old
      · subst h
        simp only [replaceChars, List.flatMap_cons, if_true, List.mem_append, not_or]
        exact ⟨hn, ih⟩
      · simp only [replaceChars, List.flatMap_cons, h, if_false, List.mem_append, List.mem_singleton, not_or]
        exact ⟨fun e => h e.symm, ih⟩

/-- a text without the character is left alone -/
theorem replaceChars_absent (old : Char) (new : List Char) : ∀ cs, old ∉ cs → replaceChars old new cs = cs
  | [], _ => by simp [replaceChars]
  | c :: cs, h => by
      simp only [List.mem_cons, not_or] at h
      have ih := replaceChars_absent old new cs h.2
      simp only [replaceChars] at ih
      have hc : c ≠ old := fun e => h.1 e.symm
      simp [replaceChars, hc, ih]

end Pyg
