import PygModel.Basic

namespace Pyg

/-- equality of replies is decidable (used by the `decide` examples) -/
instance liftResDecEq {α : Type} [DecidableEq α] : DecidableEq (Res α)
  | .ok a, .ok b => if h : a = b then isTrue (by rw [h]) else isFalse (by intro h'; cases h'; exact h rfl)
  | .error a, .error b => if h : a = b then isTrue (by rw [h]) else isFalse (by intro h'; cases h'; exact h rfl)
  | .ok _, .error _ => isFalse (by intro h; cases h)
  | .error _, .ok _ => isFalse (by intro h; cases h)

end Pyg
