/-
  Lemmas for the full inverse law of C15 (`table_to_tree` / `tree_to_table`, PygModel/TreeTable.lean):
  * `Uni d t`: a tree of uniform depth `d` with distinct keys in every branch (what `table_to_tree` builds from rows of
    one pattern, and what "all items match the pattern" means for the shape of a tree);
  * `toTable_eq_filterMap`: on such a tree `tree_to_table(t, P)` is exactly the rows of the items of `t` that match `P`,
    in `tree_items` order (soundness AND completeness of `tree_to_table` in one equation);
  * `items_setKVs_perm` / `items_buildOn`: the items of a tree built by path writes at distinct paths of one length are
    a permutation of the items written.
-/
import PygProofs.Lemmas.TreeTableLemmas

namespace Pyg.TreeTable
open Pyg Pyg.DA Pyg.Tree

/-! ### `DA.set` -/

theorem mem_set {V} (k : String) (v : V) : ∀ (l : List (String × V)) (x : String × V),
    x ∈ DA.set k v l → x ∈ l ∨ x = (k, v)
  | [], x, h => by simp [DA.set] at h; exact Or.inr h
  | (l, w) :: kvs, x, h => by
      simp only [DA.set] at h
      split at h
      · rename_i e
        rcases List.mem_cons.1 h with h | h
        · exact Or.inr (by rw [h, e])
        · exact Or.inl (by simp [h])
      · rcases List.mem_cons.1 h with h | h
        · exact Or.inl (by simp [h])
        · rcases mem_set k v kvs x h with h | h
          · exact Or.inl (by simp [h])
          · exact Or.inr h

theorem nodup_keys_set {V} (k : String) (v : V) (l : List (String × V)) (h : (l.map (·.1)).Nodup) :
    ((DA.set k v l).map (·.1)).Nodup := by
  by_cases hk : k ∈ l.map (·.1)
  · rw [map_fst_set_of_mem k v l hk]; exact h
  · rw [set_of_not_mem k v l hk]
    simp only [List.map_append, List.map_cons, List.map_nil]
    rw [List.nodup_append]
    refine ⟨h, by simp, ?_⟩
    intro a ha b hb e
    simp only [List.mem_singleton] at hb
    subst hb; subst e
    exact hk ha

/-! ### trees of uniform depth with distinct keys -/

/-- every leaf of `t` is at depth exactly `d`, every node above is a branch (a dict) with distinct keys -/
def Uni : Nat → Val → Prop
  | 0, v => ∀ s, v ≠ .dict s
  | d + 1, .dict kvs => (kvs.map (·.1)).Nodup ∧ ∀ kv ∈ kvs, Uni d kv.2
  | _ + 1, _ => False

theorem Uni_zero (v : Val) : Uni 0 v ↔ ∀ s, v ≠ .dict s := by simp [Uni]

theorem Uni_succ_dict (d : Nat) (kvs : List (String × Val)) :
    Uni (d + 1) (.dict kvs) ↔ (kvs.map (·.1)).Nodup ∧ ∀ kv ∈ kvs, Uni d kv.2 := by simp [Uni]

theorem Uni_succ_inv (d : Nat) (t : Val) (h : Uni (d + 1) t) : ∃ kvs, t = .dict kvs := by
  cases t with
  | dict kvs => exact ⟨kvs, rfl⟩
  | _ => simp [Uni] at h

theorem Uni_empty (d : Nat) : Uni (d + 1) (.dict []) := by simp [Uni]

theorem Uni_set (d : Nat) (k : String) (new : Val) (kvs : List (String × Val))
    (h : Uni (d + 1) (.dict kvs)) (hn : Uni d new) : Uni (d + 1) (.dict (DA.set k new kvs)) := by
  rw [Uni_succ_dict] at h ⊢
  refine ⟨nodup_keys_set k new kvs h.1, ?_⟩
  intro kv hm
  rcases mem_set k new kvs kv hm with hm | rfl
  · exact h.2 kv hm
  · exact hn

/-- `Uni` trees are well-formed in the sense of `Tree.wf` -/
theorem Uni_wf : ∀ (d : Nat) (t : Val), Uni d t → wf t = true
  | 0, t, h => by
      cases t with
      | dict s => exact absurd rfl (h s)
      | _ => rfl
  | d + 1, t, h => by
      obtain ⟨kvs, rfl⟩ := Uni_succ_inv d t h
      rw [Uni_succ_dict] at h
      simp only [wf, Bool.and_eq_true, decide_eq_true_eq]
      refine ⟨h.1, ?_⟩
      have : ∀ (l : List (String × Val)), (∀ kv ∈ l, Uni d kv.2) → wfKVs l = true := by
        intro l
        induction l with
        | nil => intro _; rfl
        | cons kv l ih =>
          intro hl
          obtain ⟨k, v⟩ := kv
          simp only [wfKVs, Bool.and_eq_true]
          exact ⟨Uni_wf d v (hl (k, v) (by simp)), ih (fun x hx => hl x (by simp [hx]))⟩
      exact this kvs h.2

/-! ### items of a branch -/

theorem itemsKVs_append : ∀ (a b : List (String × Val)), itemsKVs (a ++ b) = itemsKVs a ++ itemsKVs b
  | [], b => by simp [itemsKVs]
  | (k, v) :: a, b => by simp [itemsKVs, itemsKVs_append a b]

theorem itemsKVs_eq_flatMap : ∀ (kvs : List (String × Val)),
    itemsKVs kvs = kvs.flatMap fun kv => (items kv.2).map fun pv => (kv.1 :: pv.1, pv.2)
  | [] => rfl
  | (k, v) :: kvs => by simp [itemsKVs, itemsKVs_eq_flatMap kvs]

theorem mem_itemsKVs_of_lookup (k : String) (old : Val) : ∀ (kvs : List (String × Val)),
    lookup k kvs = some old → ∀ pv ∈ items old, (k :: pv.1, pv.2) ∈ itemsKVs kvs
  | [], h, _, _ => by simp [lookup] at h
  | (l, w) :: kvs, h, pv, hm => by
      simp only [lookup] at h
      simp only [itemsKVs, List.mem_append, List.mem_map]
      split at h
      · rename_i e; cases h; subst e; exact Or.inl ⟨pv, hm, rfl⟩
      · exact Or.inr (mem_itemsKVs_of_lookup k old kvs h pv hm)

/-- replacing (or adding) the subtree at key `k` by one that has the old items plus `extra` -/
theorem itemsKVs_set_perm (k : String) (new : Val) (extra : List (Path × Val)) :
    ∀ (kvs : List (String × Val)),
    (items new).Perm ((match lookup k kvs with | some old => items old | none => []) ++ extra) →
    (itemsKVs (DA.set k new kvs)).Perm (itemsKVs kvs ++ extra.map fun pv => (k :: pv.1, pv.2))
  | [], h => by
      simp only [lookup, List.nil_append] at h
      simp only [DA.set, itemsKVs, List.append_nil, List.nil_append]
      exact h.map _
  | (l, w) :: kvs, h => by
      simp only [lookup] at h
      simp only [DA.set]
      by_cases e : k = l
      · subst e
        simp only [if_true] at h ⊢
        simp only [itemsKVs]
        have h1 := h.map (fun pv : Path × Val => (k :: pv.1, pv.2))
        rw [List.map_append] at h1
        refine (h1.append_right _).trans ?_
        rw [List.append_assoc, List.append_assoc]
        exact List.Perm.append_left _ List.perm_append_comm
      · simp only [if_neg e] at h ⊢
        simp only [itemsKVs, List.append_assoc]
        exact List.Perm.append_left _ (itemsKVs_set_perm k new extra kvs h)

/-- the leaves of a `Uni` tree sit at paths of length `d` -/
theorem Uni_items_length : ∀ (d : Nat) (t : Val), Uni d t → ∀ pv ∈ items t, pv.1.length = d ∧ ∀ s, pv.2 ≠ .dict s
  | 0, t, h, pv, hm => by
      rw [items_leaf t h] at hm
      simp only [List.mem_singleton] at hm
      subst hm
      exact ⟨rfl, h⟩
  | d + 1, t, h, pv, hm => by
      obtain ⟨kvs, rfl⟩ := Uni_succ_inv d t h
      rw [Uni_succ_dict] at h
      simp only [items, itemsKVs_eq_flatMap, List.mem_flatMap, List.mem_map] at hm
      obtain ⟨kv, hkv, q, hq, rfl⟩ := hm
      have := Uni_items_length d kv.2 (h.2 kv hkv) q hq
      exact ⟨by simp [this.1], this.2⟩

/-- ONE path write (`_tree_setitem`, no ignore list) of a leaf at a new path of the tree's depth adds exactly that item -/
theorem items_setKVs_perm (v : Val) (hv : ∀ s, v ≠ .dict s) : ∀ (p : Path) (kvs : List (String × Val)),
    p ≠ [] → Uni p.length (.dict kvs) → p ∉ (itemsKVs kvs).map (·.1) →
    (itemsKVs (setKVs kvs p v [])).Perm (itemsKVs kvs ++ [(p, v)]) ∧ Uni p.length (.dict (setKVs kvs p v []))
  | [], _, h, _, _ => absurd rfl h
  | [k], kvs, _, hU, hnew => by
      have e : setKVs kvs [k] v [] = DA.set k v kvs := by simp [setKVs]
      rw [e]
      simp only [List.length_singleton] at hU ⊢
      refine ⟨?_, Uni_set 0 k v kvs hU ((Uni_zero v).2 hv)⟩
      have hl : lookup k kvs = none := by
        cases hl : lookup k kvs with
        | none => rfl
        | some old =>
          exfalso
          rw [Uni_succ_dict] at hU
          have hold : ∀ s, old ≠ .dict s := (Uni_zero old).1 (hU.2 (k, old) (mem_of_lookup k old kvs hl))
          have := mem_itemsKVs_of_lookup k old kvs hl ([], old) (by rw [items_leaf old hold]; simp)
          exact hnew (List.mem_map.2 ⟨_, this, rfl⟩)
      have := itemsKVs_set_perm k v [([], v)] kvs (by rw [hl, items_leaf v hv]; simp)
      simpa using this
  | k :: k2 :: rest, kvs, _, hU, hnew => by
      rw [setKVs_deep]
      have hlen : (k :: k2 :: rest).length = (k2 :: rest).length + 1 := rfl
      rw [hlen] at hU ⊢
      have hU' := (Uni_succ_dict _ _).1 hU
      -- the branch walked into
      have hsub : Uni (k2 :: rest).length (.dict (subOf k kvs)) ∧
          (k2 :: rest) ∉ (itemsKVs (subOf k kvs)).map (·.1) ∧
          (match lookup k kvs with | some old => items old | none => []) = itemsKVs (subOf k kvs) := by
        cases hl : lookup k kvs with
        | none =>
          have : subOf k kvs = [] := by simp [subOf, hl]
          rw [this]
          exact ⟨Uni_empty _, by simp [itemsKVs], by simp [itemsKVs]⟩
        | some old =>
          have hold := hU'.2 (k, old) (mem_of_lookup k old kvs hl)
          obtain ⟨s, rfl⟩ := Uni_succ_inv _ old hold
          have : subOf k kvs = s := by simp [subOf, hl]
          rw [this]
          refine ⟨hold, ?_, by simp [items]⟩
          intro hm
          obtain ⟨pv, hpv, e⟩ := List.mem_map.1 hm
          have := mem_itemsKVs_of_lookup k (.dict s) kvs hl pv (by simpa [items] using hpv)
          apply hnew
          exact List.mem_map.2 ⟨_, this, by simp [e]⟩
      have ih := items_setKVs_perm v hv (k2 :: rest) (subOf k kvs) (by simp) hsub.1 hsub.2.1
      refine ⟨?_, Uni_set _ k _ kvs hU ih.2⟩
      have := itemsKVs_set_perm k (.dict (setKVs (subOf k kvs) (k2 :: rest) v [])) [(k2 :: rest, v)] kvs
        (by rw [hsub.2.2]; simpa [items] using ih.1)
      simpa using this

/-- the whole loop of `table_to_tree`: path writes of leaves at distinct new paths of one length `d + 1` -/
theorem items_buildOn (d : Nat) : ∀ (its : List (Path × Val)) (base : List (String × Val)),
    Uni (d + 1) (.dict base) → (∀ pv ∈ its, pv.1.length = d + 1 ∧ ∀ s, pv.2 ≠ .dict s) →
    ((itemsKVs base).map (·.1) ++ its.map (·.1)).Nodup →
    (itemsKVs (buildOn base its)).Perm (itemsKVs base ++ its) ∧ Uni (d + 1) (.dict (buildOn base its))
  | [], base, hU, _, _ => by simpa [buildOn] using hU
  | pv :: its, base, hU, hl, hnd => by
      simp only [buildOn, List.foldl_cons]
      have hpv := hl pv (by simp)
      have hne : pv.1 ≠ [] := by intro e; have := hpv.1; rw [e] at this; simp at this
      have hnew : pv.1 ∉ (itemsKVs base).map (·.1) := by
        intro hm
        rw [List.nodup_append] at hnd
        exact hnd.2.2 _ hm _ (by simp) rfl
      have step := items_setKVs_perm pv.2 hpv.2 pv.1 base hne (by rw [hpv.1]; exact hU) hnew
      rw [hpv.1] at step
      have hnd' : ((itemsKVs (setKVs base pv.1 pv.2 [])).map (·.1) ++ its.map (·.1)).Nodup := by
        have hp : ((itemsKVs (setKVs base pv.1 pv.2 [])).map (·.1) ++ its.map (·.1)).Perm
            ((itemsKVs base).map (·.1) ++ (pv :: its).map (·.1)) := by
          have := (step.1.map (·.1)).append_right (its.map (·.1))
          simpa using this
        exact hp.nodup_iff.2 hnd
      have ih := items_buildOn d its _ step.2 (fun x hx => hl x (by simp [hx])) hnd'
      refine ⟨?_, ih.2⟩
      refine ih.1.trans ?_
      have := step.1.append_right its
      simpa using this

/-! ### the shape of a tree all of whose items have paths of one length -/

theorem wf_of_mem : ∀ (kvs : List (String × Val)), wfKVs kvs = true → ∀ kv ∈ kvs, wf kv.2 = true
  | [], _, kv, h => by simp at h
  | (k, v) :: kvs, hw, kv, h => by
      simp only [wfKVs, Bool.and_eq_true] at hw
      rcases List.mem_cons.1 h with rfl | h
      · exact hw.1
      · exact wf_of_mem kvs hw.2 kv h

theorem noEmpty_of_mem : ∀ (kvs : List (String × Val)), noEmptyKVs kvs = true → ∀ kv ∈ kvs,
    kv.2 ≠ .dict [] ∧ noEmpty kv.2 = true
  | [], _, kv, h => by simp at h
  | (k, v) :: kvs, hn, kv, h => by
      rw [noEmptyKVs_cons] at hn
      rcases List.mem_cons.1 h with rfl | h
      · exact ⟨hn.1, hn.2.1⟩
      · exact noEmpty_of_mem kvs hn.2.2 kv h

/-- distinct keys in every branch, no empty branch below the root, every listed path of length `d`: the tree has uniform
depth `d` (for `d = 0` the tree must not be the empty dict, which has no items at all) -/
theorem Uni_of_items : ∀ (d : Nat) (t : Val), wf t = true → noEmpty t = true → (∀ pv ∈ items t, pv.1.length = d) →
    (d = 0 → t ≠ .dict []) → Uni d t
  | 0, t, _, hn, hl, h0 => by
      rw [Uni_zero]
      intro s e
      subst e
      have hs : s ≠ [] := fun e => h0 rfl (by rw [e])
      have hne := itemsKVs_ne_nil s (by simpa [noEmpty] using hn) hs
      cases hi : itemsKVs s with
      | nil => exact hne hi
      | cons pv rest =>
        have h1 := hl pv (by simp [items, hi])
        have h2 := itemsKVs_path_ne s pv (by simp [hi])
        exact h2 (List.eq_nil_of_length_eq_zero h1)
  | d + 1, t, hw, hn, hl, _ => by
      cases t with
      | dict kvs =>
        rw [Uni_succ_dict]
        simp only [wf, Bool.and_eq_true, decide_eq_true_eq] at hw
        refine ⟨hw.1, ?_⟩
        intro kv hkv
        have hne := noEmpty_of_mem kvs (by simpa [noEmpty] using hn) kv hkv
        refine Uni_of_items d kv.2 (wf_of_mem kvs hw.2 kv hkv) hne.2 ?_ (fun _ => hne.1)
        intro pv hpv
        have : (kv.1 :: pv.1, pv.2) ∈ items (.dict kvs) := by
          simp only [items, itemsKVs_eq_flatMap, List.mem_flatMap, List.mem_map]
          exact ⟨kv, hkv, pv, hpv, rfl⟩
        have := hl _ this
        simpa using this
      | cell c => have := hl ([], .cell c) (by simp [items]); simp at this
      | list c => have := hl ([], .list c) (by simp [items]); simp at this
      | tuple c => have := hl ([], .tuple c) (by simp [items]); simp at this

end Pyg.TreeTable
