/-
  Helper lemmas for C12: rows of a result traced back to rows of the input (method lists with removing methods).
-/
import PygModel.Fill
import PygProofs.Lemmas.FillLemmas

namespace Pyg.Fill

/-- row `r` of a result comes from row `r0` of the input: same timestamp, same width, every non-NaN cell kept -/
def RowKept (r0 r : Int × List (Option Int)) : Prop :=
  r.1 = r0.1 ∧ r.2.length = r0.2.length ∧ ∀ (j : Nat) (v : Int), r0.2[j]? = some (some v) → r.2[j]? = some (some v)

theorem RowKept.refl (r : Int × List (Option Int)) : RowKept r r := ⟨rfl, rfl, fun _ _ h => h⟩

theorem RowKept.trans {a b c : Int × List (Option Int)} (h1 : RowKept a b) (h2 : RowKept b c) : RowKept a c :=
  ⟨h2.1.trans h1.1, h2.2.1.trans h1.2.1, fun j v h => h2.2.2 j v (h1.2.2 j v h)⟩

theorem map_getD_range (l : List Int) : (List.range l.length).map (fun i => l.getD i 0) = l := by
  apply List.ext_getElem?
  intro i
  by_cases hi : i < l.length
  · simp [hi, List.getD_eq_getElem?_getD]
  · simp [hi]

/-- selecting rows by increasing positions only removes rows -/
theorem gather_rows_kept (f : Frame) (pos : List Nat) (hp : pos.Sublist (List.range f.nrows)) :
    (f.gather pos).idx.Sublist f.idx ∧ ∀ r ∈ (f.gather pos).rows, r ∈ f.rows := by
  constructor
  · have := hp.map (fun i => f.idx.getD i 0)
    rw [show (List.range f.nrows).map (fun i => f.idx.getD i 0) = f.idx from map_getD_range f.idx] at this
    exact this
  · intro r hr
    rw [Frame.rows_gather] at hr
    obtain ⟨i, hi, rfl⟩ := List.mem_map.mp hr
    exact List.mem_map.mpr ⟨i, hp.subset hi, rfl⟩

end Pyg.Fill
