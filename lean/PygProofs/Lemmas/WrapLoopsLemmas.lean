/-
  Lemmas about PygModel.WrapLoops (round k6): the `loops` layer that loops - on a non-looped argument it is one call of the next
  layer, with all three container types it is the lifting model of property C19.
-/
import PygModel.WrapLoops

namespace Pyg

theorem liftT_not_looped (types : List String) (leaf : Val → List Val → KW → Res Val) (a : Val) (args : List Val) (kw : KW)
    (h : isLooped types a = false) : liftT types leaf a args kw = leaf a args (dropAxis kw) := by
  cases a with
  | cell c => simp [liftT]
  | list xs => simp only [isLooped] at h; simp only [liftT, h, Bool.false_eq_true, if_false]
  | tuple xs => simp only [isLooped] at h; simp only [liftT, h, Bool.false_eq_true, if_false]
  | dict kvs => simp only [isLooped] at h; simp only [liftT, h, Bool.false_eq_true, if_false]

theorem dropAxis_eq_popAxis (kw : PDict) : dropAxis kw = popAxis kw := rfl

mutual
  /-- with all three container types looped, the `loops` layer of the stack model IS the lifting model of property C19 -/
  theorem liftT_all_eq_wrapped (types : List String) (leaf : LeafFn) (hl : types.contains "list" = true)
      (ht : types.contains "tuple" = true) (hd : types.contains "dict" = true) :
      ∀ (v : Val) (args : List Val) (kw : KW), liftT types leaf v args kw = wrapped leaf v args kw
    | .cell c, args, kw => by simp [liftT, wrapped]
    | .list xs, args, kw => by
        simp only [liftT, wrapped, hl, if_true, liftTSeq_all_eq types leaf hl ht hd xs.length 0 xs args (dropAxis kw)]
        cases wrappedSeq leaf xs.length 0 xs args (dropAxis kw) <;> rfl
    | .tuple xs, args, kw => by
        simp only [liftT, wrapped, ht, if_true, liftTSeq_all_eq types leaf hl ht hd xs.length 0 xs args (dropAxis kw)]
        cases wrappedSeq leaf xs.length 0 xs args (dropAxis kw) <;> rfl
    | .dict kvs, args, kw => by
        simp only [liftT, wrapped, hd, if_true, liftTKVs_all_eq types leaf hl ht hd (sortStr (keysOf kvs)) kvs args (dropAxis kw)]
        cases wrappedKVs leaf (sortStr (keysOf kvs)) kvs args (dropAxis kw) <;> rfl
  theorem liftTSeq_all_eq (types : List String) (leaf : LeafFn) (hl : types.contains "list" = true)
      (ht : types.contains "tuple" = true) (hd : types.contains "dict" = true) (n : Nat) :
      ∀ (i : Nat) (xs : List Val) (args : List Val) (kw : KW),
        liftTSeq types leaf n i xs args kw = wrappedSeq leaf n i xs args kw
    | _, [], _, _ => by simp [liftTSeq, wrappedSeq]
    | i, x :: xs, args, kw => by
        simp only [liftTSeq, wrappedSeq, liftT_all_eq_wrapped types leaf hl ht hd x,
          liftTSeq_all_eq types leaf hl ht hd n (i + 1) xs args kw]
        cases wrapped leaf x (args.map (itemByI i n)) (mapKW (itemByI i n) kw) <;> rfl
  theorem liftTKVs_all_eq (types : List String) (leaf : LeafFn) (hl : types.contains "list" = true)
      (ht : types.contains "tuple" = true) (hd : types.contains "dict" = true) (keys : List String) :
      ∀ (kvs : KW) (args : List Val) (kw : KW),
        liftTKVs types leaf keys kvs args kw = wrappedKVs leaf keys kvs args kw
    | [], _, _ => by simp [liftTKVs, wrappedKVs]
    | (k, v) :: kvs, args, kw => by
        simp only [liftTKVs, wrappedKVs, liftT_all_eq_wrapped types leaf hl ht hd v,
          liftTKVs_all_eq types leaf hl ht hd keys kvs args kw]
        cases wrapped leaf v (args.map (itemByKey k keys)) (mapKW (itemByKey k keys) kw) <;> rfl
end

end Pyg
