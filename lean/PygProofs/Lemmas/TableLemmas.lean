/-
  Helper lemmas for the dictable model (PygModel/Table.lean): `lens`, `bcast`, `mapE`, the dict
  operations on the column store and the rectangularity of every operation's result.
-/
import PygModel.Table

namespace Pyg
open Table

/-! ### mapE -/

theorem mapE_ok_length {α β ε} {f : α → Except ε β} {xs : List α} {ys : List β}
    (h : mapE f xs = .ok ys) : ys.length = xs.length := by
  induction xs generalizing ys with
  | nil => simp [mapE] at h; subst h; rfl
  | cons x xs ih =>
    simp only [mapE] at h
    split at h
    · cases h
    · split at h
      · cases h
      · rename_i ys' hys
        cases h
        simp [ih hys]

theorem mapE_ok_getElem {α β ε} {f : α → Except ε β} {xs : List α} {ys : List β}
    (h : mapE f xs = .ok ys) (i : Nat) (hi : i < xs.length) (hi' : i < ys.length) :
    f xs[i] = .ok ys[i] := by
  induction xs generalizing ys i with
  | nil => cases hi
  | cons x xs ih =>
    simp only [mapE] at h
    split at h
    · cases h
    · rename_i y hy
      split at h
      · cases h
      · rename_i ys' hys
        cases h
        cases i with
        | zero => simpa using hy
        | succ i =>
          simp only [List.getElem_cons_succ]
          exact ih hys i (by simpa using hi) (by simpa using hi')

theorem mapE_ok_mem {α β ε} {f : α → Except ε β} {xs : List α} {ys : List β}
    (h : mapE f xs = .ok ys) {y : β} (hy : y ∈ ys) : ∃ x ∈ xs, f x = .ok y := by
  induction xs generalizing ys with
  | nil => simp [mapE] at h; subst h; cases hy
  | cons x xs ih =>
    simp only [mapE] at h
    split at h
    · cases h
    · rename_i y' hy'
      split at h
      · cases h
      · rename_i ys' hys
        cases h
        rcases List.mem_cons.1 hy with rfl | hm
        · exact ⟨x, List.mem_cons_self, hy'⟩
        · obtain ⟨x', hx', hf⟩ := ih hys hm
          exact ⟨x', List.mem_cons_of_mem _ hx', hf⟩

/-- `mapE` of a function that never fails is `map` -/
theorem mapE_of_ok {α β ε} {f : α → Except ε β} {g : α → β} {xs : List α}
    (h : ∀ x ∈ xs, f x = .ok (g x)) : mapE f xs = .ok (xs.map g) := by
  induction xs with
  | nil => rfl
  | cons x xs ih =>
    simp only [mapE, h x List.mem_cons_self, ih (fun y hy => h y (List.mem_cons_of_mem _ hy)), List.map]

/-! ### lens / bcast -/

theorem lens_nil : lens [] = .ok 0 := rfl

/-- all lengths equal: that length -/
theorem lens_const {ls : List Nat} {n : Nat} (hne : ls ≠ []) (h : ∀ l ∈ ls, l = n) : lens ls = .ok n := by
  unfold lens
  have : ls.isEmpty = false := by cases ls <;> simp_all
  rw [this]
  simp only [Bool.false_eq_true, if_false]
  by_cases h1 : n = 1
  · subst h1
    have : ls.filter (· != 1) = [] := by
      apply List.filter_eq_nil_iff.2
      intro l hl; simp [h l hl]
    rw [this]
  · have hf : ls.filter (· != 1) = ls := by
      apply List.filter_eq_self.2
      intro l hl; simp [h l hl, h1]
    rw [hf]
    cases ls with
    | nil => exact absurd rfl hne
    | cons a rest =>
      have ha := h a List.mem_cons_self
      subst ha
      have : rest.all (· == a) = true := by
        apply List.all_eq_true.2
        intro l hl; simp [h l (List.mem_cons_of_mem _ hl)]
      simp [this]

/-- what a successful `lens` says: every length is the result or 1 -/
theorem lens_ok {ls : List Nat} {n : Nat} (h : lens ls = .ok n) : ∀ l ∈ ls, l = n ∨ l = 1 := by
  unfold lens at h
  split at h
  · rename_i he
    have : ls = [] := by simpa using he
    subst this; intro l hl; cases hl
  · split at h
    · rename_i hf
      intro l hl
      right
      have := List.filter_eq_nil_iff.1 hf l hl
      simpa using this
    · rename_i m rest hf
      split at h
      · rename_i hall
        cases h
        intro l hl
        by_cases h1 : l = 1
        · exact Or.inr h1
        · left
          have hm : l ∈ ls.filter (· != 1) := List.mem_filter.2 ⟨hl, by simpa using h1⟩
          rw [hf] at hm
          rcases List.mem_cons.1 hm with rfl | hr
          · rfl
          · have := List.all_eq_true.1 hall l hr
            simpa using this
      · cases h

theorem bcast_length {α} {n : Nat} {v : List α} (h : v.length = n ∨ v.length = 1) :
    (bcast n v).length = n := by
  unfold bcast
  split
  · simp
  · rename_i hne
    rcases h with h | h
    · exact h
    · exfalso
      match v, h with
      | [x], _ => exact hne x rfl

theorem bcast_self {α} {n : Nat} {v : List α} (h : v.length = n) : bcast n v = v := by
  unfold bcast
  split
  · simp at h; subst h; rfl
  · rfl

/-! ### Rect and the dict operations -/

namespace Table

theorem rect_nil (n : Nat) : Rect [] n := by intro c hc; cases hc

theorem nrows_of_rect {t : Table} {n : Nat} (h : t.Rect n) (hne : t ≠ []) : t.nrows = n := by
  cases t with
  | nil => exact absurd rfl hne
  | cons c t => exact h c List.mem_cons_self

theorem len_nil : Table.len [] = .ok 0 := rfl

theorem len_rect {t : Table} {n : Nat} (h : t.Rect n) (hne : t ≠ []) : t.len = .ok n := by
  unfold Table.len
  apply lens_const
  · simpa using hne
  · intro l hl
    obtain ⟨c, hc, rfl⟩ := List.mem_map.1 hl
    exact h c hc

/-- `len` of a rectangular table never raises -/
theorem len_rect' {t : Table} {n : Nat} (h : t.Rect n) : t.len = .ok t.nrows := by
  cases t with
  | nil => rfl
  | cons c t =>
    have := len_rect h (by simp)
    rw [this, nrows_of_rect h (by simp)]

/-- the constructor's last step (lines 335-336) is the identity on a rectangular dict -/
theorem finish_rect {t : Table} {n : Nat} (h : t.Rect n) : t.finish = .ok t := by
  unfold finish
  rw [len_rect' h]
  simp only
  congr 1
  cases t with
  | nil => rfl
  | cons c0 t0 =>
    have hn := nrows_of_rect h (by simp)
    rw [hn]
    calc List.map (fun c => (c.1, bcast n c.2)) (c0 :: t0)
        = List.map (fun c => c) (c0 :: t0) := by
          apply List.map_congr_left
          intro c hc
          rw [bcast_self (h c hc)]
      _ = c0 :: t0 := by simp

/-- whatever the constructor's last step returns is rectangular -/
theorem finish_ok_rect {t t' : Table} (h : t.finish = .ok t') : ∃ n, t'.Rect n := by
  unfold finish at h
  split at h
  · cases h
  · rename_i n hn
    cases h
    refine ⟨n, ?_⟩
    intro c hc
    obtain ⟨c', hc', rfl⟩ := List.mem_map.1 hc
    simp only
    apply bcast_length
    exact lens_ok hn _ (List.mem_map.2 ⟨c', hc', rfl⟩)

theorem has_nil (k : String) : Table.has [] k = false := rfl

theorem set_rect {t : Table} {n : Nat} {k : String} {v : List Cell} (h : t.Rect n) (hv : v.length = n) :
    (t.set k v).Rect n := by
  unfold Table.set
  split
  · intro c hc
    obtain ⟨c', hc', rfl⟩ := List.mem_map.1 hc
    split
    · exact hv
    · exact h c' hc'
  · intro c hc
    rcases List.mem_append.1 hc with hc | hc
    · exact h c hc
    · simp at hc; subst hc; exact hv

theorem set_ne_nil (t : Table) (k : String) (v : List Cell) : t.set k v ≠ [] := by
  unfold Table.set
  split
  · rename_i hh
    intro he
    have : t = [] := by simpa using he
    subst this
    simp [Table.has] at hh
  · simp

theorem erase_rect {t : Table} {n : Nat} (k : String) (h : t.Rect n) : (t.erase k).Rect n := by
  intro c hc
  exact h c (List.mem_filter.1 hc).1

theorem emptyLike_rect (t : Table) : t.emptyLike.Rect 0 := by
  intro c hc
  obtain ⟨c', _, rfl⟩ := List.mem_map.1 hc
  rfl

theorem foldl_set_rect {n : Nat} (kvs : List (String × List Cell)) (h : ∀ kv ∈ kvs, kv.2.length = n)
    (t : Table) (ht : t.Rect n) : (kvs.foldl (fun t kv => t.set kv.1 kv.2) t).Rect n := by
  induction kvs generalizing t with
  | nil => exact ht
  | cons kv kvs ih =>
    simp only [List.foldl_cons]
    apply ih (fun kv' hkv' => h kv' (List.mem_cons_of_mem _ hkv'))
    exact set_rect ht (h kv List.mem_cons_self)

theorem ofPairs_rect {n : Nat} {kvs : List (String × List Cell)} (h : ∀ kv ∈ kvs, kv.2.length = n) :
    (ofPairs kvs).Rect n := foldl_set_rect kvs h [] (rect_nil n)

/-! ### assignment -/

/-- `d[k] = v` on a rectangular table: the result is rectangular -/
theorem setitem_rect {t t' : Table} {n : Nat} {k : String} {v : ColVal} (h : t.Rect n)
    (hs : t.setitem k v = .ok t') : ∃ n', t'.Rect n' := by
  unfold setitem at hs
  rw [len_rect' h] at hs
  simp only at hs
  by_cases hne : t = []
  · subst hne
    simp at hs
    cases hs
    exact ⟨v.value.length, set_rect (rect_nil _) rfl⟩
  · have hn := nrows_of_rect h hne
    rw [hn] at hs
    have hemp : t.isEmpty = false := by cases t <;> simp_all
    rw [hemp] at hs
    simp only [Bool.or_false] at hs
    split at hs
    · rename_i hl
      cases hs
      exact ⟨n, set_rect h (by simpa using hl)⟩
    · split at hs
      · rename_i hl
        cases hs
        exact ⟨n, set_rect h (bcast_length (Or.inr (by simpa using hl)))⟩
      · cases hs

/-- the row count is kept by an assignment to a table that has columns -/
theorem setitem_rect_same {t t' : Table} {n : Nat} {k : String} {v : ColVal} (h : t.Rect n) (hne : t ≠ [])
    (hs : t.setitem k v = .ok t') : t'.Rect n ∧ t' ≠ [] := by
  unfold setitem at hs
  rw [len_rect h hne] at hs
  have hemp : t.isEmpty = false := by cases t <;> simp_all
  simp only [hemp, Bool.or_false] at hs
  split at hs
  · rename_i hl
    cases hs
    exact ⟨set_rect h (by simpa using hl), set_ne_nil _ _ _⟩
  · split at hs
    · rename_i hl
      cases hs
      exact ⟨set_rect h (bcast_length (Or.inr (by simpa using hl))), set_ne_nil _ _ _⟩
    · cases hs

theorem update_rect {t : Table} {n : Nat} (kvs : List (String × ColVal)) (h : t.Rect n) :
    ∃ n', (t.update kvs).1.Rect n' := by
  induction kvs generalizing t n with
  | nil => exact ⟨n, h⟩
  | cons kv kvs ih =>
    obtain ⟨k, v⟩ := kv
    simp only [update]
    split
    · exact ⟨n, h⟩
    · rename_i t' hs
      obtain ⟨n', hn'⟩ := setitem_rect h hs
      exact ih hn'

theorem updateE_rect {t t' : Table} {n : Nat} {kvs : List (String × ColVal)} (h : t.Rect n)
    (hu : t.updateE kvs = .ok t') : ∃ n', t'.Rect n' := by
  unfold updateE at hu
  have := update_rect kvs h
  split at hu
  · rename_i t'' heq
    cases hu
    rw [heq] at this
    exact this
  · cases hu

end Table
end Pyg
