import PygModel.Native
import PygProofs.Lemmas.CmpLemmas

namespace Pyg

theorem then_eq_right (o : Ordering) : o.then .eq = o := by cases o <;> rfl

theorem Cell.native_agrees (a b : Cell) (ha : a.isBool = false) (hb : b.isBool = false) (o : Ordering)
    (h : a.native b = some o) : Cell.cmp a b = o := by
  cases a <;> cases b <;>
    simp_all [Cell.native, Cell.numKey?, Cell.cmp, Cell.cmpSame, Cell.rank, Cell.num, Cell.skey, Cell.isBool] <;>
    (subst h; simp [Ordering.then])

theorem Cell.pyEq_cmp (a b : Cell) (ha : a.isBool = false) (hb : b.isBool = false) (h : a.pyEq b = true) :
    Cell.cmp a b = .eq := by
  cases a <;> cases b <;>
    simp_all [Cell.pyEq, Cell.cmp, Cell.cmpSame, Cell.rank, Cell.num, Cell.skey, Cell.isBool]

theorem Cell.native_ne_eq (a b : Cell) (ha : a.isBool = false) (hb : b.isBool = false) (o : Ordering)
    (h : a.native b = some o) (hne : a.pyEq b = false) : o ≠ .eq := by
  cases a <;> cases b <;>
    simp_all [Cell.native, Cell.numKey?, Cell.pyEq, Cell.isBool] <;> (subst h; simp_all [Ordering.then])

theorem normList_map_cell (xs : List Cell) : normList (xs.map Val.cell) = xs.map Val.cell := by
  induction xs with
  | nil => rfl
  | cons x xs ih => simp [normList, Val.norm, ih]

theorem cmpArr_cells_native : ∀ (xs ys : List Cell), xs.length = ys.length →
    (∀ c ∈ xs, c.isBool = false) → (∀ c ∈ ys, c.isBool = false) → ∀ o, nativeArr xs ys = some o →
    cmpArr (xs.map Val.cell) (ys.map Val.cell) = o
  | [], [], _, _, _, o, h => by simp [nativeArr] at h; subst h; rfl
  | [], _ :: _, hl, _, _, _, _ => by simp at hl
  | _ :: _, [], hl, _, _, _, _ => by simp at hl
  | x :: xs, y :: ys, hl, hx, hy, o, h => by
    have hxb := hx x (by simp); have hyb := hy y (by simp)
    simp only [List.map_cons, cmpArr, cmpN]
    simp only [nativeArr] at h
    by_cases he : x.pyEq y = true
    · rw [if_pos he] at h
      rw [Cell.pyEq_cmp x y hxb hyb he]
      exact cmpArr_cells_native xs ys (by simpa using hl) (fun c hc => hx c (by simp [hc]))
        (fun c hc => hy c (by simp [hc])) o h
    · rw [if_neg he] at h
      have hne := Cell.native_ne_eq x y hxb hyb o h (by simpa using he)
      rw [Cell.native_agrees x y hxb hyb o h]
      cases o <;> simp_all [Ordering.then]

/-- `R` holds between neighbours (what one learns from looking at a sorted output pair by pair) -/
def Adjacent {α : Type} (R : α → α → Prop) : List α → Prop
  | [] => True
  | [_] => True
  | a :: b :: l => R a b ∧ Adjacent R (b :: l)

theorem Adjacent.pairwise {α : Type} {R : α → α → Prop} (htr : ∀ a b c, R a b → R b c → R a c) :
    ∀ l : List α, Adjacent R l → l.Pairwise R
  | [], _ => List.Pairwise.nil
  | [_], _ => by simp
  | a :: b :: l, h => by
    have ih := Adjacent.pairwise htr (b :: l) h.2
    refine List.Pairwise.cons ?_ ih
    intro c hc
    rcases List.mem_cons.1 hc with rfl | hc
    · exact h.1
    · exact htr a b c h.1 (List.rel_of_pairwise_cons ih hc)

theorem Adjacent.imp {α : Type} {R S : α → α → Prop} (h : ∀ a b, R a b → S a b) :
    ∀ l : List α, Adjacent R l → Adjacent S l
  | [], _ => trivial
  | [_], _ => trivial
  | a :: b :: l, hl => ⟨h a b hl.1, Adjacent.imp h (b :: l) hl.2⟩

end Pyg
