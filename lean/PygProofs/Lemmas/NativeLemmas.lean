import PygModel.Native
import PygProofs.Lemmas.CmpLemmas

namespace Pyg

theorem then_eq_right (o : Ordering) : o.then .eq = o := by cases o <;> rfl

theorem Cell.native_agrees (a b : Cell) (ha : a.isBool = false) (hb : b.isBool = false) (o : Ordering)
    (h : a.native b = some o) : Cell.cmp a b = o := by
  cases a <;> cases b <;>
    simp_all [Cell.native, Cell.numKey?, Cell.cmp, Cell.cmpSame, Cell.rank, Cell.num, Cell.skey, Cell.isBool] <;>
    (subst h; simp [Ordering.then])

theorem Cell.pyEq_cmp (a b : Cell) (ha : a.isBool = false) (hb : b.isBool = false) (h : a.pyEq b = true) :
    Cell.cmp a b = .eq := by
  cases a <;> cases b <;>
    simp_all [Cell.pyEq, Cell.cmp, Cell.cmpSame, Cell.rank, Cell.num, Cell.skey, Cell.isBool]

theorem Cell.native_ne_eq (a b : Cell) (ha : a.isBool = false) (hb : b.isBool = false) (o : Ordering)
    (h : a.native b = some o) (hne : a.pyEq b = false) : o ≠ .eq := by
  cases a <;> cases b <;>
    simp_all [Cell.native, Cell.numKey?, Cell.pyEq, Cell.isBool] <;> (subst h; simp_all [Ordering.then])

theorem normList_map_cell (xs : List Cell) : normList (xs.map Val.cell) = xs.map Val.cell := by
  induction xs with
  | nil => rfl
  | cons x xs ih => simp [normList, Val.norm, ih]

theorem cmpArr_cells_native : ∀ (xs ys : List Cell), xs.length = ys.length →
    (∀ c ∈ xs, c.isBool = false) → (∀ c ∈ ys, c.isBool = false) → ∀ o, nativeArr xs ys = some o →
    cmpArr (xs.map Val.cell) (ys.map Val.cell) = o
  | [], [], _, _, _, o, h => by simp [nativeArr] at h; subst h; rfl
  | [], _ :: _, hl, _, _, _, _ => by simp at hl
  | _ :: _, [], hl, _, _, _, _ => by simp at hl
  | x :: xs, y :: ys, hl, hx, hy, o, h => by
    have hxb := hx x (by simp); have hyb := hy y (by simp)
    simp only [List.map_cons, cmpArr, cmpN]
    simp only [nativeArr] at h
    by_cases he : x.pyEq y = true
    · rw [if_pos he] at h
      rw [Cell.pyEq_cmp x y hxb hyb he]
      exact cmpArr_cells_native xs ys (by simpa using hl) (fun c hc => hx c (by simp [hc]))
        (fun c hc => hy c (by simp [hc])) o h
    · rw [if_neg he] at h
      have hne := Cell.native_ne_eq x y hxb hyb o h (by simpa using he)
      rw [Cell.native_agrees x y hxb hyb o h]
      cases o <;> simp_all [Ordering.then]

/-- `R` holds between neighbours (what one learns from looking at a sorted output pair by pair) -/
def Adjacent {α : Type} (R : α → α → Prop) : List α → Prop
  | [] => True
  | [_] => True
  | a :: b :: l => R a b ∧ Adjacent R (b :: l)

theorem Adjacent.pairwise {α : Type} {R : α → α → Prop} (htr : ∀ a b c, R a b → R b c → R a c) :
    ∀ l : List α, Adjacent R l → l.Pairwise R
  | [], _ => List.Pairwise.nil
  | [_], _ => by simp
  | a :: b :: l, h => by
    have ih := Adjacent.pairwise htr (b :: l) h.2
    refine List.Pairwise.cons ?_ ih
    intro c hc
    rcases List.mem_cons.1 hc with rfl | hc
    · exact h.1
    · exact htr a b c h.1 (List.rel_of_pairwise_cons ih hc)

theorem Adjacent.imp {α : Type} {R S : α → α → Prop} (h : ∀ a b, R a b → S a b) :
    ∀ l : List α, Adjacent R l → Adjacent S l
  | [], _ => trivial
  | [_], _ => trivial
  | a :: b :: l, hl => ⟨h a b hl.1, Adjacent.imp h (b :: l) hl.2⟩

/-- a property of all members may be added to the neighbour relation -/
theorem Adjacent.and_mem {α : Type} {R : α → α → Prop} {P : α → Prop} :
    ∀ l : List α, (∀ a ∈ l, P a) → Adjacent R l → Adjacent (fun a b => P a ∧ P b ∧ R a b) l
  | [], _, _ => trivial
  | [_], _, _ => trivial
  | a :: b :: l, hP, hl =>
    ⟨⟨hP a (by simp), hP b (by simp), hl.1⟩,
      Adjacent.and_mem (b :: l) (fun c hc => hP c (List.mem_cons_of_mem _ hc)) hl.2⟩

theorem Val.norm_rank (v : Val) : v.norm.rank = v.rank := by
  cases v <;> simp [Val.norm, Val.rank]

/-- every comparison starts with the type rank -/
theorem cmp_rank (a b : Val) : cmp a b = (compare a.rank b.rank).then (cmp a b) := by
  have h := cmpN_rank a.norm b.norm
  rw [Val.norm_rank, Val.norm_rank] at h
  exact h

theorem cmp_rank_le (a b : Val) (h : (cmp a b).isLE = true) : a.rank ≤ b.rank := by
  rw [cmp_rank] at h
  rcases Nat.lt_trichotomy a.rank b.rank with h1 | h1 | h1
  · omega
  · omega
  · have : compare a.rank b.rank = .gt := Nat.compare_eq_gt.2 h1
    rw [this] at h; simp [Ordering.then] at h

theorem cmp_of_rank_lt (a b : Val) (h : a.rank < b.rank) : cmp a b = .lt := by
  rw [cmp_rank, Nat.compare_eq_lt.2 h]; rfl

end Pyg
