/-
  Helper lemmas for C11: within a group of `_listby` the row ids are in original (increasing) order,
  and a group holds exactly the rows whose key is `cmp`-equal to the group's key.
-/
import PygModel.Group
import PygProofs.Lemmas.JoinLemmas

namespace Pyg

/-- loop invariant for the order of the row ids inside the groups -/
theorem listbyLoop_increasing :
    ∀ (xs : List (Val × Nat)) (prev : Val) (row : List Nat) (res : List Grp),
      xs.Pairwise (fun a b => List.zipIdxLE cmpLe a b = true ∧ a.2 ≠ b.2) →
      (∀ g ∈ res, g.2.Pairwise (· < ·)) → row.Pairwise (· < ·) →
      (∀ i ∈ row, ∀ p ∈ xs, cmp p.1 prev = .eq → i < p.2) →
      ∀ g ∈ listbyLoop xs prev row res, g.2.Pairwise (· < ·) := by
  intro xs
  induction xs with
  | nil =>
    intro prev row res _ hres hrow _ g hg
    simp only [listbyLoop, List.mem_append, List.mem_singleton] at hg
    rcases hg with hg | rfl
    · exact hres g hg
    · exact hrow
  | cons p rest ih =>
    intro prev row res hxs hres hrow hlt
    obtain ⟨key, i⟩ := p
    have hx := List.pairwise_cons.1 hxs
    -- the new element precedes, with a smaller row id, every later element with an equal key
    have hnew : ∀ p ∈ rest, cmp p.1 key = .eq → i < p.2 := by
      intro p hp he
      obtain ⟨hz, hne⟩ := hx.1 p hp
      simp only [List.zipIdxLE] at hz
      have h1 : cmpLe key p.1 = true := by
        unfold cmpLe; rw [cmp_eq_symm he]; rfl
      have h2 : cmpLe p.1 key = true := by
        unfold cmpLe; rw [he]; rfl
      simp only [h1, h2, if_true, decide_eq_true_eq] at hz
      simp only at hne
      omega
    simp only [listbyLoop]
    split
    · rename_i hc
      apply ih key (row ++ [i]) res hx.2 hres
      · rw [List.pairwise_append]
        refine ⟨hrow, by simp, ?_⟩
        intro a ha b hb
        simp at hb; subst hb
        rcases Bool.or_eq_true _ _ ▸ hc with he | he
        · simp at he; subst he; simp at ha
        · have he' : cmp key prev = .eq := by simpa using he
          exact hlt a ha (key, b) (by simp) he'
      · intro a ha p hp he
        rcases List.mem_append.1 ha with ha | ha
        · rcases Bool.or_eq_true _ _ ▸ hc with he' | he'
          · simp at he'; subst he'; simp at ha
          · have he'' : cmp key prev = .eq := by simpa using he'
            exact hlt a ha p (by simp [hp]) (cmp_eq_trans he he'')
        · simp at ha; subst ha; exact hnew p hp he
    · apply ih key [i] (res ++ [(prev, row)]) hx.2
      · intro g hg
        rcases List.mem_append.1 hg with hg | hg
        · exact hres g hg
        · simp at hg; subst hg; exact hrow
      · simp
      · intro a ha p hp he
        simp at ha; subst ha; exact hnew p hp he

theorem sortedKeyIds_pairwise' (keys : List Val) :
    (sortedKeyIds keys).Pairwise (fun a b => List.zipIdxLE cmpLe a b = true ∧ a.2 ≠ b.2) := by
  have h1 := sortedKeyIds_pairwise keys
  have h2 : ((sortedKeyIds keys).map (·.2)).Nodup := by
    rw [sortedKeyIds_snd]
    exact List.nodup_range.perm (Props.C07.sortIdx_perm keys).symm
  rw [List.nodup_iff_pairwise_ne, List.pairwise_map] at h2
  exact h1.and h2

/-- within every group the row ids are in increasing, i.e. original, order (stability of the sort) -/
theorem listbyG_increasing (keys : List Val) : ∀ g ∈ listbyG keys, g.2.Pairwise (· < ·) :=
  listbyLoop_increasing _ _ _ _ (sortedKeyIds_pairwise' keys) (by simp) (by simp) (by simp)

/-- two groups with `cmp`-equal keys are the same group -/
theorem group_unique {L : List Grp} (h : SortedG L) {a b : Grp} (ha : a ∈ L) (hb : b ∈ L)
    (he : cmp a.1 b.1 = .eq) : a = b := by
  induction L with
  | nil => cases ha
  | cons x xs ih =>
    have hx := List.pairwise_cons.1 h
    rcases List.mem_cons.1 ha with rfl | ha' <;> rcases List.mem_cons.1 hb with rfl | hb'
    · rfl
    · have := hx.1 b hb'; rw [he] at this; cases this
    · have := hx.1 a ha'; rw [cmp_gt_of_lt this] at he; cases he
    · exact ih hx.2 ha' hb'

theorem mem_group_iff {keys : List Val} {g : Grp} (hg : g ∈ listbyG keys) {i : Nat} :
    i ∈ g.2 ↔ i < keys.length ∧ cmp (keyAt keys i) g.1 = .eq := by
  constructor
  · intro hi
    obtain ⟨k, hk, he⟩ := listbyG_keys keys g hg i hi
    exact ⟨(List.getElem?_eq_some_iff.1 hk).1, by rw [keyAt_of_get hk]; exact he⟩
  · rintro ⟨hi, he⟩
    obtain ⟨g', hg', hig'⟩ := mem_listbyG.2 hi
    obtain ⟨k, hk, he'⟩ := listbyG_keys keys g' hg' i hig'
    rw [keyAt_of_get hk] at he
    have : g' = g := group_unique (listbyG_sorted keys) hg' hg (cmp_eq_trans (cmp_eq_symm he') he)
    rw [← this]; exact hig'

/-- **a group is exactly the rows with its key, in original order** -/
theorem group_eq_filter {keys : List Val} {g : Grp} (hg : g ∈ listbyG keys) :
    g.2 = (List.range keys.length).filter fun i => cmp (keyAt keys i) g.1 == .eq := by
  have hinc := listbyG_increasing keys g hg
  have hr : ((List.range keys.length).filter fun i => cmp (keyAt keys i) g.1 == .eq).Pairwise (· < ·) :=
    List.Pairwise.filter _ (by simp [List.pairwise_lt_range])
  have hperm : g.2.Perm ((List.range keys.length).filter fun i => cmp (keyAt keys i) g.1 == .eq) := by
    rw [List.perm_ext_iff_of_nodup]
    · intro i; rw [mem_group_iff hg, List.mem_filter]; simp
    · exact hinc.imp (fun h => Nat.ne_of_lt h)
    · exact hr.imp (fun h => Nat.ne_of_lt h)
  exact hperm.eq_of_pairwise (le := fun a b => a ≤ b)
    (fun a b _ _ h1 h2 => Nat.le_antisymm h1 h2)
    (hinc.imp Nat.le_of_lt) (hr.imp Nat.le_of_lt)

/-- the group sizes add up to the number of rows -/
theorem group_sizes (keys : List Val) :
    ((listbyG keys).map (·.2.length)).sum = keys.length := by
  have h := (listbyG_perm keys).length_eq
  rw [List.length_flatMap, List.length_range] at h
  exact h

end Pyg
