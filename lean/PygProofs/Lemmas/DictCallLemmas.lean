import PygModel.DictCall
import PygProofs.Lemmas.USetLemmas

namespace Pyg.DictCall
open Pyg.DA
variable {V : Type}

theorem apply_err (res : Env V) (f : Fn V) (e : Err) (h : apply res f = .error e) : e = .type := by
  simp only [apply, bind, Except.bind] at h
  split at h
  · rename_i e' he
    cases h
    -- the only throw inside mapM is `Err.type`
    have : ∀ (as : List String) (e : Err),
        (as.mapM fun a => match lookup a res with
          | some v => (pure v : Res V)
          | none => throw Err.type) = .error e → e = .type := by
      intro as
      induction as with
      | nil => intro e h; simp [List.mapM_nil, pure, Except.pure] at h
      | cons a as ih =>
        intro e h
        simp only [List.mapM_cons, bind, Except.bind] at h
        split at h
        · rename_i e1 h1
          cases h
          cases hl : lookup a res <;> simp [hl, pure, Except.pure, throw, throwThe, MonadExceptOf.throw] at h1
          exact h1.symm
        · split at h
          · rename_i e2 h2; cases h; exact ih _ h2
          · simp [pure, Except.pure] at h
    exact this _ _ he
  · simp [pure, Except.pure] at h

theorem evalAll_err : ∀ (cs : List (String × Fn V)) (res : Env V) (e : Err),
    evalAll res cs = .error e → e = .type
  | [], res, e, h => by simp [evalAll, pure, Except.pure] at h
  | (k, f) :: cs, res, e, h => by
      simp only [evalAll, bind, Except.bind] at h
      split at h
      · rename_i e1 h1; cases h; exact apply_err res f _ h1
      · exact evalAll_err cs _ e h

theorem length_filter_not {α} (p : α → Bool) : ∀ l : List α,
    (l.filter p).length + (l.filter fun c => !p c).length = l.length
  | [] => rfl
  | x :: xs => by
      have := length_filter_not p xs
      by_cases h : p x <;> simp [h] <;> omega

theorem two_le_length_of_mem {α} (l : List α) (a b : α) (ha : a ∈ l) (hb : b ∈ l) (hab : a ≠ b) :
    2 ≤ l.length := by
  match l, ha, hb with
  | [x], ha, hb => simp at ha hb; exact absurd (ha.trans hb.symm) hab
  | _ :: _ :: _, _, _ => simp

/-- every key of `S` is a pending callable that reads another member of `S` (the keys on a
dependency cycle form such a set) -/
def Closed (S : List String) (cs : List (String × Fn V)) : Prop :=
  ∀ k ∈ S, ∃ c ∈ cs, c.1 = k ∧ ∃ a ∈ c.2.args, a ∈ S

theorem closed_not_independent (S : List String) (cs : List (String × Fn V)) (hS : Closed S cs)
    (c : String × Fn V) (a : String) (ha : a ∈ c.2.args) (haS : a ∈ S) :
    independent (cs.map (·.1)) c = false := by
  obtain ⟨c', hc', hk, _⟩ := hS a haS
  simp only [independent, List.all_eq_false]
  refine ⟨a, ha, ?_⟩
  have hm : a ∈ cs.map (·.1) := List.mem_map.2 ⟨c', hc', hk⟩
  simp [hm]

theorem loop_closed_raises (S : List String) (a b : String) (ha : a ∈ S) (hb : b ∈ S) (hab : a ≠ b) :
    ∀ (fuel : Nat) (res : Env V) (cs : List (String × Fn V)), cs.length ≤ fuel → Closed S cs →
      loop fuel res cs = .error .value ∨ loop fuel res cs = .error .type := by
  intro fuel
  induction fuel with
  | zero =>
    intro res cs hl hS
    obtain ⟨c, hc, _⟩ := hS a ha
    have : cs = [] := by cases cs <;> simp_all
    simp [this] at hc
  | succ fuel ih =>
    intro res cs hl hS
    obtain ⟨ca, hca, hka, xa, hxa, hxaS⟩ := hS a ha
    obtain ⟨cb, hcb, hkb, _⟩ := hS b hb
    have h2 : 2 ≤ cs.length := two_le_length_of_mem cs ca cb hca hcb (by
      intro e; apply hab; rw [← hka, ← hkb, e])
    have hnle : ¬ cs.length ≤ 1 := by omega
    simp only [loop, hnle, if_false]
    by_cases hemp : (cs.filter (independent (cs.map (·.1)))).isEmpty = true
    · left; simp [hemp]; rfl
    · simp only [hemp, Bool.false_eq_true, if_false, bind, Except.bind]
      split
      · rename_i e he; right; rw [evalAll_err _ _ _ he]
      · rename_i res' _
        apply ih
        · have := length_filter_not (independent (cs.map (·.1))) cs
          have hpos : 0 < (cs.filter (independent (cs.map (·.1)))).length := by
            cases h : cs.filter (independent (cs.map (·.1))) with
            | nil => simp [h] at hemp
            | cons _ _ => simp
          omega
        · intro k hk
          obtain ⟨c, hc, hck, x, hx, hxS⟩ := hS k hk
          refine ⟨c, ?_, hck, x, hx, hxS⟩
          simp only [List.mem_filter, hc, true_and, Bool.not_eq_true']
          exact closed_not_independent S cs hS c x hx hxS

/-- which callables are ready in a round does not depend on the keyword order -/
theorem independent_perm (ks ks' : List String) (h : ks.Perm ks') (c : String × Fn V) :
    independent ks c = independent ks' c := by
  simp only [independent]
  congr 1
  funext a
  simp [h.mem_iff]

end Pyg.DictCall
