/-
  Helper lemmas for C08: reading a Series result by label at EVERY timestamp (`valueAtR`), the pairwise joint index,
  and the n-ary left fold of the operators; explicit IEEE division (`XVal`) for "never ±inf".
-/
import PygModel.Ops
import PygProofs.Lemmas.OpsLemmas

namespace Pyg.Ops
open Pyg Pyg.Align

/-- the joint index of two indices -/
def join2 (how : How) (a b : List Int) : List Int :=
  match how with
  | .inner => inter a b
  | .outer => union a b
  | .left => a
  | .right => b

theorem joinIndex_pair (how : How) (a b : List Int) : joinIndex how [a, b] = some (join2 how a b) := by
  cases how <;> rfl

theorem getLastD_foldl (x : List Int) (xs : List (List Int)) : (x :: xs).getLastD x = xs.foldl (fun _ b => b) x := by
  induction xs generalizing x with
  | nil => rfl
  | cons y ys ih =>
    have : (x :: y :: ys).getLastD x = (y :: ys).getLastD y := by simp [List.getLastD]
    rw [this, ih]; rfl

/-- the joint index of a list = the pairwise joint index folded from the left (`reducing('intersection' | 'union')`,
first, last) -/
theorem joinIndex_fold (how : How) (x : List Int) (xs : List (List Int)) :
    joinIndex how (x :: xs) = some (xs.foldl (join2 how) x) := by
  cases how
  · rfl
  · rfl
  · simp only [joinIndex]
    congr 1
    induction xs generalizing x with
    | nil => rfl
    | cons y ys ih => exact ih x
  · simp only [joinIndex, getLastD_foldl]
    rfl

theorem valueAtR_not_mem (s : RSeries) (t : Int) (h : t ∉ s.idx) : valueAtR s t = Option.none := by
  simp [valueAtR, (posOf_none s.idx t).mpr h]

/-- reading a Series given as a function of the label -/
theorem valueAtR_built (ix : List Int) (g : Int → Option Rat) (t : Int) (h : t ∈ ix) :
    valueAtR { idx := ix, vals := ix.map g } t = g t := by
  obtain ⟨i, hi⟩ := posOf_of_mem ix t h
  have h2 := (posOf_some ix t i hi).1
  simp only [valueAtR, hi, Option.bind_some, List.getElem?_map, h2, Option.map_some, Option.join_some]

theorem appO_none_left (op : Op) (x : Option Rat) : op.appO Option.none x = Option.none := by cases x <;> rfl
theorem appO_none_right (op : Op) (x : Option Rat) : op.appO x Option.none = Option.none := by cases x <;> rfl

/-- a label outside the joint index: one of the operands has no value there, whatever the policy -/
theorem appO_outside (op : Op) (how : How) (a b : RSeries) (t : Int) (h : t ∉ join2 how a.idx b.idx) :
    op.appO (valueAtR a t) (valueAtR b t) = Option.none := by
  cases how
  · simp only [join2, mem_inter] at h
    by_cases ha : t ∈ a.idx
    · rw [valueAtR_not_mem b t (fun hb => h ⟨ha, hb⟩), appO_none_right]
    · rw [valueAtR_not_mem a t ha, appO_none_left]
  · simp only [join2, mem_union, not_or] at h
    rw [valueAtR_not_mem a t h.1, appO_none_left]
  · rw [valueAtR_not_mem a t h, appO_none_left]
  · rw [valueAtR_not_mem b t h, appO_none_right]

/-- one step, read at EVERY label (inside the joint index the pointwise value, outside NaN = what the operands give) -/
theorem binop_step (op : Op) (how : How) (a b : RSeries) :
    ∃ r, binop op how Option.none (.ts a) (.ts b) = .ts r ∧ r.idx = join2 how a.idx b.idx ∧
      r.vals = r.idx.map (valueAtR r) ∧ ∀ t, valueAtR r t = op.appO (valueAtR a t) (valueAtR b t) := by
  have hb : binop op how Option.none (.ts a) (.ts b) =
      .ts { idx := join2 how a.idx b.idx, vals := (join2 how a.idx b.idx).map fun t => op.appO (valueAtR a t) (valueAtR b t) } := by
    cases how <;> simp [binop, alignAll, indexesOf, joinIndex, join2, kernel, reindexR, List.zip_map', List.map_map, Function.comp_def]
  have hv : ∀ t, valueAtR { idx := join2 how a.idx b.idx, vals := (join2 how a.idx b.idx).map fun t => op.appO (valueAtR a t) (valueAtR b t) } t =
      op.appO (valueAtR a t) (valueAtR b t) := by
    intro t
    by_cases ht : t ∈ join2 how a.idx b.idx
    · exact valueAtR_built _ _ t ht
    · rw [valueAtR_not_mem _ t ht, appO_outside op how a b t ht]
  refine ⟨_, hb, rfl, ?_, hv⟩
  apply List.map_congr_left
  intro t _
  exact (hv t).symm

/-- n operands folded from the left, read at every label -/
theorem foldl_binop (op : Op) (how : How) (a : RSeries) (xs : List RSeries) :
    ∃ r, (xs.map Operand.ts).foldl (binop op how Option.none) (.ts a) = .ts r ∧
      r.idx = (xs.map (·.idx)).foldl (join2 how) a.idx ∧
      (xs ≠ [] → r.vals = r.idx.map (valueAtR r)) ∧
      ∀ t, valueAtR r t = xs.foldl (fun v s => op.appO v (valueAtR s t)) (valueAtR a t) := by
  induction xs generalizing a with
  | nil => exact ⟨a, rfl, rfl, fun h => absurd rfl h, fun _ => rfl⟩
  | cons b xs ih =>
    obtain ⟨a', h1, h2, h3, h4⟩ := binop_step op how a b
    obtain ⟨r, g1, g2, g3, g4⟩ := ih a'
    refine ⟨r, ?_, ?_, ?_, ?_⟩
    · simp only [List.map_cons, List.foldl_cons, h1, g1]
    · simp only [List.map_cons, List.foldl_cons, g2, h2]
    · intro _
      cases xs with
      | nil =>
        simp only [List.map_nil, List.foldl_nil] at g1
        cases g1
        exact h3
      | cons c cs => exact g3 (by simp)
    · intro t
      simp only [List.foldl_cons, g4 t, h4 t]

/-! ### explicit IEEE division: a value type WITH infinities -/

/-- a float: a finite number, NaN, +inf, -inf (no rounding, no overflow: finite arithmetic is exact) -/
inductive XVal where
  | fin (q : Rat) | nan | pinf | ninf
  deriving Repr, DecidableEq, Inhabited

/-- numpy's `x / y` on floats for finite or NaN operands: `x / 0` is `+inf`, `-inf` or (for `0 / 0`) NaN -/
def XVal.div : XVal → XVal → XVal
  | .fin x, .fin y => if y = 0 then (if 0 < x then .pinf else if x < 0 then .ninf else .nan) else .fin (x / y)
  | .fin _, .pinf => .fin 0
  | .fin _, .ninf => .fin 0
  | .fin _, .nan => .nan
  | .nan, _ => .nan
  | .pinf, .fin y => if 0 ≤ y then .pinf else .ninf
  | .pinf, _ => .nan          -- inf / inf, inf / nan
  | .ninf, .fin y => if 0 ≤ y then .ninf else .pinf
  | .ninf, _ => .nan

/-- `x * nan` -/
def XVal.mulNan : XVal → XVal := fun _ => .nan

/-- `denom = b.copy(); denom[denom == 0] = np.nan`, one cell -/
def XVal.maskZero : XVal → XVal
  | .fin y => if y = 0 then .nan else .fin y
  | v => v

/-- the cell of `_div_(a, b)` for a timeseries `b`, lines 1066-1069: `a / denom` -/
def XVal.divMasked (x y : XVal) : XVal := x.div y.maskZero

/-- the cell of `_div_(a, b)` for a number `b`, line 1064 (repaired, F10): `a * nan if b == 0 else a / b` -/
def XVal.divScalar (x y : XVal) : XVal := if y = .fin 0 then x.mulNan else x.div y

/-- the model's values (exact rationals, `none` = NaN) as floats: never an infinity -/
def XVal.ofO : Option Rat → XVal
  | some q => .fin q
  | Option.none => .nan

def XVal.isInf : XVal → Bool
  | .pinf => true | .ninf => true | _ => false

/-! ### `a - (y + z) = (a - y) - z`, `a / (y * z) = (a / y) / z` on NaN-absorbing values with division by zero = NaN:
why a list on the RIGHT of `sub_` / `div_` (reduced with `add_` / `mul_` first) still gives the left fold (C08-A3) -/

theorem appO_sub_add (a y z : Option Rat) : Op.sub.appO a (Op.add.appO y z) = Op.sub.appO (Op.sub.appO a y) z := by
  cases a <;> cases y <;> cases z <;> simp [Op.appO, Op.app] <;> grind

theorem appO_div_mul (a y z : Option Rat) : Op.div.appO a (Op.mul.appO y z) = Op.div.appO (Op.div.appO a y) z := by
  cases a <;> cases y <;> cases z <;> simp [Op.appO, Op.app]
  rename_i a y z
  by_cases hy : y = 0
  · simp [hy]
  · by_cases hz : z = 0
    · simp [hz, hy]
    · have : y * z ≠ 0 := by grind
      simp [hy, hz, this]
      grind

/-- the pre-reducing operator of `sub_` / `div_` -/
def Op.pre : Op → Op
  | .sub => .add
  | .div => .mul
  | o => o

theorem appO_op_pre (op : Op) (hop : op = .sub ∨ op = .div) (a y z : Option Rat) :
    op.appO a (op.pre.appO y z) = op.appO (op.appO a y) z := by
  rcases hop with rfl | rfl
  · exact appO_sub_add a y z
  · exact appO_div_mul a y z

theorem foldl_pre_right {α : Type} (op : Op) (hop : op = .sub ∨ op = .div) (val : α → Option Rat) (ys : List α) (a y : Option Rat) :
    op.appO a (ys.foldl (fun v s => op.pre.appO v (val s)) y) = ys.foldl (fun v s => op.appO v (val s)) (op.appO a y) := by
  induction ys generalizing a y with
  | nil => rfl
  | cons z zs ih => simp only [List.foldl_cons]; rw [ih, appO_op_pre op hop]

end Pyg.Ops
