/-
  Helper lemmas for C20: `join` RETURNS a table (never the model's `none`, no error) for inputs keyed
  by all of `on` whose `_item` succeeds — so that `join_keys` speaks about every such call.
-/
import PygProofs.Lemmas.PerDictJoin

namespace Pyg

/-! ### `a * b` returns -/

def cellD : Val → Cell
  | .cell c => c
  | _ => .none

theorem toTable_of_cells (v : VTable) (h : ∀ c ∈ v, ∀ x ∈ c.2, ∃ y, x = Val.cell y) :
    ∃ d, v.toTable = some d := by
  refine ⟨v.map fun c => (c.1, c.2.map cellD), ?_⟩
  simp only [VTable.toTable]
  apply optMapM_some_of_forall
  intro c hc
  have : c.2.mapM cellOfVal = some (c.2.map cellD) := by
    apply optMapM_some_of_forall
    intro x hx
    obtain ⟨y, rfl⟩ := h c hc x hx
    rfl
  rw [this]
  rfl

theorem joinTableOf_shape (a b : Table) (on : List String) (kp : List (Val × Nat × Nat))
    (hsh : linter a.cols b.cols = on) :
    joinTableOf a b on .pair kp =
      (on.zipIdx.map fun c => (c.1, kp.map fun p => tupleGet c.2 p.1)) ++
      ((lminus a.cols on).map fun k => (k, kp.map fun p => Val.cell (a.jcellAt k p.2.1))) ++
      ((lminus b.cols on).map fun k => (k, kp.map fun p => Val.cell (b.jcellAt k p.2.2))) := by
  have hj0 : linter (lminus a.cols on) (lminus b.cols on) = [] := by
    simp only [linter, List.filter_eq_nil_iff]
    intro k hk hkb
    have hkb' : k ∈ lminus b.cols on := by simpa using hkb
    have h1 := mem_lminus.1 hk
    have h2 := mem_lminus.1 hkb'
    exact h1.2 (hsh ▸ mem_linter.2 ⟨h1.1, h2.1⟩)
  have e1 : lminus (lminus a.cols on) [] = lminus a.cols on := by simp [lminus]
  have e2 : lminus (lminus b.cols on) [] = lminus b.cols on := by simp [lminus]
  simp only [joinTableOf, hj0, e1, e2, List.map_nil, List.append_nil]

theorem mul_total (on : List String) (hon : on ≠ []) (a b : Table) (hsh : Shares on a b)
    (hnd : OnNodup on a) : ∃ d, a.mul b = some (.ok d) ∧ OnNodup on d := by
  have hon' := linter_ne_nil hon hsh
  have hnd' : (linter a.cols b.cols).Nodup := by rw [linter_eq_filter_on hsh]; exact hnd
  have hmem := hsh.linter
  have hina : ∀ k ∈ linter a.cols b.cols, k ∈ a.cols := fun k hk => (mem_linter.1 hk).1
  have hinb : ∀ k ∈ linter a.cols b.cols, k ∈ b.cols := fun k hk => (mem_linter.1 hk).2
  have hj := join_explicit a b ((linter a.cols b.cols).map .col) ((linter a.cols b.cols).map .col)
    .pair _ (keysOn a _) (keysOn b _) rfl (joinColNames_cols _) hnd' hon'
    (keysOn_ok a _ hina) (keysOn_ok b _ hinb)
  have hj' : join a b none none .pair = some (.ok (joinTableOf a b (linter a.cols b.cols) .pair
      (keyedPairs (joinMatches (keysOn a (linter a.cols b.cols)) (keysOn b (linter a.cols b.cols)))))) := by
    rw [← hj]; simp [join]
  have hrep := keyedPairs_rep_mem (lk := keysOn a (linter a.cols b.cols))
    (rk := keysOn b (linter a.cols b.cols))
  generalize keyedPairs (joinMatches (keysOn a (linter a.cols b.cols))
    (keysOn b (linter a.cols b.cols))) = kp at hj' hrep
  obtain ⟨d, hd⟩ := toTable_of_cells (joinTableOf a b (linter a.cols b.cols) .pair kp) (by
    rw [joinTableOf_shape a b _ kp rfl]
    intro c hc x hx
    simp only [List.mem_append, List.mem_map] at hc
    rcases hc with (⟨y, _, rfl⟩ | ⟨y, _, rfl⟩) | ⟨y, _, rfl⟩
    · simp only [List.mem_map] at hx
      obtain ⟨p, hp, rfl⟩ := hx
      have hm := hrep p hp
      simp only [keysOn, List.mem_map, List.mem_range] at hm
      obtain ⟨i, _, hi⟩ := hm
      rw [← hi]
      simp only [rowKey, tupleGet, List.getD_eq_getElem?_getD, List.getElem?_map]
      cases (linter a.cols b.cols)[y.2]? with
      | none => exact ⟨_, rfl⟩
      | some k => exact ⟨_, rfl⟩
    · simp only [List.mem_map] at hx
      obtain ⟨p, _, rfl⟩ := hx
      exact ⟨_, rfl⟩
    · simp only [List.mem_map] at hx
      obtain ⟨p, _, rfl⟩ := hx
      exact ⟨_, rfl⟩)
  have hmul : a.mul b = some (.ok d) := by simp [Table.mul, hj', hd]
  refine ⟨d, hmul, ?_⟩
  have hcols := mul_cols a b d _ hon' hnd' rfl hmul
  simp only [OnNodup, hcols, List.filter_append]
  have e1 : (linter a.cols b.cols).filter (fun c => on.contains c) = linter a.cols b.cols := by
    apply List.filter_eq_self.2
    intro c hc
    simpa using (hmem c).1 hc
  have e2 : ∀ x : Table, (lminus x.cols (linter a.cols b.cols)).filter (fun c => on.contains c) = [] := by
    intro x
    simp only [List.filter_eq_nil_iff]
    intro c hc ho
    exact (mem_lminus.1 hc).2 ((hmem c).2 (by simpa using ho))
  rw [e1, e2 a, e2 b]
  simpa using hnd'

/-! ### `b / a` returns -/

theorem div_total (on : List String) (hon : on ≠ []) (b a : Table) (hsh : Shares on b a) :
    ∃ e, b.div a = .ok e := by
  have hon' := linter_ne_nil hon hsh
  have hinb : ∀ k ∈ linter b.cols a.cols, k ∈ b.cols := fun k hk => (mem_linter.1 hk).1
  have hina : ∀ k ∈ linter b.cols a.cols, k ∈ a.cols := fun k hk => (mem_linter.1 hk).2
  have hlk := keysOn_ok b _ hinb
  have hrk := keysOn_ok a _ hina
  have hemp : ((linter b.cols a.cols).map KeySpec.col).isEmpty = false := by
    cases h' : linter b.cols a.cols with
    | nil => exact absurd h' hon'
    | cons x xs => rfl
  refine ⟨b.gatherRows (xorIds 0 (keysOn b (linter b.cols a.cols)) (keysOn a (linter b.cols a.cols))), ?_⟩
  simp only [Table.div, xor, Option.getD_none, ne_eq, not_true_eq_false, if_false, hemp,
    Bool.false_eq_true, hlk, hrk, bind, Except.bind, pure, Except.pure, if_true]

/-! ### `_join_dictable_with_defaults` returns -/

theorem stage_total (on : List String) (hon : on ≠ []) (D0 src other : Table)
    (dd : List (String × Cell)) (hsh : Shares on src other) (hnd : OnNodup on D0)
    (hD0 : ∀ c ∈ on, c ∈ D0.cols) :
    ∃ D1, (if dd.isEmpty then (.ok D0 : Res Table)
      else (src.div other).map fun extra => D0.concat2 (extra.setConsts dd)) = .ok D1 ∧
      OnNodup on D1 ∧ ∀ c ∈ on, c ∈ D1.cols := by
  by_cases hdd : dd.isEmpty = true
  · exact ⟨D0, by simp [hdd], hnd, hD0⟩
  · obtain ⟨e, he⟩ := div_total on hon src other hsh
    refine ⟨D0.concat2 (e.setConsts dd), by simp [hdd, he, Except.map],
      concat2_onNodup on D0 _ hnd hD0, ?_⟩
    intro c hc
    rw [concat2_cols]
    exact List.mem_append.2 (.inl (hD0 c hc))

theorem joinDef_total (on : List String) (hon : on ≠ []) (a b : Table)
    (da db : List (String × Cell)) (hsh : Shares on a b) (hnd : OnNodup on a) :
    ∃ d, joinDef (some a, da) (some b, db) = some (.ok (some d, updDefaults da db)) ∧
      OnNodup on d := by
  obtain ⟨d0, hm, hn0⟩ := mul_total on hon a b hsh hnd
  have hc0 : ∀ c ∈ on, c ∈ d0.cols := by
    intro c hc
    exact ((mul_sem on hon a b d0 hsh hnd hm).2.2.1 c).2 (.inl ((hsh c).2 hc).1)
  obtain ⟨d1, h1, hn1, hc1⟩ := stage_total on hon d0 b a da hsh.symm hn0 hc0
  obtain ⟨d2, h2, hn2, _⟩ := stage_total on hon d1 a b db hsh hn1 hc1
  refine ⟨d2, ?_, hn2⟩
  unfold joinDef
  dsimp only
  rw [hm]
  dsimp only
  rw [h1]
  dsimp only
  rw [h2]

/-! ### the two reductions return -/

theorem fold_mul_total (on : List String) (hon : on ≠ []) (defaults : List (String × Cell)) :
    ∀ (ts : List (String × Table)) (acc : Table) (S : List Src),
      AccOK on acc S → OnNodup on acc → (∀ kv ∈ ts, KeyedSrc on kv.2 kv.1) →
      (ts.map (·.1)).Nodup → (∀ kv ∈ ts, ∀ s ∈ S, s.name ≠ kv.1) →
      (∀ k, acc.R.hasK on k ↔ ∀ s ∈ S, s.t.hasK on k) →
      ∃ r, foldOR Table.mul acc (ts.map (·.2)) = some (.ok r) ∧ OnNodup on r := by
  intro ts
  induction ts with
  | nil => intro acc S _ hn _ _ _ _; exact ⟨acc, rfl, hn⟩
  | cons kv ts ih =>
    intro acc S ha hn hks hnd hne hK
    have hnd' : kv.1 ∉ ts.map (·.1) ∧ (ts.map (·.1)).Nodup := List.nodup_cons.1 hnd
    have hne0 : ∀ s ∈ S, s.name ≠ kv.1 := fun s hs => hne kv (by simp) s hs
    obtain ⟨d, hm, hnd0⟩ := mul_total on hon acc kv.2 (shares_acc ha (hks kv (by simp)) hne0) hn
    obtain ⟨ha', hK'⟩ := step_mul hon defaults ha (hks kv (by simp)) hne0 hK hm
    obtain ⟨r, hr, hnr⟩ := ih d (S ++ [mkSrc defaults (kv.1, kv.2)]) ha' hnd0
      (fun kv' h' => hks kv' (by simp [h'])) hnd'.2
      (by
        intro kv' h' s hs
        rcases List.mem_append.1 hs with h1 | h1
        · exact hne kv' (by simp [h']) s h1
        · rw [List.mem_singleton.1 h1]
          intro he
          exact hnd'.1 (List.mem_map.2 ⟨kv', h', he.symm⟩))
      hK'
    refine ⟨r, ?_, hnr⟩
    simp only [List.map_cons, foldOR, hm]
    exact hr

theorem fold_def_total (on : List String) (hon : on ≠ []) (defaults : List (String × Cell)) :
    ∀ (ts : List (String × Table)) (acc : Table) (da : List (String × Cell)) (S : List Src),
      AccOK on acc S → DefInv on acc S da → OnNodup on acc → (∀ kv ∈ ts, KeyedSrc on kv.2 kv.1) →
      (ts.map (·.1)).Nodup → (∀ kv ∈ ts, ∀ s ∈ S, s.name ≠ kv.1) →
      (∀ kv ∈ ts, (dfltOf defaults kv.1).isSome = true) →
      ∃ r dr, foldOR joinDef (some acc, da)
        (ts.map fun kv => (some kv.2, defaults.filter fun d => d.1 == kv.1)) = some (.ok (some r, dr)) ∧
        OnNodup on r := by
  intro ts
  induction ts with
  | nil => intro acc da S _ _ hn _ _ _ _; exact ⟨acc, da, rfl, hn⟩
  | cons kv ts ih =>
    intro acc da S ha hd hn hks hnd hne hdef
    have hnd' : kv.1 ∉ ts.map (·.1) ∧ (ts.map (·.1)).Nodup := List.nodup_cons.1 hnd
    have hne0 : ∀ s ∈ S, s.name ≠ kv.1 := fun s hs => hne kv (by simp) s hs
    obtain ⟨v, hv⟩ := Option.isSome_iff_exists.1 (hdef kv (by simp))
    obtain ⟨d, hm, hnd0⟩ := joinDef_total on hon acc kv.2 da (defaults.filter fun d => d.1 == kv.1)
      (shares_acc ha (hks kv (by simp)) hne0) hn
    obtain ⟨d', hy, ha', hd'⟩ := step_def hon ha hd (hks kv (by simp)) hne0 hv hm
    have hdd : d' = d := by
      simp only [Prod.mk.injEq, Option.some.injEq] at hy
      exact hy.1.symm
    subst hdd
    obtain ⟨r, dr, hr, hnr⟩ := ih d' _ (S ++ [mkSrc defaults (kv.1, kv.2)]) ha' hd' hnd0
      (fun kv' h' => hks kv' (by simp [h'])) hnd'.2
      (by
        intro kv' h' s hs
        rcases List.mem_append.1 hs with h1 | h1
        · exact hne kv' (by simp [h']) s h1
        · rw [List.mem_singleton.1 h1]
          intro he
          exact hnd'.1 (List.mem_map.2 ⟨kv', h', he.symm⟩))
      (fun kv' h' => hdef kv' (by simp [h']))
    refine ⟨r, dr, ?_, hnr⟩
    simp only [List.map_cons, foldOR, hm]
    exact hr

/-- **`joinNW` returns a table** -/
theorem joinNW_total (on : List String) (hon : on ≠ []) (N W : List (String × Table))
    (defaults : List (String × Cell)) (hne : N ++ W ≠ [])
    (hkN : ∀ kv ∈ N, KeyedSrc on kv.2 kv.1) (hkW : ∀ kv ∈ W, KeyedSrc on kv.2 kv.1)
    (hnN : (N.map (·.1)).Nodup) (hnW : (W.map (·.1)).Nodup)
    (hdisj : ∀ a ∈ N, ∀ b ∈ W, a.1 ≠ b.1)
    (hdef : ∀ kv ∈ W, (dfltOf defaults kv.1).isSome = true) :
    ∃ d, joinNW N W defaults = some (.ok (some d)) := by
  -- the two reductions
  have prodT : ∀ (n : String × Table) (ns : List (String × Table)), N = n :: ns →
      ∃ t1, foldOR Table.mul n.2 (ns.map (·.2)) = some (.ok t1) ∧ OnNodup on t1 := by
    intro n ns hN
    subst hN
    have hnd' : n.1 ∉ ns.map (·.1) ∧ (ns.map (·.1)).Nodup := List.nodup_cons.1 hnN
    exact fold_mul_total on hon defaults ns n.2 [mkSrc defaults (n.1, n.2)]
      (AccOK.base defaults (hkN n (by simp))) (hkN n (by simp)).on_nodup
      (fun kv hkv => hkN kv (by simp [hkv])) hnd'.2
      (by
        intro kv hkv s hs he
        rw [List.mem_singleton.1 hs] at he
        exact hnd'.1 (List.mem_map.2 ⟨kv, hkv, he.symm⟩))
      (by intro k; simp [mkSrc])
  have outerT : ∀ (w : String × Table) (ws : List (String × Table)), W = w :: ws →
      ∃ r dr, foldOR joinDef (some w.2, defaults.filter fun d => d.1 == w.1)
        (ws.map fun kv => (some kv.2, defaults.filter fun d => d.1 == kv.1)) = some (.ok (some r, dr)) ∧
        OnNodup on r := by
    intro w ws hW
    subst hW
    have hnd' : w.1 ∉ ws.map (·.1) ∧ (ws.map (·.1)).Nodup := List.nodup_cons.1 hnW
    obtain ⟨v, hv⟩ := Option.isSome_iff_exists.1 (hdef w (by simp))
    exact fold_def_total on hon defaults ws w.2 _ [mkSrc defaults (w.1, w.2)]
      (AccOK.base defaults (hkW w (by simp))) (DefInv.base (hkW w (by simp)) hv) (hkW w (by simp)).on_nodup
      (fun kv hkv => hkW kv (by simp [hkv])) hnd'.2
      (by
        intro kv hkv s hs he
        rw [List.mem_singleton.1 hs] at he
        exact hnd'.1 (List.mem_map.2 ⟨kv, hkv, he.symm⟩))
      (fun kv hkv => hdef kv (by simp [hkv]))
  unfold joinNW
  dsimp only
  cases N with
  | nil =>
    cases W with
    | nil => exact absurd rfl hne
    | cons w ws =>
      obtain ⟨r, dr, hr, _⟩ := outerT w ws rfl
      refine ⟨r, ?_⟩
      simp only [List.map_nil, List.map_cons, hr, joinDef]
  | cons n ns =>
    obtain ⟨t1, h1, hn1⟩ := prodT n ns rfl
    cases W with
    | nil =>
      refine ⟨t1, ?_⟩
      simp only [List.map_nil, List.map_cons, h1, joinDef]
    | cons w ws =>
      obtain ⟨r, dr, hr, _⟩ := outerT w ws rfl
      obtain ⟨a1, _⟩ := prod_sem on hon defaults n ns t1 hkN hnN h1
      obtain ⟨r', dr', hx, a2, _⟩ := outer_sem on hon defaults w ws _ hkW hnW hdef hr
      have hrr : r' = r := by
        simp only [Prod.mk.injEq, Option.some.injEq] at hx
        exact hx.1.symm
      subst hrr
      have hsh : Shares on t1 r' := by
        intro c
        rw [accOK_cols_iff a1 c, accOK_cols_iff a2 c]
        constructor
        · rintro ⟨h1 | ⟨kv, hkv, he⟩, h2 | ⟨kv', hkv', he'⟩⟩
          · exact h1
          · exact h1
          · exact h2
          · exact absurd (he.trans he'.symm) (hdisj kv hkv kv' hkv')
        · intro hc; exact ⟨.inl hc, .inl hc⟩
      obtain ⟨d, hd, _⟩ := joinDef_total on hon t1 r' [] dr hsh hn1
      refine ⟨d, ?_⟩
      simp only [List.map_cons, h1, hr, hd]

/-- **`joinTables` returns a table** -/
theorem joinTables_total (on : List String) (hon : on ≠ []) (tables : List (String × Table))
    (defaults : List (String × Cell)) (hne : tables ≠ [])
    (hks : ∀ kv ∈ tables, KeyedSrc on kv.2 kv.1) (hnd : (tables.map (·.1)).Nodup) :
    ∃ d, joinTables tables defaults = some (.ok (some d)) := by
  rw [joinTables_eq]
  have memN : ∀ kv, kv ∈ (tables.filter fun kv => !(defaults.map (·.1)).contains kv.1) →
      kv ∈ tables ∧ (defaults.map (·.1)).contains kv.1 = false := by
    intro kv h
    have := List.mem_filter.1 h
    exact ⟨this.1, by simpa using this.2⟩
  have memW : ∀ kv, kv ∈ (tables.filter fun kv => (defaults.map (·.1)).contains kv.1) →
      kv ∈ tables ∧ (defaults.map (·.1)).contains kv.1 = true := by
    intro kv h
    exact List.mem_filter.1 h
  apply joinNW_total on hon
  · obtain ⟨kv, hkv⟩ := List.exists_mem_of_ne_nil _ hne
    apply List.ne_nil_of_mem (a := kv)
    rw [List.mem_append, List.mem_filter, List.mem_filter]
    cases (defaults.map (·.1)).contains kv.1 <;> simp [hkv]
  · exact fun kv h => hks kv (memN kv h).1
  · exact fun kv h => hks kv (memW kv h).1
  · exact hnd.sublist (List.filter_sublist.map _)
  · exact hnd.sublist (List.filter_sublist.map _)
  · intro a ha b hb he
    have h1 := (memN a ha).2
    have h2 := (memW b hb).2
    rw [he, h2] at h1
    cases h1
  · intro kv h
    exact (isDef_iff defaults kv.1).1 (memW kv h).2

/-! ### `_item`, the final sort -/

theorem item_cols (d t : Table) (key : String) (on : List String) (h : item d key on = .ok t) :
    t.cols = linter d.cols on ++ [key] := by
  simp only [item] at h
  split at h
  · exact select_cols _ _ _ h
  · split at h
    · exact select_cols _ _ _ h
    · split at h
      · split at h
        · exact select_cols _ _ _ h
        · cases h
      · cases h

/-- `_item` succeeds when the value column can be chosen: a column named like the parameter, or a
column `data` that is not a key column, or exactly one non-key column -/
theorem item_total (d : Table) (key : String) (on : List String) (hon : ∀ c ∈ on, c ∈ d.cols)
    (h : key ∈ d.cols ∨ ("data" ∈ d.cols ∧ "data" ∉ on) ∨ ∃ other, lminus d.cols on = [other]) :
    ∃ t, item d key on = .ok t := by
  have hmem : ∀ c, c ∈ linter d.cols on ↔ c ∈ on := by
    intro c; rw [mem_linter]; exact ⟨fun h => h.2, fun h => ⟨hon c h, h⟩⟩
  have hlm : lminus d.cols (linter d.cols on) = lminus d.cols on := by
    simp only [lminus]
    apply List.filter_congr
    intro c _
    by_cases hc : c ∈ on
    · simp [hc, (hmem c).2 hc]
    · have : c ∉ linter d.cols on := fun h' => hc ((hmem c).1 h')
      simp [hc, this]
  have hlen' : ∀ l : List String, l.length = (linter l on).length + (lminus l on).length := by
    intro l
    induction l with
    | nil => rfl
    | cons c cs ih =>
      simp only [linter, lminus, List.filter_cons] at ih ⊢
      by_cases hc : on.contains c = true
      · simp only [hc, if_true, Bool.not_true, Bool.false_eq_true, if_false, List.length_cons]
        omega
      · have hc' : on.contains c = false := by simpa using hc
        simp only [hc', Bool.false_eq_true, if_false, Bool.not_false, if_true, List.length_cons]
        omega
  have hlen := hlen' d.cols
  -- selections of present columns succeed
  have selOK : ∀ d' : Table, (∀ c ∈ linter d.cols on ++ [key], c ∈ d'.cols) →
      ∃ t, d'.select (linter d.cols on ++ [key]) = .ok t := fun d' hc => ⟨_, select_ok d' _ hc⟩
  have renOK : ∀ old, old ∈ d.cols → old ∉ on → key ∉ d.cols →
      ∀ c ∈ linter d.cols on ++ [key], c ∈ (d.rename old key).cols := by
    intro old ho hoo hk c hc
    rw [rename_cols, List.mem_map]
    rcases List.mem_append.1 hc with h1 | h1
    · have hco : c ∈ on := (hmem c).1 h1
      refine ⟨c, hon c hco, ?_⟩
      have : c ≠ old := fun he => hoo (he ▸ hco)
      simp [this]
    · rw [List.mem_singleton.1 h1]
      exact ⟨old, ho, by simp⟩
  simp only [item]
  by_cases hk : key ∈ d.cols
  · have : d.cols.contains key = true := by simpa using hk
    simp only [this, if_true]
    apply selOK
    intro c hc
    rcases List.mem_append.1 hc with h1 | h1
    · exact (mem_linter.1 h1).1
    · rw [List.mem_singleton.1 h1]; exact hk
  · have hk' : d.cols.contains key = false := by simpa using hk
    simp only [hk', Bool.false_eq_true, if_false]
    by_cases hdat : "data" ∈ d.cols ∧ "data" ∉ on
    · have : (d.cols.contains "data" && !(linter d.cols on).contains "data") = true := by
        have h2 : "data" ∉ linter d.cols on := fun h' => hdat.2 ((hmem _).1 h')
        simp [hdat.1, h2]
      simp only [this, if_true]
      exact selOK _ (renOK "data" hdat.1 hdat.2 hk)
    · have : (d.cols.contains "data" && !(linter d.cols on).contains "data") = false := by
        rw [Bool.and_eq_false_iff]
        by_cases h1 : "data" ∈ d.cols
        · right
          have : "data" ∈ on := Classical.byContradiction fun h2 => hdat ⟨h1, h2⟩
          simp [(hmem _).2 this]
        · left; simpa using h1
      simp only [this, Bool.false_eq_true, if_false]
      rcases h with h | h | ⟨other, ho⟩
      · exact absurd h hk
      · exact absurd h hdat
      · have hl : d.cols.length = (linter d.cols on).length + 1 := by rw [hlen, ho]; rfl
        simp only [hl, if_true, hlm, ho]
        have hom : other ∈ lminus d.cols on := by rw [ho]; simp
        exact selOK _ (renOK other (mem_lminus.1 hom).1 (mem_lminus.1 hom).2 hk)

theorem mapM_item_total (on : List String) : ∀ (inputs : List (String × PInput)),
    (∀ a ∈ tableInputs inputs, ∃ t, item a.2 a.1 on = .ok t) →
    ∃ seq, inputs.mapM (fun kv => match kv.2 with
      | .table d => (item d kv.1 on).map fun d' => (kv.1, PInput.table d')
      | .scalar c => (Except.ok (kv.1, PInput.scalar c) : Res (String × PInput))) = .ok seq := by
  intro inputs
  induction inputs with
  | nil => intro _; exact ⟨[], rfl⟩
  | cons x xs ih =>
    intro h
    obtain ⟨ys, hys⟩ := ih (fun a ha => h a (by
      obtain ⟨k, v⟩ := x
      cases v <;> simp [tableInputs] at ha ⊢ <;> first | exact ha | exact .inr ha))
    obtain ⟨k, v⟩ := x
    cases v with
    | scalar c =>
      exact ⟨(k, .scalar c) :: ys, by
        simp only [List.mapM_cons, bind, Except.bind, hys, pure, Except.pure]⟩
    | table d =>
      obtain ⟨t, ht⟩ := h (k, d) (by simp [tableInputs])
      have ht' : item d k on = .ok t := ht
      refine ⟨(k, .table t) :: ys, ?_⟩
      simp only [List.mapM_cons, bind, Except.bind, hys, ht']
      rfl

theorem finish_total (on : List String) (hon : on ≠ []) (d : Table) (scalars : List (String × Cell))
    (hd : d.WF) (hc : ∀ c ∈ on, c ∈ d.cols) : ∃ ds, (d.setConsts scalars).sortOn on = .ok ds := by
  obtain ⟨_, _, ec, _⟩ := setConsts_sem scalars d hd
  have hsel := select_ok (d.setConsts scalars) on (fun k hk => (ec k).2 (.inl (hc k hk)))
  have hemp : on.isEmpty = false := by cases on <;> simp_all
  simp only [Table.sortOn]
  split
  · exact ⟨_, rfl⟩
  · simp only [hemp, Bool.false_eq_true, if_false, hsel, bind, Except.bind, pure, Except.pure]
    exact ⟨_, rfl⟩

end Pyg
