/-
  The Gregorian calendar repeats every 400 years = 146097 days.  With that, the round trip proved on the swept
  cycle 1900-01-01 .. 2299-12-31 extends to EVERY date `datetime` can represent (years 1 .. 9999) and beyond.
-/
import PygProofs.Lemmas.GregLemmas

namespace Pyg.Greg

theorem isLeap_add_400 (y : Nat) : isLeap (y + 400) = isLeap y := by
  unfold isLeap
  have h4 : (y + 400) % 4 = y % 4 := by omega
  have h100 : (y + 400) % 100 = y % 100 := by omega
  have h400 : (y + 400) % 400 = y % 400 := by omega
  rw [h4, h100, h400]

theorem leapDay_add_400 (y : Nat) : leapDay (y + 400) = leapDay y := by unfold leapDay; rw [isLeap_add_400]

theorem dim_add_400 (y m : Nat) : dim (y + 400) m = dim y m := by
  unfold dim; split <;> simp [leapDay_add_400]

theorem dbm_add_400 (y m : Nat) : dbm (y + 400) m = dbm y m := by unfold dbm; rw [leapDay_add_400]

theorem dby_add_400 (y : Nat) (h : 1 ≤ y) : dby (y + 400) = dby y + 146097 := by
  obtain ⟨k, rfl⟩ : ∃ k, y = k + 1 := ⟨y - 1, by omega⟩
  rw [dby_unf, dby_unf]
  have e : k + 1 + 400 - 1 = k + 400 := by omega
  rw [e, Nat.add_sub_cancel]
  have a : (k + 400) / 4 = k / 4 + 100 := by omega
  have b : (k + 400) / 100 = k / 100 + 4 := by omega
  have c : (k + 400) / 400 = k / 400 + 1 := by omega
  have d : k / 100 ≤ k / 4 := by omega
  rw [a, b, c]
  generalize k / 4 = q4 at *
  generalize k / 100 = q100 at *
  generalize k / 400 = q400 at *
  omega

theorem ord_add_400 (y m d : Nat) (h : 1 ≤ y) : ord (y + 400) m d = ord y m d + 146097 := by
  unfold ord; rw [dby_add_400 y h, dbm_add_400]; omega

theorem validU_up (y m d : Nat) (v : ValidU y m d) : ValidU (y + 400) m d := by
  unfold ValidU at *; rw [dim_add_400]; omega

theorem validU_down (y m d : Nat) (hy : 1 ≤ y) (v : ValidU (y + 400) m d) : ValidU y m d := by
  unfold ValidU at *; rw [dim_add_400] at v; omega

/-- the body of `fromOrd` after the first `divmod(n, 146097)` -/
def fromOrdAux (n400 n : Nat) : YMD :=
  let year := n400 * 400 + 1
  let n100 := n / 36524; let n := n % 36524
  let n4 := n / 1461; let n := n % 1461
  let n1 := n / 365; let n := n % 365
  let year := year + n100 * 100 + n4 * 4 + n1
  if n1 == 4 || n100 == 4 then ⟨year - 1, 12, 31⟩
  else
    let leapyear := n1 == 3 && (n4 != 24 || n100 == 3)
    let month := (n + 50) / 32
    let preceding := dbmTable month + (if month > 2 && leapyear then 1 else 0)
    if preceding > n then
      let month := month - 1
      let preceding := preceding - (dbmTable (month + 1) - dbmTable month + (if month == 2 && leapyear then 1 else 0))
      ⟨year, month, n - preceding + 1⟩
    else ⟨year, month, n - preceding + 1⟩

theorem fromOrd_eq_aux (n : Nat) : fromOrd n = fromOrdAux ((n - 1) / 146097) ((n - 1) % 146097) := rfl

/-- the same date 400 years later -/
def shift400 (p : YMD) : YMD := ⟨p.y + 400, p.m, p.d⟩

theorem fromOrdAux_succ (a r : Nat) : fromOrdAux (a + 1) r = shift400 (fromOrdAux a r) := by
  unfold fromOrdAux shift400
  simp only []
  split
  · rename_i h
    simp only [Bool.or_eq_true, beq_iff_eq] at h
    simp only [YMD.mk.injEq, and_true]
    rcases h with h | h <;> omega
  · repeat' split
    all_goals (simp only [YMD.mk.injEq, and_true]; omega)

/-- shifting the ordinal by one cycle shifts the year by 400 -/
theorem fromOrd_add_cycle (n : Nat) (h : 1 ≤ n) :
    fromOrd (n + 146097) = shift400 (fromOrd n) := by
  rw [fromOrd_eq_aux, fromOrd_eq_aux]
  have e : n + 146097 - 1 = (n - 1) + 146097 := by omega
  rw [e, Nat.add_div_right _ (by omega), Nat.add_mod_right]
  exact fromOrdAux_succ _ _

theorem fromOrd_year_pos (n : Nat) : 1 ≤ (fromOrd n).y := by
  rw [fromOrd_eq_aux]; unfold fromOrdAux; simp only []
  split
  · rename_i h
    simp only [Bool.or_eq_true, beq_iff_eq] at h
    simp only []
    rcases h with h | h <;> omega
  · repeat' split
    all_goals (simp only []; omega)

/-- the statement the sweep establishes for one ordinal, without the upper bound on the year -/
def Good (n : Nat) : Prop :=
  ValidU (fromOrd n).y (fromOrd n).m (fromOrd n).d ∧ ord (fromOrd n).y (fromOrd n).m (fromOrd n).d = n

theorem good_cycle (n : Nat) (h1 : ordMin ≤ n) (h2 : n < ordMax) : Good n :=
  ⟨(ord_fromOrd n h1 h2).1.toU, (ord_fromOrd n h1 h2).2⟩

theorem good_up (n : Nat) (h : 1 ≤ n) (g : Good n) : Good (n + 146097) := by
  unfold Good at *
  rw [fromOrd_add_cycle n h]
  simp only [shift400]
  refine ⟨validU_up _ _ _ g.1, ?_⟩
  rw [ord_add_400 _ _ _ g.1.1, g.2]

theorem good_down (n : Nat) (h : 1 ≤ n) (g : Good (n + 146097)) : Good n := by
  unfold Good at *
  rw [fromOrd_add_cycle n h] at g
  simp only [shift400] at g
  have hy := fromOrd_year_pos n
  have hv : ValidU (fromOrd n).y (fromOrd n).m (fromOrd n).d := validU_down _ _ _ hy g.1
  refine ⟨hv, ?_⟩
  have := g.2
  rw [ord_add_400 _ _ _ hy] at this
  omega

theorem good_up_k (k n : Nat) (h : 1 ≤ n) (g : Good n) : Good (n + k * 146097) := by
  induction k with
  | zero => simpa using g
  | succ k ih =>
    have := good_up (n + k * 146097) (by omega) ih
    have e : n + (k + 1) * 146097 = n + k * 146097 + 146097 := by omega
    rw [e]; exact this

theorem good_down_k (k n : Nat) (h : 1 ≤ n) (g : Good (n + k * 146097)) : Good n := by
  induction k with
  | zero => simpa using g
  | succ k ih =>
    apply ih
    have e : n + (k + 1) * 146097 = n + k * 146097 + 146097 := by omega
    rw [e] at g
    exact good_down _ (by omega) g

/-- **every** ordinal `n ≥ 1`: `fromOrd n` is a calendar date whose ordinal is `n` -/
theorem good_all (n : Nat) (h : 1 ≤ n) : Good n := by
  by_cases hlt : n < ordMin
  · apply good_down_k ((ordMax - 1 - n) / 146097) n h
    apply good_cycle <;> simp only [ordMin, ordMax] at * <;> omega
  · have hk : n = (n - (n - ordMin) / 146097 * 146097) + (n - ordMin) / 146097 * 146097 := by
      unfold ordMin at *; omega
    rw [hk]
    apply good_up_k
    · unfold ordMin at *; omega
    · apply good_cycle <;> simp only [ordMin, ordMax] at * <;> omega

/-- date → ordinal → date for every date `datetime` can represent (and any later year):
`datetime.fromordinal(datetime(y,m,d).toordinal())` has the fields `(y, m, d)` -/
theorem fromOrd_ord_all (y m d : Nat) (v : ValidU y m d) : fromOrd (ord y m d) = ⟨y, m, d⟩ := by
  have hb := ord_bounds y m d v
  have g := good_all (ord y m d) (by omega)
  have e := ord_inj _ _ _ _ _ _ g.1 v g.2
  cases hp : fromOrd (ord y m d) with
  | mk a b c => rw [hp] at e; simp only at e; rw [e.1, e.2.1, e.2.2]

/-- ordinal → date → ordinal for every ordinal of the `datetime` range, with a representable year -/
theorem ord_fromOrd_all (n : Nat) (h1 : 1 ≤ n) (h2 : n ≤ 3652059) :
    Valid (fromOrd n).y (fromOrd n).m (fromOrd n).d ∧ ord (fromOrd n).y (fromOrd n).m (fromOrd n).d = n := by
  have g := good_all n h1
  refine ⟨?_, g.2⟩
  have hv := g.1
  have g2 := g.2
  have hb := ord_bounds _ _ _ hv
  have hy : (fromOrd n).y ≤ 9999 := by
    by_cases hc : (fromOrd n).y ≤ 9999
    · exact hc
    · have := dby_mono 10000 (fromOrd n).y (by omega) (by omega)
      rw [dby_10000] at this
      omega
  unfold ValidU at hv; unfold Valid; omega

end Pyg.Greg
