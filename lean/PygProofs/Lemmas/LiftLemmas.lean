import PygModel.Lift
import PygProofs.Lemmas.ResDec

namespace Pyg

/-! ### the auxiliary list functions are maps -/

theorem itemByIList_eq_map (i n : Nat) : ∀ xs, itemByIList i n xs = xs.map (itemByI i n)
  | [] => by simp [itemByIList]
  | x :: xs => by simp [itemByIList, itemByIList_eq_map i n xs]

theorem itemByKeyKVs_eq_map (key : String) (keys : List String) :
    ∀ kvs, itemByKeyKVs key keys kvs = mapKW (itemByKey key keys) kvs
  | [] => by simp [itemByKeyKVs, mapKW]
  | (k, v) :: kvs => by
      have := itemByKeyKVs_eq_map key keys kvs
      simp [itemByKeyKVs, mapKW] at this ⊢
      exact this

/-! ### keyword dictionaries -/

theorem mapKW_mapKW (g h : Val → Val) (kw : KW) : mapKW g (mapKW h kw) = mapKW (g ∘ h) kw := by
  simp [mapKW, List.map_map, Function.comp_def]

theorem mapKW_id (kw : KW) : mapKW (fun c => c) kw = kw := by
  simp [mapKW]

theorem mapKW_append (g : Val → Val) (a b : KW) : mapKW g (a ++ b) = mapKW g a ++ mapKW g b := by
  simp [mapKW]

theorem keysOf_mapKW (g : Val → Val) (kw : KW) : keysOf (mapKW g kw) = keysOf kw := by
  simp [keysOf, mapKW, List.map_map, Function.comp_def]

theorem dropAxis_mapKW (g : Val → Val) (kw : KW) : dropAxis (mapKW g kw) = mapKW g (dropAxis kw) := by
  simp [dropAxis, mapKW, List.filter_map, Function.comp_def]

theorem dropAxis_idem (kw : KW) : dropAxis (dropAxis kw) = dropAxis kw := by
  simp [dropAxis, List.filter_filter]

theorem dropAxis_append (a b : KW) : dropAxis (a ++ b) = dropAxis a ++ dropAxis b := by
  simp [dropAxis]

theorem keysOf_dropAxis_sub (kw : KW) (k : String) (h : k ∉ keysOf kw) : k ∉ keysOf (dropAxis kw) := by
  intro hk
  apply h
  simp only [keysOf, dropAxis, List.mem_map, List.mem_filter] at hk ⊢
  obtain ⟨p, ⟨hp, _⟩, rfl⟩ := hk
  exact ⟨p, hp, rfl⟩

/-- `_wrapped` pops `axis` first: it makes no difference whether the caller already did -/
theorem wrapped_dropAxis (f : LeafFn) (v : Val) (args : List Val) (kw : KW) :
    wrapped f v args (dropAxis kw) = wrapped f v args kw := by
  cases v <;> simp [wrapped, dropAxis_idem]

/-! ### the element loops of `_wrapped` -/

theorem wrappedSeq_get {f : LeafFn} {n : Nat} : ∀ (xs : List Val) (i : Nat) (args : List Val) (kw : KW)
    (ys : List Val), wrappedSeq f n i xs args kw = .ok ys →
    ys.length = xs.length ∧ ∀ j x, xs[j]? = some x → ∃ y, ys[j]? = some y ∧
      wrapped f x (args.map (itemByI (i + j) n)) (mapKW (itemByI (i + j) n) kw) = .ok y
  | [], i, args, kw, ys, h => by
      simp [wrappedSeq] at h
      subst h
      simp
  | x :: xs, i, args, kw, ys, h => by
      rw [wrappedSeq] at h
      split at h
      · cases h
      · rename_i y hy
        split at h
        · cases h
        · rename_i ys' hys
          cases h
          have ih := wrappedSeq_get xs (i + 1) args kw ys' hys
          refine ⟨by simp [ih.1], ?_⟩
          intro j x' hj
          cases j with
          | zero =>
            simp at hj; subst hj
            exact ⟨y, by simp, by simpa using hy⟩
          | succ j =>
            simp at hj
            obtain ⟨y', h1, h2⟩ := ih.2 j x' hj
            refine ⟨y', by simpa using h1, ?_⟩
            have e : i + (j + 1) = i + 1 + j := by omega
            rw [e]; exact h2

theorem wrappedSeq_error {f : LeafFn} {n : Nat} : ∀ (xs : List Val) (i : Nat) (args : List Val) (kw : KW)
    (e : Err), wrappedSeq f n i xs args kw = .error e →
    ∃ j x, xs[j]? = some x ∧
      wrapped f x (args.map (itemByI (i + j) n)) (mapKW (itemByI (i + j) n) kw) = .error e
  | [], i, args, kw, e, h => by simp [wrappedSeq] at h
  | x :: xs, i, args, kw, e, h => by
      rw [wrappedSeq] at h
      split at h
      · rename_i e' he
        cases h
        exact ⟨0, x, by simp, by simpa using he⟩
      · split at h
        · rename_i e' he
          cases h
          obtain ⟨j, x', h1, h2⟩ := wrappedSeq_error xs (i + 1) args kw e he
          refine ⟨j + 1, x', by simpa using h1, ?_⟩
          have e2 : i + (j + 1) = i + 1 + j := by omega
          rw [e2]; exact h2
        · cases h

theorem wrappedKVs_lookup {f : LeafFn} {keys : List String} : ∀ (kvs : KW) (args : List Val) (kw : KW)
    (r : KW), wrappedKVs f keys kvs args kw = .ok r →
    keysOf r = keysOf kvs ∧ ∀ k v, kvs.lookup k = some v → ∃ y, r.lookup k = some y ∧
      wrapped f v (args.map (itemByKey k keys)) (mapKW (itemByKey k keys) kw) = .ok y
  | [], args, kw, r, h => by
      simp [wrappedKVs] at h
      subst h
      simp [keysOf]
  | (k0, v0) :: kvs, args, kw, r, h => by
      rw [wrappedKVs] at h
      split at h
      · cases h
      · rename_i y hy
        split at h
        · cases h
        · rename_i r' hr
          cases h
          have ih := wrappedKVs_lookup kvs args kw r' hr
          refine ⟨by simp [keysOf] at ih ⊢; exact ih.1, ?_⟩
          intro k v hk
          by_cases hkk : k = k0
          · subst hkk
            simp [List.lookup] at hk
            subst hk
            exact ⟨y, by simp [List.lookup], hy⟩
          · have hne : (k == k0) = false := by simpa using hkk
            simp [List.lookup, hne] at hk ⊢
            exact ih.2 k v hk

theorem wrappedKVs_error {f : LeafFn} {keys : List String} : ∀ (kvs : KW) (args : List Val) (kw : KW)
    (e : Err), wrappedKVs f keys kvs args kw = .error e →
    ∃ kv, kv ∈ kvs ∧
      wrapped f kv.2 (args.map (itemByKey kv.1 keys)) (mapKW (itemByKey kv.1 keys) kw) = .error e
  | [], args, kw, e, h => by simp [wrappedKVs] at h
  | (k0, v0) :: kvs, args, kw, e, h => by
      rw [wrappedKVs] at h
      split at h
      · rename_i e' he
        cases h
        exact ⟨(k0, v0), by simp, he⟩
      · split at h
        · rename_i e' he
          cases h
          obtain ⟨kv, h1, h2⟩ := wrappedKVs_error kvs args kw e he
          exact ⟨kv, by simp [h1], h2⟩
        · cases h


/-! ### induction over values -/

theorem sizeOf_kv_lt {kv : String × Val} {kvs : KW} (h : kv ∈ kvs) : sizeOf kv.2 < sizeOf kvs := by
  have := List.sizeOf_lt_of_mem h
  cases kv; simp at *; omega

theorem lookup_of_mem_nodup : ∀ (kvs : KW) (kv : String × Val), kv ∈ kvs → (keysOf kvs).Nodup →
    kvs.lookup kv.1 = some kv.2
  | [], kv, h, _ => by simp at h
  | (k0, v0) :: kvs, kv, h, hn => by
      simp only [keysOf, List.map_cons, List.nodup_cons] at hn
      rcases List.mem_cons.1 h with rfl | h'
      · simp [List.lookup]
      · have hne : kv.1 ≠ k0 := by
          intro e; apply hn.1; rw [← e]; exact List.mem_map.2 ⟨kv, h', rfl⟩
        have : (kv.1 == k0) = false := by simpa using hne
        simp only [List.lookup, this]
        exact lookup_of_mem_nodup kvs kv h' hn.2

theorem KeysNodup_child {v v' : Val} {s : Step} (h : v.KeysNodup) (hc : v.child s = some v') :
    v'.KeysNodup := by
  intro p kvs hp
  apply h (s :: p) kvs
  simp [Val.at, hc, hp]

/-- If the lifted call raises, some leaf call raised that error. -/
theorem lift_error_aux (f : LeafFn) : ∀ n, ∀ (v : Val), sizeOf v ≤ n → v.KeysNodup →
    ∀ (args : List Val) (kw : KW) (e : Err), wrapped f v args kw = .error e →
    ∃ p c, v.at p = some (.cell c) ∧
      f (.cell c) (args.map (select v p)) (mapKW (select v p) (dropAxis kw)) = .error e := by
  intro n
  induction n with
  | zero => intro v h; cases v <;> simp at h
  | succ n ih =>
    intro v hs hk args kw e h
    have hsel : ∀ (s : Step) (p : Path) (c : Val) (g : Val → Val), v.child s = some c →
        (∀ x, g x = selStep v s x) → (select v (s :: p)) = (select c p) ∘ g := by
      intro s p c g hc hg; funext x; simp [select, hc, hg]
    cases v with
    | cell a =>
      refine ⟨[], a, by simp [Val.at], ?_⟩
      have : (select (Val.cell a) []) = fun c => c := by funext c; simp [select]
      rw [this, mapKW_id, List.map_id']
      simpa [wrapped] using h
    | list xs =>
      rw [wrapped] at h
      split at h
      · rename_i e' he
        cases h
        obtain ⟨j, x, hj, hx⟩ := wrappedSeq_error xs 0 args (dropAxis kw) e he
        have hc : (Val.list xs).child (.idx j) = some x := by simpa [Val.child] using hj
        have hlt := List.sizeOf_lt_of_mem (List.mem_of_getElem? hj)
        simp at hs
        obtain ⟨p, c, hp, hf⟩ := ih x (by omega) (KeysNodup_child hk hc) _ _ e hx
        refine ⟨.idx j :: p, c, by simp [Val.at, hc, hp], ?_⟩
        rw [hsel (.idx j) p x (itemByI j xs.length) hc (by intro x; simp [selStep])]
        rw [← mapKW_mapKW, ← List.map_map]
        simpa [dropAxis_mapKW, dropAxis_idem] using hf
      · cases h
    | tuple xs =>
      rw [wrapped] at h
      split at h
      · rename_i e' he
        cases h
        obtain ⟨j, x, hj, hx⟩ := wrappedSeq_error xs 0 args (dropAxis kw) e he
        have hc : (Val.tuple xs).child (.idx j) = some x := by simpa [Val.child] using hj
        have hlt := List.sizeOf_lt_of_mem (List.mem_of_getElem? hj)
        simp at hs
        obtain ⟨p, c, hp, hf⟩ := ih x (by omega) (KeysNodup_child hk hc) _ _ e hx
        refine ⟨.idx j :: p, c, by simp [Val.at, hc, hp], ?_⟩
        rw [hsel (.idx j) p x (itemByI j xs.length) hc (by intro x; simp [selStep])]
        rw [← mapKW_mapKW, ← List.map_map]
        simpa [dropAxis_mapKW, dropAxis_idem] using hf
      · cases h
    | dict kvs =>
      rw [wrapped] at h
      split at h
      · rename_i e' he
        cases h
        obtain ⟨kv, hmem, hx⟩ := wrappedKVs_error kvs args (dropAxis kw) e he
        have hnd : (keysOf kvs).Nodup := hk [] kvs (by simp [Val.at])
        have hc : (Val.dict kvs).child (.key kv.1) = some kv.2 := by
          simpa [Val.child] using lookup_of_mem_nodup kvs kv hmem hnd
        have hlt := sizeOf_kv_lt hmem
        simp at hs
        obtain ⟨p, c, hp, hf⟩ := ih kv.2 (by omega) (KeysNodup_child hk hc) _ _ e hx
        refine ⟨.key kv.1 :: p, c, by simp [Val.at, hc, hp], ?_⟩
        rw [hsel (.key kv.1) p kv.2 (itemByKey kv.1 (sortStr (keysOf kvs))) hc (by intro x; simp [selStep])]
        rw [← mapKW_mapKW, ← List.map_map]
        simpa [dropAxis_mapKW, dropAxis_idem] using hf
      · cases h


/-! ### companions without a matching container are passed whole -/

/-- a path of index steps only: it can only run through lists and tuples (what `_item_by_i` descends through) -/
def IdxPath (q : Path) : Prop := ∀ s ∈ q, ∃ i, s = Step.idx i
theorem IdxPath.nil : IdxPath [] := by intro s hs; cases hs
theorem IdxPath.cons (j : Nat) {q : Path} (h : IdxPath q) : IdxPath (.idx j :: q) := by
  intro s hs
  rcases List.mem_cons.1 hs with rfl | hs
  · exact ⟨j, rfl⟩
  · exact h s hs
/-- a path of key steps only: it can only run through dict values (what `_item_by_key` descends through) -/
def KeyPath (q : Path) : Prop := ∀ s ∈ q, ∃ k, s = Step.key k
theorem KeyPath.nil : KeyPath [] := by intro s hs; cases hs
theorem KeyPath.cons (k : String) {q : Path} (h : KeyPath q) : KeyPath (.key k :: q) := by
  intro s hs
  rcases List.mem_cons.1 hs with rfl | hs
  · exact ⟨k, rfl⟩
  · exact h s hs

theorem itemByI_no_match_seq (i n : Nat) : ∀ m, ∀ (c : Val), sizeOf c ≤ m →
    (∀ q cs, IdxPath q → (c.at q = some (.list cs) ∨ c.at q = some (.tuple cs)) → cs.length ≠ n) →
    itemByI i n c = c := by
  intro m
  induction m with
  | zero => intro c h; cases c <;> simp at h
  | succ m ih =>
    intro c hs h
    have helem : ∀ (cs : List Val), (∀ x ∈ cs, sizeOf x ≤ m) →
        (∀ (j : Nat) (x : Val), cs[j]? = some x → ∀ (q : Path) (ds : List Val), IdxPath q →
          (x.at q = some (.list ds) ∨ x.at q = some (.tuple ds)) → ds.length ≠ n) →
        cs.map (itemByI i n) = cs := by
      intro cs hsz hq
      have : ∀ x ∈ cs, itemByI i n x = id x := by
        intro x hx
        obtain ⟨j, hj⟩ := List.getElem?_of_mem hx
        exact ih x (hsz x hx) (hq j x hj)
      rw [List.map_congr_left this, List.map_id]
    cases c with
    | cell a => simp [itemByI]
    | dict kvs => simp [itemByI]
    | list cs =>
      have hlen : cs.length ≠ n := h [] cs IdxPath.nil (Or.inl (by simp [Val.at]))
      simp only [itemByI, hlen, ↓reduceIte, itemByIList_eq_map]
      rw [helem cs]
      · intro x hx
        have := List.sizeOf_lt_of_mem hx
        simp at hs; omega
      · intro j x hj q ds hq hd
        apply h (.idx j :: q) ds (IdxPath.cons j hq)
        simpa [Val.at, Val.child, hj] using hd
    | tuple cs =>
      have hlen : cs.length ≠ n := h [] cs IdxPath.nil (Or.inr (by simp [Val.at]))
      simp only [itemByI, hlen, ↓reduceIte, itemByIList_eq_map]
      rw [helem cs]
      · intro x hx
        have := List.sizeOf_lt_of_mem hx
        simp at hs; omega
      · intro j x hj q ds hq hd
        apply h (.idx j :: q) ds (IdxPath.cons j hq)
        simpa [Val.at, Val.child, hj] using hd


theorem itemByI_no_match (i n : Nat) (m : Nat) (c : Val) (hs : sizeOf c ≤ m)
    (h : ∀ q cs, (c.at q = some (.list cs) ∨ c.at q = some (.tuple cs)) → cs.length ≠ n) :
    itemByI i n c = c :=
  itemByI_no_match_seq i n m c hs (fun q cs _ hq => h q cs hq)

theorem itemByKey_no_match_dict (k : String) (keys : List String) : ∀ m, ∀ (c : Val), sizeOf c ≤ m → c.KeysNodup →
    (∀ q cs, KeyPath q → c.at q = some (.dict cs) → sortStr (keysOf cs) ≠ keys) →
    itemByKey k keys c = c := by
  intro m
  induction m with
  | zero => intro c h; cases c <;> simp at h
  | succ m ih =>
    intro c hs hn h
    cases c with
    | cell a => simp [itemByKey]
    | list cs => simp [itemByKey]
    | tuple cs => simp [itemByKey]
    | dict kvs =>
      have hk : sortStr (keysOf kvs) ≠ keys := h [] kvs KeyPath.nil (by simp [Val.at])
      have hnd : (keysOf kvs).Nodup := hn [] kvs (by simp [Val.at])
      simp only [itemByKey, hk, ↓reduceIte, itemByKeyKVs_eq_map]
      have : ∀ kv ∈ kvs, (kv.1, itemByKey k keys kv.2) = id kv := by
        intro kv hkv
        have hl := lookup_of_mem_nodup kvs kv hkv hnd
        have hc : (Val.dict kvs).child (.key kv.1) = some kv.2 := by simpa [Val.child] using hl
        have := ih kv.2 (by have := sizeOf_kv_lt hkv; simp at hs; omega) (KeysNodup_child hn hc)
          (fun q cs hkq hq => h (.key kv.1 :: q) cs (KeyPath.cons kv.1 hkq) (by simpa [Val.at, Val.child, hl] using hq))
        simp [this]
      simp only [mapKW]
      rw [List.map_congr_left this, List.map_id]

theorem itemByKey_no_match (k : String) (keys : List String) (m : Nat) (c : Val) (hs : sizeOf c ≤ m) (hn : c.KeysNodup)
    (h : ∀ q cs, c.at q = some (.dict cs) → sortStr (keysOf cs) ≠ keys) :
    itemByKey k keys c = c :=
  itemByKey_no_match_dict k keys m c hs hn (fun q cs _ hq => h q cs hq)

/-! ### `sorted(keys)` keeps the keys -/

theorem mem_insertStr (k x : String) : ∀ l, x ∈ insertStr k l ↔ x = k ∨ x ∈ l
  | [] => by simp [insertStr]
  | h :: t => by
      simp only [insertStr]
      split
      · simp
      · simp only [List.mem_cons, mem_insertStr k x t]
        constructor
        · rintro (h | h | h) <;> simp [h]
        · rintro (h | h | h) <;> simp [h]

theorem mem_sortStr (x : String) : ∀ l, x ∈ sortStr l ↔ x ∈ l
  | [] => by simp [sortStr]
  | h :: t => by simp only [sortStr, mem_insertStr, mem_sortStr x t, List.mem_cons]

theorem lookup_isSome_of_mem_keys (k : String) : ∀ (kvs : KW), k ∈ keysOf kvs → ∃ y, kvs.lookup k = some y
  | [], h => by simp [keysOf] at h
  | (j, w) :: kvs, h => by
      simp only [List.lookup_cons]
      by_cases e : k = j
      · subst e; exact ⟨w, by simp⟩
      · have : (k == j) = false := by simpa using e
        simp only [this]
        apply lookup_isSome_of_mem_keys k kvs
        simp only [keysOf, List.map_cons, List.mem_cons] at h
        rcases h with h | h
        · exact absurd h e
        · exact h

theorem mem_keys_of_lookup (k : String) (y : Val) : ∀ (kvs : KW), kvs.lookup k = some y → k ∈ keysOf kvs
  | [], h => by simp at h
  | (j, w) :: kvs, h => by
      simp only [List.lookup_cons] at h
      simp only [keysOf, List.map_cons, List.mem_cons]
      by_cases e : k = j
      · exact Or.inl e
      · have : (k == j) = false := by simpa using e
        rw [this] at h
        exact Or.inr (mem_keys_of_lookup k y kvs h)

/-! ### positional = keyword passing -/

/-- "the parameter of `f` that follows `k` positional companions is called `name`": passing one more
positional companion is the same as passing it under that name -/
def BindsNext (f : LeafFn) (k : Nat) (name : String) : Prop :=
  ∀ (x : Val) (as : List Val) (kw : KW) (c : Val), as.length = k → name ∉ keysOf kw →
    f x (as ++ [c]) kw = f x as (kw ++ [(name, c)])

theorem dropAxis_single (name : String) (c : Val) (h : name ≠ "axis") :
    dropAxis [(name, c)] = [(name, c)] := by
  simp [dropAxis, h]

theorem wrappedSeq_pos_kw {f : LeafFn} {k : Nat} {name : String} {n : Nat} (c : Val) :
    ∀ (xs : List Val), (∀ x ∈ xs, ∀ (args : List Val) (kw : KW) (c : Val), args.length = k →
        name ∉ keysOf kw → wrapped f x (args ++ [c]) kw = wrapped f x args (kw ++ [(name, c)])) →
    ∀ (i : Nat) (args : List Val) (kw : KW), args.length = k → name ∉ keysOf kw →
    wrappedSeq f n i xs (args ++ [c]) kw = wrappedSeq f n i xs args (kw ++ [(name, c)])
  | [], _, i, args, kw, _, _ => by simp [wrappedSeq]
  | x :: xs, hx, i, args, kw, hl, hk => by
      rw [wrappedSeq, wrappedSeq]
      have h1 := hx x (by simp) (args.map (itemByI i n)) (mapKW (itemByI i n) kw) (itemByI i n c)
        (by simpa using hl) (by rw [keysOf_mapKW]; exact hk)
      have h2 := wrappedSeq_pos_kw (n := n) c xs (fun x hx' => hx x (by simp [hx'])) (i + 1) args kw hl hk
      simp only [List.map_append, List.map_cons, List.map_nil, mapKW_append]
      have : mapKW (itemByI i n) [(name, c)] = [(name, itemByI i n c)] := by simp [mapKW]
      rw [this, h1, h2]

theorem wrappedKVs_pos_kw {f : LeafFn} {k : Nat} {name : String} {keys : List String} (c : Val) :
    ∀ (kvs : KW), (∀ kv ∈ kvs, ∀ (args : List Val) (kw : KW) (c : Val), args.length = k →
        name ∉ keysOf kw → wrapped f kv.2 (args ++ [c]) kw = wrapped f kv.2 args (kw ++ [(name, c)])) →
    ∀ (args : List Val) (kw : KW), args.length = k → name ∉ keysOf kw →
    wrappedKVs f keys kvs (args ++ [c]) kw = wrappedKVs f keys kvs args (kw ++ [(name, c)])
  | [], _, args, kw, _, _ => by simp [wrappedKVs]
  | (k0, v0) :: kvs, hx, args, kw, hl, hk => by
      rw [wrappedKVs, wrappedKVs]
      have h1 := hx (k0, v0) (by simp) (args.map (itemByKey k0 keys)) (mapKW (itemByKey k0 keys) kw)
        (itemByKey k0 keys c) (by simpa using hl) (by rw [keysOf_mapKW]; exact hk)
      have h2 := wrappedKVs_pos_kw (keys := keys) c kvs (fun kv hx' => hx kv (by simp [hx'])) args kw hl hk
      simp only [List.map_append, List.map_cons, List.map_nil, mapKW_append]
      have : mapKW (itemByKey k0 keys) [(name, c)] = [(name, itemByKey k0 keys c)] := by simp [mapKW]
      rw [this, h1, h2]

theorem pos_kw_aux (f : LeafFn) (k : Nat) (name : String) (hname : name ≠ "axis")
    (hf : BindsNext f k name) : ∀ n, ∀ (v : Val), sizeOf v ≤ n →
    ∀ (args : List Val) (kw : KW) (c : Val), args.length = k → name ∉ keysOf kw →
    wrapped f v (args ++ [c]) kw = wrapped f v args (kw ++ [(name, c)]) := by
  intro n
  induction n with
  | zero => intro v h; cases v <;> simp at h
  | succ n ih =>
    intro v hs args kw c hl hk
    have hd : dropAxis (kw ++ [(name, c)]) = dropAxis kw ++ [(name, c)] := by
      rw [dropAxis_append, dropAxis_single name c hname]
    have hk' := keysOf_dropAxis_sub kw name hk
    cases v with
    | cell a =>
      simp only [wrapped, hd]
      exact hf _ _ _ _ hl hk'
    | list xs =>
      simp only [wrapped, hd]
      rw [wrappedSeq_pos_kw c xs _ 0 args (dropAxis kw) hl hk']
      intro x hx
      have := List.sizeOf_lt_of_mem hx
      simp at hs
      exact ih x (by omega)
    | tuple xs =>
      simp only [wrapped, hd]
      rw [wrappedSeq_pos_kw c xs _ 0 args (dropAxis kw) hl hk']
      intro x hx
      have := List.sizeOf_lt_of_mem hx
      simp at hs
      exact ih x (by omega)
    | dict kvs =>
      simp only [wrapped, hd]
      rw [wrappedKVs_pos_kw c kvs _ args (dropAxis kw) hl hk']
      intro kv hx
      have := sizeOf_kv_lt hx
      simp at hs
      exact ih kv.2 (by omega)


theorem insertStr_perm (k : String) : ∀ l, (insertStr k l).Perm (k :: l)
  | [] => by simp [insertStr]
  | h :: t => by
      simp only [insertStr]
      split
      · exact List.Perm.refl _
      · exact ((insertStr_perm k t).cons h).trans (List.Perm.swap k h t)

theorem sortStr_perm : ∀ l, (sortStr l).Perm l
  | [] => by simp [sortStr]
  | h :: t => by
      simp only [sortStr]
      exact (insertStr_perm h (sortStr t)).trans ((sortStr_perm t).cons h)

/-- the code's test `sorted(value.keys()) == keys` succeeds only for the same keys (as a multiset; python keys are distinct: the same SET) -/
theorem perm_of_sortStr_eq (a b : List String) (h : sortStr a = sortStr b) : a.Perm b :=
  (sortStr_perm a).symm.trans (h ▸ sortStr_perm b)

theorem insertStr_comm (x y : String) : ∀ l, insertStr x (insertStr y l) = insertStr y (insertStr x l)
  | [] => by
      simp only [insertStr]
      by_cases h1 : x ≤ y <;> by_cases h2 : y ≤ x <;> simp only [insertStr, h1, h2, if_true, if_false]
      · rw [String.le_antisymm h1 h2]
      · rcases String.le_total x y with h | h <;> contradiction
  | h :: t => by
      simp only [insertStr]
      by_cases hx : x ≤ h <;> by_cases hy : y ≤ h <;> simp only [hx, hy, if_true, if_false, insertStr]
      · by_cases h1 : x ≤ y <;> by_cases h2 : y ≤ x <;> simp only [h1, h2, hx, hy, if_true, if_false]
        · rw [String.le_antisymm h1 h2]
        · rcases String.le_total x y with h | h <;> contradiction
      · have h2 : ¬ y ≤ x := fun h2 => hy (String.le_trans h2 hx)
        simp only [h2, hy, if_false]
      · have h1 : ¬ x ≤ y := fun h1 => hx (String.le_trans h1 hy)
        simp only [h1, hx, if_false]
      · rw [insertStr_comm x y t]

theorem sortStr_eq_of_perm {a b : List String} (h : a.Perm b) : sortStr a = sortStr b := by
  induction h with
  | nil => rfl
  | cons x _ ih => simp only [sortStr, ih]
  | swap x y l => simp only [sortStr]; exact insertStr_comm y x (sortStr l)
  | trans _ _ ih1 ih2 => exact ih1.trans ih2


/-! ### the statement-level selection (`pickLevel`) and the class of finding K3 (`SearchedStep`) -/


/-- is `c` a list / tuple of length `n`? -/
def isSeqOfLen (n : Nat) : Val → Bool
  | .list cs => cs.length == n
  | .tuple cs => cs.length == n
  | _ => false

/-- the property statement's test at ONE level: "a container of the same length / the same keys" -/
def levelMatch : Val → Val → Bool
  | .list xs, c => isSeqOfLen xs.length c
  | .tuple xs, c => isSeqOfLen xs.length c
  | .dict kvs, .dict cs => decide ((keysOf cs).Perm (keysOf kvs))
  | _, _ => false

/-- the property statement's reading of one level of descent into child `s` of `v`: a companion that matches the level gives
its member, everything else is passed on whole -/
def pickLevel (v : Val) (s : Step) (c : Val) : Val := if levelMatch v c then (c.child s).getD c else c

/-- … along a path (the statement-level counterpart of `select`, which follows the code) -/
def pickAlong (v : Val) : Path → Val → Val
  | [], c => c
  | s :: p, c => match v.child s with
    | some v' => pickAlong v' p (pickLevel v s c)
    | Option.none => c

/-- `c` holds, reachable through lists and tuples only, a list / tuple of length `n` -/
def HoldsSeq (n : Nat) (c : Val) : Prop :=
  ∃ q cs, IdxPath q ∧ (c.at q = some (.list cs) ∨ c.at q = some (.tuple cs)) ∧ cs.length = n

/-- `c` holds, reachable through dict values only, a dict with the keys `keys` -/
def HoldsDict (keys : List String) (c : Val) : Prop :=
  ∃ q cs, KeyPath q ∧ c.at q = some (.dict cs) ∧ (keysOf cs).Perm keys

/-- **the class of finding K3, at one level**: the companion does not match the level of `v` being looped (the statement:
pass it whole) but holds a matching container further inside, where the code's search (`_item_by_i` through sequences,
`_item_by_key` through dict values) finds it -/
def SearchedStep (v c : Val) : Prop :=
  levelMatch v c = false ∧
  match v with
  | .list xs => HoldsSeq xs.length c
  | .tuple xs => HoldsSeq xs.length c
  | .dict kvs => HoldsDict (keysOf kvs) c
  | .cell _ => False

/-- no level on the way down `p` is of the K3 class (the companion followed as the STATEMENT selects it) -/
def NotSearched (v : Val) : Path → Val → Prop
  | [], _ => True
  | s :: p, c => ¬ SearchedStep v c ∧
    match v.child s with
    | some v' => NotSearched v' p (pickLevel v s c)
    | Option.none => True

theorem getIdx_ne_list (cs : List Val) (i : Nat) : getIdx cs i ≠ .list cs ∧ getIdx cs i ≠ .tuple cs := by
  unfold getIdx
  by_cases hi : i < cs.length
  · have hm : cs[i] ∈ cs := List.getElem_mem hi
    have hlt := List.sizeOf_lt_of_mem hm
    have hg : cs.getD i (.cell .none) = cs[i] := by simp [List.getD, hi]
    rw [hg]
    constructor <;> intro e <;> rw [e] at hlt <;> simp at hlt <;> omega
  · have hg : cs.getD i (.cell .none) = .cell .none := by simp [List.getD, Nat.not_lt.1 hi]
    rw [hg]; constructor <;> intro e <;> cases e

theorem itemByI_searched (i n : Nat) : ∀ (q : Path) (c : Val) (ds : List Val), IdxPath q →
    (c.at q = some (.list ds) ∨ c.at q = some (.tuple ds)) → ds.length = n → itemByI i n c ≠ c
  | [], c, ds, _, hq, hl => by
      rcases hq with hq | hq <;> simp only [Val.at, Option.some.injEq] at hq <;> subst hq <;>
        simp only [itemByI, hl, ↓reduceIte]
      · exact (getIdx_ne_list ds i).1
      · exact (getIdx_ne_list ds i).2
  | s :: q, c, ds, hp, hq, hl => by
      obtain ⟨j, rfl⟩ := hp s (by simp)
      have hp' : IdxPath q := fun t ht => hp t (by simp [ht])
      have key : ∀ (cs : List Val), cs[j]? = some ((cs[j]?).getD (.cell .none)) →
          (((cs[j]?).getD (.cell .none)).at q = some (.list ds) ∨ ((cs[j]?).getD (.cell .none)).at q = some (.tuple ds)) →
          cs.map (itemByI i n) ≠ cs := by
        intro cs hj hx e
        have hne := itemByI_searched i n q _ ds hp' hx hl
        have := congrArg (fun l => l[j]?) e
        simp only [List.getElem?_map] at this
        rw [hj] at this
        simp only [Option.map_some, Option.some.injEq] at this
        exact hne this
      cases c with
      | cell a => rcases hq with hq | hq <;> simp [Val.at, Val.child] at hq
      | dict kvs => rcases hq with hq | hq <;> simp [Val.at, Val.child] at hq
      | list cs =>
        cases hj : cs[j]? with
        | none => rcases hq with hq | hq <;> simp [Val.at, Val.child, hj] at hq
        | some x =>
          by_cases hlen : cs.length = n
          · simp only [itemByI, hlen, ↓reduceIte]; exact (getIdx_ne_list cs i).1
          · simp only [itemByI, hlen, ↓reduceIte, itemByIList_eq_map]
            intro e
            simp only [Val.list.injEq] at e
            exact key cs (by simp [hj]) (by simpa [Val.at, Val.child, hj] using hq) e
      | tuple cs =>
        cases hj : cs[j]? with
        | none => rcases hq with hq | hq <;> simp [Val.at, Val.child, hj] at hq
        | some x =>
          by_cases hlen : cs.length = n
          · simp only [itemByI, hlen, ↓reduceIte]; exact (getIdx_ne_list cs i).2
          · simp only [itemByI, hlen, ↓reduceIte, itemByIList_eq_map]
            intro e
            simp only [Val.tuple.injEq] at e
            exact key cs (by simp [hj]) (by simpa [Val.at, Val.child, hj] using hq) e


theorem mem_of_lookup_some (k : String) (y : Val) : ∀ (kvs : KW), kvs.lookup k = some y → (k, y) ∈ kvs
  | [], h => by simp at h
  | (j, w) :: kvs, h => by
      simp only [List.lookup_cons] at h
      by_cases hk : k = j
      · subst hk; simp at h; subst h; simp
      · have : (k == j) = false := by simpa using hk
        simp only [this] at h
        exact List.mem_cons_of_mem _ (mem_of_lookup_some k y kvs h)

theorem lookup_mapKW' (g : Val → Val) (k : String) : ∀ (kvs : KW), (mapKW g kvs).lookup k = (kvs.lookup k).map g
  | [] => by simp [mapKW]
  | (j, w) :: kvs => by
      simp only [mapKW, List.map_cons, List.lookup_cons]
      cases (k == j)
      · exact lookup_mapKW' g k kvs
      · rfl

theorem getKey_ne_dict (cs : KW) (k : String) : getKey cs k ≠ .dict cs := by
  unfold getKey
  cases h : cs.lookup k with
  | none => intro e; cases e
  | some y =>
    have hm := mem_of_lookup_some k y cs h
    have hlt := sizeOf_kv_lt hm
    intro e
    simp only [Option.getD_some] at e
    rw [e] at hlt
    simp at hlt
    omega

theorem itemByKey_searched (k : String) (keys : List String) : ∀ (q : Path) (c : Val) (ds : KW), KeyPath q →
    c.at q = some (.dict ds) → sortStr (keysOf ds) = keys → itemByKey k keys c ≠ c
  | [], c, ds, _, hq, hl => by
      simp only [Val.at, Option.some.injEq] at hq
      subst hq
      simp only [itemByKey, hl, ↓reduceIte]
      exact getKey_ne_dict ds k
  | s :: q, c, ds, hp, hq, hl => by
      obtain ⟨j, rfl⟩ := hp s (by simp)
      have hp' : KeyPath q := fun t ht => hp t (by simp [ht])
      cases c with
      | cell a => simp [Val.at, Val.child] at hq
      | list cs => simp [Val.at, Val.child] at hq
      | tuple cs => simp [Val.at, Val.child] at hq
      | dict cs =>
        cases hj : cs.lookup j with
        | none => simp [Val.at, Val.child, hj] at hq
        | some x =>
          have hx : x.at q = some (.dict ds) := by simpa [Val.at, Val.child, hj] using hq
          by_cases hk : sortStr (keysOf cs) = keys
          · simp only [itemByKey, hk, ↓reduceIte]; exact getKey_ne_dict cs k
          · simp only [itemByKey, hk, ↓reduceIte, itemByKeyKVs_eq_map]
            intro e
            simp only [Val.dict.injEq] at e
            have := congrArg (fun l => List.lookup j l) e
            simp only [lookup_mapKW', hj, Option.map_some, Option.some.injEq] at this
            exact itemByKey_searched k keys q x ds hp' hx hl this

end Pyg
