/-
  Helper lemmas for C20: the row view (`Table.R : Rows`) of the table operations `join` is made of
  (`*`, `/`, `+`, `d(**consts)`), and `_join_dictable_with_defaults` as a `JStep`.
-/
import PygModel.PerDict
import PygProofs.Lemmas.PerDictLemmas
import PygProofs.Lemmas.KeyedRows
import PygProofs.Lemmas.TableRows

namespace Pyg

/-- row `i` of a table as a function of the column name (`None` for a column the table lacks) -/
def Table.rowF (t : Table) (i : Nat) : Row := fun c => t.jcellAt c i

/-- the row view of a table -/
def Table.R (t : Table) : Rows := ⟨t.nrows, t.rowF⟩

@[simp] theorem Table.R_n (t : Table) : t.R.n = t.nrows := rfl
@[simp] theorem Table.R_row (t : Table) : t.R.row = t.rowF := rfl

/-- at least one column, all columns as long as the first -/
def Table.WF (t : Table) : Prop := t ≠ [] ∧ t.Rect t.nrows

theorem col?_none_of_not_mem {t : Table} {c : String} (h : c ∉ t.cols) : t.col? c = none := by
  simp only [Table.col?, Option.map_eq_none_iff, List.find?_eq_none]
  intro x hx he
  exact h (List.mem_map.2 ⟨x, hx, by simpa using he⟩)

theorem jcellAt_not_mem {t : Table} {c : String} (h : c ∉ t.cols) (i : Nat) :
    t.jcellAt c i = .none := by
  simp [Table.jcellAt, col?_none_of_not_mem h]

theorem mem_cols_of_col? {t : Table} {c : String} {xs : List Cell} (h : t.col? c = some xs) :
    c ∈ t.cols := by
  simp only [Table.col?, Option.map_eq_some_iff] at h
  obtain ⟨x, hx, _⟩ := h
  have := List.find?_some hx
  exact List.mem_map.2 ⟨x, List.mem_of_find?_eq_some hx, by simpa using this⟩

/-! ### key tuples and `keq` -/

theorem cmpArr_cells (l : List String) (f g : String → Cell) :
    cmpArr (normList (l.map fun c => Val.cell (f c))) (normList (l.map fun c => Val.cell (g c))) = .eq ↔
      ∀ c ∈ l, cmp (.cell (f c)) (.cell (g c)) = .eq := by
  induction l with
  | nil => simp [normList, cmpArr]
  | cons a as ih =>
    simp only [List.map_cons, normList, cmpArr, then_eq_eq_iff, ih, List.mem_cons, forall_eq_or_imp]
    simp [cmp, Val.norm]

theorem cmp_rowKey_iff (a b : Table) (on : List String) (i j : Nat) :
    cmp (rowKey a on i) (rowKey b on j) = .eq ↔ keq on (a.rowF i) (b.rowF j) := by
  simp only [rowKey]
  rw [cmp_tuple _ _ (by simp)]
  exact cmpArr_cells on _ _

theorem keq_mem_congr {on on' : List String} (h : ∀ c, c ∈ on' ↔ c ∈ on) (r r' : Row) :
    keq on' r r' ↔ keq on r r' :=
  ⟨fun hk c hc => hk c ((h c).2 hc), fun hk c hc => hk c ((h c).1 hc)⟩

/-! ### `+` (concat of two tables) -/

theorem getD_col_length {t : Table} (ht : t.Rect t.nrows) (c : String) :
    ((t.col? c).getD (List.replicate t.nrows .none)).length = t.nrows := by
  cases h : t.col? c with
  | none => simp
  | some xs => simpa using Table.col?_length ht h

theorem getD_col_get {t : Table} (c : String) (i : Nat) (hi : i < t.nrows) :
    ((t.col? c).getD (List.replicate t.nrows .none)).getD i .none = t.jcellAt c i := by
  cases h : t.col? c with
  | none => simp [Table.jcellAt, h, List.getD_eq_getElem?_getD, hi]
  | some xs => simp [Table.jcellAt, h]

theorem getD_col_get' {t : Table} (c : String) (i : Nat) :
    (((t.col? c).getD (List.replicate t.nrows .none))[i]?).getD .none = t.jcellAt c i := by
  cases h : t.col? c with
  | none =>
    simp only [Table.jcellAt, h, Option.getD_none, List.getD_eq_getElem?_getD, List.getElem?_nil]
    by_cases hi : i < t.nrows <;> simp [hi]
  | some xs => simp [Table.jcellAt, h, List.getD_eq_getElem?_getD]

theorem concat2_cols (a b : Table) :
    (a.concat2 b).cols = a.cols ++ b.cols.filter (fun k => !a.cols.contains k) := by
  simp [Table.concat2, Table.cols, List.map_map, Function.comp_def]

theorem concat2_cell (a b : Table) (ha : a.Rect a.nrows) (c : String) (i : Nat) :
    (a.concat2 b).jcellAt c i =
      if i < a.nrows then a.jcellAt c i else b.jcellAt c (i - a.nrows) := by
  by_cases hc : c ∈ a.cols ++ b.cols.filter (fun k => !a.cols.contains k)
  · have hcol : (a.concat2 b).col? c = some
        ((a.col? c).getD (List.replicate a.nrows .none) ++
         (b.col? c).getD (List.replicate b.nrows .none)) :=
      Table.col?_map_keys _ _ c hc
    simp only [Table.jcellAt, hcol, Option.getD_some, List.getD_eq_getElem?_getD,
      List.getElem?_append, getD_col_length ha]
    split
    · rename_i hi
      have := getD_col_get (t := a) c i hi
      simpa [Table.jcellAt, List.getD_eq_getElem?_getD] using this
    · have := getD_col_get' (t := b) c (i - a.nrows)
      simpa [Table.jcellAt, List.getD_eq_getElem?_getD] using this
  · have h1 : c ∉ (a.concat2 b).cols := by rw [concat2_cols]; exact hc
    have h2 : c ∉ a.cols := fun h => hc (List.mem_append.2 (.inl h))
    have h3 : c ∉ b.cols := by
      intro h
      apply hc
      exact List.mem_append.2 (.inr (List.mem_filter.2 ⟨h, by simpa using h2⟩))
    rw [jcellAt_not_mem h1, jcellAt_not_mem h2, jcellAt_not_mem h3]
    simp

theorem concat2_rect (a b : Table) (ha : a.Rect a.nrows) (hb : b.Rect b.nrows) :
    (a.concat2 b).Rect (a.nrows + b.nrows) := by
  intro c hc
  simp only [Table.concat2, List.mem_map] at hc
  obtain ⟨k, _, rfl⟩ := hc
  simp [getD_col_length ha, getD_col_length hb]

theorem concat2_ne_nil (a b : Table) (ha : a ≠ []) : a.concat2 b ≠ [] := by
  cases a with
  | nil => exact absurd rfl ha
  | cons c cs => simp [Table.concat2, Table.cols]

theorem concat2_wf (a b : Table) (ha : a.WF) (hb : b.Rect b.nrows) :
    (a.concat2 b).WF ∧ (a.concat2 b).nrows = a.nrows + b.nrows := by
  have hr := concat2_rect a b ha.2 hb
  have hne := concat2_ne_nil a b ha.1
  have hn := Table.nrows_of_rect hr hne
  exact ⟨⟨hne, hn ▸ hr⟩, hn⟩

/-! ### `d[ids]` -/

theorem gatherRows_col? (t : Table) (ids : List Nat) (c : String) :
    (t.gatherRows ids).col? c = (t.col? c).map fun xs => ids.map fun i => xs.getD i .none := by
  simp only [Table.col?, Table.gatherRows, List.find?_map, Option.map_map]
  rfl

theorem gatherRows_rowF (t : Table) (ids : List Nat) (j : Nat) (hj : j < ids.length) :
    (t.gatherRows ids).rowF j = t.rowF ids[j] := by
  funext c
  simp only [Table.rowF, Table.jcellAt, gatherRows_col?]
  cases t.col? c with
  | none => simp
  | some xs => simp [List.getD_eq_getElem?_getD, hj]

theorem gatherRows_wf (t : Table) (ht : t ≠ []) (ids : List Nat) :
    (t.gatherRows ids).WF ∧ (t.gatherRows ids).nrows = ids.length := by
  have hn := Table.nrows_gatherRows ht ids
  refine ⟨⟨?_, hn ▸ Table.gatherRows_rect t ids⟩, hn⟩
  cases t with
  | nil => exact absurd rfl ht
  | cons c cs => simp [Table.gatherRows]

/-! ### `d(**consts)` -/

theorem setConst_ne_nil (t : Table) (k : String) (v : Cell) : t.setConst k v ≠ [] := by
  simp only [Table.setConst]
  split
  · simp
  · rename_i h
    have hne : t ≠ [] := by intro h'; subst h'; simp at h
    split
    · simpa using hne
    · simp

theorem setConst_rect (t : Table) (ht : t.WF) (k : String) (v : Cell) :
    (t.setConst k v).Rect t.nrows := by
  have hte : t.isEmpty = false := by
    cases t with
    | nil => exact absurd rfl ht.1
    | cons c cs => rfl
  simp only [Table.setConst, hte, Bool.false_eq_true, if_false]
  split
  · intro c hc
    simp only [List.mem_map] at hc
    obtain ⟨x, hx, rfl⟩ := hc
    split
    · simp
    · exact ht.2 x hx
  · intro c hc
    rcases List.mem_append.1 hc with h | h
    · exact ht.2 c h
    · simp only [List.mem_singleton] at h; subst h; simp

theorem setConst_wf (t : Table) (ht : t.WF) (k : String) (v : Cell) :
    (t.setConst k v).WF ∧ (t.setConst k v).nrows = t.nrows := by
  have hr := setConst_rect t ht k v
  have hne := setConst_ne_nil t k v
  have hn := Table.nrows_of_rect hr hne
  exact ⟨⟨hne, hn ▸ hr⟩, hn⟩

theorem setConst_cols (t : Table) (ht : t ≠ []) (k : String) (v : Cell) (c : String) :
    c ∈ (t.setConst k v).cols ↔ c ∈ t.cols ∨ c = k := by
  have hte : t.isEmpty = false := by
    cases t with
    | nil => exact absurd rfl ht
    | cons c cs => rfl
  simp only [Table.setConst, hte, Bool.false_eq_true, if_false]
  split
  · rename_i hk
    have hk' : k ∈ t.cols := by simpa using hk
    simp only [Table.cols, List.map_map, List.mem_map, Function.comp_def]
    constructor
    · rintro ⟨x, hx, rfl⟩
      by_cases h : x.1 = k
      · simp [h]
      · have : (x.1 == k) = false := by simpa using h
        simp only [this, Bool.false_eq_true, if_false]
        exact .inl ⟨x, hx, rfl⟩
    · rintro (⟨x, hx, rfl⟩ | rfl)
      · refine ⟨x, hx, ?_⟩
        by_cases h : x.1 = k
        · simp [h]
        · have : (x.1 == k) = false := by simpa using h
          simp [this]
      · simp only [Table.cols, List.mem_map] at hk'
        obtain ⟨x, hx, hxk⟩ := hk'
        exact ⟨x, hx, by simp [hxk]⟩
  · simp [Table.cols]

theorem setConst_rowF (t : Table) (ht : t ≠ []) (k : String) (v : Cell) (i : Nat)
    (hi : i < t.nrows) : (t.setConst k v).rowF i = (t.rowF i).sets [(k, v)] := by
  funext c
  rw [Row.sets_single]
  obtain ⟨h1, h2⟩ := setConst_spec t k v ht
  by_cases hc : c = k
  · subst hc
    simp [Table.rowF, Table.jcellAt, h1, List.getD_eq_getElem?_getD, hi]
  · simp only [Table.rowF, Table.jcellAt, h2 c hc, hc, if_false]

theorem setConsts_sem (kvs : List (String × Cell)) : ∀ t : Table, t.WF →
    (t.setConsts kvs).WF ∧ (t.setConsts kvs).nrows = t.nrows ∧
    (∀ c, c ∈ (t.setConsts kvs).cols ↔ c ∈ t.cols ∨ ∃ kv ∈ kvs, kv.1 = c) ∧
    ∀ i, i < t.nrows → (t.setConsts kvs).rowF i = (t.rowF i).sets kvs := by
  induction kvs with
  | nil => intro t ht; exact ⟨ht, rfl, by simp [Table.setConsts], fun i _ => rfl⟩
  | cons kv kvs ih =>
    intro t ht
    obtain ⟨hw, hn⟩ := setConst_wf t ht kv.1 kv.2
    obtain ⟨i1, i2, i3, i4⟩ := ih (t.setConst kv.1 kv.2) hw
    have he : t.setConsts (kv :: kvs) = (t.setConst kv.1 kv.2).setConsts kvs := rfl
    rw [he]
    refine ⟨i1, i2.trans hn, ?_, ?_⟩
    · intro c
      rw [i3 c, setConst_cols t ht.1]
      simp only [List.mem_cons, exists_eq_or_imp]
      constructor
      · rintro ((h | h) | h)
        · exact .inl h
        · exact .inr (.inl h.symm)
        · exact .inr (.inr h)
      · rintro (h | h | h)
        · exact .inl (.inl h)
        · exact .inl (.inr h.symm)
        · exact .inr h
    · intro i hi
      rw [i4 i (hn ▸ hi), setConst_rowF t ht.1 _ _ i hi, ← Row.sets_cons]

/-! ### `a * b` -/

theorem find_byname {β} (l : List String) (F : String → β) (k : String) (hk : k ∈ l) :
    (l.map fun a => (a, F a)).find? (fun c => c.1 == k) = some (k, F k) := by
  induction l with
  | nil => cases hk
  | cons a as ih =>
    simp only [List.map_cons, List.find?_cons]
    by_cases ha : a = k
    · subst ha; simp
    · have : (a == k) = false := by simpa using ha
      simp only [this]
      rcases List.mem_cons.1 hk with rfl | hm
      · exact absurd rfl ha
      · exact ih hm

theorem toV_rect {d : Table} {v : VTable} {n : Nat} (h : d.toV = v) (hv : ∀ c ∈ v, c.2.length = n) :
    d.Rect n := by
  subst h
  intro c hc
  have := hv (c.1, c.2.map .cell) (List.mem_map.2 ⟨c, hc, rfl⟩)
  simpa using this

/-- **the rows of `a * b`**, keys and values: as `mul_rows`, plus where the non-key cells come from,
and the list of joined pairs itself -/
theorem mul_rows_full (a b d : Table) (on : List String) (hon : on ≠ []) (hnd : on.Nodup)
    (hsh : linter a.cols b.cols = on) (hd : a.mul b = some (.ok d)) :
    ∃ kp : List (Val × Nat × Nat),
      d.nrows = kp.length ∧ d.Rect kp.length ∧
      (∀ p (hp : p < kp.length), rowKey d on p = kp[p].1) ∧
      kp.map (·.2) = joinPairs (keysOn a on) (keysOn b on) ∧
      (∀ p ∈ kp, cmp p.1 (rowKey a on p.2.1) = .eq ∧ cmp p.1 (rowKey b on p.2.2) = .eq) ∧
      (∀ c ∈ a.cols, c ∉ on → ∀ p (hp : p < kp.length), d.jcellAt c p = a.jcellAt c kp[p].2.1) ∧
      (∀ c ∈ b.cols, c ∉ on → ∀ p (hp : p < kp.length), d.jcellAt c p = b.jcellAt c kp[p].2.2) := by
  have hina : ∀ k ∈ on, k ∈ a.cols := fun k hk => (mem_linter.1 (hsh ▸ hk)).1
  have hinb : ∀ k ∈ on, k ∈ b.cols := fun k hk => (mem_linter.1 (hsh ▸ hk)).2
  have hlk := keysOn_ok a on hina
  have hrk := keysOn_ok b on hinb
  have hla : (keysOn a on).length = a.nrows := by simp [keysOn]
  have hlb : (keysOn b on).length = b.nrows := by simp [keysOn]
  have hj := join_explicit a b (on.map .col) (on.map .col) .pair on (keysOn a on) (keysOn b on)
    rfl (joinColNames_cols on) hnd hon hlk hrk
  have hj' : join a b none none .pair =
      some (.ok (joinTableOf a b on .pair (keyedPairs (joinMatches (keysOn a on) (keysOn b on))))) := by
    rw [← hj]; simp [join, hsh]
  generalize hkp : keyedPairs (joinMatches (keysOn a on) (keysOn b on)) = kp at hj'
  have hv : (joinTableOf a b on .pair kp).toTable = some d := by
    simp only [Table.mul, hj'] at hd
    cases h : (joinTableOf a b on .pair kp).toTable with
    | none => simp [h] at hd
    | some d' => simp [h] at hd; rw [hd]
  have htv := toTable_toV hv
  have hkeys := keyedPairs_keys (lk := keysOn a on) (rk := keysOn b on)
  rw [hkp] at hkeys
  have hrep := keyedPairs_rep_mem (lk := keysOn a on) (rk := keysOn b on)
  rw [hkp] at hrep
  have hrect : d.Rect kp.length := by
    apply toV_rect htv
    intro c hc
    simp only [joinTableOf, List.mem_append, List.mem_map] at hc
    rcases hc with ((⟨x, _, rfl⟩ | ⟨x, _, rfl⟩) | ⟨x, _, rfl⟩) | ⟨x, _, rfl⟩ <;> simp
  have hne : d ≠ [] := by
    intro h
    subst h
    cases on with
    | nil => exact hon rfl
    | cons c0 cs => simp [joinTableOf, Table.toV, List.zipIdx_cons] at htv
  -- the `on` columns of the product, by name
  have hzn : (on.zipIdx.map (·.1)).Nodup := by rw [List.zipIdx_map_fst]; exact hnd
  have hfind : ∀ c ∈ on.zipIdx, (joinTableOf a b on .pair kp).find? (fun x => x.1 == c.1) =
      some (c.1, kp.map fun p => tupleGet c.2 p.1) := by
    intro c hc
    have h1 := find_named (fun c : String × Nat => c.1) (fun c => kp.map fun p => tupleGet c.2 p.1)
      on.zipIdx hzn c hc
    simp only [joinTableOf]
    exact find_append_left _ _ _ _ (find_append_left _ _ _ _ (find_append_left _ _ _ _ h1))
  have hcell : ∀ c ∈ on.zipIdx, ∀ p (hp : p < kp.length),
      Val.cell (d.jcellAt c.1 p) = tupleGet c.2 kp[p].1 := by
    intro c hc p hp
    have := cell_of_toV htv c.1 _ (hfind c hc) p (by simpa using hp)
    simpa using this
  -- the value columns
  have hj0 : linter (lminus a.cols on) (lminus b.cols on) = [] := by
    simp only [linter, List.filter_eq_nil_iff]
    intro k hk hkb
    have hkb' : k ∈ lminus b.cols on := by simpa using hkb
    have h1 := mem_lminus.1 hk
    have h2 := mem_lminus.1 hkb'
    exact h1.2 (hsh ▸ mem_linter.2 ⟨h1.1, h2.1⟩)
  have e1 : lminus (lminus a.cols on) [] = lminus a.cols on := by simp [lminus]
  have e2 : lminus (lminus b.cols on) [] = lminus b.cols on := by simp [lminus]
  have hshape : joinTableOf a b on .pair kp =
      (on.zipIdx.map fun c => (c.1, kp.map fun p => tupleGet c.2 p.1)) ++
      ((lminus a.cols on).map fun k => (k, kp.map fun p => Val.cell (a.jcellAt k p.2.1))) ++
      ((lminus b.cols on).map fun k => (k, kp.map fun p => Val.cell (b.jcellAt k p.2.2))) := by
    simp only [joinTableOf, hj0, e1, e2, List.map_nil, List.append_nil]
  have hS1 : ∀ c, c ∉ on → ∀ x ∈ (on.zipIdx.map fun c => (c.1, kp.map fun p => tupleGet c.2 p.1)),
      x.1 ≠ c := by
    intro c hc x hx he
    obtain ⟨y, hy, rfl⟩ := List.mem_map.1 hx
    apply hc
    have : y.1 ∈ on.zipIdx.map (·.1) := List.mem_map.2 ⟨y, hy, rfl⟩
    rw [List.zipIdx_map_fst] at this
    exact he ▸ this
  refine ⟨kp, Table.nrows_of_rect hrect hne, hrect, ?_, ?_, ?_, ?_, ?_⟩
  · intro p hp
    obtain ⟨xs, hxs⟩ : ∃ xs : List Val, kp[p].1 = .tuple xs ∧ xs.length = on.length := by
      have hm := hrep kp[p] (List.getElem_mem hp)
      simp only [keysOn, List.mem_map, List.mem_range] at hm
      obtain ⟨i, _, hi⟩ := hm
      exact ⟨_, hi.symm, by simp⟩
    rw [hxs.1]
    simp only [rowKey]
    congr 1
    apply List.ext_getElem
    · simp [hxs.2]
    · intro j h1 h2
      simp only [List.length_map] at h1
      have hc : (on[j], j) ∈ on.zipIdx := by
        rw [List.mem_zipIdx_iff_getElem?]; simp [List.getElem?_eq_getElem h1]
      have := hcell (on[j], j) hc p hp
      simp only at this
      rw [List.getElem_map, this, hxs.1]
      simp [tupleGet, List.getD_eq_getElem?_getD, List.getElem?_eq_getElem h2]
  · rw [← hkp, keyedPairs_snd]; rfl
  · intro p hp
    have := hkeys p hp
    have hmem : p.2 ∈ (kp.map (·.2)) := List.mem_map.2 ⟨p, hp, rfl⟩
    rw [← hkp, keyedPairs_snd] at hmem
    have hij := (mem_joinPairs (i := p.2.1) (j := p.2.2)).1 (by
      have : (p.2.1, p.2.2) = p.2 := rfl
      rw [this]; exact hmem)
    rw [hla, hlb] at hij
    rw [keyAt_keysOn a on hij.1, keyAt_keysOn b on hij.2.1] at this
    exact this
  · intro c hca hcon p hp
    have hf : (joinTableOf a b on .pair kp).find? (fun x => x.1 == c) =
        some (c, kp.map fun p => Val.cell (a.jcellAt c p.2.1)) := by
      rw [hshape]
      apply find_append_left
      rw [find_append_right _ _ _ (hS1 c hcon)]
      exact find_byname _ _ c (mem_lminus.2 ⟨hca, hcon⟩)
    have := cell_of_toV htv c _ hf p (by simpa using hp)
    simpa using this
  · intro c hcb hcon p hp
    have hca : c ∉ a.cols := fun h => hcon (hsh ▸ mem_linter.2 ⟨h, hcb⟩)
    have hf : (joinTableOf a b on .pair kp).find? (fun x => x.1 == c) =
        some (c, kp.map fun p => Val.cell (b.jcellAt c p.2.2)) := by
      rw [hshape, find_append_right]
      · exact find_byname _ _ c (mem_lminus.2 ⟨hcb, hcon⟩)
      · intro x hx
        rcases List.mem_append.1 hx with h | h
        · exact hS1 c hcon x h
        · obtain ⟨k, hk, rfl⟩ := List.mem_map.1 h
          intro he
          exact hca (he ▸ (mem_lminus.1 hk).1)
    have := cell_of_toV htv c _ hf p (by simpa using hp)
    simpa using this

end Pyg
