/-
  Helper lemmas for C13 (df_slice / df_unslice).
-/
import PygModel.Slice
import PygProofs.Lemmas.BitempLemmas

namespace Pyg.Slice
open List

/-- the row test of one slice: both masks -/
def inWindow (l u : Bool) (lb ub : Bound) (t : Int) : Bool := lbOk l lb t && ubOk u ub t

theorem filter_true' {α} (l : List α) : l.filter (fun _ => true) = l := by simp

theorem nonDecreasing_pairwise : ∀ (l : List Int), nonDecreasing l = true → l.Pairwise (· ≤ ·)
  | [], _ => List.Pairwise.nil
  | [_], _ => by simp
  | a :: b :: rest, h => by
    simp only [nonDecreasing, Bool.and_eq_true, decide_eq_true_eq] at h
    have ih := nonDecreasing_pairwise (b :: rest) h.2
    refine List.pairwise_cons.mpr ⟨?_, ih⟩
    intro x hx
    rcases List.mem_cons.mp hx with rfl | hx
    · exact h.1
    · have := List.rel_of_pairwise_cons ih hx; omega

theorem pairwise_nonDecreasing : ∀ (l : List Int), l.Pairwise (· ≤ ·) → nonDecreasing l = true
  | [], _ => rfl
  | [_], _ => rfl
  | a :: b :: rest, h => by
    have h' := List.pairwise_cons.mp h
    simp only [nonDecreasing, Bool.and_eq_true, decide_eq_true_eq]
    exact ⟨h'.1 b (by simp), pairwise_nonDecreasing (b :: rest) h'.2⟩

/-- a strictly decreasing list of two or more bounds is what `_is_non_decreasing` answers `False` for -/
theorem decreasing_not_nonDecreasing : ∀ (l : List Int), 2 ≤ l.length → l.Pairwise (· > ·) → nonDecreasing l = false
  | [], h, _ => by simp at h
  | [_], h, _ => by simp at h
  | a :: b :: rest, _, h => by
    have h' := (List.pairwise_cons.mp h).1 b (by simp)
    simp only [nonDecreasing, Bool.and_eq_false_iff, decide_eq_false_iff_not]
    left; omega

/-! ### the pandas label slice on a sorted index selects what the masks describe -/

theorem dropWhile_sorted {α} (a : Int) : ∀ (df : Rows α), (df.map (·.1)).Pairwise (· ≤ ·) →
    df.dropWhile (fun r => decide (r.1 < a)) = df.filter fun r => decide (a ≤ r.1)
  | [], _ => rfl
  | x :: xs, h => by
    have hx : (∀ y ∈ xs.map (·.1), x.1 ≤ y) ∧ (xs.map (·.1)).Pairwise (· ≤ ·) := List.pairwise_cons.mp h
    by_cases hxa : x.1 < a
    · have : ¬ a ≤ x.1 := by omega
      simp only [List.dropWhile_cons, hxa, decide_true, if_true, List.filter_cons, this, decide_false]
      simpa using dropWhile_sorted a xs hx.2
    · have hax : a ≤ x.1 := by omega
      simp only [List.dropWhile_cons, hxa, decide_false, List.filter_cons, hax, decide_true, if_true]
      simp only [Bool.false_eq_true, if_false, List.cons.injEq, true_and]
      symm
      rw [List.filter_eq_self]
      intro y hy
      have := hx.1 y.1 (List.mem_map.mpr ⟨y, hy, rfl⟩)
      simp only [decide_eq_true_eq]; omega

theorem takeWhile_sorted {α} (b : Int) : ∀ (df : Rows α), (df.map (·.1)).Pairwise (· ≤ ·) →
    df.takeWhile (fun r => decide (r.1 ≤ b)) = df.filter fun r => decide (r.1 ≤ b)
  | [], _ => rfl
  | x :: xs, h => by
    have hx : (∀ y ∈ xs.map (·.1), x.1 ≤ y) ∧ (xs.map (·.1)).Pairwise (· ≤ ·) := List.pairwise_cons.mp h
    by_cases hxb : x.1 ≤ b
    · simp only [List.takeWhile_cons, hxb, decide_true, if_true, List.filter_cons, List.cons.injEq, true_and]
      exact takeWhile_sorted b xs hx.2
    · simp only [List.takeWhile_cons, hxb, decide_false, List.filter_cons]
      simp only [Bool.false_eq_true, if_false]
      symm
      rw [List.filter_eq_nil_iff]
      intro y hy
      have := hx.1 y.1 (List.mem_map.mpr ⟨y, hy, rfl⟩)
      simp only [decide_eq_true_eq]; omega

/-- on a non-decreasing index `df[lb:ub]` is the selection `lb ≤ t ≤ ub` (a missing label = no test) -/
theorem labelSlice_eq_filter {α} (df : Rows α) (hs : (df.map (·.1)).Pairwise (· ≤ ·)) (a b : Option Int) :
    labelSlice df a b = df.filter fun r =>
      (match a with | some a => decide (a ≤ r.1) | Option.none => true) &&
      (match b with | some b => decide (r.1 ≤ b) | Option.none => true) := by
  have hsub : ∀ (p : Int × α → Bool), ((df.filter p).map (·.1)).Pairwise (· ≤ ·) :=
    fun p => hs.sublist (List.Sublist.map _ List.filter_sublist)
  cases a <;> cases b <;> simp only [labelSlice]
  · simp [filter_true']
  · rw [takeWhile_sorted _ _ hs]; simp
  · rw [dropWhile_sorted _ _ hs]; simp
  · rw [dropWhile_sorted _ _ hs, takeWhile_sorted _ _ (hsub _), List.filter_filter]
    congr 1; funext r; exact Bool.and_comm _ _

/-- with parsable brackets a single slice is the filter by the two masks, whichever branch the code takes:
    the masks, or - both applicable brackets closed, index non-decreasing - the pandas label slice -/
theorem sliceOne_eq {α} (df : Rows α) (lb ub : Bound) (oc : Option (List Char)) (l u : Bool)
    (h : brackets oc = .ok (l, u)) :
    sliceOne df lb ub oc = .ok (df.filter fun r => inWindow l u lb ub r.1) := by
  unfold sliceOne
  split
  · rename_i hc
    simp only [Bool.or_eq_true, Bool.and_eq_true, List.isEmpty_iff] at hc
    rcases hc with rfl | ⟨h1, h2⟩
    · rfl
    · cases lb <;> simp [Bound.isNone] at h1
      cases ub <;> simp [Bound.isNone] at h2
      simp only [inWindow, lbOk, ubOk, Bool.and_self]
      rw [filter_true']
  · have hm : (df.filter fun r => lbOk l lb r.1).filter (fun r => ubOk u ub r.1) = df.filter fun r => inWindow l u lb ub r.1 := by
      simp only [List.filter_filter, inWindow]
      congr 1; funext r; exact Bool.and_comm _ _
    simp only [h, bind, Except.bind, pure, Except.pure]
    split
    · rename_i hfast
      simp only [Bool.and_eq_true, Bool.or_eq_true] at hfast
      obtain ⟨⟨hl, hu⟩, hinc⟩ := hfast
      have hs := nonDecreasing_pairwise _ hinc
      split
      · rename_i a b ha hb
        rw [labelSlice_eq_filter df hs]
        congr 2; funext r
        cases lb <;> cases ub <;> simp [Bound.label] at ha hb <;> subst ha <;> subst hb <;>
          simp_all [inWindow, lbOk, ubOk, Bound.isNone]
      · rw [hm]
    · rw [hm]

theorem sliceOne_trivial {α} (df : Rows α) (oc : Option (List Char)) : sliceOne df .none .none oc = .ok df := by
  simp [sliceOne, Bound.isNone]

theorem sliceOne_nil {α} (lb ub : Bound) (oc : Option (List Char)) : sliceOne ([] : Rows α) lb ub oc = .ok [] := by
  simp [sliceOne]

theorem sliceOne_reject {α} (df : Rows α) (lb ub : Bound) (oc : Option (List Char)) (e : Err)
    (h : brackets oc = .error e) (hdf : df ≠ []) (hb : lb ≠ .none ∨ ub ≠ .none) :
    sliceOne df lb ub oc = .error e := by
  unfold sliceOne
  split
  · rename_i hc
    simp only [Bool.or_eq_true, Bool.and_eq_true, List.isEmpty_iff] at hc
    rcases hc with h1 | ⟨h1, h2⟩
    · exact absurd h1 hdf
    · cases lb <;> cases ub <;> simp_all [Bound.isNone]
  · simp [h, bind, Except.bind]

/-! ### sort_index of two disjoint selections -/

theorem eq_of_time_eq {α} {df : Rows α} (hs : df.Pairwise (fun a b => a.1 < b.1)) {a b : Int × α}
    (ha : a ∈ df) (hb : b ∈ df) (h : a.1 = b.1) : a = b := by
  induction df with
  | nil => cases ha
  | cons x df ih =>
    rcases List.mem_cons.mp ha with rfl | ha' <;> rcases List.mem_cons.mp hb with rfl | hb'
    · rfl
    · have := List.rel_of_pairwise_cons hs hb'; omega
    · have := List.rel_of_pairwise_cons hs ha'; omega
    · exact ih hs.tail ha' hb'

theorem filter_append_perm {α} (p q : α → Bool) (hd : ∀ x, ¬ (p x = true ∧ q x = true)) :
    ∀ l : List α, (l.filter p ++ l.filter q).Perm (l.filter fun x => q x || p x)
  | [] => by simp
  | x :: l => by
    have ih := filter_append_perm p q hd l
    by_cases hp : p x = true
    · have hq : q x = false := by
        cases hqq : q x
        · rfl
        · exact absurd ⟨hp, hqq⟩ (hd x)
      simp only [List.filter_cons, hp, hq, if_true, Bool.false_eq_true, if_false, Bool.or_true, List.cons_append]
      exact ih.cons x
    · simp only [Bool.not_eq_true] at hp
      by_cases hq : q x = true
      · simp only [List.filter_cons, hp, hq, Bool.false_eq_true, if_false, if_true, Bool.or_false]
        exact List.perm_middle.trans (ih.cons x)
      · simp only [Bool.not_eq_true] at hq
        simp only [List.filter_cons, hp, hq, Bool.false_eq_true, if_false, Bool.or_false]
        exact ih

theorem sortIndex_disjoint {α} (df : Rows α) (hs : df.Pairwise (fun a b => a.1 < b.1)) (p q : Int × α → Bool)
    (hd : ∀ x, ¬ (p x = true ∧ q x = true)) :
    sortIndex (df.filter p ++ df.filter q) = df.filter fun x => q x || p x := by
  unfold sortIndex
  apply List.Perm.eq_of_pairwise (le := fun a b => a.1 ≤ b.1)
  · intro a b ha hb h1 h2
    have ha' : a ∈ df := by
      rcases List.mem_append.mp (List.mem_mergeSort.mp ha) with h | h <;> exact (List.mem_filter.mp h).1
    exact eq_of_time_eq hs ha' (List.mem_filter.mp hb).1 (by omega)
  · exact (List.pairwise_mergeSort (by intro a b c; simp only [decide_eq_true_eq]; omega)
      (by intro a b; simp only [Bool.or_eq_true, decide_eq_true_eq]; omega) _).imp (by intro a b h; simpa using h)
  · exact (hs.imp (by intro a b h; omega)).sublist List.filter_sublist
  · exact (List.mergeSort_perm _ _).trans (filter_append_perm p q hd df)

theorem tod_nonneg (t : Int) : 0 ≤ tod t := Int.emod_nonneg _ (by decide)
theorem tod_lt (t : Int) : tod t < DAY := Int.emod_lt_of_pos _ (by decide)

/-! ### stitching -/

theorem mapM_ok {α β} (f : α → Res β) (g : α → β) (h : ∀ x, f x = .ok (g x)) (l : List α) :
    l.mapM f = .ok (l.map g) := by
  induction l with
  | nil => rfl
  | cons x l ih => simp [List.mapM_cons, h, ih, bind, Except.bind, pure, Except.pure]

theorem zipper3_eq {α β γ} (xs : List α) (ys : List β) (zs : List γ) (h1 : ys.length = xs.length)
    (h2 : zs.length = xs.length) : zipper3 xs ys zs = .ok (xs.zip (ys.zip zs)) := by
  unfold zipper3
  rw [h1, h2]
  by_cases hm : xs.length = 1
  · simp [lens3, hm, bcast, h1, h2, bind, Except.bind, pure, Except.pure]
  · have : lens3 xs.length xs.length xs.length = .ok xs.length := by
      simp [lens3, hm, List.eraseDups_cons]
    simp [this, bcast, hm, h1, h2, bind, Except.bind, pure, Except.pure]

/-- one piece of a stitch: frame `d` cut to `(lo, hi)` with the given brackets -/
def cut (l u : Bool) (x : Frame × Option Int × Option Int) : Frame :=
  ⟨x.1.width, x.1.rows.filter fun r => inWindow l u (optDate x.2.1) (optDate x.2.2) r.1⟩

theorem cutAll_eq (dlu : List (Frame × Option Int × Option Int)) (oc : Option (List Char)) (l u : Bool)
    (h : brackets oc = .ok (l, u)) : cutAll dlu oc = .ok (dlu.map (cut l u)) := by
  unfold cutAll
  apply mapM_ok
  intro ⟨d, lo, hi⟩
  simp [sliceOne_eq _ _ _ oc l u h, cut, bind, Except.bind, pure, Except.pure]

theorem framesOf_length (dfs : List TS) (n : Nat) : (framesOf dfs n).length = dfs.length := by
  unfold framesOf; split <;> simp

/-- the pieces of `df_slice(dfs, ub = ub, n = n)` for upper bounds in increasing order -/
def pieces (dfs : List TS) (ub : List Int) (n : Nat) (l u : Bool) : List Frame :=
  ((framesOf dfs n).zip ((Option.none :: ub.dropLast.map some).zip (ub.map some))).map (cut l u)

theorem stitch_ub_eq (dfs : List TS) (ub : List Int) (oc : Option (List Char)) (n : Nat) (l u : Bool)
    (hb : brackets oc = .ok (l, u)) (hinc : nonDecreasing ub = true) (hlen : dfs.length = ub.length) (hne : ub ≠ []) :
    stitch dfs Option.none (some ub) oc n = .ok (assemble (pieces dfs ub n l u)) := by
  have hl1 : (Option.none :: ub.dropLast.map some).length = (framesOf dfs n).length := by
    rw [framesOf_length, hlen]
    cases ub with
    | nil => exact absurd rfl hne
    | cons a ub => simp
  have hl2 : (ub.map some).length = (framesOf dfs n).length := by rw [framesOf_length, hlen]; simp
  simp only [stitch, normalise, hinc, if_true, bind, Except.bind, pure, Except.pure]
  rw [zipper3_eq _ _ _ hl1 hl2]
  simp only [cutAll_eq _ oc l u hb]
  rfl

theorem pieces_length (dfs : List TS) (ub : List Int) (n : Nat) (l u : Bool) (hlen : dfs.length = ub.length)
    (hne : ub ≠ []) : (pieces dfs ub n l u).length = ub.length := by
  cases ub with
  | nil => exact absurd rfl hne
  | cons a ub => simp [pieces, framesOf_length, hlen]

/-- the lower bound of piece `i` -/
def loBound (ub : List Int) (i : Nat) : Bound := if i = 0 then .none else .date (ub.getD (i - 1) 0)

theorem pieces_getElem (dfs : List TS) (ub : List Int) (n : Nat) (l u : Bool) (_hlen : dfs.length = ub.length)
    (i : Nat) (hi : i < (pieces dfs ub n l u).length) (hi' : i < ub.length) (hf : i < (framesOf dfs n).length) :
    (pieces dfs ub n l u)[i] = ⟨(framesOf dfs n)[i].width,
      (framesOf dfs n)[i].rows.filter fun r => inWindow l u (loBound ub i) (.date ub[i]) r.1⟩ := by
  simp only [pieces, List.getElem_map, List.getElem_zip, cut, optDate]
  congr 2
  funext r
  cases i with
  | zero => simp [loBound]
  | succ k =>
    have hk : k < ub.length := by omega
    simp [loBound, List.getElem_dropLast, List.getD_eq_getElem?_getD, hk]

theorem unionIndex_sorted (dfs : List TS) : (unionIndex dfs).Pairwise (· < ·) := by
  have nd : (unionIndex dfs).Nodup := (List.mergeSort_perm _ _).nodup_iff.mpr (Bitemp.nodup_eraseDups _)
  have h1 : (unionIndex dfs).Pairwise (fun a b => decide (a ≤ b) = true) :=
    List.pairwise_mergeSort (by intro a b c; simp only [decide_eq_true_eq]; omega)
      (by intro a b; simp only [Bool.or_eq_true, decide_eq_true_eq]; omega) _
  exact (h1.and nd).imp (by intro a b ⟨h, h'⟩; simp only [decide_eq_true_eq] at h; omega)

theorem mem_unionIndex {dfs : List TS} {t : Int} : t ∈ unionIndex dfs ↔ ∃ s ∈ dfs, t ∈ s.index := by
  simp [unionIndex, List.mem_mergeSort, List.mem_eraseDups, List.mem_flatMap]

theorem concatCols_sorted (dfs : List TS) : (concatCols dfs).Pairwise (fun a b => a.1 < b.1) := by
  simp only [concatCols, List.pairwise_map]
  exact unionIndex_sorted dfs

theorem mem_concatCols {dfs : List TS} {x : Int × List (Option Int)} :
    x ∈ concatCols dfs ↔ (∃ s ∈ dfs, x.1 ∈ s.index) ∧ x.2 = dfs.map (·.get x.1) := by
  simp only [concatCols, List.mem_map, mem_unionIndex]
  constructor
  · rintro ⟨t, ht, rfl⟩; exact ⟨ht, rfl⟩
  · rintro ⟨ht, h2⟩; exact ⟨x.1, ht, by rw [← h2]⟩

theorem framesOf_rows_sorted (dfs : List TS) (n : Nat) (hs : ∀ s ∈ dfs, s.Sorted) :
    ∀ f ∈ framesOf dfs n, f.rows.Pairwise (fun a b => a.1 < b.1) := by
  intro f hf
  unfold framesOf at hf
  split at hf
  · simp only [List.mem_map] at hf
    obtain ⟨i, _, rfl⟩ := hf
    exact concatCols_sorted _
  · simp only [List.mem_map] at hf
    obtain ⟨s, hs', rfl⟩ := hf
    simp only [ofTS, List.pairwise_map]
    simpa [TS.Sorted, TS.index, List.pairwise_map] using hs s hs'

theorem assemble_many (P : List Frame) (h : 2 ≤ P.length) :
    assemble P = some ⟨P.foldl (fun m f => max m f.width) 0,
      P.flatMap fun f => f.rows.map fun r => (r.1, padRow (P.foldl (fun m f => max m f.width) 0) r.2)⟩ := by
  match P, h with
  | _ :: _ :: _, _ => rfl


theorem pieces_eq_range (dfs : List TS) (ub : List Int) (hlen : dfs.length = ub.length) (htwo : 2 ≤ ub.length) (n : Nat) (l u : Bool) :
    pieces dfs ub n l u = (List.range ub.length).map fun k =>
      if hk : k < (framesOf dfs n).length then
        (⟨(framesOf dfs n)[k].width,
          (framesOf dfs n)[k].rows.filter fun r => inWindow l u (loBound ub k) (.date (ub.getD k 0)) r.1⟩ : Frame)
      else default := by
  have hne : ub ≠ [] := by intro h0; simp [h0] at htwo
  have hpl := pieces_length dfs ub n l u hlen hne
  have hfl := framesOf_length dfs n
  apply List.ext_getElem
  · simp [hpl]
  · intro k h1 h2
    have hk : k < ub.length := by omega
    have hkf : k < (framesOf dfs n).length := by omega
    rw [pieces_getElem dfs ub n l u hlen k h1 hk hkf]
    simp [hkf, List.getD_eq_getElem?_getD, hk]


/-! ### df_unslice -/

theorem foldl_max_width (P : List Frame) (w : Nat) (hle : ∀ f ∈ P, f.width ≤ w) :
    ∀ a, a ≤ w → (a = w ∨ ∃ f ∈ P, f.width = w) → P.foldl (fun m f => max m f.width) a = w := by
  induction P with
  | nil => intro a _ h; rcases h with h | ⟨f, hf, _⟩
           · exact h
           · cases hf
  | cons f P ih =>
    intro a ha h
    simp only [List.foldl_cons]
    have hfw := hle f (by simp)
    apply ih (fun g hg => hle g (by simp [hg])) _ (by omega)
    rcases h with h | ⟨g, hg, hgw⟩
    · left; omega
    · rcases List.mem_cons.mp hg with rfl | hg'
      · left; omega
      · right; exact ⟨g, hg', hgw⟩

/-- a sorted series is a function of time -/
theorem get_eq_some_iff {s : TS} (hs : s.Sorted) (t x : Int) : s.get t = some x ↔ (t, some x) ∈ s := by
  have hp : s.Pairwise (fun a b => a.1 < b.1) := by simpa [TS.Sorted, TS.index, List.pairwise_map] using hs
  unfold TS.get
  constructor
  · intro h
    cases hf : s.find? (·.1 == t) with
    | none => simp [hf] at h
    | some p =>
      rw [hf] at h
      have h1 := List.find?_some hf
      have h2 := List.mem_of_find?_eq_some hf
      simp only [beq_iff_eq] at h1
      simp only [Option.bind_some] at h
      have : p = (t, some x) := by cases p; simp_all
      rw [← this]; exact h2
  · intro h
    cases hf : s.find? (·.1 == t) with
    | none =>
      rw [List.find?_eq_none] at hf
      exact absurd (by simp) (hf _ h)
    | some p =>
      have h1 := List.find?_some hf
      have h2 := List.mem_of_find?_eq_some hf
      simp only [beq_iff_eq] at h1
      have := eq_of_time_eq hp h2 h (by simpa using h1)
      simp [this]

/-- two NaN-free series that hold the same values at `t` are read alike at `t` (the second one proper) -/
theorem get_agree {A B : TS} (t : Int) (hA : ∀ p ∈ A, p.2.isSome) (hB : ∀ p ∈ B, p.2.isSome) (hs : B.Sorted)
    (h : ∀ x, (t, some x) ∈ A ↔ (t, some x) ∈ B) : A.get t = B.get t ∧ (t ∈ A.index ↔ t ∈ B.index) := by
  have hidx : ∀ (C : TS), (∀ p ∈ C, p.2.isSome) → (t ∈ C.index ↔ ∃ x, (t, some x) ∈ C) := by
    intro C hC
    simp only [TS.index, List.mem_map]
    constructor
    · rintro ⟨p, hp, rfl⟩
      have := hC p hp
      cases hv : p.2 with
      | none => simp [hv] at this
      | some x => exact ⟨x, by rw [← hv]; exact hp⟩
    · rintro ⟨x, hx⟩; exact ⟨_, hx, rfl⟩
  refine ⟨?_, by rw [hidx A hA, hidx B hB]; exact exists_congr h⟩
  cases hb : B.get t with
  | some x =>
    have hm := (h x).mpr ((get_eq_some_iff hs t x).mp hb)
    unfold TS.get
    cases hf : A.find? (·.1 == t) with
    | none => rw [List.find?_eq_none] at hf; exact absurd (by simp) (hf _ hm)
    | some p =>
      have h1 := List.find?_some hf
      have h2 := List.mem_of_find?_eq_some hf
      simp only [beq_iff_eq] at h1
      have h3 := hA p h2
      cases hv : p.2 with
      | none => simp [hv] at h3
      | some y =>
        have : (t, some y) ∈ B := (h y).mp (by rw [← hv, ← h1]; exact h2)
        have := (get_eq_some_iff hs t y).mpr this
        rw [hb] at this
        simp [hv, this]
  | none =>
    unfold TS.get
    cases hf : A.find? (·.1 == t) with
    | none => rfl
    | some p =>
      exfalso
      have h1 := List.find?_some hf
      have h2 := List.mem_of_find?_eq_some hf
      simp only [beq_iff_eq] at h1
      have h3 := hA p h2
      cases hv : p.2 with
      | none => simp [hv] at h3
      | some y =>
        have : (t, some y) ∈ B := (h y).mp (by rw [← hv, ← h1]; exact h2)
        have := (get_eq_some_iff hs t y).mpr this
        rw [hb] at this; cases this

theorem mem_column {j : Nat} {rows : Rows (List (Option Int))} {t : Int} {v : Option Int} :
    (t, v) ∈ column j rows ↔ ∃ vs, (t, vs) ∈ rows ∧ (vs[j]?).join = v := by
  simp only [column, List.mem_map, Prod.mk.injEq]
  constructor
  · rintro ⟨r, hr, rfl, rfl⟩; exact ⟨r.2, hr, rfl⟩
  · rintro ⟨vs, hr, rfl⟩; exact ⟨(t, vs), hr, rfl, rfl⟩

theorem mem_take_drop {α} {l : List α} {i n : Nat} {x : α} :
    x ∈ (l.drop i).take n ↔ ∃ j, j < n ∧ l[i + j]? = some x := by
  rw [List.mem_iff_getElem?]
  constructor
  · rintro ⟨j, hj⟩
    rw [List.getElem?_take] at hj
    split at hj
    · rw [List.getElem?_drop] at hj; exact ⟨j, by assumption, hj⟩
    · cases hj
  · rintro ⟨j, hj, h⟩
    exact ⟨j, by rw [List.getElem?_take, if_pos hj, List.getElem?_drop]; exact h⟩

/-- the slices `df_unslice` cuts -/
def slicesOf (F : Frame) (ub : List Int) : List (Rows (List (Option Int))) :=
  ((Bound.none :: ub.dropLast.map Bound.date).zip ub).map fun x =>
    F.rows.filter fun r => inWindow false true x.1 (.date x.2) r.1

/-- what `df_unslice` hands to the bounds: column `j` of slice `i` to bound `i+j` -/
def rsOf (F : Frame) (ub : List Int) : List (Int × TS) :=
  (slicesOf F ub).zipIdx.flatMap fun x =>
    (((ub.drop x.2).take F.width).zipIdx).map fun y => (y.1, column y.2 x.1)

theorem unsliceInc_eq (F : Frame) (ub : List Int) :
    unsliceInc F ub = .ok ((((rsOf F ub).map (·.1)).eraseDups.mergeSort (fun a b => decide (a ≤ b))).map fun u =>
      (u, nona (((rsOf F ub).filter (·.1 == u)).flatMap (·.2)))) := by
  have hm : ((Bound.none :: ub.dropLast.map Bound.date).zip ub).mapM
      (fun x => sliceWrap F.rows x.1 (.date x.2) (some ['(', ']'])) = .ok (slicesOf F ub) := by
    apply mapM_ok
    intro x
    have : sliceWrap F.rows x.1 (.date x.2) (some ['(', ']']) = sliceOne F.rows x.1 (.date x.2) (some ['(', ']']) := by
      unfold sliceWrap; split <;> first | rfl | (rename_i h1 h2; cases h2)
    rw [this, sliceOne_eq _ _ _ _ false true rfl]
  unfold unsliceInc
  simp only [bind, Except.bind, pure, Except.pure]
  have hm' : ((Bound.none :: ub.dropLast.map Bound.date).zip ub).mapM
      (fun (x : Bound × Int) => match x with | (l, u) => sliceWrap F.rows l (.date u) (some ['(', ']'])) = .ok (slicesOf F ub) := hm
  rw [hm']
  rfl

/-- on a non-decreasing bound list `df_unslice` is its body -/
theorem unslice_inc (F : Frame) (ub : List Int) (h : nonDecreasing ub = true) : unslice F ub = unsliceInc F ub := by
  simp [unslice, h]

/-- a decreasing bound list is read backwards and the result handed back in the order given -/
theorem unslice_dec (F : Frame) (ub : List Int) (h : nonDecreasing ub = false) :
    unslice F ub = (unsliceInc F ub.reverse).map List.reverse := by
  simp [unslice, h]

theorem unslice_eq (F : Frame) (ub : List Int) (h : nonDecreasing ub = true) :
    unslice F ub = .ok ((((rsOf F ub).map (·.1)).eraseDups.mergeSort (fun a b => decide (a ≤ b))).map fun u =>
      (u, nona (((rsOf F ub).filter (·.1 == u)).flatMap (·.2)))) := by
  rw [unslice_inc F ub h, unsliceInc_eq]

theorem slicesOf_getElem? (F : Frame) (ub : List Int) (i : Nat) (hi : i < ub.length) :
    (slicesOf F ub)[i]? = some (F.rows.filter fun r => inWindow false true (loBound ub i) (.date ub[i]) r.1) := by
  have hl : i < ((Bound.none :: ub.dropLast.map Bound.date).zip ub).length := by
    cases ub with
    | nil => cases hi
    | cons a ub => simp at hi ⊢; omega
  simp only [slicesOf, List.getElem?_map, List.getElem?_eq_getElem hl, Option.map_some, List.getElem_zip]
  congr 2
  funext r
  cases i with
  | zero => simp [loBound]
  | succ k =>
    have hk : k < ub.length := by omega
    simp [loBound, List.getElem_dropLast, List.getD_eq_getElem?_getD, hk]

theorem slicesOf_length (F : Frame) (ub : List Int) : (slicesOf F ub).length = ub.length := by
  cases ub with
  | nil => rfl
  | cons a ub => simp [slicesOf]

theorem mem_rsOf {F : Frame} {ub : List Int} {u : Int} {c : TS} :
    (u, c) ∈ rsOf F ub ↔ ∃ i j, ∃ hi : i < ub.length, j < F.width ∧ ub[i + j]? = some u ∧
      c = column j (F.rows.filter fun r => inWindow false true (loBound ub i) (.date ub[i]) r.1) := by
  simp only [rsOf, List.mem_flatMap, List.mem_map, Prod.mk.injEq, Prod.exists, List.mem_zipIdx_iff_getElem?]
  constructor
  · rintro ⟨ts, i, hts, u', j, huj, rfl, rfl⟩
    have hi : i < ub.length := by
      rw [← slicesOf_length F ub]
      exact (List.getElem?_eq_some_iff.mp hts).1
    rw [slicesOf_getElem? F ub i hi] at hts
    cases hts
    rw [List.getElem?_take] at huj
    split at huj
    · rw [List.getElem?_drop] at huj
      exact ⟨i, j, hi, by assumption, huj, rfl⟩
    · cases huj
  · rintro ⟨i, j, hi, hj, huj, rfl⟩
    refine ⟨_, i, slicesOf_getElem? F ub i hi, u, j, ?_, rfl, rfl⟩
    rw [List.getElem?_take, if_pos hj, List.getElem?_drop]; exact huj

theorem rows_ext {α} {a b : Rows α} (ha : a.Pairwise (fun x y => x.1 < y.1)) (hb : b.Pairwise (fun x y => x.1 < y.1))
    (h : ∀ x, x ∈ a ↔ x ∈ b) : a = b := by
  have na : a.Nodup := ha.imp (by intro x y hxy he; rw [he] at hxy; omega)
  have nb : b.Nodup := hb.imp (by intro x y hxy he; rw [he] at hxy; omega)
  exact List.Perm.eq_of_pairwise (le := fun x y => x.1 < y.1) (by intro x y _ _ h1 h2; omega) ha hb
    ((List.perm_ext_iff_of_nodup na nb).mpr h)

theorem dedupSort_sorted (l : List Int) : ((l.eraseDups).mergeSort (fun a b => decide (a ≤ b))).Pairwise (· < ·) := by
  have nd : ((l.eraseDups).mergeSort (fun a b => decide (a ≤ b))).Nodup :=
    (List.mergeSort_perm _ _).nodup_iff.mpr (Bitemp.nodup_eraseDups _)
  have h1 : ((l.eraseDups).mergeSort (fun a b => decide (a ≤ b))).Pairwise (fun a b => decide (a ≤ b) = true) :=
    List.pairwise_mergeSort (by intro a b c; simp only [decide_eq_true_eq]; omega)
      (by intro a b; simp only [Bool.or_eq_true, decide_eq_true_eq]; omega) _
  exact (h1.and nd).imp (by intro a b ⟨h, h'⟩; simp only [decide_eq_true_eq] at h; omega)

theorem mem_dedupSort {l : List Int} {x : Int} : x ∈ (l.eraseDups).mergeSort (fun a b => decide (a ≤ b)) ↔ x ∈ l := by
  simp [List.mem_mergeSort, List.mem_eraseDups]

theorem getElem_inj_of_sorted {ub : List Int} (h : ub.Pairwise (· < ·)) {a b : Nat} (ha : a < ub.length) (hb : b < ub.length)
    (e : ub[a] = ub[b]) : a = b := by
  rcases Nat.lt_trichotomy a b with hlt | heq | hgt
  · have := (List.pairwise_iff_getElem.mp h) a b ha hb hlt; omega
  · exact heq
  · have := (List.pairwise_iff_getElem.mp h) b a hb ha hgt; omega

theorem framesOf_rows_sorted_cols (dfs : List TS) (n : Nat) (hn : 1 < n) :
    ∀ f ∈ framesOf dfs n, f.rows.Pairwise (fun a b => a.1 < b.1) := by
  intro f hf
  simp only [framesOf, hn, if_true, List.mem_map] at hf
  obtain ⟨i, _, rfl⟩ := hf
  exact concatCols_sorted _

theorem framesOf_getElem_cols (dfs : List TS) (n : Nat) (hn : 1 < n) (i : Nat) (hi : i < (framesOf dfs n).length) :
    (framesOf dfs n)[i] = ⟨((dfs.drop i).take n).length, concatCols ((dfs.drop i).take n)⟩ := by
  simp [framesOf, hn]

/-! ### the one-column round trip -/

theorem entries_none (L : List Nat) (f : Nat → Int × TS) (u : Int) (h : ∀ i ∈ L, (f i).1 ≠ u) :
    ((L.map f).filter (·.1 == u)).flatMap (·.2) = [] := by
  induction L with
  | nil => rfl
  | cons a L ih =>
    have ha : ((f a).1 == u) = false := by simpa using h a (by simp)
    simp only [List.map_cons, List.filter_cons, ha, Bool.false_eq_true, if_false]
    exact ih (fun i hi => h i (by simp [hi]))

/-- among entries with pairwise different keys, the ones filed under key `u` are the single entry carrying it -/
theorem entries_of_map (L : List Nat) (f : Nat → Int × TS) (u : Int) (k : Nat) (hk : k ∈ L) (hnd : L.Nodup)
    (hinj : ∀ i ∈ L, (f i).1 = u ↔ i = k) : ((L.map f).filter (·.1 == u)).flatMap (·.2) = (f k).2 := by
  induction L with
  | nil => cases hk
  | cons a L ih =>
    rw [List.nodup_cons] at hnd
    by_cases hak : a = k
    · subst hak
      have ha : ((f a).1 == u) = true := by simpa using (hinj a (by simp)).mpr rfl
      simp only [List.map_cons, List.filter_cons, ha, if_true, List.flatMap_cons]
      rw [entries_none L f u (by
        intro i hi he
        have := (hinj i (by simp [hi])).mp he
        subst this; exact hnd.1 hi)]
      simp
    · have ha : ((f a).1 == u) = false := by
        have : ¬ (f a).1 = u := fun he => hak ((hinj a (by simp)).mp he)
        simpa using this
      simp only [List.map_cons, List.filter_cons, ha, Bool.false_eq_true, if_false]
      have hk' : k ∈ L := by
        rcases List.mem_cons.mp hk with h | h
        · exact absurd h.symm hak
        · exact h
      exact ih hk' hnd.2 (fun i hi => hinj i (by simp [hi]))

theorem flatMap_singleton_congr {α β} (L : List α) (g : α → List β) (f : α → β) (h : ∀ a ∈ L, g a = [f a]) :
    L.flatMap g = L.map f := by
  induction L with
  | nil => rfl
  | cons a L ih =>
    rw [List.flatMap_cons, h a (by simp), List.map_cons, ih (fun b hb => h b (by simp [hb]))]
    rfl

/-- with one column every slice hands its only column to its own bound -/
theorem rsOf_series (F : Frame) (ub : List Int) (hW : F.width = 1) :
    rsOf F ub = (List.range ub.length).map fun i =>
      (ub.getD i 0, column 0 (F.rows.filter fun r => inWindow false true (loBound ub i) (.date (ub.getD i 0)) r.1)) := by
  have hz : (slicesOf F ub).zipIdx = (List.range ub.length).map fun i =>
      ((F.rows.filter fun r => inWindow false true (loBound ub i) (.date (ub.getD i 0)) r.1), i) := by
    apply List.ext_getElem?
    intro i
    rw [List.getElem?_zipIdx, List.getElem?_map]
    by_cases hi : i < ub.length
    · rw [slicesOf_getElem? F ub i hi, List.getElem?_range hi]
      simp [List.getD_eq_getElem?_getD, hi]
    · have h1 : (slicesOf F ub)[i]? = Option.none := by
        rw [List.getElem?_eq_none_iff, slicesOf_length]; omega
      have h2 : (List.range ub.length)[i]? = Option.none := by
        rw [List.getElem?_eq_none_iff, List.length_range]; omega
      rw [h1, h2]; rfl
  unfold rsOf
  rw [hz, List.flatMap_map, hW]
  apply flatMap_singleton_congr
  intro i hi
  have hi' : i < ub.length := List.mem_range.mp hi
  simp only [List.drop_eq_getElem_cons hi', List.take_succ_cons, List.take_zero, List.zipIdx_cons, List.zipIdx_nil,
    List.map_cons, List.map_nil, List.getD_eq_getElem?_getD, List.getElem?_eq_getElem hi', Option.getD_some]

theorem column_ofTS (s : TS) (w : Int → Bool) (W : Nat) :
    column 0 (((ofTS s).filter fun r => w r.1).map fun r => (r.1, padRow W r.2)) = s.filter fun p => w p.1 := by
  induction s with
  | nil => rfl
  | cons p s ih =>
    simp only [ofTS, List.map_cons, List.filter_cons] at ih ⊢
    split
    · simp only [List.map_cons, column, List.cons.injEq]
      exact ⟨by simp [padRow], ih⟩
    · exact ih

theorem ofTS_filter_filter (s : TS) (w : Int → Bool) :
    (ofTS (s.filter fun p => w p.1)).filter (fun r => w r.1) = (ofTS s).filter fun r => w r.1 := by
  induction s with
  | nil => rfl
  | cons p s ih =>
    simp only [List.filter_cons]
    by_cases hp : w p.1 = true
    · simp only [hp, if_true, ofTS, List.map_cons, List.filter_cons] at ih ⊢
      rw [ih]
    · simp only [Bool.not_eq_true] at hp
      simp only [hp, Bool.false_eq_true, if_false, ofTS, List.map_cons, List.filter_cons] at ih ⊢
      exact ih

theorem nona_of_nanfree (s : TS) (h : ∀ p ∈ s, p.2.isSome = true) : nona s = s := by
  unfold nona; rw [List.filter_eq_self]; exact h

theorem framesOf_getElem_series (dfs : List TS) (n : Nat) (hn : n ≤ 1) (i : Nat) (hi : i < (framesOf dfs n).length)
    (hd : i < dfs.length) : (framesOf dfs n)[i] = ⟨1, ofTS dfs[i]⟩ := by
  have : ¬ n > 1 := by omega
  simp [framesOf, this]

/-! ### the other spellings of the bound lists -/

/-- the pieces for arbitrary (normalised) bound lists -/
def piecesG (dfs : List TS) (lbs ubs : List (Option Int)) (n : Nat) (l u : Bool) : List Frame :=
  ((framesOf dfs n).zip (lbs.zip ubs)).map (cut l u)

theorem stitch_general (dfs : List TS) (lb ub : Option (List Int)) (oc : Option (List Char)) (n : Nat) (l u : Bool)
    (hb : brackets oc = .ok (l, u)) (dfs' : List TS) (lbs ubs : List (Option Int))
    (hnorm : normalise dfs lb ub = .ok (dfs', lbs, ubs)) (h1 : lbs.length = dfs'.length) (h2 : ubs.length = dfs'.length) :
    stitch dfs lb ub oc n = .ok (assemble (piecesG dfs' lbs ubs n l u)) := by
  simp only [stitch, hnorm, bind, Except.bind, pure, Except.pure]
  rw [zipper3_eq _ _ _ (by rw [framesOf_length]; exact h1) (by rw [framesOf_length]; exact h2)]
  simp only [cutAll_eq _ oc l u hb]
  rfl

theorem piecesG_length (dfs : List TS) (lbs ubs : List (Option Int)) (n : Nat) (l u : Bool)
    (h1 : lbs.length = dfs.length) (h2 : ubs.length = dfs.length) : (piecesG dfs lbs ubs n l u).length = dfs.length := by
  simp [piecesG, framesOf_length, h1, h2]

theorem piecesG_getElem (dfs : List TS) (lbs ubs : List (Option Int)) (n : Nat) (l u : Bool)
    (i : Nat) (hi : i < (piecesG dfs lbs ubs n l u).length) (hf : i < (framesOf dfs n).length)
    (hl : i < lbs.length) (hu : i < ubs.length) :
    (piecesG dfs lbs ubs n l u)[i] = ⟨(framesOf dfs n)[i].width,
      (framesOf dfs n)[i].rows.filter fun r => inWindow l u (optDate lbs[i]) (optDate ubs[i]) r.1⟩ := by
  simp only [piecesG, List.getElem_map, List.getElem_zip, cut]

theorem normalise_lb (dfs : List TS) (lb : List Int) (h : nonDecreasing lb = true) :
    normalise dfs (some lb) Option.none = .ok (dfs, lb.map some, (lb.drop 1).map some ++ [Option.none]) := by
  simp [normalise, h, pure, Except.pure]

theorem normalise_both (dfs : List TS) (lb ub : List Int) (h1 : nonDecreasing lb = true) (h2 : nonDecreasing ub = true) :
    normalise dfs (some lb) (some ub) = .ok (dfs, lb.map some, ub.map some) := by
  simp [normalise, h1, h2, pure, Except.pure]

theorem normalise_mixed (dfs : List TS) (lb ub : List Int) (h : nonDecreasing ub ≠ nonDecreasing lb) :
    normalise dfs (some lb) (some ub) = .error .value := by
  simp [normalise, h]

/-- the hypotheses under which the property speaks about stitching: as many series as bounds (at least two),
    bounds in non-decreasing order -/
structure Stitchable (dfs : List TS) (ub : List Int) : Prop where
  len : dfs.length = ub.length
  two : 2 ≤ ub.length
  inc : nonDecreasing ub = true

end Pyg.Slice
