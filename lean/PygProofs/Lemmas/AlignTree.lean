/-
  Helper lemmas for C03: the container recursion acts POSITION BY POSITION (member k of the result is the image
  of member k of the input), and the flattening that feeds the joint index sees every member of a tuple-free
  container.
-/
import PygModel.Align
import PygProofs.Lemmas.AlignLemmas

namespace Pyg.Align
open Pyg Pyg.Fill

/-- two lists related position by position -/
inductive Pairs {α β : Type} (R : α → β → Prop) : List α → List β → Prop
  | nil : Pairs R [] []
  | cons {a b as bs} : R a b → Pairs R as bs → Pairs R (a :: as) (b :: bs)

namespace Pairs
variable {α β γ : Type} {R : α → β → Prop}

theorem append {a1 a2 : List α} {b1 b2 : List β} (h1 : Pairs R a1 b1) (h2 : Pairs R a2 b2) :
    Pairs R (a1 ++ a2) (b1 ++ b2) := by
  induction h1 with
  | nil => exact h2
  | cons h _ ih => exact .cons h ih

theorem length_eq {a : List α} {b : List β} (h : Pairs R a b) : b.length = a.length := by
  induction h with
  | nil => rfl
  | cons _ _ ih => simp [ih]

theorem get {a : List α} {b : List β} (h : Pairs R a b) (k : Nat) (x : α) (hk : a[k]? = some x) :
    ∃ y, b[k]? = some y ∧ R x y := by
  induction h generalizing k with
  | nil => simp at hk
  | cons h0 _ ih =>
    cases k with
    | zero => simp at hk; subst hk; exact ⟨_, by simp, h0⟩
    | succ k => simpa using ih k (by simpa using hk)

theorem diag {R : α → α → Prop} (a : List α) (h : ∀ x ∈ a, R x x) : Pairs R a a := by
  induction a with
  | nil => exact .nil
  | cons x xs ih => exact .cons (h x (by simp)) (ih fun y hy => h y (by simp [hy]))

theorem comp {S : β → γ → Prop} {a : List α} {b : List β} {c : List γ} (h1 : Pairs R a b) (h2 : Pairs S b c) :
    Pairs (fun x z => ∃ y, R x y ∧ S y z) a c := by
  induction h1 generalizing c with
  | nil => cases h2; exact .nil
  | cons h _ ih => cases h2 with | cons g gs => exact .cons ⟨_, h, g⟩ (ih gs)

theorem mono {R' : α → β → Prop} {a : List α} {b : List β} (h : Pairs R a b) (hr : ∀ x y, R x y → R' x y) :
    Pairs R' a b := by
  induction h with
  | nil => exact .nil
  | cons h _ ih => exact .cons (hr _ _ h) ih

end Pairs

mutual
  /-- member `k` of the result is the image of member `k` of the input -/
  theorem pairs_mapM (g : Leaf → Res Leaf) :
      ∀ (t t' : Tree), t.mapM g = .ok t' → Pairs (fun l l' => g l = .ok l') t.leaves t'.leaves
    | .leaf l, t', h => by
      simp only [Tree.mapM] at h
      cases hl : g l with
      | error e => rw [hl] at h; cases h
      | ok l1 => rw [hl] at h; cases h; exact .cons hl .nil
    | .node tag kids, t', h => by
      simp only [Tree.mapM] at h
      cases hk : mapKidsM g kids with
      | error e => rw [hk] at h; cases h
      | ok ks' => rw [hk] at h; cases h; exact pairs_mapKidsM g kids ks' hk
  theorem pairs_mapKidsM (g : Leaf → Res Leaf) :
      ∀ (ks ks' : List (String × Tree)), mapKidsM g ks = .ok ks' →
        Pairs (fun l l' => g l = .ok l') (leavesKids ks) (leavesKids ks')
    | [], ks', h => by simp [mapKidsM] at h; cases h; exact .nil
    | (k, t) :: r, ks', h => by
      simp only [mapKidsM] at h
      cases ht : t.mapM g with
      | error e => rw [ht] at h; cases h
      | ok t' =>
        rw [ht] at h
        cases hr : mapKidsM g r with
        | error e => rw [hr] at h; cases h
        | ok r' =>
          rw [hr] at h; cases h
          exact (pairs_mapM g t t' ht).append (pairs_mapKidsM g r r' hr)
end

theorem reindexLeaf_none (m : Option Dir) (l : Leaf) : reindexLeaf .none m l = .ok l := by
  cases l <;> rfl

/-- `reindexTree` acts position by position, whatever the joint index is -/
theorem pairs_reindexTree (ix : Index) (m : Option Dir) (t t' : Tree) (h : reindexTree ix m t = .ok t') :
    Pairs (fun l l' => reindexLeaf ix m l = .ok l') t.leaves t'.leaves := by
  cases ix with
  | none =>
    simp [reindexTree] at h; subst h
    exact Pairs.diag _ fun l _ => reindexLeaf_none m l
  | times idx => exact pairs_mapM _ _ _ h
  | len n => exact pairs_mapM _ _ _ h

/-- the column pass of `df_sync` on one member (`columns=None`: nothing) -/
def colPass (ch : Option How) (hdrs : List (List String)) (l : Leaf) : Res Leaf :=
  match ch with
  | Option.none => .ok l
  | some c => recolumnLeaf (joinCols c hdrs) l

/-! ### tuple-free containers: the joint index sees every member -/

mutual
  /-- no tuple anywhere in the container (the statement speaks of nested lists / dicts) -/
  def Tree.tupleFree : Tree → Bool
    | .leaf _ => true
    | .node .tuple _ => false
    | .node _ kids => kidsTupleFree kids
  def kidsTupleFree : List (String × Tree) → Bool
    | [] => true
    | (_, t) :: r => t.tupleFree && kidsTupleFree r
end

mutual
  theorem flat_eq_leaves : ∀ (t : Tree), t.tupleFree = true → t.flat = t.leaves
    | .leaf l, _ => rfl
    | .node .tuple kids, h => by simp [Tree.tupleFree] at h
    | .node .list kids, h => by
      simp only [Tree.tupleFree] at h
      simp only [Tree.flat, Tree.leaves]; exact flatKids_eq_leaves kids h
    | .node .dict kids, h => by
      simp only [Tree.tupleFree] at h
      simp only [Tree.flat, Tree.leaves]; exact flatKids_eq_leaves kids h
  theorem flatKids_eq_leaves : ∀ (ks : List (String × Tree)), kidsTupleFree ks = true → flatKids ks = leavesKids ks
    | [], _ => rfl
    | (k, t) :: r, h => by
      simp only [kidsTupleFree, Bool.and_eq_true] at h
      simp only [flatKids, leavesKids, flat_eq_leaves t h.1, flatKids_eq_leaves r h.2]
end

/-! ### column sets -/

theorem mem_interS (a b : List String) (c : String) : c ∈ interS a b ↔ c ∈ a ∧ c ∈ b := by
  simp [interS, List.mem_filter]

theorem mem_unionS (a b : List String) (c : String) : c ∈ unionS a b ↔ c ∈ a ∨ c ∈ b := by
  simp only [unionS, List.mem_append, List.mem_filter]
  constructor
  · rintro (h | ⟨h, _⟩) <;> simp [h]
  · rintro (h | h)
    · exact Or.inl h
    · by_cases ha : c ∈ a
      · exact Or.inl ha
      · exact Or.inr ⟨h, by simpa using ha⟩

theorem mem_foldl_interS (c0 : List String) (cs : List (List String)) (c : String) :
    c ∈ cs.foldl interS c0 ↔ c ∈ c0 ∧ ∀ h ∈ cs, c ∈ h := by
  induction cs generalizing c0 with
  | nil => simp
  | cons x xs ih =>
    simp only [List.foldl_cons]
    rw [ih, mem_interS]
    simp only [List.mem_cons, forall_eq_or_imp]
    exact and_assoc

theorem mem_foldl_unionS (c0 : List String) (cs : List (List String)) (c : String) :
    c ∈ cs.foldl unionS c0 ↔ c ∈ c0 ∨ ∃ h ∈ cs, c ∈ h := by
  induction cs generalizing c0 with
  | nil => simp
  | cons x xs ih =>
    simp only [List.foldl_cons]
    rw [ih, mem_unionS]
    simp only [List.mem_cons, exists_eq_or_imp]
    exact or_assoc

theorem nodup_interS (a b : List String) (h : a.Nodup) : (interS a b).Nodup :=
  List.Pairwise.sublist List.filter_sublist h

theorem nodup_unionS (a b : List String) (ha : a.Nodup) (hb : b.Nodup) : (unionS a b).Nodup := by
  unfold unionS
  rw [List.nodup_append]
  refine ⟨ha, List.Pairwise.sublist List.filter_sublist hb, ?_⟩
  intro x hx y hy e
  subst e
  simp [List.mem_filter] at hy
  exact hy.2 hx

end Pyg.Align
