/-
  Helper lemmas for C20: `_item` (column selection of one input), `d[cols]`, `rename`, and the last
  two steps of `join` (scalars broadcast, final sort) as a reordering of rows.
-/
import PygProofs.Lemmas.PerDictTables
import PygProofs.Props.C07

namespace Pyg

/-! ### `d[cols]` and `rename` -/

theorem select_sem (t t' : Table) (cs : List String) (h : t.select cs = .ok t') :
    t' = cs.map (fun k => (k, (t.col? k).getD [])) ∧ ∀ k ∈ cs, k ∈ t.cols := by
  induction cs generalizing t' with
  | nil =>
    simp only [Table.select, List.mapM_nil, pure, Except.pure, Except.ok.injEq] at h
    exact ⟨h.symm, fun _ hk => by cases hk⟩
  | cons c cs ih =>
    simp only [Table.select, List.mapM_cons, bind, Except.bind] at h
    cases hc : t.col? c with
    | none => simp [hc] at h
    | some xs =>
      simp only [hc] at h
      split at h
      · cases h
      · rename_i rest hr
        simp only [pure, Except.pure, Except.ok.injEq] at h
        obtain ⟨h1, h2⟩ := ih rest hr
        subst h
        refine ⟨by simp [hc, h1], ?_⟩
        intro k hk
        rcases List.mem_cons.1 hk with rfl | hk
        · exact mem_cols_of_col? hc
        · exact h2 k hk

theorem select_cols (t t' : Table) (cs : List String) (h : t.select cs = .ok t') : t'.cols = cs := by
  rw [(select_sem t t' cs h).1]
  simp [Table.cols, List.map_map, Function.comp_def]

theorem select_cell (t t' : Table) (cs : List String) (h : t.select cs = .ok t') (k : String)
    (hk : k ∈ cs) (i : Nat) : t'.jcellAt k i = t.jcellAt k i := by
  rw [(select_sem t t' cs h).1]
  simp only [Table.jcellAt, Table.col?_map_keys cs (fun k => (t.col? k).getD []) k hk,
    Option.getD_some]

theorem select_wf (t t' : Table) (cs : List String) (ht : t.Rect t.nrows) (hcs : cs ≠ [])
    (h : t.select cs = .ok t') : t'.WF ∧ t'.nrows = t.nrows := by
  obtain ⟨h1, h2⟩ := select_sem t t' cs h
  have hr : t'.Rect t.nrows := by
    rw [h1]
    intro c hc
    obtain ⟨k, hk, rfl⟩ := List.mem_map.1 hc
    have hkc := h2 k hk
    cases hcol : t.col? k with
    | none =>
      have := col?_isSome_of_mem hkc
      simp [hcol] at this
    | some xs => simpa using Table.col?_length ht hcol
  have hne : t' ≠ [] := by
    rw [h1]; cases cs with
    | nil => exact absurd rfl hcs
    | cons c cs => simp
  have hn := Table.nrows_of_rect hr hne
  exact ⟨⟨hne, hn ▸ hr⟩, hn⟩

theorem rename_cols (t : Table) (old new : String) :
    (t.rename old new).cols = t.cols.map fun c => if c == old then new else c := by
  simp only [Table.rename, Table.cols, List.map_map]
  apply List.map_congr_left
  intro c _
  simp only [Function.comp_def]
  split <;> simp_all

theorem rename_col?_new (t : Table) (old new : String) (hnew : new ∉ t.cols) :
    (t.rename old new).col? new = t.col? old := by
  induction t with
  | nil => rfl
  | cons x xs ih =>
    have hx : x.1 ≠ new := fun h => hnew (by simp [Table.cols, h])
    have hxs : new ∉ Table.cols xs := fun h => hnew (by simp [Table.cols] at h ⊢; exact .inr h)
    have ih' := ih hxs
    simp only [Table.col?, Table.rename, List.map_cons, List.find?_cons] at ih' ⊢
    by_cases ho : x.1 = old
    · simp [ho]
    · have h1 : (x.1 == old) = false := by simpa using ho
      have h2 : (x.1 == new) = false := by simpa using hx
      simp only [h1, Bool.false_eq_true, if_false, h2]
      exact ih'

theorem rename_col?_other (t : Table) (old new c : String) (h1 : c ≠ old) (h2 : c ≠ new) :
    (t.rename old new).col? c = t.col? c := by
  induction t with
  | nil => rfl
  | cons x xs ih =>
    simp only [Table.col?, Table.rename, List.map_cons, List.find?_cons] at ih ⊢
    by_cases ho : x.1 = old
    · have e1 : (new == c) = false := by simpa using fun h => h2 h.symm
      have e2 : (old == c) = false := by simpa using fun h => h1 h.symm
      simp only [ho, beq_self_eq_true, if_true, e1, e2]
      exact ih
    · have e : (x.1 == old) = false := by simpa using ho
      simp only [e, Bool.false_eq_true, if_false]
      split
      · rfl
      · exact ih

theorem rename_rect (t : Table) (old new : String) (n : Nat) (h : t.Rect n) :
    (t.rename old new).Rect n := by
  intro c hc
  obtain ⟨x, hx, rfl⟩ := List.mem_map.1 hc
  split
  · exact h x hx
  · exact h x hx

theorem rename_nrows (t : Table) (old new : String) : (t.rename old new).nrows = t.nrows := by
  cases t with
  | nil => rfl
  | cons x xs =>
    simp only [Table.rename, List.map_cons, Table.nrows]
    split <;> rfl

/-! ### `_item` -/

/-- **`_item(d, key, on)`** for an input that has all the key columns and a parameter name that is not
a key column: the result has exactly the key columns and the column `key`, with the rows of `d`; the
column `key` is `d`'s column `vc`, where `vc` is `key` itself if `d` has such a column, else `data`,
else the only non-key column of `d`. -/
theorem item_sem (d t : Table) (key : String) (on : List String) (hd : d.WF)
    (hdn : d.cols.Nodup) (hon : ∀ c ∈ on, c ∈ d.cols) (hkey : key ∉ on)
    (h : item d key on = .ok t) :
    KeyedSrc on t key ∧ t.nrows = d.nrows ∧
    (∀ c ∈ on, ∀ i, t.jcellAt c i = d.jcellAt c i) ∧
    ∃ vc, vc ∈ d.cols ∧ vc ∉ on ∧ (∀ i, t.jcellAt key i = d.jcellAt vc i) ∧
      (vc = key ∨ (key ∉ d.cols ∧ vc = "data") ∨
        (key ∉ d.cols ∧ ¬ ("data" ∈ d.cols ∧ "data" ∉ on) ∧ ∀ c ∈ d.cols, c ∈ on ∨ c = vc)) := by
  have hmem : ∀ c, c ∈ linter d.cols on ↔ c ∈ on := by
    intro c; rw [mem_linter]; exact ⟨fun h => h.2, fun h => ⟨hon c h, h⟩⟩
  have hne : linter d.cols on ++ [key] ≠ [] := by simp
  -- what any of the three selections gives
  have fin : ∀ (d' : Table), d'.Rect d.nrows → d'.nrows = d.nrows →
      d'.select (linter d.cols on ++ [key]) = .ok t →
      KeyedSrc on t key ∧ t.nrows = d.nrows ∧
      (∀ c ∈ linter d.cols on ++ [key], ∀ i, t.jcellAt c i = d'.jcellAt c i) := by
    intro d' hr hn hs
    obtain ⟨hw, hn'⟩ := select_wf d' t _ (hn ▸ hr) hne hs
    have hc := select_cols d' t _ hs
    have hond : OnNodup on t := by
      simp only [OnNodup, hc, List.filter_append]
      have e1 : (linter d.cols on).filter (fun c => on.contains c) = linter d.cols on := by
        apply List.filter_eq_self.2
        intro c hc
        simpa using (mem_linter.1 hc).2
      have e2 : [key].filter (fun c => on.contains c) = [] := by simp [hkey]
      rw [e1, e2, List.append_nil]
      exact hdn.sublist List.filter_sublist
    refine ⟨⟨hw, ?_, ?_, hkey, ?_, hond⟩, hn'.trans hn, fun c hc' i => select_cell d' t _ hs c hc' i⟩
    · intro c hc'; rw [hc]; exact List.mem_append.2 (.inl ((hmem c).2 hc'))
    · rw [hc]; simp
    · intro c hc'
      rw [hc] at hc'
      rcases List.mem_append.1 hc' with h1 | h1
      · exact .inl ((hmem c).1 h1)
      · exact .inr (List.mem_singleton.1 h1)
  simp only [item] at h
  split at h
  · -- the column named like the parameter
    rename_i hk
    have hk' : key ∈ d.cols := by simpa using hk
    obtain ⟨f1, f2, f3⟩ := fin d hd.2 rfl h
    refine ⟨f1, f2, fun c hc i => f3 c (List.mem_append.2 (.inl ((hmem c).2 hc))) i,
      key, hk', hkey, fun i => f3 key (by simp) i, .inl rfl⟩
  · rename_i hk
    have hk' : key ∉ d.cols := by simpa using hk
    split at h
    · -- the column `data`
      rename_i hdat
      simp only [Bool.and_eq_true, Bool.not_eq_true', List.contains_eq_mem, decide_eq_true_eq,
        decide_eq_false_iff_not] at hdat
      have hdon : "data" ∉ on := fun h' => hdat.2 ((hmem _).2 h')
      obtain ⟨f1, f2, f3⟩ := fin (d.rename "data" key) (rename_rect _ _ _ _ hd.2)
        (rename_nrows _ _ _) h
      refine ⟨f1, f2, ?_, "data", hdat.1, hdon, ?_, .inr (.inl ⟨hk', rfl⟩)⟩
      · intro c hc i
        rw [f3 c (List.mem_append.2 (.inl ((hmem c).2 hc))) i]
        simp only [Table.jcellAt]
        rw [rename_col?_other _ _ _ _ (fun h' => hdon (by subst h'; exact hc)) (fun h' => hkey (by subst h'; exact hc))]
      · intro i
        rw [f3 key (by simp) i]
        simp only [Table.jcellAt]
        rw [rename_col?_new _ _ _ hk']
    · rename_i hdat
      split at h
      · rename_i hlen
        split at h
        · -- the only other column
          rename_i other hother
          have hom : other ∈ lminus d.cols (linter d.cols on) := by rw [hother]; simp
          have ho1 : other ∈ d.cols := (mem_lminus.1 hom).1
          have ho2 : other ∉ on := fun h' => (mem_lminus.1 hom).2 ((hmem _).2 h')
          obtain ⟨f1, f2, f3⟩ := fin (d.rename other key) (rename_rect _ _ _ _ hd.2)
            (rename_nrows _ _ _) h
          refine ⟨f1, f2, ?_, other, ho1, ho2, ?_, .inr (.inr ⟨hk', ?_, ?_⟩)⟩
          · intro c hc i
            rw [f3 c (List.mem_append.2 (.inl ((hmem c).2 hc))) i]
            simp only [Table.jcellAt]
            rw [rename_col?_other _ _ _ _ (fun h' => ho2 (by subst h'; exact hc)) (fun h' => hkey (by subst h'; exact hc))]
          · intro i
            rw [f3 key (by simp) i]
            simp only [Table.jcellAt]
            rw [rename_col?_new _ _ _ hk']
          · intro hh
            apply hdat
            simp only [Bool.and_eq_true, Bool.not_eq_true', List.contains_eq_mem,
              decide_eq_true_eq, decide_eq_false_iff_not]
            exact ⟨hh.1, fun h' => hh.2 ((hmem _).1 h')⟩
          · intro c hc
            by_cases hco : c ∈ on
            · exact .inl hco
            · have : c ∈ lminus d.cols (linter d.cols on) :=
                mem_lminus.2 ⟨hc, fun h' => hco ((hmem c).1 h')⟩
              rw [hother] at this
              exact .inr (List.mem_singleton.1 this)
        · cases h
      · cases h

/-! ### scalars broadcast and the final sort: a reordering of rows -/

/-- `D'` holds the rows of `D` in another order, each with the constants `kvs` filled in -/
def Reorder (kvs : List (String × Cell)) (D D' : Rows) : Prop :=
  ∃ σ : List Nat, σ.Perm (List.range D.n) ∧ D'.n = σ.length ∧
    ∀ q (h : q < σ.length), D'.row q = (D.row σ[q]).sets kvs

theorem Reorder.hasK {on : List String} {kvs : List (String × Cell)} {D D' : Rows}
    (h : Reorder kvs D D') (hoff : OffKeys on kvs) (k : Row) : D'.hasK on k ↔ D.hasK on k := by
  obtain ⟨σ, hp, hn, hr⟩ := h
  constructor
  · rintro ⟨q, hq, he⟩
    have hq' : q < σ.length := hn ▸ hq
    have hm : σ[q] ∈ List.range D.n := hp.mem_iff.1 (List.getElem_mem hq')
    refine ⟨σ[q], List.mem_range.1 hm, ?_⟩
    rw [hr q hq'] at he
    exact keq_trans (keq_symm (keq_sets _ _ hoff)) he
  · rintro ⟨i, hi, he⟩
    have hm : i ∈ σ := hp.mem_iff.2 (List.mem_range.2 hi)
    obtain ⟨q, hq, rfl⟩ := List.getElem_of_mem hm
    refine ⟨q, hn ▸ hq, ?_⟩
    rw [hr q hq]
    exact keq_trans (keq_sets _ _ hoff) he

theorem Reorder.vok {on : List String} {kvs : List (String × Cell)} {D D' : Rows} {S : List Src}
    (h : Reorder kvs D D') (hoff : OffKeys on kvs) (hS : ∀ s ∈ S, ∀ kv ∈ kvs, kv.1 ≠ s.name)
    (hV : VOK on D S) : VOK on D' S := by
  obtain ⟨σ, hp, hn, hr⟩ := h
  intro q hq s hs
  have hq' : q < σ.length := hn ▸ hq
  have hm : σ[q] ∈ List.range D.n := hp.mem_iff.1 (List.getElem_mem hq')
  rw [hr q hq']
  exact vrow_congr (keq_sets _ _ hoff) (Row.sets_of_not_mem _ _ _ (hS s hs))
    (hV σ[q] (List.mem_range.1 hm) s hs)

theorem Reorder.uniq {on : List String} {kvs : List (String × Cell)} {D D' : Rows}
    (h : Reorder kvs D D') (hoff : OffKeys on kvs) (hU : D.uniq on) : D'.uniq on := by
  obtain ⟨σ, hp, hn, hr⟩ := h
  intro p q hp' hq' he
  have h1 : p < σ.length := hn ▸ hp'
  have h2 : q < σ.length := hn ▸ hq'
  rw [hr p h1, hr q h2] at he
  have he' : keq on (D.row σ[p]) (D.row σ[q]) :=
    keq_trans (keq_symm (keq_sets _ _ hoff)) (keq_trans he (keq_sets _ _ hoff))
  have hm1 := List.mem_range.1 (hp.mem_iff.1 (List.getElem_mem h1))
  have hm2 := List.mem_range.1 (hp.mem_iff.1 (List.getElem_mem h2))
  have := hU _ _ hm1 hm2 he'
  have hnd : σ.Nodup := hp.nodup_iff.2 List.nodup_range
  exact (List.getElem_inj hnd).1 this

/-- every row of the reordered table carries the constants -/
theorem Reorder.consts {kvs : List (String × Cell)} {D D' : Rows} (h : Reorder kvs D D')
    (q : Nat) (hq : q < D'.n) (c : String) (v : Cell) (hv : dfltOf kvs c = some v) :
    D'.row q c = v := by
  obtain ⟨σ, _, hn, hr⟩ := h
  rw [hr q (hn ▸ hq)]
  exact Row.sets_dfltOf _ _ _ _ hv

/-- the key `dictable.sort` compares row `i` by: the dict of its `on` cells -/
def sortKey (t : Table) (on : List String) (i : Nat) : Val :=
  .tuple [.dict (on.map fun c => (c, .cell (t.jcellAt c i)))]

/-- **scalars broadcast, then the final sort**: the result holds the rows of the joined table with
the scalars filled in, reordered so that the sort keys are non-decreasing -/
theorem finish_sem (on : List String) (d ds : Table) (scalars : List (String × Cell))
    (hd : d.WF) (h : (d.setConsts scalars).sortOn on = .ok ds) :
    ds.WF ∧ (∀ c, c ∈ ds.cols ↔ c ∈ d.cols ∨ ∃ kv ∈ scalars, kv.1 = c) ∧
    Reorder scalars d.R ds.R ∧
    ((List.range ds.nrows).map (sortKey ds on)).Pairwise (fun a b => cmpLe a b = true) := by
  obtain ⟨ew, en, ec, er⟩ := setConsts_sem scalars d hd
  generalize d.setConsts scalars = E at h ew en ec er
  simp only [Table.sortOn] at h
  split at h
  · rename_i h0
    simp only [Except.ok.injEq] at h
    subst h
    refine ⟨ew, ec, ⟨List.range d.nrows, List.Perm.refl _, by simp [en], ?_⟩, ?_⟩
    · intro q hq
      simp only [List.length_range] at hq
      simp only [List.getElem_range]
      exact er q hq
    · rw [h0]; simp
  · rename_i h0
    split at h
    · cases h
    · simp only [bind, Except.bind] at h
      cases hs : E.select on with
      | error e => simp [hs] at h
      | ok sel =>
        simp only [hs, pure, Except.pure, Except.ok.injEq] at h
        have hsel := (select_sem E sel on hs).1
        -- the keys, in closed form
        have hkeys : ((List.range E.nrows).map fun i =>
            Val.tuple [.dict (sel.map fun c => (c.1, .cell (c.2.getD i .none)))]) =
            (List.range E.nrows).map (sortKey E on) := by
          apply List.map_congr_left
          intro i _
          simp only [sortKey, hsel, List.map_map, Function.comp_def, Table.jcellAt]
        rw [hkeys] at h
        generalize hK : (List.range E.nrows).map (sortKey E on) = keys at h
        have hkl : keys.length = E.nrows := by rw [← hK]; simp
        have hkat : ∀ i, i < E.nrows → keyAt keys i = sortKey E on i := by
          intro i hi
          rw [← hK]
          simp [keyAt, List.getD_eq_getElem?_getD, hi]
        have hperm : (sortIdx keys).Perm (List.range E.nrows) := by
          rw [← hkl]; exact Props.C07.sortIdx_perm keys
        have hlen : (sortIdx keys).length = E.nrows := by
          simpa using hperm.length_eq
        obtain ⟨gw, gn⟩ := gatherRows_wf E ew.1 (sortIdx keys)
        subst h
        have hrow : ∀ q (hq : q < (sortIdx keys).length),
            (E.gatherRows (sortIdx keys)).rowF q = E.rowF (sortIdx keys)[q] :=
          fun q hq => gatherRows_rowF E _ q hq
        refine ⟨gw, ?_, ⟨sortIdx keys, ?_, gn, ?_⟩, ?_⟩
        · intro c; rw [Table.cols_gatherRows]; exact ec c
        · rw [en] at hperm; exact hperm
        · intro q hq
          show (E.gatherRows (sortIdx keys)).rowF q = _
          rw [hrow q hq]
          have hm := List.mem_range.1 (hperm.mem_iff.1 (List.getElem_mem hq))
          exact er _ (en ▸ hm)
        · rw [gn]
          have hsorted := Props.C07.sort_sorted keys
          rw [← sortIdx_gather keys] at hsorted
          have e : (List.range (sortIdx keys).length).map
              (sortKey (E.gatherRows (sortIdx keys)) on) = (sortIdx keys).map (keyAt keys) := by
            apply List.ext_getElem
            · simp
            · intro q h1 h2
              have hq : q < (sortIdx keys).length := by simpa using h1
              simp only [List.getElem_map, List.getElem_range]
              have hm := List.mem_range.1 (hperm.mem_iff.1 (List.getElem_mem hq))
              rw [hkat _ hm]
              simp only [sortKey]
              congr 3
              apply List.map_congr_left
              intro c _
              have := congrFun (hrow q hq) c
              simp only [Table.rowF] at this
              rw [this]
          rw [e]
          exact hsorted

end Pyg
