/-
  Helper lemmas for C03: the per-column as-of join of the model (`obs` + `posAsOf` / `posNext`) against an
  independent reference (`lastObs` / `firstObs`: a scan over (label, cell) with no NaN removal and no positions),
  and the positional characterisation of that reference.
-/
import PygModel.Align
import PygProofs.Lemmas.AlignLemmas

namespace Pyg.Align
open Pyg Pyg.Fill

/-- reference for `ffill`: the cell at the RIGHT-MOST position whose label is `≤ t` and whose cell is not NaN -/
def lastObs : List Int → Col → Int → Option Int
  | x :: xs, v :: vs, t =>
    match lastObs xs vs t with
    | some w => some w
    | Option.none => if x ≤ t then v else Option.none
  | _, _, _ => Option.none

/-- reference for `bfill`: the cell at the LEFT-MOST position whose label is `≥ t` and whose cell is not NaN -/
def firstObs : List Int → Col → Int → Option Int
  | x :: xs, v :: vs, t => if t ≤ x ∧ v.isSome = true then v else firstObs xs vs t
  | _, _, _ => Option.none

/-- what the model computes for one label from a list of observations -/
def asofAt (d : Dir) (o : List (Int × Int)) (t : Int) : Option Int :=
  (asofPos d (o.map Prod.fst) t).bind fun (i : Nat) => (o[i]?).map Prod.snd

theorem asofCol_eq (d : Dir) (ix : List Int) (c : Col) (idx : List Int) :
    asofCol d ix c idx = idx.map (asofAt d (obs ix c)) := rfl

theorem posAsOf_lt (l : List Int) (t : Int) (p : Nat) (h : posAsOf l t = some p) : p < l.length := by
  induction l generalizing p with
  | nil => simp [posAsOf] at h
  | cons x xs ih =>
    simp only [posAsOf] at h
    split at h
    · cases hp : posAsOf xs t with
      | none => rw [hp] at h; simp at h; subst h; simp
      | some q => rw [hp] at h; simp at h; subst h; have := ih q hp; simp; omega
    · cases h

theorem asofAt_ffill_cons (x v : Int) (o : List (Int × Int)) (t : Int) :
    asofAt .ffill ((x, v) :: o) t =
      if x ≤ t then (match asofAt .ffill o t with | some w => some w | Option.none => some v) else Option.none := by
  unfold asofAt asofPos
  simp only [List.map_cons, posAsOf]
  split
  · cases hp : posAsOf (o.map Prod.fst) t with
    | none => simp
    | some p =>
      have hlt := posAsOf_lt _ _ _ hp
      simp only [List.length_map] at hlt
      simp [List.getElem?_eq_getElem hlt]
  · simp

theorem asofAt_bfill_cons (x v : Int) (o : List (Int × Int)) (t : Int) :
    asofAt .bfill ((x, v) :: o) t = if t ≤ x then some v else asofAt .bfill o t := by
  unfold asofAt asofPos
  simp only [List.map_cons, posNext]
  split
  · simp
  · cases hp : posNext (o.map Prod.fst) t <;> simp

theorem lastObs_none_of_gt (xs : List Int) (vs : Col) (t : Int) (h : ∀ s ∈ xs, t < s) : lastObs xs vs t = Option.none := by
  induction xs generalizing vs with
  | nil => cases vs <;> rfl
  | cons x xs ih =>
    cases vs with
    | nil => rfl
    | cons v vs =>
      have hx : ¬ x ≤ t := by have := h x (by simp); omega
      simp only [lastObs, ih vs (fun s hs => h s (by simp [hs])), hx, if_false]

/-- on a strictly increasing index the model's forward as-of value is the reference -/
theorem asofAt_ffill (ix : List Int) (c : Col) (t : Int) (hs : SortedL ix) :
    asofAt .ffill (obs ix c) t = lastObs ix c t := by
  induction ix generalizing c with
  | nil => cases c <;> rfl
  | cons x xs ih =>
    have hx := List.pairwise_cons.mp hs
    cases c with
    | nil => rfl
    | cons v vs =>
      cases v with
      | none =>
        simp only [obs, lastObs]
        rw [ih vs hx.2]
        cases lastObs xs vs t <;> simp
      | some v =>
        simp only [obs, lastObs]
        rw [asofAt_ffill_cons, ih vs hx.2]
        by_cases hxt : x ≤ t
        · simp only [hxt, if_true]
        · simp only [hxt, if_false]
          rw [lastObs_none_of_gt xs vs t (fun s hs' => by have := hx.1 s hs'; omega)]

/-- the model's backward as-of value is the reference (no sortedness needed) -/
theorem asofAt_bfill (ix : List Int) (c : Col) (t : Int) : asofAt .bfill (obs ix c) t = firstObs ix c t := by
  induction ix generalizing c with
  | nil => cases c <;> rfl
  | cons x xs ih =>
    cases c with
    | nil => rfl
    | cons v vs =>
      cases v with
      | none => simp only [obs, firstObs]; rw [ih vs]; simp
      | some v =>
        simp only [obs, firstObs]
        rw [asofAt_bfill_cons, ih vs]
        simp

/-! ### what the references mean, by positions -/

theorem lastObs_iff (ix : List Int) (c : Col) (t : Int) (v : Int) :
    lastObs ix c t = some v ↔
      ∃ (i : Nat) (s : Int), ix[i]? = some s ∧ s ≤ t ∧ c[i]? = some (some v) ∧
        ∀ (j : Nat) (s' w : Int), i < j → ix[j]? = some s' → s' ≤ t → c[j]? ≠ some (some w) := by
  induction ix generalizing c v with
  | nil => cases c <;> simp [lastObs]
  | cons x xs ih =>
    cases c with
    | nil => simp [lastObs]
    | cons u us =>
      simp only [lastObs]
      constructor
      · intro h
        cases hl : lastObs xs us t with
        | some w =>
          rw [hl] at h; simp at h; subst h
          obtain ⟨i, s, h1, h2, h3, h4⟩ := (ih us _).mp hl
          refine ⟨i + 1, s, by simpa using h1, h2, by simpa using h3, ?_⟩
          intro j s' w' hj hjs hle
          cases j with
          | zero => omega
          | succ j => simpa using h4 j s' w' (by omega) (by simpa using hjs) hle
        | none =>
          rw [hl] at h; simp at h
          refine ⟨0, x, by simp, h.1, by simp [h.2], ?_⟩
          intro j s' w' hj hjs hle
          cases j with
          | zero => omega
          | succ j =>
            intro hc
            have : lastObs xs us t ≠ Option.none := by
              -- some later position qualifies, so the scan of the tail finds something
              have hex : ∃ v', lastObs xs us t = some v' := by
                clear ih hl h
                induction xs generalizing us j with
                | nil => simp at hjs
                | cons y ys ih2 =>
                  cases us with
                  | nil => simp at hc
                  | cons z zs =>
                    simp only [lastObs]
                    cases hz : lastObs ys zs t with
                    | some q => exact ⟨q, rfl⟩
                    | none =>
                      cases j with
                      | zero =>
                        simp at hjs hc; subst hjs; subst hc
                        exact ⟨w', by simp [hle]⟩
                      | succ j =>
                        obtain ⟨q, hq⟩ := ih2 zs j (by omega) (by simpa using hjs) (by simpa using hc)
                        rw [hq] at hz; cases hz
              obtain ⟨v', hv'⟩ := hex
              rw [hv']; simp
            exact this hl
      · rintro ⟨i, s, h1, h2, h3, h4⟩
        cases i with
        | zero =>
          simp at h1 h3; subst h1; subst h3
          cases hl : lastObs xs us t with
          | none => simp [h2]
          | some w =>
            obtain ⟨i', s', g1, g2, g3, _⟩ := (ih us _).mp hl
            exact (h4 (i' + 1) s' w (by omega) (by simpa using g1) g2 (by simpa using g3)).elim
        | succ i =>
          have : lastObs xs us t = some v := by
            refine (ih us _).mpr ⟨i, s, by simpa using h1, h2, by simpa using h3, ?_⟩
            intro j s' w hj hjs hle
            simpa using h4 (j + 1) s' w (by omega) (by simpa using hjs) hle
          rw [this]

theorem firstObs_iff (ix : List Int) (c : Col) (t : Int) (v : Int) :
    firstObs ix c t = some v ↔
      ∃ (i : Nat) (s : Int), ix[i]? = some s ∧ t ≤ s ∧ c[i]? = some (some v) ∧
        ∀ (j : Nat) (s' w : Int), j < i → ix[j]? = some s' → t ≤ s' → c[j]? ≠ some (some w) := by
  induction ix generalizing c v with
  | nil => cases c <;> simp [firstObs]
  | cons x xs ih =>
    cases c with
    | nil => simp [firstObs]
    | cons u us =>
      simp only [firstObs]
      split
      · rename_i hq
        constructor
        · intro h; subst h
          exact ⟨0, x, by simp, hq.1, by simp, fun j _ _ hj => by omega⟩
        · rintro ⟨i, s, h1, h2, h3, h4⟩
          cases i with
          | zero => simp at h3; exact h3
          | succ i =>
            obtain ⟨w, hw⟩ := Option.isSome_iff_exists.mp hq.2
            exact (h4 0 x w (by omega) (by simp) hq.1 (by simp [hw])).elim
      · rename_i hq
        rw [ih us]
        constructor
        · rintro ⟨i, s, h1, h2, h3, h4⟩
          refine ⟨i + 1, s, by simpa using h1, h2, by simpa using h3, ?_⟩
          intro j s' w hj hjs hle
          cases j with
          | zero =>
            simp at hjs; subst hjs
            intro hc; simp at hc
            exact hq ⟨hle, by simp [hc]⟩
          | succ j => simpa using h4 j s' w (by omega) (by simpa using hjs) hle
        · rintro ⟨i, s, h1, h2, h3, h4⟩
          cases i with
          | zero =>
            simp at h1 h3; subst h1; subst h3
            exact (hq ⟨h2, rfl⟩).elim
          | succ i =>
            refine ⟨i, s, by simpa using h1, h2, by simpa using h3, ?_⟩
            intro j s' w hj hjs hle
            simpa using h4 (j + 1) s' w (by omega) (by simpa using hjs) hle

/-! ### the as-of join of a column onto ITS OWN index is the plain forward / backward fill (ties C03 to C12's `ffill` / `bfill`) -/

theorem lastObs_cons_of_lt (x : Int) (xs : List Int) (v : Option Int) (vs : Col) (t : Int) (h : x < t) :
    lastObs (x :: xs) (v :: vs) t = (lastObs xs vs t).or v := by
  simp only [lastObs]
  cases lastObs xs vs t <;> simp [Int.le_of_lt h]

/-- a column forward-filled WITHOUT limit is, label by label over its own strictly increasing index, the last non-NaN
observation at or before the label (`lastObs`), `last` standing in for what came before the column -/
theorem ffillAux_eq_lastObs (ix : List Int) (c : Col) (last : Option Int) (k : Nat) (hs : SortedL ix) (hl : c.length = ix.length) :
    ffillAux Option.none last k c = ix.map fun t => (lastObs ix c t).or last := by
  induction ix generalizing c last k with
  | nil => cases c <;> simp_all [ffillAux]
  | cons x xs ih =>
    cases c with
    | nil => simp at hl
    | cons v vs =>
      have hs' : SortedL xs := (List.pairwise_cons.mp hs).2
      have hx : ∀ s ∈ xs, x < s := (List.pairwise_cons.mp hs).1
      have hl' : vs.length = xs.length := by simpa using hl
      have h0 : lastObs xs vs x = Option.none := lastObs_none_of_gt xs vs x hx
      cases v with
      | none =>
        simp only [ffillAux, within, List.map_cons, if_true]
        congr 1
        · simp [lastObs, h0]
        · rw [ih vs last (k + 1) hs' hl']
          apply List.map_congr_left
          intro t ht
          rw [lastObs_cons_of_lt x xs _ vs t (hx t ht)]; simp
      | some a =>
        simp only [ffillAux, List.map_cons]
        congr 1
        · simp [lastObs, h0]
        · rw [ih vs (some a) 0 hs' hl']
          apply List.map_congr_left
          intro t ht
          rw [lastObs_cons_of_lt x xs _ vs t (hx t ht)]
          cases lastObs xs vs t <;> simp

theorem ffill_eq_lastObs (ix : List Int) (c : Col) (hs : SortedL ix) (hl : c.length = ix.length) :
    ix.map (lastObs ix c) = ffill Option.none c := by
  unfold ffill
  rw [ffillAux_eq_lastObs ix c Option.none 0 hs hl]
  apply List.map_congr_left; intro t _; simp


theorem lastObs_append (a : List Int) (b : Col) (x : Int) (v : Option Int) (t : Int) (hl : b.length = a.length) :
    lastObs (a ++ [x]) (b ++ [v]) t = if x ≤ t ∧ v.isSome = true then v else lastObs a b t := by
  induction a generalizing b with
  | nil =>
    cases b with
    | nil => cases v <;> simp [lastObs]
    | cons _ _ => simp at hl
  | cons y a ih =>
    cases b with
    | nil => simp at hl
    | cons w b =>
      have hl' : b.length = a.length := by simpa using hl
      simp only [List.cons_append, lastObs, ih b hl']
      by_cases hc : x ≤ t ∧ v.isSome = true
      · rw [if_pos hc, if_pos hc]
        obtain ⟨u, rfl⟩ := Option.isSome_iff_exists.mp hc.2
        rfl
      · rw [if_neg hc, if_neg hc]

theorem firstObs_eq_lastObs_rev (ix : List Int) (c : Col) (t : Int) (hl : c.length = ix.length) :
    firstObs ix c t = lastObs (ix.reverse.map fun s => -s) c.reverse (-t) := by
  induction ix generalizing c with
  | nil => cases c <;> simp [firstObs, lastObs]
  | cons x xs ih =>
    cases c with
    | nil => simp at hl
    | cons v vs =>
      have hl' : vs.length = xs.length := by simpa using hl
      simp only [List.reverse_cons, List.map_append, List.map_cons, List.map_nil]
      rw [lastObs_append _ _ _ _ _ (by simp [hl']), ← ih vs hl']
      simp only [firstObs]
      have : (-x ≤ -t) ↔ t ≤ x := by omega
      simp only [this]

theorem bfill_eq_firstObs (ix : List Int) (c : Col) (hs : SortedL ix) (hl : c.length = ix.length) :
    ix.map (firstObs ix c) = bfill Option.none c := by
  have hs' : SortedL (ix.reverse.map fun s => -s) := by
    unfold SortedL at *
    rw [List.pairwise_map, List.pairwise_reverse]
    exact hs.imp (by intro a b h; omega)
  unfold bfill
  rw [← ffill_eq_lastObs (ix.reverse.map fun s => -s) c.reverse hs' (by simp [hl])]
  rw [← List.map_reverse, ← List.map_reverse, List.reverse_reverse, List.map_map]
  apply List.map_congr_left
  intro t _
  simp [firstObs_eq_lastObs_rev ix c t hl]

end Pyg.Align
