import PygModel.Eq
import PygProofs.Lemmas.EqLemmas
import PygProofs.Lemmas.EqDictLemmas

/-!
  An independent specification of C14's equivalence (review r5): the relation `Same`, given by rules that do not mention the
  model's function `eq` (no normalisation, no sorting of dict items, dicts as mappings), and the proof that the model decides it.
-/
namespace Pyg
open EqM

/-- scalars: a NaN is the same as a NaN, everything else goes by python `==` (`Cell.pyEq`, the sampled reference function) -/
def CellSame (a b : Cell) : Prop := (a = .nan ∧ b = .nan) ∨ (a ≠ .nan ∧ b ≠ .nan ∧ Cell.pyEq a b = true)

/-- axis labels: same number of labels, the same label at every position -/
def LabelsSame (i j : List Cell) : Prop :=
  i.length = j.length ∧ ∀ k (h1 : k < i.length) (h2 : k < j.length), CellSame i[k] j[k]

mutual
  /-- "equal as values": same container type (list / tuple / array / Series / DataFrame / dict class), same shape, same axis
  labels, the same thing at every position; dicts are mappings: same size and under every key of the left the right holds the
  same thing (`f` names what the right holds). -/
  inductive Same : EVal → EVal → Prop
    | cell {a b : Cell} : CellSame a b → Same (.cell a) (.cell b)
    | date (d : Int) : Same (.date d) (.date d)
    | tdelta (d : Int) : Same (.tdelta d) (.tdelta d)
    | cdelta (d : Int) : Same (.cdelta d) (.cdelta d)
    | fdt (d : Int) : Same (.fdt d) (.fdt d)
    | ftd (d : Int) : Same (.ftd d) (.ftd d)
    | sub (c : Nat) {xs ys : List EVal} : SameL xs ys → Same (.sub c xs) (.sub c ys)
    | index {i j : List Cell} : LabelsSame i j → Same (.index i) (.index j)
    | nat : Same .nat .nat
    | list {xs ys : List EVal} : SameL xs ys → Same (.list xs) (.list ys)
    | tuple {xs ys : List EVal} : SameL xs ys → Same (.tuple xs) (.tuple ys)
    | arr (s : List Nat) {xs ys : List EVal} : SameL xs ys → Same (.arr s xs) (.arr s ys)
    | series {i j : List Cell} {xs ys : List EVal} : LabelsSame i j → SameL xs ys → Same (.series i xs) (.series j ys)
    | frame {i j c d : List Cell} {xs ys : List EVal} : LabelsSame i j → LabelsSame c d → SameL xs ys →
        Same (.frame i c xs) (.frame j d ys)
    | dict (c : Nat) {a b : List (String × EVal)} (f : String → EVal) : a.length = b.length →
        (∀ k v, (k, v) ∈ a → (k, f k) ∈ b) → (∀ k v, (k, v) ∈ a → Same v (f k)) → Same (.dict c a) (.dict c b)
  /-- position by position, same length -/
  inductive SameL : List EVal → List EVal → Prop
    | nil : SameL [] []
    | cons {x y : EVal} {xs ys : List EVal} : Same x y → SameL xs ys → SameL (x :: xs) (y :: ys)
end

theorem cellEq_iff_same (a b : Cell) : cellEq a b = true ↔ CellSame a b := by
  unfold CellSame
  by_cases ha : a = .nan
  · subst ha
    simp [cellEq]
  · have : cellEq a b = Cell.pyEq a b := cellEq_eq_pyEq a b ha
    rw [this]
    constructor
    · intro h
      refine Or.inr ⟨ha, ?_, h⟩
      rintro rfl
      have := (pyEq_iff a .nan).1 h
      exact ha ((ckey_nan a).1 this.1)
    · rintro (⟨h, _⟩ | ⟨_, _, h⟩)
      · exact absurd h ha
      · exact h

theorem idxEq_iff_same (i j : List Cell) : idxEq i j = true ↔ LabelsSame i j := by
  unfold LabelsSame idxEq
  induction i generalizing j with
  | nil => cases j <;> simp [all2]
  | cons x xs ih =>
    cases j with
    | nil => simp [all2]
    | cons y ys =>
      simp only [all2, Bool.and_eq_true, ih ys, cellEq_iff_same, List.length_cons, Nat.add_right_cancel_iff]
      constructor
      · rintro ⟨h0, hl, hk⟩
        refine ⟨hl, fun k h1 h2 => ?_⟩
        cases k with
        | zero => simpa using h0
        | succ k => simpa using hk k (by omega) (by omega)
      · rintro ⟨hl, hk⟩
        refine ⟨by simpa using hk 0 (by omega) (by omega), hl, fun k h1 h2 => ?_⟩
        have := hk (k + 1) (by omega) (by omega)
        simp only [List.getElem_cons_succ] at this
        exact this

theorem keysOkList_mem : ∀ {xs : List EVal}, EVal.keysOkList xs = true → ∀ x ∈ xs, x.keysOk = true
  | [], _, _, hx => by simp at hx
  | y :: ys, h, x, hx => by
      simp only [EVal.keysOkList, Bool.and_eq_true] at h
      rcases List.mem_cons.1 hx with rfl | hx
      · exact h.1
      · exact keysOkList_mem h.2 x hx

theorem eq_list_all2 (xs ys : List EVal) : eqArr (EVal.normList xs) (EVal.normList ys) = all2 eq xs ys :=
  eqArr_normList xs ys

/-- the model decides `Same` (for values whose dicts have distinct keys, as every python dict has) -/
theorem eq_iff_same_aux : ∀ (n : Nat) (a b : EVal), sizeOf a ≤ n → a.keysOk = true → b.keysOk = true →
    (eq a b = true ↔ Same a b) := by
  intro n
  induction n with
  | zero => intro a b h; cases a <;> simp at h
  | succ n ih =>
    intro a b h ka kb
    have hlist : ∀ xs ys : List EVal, sizeOf xs ≤ n → EVal.keysOkList xs = true → EVal.keysOkList ys = true →
        (all2 eq xs ys = true ↔ SameL xs ys) := by
      intro xs
      induction xs with
      | nil =>
        intro ys _ _ _
        cases ys with
        | nil => simp [all2]; exact SameL.nil
        | cons y ys => simp [all2]; intro hc; cases hc
      | cons x xs ihx =>
        intro ys hs kx ky
        cases ys with
        | nil => simp [all2]; intro hc; cases hc
        | cons y ys =>
          simp only [EVal.keysOkList, Bool.and_eq_true] at kx ky
          simp at hs
          simp only [all2, Bool.and_eq_true]
          constructor
          · rintro ⟨h1, h2⟩
            exact SameL.cons ((ih x y (by omega) kx.1 ky.1).1 h1) ((ihx ys (by omega) kx.2 ky.2).1 h2)
          · intro hc
            cases hc with
            | cons h1 h2 => exact ⟨(ih x y (by omega) kx.1 ky.1).2 h1, (ihx ys (by omega) kx.2 ky.2).2 h2⟩
    cases a with
    | cell x =>
      cases b <;> try (simp [eq, EVal.norm, eqN]; intro hc; cases hc; done)
      case cell y =>
        simp only [eq, EVal.norm, eqN, cellEq_iff_same]
        exact ⟨Same.cell, fun hc => by cases hc; assumption⟩
    | date x =>
      cases b <;> try (simp [eq, EVal.norm, eqN]; intro hc; cases hc; done)
      case date y =>
        simp only [eq, EVal.norm, eqN, beq_iff_eq]
        exact ⟨fun e => e ▸ Same.date x, fun hc => by cases hc; rfl⟩
    | tdelta x =>
      cases b <;> try (simp [eq, EVal.norm, eqN]; intro hc; cases hc; done)
      case tdelta y =>
        simp only [eq, EVal.norm, eqN, beq_iff_eq]
        exact ⟨fun e => e ▸ Same.tdelta x, fun hc => by cases hc; rfl⟩
    | cdelta x =>
      cases b <;> try (simp [eq, EVal.norm, eqN]; intro hc; cases hc; done)
      case cdelta y =>
        simp only [eq, EVal.norm, eqN, beq_iff_eq]
        exact ⟨fun e => e ▸ Same.cdelta x, fun hc => by cases hc; rfl⟩
    | fdt x =>
      cases b <;> try (simp [eq, EVal.norm, eqN]; intro hc; cases hc; done)
      case fdt y =>
        simp only [eq, EVal.norm, eqN, beq_iff_eq]
        exact ⟨fun e => e ▸ Same.fdt x, fun hc => by cases hc; rfl⟩
    | ftd x =>
      cases b <;> try (simp [eq, EVal.norm, eqN]; intro hc; cases hc; done)
      case ftd y =>
        simp only [eq, EVal.norm, eqN, beq_iff_eq]
        exact ⟨fun e => e ▸ Same.ftd x, fun hc => by cases hc; rfl⟩
    | index i =>
      cases b <;> try (simp [eq, EVal.norm, eqN]; intro hc; cases hc; done)
      case index j =>
        simp only [eq, EVal.norm, eqN]
        rw [idxEq_iff_same]
        exact ⟨Same.index, fun hc => by cases hc; assumption⟩
    | sub c xs =>
      cases b <;> try (simp [eq, EVal.norm, eqN]; intro hc; cases hc; done)
      case sub d ys =>
        simp at h
        simp only [EVal.keysOk] at ka kb
        simp only [eq, EVal.norm, eqN, Bool.and_eq_true, beq_iff_eq]
        rw [eq_list_all2, hlist xs ys (by omega) ka kb]
        constructor
        · rintro ⟨rfl, h2⟩; exact Same.sub c h2
        · intro hc; cases hc; exact ⟨rfl, by assumption⟩
    | nat =>
      cases b <;> try (simp [eq, EVal.norm, eqN]; intro hc; cases hc; done)
      case nat => simp only [eq, EVal.norm, eqN]; exact ⟨fun _ => Same.nat, fun _ => trivial⟩
    | list xs =>
      cases b <;> try (simp [eq, EVal.norm, eqN]; intro hc; cases hc; done)
      case list ys =>
        simp at h
        simp only [EVal.keysOk] at ka kb
        simp only [eq, EVal.norm, eqN]
        rw [eq_list_all2, hlist xs ys (by omega) ka kb]
        exact ⟨Same.list, fun hc => by cases hc; assumption⟩
    | tuple xs =>
      cases b <;> try (simp [eq, EVal.norm, eqN]; intro hc; cases hc; done)
      case tuple ys =>
        simp at h
        simp only [EVal.keysOk] at ka kb
        simp only [eq, EVal.norm, eqN]
        rw [eq_list_all2, hlist xs ys (by omega) ka kb]
        exact ⟨Same.tuple, fun hc => by cases hc; assumption⟩
    | arr s xs =>
      cases b <;> try (simp [eq, EVal.norm, eqN]; intro hc; cases hc; done)
      case arr t ys =>
        simp at h
        simp only [EVal.keysOk] at ka kb
        simp only [eq, EVal.norm, eqN, Bool.and_eq_true, beq_iff_eq]
        rw [eq_list_all2, hlist xs ys (by omega) ka kb]
        constructor
        · rintro ⟨rfl, h2⟩; exact Same.arr s h2
        · intro hc; cases hc; exact ⟨rfl, by assumption⟩
    | series i xs =>
      cases b <;> try (simp [eq, EVal.norm, eqN]; intro hc; cases hc; done)
      case series j ys =>
        simp at h
        simp only [EVal.keysOk] at ka kb
        simp only [eq, EVal.norm, eqN, Bool.and_eq_true]
        rw [eq_list_all2, hlist xs ys (by omega) ka kb, idxEq_iff_same]
        constructor
        · rintro ⟨h1, h2⟩; exact Same.series h1 h2
        · intro hc; cases hc; exact ⟨by assumption, by assumption⟩
    | frame i c xs =>
      cases b <;> try (simp [eq, EVal.norm, eqN]; intro hc; cases hc; done)
      case frame j d ys =>
        simp at h
        simp only [EVal.keysOk] at ka kb
        simp only [eq, EVal.norm, eqN, Bool.and_eq_true]
        rw [eq_list_all2, hlist xs ys (by omega) ka kb, idxEq_iff_same, idxEq_iff_same]
        constructor
        · rintro ⟨⟨h1, h2⟩, h3⟩; exact Same.frame h1 h2 h3
        · intro hc; cases hc; exact ⟨⟨by assumption, by assumption⟩, by assumption⟩
    | dict c xs =>
      cases b <;> try (simp [eq, EVal.norm, eqN]; intro hc; cases hc; done)
      case dict d ys =>
        simp at h
        simp only [EVal.keysOk, Bool.and_eq_true, decide_eq_true_eq] at ka kb
        rw [eq_dict_iff_aux c d xs ys ka.1 kb.1]
        constructor
        · rintro ⟨rfl, hl, hr⟩
          refine Same.dict c (fun k => (EVal.lookup k ys).getD default) hl ?_ ?_
          · intro k v hkv
            obtain ⟨w, hw, _⟩ := hr (k, v) hkv
            simp only at hw
            rw [hw]; exact EVal.lookup_mem k w ys hw
          · intro k v hkv
            obtain ⟨w, hw, he⟩ := hr (k, v) hkv
            simp only at hw he
            rw [hw]
            have := sizeOf_snd_lt' hkv
            exact (ih v w (by simp at this; omega) (keysOkKVs_mem ka.2 _ hkv)
              (keysOkKVs_mem kb.2 _ (EVal.lookup_mem k w ys hw))).1 he
        · intro hc
          cases hc with
          | dict _ f hl hmem hsame =>
            refine ⟨rfl, hl, ?_⟩
            intro x hx
            have hm := hmem x.1 x.2 hx
            refine ⟨f x.1, EVal.lookup_of_mem x.1 (f x.1) ys kb.1 hm, ?_⟩
            have := sizeOf_snd_lt' hx
            exact (ih x.2 (f x.1) (by omega) (keysOkKVs_mem ka.2 _ hx) (keysOkKVs_mem kb.2 _ hm)).2 (hsame x.1 x.2 hx)

end Pyg
