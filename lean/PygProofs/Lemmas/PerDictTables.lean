/-
  Helper lemmas for C20: `joinTables` (product of the tables without default, outer join of the
  tables with default, and their combination) for ANY number of table inputs.
-/
import PygProofs.Lemmas.PerDictFold

namespace Pyg

theorem VOK.mono {on : List String} {D : Rows} {S S' : List Src} (h : VOK on D S)
    (hs : ∀ s ∈ S', s ∈ S) : VOK on D S' := fun p hp s hs' => h p hp s (hs s hs')

/-- `joinTables` with the split of the tables into those without (`N`) and with (`W`) default made
explicit -/
def joinNW (N W : List (String × Table)) (defaults : List (String × Cell)) :
    Option (Res (Option Table)) :=
  let tbl1 : Option (Res (Option Table)) := match N.map (·.2) with
    | [] => some (.ok none)
    | d :: ds => match foldOR Table.mul d ds with
      | some (.ok t) => some (.ok (some t))
      | some (.error e) => some (.error e)
      | none => none
  let tblDef2 : Option (Res TblDef) :=
    match W.map fun kv => ((some kv.2, defaults.filter fun d => d.1 == kv.1) : TblDef) with
    | [] => some (.ok (none, []))
    | p :: ps => foldOR joinDef p ps
  match tbl1, tblDef2 with
  | some (.ok t1), some (.ok td2) =>
    match joinDef (t1, []) td2 with
    | some (.ok (r, _)) => some (.ok r)
    | some (.error e) => some (.error e)
    | none => none
  | some (.error e), _ => some (.error e)
  | _, some (.error e) => some (.error e)
  | _, _ => none

theorem joinTables_eq (tables : List (String × Table)) (defaults : List (String × Cell)) :
    joinTables tables defaults =
      joinNW (tables.filter fun kv => !(defaults.map (·.1)).contains kv.1)
        (tables.filter fun kv => (defaults.map (·.1)).contains kv.1) defaults := rfl

/-- what `joinNW` returns, in terms of the two lists -/
structure NWSpec (on : List String) (N W : List (String × Table)) (defaults : List (String × Cell))
    (d : Table) : Prop where
  wf : d.WF
  cols : ∀ c, c ∈ d.cols ↔ c ∈ on ∨ ∃ kv ∈ N ++ W, kv.1 = c
  vok : VOK on d.R ((N ++ W).map (mkSrc defaults))
  uniq : (∀ kv ∈ N ++ W, kv.2.R.uniq on) → d.R.uniq on
  keysN : N ≠ [] → ∀ k, d.R.hasK on k ↔ ∀ kv ∈ N, kv.2.R.hasK on k
  keysW : N = [] → ∀ k, d.R.hasK on k ↔ ∃ kv ∈ W, kv.2.R.hasK on k

theorem mem_map_mkSrc {defaults : List (String × Cell)} {L : List (String × Table)} {s : Src}
    (h : s ∈ L.map (mkSrc defaults)) : ∃ kv ∈ L, s = mkSrc defaults kv := by
  obtain ⟨kv, hkv, rfl⟩ := List.mem_map.1 h
  exact ⟨kv, hkv, rfl⟩

theorem accOK_cols_iff {on : List String} {d : Table} {L : List (String × Table)}
    {defaults : List (String × Cell)} (h : AccOK on d (L.map (mkSrc defaults))) (c : String) :
    c ∈ d.cols ↔ c ∈ on ∨ ∃ kv ∈ L, kv.1 = c := by
  rw [h.cols c]
  constructor
  · rintro (h1 | ⟨s, hs, he⟩)
    · exact .inl h1
    · obtain ⟨kv, hkv, rfl⟩ := mem_map_mkSrc hs
      exact .inr ⟨kv, hkv, he⟩
  · rintro (h1 | ⟨kv, hkv, he⟩)
    · exact .inl h1
    · exact .inr ⟨mkSrc defaults kv, List.mem_map.2 ⟨kv, hkv, rfl⟩, he⟩

theorem uniq_srcs {on : List String} {L : List (String × Table)} {defaults : List (String × Cell)}
    (h : ∀ kv ∈ L, kv.2.R.uniq on) : ∀ s ∈ L.map (mkSrc defaults), s.t.uniq on := by
  intro s hs
  obtain ⟨kv, hkv, rfl⟩ := mem_map_mkSrc hs
  exact h kv hkv

/-- the product of the tables of a non-empty list -/
theorem prod_sem (on : List String) (hon : on ≠ []) (defaults : List (String × Cell))
    (n : String × Table) (ns : List (String × Table)) (t : Table)
    (hks : ∀ kv ∈ n :: ns, KeyedSrc on kv.2 kv.1) (hnd : ((n :: ns).map (·.1)).Nodup)
    (h : foldOR Table.mul n.2 (ns.map (·.2)) = some (.ok t)) :
    AccOK on t ((n :: ns).map (mkSrc defaults)) ∧
    ∀ k, t.R.hasK on k ↔ ∀ kv ∈ n :: ns, kv.2.R.hasK on k := by
  have hnd' : n.1 ∉ ns.map (·.1) ∧ (ns.map (·.1)).Nodup := List.nodup_cons.1 hnd
  obtain ⟨h1, h2⟩ := fold_mul on hon defaults ns n.2 [mkSrc defaults (n.1, n.2)] t
    (AccOK.base defaults (hks n (by simp))) (fun kv hkv => hks kv (by simp [hkv])) hnd'.2
    (by
      intro kv hkv s hs he
      rw [List.mem_singleton.1 hs] at he
      exact hnd'.1 (List.mem_map.2 ⟨kv, hkv, he.symm⟩))
    (by intro k; simp [mkSrc]) h
  refine ⟨by simpa using h1, fun k => ?_⟩
  rw [h2 k]
  constructor
  · intro hh kv hkv
    exact hh (mkSrc defaults kv) (by
      rcases List.mem_cons.1 hkv with rfl | h'
      · simp
      · exact List.mem_append.2 (.inr (List.mem_map.2 ⟨kv, h', rfl⟩)))
  · intro hh s hs
    rcases List.mem_append.1 hs with h' | h'
    · rw [List.mem_singleton.1 h']; exact hh n (by simp)
    · obtain ⟨kv, hkv, rfl⟩ := mem_map_mkSrc h'
      exact hh kv (by simp [hkv])

/-- the outer join of the tables (all with default) of a non-empty list -/
theorem outer_sem (on : List String) (hon : on ≠ []) (defaults : List (String × Cell))
    (w : String × Table) (ws : List (String × Table)) (x : TblDef)
    (hks : ∀ kv ∈ w :: ws, KeyedSrc on kv.2 kv.1) (hnd : ((w :: ws).map (·.1)).Nodup)
    (hdef : ∀ kv ∈ w :: ws, (dfltOf defaults kv.1).isSome = true)
    (h : foldOR joinDef (some w.2, defaults.filter fun d => d.1 == w.1)
      (ws.map fun kv => (some kv.2, defaults.filter fun d => d.1 == kv.1)) = some (.ok x)) :
    ∃ r dr, x = (some r, dr) ∧ AccOK on r ((w :: ws).map (mkSrc defaults)) ∧
      DefInv on r ((w :: ws).map (mkSrc defaults)) dr := by
  have hnd' : w.1 ∉ ws.map (·.1) ∧ (ws.map (·.1)).Nodup := List.nodup_cons.1 hnd
  obtain ⟨v, hv⟩ := Option.isSome_iff_exists.1 (hdef w (by simp))
  obtain ⟨r, dr, hx, h1, h2⟩ := fold_def on hon defaults ws w.2 _ [mkSrc defaults (w.1, w.2)] x
    (AccOK.base defaults (hks w (by simp))) (DefInv.base (hks w (by simp)) hv)
    (fun kv hkv => hks kv (by simp [hkv])) hnd'.2
    (by
      intro kv hkv s hs he
      rw [List.mem_singleton.1 hs] at he
      exact hnd'.1 (List.mem_map.2 ⟨kv, hkv, he.symm⟩))
    (fun kv hkv => hdef kv (by simp [hkv])) h
  exact ⟨r, dr, hx, by simpa using h1, by simpa using h2⟩

theorem defInv_keys {on : List String} {r : Table} {L : List (String × Table)}
    {defaults dr : List (String × Cell)} (h : DefInv on r (L.map (mkSrc defaults)) dr) (k : Row) :
    r.R.hasK on k ↔ ∃ kv ∈ L, kv.2.R.hasK on k := by
  rw [h.hK k]
  constructor
  · rintro ⟨s, hs, hk⟩
    obtain ⟨kv, hkv, rfl⟩ := mem_map_mkSrc hs
    exact ⟨kv, hkv, hk⟩
  · rintro ⟨kv, hkv, hk⟩
    exact ⟨mkSrc defaults kv, List.mem_map.2 ⟨kv, hkv, rfl⟩, hk⟩

/-- **`join` of any number of tables, any subset of them with defaults** -/
theorem joinNW_sem (on : List String) (hon : on ≠ []) (N W : List (String × Table))
    (defaults : List (String × Cell)) (d : Table)
    (hkN : ∀ kv ∈ N, KeyedSrc on kv.2 kv.1) (hkW : ∀ kv ∈ W, KeyedSrc on kv.2 kv.1)
    (hnN : (N.map (·.1)).Nodup) (hnW : (W.map (·.1)).Nodup)
    (hdisj : ∀ a ∈ N, ∀ b ∈ W, a.1 ≠ b.1)
    (hdef : ∀ kv ∈ W, (dfltOf defaults kv.1).isSome = true)
    (h : joinNW N W defaults = some (.ok (some d))) : NWSpec on N W defaults d := by
  unfold joinNW at h
  dsimp only at h
  cases N with
  | nil =>
    cases W with
    | nil => simp [joinDef, updDefaults] at h
    | cons w ws =>
      simp only [List.map_nil, List.map_cons] at h
      cases hf : foldOR joinDef (some w.2, defaults.filter fun d => d.1 == w.1)
          (ws.map fun kv => (some kv.2, defaults.filter fun d => d.1 == kv.1)) with
      | none => rw [hf] at h; cases h
      | some res =>
        cases res with
        | error e => rw [hf] at h; cases h
        | ok x =>
          rw [hf] at h
          obtain ⟨r, dr, rfl, h1, h2⟩ := outer_sem on hon defaults w ws x hkW hnW hdef hf
          simp only [joinDef, Option.some.injEq, Except.ok.injEq] at h
          subst h
          refine ⟨h1.wf, ?_, ?_, ?_, fun hne => absurd rfl hne, fun _ k => defInv_keys h2 k⟩
          · intro c; simpa using accOK_cols_iff h1 c
          · simpa using h1.vok
          · intro hu; exact h1.uniq (uniq_srcs (by simpa using hu))
  | cons n ns =>
    simp only [List.map_cons] at h
    cases hf : foldOR Table.mul n.2 (ns.map (·.2)) with
    | none =>
      rw [hf] at h
      cases W with
      | nil => simp at h
      | cons w ws =>
        simp only [List.map_cons] at h
        split at h <;> simp_all
    | some res =>
      cases res with
      | error e => rw [hf] at h; cases W <;> simp at h
      | ok t1 =>
        rw [hf] at h
        obtain ⟨a1, k1⟩ := prod_sem on hon defaults n ns t1 hkN hnN hf
        cases W with
        | nil =>
          simp only [List.map_nil, joinDef, Option.some.injEq, Except.ok.injEq] at h
          subst h
          refine ⟨a1.wf, ?_, ?_, ?_, fun _ k => k1 k, fun hne => by cases hne⟩
          · intro c; simpa using accOK_cols_iff a1 c
          · simpa using a1.vok
          · intro hu; exact a1.uniq (uniq_srcs (by simpa using hu))
        | cons w ws =>
          simp only [List.map_cons] at h
          cases hg : foldOR joinDef (some w.2, defaults.filter fun d => d.1 == w.1)
              (ws.map fun kv => (some kv.2, defaults.filter fun d => d.1 == kv.1)) with
          | none => rw [hg] at h; cases h
          | some res2 =>
            cases res2 with
            | error e => rw [hg] at h; cases h
            | ok x =>
              rw [hg] at h
              obtain ⟨r, dr, rfl, a2, i2⟩ := outer_sem on hon defaults w ws x hkW hnW hdef hg
              dsimp only at h
              cases hj : joinDef (some t1, []) (some r, dr) with
              | none => rw [hj] at h; cases h
              | some res3 =>
                cases res3 with
                | error e => rw [hj] at h; cases h
                | ok y =>
                  rw [hj] at h
                  have hsh : Shares on t1 r := by
                    intro c
                    rw [accOK_cols_iff a1 c, accOK_cols_iff a2 c]
                    constructor
                    · rintro ⟨h1 | ⟨kv, hkv, he⟩, h2 | ⟨kv', hkv', he'⟩⟩
                      · exact h1
                      · exact h1
                      · exact h2
                      · exact absurd (he.trans he'.symm) (hdisj kv hkv kv' hkv')
                    · intro hc; exact ⟨.inl hc, .inl hc⟩
                  have hdr_cols : ∀ kv ∈ dr, kv.1 ∈ r.cols := by
                    intro kv hkv
                    obtain ⟨s, hs, he⟩ := i2.named kv hkv
                    exact (a2.cols _).2 (.inr ⟨s, hs, he⟩)
                  obtain ⟨d', hy, hJ, hw, hc, _⟩ := joinDef_sem on hon t1 r [] dr y a1.wf a2.wf hsh
                    (fun kv hkv => by cases hkv) hdr_cols a1.on_nodup hj
                  subst hy
                  simp only [Option.some.injEq, Except.ok.injEq] at h
                  subst h
                  refine ⟨hw, ?_, ?_, ?_, ?_, fun hne => by cases hne⟩
                  · intro c
                    rw [hc c, accOK_cols_iff a1 c, accOK_cols_iff a2 c]
                    simp only [List.mem_append]
                    constructor
                    · rintro ((h1 | ⟨kv, hkv, he⟩) | (h1 | ⟨kv, hkv, he⟩))
                      · exact .inl h1
                      · exact .inr ⟨kv, .inl hkv, he⟩
                      · exact .inl h1
                      · exact .inr ⟨kv, .inr hkv, he⟩
                    · rintro (h1 | ⟨kv, hkv | hkv, he⟩)
                      · exact .inl (.inl h1)
                      · exact .inl (.inr ⟨kv, hkv, he⟩)
                      · exact .inr (.inr ⟨kv, hkv, he⟩)
                  · rw [List.map_append]
                    apply hJ.vok (offKeys_nil on) i2.off a1.vok a2.vok
                    · intro s hs
                      refine ⟨(a1.cols _).2 (.inr ⟨s, hs, rfl⟩), a1.names_off s hs, ?_⟩
                      intro kv hkv he
                      obtain ⟨s', hs', he'⟩ := i2.named kv hkv
                      obtain ⟨a, ha, rfl⟩ := mem_map_mkSrc hs
                      obtain ⟨b, hb, rfl⟩ := mem_map_mkSrc hs'
                      exact hdisj a ha b hb (he.symm.trans he'.symm)
                    · intro s hs
                      exact ⟨(a2.cols _).2 (.inr ⟨s, hs, rfl⟩), a2.names_off s hs,
                        fun kv hkv => by cases hkv⟩
                    · intro hne; exact absurd rfl hne
                    · intro _; exact i2.defAcc
                  · intro hu
                    exact hJ.uniq (offKeys_nil on) i2.off
                      (a1.uniq (uniq_srcs fun kv hkv => hu kv (List.mem_append.2 (.inl hkv))))
                      (a2.uniq (uniq_srcs fun kv hkv => hu kv (List.mem_append.2 (.inr hkv))))
                  · intro _ k
                    rw [hJ.hasK_iff (offKeys_nil on) i2.off k, k1 k]
                    constructor
                    · rintro (⟨h1, _⟩ | ⟨hne, _⟩ | ⟨_, h1, _⟩)
                      · exact h1
                      · exact absurd rfl hne
                      · exact h1
                    · intro h1
                      by_cases h2 : r.R.hasK on k
                      · exact .inl ⟨h1, h2⟩
                      · exact .inr (.inr ⟨i2.ne, h1, h2⟩)

/-- `isDef` of the model is "has a default" -/
theorem isDef_iff (defaults : List (String × Cell)) (k : String) :
    (defaults.map (·.1)).contains k = true ↔ (dfltOf defaults k).isSome = true := by
  rw [dfltOf_isSome]
  simp

/-- **`joinTables`, any number of keyed tables, any subset with defaults**: the joined table is
rectangular with the key columns and one value column per input; every value cell is accounted for
(`VOK`); unique keys stay unique; and a key is present iff every table *without* default holds it —
or, when all tables have a default, iff some table holds it. -/
theorem joinTables_sem (on : List String) (hon : on ≠ []) (tables : List (String × Table))
    (defaults : List (String × Cell)) (d : Table)
    (hks : ∀ kv ∈ tables, KeyedSrc on kv.2 kv.1) (hnd : (tables.map (·.1)).Nodup)
    (h : joinTables tables defaults = some (.ok (some d))) :
    d.WF ∧ (∀ c, c ∈ d.cols ↔ c ∈ on ∨ ∃ kv ∈ tables, kv.1 = c) ∧
    VOK on d.R (tables.map (mkSrc defaults)) ∧
    ((∀ kv ∈ tables, kv.2.R.uniq on) → d.R.uniq on) ∧
    ∀ k, d.R.hasK on k ↔
      (∀ kv ∈ tables, dfltOf defaults kv.1 = none → kv.2.R.hasK on k) ∧
      ((∀ kv ∈ tables, (dfltOf defaults kv.1).isSome = true) → ∃ kv ∈ tables, kv.2.R.hasK on k) := by
  rw [joinTables_eq] at h
  generalize hN : (tables.filter fun kv => !(defaults.map (·.1)).contains kv.1) = N at h
  generalize hW : (tables.filter fun kv => (defaults.map (·.1)).contains kv.1) = W at h
  have memN : ∀ kv, kv ∈ N ↔ kv ∈ tables ∧ dfltOf defaults kv.1 = none := by
    intro kv
    rw [← hN, List.mem_filter]
    have := isDef_iff defaults kv.1
    cases hc : (defaults.map (·.1)).contains kv.1 <;> cases hd : dfltOf defaults kv.1 <;>
      simp_all
  have memW : ∀ kv, kv ∈ W ↔ kv ∈ tables ∧ (dfltOf defaults kv.1).isSome = true := by
    intro kv
    rw [← hW, List.mem_filter, isDef_iff]
  have memNW : ∀ kv, kv ∈ N ++ W ↔ kv ∈ tables := by
    intro kv
    rw [List.mem_append, memN, memW]
    cases dfltOf defaults kv.1 <;> simp
  have hs := joinNW_sem on hon N W defaults d
    (fun kv hkv => hks kv ((memN kv).1 hkv).1) (fun kv hkv => hks kv ((memW kv).1 hkv).1)
    (by rw [← hN]; exact hnd.sublist (List.filter_sublist.map _))
    (by rw [← hW]; exact hnd.sublist (List.filter_sublist.map _))
    (by
      intro a ha b hb he
      have h1 := ((memN a).1 ha).2
      have h2 := ((memW b).1 hb).2
      rw [← he, h1] at h2
      simp at h2)
    (fun kv hkv => ((memW kv).1 hkv).2) h
  refine ⟨hs.wf, ?_, ?_, ?_, ?_⟩
  · intro c
    rw [hs.cols c]
    constructor
    · rintro (h1 | ⟨kv, hkv, he⟩)
      · exact .inl h1
      · exact .inr ⟨kv, (memNW kv).1 hkv, he⟩
    · rintro (h1 | ⟨kv, hkv, he⟩)
      · exact .inl h1
      · exact .inr ⟨kv, (memNW kv).2 hkv, he⟩
  · apply hs.vok.mono
    intro s hs'
    obtain ⟨kv, hkv, rfl⟩ := mem_map_mkSrc hs'
    exact List.mem_map.2 ⟨kv, (memNW kv).2 hkv, rfl⟩
  · intro hu
    exact hs.uniq fun kv hkv => hu kv ((memNW kv).1 hkv)
  · intro k
    by_cases hne : N = []
    · rw [hs.keysW hne k]
      have hall : ∀ kv ∈ tables, (dfltOf defaults kv.1).isSome = true := by
        intro kv hkv
        cases hd : dfltOf defaults kv.1 with
        | some v => rfl
        | none =>
          have := (memN kv).2 ⟨hkv, hd⟩
          rw [hne] at this
          cases this
      constructor
      · rintro ⟨kv, hkv, hk⟩
        refine ⟨?_, fun _ => ⟨kv, ((memW kv).1 hkv).1, hk⟩⟩
        intro kv' hkv' hd
        have := hall kv' hkv'
        rw [hd] at this
        cases this
      · rintro ⟨_, h2⟩
        obtain ⟨kv, hkv, hk⟩ := h2 hall
        exact ⟨kv, (memW kv).2 ⟨hkv, hall kv hkv⟩, hk⟩
    · rw [hs.keysN hne k]
      obtain ⟨kv0, hkv0⟩ := List.exists_mem_of_ne_nil _ hne
      have h0 := (memN kv0).1 hkv0
      constructor
      · intro hh
        refine ⟨fun kv hkv hd => hh kv ((memN kv).2 ⟨hkv, hd⟩), ?_⟩
        intro hall
        have := hall kv0 h0.1
        rw [h0.2] at this
        cases this
      · rintro ⟨h1, _⟩ kv hkv
        exact h1 kv ((memN kv).1 hkv).1 ((memN kv).1 hkv).2

end Pyg
