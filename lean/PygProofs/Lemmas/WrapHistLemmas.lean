/-
  Lemmas about call histories through a stack with a cache layer (`PygModel.WrapHist`):
  on valid calls of a non-raising function the stack refines the plain cache (`runCache`) run on the calls as the
  cache layer receives them (`reach s above`).
-/
import PygModel.WrapHist
import PygProofs.Lemmas.WrapLemmas
import PygProofs.Lemmas.CacheLemmas

namespace Pyg

/-- a valid call on which `f` returns `v`: python binds it and the body returns; only declared keywords, none called
`axis` (finding K4), no int ndarray among the arguments (finding K6) -/
structure ValidCall (s : Sig) (body : PDict → Res Val) (c : Call) (v : Val) : Prop where
  declared : ∀ p ∈ c.kw, p.1 ∈ s.params
  noaxis : ∀ p ∈ c.kw, p.1 ≠ "axis"
  noint : c.hasIntArr = false
  ok : applyFn s body c = .ok v

/-- no cache layer in a stack -/
def noCache (ch : List (Cls × PDict)) : Prop := ∀ w ∈ ch, w.1 ≠ Cls.cache

theorem noCache_cons {w : Cls × PDict} {ch : List (Cls × PDict)} (h : noCache (w :: ch)) :
    w.1 ≠ Cls.cache ∧ noCache ch :=
  ⟨h w (by simp), fun x hx => h x (by simp [hx])⟩

theorem ValidCall.kwFilter_eq {s body c v} (h : ValidCall s body c v) : kwFilter s c = c := by
  cases c with
  | mk args kw =>
    simp only [kwFilter, Call.mk.injEq, true_and]
    apply List.filter_eq_self.2
    intro q hq
    simpa using h.declared q hq

theorem ValidCall.loops {s body c v} (h : ValidCall s body c v) : ValidCall s body (loopsCall s c) v :=
  ⟨fun q hq => h.declared q (loopsCall_kw_sub s c q hq), fun q hq => h.noaxis q (loopsCall_kw_sub s c q hq),
   loopsCall_hasIntArr s c h.noint, by simpa [applyFn, loopsCall_bind s c h.noaxis] using h.ok⟩

theorem ValidCall.pd2np_eq {s body c v} (h : ValidCall s body c v) (exc : List String) : pd2npCall exc c = c :=
  pd2npCall_of_no exc c h.noint

/-- what reaches the layers below is again a valid call with the same result -/
theorem ValidCall.reach {s body} : ∀ (ch : List (Cls × PDict)) {c v}, ValidCall s body c v →
    ValidCall s body (reach s ch c) v
  | [], _, _, h => h
  | (cls, p) :: rest, c, v, h => by
      cases cls <;> simp only [Pyg.reach]
      · exact ValidCall.reach rest h
      · exact ValidCall.reach rest h
      · rw [h.kwFilter_eq]; exact ValidCall.reach rest h
      · exact ValidCall.reach rest h
      · exact ValidCall.reach rest h.loops
      · rw [h.pd2np_eq]; exact ValidCall.reach rest h

theorem attempts_ok (run : HSt → HSt × Res Val) (n : Nat) (st st1 : HSt) (v : Val)
    (h : run st = (st1, .ok v)) : attempts run n st = (st1, .ok v) := by
  cases n <;> simp [attempts, h]

/-- below the cache layer: a valid call runs the plain function exactly once and returns its result -/
theorem evalH_below (s : Sig) (body : PDict → Res Val) (unh : Call → Bool) :
    ∀ (below : List (Cls × PDict)) (st : HSt) (c : Call) (v : Val), noCache below → ValidCall s body c v →
      evalH s body unh below st c = ({ st with evals := st.evals ++ [reach s below c] }, .ok v)
  | [], st, c, v, _, h => by
      have hok := h.ok
      unfold applyFn at hok
      simp only [evalH, reach]
      cases hb : bindRef s c with
      | error e => simp [hb] at hok
      | ok b => simp only [hb] at hok ⊢; rw [hok]
  | (cls, p) :: rest, st, c, v, hn, h => by
      obtain ⟨hne, hr⟩ := noCache_cons hn
      have ih := evalH_below s body unh rest st c v hr h
      cases cls
      · simp only [evalH, reach]
        rw [attempts_ok _ _ st _ v ih]
      · simp only [evalH, reach, ih]
      · simp only [evalH, reach, h.kwFilter_eq, ih]
      · exact absurd rfl hne
      · simp only [evalH, reach]
        exact evalH_below s body unh rest st _ v hr h.loops
      · simp only [evalH, reach, h.pd2np_eq, ih]

/-- what one call does to the state of the cache layer when everything below it is transparent -/
def cacheStep (st : HSt) (k v : Val) (e : Call) : HSt × Res Val :=
  match st.cache.lookup k with
  | some w => (st, .ok w)
  | Option.none => ({ cache := st.cache ++ [(k, v)], evals := st.evals ++ [e] }, .ok v)

theorem cacheStep_ok (st : HSt) (k v : Val) (e : Call) : ∃ st1 w, cacheStep st k v e = (st1, .ok w) := by
  unfold cacheStep
  cases st.cache.lookup k with
  | some w => exact ⟨_, _, rfl⟩
  | none => exact ⟨_, _, rfl⟩

/-- one valid call through a stack with one cache layer -/
theorem evalH_through (s : Sig) (body : PDict → Res Val) (unh : Call → Bool) (p : PDict)
    (below : List (Cls × PDict)) (hb : noCache below) :
    ∀ (above : List (Cls × PDict)) (st : HSt) (c : Call) (v : Val), noCache above → ValidCall s body c v →
      unh (reach s above c) = false →
      evalH s body unh (above ++ (Cls.cache, p) :: below) st c =
        cacheStep st (callKey (reach s above c)) v (reach s below (reach s above c))
  | [], st, c, v, _, h, hu => by
      simp only [reach] at hu ⊢
      simp only [List.nil_append, evalH, hu, Bool.false_eq_true, if_false, cacheStep]
      cases st.cache.lookup (callKey c) with
      | some w => rfl
      | none => simp only [evalH_below s body unh below st c v hb h]
  | (cls, q) :: rest, st, c, v, hn, h, hu => by
      obtain ⟨hne, hr⟩ := noCache_cons hn
      cases cls
      · simp only [reach] at hu ⊢
        have ih := evalH_through s body unh p below hb rest st c v hr h hu
        obtain ⟨st1, w, hw⟩ := cacheStep_ok st (callKey (reach s rest c)) v (reach s below (reach s rest c))
        simp only [List.cons_append, evalH]
        rw [attempts_ok _ _ st st1 w (ih.trans hw), hw]
      · simp only [reach] at hu ⊢
        have ih := evalH_through s body unh p below hb rest st c v hr h hu
        obtain ⟨st1, w, hw⟩ := cacheStep_ok st (callKey (reach s rest c)) v (reach s below (reach s rest c))
        simp only [List.cons_append, evalH, ih, hw]
      · simp only [reach] at hu ⊢
        simp only [List.cons_append, evalH]
        rw [h.kwFilter_eq] at hu ⊢
        exact evalH_through s body unh p below hb rest st c v hr h hu
      · exact absurd rfl hne
      · simp only [reach] at hu ⊢
        simp only [List.cons_append, evalH]
        exact evalH_through s body unh p below hb rest st _ v hr h.loops hu
      · simp only [reach] at hu ⊢
        simp only [List.cons_append, evalH]
        rw [h.pd2np_eq] at hu ⊢
        exact evalH_through s body unh p below hb rest st c v hr h hu

/-- a valid call whose key is unhashable (K5) goes through the `except` path of the cache layer: the plain function is
executed once, the reply is `f`'s, nothing is stored -/
theorem evalH_through_unh (s : Sig) (body : PDict → Res Val) (unh : Call → Bool) (p : PDict)
    (below : List (Cls × PDict)) (hb : noCache below) :
    ∀ (above : List (Cls × PDict)) (st : HSt) (c : Call) (v : Val), noCache above → ValidCall s body c v →
      unh (reach s above c) = true →
      evalH s body unh (above ++ (Cls.cache, p) :: below) st c =
        ({ st with evals := st.evals ++ [reach s below (reach s above c)] }, .ok v)
  | [], st, c, v, _, h, hu => by
      simp only [reach] at hu ⊢
      simp only [List.nil_append, evalH, hu, if_true]
      exact evalH_below s body unh below st c v hb h
  | (cls, q) :: rest, st, c, v, hn, h, hu => by
      obtain ⟨hne, hr⟩ := noCache_cons hn
      cases cls
      · simp only [reach] at hu ⊢
        have ih := evalH_through_unh s body unh p below hb rest st c v hr h hu
        simp only [List.cons_append, evalH]
        rw [attempts_ok _ _ st _ v ih]
      · simp only [reach] at hu ⊢
        have ih := evalH_through_unh s body unh p below hb rest st c v hr h hu
        simp only [List.cons_append, evalH, ih]
      · simp only [reach] at hu ⊢
        simp only [List.cons_append, evalH]
        rw [h.kwFilter_eq] at hu ⊢
        exact evalH_through_unh s body unh p below hb rest st c v hr h hu
      · exact absurd rfl hne
      · simp only [reach] at hu ⊢
        simp only [List.cons_append, evalH]
        exact evalH_through_unh s body unh p below hb rest st _ v hr h.loops hu
      · simp only [reach] at hu ⊢
        simp only [List.cons_append, evalH]
        rw [h.pd2np_eq] at hu ⊢
        exact evalH_through_unh s body unh p below hb rest st c v hr h hu

/-- the result of `f` as a value (used on valid calls only) -/
def resultOf (s : Sig) (body : PDict → Res Val) (c : Call) : Val :=
  match applyFn s body c with
  | .ok v => v
  | .error _ => .cell .none

theorem ValidCall.resultOf_eq {s body c v} (h : ValidCall s body c v) : resultOf s body c = v := by
  simp [resultOf, h.ok]

/-- **refinement**: on valid, hashable calls the stack behaves as the plain cache of `f`, run on the calls as the
cache layer receives them — same stored results, same replies, as many executions of the plain function -/
theorem runH_refines (s : Sig) (body : PDict → Res Val) (unh : Call → Bool) (p : PDict)
    (above below : List (Cls × PDict)) (ha : noCache above) (hb : noCache below) :
    ∀ (calls : List Call) (st : HSt) (cst : CacheSt), st.cache = cst.cache →
      (∀ c ∈ calls, (∃ v, ValidCall s body c v) ∧ unh (reach s above c) = false) →
      (runH s body unh (above ++ (Cls.cache, p) :: below) st calls).1.cache =
        (runCache (fun c => .ok (resultOf s body c)) cst (calls.map (reach s above))).1.cache ∧
      (runH s body unh (above ++ (Cls.cache, p) :: below) st calls).2 =
        (runCache (fun c => .ok (resultOf s body c)) cst (calls.map (reach s above))).2 ∧
      (runH s body unh (above ++ (Cls.cache, p) :: below) st calls).1.evals.length + cst.evals.length =
        st.evals.length + (runCache (fun c => .ok (resultOf s body c)) cst (calls.map (reach s above))).1.evals.length
  | [], st, cst, hc, _ => by simp [runH, runCache, hc]
  | c :: cs, st, cst, hc, hv => by
      obtain ⟨⟨v, hval⟩, hu⟩ := hv c (by simp)
      have hstep := evalH_through s body unh p below hb above st c v ha hval hu
      have hres : resultOf s body (reach s above c) = v := (ValidCall.reach above hval).resultOf_eq
      simp only [runH, List.map_cons, runCache, hstep]
      cases hl : cst.cache.lookup (callKey (reach s above c)) with
      | some w =>
        have hl' : st.cache.lookup (callKey (reach s above c)) = some w := by rw [hc]; exact hl
        rw [cacheCall_hit _ cst _ w hl]
        simp only [cacheStep, hl']
        have ih := runH_refines s body unh p above below ha hb cs st cst hc (fun x hx => hv x (by simp [hx]))
        exact ⟨ih.1, by rw [ih.2.1], ih.2.2⟩
      | none =>
        have hl' : st.cache.lookup (callKey (reach s above c)) = none := by rw [hc]; exact hl
        rw [cacheCall_miss _ cst _ hl]
        simp only [cacheStep, hl', hres]
        have ih := runH_refines s body unh p above below ha hb cs
          { cache := st.cache ++ [(callKey (reach s above c), v)],
            evals := st.evals ++ [reach s below (reach s above c)] }
          { cache := cst.cache ++ [(callKey (reach s above c), v)],
            evals := cst.evals ++ [callKey (reach s above c)] }
          (by simp [hc]) (fun x hx => hv x (by simp [hx]))
        refine ⟨ih.1, by rw [ih.2.1], ?_⟩
        have := ih.2.2
        simp only [List.length_append, List.length_cons, List.length_nil] at this
        omega

/-- under the hypotheses of a valid call the only layer that changes what the cache layer sees is `loops`, which
passes a first argument given by keyword positionally -/
theorem reach_valid_eq (s : Sig) (body : PDict → Res Val) :
    ∀ (ch : List (Cls × PDict)) (c : Call) (v : Val), ValidCall s body c v →
      reach s ch c = if Cls.loops ∈ classes ch then loopsCall s c else c
  | [], c, v, _ => by simp [reach, classes]
  | (cls, p) :: rest, c, v, h => by
      have ih := reach_valid_eq s body rest c v h
      have ihl := reach_valid_eq s body rest (loopsCall s c) v h.loops
      have hll : loopsCall s (loopsCall s c) = loopsCall s c := by
        cases c with
        | mk args kw =>
          have hax := h.noaxis
          simp only at hax
          cases args with
          | cons a as => simp [loopsCall, popAxis_eq kw hax]
          | nil =>
            cases hp : s.params with
            | nil => simp [loopsCall, hp]
            | cons top ps =>
              cases hl : kw.lookup top with
              | none => simp [loopsCall, hp, hl]
              | some arg =>
                have : ∀ q ∈ kw.erase top, q.1 ≠ "axis" := fun q hq => hax q (List.mem_filter.1 hq).1
                simp [loopsCall, hp, hl, popAxis_eq _ this]
      have hm : ∀ x : Cls, x ≠ Cls.loops →
          (Cls.loops ∈ classes ((x, p) :: rest) ↔ Cls.loops ∈ classes rest) := by
        intro x hx
        simp only [classes, List.map_cons, List.mem_cons]
        exact ⟨fun e => e.resolve_left fun e' => hx e'.symm, Or.inr⟩
      have key : ∀ x : Cls, x ≠ Cls.loops →
          (if Cls.loops ∈ classes ((x, p) :: rest) then loopsCall s c else c) =
            (if Cls.loops ∈ classes rest then loopsCall s c else c) := by
        intro x hx
        by_cases hL : Cls.loops ∈ classes rest
        · rw [if_pos hL, if_pos ((hm x hx).2 hL)]
        · rw [if_neg hL, if_neg (fun e => hL ((hm x hx).1 e))]
      cases cls
      · rw [key _ (by decide)]; simpa [reach] using ih
      · rw [key _ (by decide)]; simpa [reach] using ih
      · rw [key _ (by decide)]; simpa [reach, h.kwFilter_eq] using ih
      · rw [key _ (by decide)]; simpa [reach] using ih
      · have : Cls.loops ∈ classes ((Cls.loops, p) :: rest) := by simp [classes]
        rw [if_pos this]
        simp only [reach]
        rw [ihl, hll]; simp
      · rw [key _ (by decide)]; simpa [reach, h.pd2np_eq] using ih

/-! ### the first call of a history is `evalChain` -/

theorem attempts_fresh (run : HSt → HSt × Res Val) (r0 : Res Val)
    (hrun : ∀ st, st.cache = [] → (run st).2 = r0 ∧ (∀ e, (run st).2 = .error e → (run st).1.cache = [])) :
    ∀ (n : Nat) (st : HSt), st.cache = [] →
      (attempts run n st).2 = r0 ∧ (∀ e, (attempts run n st).2 = .error e → (attempts run n st).1.cache = [])
  | 0, st, h => hrun st h
  | n + 1, st, h => by
      obtain ⟨h1, h2⟩ := hrun st h
      simp only [attempts]
      cases hr : run st with
      | mk st1 r =>
        rw [hr] at h1 h2
        cases r with
        | ok v => exact ⟨h1, fun e he => by cases he⟩
        | error e =>
          simp only
          exact attempts_fresh run r0 hrun n st1 (h2 e rfl)

/-- on an empty cache one call of the history model returns what `evalChain` returns (for EVERY call, valid or not,
raising or not), and a raising call leaves the cache empty -/
theorem evalH_fresh (s : Sig) (body : PDict → Res Val) (unh : Call → Bool) :
    ∀ (ch : List (Cls × PDict)) (st : HSt) (c : Call), st.cache = [] →
      (evalH s body unh ch st c).2 = evalChain s body ch c ∧
      (∀ e, (evalH s body unh ch st c).2 = .error e → (evalH s body unh ch st c).1.cache = [])
  | [], st, c, h => by
      simp only [evalH, evalChain, applyFn]
      cases bindRef s c with
      | error e => exact ⟨rfl, fun _ _ => h⟩
      | ok b => exact ⟨rfl, fun _ _ => h⟩
  | (cls, p) :: rest, st, c, h => by
      cases cls
      · have ha := attempts_fresh (fun st => evalH s body unh rest st c) (evalChain s body rest c)
          (fun st' h' => evalH_fresh s body unh rest st' c h') (repeatOf p) st h
        simp only [evalH, evalChain]
        cases hr : attempts (fun st => evalH s body unh rest st c) (repeatOf p) st with
        | mk st1 r =>
          rw [hr] at ha
          obtain ⟨h1, h2⟩ := ha
          simp only at h1 h2
          rw [← h1]
          cases r with
          | ok v => exact ⟨rfl, fun e he => by cases he⟩
          | error e =>
            simp only
            by_cases hp : returnsValue p = false
            · simp only [hp, if_true]; exact ⟨trivial, fun _ _ => h2 e rfl⟩
            · have hp' : returnsValue p = true := by simpa using hp
              simp only [hp', Bool.true_eq_false, if_false]; exact ⟨trivial, fun e he => by cases he⟩
      · have ih := evalH_fresh s body unh rest st c h
        simp only [evalH, evalChain]
        cases hr : evalH s body unh rest st c with
        | mk st1 r =>
          rw [hr] at ih
          obtain ⟨h1, h2⟩ := ih
          simp only at h1 h2
          rw [← h1]
          cases r with
          | ok v => exact ⟨rfl, fun e he => by cases he⟩
          | error e => exact ⟨rfl, fun e he => by cases he⟩
      · simp only [evalH, evalChain]; exact evalH_fresh s body unh rest st _ h
      · have ih := evalH_fresh s body unh rest st c h
        simp only [evalH, evalChain]
        by_cases hu : unh c = true
        · simp only [hu, if_true]; exact ih
        · simp only [hu, Bool.false_eq_true, if_false, h, List.lookup_nil]
          cases hr : evalH s body unh rest st c with
          | mk st1 r =>
            rw [hr] at ih
            obtain ⟨h1, h2⟩ := ih
            simp only at h1 h2
            cases r with
            | ok v => simp only; exact ⟨h1, fun e he => by cases he⟩
            | error e => simp only; exact evalH_fresh s body unh rest st1 c (h2 e rfl)
      · simp only [evalH, evalChain]; exact evalH_fresh s body unh rest st _ h
      · simp only [evalH, evalChain]; exact evalH_fresh s body unh rest st _ h

/-- a stack whose wrapper classes are pairwise distinct has no cache layer or exactly one -/
theorem split_at_cache : ∀ (ch : List (Cls × PDict)), (classes ch).Nodup →
    noCache ch ∨ ∃ above p below, ch = above ++ (Cls.cache, p) :: below ∧ noCache above ∧ noCache below
  | [], _ => Or.inl (by intro w hw; simp at hw)
  | (cls, p) :: rest, h => by
      simp only [classes, List.map_cons, List.nodup_cons] at h
      by_cases hc : cls = Cls.cache
      · subst hc
        refine Or.inr ⟨[], p, rest, rfl, by intro w hw; simp at hw, fun w hw e => h.1 ?_⟩
        exact List.mem_map.2 ⟨w, hw, e⟩
      · rcases split_at_cache rest h.2 with hn | ⟨above, q, below, he, ha, hb⟩
        · left
          intro w hw
          rcases List.mem_cons.1 hw with rfl | hw
          · exact hc
          · exact hn w hw
        · right
          refine ⟨(cls, p) :: above, q, below, by rw [he]; rfl, ?_, hb⟩
          intro w hw
          rcases List.mem_cons.1 hw with rfl | hw
          · exact hc
          · exact ha w hw

/-- a history on a stack without a cache layer: every valid call executes the plain function once -/
theorem runH_noCache (s : Sig) (body : PDict → Res Val) (unh : Call → Bool) (ch : List (Cls × PDict))
    (hn : noCache ch) : ∀ (calls : List Call) (st : HSt), (∀ c ∈ calls, ∃ v, ValidCall s body c v) →
      (runH s body unh ch st calls).2 = calls.map (applyFn s body) ∧
      (runH s body unh ch st calls).1.evals = st.evals ++ calls.map (reach s ch)
  | [], st, _ => by simp [runH]
  | c :: cs, st, hv => by
      obtain ⟨v, hval⟩ := hv c (by simp)
      have ih := runH_noCache s body unh ch hn cs
        { st with evals := st.evals ++ [reach s ch c] } (fun x hx => hv x (by simp [hx]))
      simp only [runH, evalH_below s body unh ch st c v hn hval, List.map_cons]
      exact ⟨by rw [ih.1, hval.ok], by rw [ih.2]; simp⟩

end Pyg
