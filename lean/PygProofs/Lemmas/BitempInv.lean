/-
  Helper lemmas for C17 (g4): the store invariant as a state-machine invariant, publications as stamped rows
  (`historyF`), string selectors.
-/
import PygModel.Bitemp
import PygProofs.Lemmas.BitempLemmas

namespace Pyg.Bitemp
open List

/-! ### frames with one row per date -/

theorem group_le_one_of_nodup (st : Store) (h : (st.map (·.date)).Nodup) (d : Int) : (group d st).length ≤ 1 := by
  induction st with
  | nil => simp [group]
  | cons r rest ih =>
    simp only [List.map_cons, List.nodup_cons] at h
    by_cases hr : r.date = d
    · have : group d rest = [] := by
        simp only [group, List.filter_eq_nil_iff]
        intro x hx hxd
        apply h.1
        simp only [List.mem_map]
        exact ⟨x, hx, by simpa [hr] using hxd⟩
      have e : group d (r :: rest) = r :: group d rest := by simp [group, hr]
      rw [e, this]; simp
    · have e : group d (r :: rest) = group d rest := by simp [group, hr]
      rw [e]; exact ih h.2

/-- a frame with one row per date has the shape `bi_merge` leaves -/
theorem good_of_nodup (st : Store) (h : (st.map (·.date)).Nodup) : Good st := by
  intro d
  have := group_le_one_of_nodup st h d
  match hg : group d st, this with
  | [], _ => simp [SortedLt, NanFirst]
  | [a], _ => simp [SortedLt, NanFirst]
  | a :: b :: rest, hl => simp at hl

/-! ### one merge, per-date form -/

/-- one merge keeps the invariant as soon as, PER DATE, the new rows are stamped no earlier than what was published for that
    date so far (and are themselves in stamp order) -/
theorem inv_merge_cols {st rows n : Store} (h : Inv st rows) (hs : ∀ d, SortedLe (group d (rows ++ n))) :
    Inv (mergeFrames [st, n]) (rows ++ n) := by
  obtain ⟨hg, he, hm⟩ := h
  refine ⟨mergeFrames_good _ _, ?_, ?_⟩
  · refine (mergeFrames_specEq st n).trans ((specEq_sortStamp_of_colSorted _ ?_).trans (specEq_append he n))
    intro d
    have hsd := hs d
    rw [group_append] at hsd ⊢
    obtain ⟨_, hn, hcross⟩ := List.pairwise_append.mp hsd
    refine List.pairwise_append.mpr ⟨(hg d).1.le, hn, ?_⟩
    intro a ha b hb
    exact hcross a (mem_group.mpr ⟨hm a (mem_group.mp ha).1, (mem_group.mp ha).2⟩) b hb
  · intro r hr
    rcases List.mem_append.mp (mergeFrames_subset _ _ hr) with h1 | h1
    · exact List.mem_append_left _ (hm r h1)
    · exact List.mem_append_right _ h1

def mergeStepF (st : Option Store) (f : Store) : Option Store := some (biMerge st f)

theorem historyF_eq (fs : List Store) : historyF fs = fs.foldl mergeStepF Option.none := rfl

theorem invF_foldl (rest : List Store) : ∀ (st rows : Store), Inv st rows →
    (∀ d, SortedLe (group d (rows ++ rest.flatten))) →
    ∃ st', rest.foldl mergeStepF (some st) = some st' ∧ Inv st' (rows ++ rest.flatten) := by
  induction rest with
  | nil => intro st rows h _; exact ⟨st, rfl, by simpa using h⟩
  | cons f rest ih =>
    intro st rows h hs
    have e : rows ++ (f :: rest).flatten = (rows ++ f) ++ rest.flatten := by simp
    rw [e] at hs ⊢
    have hs1 : ∀ d, SortedLe (group d (rows ++ f)) := by
      intro d
      have := hs d
      rw [group_append] at this
      exact (List.pairwise_append.mp this).1
    exact ih _ _ (inv_merge_cols h hs1) hs

/-- the invariant after any history of stamped frames whose first frame has the store shape and in which, per date, the stamps
    are non-decreasing in merge order -/
theorem historyF_inv (f : Store) (rest : List Store) (h0 : Good f)
    (hs : ∀ d, SortedLe (group d (f :: rest).flatten)) :
    ∃ st, historyF (f :: rest) = some st ∧ Inv st (f :: rest).flatten := by
  have hi : Inv f f := ⟨h0, SpecEq.refl _, fun _ h => h⟩
  have := invF_foldl rest f f hi (by simpa using hs)
  simpa [historyF_eq, List.foldl_cons, mergeStepF, biMerge] using this

theorem history_eq_historyF (log : List Version) : history log = historyF (log.map fun v => Bi v.ts v.stamp) := by
  unfold history historyF
  rw [List.foldl_map]

/-! ### the specification on rows -/

theorem specReadR_eq (rows : Store) (asof : Option Int) : specReadR rows asof = specRows rows asof := by
  cases asof with
  | none => simp only [specReadR, specRows, filter_vis_none]
  | some T => simp only [specReadR, specRows, group_filter]; rfl

theorem specFirstR_eq (rows : Store) (asof : Option Int) : specFirstR rows asof = firstRows rows asof := by
  cases asof with
  | none => simp only [specFirstR, firstRows, filter_vis_none]
  | some T => simp only [specFirstR, firstRows, group_filter]; rfl

theorem specRead_eq_R (log : List Version) (asof : Option Int) : specRead log asof = specReadR (logRows log) asof := rfl

theorem specFirst_eq_R (log : List Version) (asof : Option Int) : specFirst log asof = specFirstR (logRows log) asof := rfl

/-! ### string selectors -/

/-- pandas' `last()` (last non-NaN) is the fold `lastVal` - on every group, whatever its shape -/
theorem find_rev_eq_lastVal (w : Store) : (w.find? (·.val.isSome)).bind (·.val) = lastVal w.reverse := by
  induction w with
  | nil => rfl
  | cons r w ih =>
    rw [List.reverse_cons, lastVal_snoc, List.find?_cons]
    cases hv : r.val with
    | none => simpa using ih
    | some x => simp [hv]

theorem lastNonNan_eq_lastVal (v : Store) : lastNonNan v = lastVal v := by
  have := find_rev_eq_lastVal v.reverse
  rwa [List.reverse_reverse] at this

theorem all_nan_of_leadingNan : ∀ (l : Store), leadingNan l = l.length → ∀ x ∈ l, x.val = Option.none
  | [], _ => by simp
  | r :: l, h => by
    cases hv : r.val with
    | some y => simp [leadingNan, hv] at h
    | none =>
      have e2 : leadingNan (r :: l) = leadingNan l + 1 := by simp [leadingNan, hv]
      rw [e2, List.length_cons] at h
      intro x hx
      rcases List.mem_cons.mp hx with rfl | hx
      · exact hv
      · exact all_nan_of_leadingNan l (by omega) x hx

theorem firstNonNan_nanFirst (v : Store) : firstNonNan v = nthVal (leadingNan v) v := by
  induction v with
  | nil => simp [firstNonNan, nthVal, nth, leadingNan]
  | cons r rest ih =>
    cases hv : r.val with
    | some x =>
      simp [firstNonNan, leadingNan, hv, nthVal, nth]
    | none =>
      have e1 : firstNonNan (r :: rest) = firstNonNan rest := by simp [firstNonNan, hv]
      have e2 : leadingNan (r :: rest) = leadingNan rest + 1 := by simp [leadingNan, hv]
      rw [e1, e2, ih]
      -- clamping: if every row is NaN, the clamped index still hits a NaN row
      simp only [nthVal, nth]
      have hle : leadingNan rest ≤ rest.length := by
        unfold leadingNan; exact (List.takeWhile_sublist _).length_le
      have p1 : (0 : Int) ≤ ((leadingNan rest : Nat) : Int) := Int.natCast_nonneg _
      have p2 : (0 : Int) ≤ ((leadingNan rest + 1 : Nat) : Int) := Int.natCast_nonneg _
      rw [if_pos p1, if_pos p2]
      simp only [Int.toNat_natCast, List.length_cons, Nat.add_sub_cancel]
      by_cases hlt : leadingNan rest < rest.length
      · have a1 : min (leadingNan rest) (rest.length - 1) = leadingNan rest := by omega
        have a2 : min (leadingNan rest + 1) rest.length = leadingNan rest + 1 := by omega
        rw [a1, a2]; simp
      · have heq : leadingNan rest = rest.length := by omega
        -- all rows NaN
        have hall : ∀ x ∈ rest, x.val = Option.none := all_nan_of_leadingNan rest heq
        have b1 : ∀ (i : Nat) (l : Store), (∀ x ∈ l, x.val = Option.none) → (l[i]?).bind (·.val) = Option.none := by
          intro i l hl
          cases hli : l[i]? with
          | none => rfl
          | some y => simp [hl y (List.mem_of_getElem? hli)]
        rw [b1 _ rest hall, b1 _ (r :: rest) (by intro x hx; rcases List.mem_cons.mp hx with rfl | hx; exact hv; exact hall x hx)]

theorem biReadS_eq (st : Store) (asof : Option Int) (sel : Sel) :
    biReadS st asof sel = (dates (sortStamp (st.filter (vis asof)))).map fun d =>
      (d, sel.apply (group d (sortStamp (st.filter (vis asof))))) := by
  cases asof with
  | none => simp only [biReadS, filter_vis_none]
  | some T => rfl

/-- `what='last'` is the fold of the store's own visible rows whenever every date's rows are in stamp order
    (no NaN-first shape is needed) -/
theorem biReadS_last (st : Store) (hs : ∀ d, SortedLe (group d st)) (asof : Option Int) :
    biReadS st asof .last = specRows st asof := by
  rw [biReadS_eq]
  unfold specRows
  rw [dates_sortStamp]
  apply List.map_congr_left
  intro d _
  rw [group_sortStamp, group_filter, sortStamp_of_sorted ((hs d).sublist List.filter_sublist)]
  simp only [Sel.apply, lastNonNan_eq_lastVal]

/-! ### `Bi` with a bump -/

theorem mem_BiBump {ts : TS} {delta now : Int} {r : Row} :
    r ∈ BiBump ts delta now ↔ ∃ p ∈ ts, r = ⟨p.1, min (p.1 + delta) now, p.2⟩ := by
  simp only [BiBump, List.mem_map]
  constructor
  · rintro ⟨p, hp, rfl⟩; exact ⟨p, hp, rfl⟩
  · rintro ⟨p, hp, rfl⟩; exact ⟨p, hp, rfl⟩

theorem BiBump_dates (ts : TS) (delta now : Int) : (BiBump ts delta now).map (·.date) = ts.index := by
  simp [BiBump, TS.index, List.map_map, Function.comp_def]

end Pyg.Bitemp
