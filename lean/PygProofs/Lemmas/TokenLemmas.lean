/-
  The tokenizer of dt_bump (`period` regex applied repeatedly) on well-formed tenor text.
  A token is `[sign] digits unit`; its text is fed to the model's char-level scanner.
-/
import PygModel.Bump

namespace Pyg.Bump
open Pyg Pyg.Gen

inductive Sign where
  | none | plus | minus
  deriving Repr, DecidableEq

/-- one period token as written: optional sign, a non-empty run of ASCII digits, a unit letter -/
structure Tok where
  sign : Sign
  digits : List Char
  unit : Char

def Tok.text (k : Tok) : List Char :=
  (match k.sign with | .none => [] | .plus => ['+'] | .minus => ['-']) ++ k.digits ++ [k.unit]

/-- `int(bmp[:-1])` -/
def Tok.value (k : Tok) : Int :=
  match k.sign with
  | .minus => - (digitsVal k.digits : Int)
  | _ => (digitsVal k.digits : Int)

/-- well-formed: at least one digit, only digits, and a unit letter the regex accepts -/
def Tok.WF (k : Tok) : Prop := k.digits ≠ [] ∧ (∀ c ∈ k.digits, c.isDigit = true) ∧ k.unit ∈ Gen.periodUnits

instance (k : Tok) : Decidable k.WF := by unfold Tok.WF; infer_instance

theorem unit_not_digit : ∀ u ∈ Gen.periodUnits, u.isDigit = false := by decide

theorem spanDigits_run (ds : List Char) (u : Char) (rest : List Char) (hd : ∀ c ∈ ds, c.isDigit = true)
    (hu : u.isDigit = false) : spanDigits (ds ++ u :: rest) = (ds, u :: rest) := by
  induction ds with
  | nil => simp [spanDigits, hu]
  | cons c cs ih =>
    have hc : c.isDigit = true := hd c (by simp)
    have := ih (fun x hx => hd x (by simp [hx]))
    simp [spanDigits, hc, this]

theorem digit_not_sign (c : Char) (h : c.isDigit = true) : c ≠ '-' ∧ c ≠ '+' := by
  constructor <;> (intro e; subst e; revert h; decide)

theorem signSplit_digit (c : Char) (r : List Char) (h : c.isDigit = true) : signSplit (c :: r) = (false, c :: r) := by
  have hc := digit_not_sign c h
  unfold signSplit
  split
  · rename_i heq; simp only [List.cons.injEq] at heq; exact absurd heq.1 hc.1
  · rename_i heq; simp only [List.cons.injEq] at heq; exact absurd heq.1 hc.2
  · rfl

theorem signSplit_length (cs : List Char) : (signSplit cs).2.length ≤ cs.length := by
  unfold signSplit; split <;> simp

/-- the scanner reads exactly one well-formed token off the front of the text, whatever follows -/
theorem nextToken_text (k : Tok) (wf : k.WF) (rest : List Char) :
    nextToken (k.text ++ rest) = some (k.value, k.unit, rest) := by
  obtain ⟨hne, hd, hu⟩ := wf
  have hnd := unit_not_digit k.unit hu
  have hspan := spanDigits_run k.digits k.unit rest hd hnd
  obtain ⟨d0, ds, hds⟩ : ∃ d0 ds, k.digits = d0 :: ds := by
    cases h : k.digits with
    | nil => exact absurd h hne
    | cons a b => exact ⟨a, b, rfl⟩
  have hd0 : d0.isDigit = true := hd d0 (by simp [hds])
  unfold nextToken Tok.text Tok.value
  cases hs : k.sign
  · simp only [List.nil_append, List.append_assoc, List.cons_append]
    rw [hds] at hspan ⊢
    simp only [List.cons_append] at hspan ⊢
    simp only [signSplit_digit d0 _ hd0, hspan, hu, if_true, Bool.false_eq_true, if_false]
  · simp only [List.cons_append, List.nil_append, List.append_assoc, signSplit]
    simp only [hspan, hu, if_true, Bool.false_eq_true, if_false]
  · simp only [List.cons_append, List.nil_append, List.append_assoc, signSplit]
    simp only [hspan, hu, if_true]

theorem spanDigits_length (cs : List Char) : (spanDigits cs).2.length ≤ cs.length := by
  induction cs with
  | nil => simp [spanDigits]
  | cons c cs ih => unfold spanDigits; split <;> simp <;> omega

/-- every token consumes at least one character (so `cs.length + 1` is enough fuel) -/
theorem nextToken_shorter (cs : List Char) (n : Int) (c : Char) (rest : List Char)
    (h : nextToken cs = some (n, c, rest)) : rest.length < cs.length := by
  unfold nextToken at h
  simp only [] at h
  have h1 := signSplit_length cs
  have h2 := spanDigits_length (signSplit cs).2
  split at h
  · cases h
  · cases h
  · rename_i ds u r hsp
    rw [hsp] at h2
    split at h
    · simp only [Option.some.injEq, Prod.mk.injEq] at h
      obtain ⟨_, _, hr⟩ := h
      subst hr
      simp only [List.length_cons] at h2
      omega
    · cases h

/-- the result of the loop does not depend on the fuel once there is more fuel than text -/
theorem loop_fuel (f₁ f₂ : Nat) (cs : List Char) (t : Int) (h₁ : cs.length < f₁) (h₂ : cs.length < f₂) :
    loop f₁ cs t = loop f₂ cs t := by
  induction f₁ generalizing f₂ cs t with
  | zero => omega
  | succ f₁ ih =>
    cases f₂ with
    | zero => omega
    | succ f₂ =>
      unfold loop
      cases hn : nextToken cs with
      | none => rfl
      | some p =>
        obtain ⟨n, c, rest⟩ := p
        have hs := nextToken_shorter cs n c rest hn
        simp only []
        cases hb : Gen.bumpUnit c n with
        | none => exact ih f₂ rest t (by omega) (by omega)
        | some st =>
          simp only []
          cases applyStep t st with
          | error e => rfl
          | ok t' => exact ih f₂ rest t' (by omega) (by omega)

/-- what a token does -/
def applyTok (t : Int) (k : Tok) : Res Int :=
  match Gen.bumpUnit k.unit k.value with
  | some st => applyStep t st
  | none => .ok t

/-- the parts of a compound tenor, applied left to right -/
def runToks (t : Int) : List Tok → Res Int
  | [] => .ok t
  | k :: ks => (applyTok t k).bind fun t' => runToks t' ks

end Pyg.Bump
