/-
  C04 (round k3): year-first texts `yyyy<sep>m<sep>d[ time]` with ANY separator of the quantifier and the compact text `yyyymmdd`
  pass `strip`, `slashes` and `squeeze` unchanged, so the theorems about `dtCs` are theorems about `dtStr` = `dt(<string>)`.
-/
import PygProofs.Lemmas.SlashesLemmas

namespace Pyg.DateParse
open Pyg Pyg.Bump Pyg.Gen

/-- ONE separator of the quantifier's set in front of a run of plain characters is kept as it is -/
theorem squeezeGo_datesep_plain (s c : Char) (ds rest : List Char) (hs : isDateSep s = true) (h : ∀ x ∈ c :: ds, Plain x) :
    squeezeGo false false (s :: (c :: ds ++ rest)) = s :: (c :: ds ++ squeezeGo false false rest) := by
  rcases sep_cases s hs with rfl | rfl | rfl | rfl
  · exact squeezeGo_dash_plain c ds rest h
  · rw [squeezeGo_sep false false '/' _ (Or.inl rfl), squeezeGo_plain true false c ds rest h]; simp
  · have hp : ∀ x ∈ '.' :: c :: ds, Plain x := by
      intro x hx; simp only [List.mem_cons] at hx
      rcases hx with rfl | hx
      · unfold Plain; decide
      · exact h x (by simpa using hx)
    have := squeezeGo_plain_run ('.' :: c :: ds) rest hp
    simpa using this
  · exact squeezeGo_blank_plain c ds rest h

/-- `yyyy<s1>m<s2>d[ time]`, any two separators: unchanged by `strip`, `slashes` and `squeeze` -/
theorem pre_iso_any (yy mm dd tm : List Char) (s1 s2 : Char) (hms us : Int) (hy : IsNumeral 4 yy) (hy4 : yy.length = 4)
    (hm : IsNumeral 2 mm) (hd : IsNumeral 2 dd) (h1 : isDateSep s1 = true) (h2 : isDateSep s2 = true) (ht : TimeText tm hms us) :
    squeeze (slashes (strip (yy ++ s1 :: (mm ++ s2 :: (dd ++ tm))))) = yy ++ s1 :: (mm ++ s2 :: (dd ++ tm)) := by
  obtain ⟨c0, r, e0, h0⟩ := hy.cons
  have e : yy ++ s1 :: (mm ++ s2 :: (dd ++ tm)) = (yy ++ s1 :: (mm ++ s2 :: dd)) ++ tm := by simp
  have hs : strip (yy ++ s1 :: (mm ++ s2 :: (dd ++ tm))) = yy ++ s1 :: (mm ++ s2 :: (dd ++ tm)) := by
    rw [e]
    refine strip_text _ tm hms us c0 (r ++ s1 :: (mm ++ s2 :: dd)) (by rw [e0]; simp) (notWs_of_digit _ h0) ?_ ht
    have e2 : yy ++ s1 :: (mm ++ s2 :: dd) = (yy ++ s1 :: (mm ++ [s2])) ++ dd := by simp
    rw [e2]; exact hd.last_digit _
  rw [hs, slashes_long_numeral yy _ hy.2.2 (by omega) (ndh_cons _ _ (sep_props s1 h1).1)]
  unfold squeeze
  obtain ⟨m0, ms, rfl⟩ : ∃ c cs, mm = c :: cs := by
    cases mm with
    | nil => exact absurd rfl hm.1
    | cons c cs => exact ⟨c, cs, rfl⟩
  obtain ⟨d0, ds, rfl⟩ : ∃ c cs, dd = c :: cs := by
    cases dd with
    | nil => exact absurd rfl hd.1
    | cons c cs => exact ⟨c, cs, rfl⟩
  rw [squeezeGo_plain_run yy _ hy.plain, squeezeGo_datesep_plain s1 m0 ms _ h1 hm.plain,
    squeezeGo_datesep_plain s2 d0 ds _ h2 hd.plain, ht.squeeze_id]

/-- the compact text `yyyymmdd` (eight digits): unchanged by `strip`, `slashes` and `squeeze` -/
theorem pre_compact (y m d : Nat) :
    squeeze (slashes (strip (pad4 y ++ pad2 m ++ pad2 d))) = pad4 y ++ pad2 m ++ pad2 d := by
  have hall : ∀ c ∈ pad4 y ++ pad2 m ++ pad2 d, c.isDigit = true := by
    intro c hc
    simp only [List.mem_append] at hc
    rcases hc with (hc | hc) | hc
    · exact all_pad4 y c hc
    · exact all_pad2 m c hc
    · exact all_pad2 d c hc
  have hst : strip (pad4 y ++ pad2 m ++ pad2 d) = pad4 y ++ pad2 m ++ pad2 d := by
    apply strip_ends
    · intro c hc; exact notWs_of_digit c (hall c (List.mem_of_mem_head? hc))
    · intro c hc; exact notWs_of_digit c (hall c (List.mem_of_getLast? hc))
  rw [hst]
  have hsl := slashes_long_numeral (pad4 y ++ pad2 m ++ pad2 d) [] hall (by simp [pad4, pad2]) ndh_nil
  rw [List.append_nil] at hsl
  rw [hsl]; unfold squeeze
  have := squeezeGo_plain_run (pad4 y ++ pad2 m ++ pad2 d) [] (fun c hc => plain_of_digit c (hall c hc))
  rw [List.append_nil] at this
  rw [this]; simp [squeezeGo]

end Pyg.DateParse
