import PygModel.Bind

namespace Pyg

/-! ### python dict operations through `lookup` -/

theorem lookup_set (d : PDict) (k : String) (v : Val) (k' : String) :
    (d.set k v).lookup k' = if k' = k then some v else d.lookup k' := by
  induction d with
  | nil =>
    simp only [PDict.set, List.lookup_cons, List.lookup_nil]
    by_cases h : k' = k
    · subst h; simp
    · have : (k' == k) = false := by simpa using h
      simp [this, h]
  | cons p d ih =>
    obtain ⟨k0, v0⟩ := p
    simp only [PDict.set]
    split
    · rename_i h0; subst h0
      simp only [List.lookup_cons]
      by_cases h : k' = k0
      · subst h; simp
      · have : (k' == k0) = false := by simpa using h
        simp [this, h]
    · rename_i h0
      simp only [List.lookup_cons, ih]
      by_cases h1 : k' = k0
      · subst h1; simp [h0]
      · have : (k' == k0) = false := by simpa using h1
        simp [this]

/-- the value `u` finally assigns to `k`, starting from `b` -/
def ovr (u : PDict) (k : String) (b : Option Val) : Option Val :=
  u.foldl (fun acc p => if k = p.1 then some p.2 else acc) b

theorem lookup_update (d u : PDict) (k : String) : (d.update u).lookup k = ovr u k (d.lookup k) := by
  unfold PDict.update ovr
  induction u generalizing d with
  | nil => rfl
  | cons p u ih =>
    simp only [List.foldl_cons]
    rw [ih, lookup_set]

theorem ovr_not_mem (u : PDict) (k : String) (b : Option Val) (h : ∀ p ∈ u, p.1 ≠ k) : ovr u k b = b := by
  unfold ovr
  induction u generalizing b with
  | nil => rfl
  | cons p u ih =>
    simp only [List.foldl_cons]
    have : k ≠ p.1 := fun e => h p (by simp) e.symm
    simp only [this, ↓reduceIte]
    exact ih b fun q hq => h q (by simp [hq])

theorem ovr_of_lookup (u : PDict) (hn : (u.map (·.1)).Nodup) (k : String) (v : Val) (b : Option Val)
    (h : u.lookup k = some v) : ovr u k b = some v := by
  unfold ovr
  induction u generalizing b with
  | nil => simp at h
  | cons p u ih =>
    obtain ⟨k0, v0⟩ := p
    simp only [List.map_cons, List.nodup_cons] at hn
    simp only [List.foldl_cons]
    by_cases hk : k = k0
    · subst hk
      simp [List.lookup] at h
      subst h
      simp only [↓reduceIte]
      exact ovr_not_mem u k (some v0) (by
        intro q hq e; apply hn.1; rw [← e]; exact List.mem_map.2 ⟨q, hq, rfl⟩)
    · have : (k == k0) = false := by simpa using hk
      simp only [List.lookup, this] at h
      simp only [hk, ↓reduceIte]
      exact ih hn.2 b h

theorem lookup_none_of_not_mem (u : PDict) (k : String) (h : ∀ p ∈ u, p.1 ≠ k) : u.lookup k = none := by
  rw [List.lookup_eq_none_iff]
  intro p hp
  simpa [bne_iff_ne] using fun e => h p hp e.symm

/-- with distinct keys, `update` is lookup-wise "u, else d" -/
theorem lookup_update_nodup (d u : PDict) (hn : (u.map (·.1)).Nodup) (k : String) :
    (d.update u).lookup k = (u.lookup k).or (d.lookup k) := by
  rw [lookup_update]
  cases h : u.lookup k with
  | some v => simp [ovr_of_lookup u hn k v _ h]
  | none =>
    rw [List.lookup_eq_none_iff] at h
    rw [ovr_not_mem]
    · simp
    · intro p hp e
      have := h p hp
      simp [e] at this

theorem lookup_erase (d : PDict) (k k' : String) :
    (d.erase k).lookup k' = if k' = k then none else d.lookup k' := by
  unfold PDict.erase
  induction d with
  | nil => simp [List.lookup]
  | cons p d ih =>
    obtain ⟨k0, v0⟩ := p
    by_cases h0 : k0 = k
    · subst h0
      by_cases h : k' = k0
      · subst h; simp [List.filter, ih]
      · have : (k' == k0) = false := by simpa using h
        simp [List.filter, ih, h, List.lookup, this]
    · have hb : (k0 != k) = true := by simpa using h0
      simp only [List.filter, hb]
      by_cases h1 : k' = k0
      · subst h1; simp [List.lookup, h0]
      · have : (k' == k0) = false := by simpa using h1
        simp [List.lookup, this, ih]

/-! ### zips -/

theorem lookup_zip (xs : List String) (ys : List Val) (n : String) :
    (xs.zip ys).lookup n = if n ∈ xs then ys[xs.idxOf n]? else none := by
  induction xs generalizing ys with
  | nil => simp
  | cons x xs ih =>
    cases ys with
    | nil => simp
    | cons y ys =>
      simp only [List.zip_cons_cons, List.lookup_cons, List.idxOf_cons]
      by_cases h : n = x
      · subst h; simp
      · have h1 : (n == x) = false := by simpa using h
        have h2 : (x == n) = false := by simpa using fun e => h e.symm
        simp only [h1, h2, cond_false, List.mem_cons, h, false_or, List.getElem?_cons_succ]
        exact ih ys

theorem lookup_map_self (xs : List String) (g : String → Val) (n : String) :
    (xs.map fun x => (x, g x)).lookup n = if n ∈ xs then some (g n) else none := by
  induction xs with
  | nil => simp
  | cons x xs ih =>
    simp only [List.map_cons, List.lookup_cons]
    by_cases h : n = x
    · subst h; simp
    · have h1 : (n == x) = false := by simpa using h
      simp [h1, ih, h]

theorem idxOf_drop (xs : List String) (n : String) (m : Nat) (hm : m ≤ xs.idxOf n) :
    (xs.drop m).idxOf n = xs.idxOf n - m := by
  induction xs generalizing m with
  | nil => simp
  | cons x xs ih =>
    cases m with
    | zero => simp
    | succ m =>
      rw [List.idxOf_cons] at hm ⊢
      by_cases h : x = n
      · subst h; simp at hm
      · have h2 : (x == n) = false := by simpa using h
        simp only [h2, cond_false] at hm ⊢
        simp only [List.drop_succ_cons]
        rw [ih m (by omega)]
        omega

theorem not_mem_drop_of_idxOf_lt (xs : List String) (hn : xs.Nodup) (n : String) (m : Nat)
    (hm : xs.idxOf n < m) : n ∉ xs.drop m := by
  induction xs generalizing m with
  | nil => simp
  | cons x xs ih =>
    cases m with
    | zero => omega
    | succ m =>
      simp only [List.drop_succ_cons]
      rw [List.idxOf_cons] at hm
      simp only [List.nodup_cons] at hn
      by_cases h : x = n
      · subst h
        intro hmem
        exact hn.1 (List.mem_of_mem_drop hmem)
      · have h2 : (x == n) = false := by simpa using h
        simp only [h2, cond_false] at hm
        exact ih hn.2 m (by omega)


theorem mem_drop_of_idxOf_ge (xs : List String) (n : String) (m : Nat) (hmem : n ∈ xs)
    (hm : m ≤ xs.idxOf n) : n ∈ xs.drop m := by
  induction xs generalizing m with
  | nil => simp at hmem
  | cons x xs ih =>
    cases m with
    | zero => simpa using hmem
    | succ m =>
      rw [List.idxOf_cons] at hm
      by_cases h : x = n
      · subst h; simp at hm
      · have h2 : (x == n) = false := by simpa using h
        simp only [h2, cond_false] at hm
        simp only [List.drop_succ_cons]
        have : n ∈ xs := by
          rcases List.mem_cons.1 hmem with e | e
          · exact absurd e.symm h
          · exact e
        exact ih m this (by omega)

theorem zip_fst_mem_take (xs : List String) (ys : List Val) (p : String × Val) (h : p ∈ xs.zip ys) :
    p.1 ∈ xs.take ys.length := by
  induction xs generalizing ys with
  | nil => simp at h
  | cons x xs ih =>
    cases ys with
    | nil => simp at h
    | cons y ys =>
      simp only [List.zip_cons_cons, List.mem_cons] at h
      simp only [List.length_cons, List.take_succ_cons, List.mem_cons]
      rcases h with rfl | h
      · exact Or.inl rfl
      · exact Or.inr (ih ys h)

theorem lookup_filter_key (kw : PDict) (P : String → Bool) (k : String) :
    (kw.filter fun p => P p.1).lookup k = if P k then kw.lookup k else none := by
  induction kw with
  | nil => simp [List.lookup]
  | cons p kw ih =>
    obtain ⟨k0, v0⟩ := p
    by_cases hk : k = k0
    · subst hk
      by_cases hp : P k = true
      · simp [List.filter, hp]
      · have hp' : P k = false := by simpa using hp
        simp only [List.filter, hp', ih]
        simp
    · have hb : (k == k0) = false := by simpa using hk
      by_cases hp : P k0 = true
      · simp only [List.filter, hp, List.lookup_cons, hb, ih]
      · have hp' : P k0 = false := by simpa using hp
        simp only [List.filter, hp', List.lookup_cons, hb, ih]

theorem nodup_filter_keys (kw : PDict) (P : String × Val → Bool) (h : (kw.map (·.1)).Nodup) :
    ((kw.filter P).map (·.1)).Nodup := by
  apply List.Nodup.sublist _ h
  exact List.Sublist.map _ List.filter_sublist

theorem zip_keys_sublist : ∀ (xs : List String) (ys : List Val), ((xs.zip ys).map (·.1)).Sublist xs
  | [], _ => by simp
  | x :: xs, [] => by simp
  | x :: xs, y :: ys => by
      simp only [List.zip_cons_cons, List.map_cons]
      exact (zip_keys_sublist xs ys).cons_cons x

theorem nodup_zip_keys (xs : List String) (ys : List Val) (h : xs.Nodup) : ((xs.zip ys).map (·.1)).Nodup :=
  List.Nodup.sublist (zip_keys_sublist xs ys) h

/-- `argspec_defaults` gives every parameter its default -/
theorem argspecDefaults_lookup (s : Sig) (hs : s.WF) (k : String) (hk : k ∈ s.params) :
    (argspecDefaults s).lookup k = s.defaultOf (s.params.idxOf k) := by
  unfold argspecDefaults Sig.defaultOf
  rw [lookup_zip]
  by_cases hi : s.params.idxOf k < s.nreq
  · have := not_mem_drop_of_idxOf_lt s.params hs.1 k s.nreq hi
    simp [this, hi]
  · have hge : s.nreq ≤ s.params.idxOf k := by omega
    have := mem_drop_of_idxOf_ge s.params k s.nreq hk hge
    simp only [this, ↓reduceIte, hi, idxOf_drop s.params k s.nreq hge]

theorem argspecDefaults_keys (s : Sig) (p : String × Val) (h : p ∈ argspecDefaults s) : p.1 ∈ s.params := by
  unfold argspecDefaults at h
  have := (List.of_mem_zip h).1
  exact List.mem_of_mem_drop this


theorem mem_take_of_idxOf_lt (xs : List String) (k : String) (m : Nat) (hk : k ∈ xs)
    (h : xs.idxOf k < m) : k ∈ xs.take m := by
  induction xs generalizing m with
  | nil => simp at hk
  | cons x xs ih =>
    cases m with
    | zero => omega
    | succ m =>
      rw [List.idxOf_cons] at h
      simp only [List.take_succ_cons, List.mem_cons]
      by_cases hx : x = k
      · exact Or.inl hx.symm
      · have h2 : (x == k) = false := by simpa using hx
        simp only [h2, cond_false] at h
        have : k ∈ xs := by
          rcases List.mem_cons.1 hk with e | e
          · exact absurd e.symm hx
          · exact e
        exact Or.inr (ih m this (by omega))

/-- what the library's dict holds under a parameter name is what python binds to it -/
theorem param_lookup (s : Sig) (hs : s.WF) (c : Call)
    (hB : (c.kw.any fun p => (s.params.take c.args.length).contains p.1) = false)
    (k : String) (hk : k ∈ s.params) :
    ((c.kw.filter fun p => s.params.contains p.1).lookup k).or
      (((argspecDefaults s).update (s.params.zip c.args)).lookup k) = pyValue s c k := by
  rw [lookup_filter_key c.kw (fun n => s.params.contains n) k,
    lookup_update_nodup _ _ (nodup_zip_keys _ _ hs.1), lookup_zip, argspecDefaults_lookup s hs k hk]
  have hc : s.params.contains k = true := by simpa using hk
  simp only [hc, ↓reduceIte, hk]
  unfold pyValue
  by_cases hi : s.params.idxOf k < c.args.length
  · have hnone : c.kw.lookup k = none := by
      rw [List.lookup_eq_none_iff]
      intro p hp
      rw [List.any_eq_false] at hB
      have h1 := hB p hp
      have h2 := mem_take_of_idxOf_lt s.params k c.args.length hk hi
      simp only [bne_iff_ne]
      intro e
      apply h1
      simpa [← e] using h2
    have hsome : ∃ a, c.args[s.params.idxOf k]? = some a := ⟨c.args[s.params.idxOf k], by simp [hi]⟩
    obtain ⟨a, ha⟩ := hsome
    simp [hi, hnone]
  · have hn : c.args[s.params.idxOf k]? = none := by simp; omega
    simp only [hi, ↓reduceIte, hn, Option.none_or]
    cases c.kw.lookup k <;> simp

theorem bindRef_ok (s : Sig) (c : Call) (b : PDict) (h : bindRef s c = .ok b) :
    ¬(c.args.length > s.params.length ∧ s.varargs = none) ∧
    (c.kw.any fun p => (s.params.take c.args.length).contains p.1) = false ∧
    ¬(s.varkw = none ∧ extraKw s c.kw ≠ []) ∧
    (s.params.all fun n => (pyValue s c n).isSome) = true ∧
    b = s.params.map (fun n => (n, (pyValue s c n).getD (.cell .none))) ++ starEntries s c := by
  unfold bindRef at h
  split at h
  · cases h
  · split at h
    · cases h
    · split at h
      · cases h
      · split at h
        · rename_i h1 h2 h3 h4
          cases h
          exact ⟨h1, by simpa using h2, h3, h4, rfl⟩
        · cases h

theorem res1_lookup_other (s : Sig) (c : Call) (k : String) (hk : k ∉ s.params) :
    ((argspecDefaults s).update (s.params.zip c.args)).lookup k = none := by
  rw [lookup_update, ovr_not_mem]
  · apply lookup_none_of_not_mem
    intro p hp e
    exact hk (e ▸ argspecDefaults_keys s p hp)
  · intro p hp e
    have := (List.of_mem_zip (a := p.1) (b := p.2) hp).1
    exact hk (e ▸ this)

/-- **getcallargs agrees with python's binding on every valid call** -/
theorem getcallargs_agrees_aux (s : Sig) (hs : s.WF) (c : Call) (hkw : (c.kw.map (·.1)).Nodup) (b : PDict)
    (h : bindRef s c = .ok b) : ∃ b', getcallargs s c = .ok b' ∧ PDict.Eqv b' b := by
  obtain ⟨hA, hB, hC, hD, rfl⟩ := bindRef_ok s c b h
  obtain ⟨hnd, hlen, hva, hvk, hvv⟩ := hs
  have hs : s.WF := ⟨hnd, hlen, hva, hvk, hvv⟩
  have hdup : ((s.params.zip c.args).any fun p => c.kw.has p.1) = false := by
    rw [List.any_eq_false]
    intro p hp hhas
    have hmem := zip_fst_mem_take _ _ p hp
    rw [List.any_eq_false] at hB
    simp only [PDict.has, List.any_eq_true, beq_iff_eq] at hhas
    obtain ⟨q, hq, e⟩ := hhas
    apply hB q hq
    simpa [e] using hmem
  have hpar : ∀ k, k ∈ s.params → pyValue s c k = some ((pyValue s c k).getD (.cell .none)) := by
    intro k hk
    rw [List.all_eq_true] at hD
    have := hD k hk
    cases hp : pyValue s c k with
    | none => simp [hp] at this
    | some v => simp
  -- lookups on the python side
  have hb : ∀ k, (s.params.map (fun n => (n, (pyValue s c n).getD (.cell .none))) ++ starEntries s c).lookup k =
      if k ∈ s.params then pyValue s c k else (starEntries s c).lookup k := by
    intro k
    rw [List.lookup_append, lookup_map_self]
    by_cases hk : k ∈ s.params
    · simp only [hk, ↓reduceIte, Option.some_or]; exact (hpar k hk).symm
    · simp [hk]
  have hkwP : ((c.kw.filter fun p => s.params.contains p.1).map (·.1)).Nodup := nodup_filter_keys _ _ hkw
  have hfilt_other : ∀ k, k ∉ s.params → (c.kw.filter fun p => s.params.contains p.1).lookup k = none := by
    intro k hk
    rw [lookup_filter_key c.kw (fun n => s.params.contains n) k]
    have : s.params.contains k = false := by simpa using hk
    simp only [this, Bool.false_eq_true, ↓reduceIte]
  unfold getcallargs
  simp only [hdup, Bool.false_eq_true, ↓reduceIte]
  cases hvar : s.varargs with
  | none =>
    have hlen0 : ¬ (c.args.drop s.params.length).length > 0 := by
      have : ¬ c.args.length > s.params.length := fun hgt => hA ⟨hgt, hvar⟩
      simp only [List.length_drop]; omega
    simp only [hlen0, ↓reduceIte]
    cases hkwv : s.varkw with
    | none =>
      have hall : c.kw.filter (fun p => s.params.contains p.1) = c.kw := by
        apply List.filter_eq_self.2
        intro p hp
        have hex : extraKw s c.kw = [] := by
          by_cases he : extraKw s c.kw = []
          · exact he
          · exact absurd ⟨hkwv, he⟩ hC
        unfold extraKw at hex
        rw [List.filter_eq_nil_iff] at hex
        simpa using hex p hp
      refine ⟨_, rfl, ?_⟩
      intro k
      rw [hb k, lookup_update_nodup _ _ hkw, ← hall]
      by_cases hk : k ∈ s.params
      · simp only [hk, ↓reduceIte]; exact param_lookup s hs c hB k hk
      · simp only [hk, ↓reduceIte, hfilt_other k hk, Option.none_or, res1_lookup_other s c k hk]
        simp [starEntries, hvar, hkwv]
    | some m =>
      refine ⟨_, rfl, ?_⟩
      intro k
      rw [hb k, lookup_update_nodup _ _ hkwP, lookup_set]
      by_cases hk : k ∈ s.params
      · have hkm : k ≠ m := fun e => hvk m hkwv (e ▸ hk)
        simp only [hk, ↓reduceIte, hkm]; exact param_lookup s hs c hB k hk
      · simp only [hk, ↓reduceIte, hfilt_other k hk, Option.none_or, res1_lookup_other s c k hk]
        by_cases hkm : k = m
        · subst hkm; simp [starEntries, hvar, hkwv, extraKw]
        · have : (k == m) = false := by simpa using hkm
          simp [starEntries, hvar, hkwv, hkm, List.lookup, this]
  | some n =>
    simp only
    cases hkwv : s.varkw with
    | none =>
      have hall : c.kw.filter (fun p => s.params.contains p.1) = c.kw := by
        apply List.filter_eq_self.2
        intro p hp
        have hex : extraKw s c.kw = [] := by
          by_cases he : extraKw s c.kw = []
          · exact he
          · exact absurd ⟨hkwv, he⟩ hC
        unfold extraKw at hex
        rw [List.filter_eq_nil_iff] at hex
        simpa using hex p hp
      refine ⟨_, rfl, ?_⟩
      intro k
      rw [hb k, lookup_update_nodup _ _ hkw, ← hall, lookup_set]
      by_cases hk : k ∈ s.params
      · have hkn : k ≠ n := fun e => hva n hvar (e ▸ hk)
        simp only [hk, ↓reduceIte, hkn]; exact param_lookup s hs c hB k hk
      · simp only [hk, ↓reduceIte, hfilt_other k hk, Option.none_or, res1_lookup_other s c k hk]
        by_cases hkn : k = n
        · subst hkn; simp [starEntries, hvar, hkwv]
        · have : (k == n) = false := by simpa using hkn
          simp [starEntries, hvar, hkwv, hkn, List.lookup, this]
    | some m =>
      have hnm : n ≠ m := hvv n m hvar hkwv
      refine ⟨_, rfl, ?_⟩
      intro k
      rw [hb k, lookup_update_nodup _ _ hkwP, lookup_set, lookup_set]
      by_cases hk : k ∈ s.params
      · have hkn : k ≠ n := fun e => hva n hvar (e ▸ hk)
        have hkm : k ≠ m := fun e => hvk m hkwv (e ▸ hk)
        simp only [hk, ↓reduceIte, hkn, hkm]; exact param_lookup s hs c hB k hk
      · simp only [hk, ↓reduceIte, hfilt_other k hk, Option.none_or, res1_lookup_other s c k hk]
        by_cases hkm : k = m
        · subst hkm
          have : (k == n) = false := by simpa using fun e => hnm e.symm
          simp [starEntries, hvar, hkwv, extraKw, List.lookup, this]
        · by_cases hkn : k = n
          · subst hkn; simp [starEntries, hvar, hkwv, hkm]
          · have h1 : (k == n) = false := by simpa using hkn
            have h2 : (k == m) = false := by simpa using hkm
            simp [starEntries, hvar, hkwv, hkm, hkn, List.lookup, h1, h2]


/-! ### keys stay distinct -/

theorem keys_set (d : PDict) (k : String) (v : Val) :
    (d.set k v).map (·.1) = if k ∈ d.map (·.1) then d.map (·.1) else d.map (·.1) ++ [k] := by
  induction d with
  | nil => simp [PDict.set]
  | cons p d ih =>
    obtain ⟨k0, v0⟩ := p
    simp only [PDict.set]
    by_cases h0 : k0 = k
    · subst h0; simp
    · have hne : k ≠ k0 := fun e => h0 e.symm
      simp only [h0, ↓reduceIte, List.map_cons, ih, List.mem_cons, hne, false_or]
      split <;> simp

theorem nodup_set (d : PDict) (k : String) (v : Val) (h : (d.map (·.1)).Nodup) :
    ((d.set k v).map (·.1)).Nodup := by
  rw [keys_set]
  split
  · exact h
  · rename_i hk
    rw [List.nodup_append]
    exact ⟨h, by simp, by intro a ha b hb; simp at hb; subst hb; exact fun e => hk (e ▸ ha)⟩

theorem nodup_update (d u : PDict) (h : (d.map (·.1)).Nodup) : ((d.update u).map (·.1)).Nodup := by
  unfold PDict.update
  induction u generalizing d with
  | nil => exact h
  | cons p u ih => exact ih _ (nodup_set d p.1 p.2 h)

theorem nodup_erase (d : PDict) (k : String) (h : (d.map (·.1)).Nodup) : ((d.erase k).map (·.1)).Nodup :=
  nodup_filter_keys d _ h

theorem nodup_argspecDefaults (s : Sig) (hs : s.WF) : ((argspecDefaults s).map (·.1)).Nodup :=
  nodup_zip_keys _ _ (List.Nodup.sublist (List.drop_sublist _ _) hs.1)

theorem nodup_getcallargs (s : Sig) (hs : s.WF) (c : Call) (b : PDict) (h : getcallargs s c = .ok b) :
    (b.map (·.1)).Nodup := by
  have h1 := nodup_update (argspecDefaults s) (s.params.zip c.args) (nodup_argspecDefaults s hs)
  unfold getcallargs at h
  by_cases hd : ((s.params.zip c.args).any fun p => c.kw.has p.1) = true
  · simp only [hd, ↓reduceIte] at h; cases h
  · simp only [hd, Bool.false_eq_true, ↓reduceIte] at h
    cases hvar : s.varargs with
    | none =>
      simp only [hvar] at h
      by_cases hl : (c.args.drop s.params.length).length > 0
      · simp only [hl, ↓reduceIte] at h; cases h
      · simp only [hl, ↓reduceIte] at h
        cases hkwv : s.varkw with
        | none => simp only [hkwv] at h; cases h; exact nodup_update _ _ h1
        | some m => simp only [hkwv] at h; cases h; exact nodup_update _ _ (nodup_set _ _ _ h1)
    | some n =>
      simp only [hvar] at h
      cases hkwv : s.varkw with
      | none => simp only [hkwv] at h; cases h; exact nodup_update _ _ (nodup_set _ _ _ h1)
      | some m =>
        simp only [hkwv] at h; cases h
        exact nodup_update _ _ (nodup_set _ _ _ (nodup_set _ _ _ h1))


/-! ### call_with_callargs -/

theorem filterMap_eq_map {α β} (xs : List α) (f : α → Option β) (g : α → β)
    (h : ∀ a ∈ xs, f a = some (g a)) : xs.filterMap f = xs.map g := by
  induction xs with
  | nil => rfl
  | cons x xs ih =>
    simp only [List.filterMap_cons, h x (by simp), List.map_cons]
    rw [ih fun a ha => h a (by simp [ha])]

/-- the positional arguments `call_with_callargs` passes for the parameters -/
def boundValues (s : Sig) (c : Call) : List Val := s.params.map fun n => (pyValue s c n).getD (.cell .none)

/-- the call `call_with_callargs` makes after `getcallargs` on a valid call: all parameters positionally, then
the extra positionals, and the extra keywords -/
def recalled (s : Sig) (c : Call) : Call :=
  { args := boundValues s c ++ (match s.varargs with
      | some _ => c.args.drop s.params.length
      | none => []),
    kw := match s.varkw with
      | some _ => extraKw s c.kw
      | none => [] }

theorem recall_of_eqv (s : Sig) (hs : s.WF) (c : Call) (b' : PDict) (hn : (b'.map (·.1)).Nodup)
    (he : PDict.Eqv b' (s.params.map (fun n => (n, (pyValue s c n).getD (.cell .none))) ++ starEntries s c)) :
    recall s b' = .ok (recalled s c) := by
  obtain ⟨hnd, hlen, hva, hvk, hvv⟩ := hs
  have hb : ∀ k, b'.lookup k =
      if k ∈ s.params then some ((pyValue s c k).getD (.cell .none)) else (starEntries s c).lookup k := by
    intro k
    rw [he k, List.lookup_append, lookup_map_self]
    by_cases hk : k ∈ s.params <;> simp [hk]
  -- the parameters are read back from `params.update(c)` whatever was popped
  have hargs : ∀ (c2 : PDict), (c2.map (·.1)).Nodup →
      (∀ a ∈ s.params, c2.lookup a = b'.lookup a) →
      (s.params.filterMap fun a => ((argspecDefaults s).update c2).lookup a) = boundValues s c := by
    intro c2 hn2 h2
    apply filterMap_eq_map
    intro a ha
    rw [lookup_update_nodup _ _ hn2, h2 a ha, hb a]
    simp [ha]
  unfold recall recalled
  cases hvar : s.varargs with
  | none =>
    cases hkwv : s.varkw with
    | none =>
      simp only
      rw [hargs b' hn (fun _ _ => rfl)]
    | some m =>
      have hm : b'.lookup m = some (.dict (extraKw s c.kw)) := by
        rw [hb m]; simp [hvk m hkwv, starEntries, hvar, hkwv]
      simp only [hm, dictItems]
      rw [hargs (b'.erase m) (nodup_erase _ _ hn) (by
        intro a ha
        rw [lookup_erase]
        have : a ≠ m := fun e => hvk m hkwv (e ▸ ha)
        simp [this])]
  | some n =>
    have hnl : b'.lookup n = some (.tuple (c.args.drop s.params.length)) := by
      rw [hb n]; simp [hva n hvar, starEntries, hvar]
    cases hkwv : s.varkw with
    | none =>
      simp only [hnl, tupleItems]
      rw [hargs (b'.erase n) (nodup_erase _ _ hn) (by
        intro a ha
        rw [lookup_erase]
        have : a ≠ n := fun e => hva n hvar (e ▸ ha)
        simp [this])]
    | some m =>
      have hnm : n ≠ m := hvv n m hvar hkwv
      have hm : (b'.erase n).lookup m = some (.dict (extraKw s c.kw)) := by
        rw [lookup_erase, hb m]
        have hmn : m ≠ n := fun e => hnm e.symm
        have h1 : (m == n) = false := by simpa using hmn
        simp [hvk m hkwv, starEntries, hvar, hkwv, hmn, List.lookup, h1]
      simp only [hnl, tupleItems, hm, dictItems]
      rw [hargs ((b'.erase n).erase m) (nodup_erase _ _ (nodup_erase _ _ hn)) (by
        intro a ha
        rw [lookup_erase, lookup_erase]
        have h1 : a ≠ n := fun e => hva n hvar (e ▸ ha)
        have h2 : a ≠ m := fun e => hvk m hkwv (e ▸ ha)
        simp [h1, h2])]


theorem boundValues_length (s : Sig) (c : Call) : (boundValues s c).length = s.params.length := by
  simp [boundValues]

theorem pyValue_recalled (s : Sig) (c : Call) (n : String) (hn : n ∈ s.params) :
    pyValue s (recalled s c) n = some ((pyValue s c n).getD (.cell .none)) := by
  have hi : s.params.idxOf n < s.params.length := List.idxOf_lt_length_of_mem hn
  have hlen : s.params.idxOf n < (recalled s c).args.length := by
    simp only [recalled, List.length_append, boundValues_length]; omega
  unfold pyValue
  simp only [hlen, ↓reduceIte]
  have hi' : s.params.idxOf n < (boundValues s c).length := by rw [boundValues_length]; exact hi
  simp only [recalled]
  rw [List.getElem?_append_left hi']
  simp only [boundValues, List.getElem?_map]
  have : s.params[s.params.idxOf n]? = some n := by
    rw [List.getElem?_eq_getElem hi]
    simp
  simp only [this, Option.map_some]
  rfl

theorem extraKw_idem (s : Sig) (kw : PDict) : extraKw s (extraKw s kw) = extraKw s kw := by
  simp [extraKw, List.filter_filter]

/-- re-binding the call that `call_with_callargs` makes gives the original binding -/
theorem bindRef_recalled (s : Sig) (c : Call) (b : PDict) (h : bindRef s c = .ok b) :
    bindRef s (recalled s c) = .ok b := by
  obtain ⟨_, _, _, hD, rfl⟩ := bindRef_ok s c b h
  have hlen : (recalled s c).args.length = s.params.length + (match s.varargs with
      | some _ => (c.args.drop s.params.length).length | none => 0) := by
    simp only [recalled, List.length_append, boundValues_length]
    cases s.varargs <;> simp
  have hA : ¬((recalled s c).args.length > s.params.length ∧ s.varargs = none) := by
    rintro ⟨h1, h2⟩
    rw [hlen, h2] at h1
    simp at h1
  have hB : ((recalled s c).kw.any fun p => (s.params.take (recalled s c).args.length).contains p.1) = false := by
    rw [List.any_eq_false]
    intro p hp hc
    have hmem : p ∈ extraKw s c.kw := by
      simp only [recalled] at hp
      cases hv : s.varkw with
      | none => simp [hv] at hp
      | some m => simpa [hv] using hp
    simp only [extraKw, List.mem_filter, Bool.not_eq_true', List.contains_eq_mem, decide_eq_false_iff_not] at hmem
    have h1 : p.1 ∈ s.params := by
      have := List.mem_of_mem_take (by simpa using hc : p.1 ∈ s.params.take (recalled s c).args.length)
      exact this
    exact hmem.2 h1
  have hC : ¬(s.varkw = none ∧ extraKw s (recalled s c).kw ≠ []) := by
    rintro ⟨h1, h2⟩
    apply h2
    simp [recalled, h1, extraKw]
  have hD' : (s.params.all fun n => (pyValue s (recalled s c) n).isSome) = true := by
    rw [List.all_eq_true]
    intro n hn
    rw [pyValue_recalled s c n hn]; rfl
  have hstar : starEntries s (recalled s c) = starEntries s c := by
    unfold starEntries
    congr 1
    · cases hv : s.varargs with
      | none => rfl
      | some n =>
        simp only [recalled, hv]
        rw [List.drop_left' (boundValues_length s c)]
    · cases hv : s.varkw with
      | none => rfl
      | some m => simp only [recalled, hv, extraKw_idem]
  unfold bindRef
  simp only [hA, hB, hC, hD', ↓reduceIte, Bool.false_eq_true, hstar]
  congr 2
  apply List.map_congr_left
  intro n hn
  rw [pyValue_recalled s c n hn]
  rfl

end Pyg
