/-
  Helper lemmas for C20 (n-ary `join` with defaults), table-free part.

  A keyed table is seen as an indexed family of rows (`Rows`: a row count and `row : Nat → Row`,
  `Row = String → Cell`).  `JStep` is the specification of one `_join_dictable_with_defaults` step
  (inner part, the right rows the left side lacks with the left defaults, the left rows the right
  side lacks with the right defaults); from it we derive, without looking at tables again,
    * which keys the result holds (`JStep.hasK_iff`),
    * where every cell of a result row comes from (`JStep.vok`),
    * that unique keys stay unique (`JStep.uniq`).
-/
import PygProofs.Lemmas.JoinLemmas

namespace Pyg

abbrev Row := String → Cell

/-- two rows carry the same key on the columns `on` (`cmp`-equality cell by cell) -/
def keq (on : List String) (r r' : Row) : Prop := ∀ c ∈ on, cmp (.cell (r c)) (.cell (r' c)) = .eq

theorem keq_refl (on : List String) (r : Row) : keq on r r := fun _ _ => cmp_self _

theorem keq_symm {on : List String} {r r' : Row} (h : keq on r r') : keq on r' r :=
  fun c hc => cmp_eq_symm (h c hc)

theorem keq_trans {on : List String} {a b c : Row} (h1 : keq on a b) (h2 : keq on b c) : keq on a c :=
  fun x hx => cmp_eq_trans (h1 x hx) (h2 x hx)

theorem keq_of_agree {on : List String} {r r' : Row} (h : ∀ c ∈ on, r c = r' c) : keq on r r' :=
  fun c hc => by rw [h c hc]; exact cmp_self _

/-- an indexed family of rows -/
structure Rows where
  n : Nat
  row : Nat → Row

/-- some row carries the key of `k` -/
def Rows.hasK (on : List String) (t : Rows) (k : Row) : Prop := ∃ i, i < t.n ∧ keq on (t.row i) k

/-- no two rows carry the same key -/
def Rows.uniq (on : List String) (t : Rows) : Prop :=
  ∀ i j, i < t.n → j < t.n → keq on (t.row i) (t.row j) → i = j

theorem Rows.hasK_congr {on : List String} {t : Rows} {k k' : Row} (h : keq on k k') :
    t.hasK on k ↔ t.hasK on k' :=
  ⟨fun ⟨i, hi, he⟩ => ⟨i, hi, keq_trans he h⟩, fun ⟨i, hi, he⟩ => ⟨i, hi, keq_trans he (keq_symm h)⟩⟩

/-! ### constant columns on a row: `d(**kvs)` -/

/-- the row after `d(**kvs)`: a later entry for the same name wins -/
def Row.sets (r : Row) (kvs : List (String × Cell)) : Row := fun c =>
  match kvs.reverse.find? (fun kv => kv.1 == c) with
  | some kv => kv.2
  | none => r c

theorem Row.sets_nil (r : Row) : r.sets [] = r := rfl

theorem Row.sets_append (r : Row) (l₁ l₂ : List (String × Cell)) :
    r.sets (l₁ ++ l₂) = (r.sets l₁).sets l₂ := by
  funext c
  simp only [Row.sets, List.reverse_append, List.find?_append]
  cases l₂.reverse.find? (fun kv => kv.1 == c) <;> simp

theorem Row.sets_cons (r : Row) (kv : String × Cell) (l : List (String × Cell)) :
    r.sets (kv :: l) = (r.sets [kv]).sets l := by
  rw [← Row.sets_append]; rfl

theorem Row.sets_single (r : Row) (kv : String × Cell) (c : String) :
    r.sets [kv] c = if c = kv.1 then kv.2 else r c := by
  simp only [Row.sets, List.reverse_cons, List.reverse_nil, List.nil_append, List.find?_cons,
    List.find?_nil]
  by_cases h : c = kv.1
  · simp [h]
  · have : (kv.1 == c) = false := by simpa using fun h' => h h'.symm
    simp [this, h]

theorem Row.sets_of_not_mem (r : Row) (kvs : List (String × Cell)) (c : String)
    (h : ∀ kv ∈ kvs, kv.1 ≠ c) : r.sets kvs c = r c := by
  simp only [Row.sets]
  have : kvs.reverse.find? (fun kv => kv.1 == c) = none := by
    rw [List.find?_eq_none]
    intro kv hkv
    simpa using h kv (List.mem_reverse.1 hkv)
  rw [this]

/-- a name that is set does not depend on the row -/
theorem Row.sets_of_mem (r r' : Row) (kvs : List (String × Cell)) (c : String)
    (h : ∃ kv ∈ kvs, kv.1 = c) : r.sets kvs c = r'.sets kvs c := by
  simp only [Row.sets]
  cases hf : kvs.reverse.find? (fun kv => kv.1 == c) with
  | some kv => rfl
  | none =>
    exfalso
    rw [List.find?_eq_none] at hf
    obtain ⟨kv, hkv, hc⟩ := h
    exact hf kv (List.mem_reverse.2 hkv) (by simpa using hc)

theorem keq_sets {on : List String} (r : Row) (kvs : List (String × Cell))
    (h : ∀ kv ∈ kvs, kv.1 ∉ on) : keq on (r.sets kvs) r := by
  apply keq_of_agree
  intro c hc
  apply Row.sets_of_not_mem
  intro kv hkv he
  exact h kv hkv (he ▸ hc)

/-- the last value given to `name` in a `defaults` dict -/
def dfltOf (defaults : List (String × Cell)) (name : String) : Option Cell :=
  (defaults.reverse.find? (fun kv => kv.1 == name)).map (·.2)

theorem Row.sets_dfltOf (r : Row) (kvs : List (String × Cell)) (c : String) (v : Cell)
    (h : dfltOf kvs c = some v) : r.sets kvs c = v := by
  simp only [dfltOf, Option.map_eq_some_iff] at h
  obtain ⟨kv, hkv, rfl⟩ := h
  simp [Row.sets, hkv]

theorem dfltOf_isSome {kvs : List (String × Cell)} {c : String} :
    (dfltOf kvs c).isSome = true ↔ ∃ kv ∈ kvs, kv.1 = c := by
  simp only [dfltOf, Option.isSome_map, List.find?_isSome, List.mem_reverse, beq_iff_eq]

theorem find?_congr' {α} {l : List α} {p q : α → Bool} (h : ∀ a ∈ l, p a = q a) :
    l.find? p = l.find? q := by
  induction l with
  | nil => rfl
  | cons a as ih =>
    simp only [List.find?_cons, h a (by simp)]
    rw [ih (fun x hx => h x (by simp [hx]))]

/-- the entries of one name carry that name's default -/
theorem dfltOf_filter (kvs : List (String × Cell)) (c : String) :
    dfltOf (kvs.filter fun kv => kv.1 == c) c = dfltOf kvs c := by
  simp only [dfltOf, ← List.filter_reverse, List.find?_filter]
  congr 1
  apply find?_congr'
  intro kv _
  by_cases h : kv.1 = c <;> simp [h]

/-- restricting a `defaults` dict to a set of names keeps the defaults of those names -/
theorem dfltOf_filter_names (kvs : List (String × Cell)) (names : List String) (c : String)
    (hc : c ∈ names) :
    dfltOf (kvs.filter fun kv => names.contains kv.1) c = dfltOf kvs c := by
  simp only [dfltOf, ← List.filter_reverse, List.find?_filter]
  congr 1
  apply find?_congr'
  intro kv _
  by_cases h : kv.1 = c
  · simp [h, hc]
  · simp [h]

/-! ### one join step -/

/-- specification of `_join_dictable_with_defaults((A, da), (B, db)) = D`: the key-equal pairs
(`kp`), then — only with left defaults — the right rows whose key the left side lacks (`ids1`), then —
only with right defaults — the left rows whose key the right side lacks (`ids2`).  `ca`, `cb`: the
column names of the two sides. -/
def JStep (on ca cb : List String) (A B : Rows) (da db : List (String × Cell)) (D : Rows) : Prop :=
  ∃ (kp : List (Nat × Nat)) (ids1 ids2 : List Nat),
    kp.Nodup ∧ (∀ i j, (i, j) ∈ kp ↔ i < A.n ∧ j < B.n ∧ keq on (A.row i) (B.row j)) ∧
    ids1.Nodup ∧
    (∀ j, j ∈ ids1 ↔ da ≠ [] ∧ j < B.n ∧ ∀ i, i < A.n → ¬ keq on (B.row j) (A.row i)) ∧
    ids2.Nodup ∧
    (∀ i, i ∈ ids2 ↔ db ≠ [] ∧ i < A.n ∧ ∀ j, j < B.n → ¬ keq on (A.row i) (B.row j)) ∧
    D.n = kp.length + ids1.length + ids2.length ∧
    (∀ p (h : p < kp.length), keq on (D.row p) (A.row kp[p].1) ∧
        (∀ c ∈ ca, c ∉ on → D.row p c = A.row kp[p].1 c) ∧
        (∀ c ∈ cb, c ∉ on → D.row p c = B.row kp[p].2 c)) ∧
    (∀ q (h : q < ids1.length), D.row (kp.length + q) = (B.row ids1[q]).sets da) ∧
    (∀ q (h : q < ids2.length), D.row (kp.length + ids1.length + q) = (A.row ids2[q]).sets db)

/-- where row `p` of the result comes from: `(some i, some j)` = rows `i`, `j` joined,
`(none, some j)` = right row `j` alone, `(some i, none)` = left row `i` alone -/
def RowFrom (on ca cb : List String) (A B : Rows) (da db : List (String × Cell)) (r : Row) :
    Option Nat × Option Nat → Prop
  | (some i, some j) => i < A.n ∧ j < B.n ∧ keq on r (A.row i) ∧ keq on r (B.row j) ∧
      (∀ c ∈ ca, c ∉ on → r c = A.row i c) ∧ (∀ c ∈ cb, c ∉ on → r c = B.row j c)
  | (none, some j) => da ≠ [] ∧ j < B.n ∧ (∀ i, i < A.n → ¬ keq on (B.row j) (A.row i)) ∧
      r = (B.row j).sets da
  | (some i, none) => db ≠ [] ∧ i < A.n ∧ (∀ j, j < B.n → ¬ keq on (A.row i) (B.row j)) ∧
      r = (A.row i).sets db
  | (none, none) => False

theorem getElem?_inj_of_nodup {α} {l : List α} (h : l.Nodup) {i j : Nat} {a : α}
    (hi : l[i]? = some a) (hj : l[j]? = some a) : i = j := by
  have hi' := (List.getElem?_eq_some_iff.1 hi)
  have hj' := (List.getElem?_eq_some_iff.1 hj)
  obtain ⟨h1, e1⟩ := hi'
  obtain ⟨h2, e2⟩ := hj'
  exact (List.getElem_inj h).1 (e1.trans e2.symm)

/-- **provenance**: every result row has exactly one origin, distinct rows have distinct origins, and
every possible origin occurs -/
theorem JStep.prov {on ca cb : List String} {A B : Rows} {da db : List (String × Cell)} {D : Rows}
    (h : JStep on ca cb A B da db D) :
    ∃ prov : Nat → Option Nat × Option Nat,
      (∀ p q, p < D.n → q < D.n → prov p = prov q → p = q) ∧
      (∀ p, p < D.n → RowFrom on ca cb A B da db (D.row p) (prov p)) ∧
      (∀ i j, i < A.n → j < B.n → keq on (A.row i) (B.row j) →
        ∃ p, p < D.n ∧ prov p = (some i, some j)) ∧
      (∀ j, da ≠ [] → j < B.n → (∀ i, i < A.n → ¬ keq on (B.row j) (A.row i)) →
        ∃ p, p < D.n ∧ prov p = (none, some j)) ∧
      (∀ i, db ≠ [] → i < A.n → (∀ j, j < B.n → ¬ keq on (A.row i) (B.row j)) →
        ∃ p, p < D.n ∧ prov p = (some i, none)) := by
  obtain ⟨kp, ids1, ids2, hkn, hkm, h1n, h1m, h2n, h2m, hn, hM, hB, hA⟩ := h
  let prov : Nat → Option Nat × Option Nat := fun p =>
    match kp[p]? with
    | some ij => (some ij.1, some ij.2)
    | none => match ids1[p - kp.length]? with
      | some j => (none, some j)
      | none => match ids2[p - kp.length - ids1.length]? with
        | some i => (some i, none)
        | none => (none, none)
  -- the three segments
  have seg1 : ∀ p (hp : p < kp.length), prov p = (some kp[p].1, some kp[p].2) := by
    intro p hp; simp [prov, List.getElem?_eq_getElem hp]
  have seg2 : ∀ q (hq : q < ids1.length), prov (kp.length + q) = (none, some ids1[q]) := by
    intro q hq
    have : kp[kp.length + q]? = none := List.getElem?_eq_none (by omega)
    simp [prov, List.getElem?_eq_getElem hq]
  have seg3 : ∀ q (hq : q < ids2.length),
      prov (kp.length + ids1.length + q) = (some ids2[q], none) := by
    intro q hq
    have e1 : kp[kp.length + ids1.length + q]? = none := List.getElem?_eq_none (by omega)
    have e2 : ids1[kp.length + ids1.length + q - kp.length]? = none :=
      List.getElem?_eq_none (by omega)
    have e3 : kp.length + ids1.length + q - kp.length - ids1.length = q := by omega
    simp [prov, e1, e2, e3, List.getElem?_eq_getElem hq]
  have split : ∀ p, p < D.n → (p < kp.length) ∨ (∃ q, q < ids1.length ∧ p = kp.length + q) ∨
      (∃ q, q < ids2.length ∧ p = kp.length + ids1.length + q) := by
    intro p hp
    by_cases h1 : p < kp.length
    · exact .inl h1
    · by_cases h2 : p < kp.length + ids1.length
      · exact .inr (.inl ⟨p - kp.length, by omega, by omega⟩)
      · exact .inr (.inr ⟨p - kp.length - ids1.length, by omega, by omega⟩)
  refine ⟨prov, ?_, ?_, ?_, ?_, ?_⟩
  · intro p q hp hq he
    rcases split p hp with h1 | ⟨a, ha, rfl⟩ | ⟨a, ha, rfl⟩ <;>
    rcases split q hq with h2 | ⟨b, hb, rfl⟩ | ⟨b, hb, rfl⟩
    · rw [seg1 p h1, seg1 q h2] at he
      have : kp[p] = kp[q] := by
        simp only [Prod.mk.injEq, Option.some.injEq] at he
        exact Prod.ext he.1 he.2
      exact (List.getElem_inj hkn).1 this
    · rw [seg1 p h1, seg2 b hb] at he; simp at he
    · rw [seg1 p h1, seg3 b hb] at he; simp at he
    · rw [seg2 a ha, seg1 q h2] at he; simp at he
    · rw [seg2 a ha, seg2 b hb] at he
      simp only [Prod.mk.injEq, Option.some.injEq, true_and] at he
      have := (List.getElem_inj h1n).1 he
      omega
    · rw [seg2 a ha, seg3 b hb] at he; simp at he
    · rw [seg3 a ha, seg1 q h2] at he; simp at he
    · rw [seg3 a ha, seg2 b hb] at he; simp at he
    · rw [seg3 a ha, seg3 b hb] at he
      simp only [Prod.mk.injEq, Option.some.injEq, and_true] at he
      have := (List.getElem_inj h2n).1 he
      omega
  · intro p hp
    rcases split p hp with h1 | ⟨a, ha, rfl⟩ | ⟨a, ha, rfl⟩
    · rw [seg1 p h1]
      have hm := (hkm kp[p].1 kp[p].2).1 (List.getElem_mem h1)
      obtain ⟨k1, k2, k3⟩ := hM p h1
      exact ⟨hm.1, hm.2.1, k1, keq_trans k1 hm.2.2, k2, k3⟩
    · rw [seg2 a ha]
      have hm := (h1m ids1[a]).1 (List.getElem_mem ha)
      exact ⟨hm.1, hm.2.1, hm.2.2, hB a ha⟩
    · rw [seg3 a ha]
      have hm := (h2m ids2[a]).1 (List.getElem_mem ha)
      exact ⟨hm.1, hm.2.1, hm.2.2, hA a ha⟩
  · intro i j hi hj he
    have hm := (hkm i j).2 ⟨hi, hj, he⟩
    obtain ⟨p, hp, hpe⟩ := List.getElem_of_mem hm
    exact ⟨p, by omega, by rw [seg1 p hp, hpe]⟩
  · intro j hda hj hno
    have hm := (h1m j).2 ⟨hda, hj, hno⟩
    obtain ⟨q, hq, hqe⟩ := List.getElem_of_mem hm
    exact ⟨kp.length + q, by omega, by rw [seg2 q hq, hqe]⟩
  · intro i hdb hi hno
    have hm := (h2m i).2 ⟨hdb, hi, hno⟩
    obtain ⟨q, hq, hqe⟩ := List.getElem_of_mem hm
    exact ⟨kp.length + ids1.length + q, by omega, by rw [seg3 q hq, hqe]⟩

/-- the defaults never touch a key column -/
def OffKeys (on : List String) (d : List (String × Cell)) : Prop := ∀ kv ∈ d, kv.1 ∉ on

/-- **which keys the result of one step holds** -/
theorem JStep.hasK_iff {on ca cb : List String} {A B : Rows} {da db : List (String × Cell)} {D : Rows}
    (h : JStep on ca cb A B da db D) (hda : OffKeys on da) (hdb : OffKeys on db) (k : Row) :
    D.hasK on k ↔ (A.hasK on k ∧ B.hasK on k) ∨ (da ≠ [] ∧ B.hasK on k ∧ ¬ A.hasK on k) ∨
      (db ≠ [] ∧ A.hasK on k ∧ ¬ B.hasK on k) := by
  obtain ⟨prov, _, hfrom, hM, hB, hA⟩ := h.prov
  constructor
  · rintro ⟨p, hp, he⟩
    have hf := hfrom p hp
    match hpv : prov p with
    | (some i, some j) =>
      rw [hpv] at hf
      exact .inl ⟨⟨i, hf.1, keq_trans (keq_symm hf.2.2.1) he⟩,
        ⟨j, hf.2.1, keq_trans (keq_symm hf.2.2.2.1) he⟩⟩
    | (none, some j) =>
      rw [hpv] at hf
      obtain ⟨h1, h2, h3, h4⟩ := hf
      have hk : keq on (B.row j) k := by
        rw [h4] at he; exact keq_trans (keq_symm (keq_sets _ _ hda)) he
      refine .inr (.inl ⟨h1, ⟨j, h2, hk⟩, ?_⟩)
      rintro ⟨i, hi, hie⟩
      exact h3 i hi (keq_trans hk (keq_symm hie))
    | (some i, none) =>
      rw [hpv] at hf
      obtain ⟨h1, h2, h3, h4⟩ := hf
      have hk : keq on (A.row i) k := by
        rw [h4] at he; exact keq_trans (keq_symm (keq_sets _ _ hdb)) he
      refine .inr (.inr ⟨h1, ⟨i, h2, hk⟩, ?_⟩)
      rintro ⟨j, hj, hje⟩
      exact h3 j hj (keq_trans hk (keq_symm hje))
    | (none, none) => rw [hpv] at hf; exact hf.elim
  · rintro (⟨⟨i, hi, hie⟩, ⟨j, hj, hje⟩⟩ | ⟨hne, ⟨j, hj, hje⟩, hno⟩ | ⟨hne, ⟨i, hi, hie⟩, hno⟩)
    · obtain ⟨p, hp, hpv⟩ := hM i j hi hj (keq_trans hie (keq_symm hje))
      have hf := hfrom p hp
      rw [hpv] at hf
      exact ⟨p, hp, keq_trans hf.2.2.1 hie⟩
    · obtain ⟨p, hp, hpv⟩ := hB j hne hj (fun i hi he => hno ⟨i, hi, keq_trans (keq_symm he) hje⟩)
      have hf := hfrom p hp
      rw [hpv] at hf
      exact ⟨p, hp, by rw [hf.2.2.2]; exact keq_trans (keq_sets _ _ hda) hje⟩
    · obtain ⟨p, hp, hpv⟩ := hA i hne hi (fun j hj he => hno ⟨j, hj, keq_trans (keq_symm he) hie⟩)
      have hf := hfrom p hp
      rw [hpv] at hf
      exact ⟨p, hp, by rw [hf.2.2.2]; exact keq_trans (keq_sets _ _ hdb) hie⟩

/-- **unique keys stay unique** -/
theorem JStep.uniq {on ca cb : List String} {A B : Rows} {da db : List (String × Cell)} {D : Rows}
    (h : JStep on ca cb A B da db D) (hda : OffKeys on da) (hdb : OffKeys on db)
    (hA : A.uniq on) (hB : B.uniq on) : D.uniq on := by
  obtain ⟨prov, hinj, hfrom, _, _, _⟩ := h.prov
  -- the key of a result row, seen from each side
  have left : ∀ p, p < D.n → ∀ i, (prov p).1 = some i → i < A.n ∧ keq on (D.row p) (A.row i) := by
    intro p hp i hi
    have hf := hfrom p hp
    match hpv : prov p with
    | (some i', some j) =>
      rw [hpv] at hf hi; cases hi; exact ⟨hf.1, hf.2.2.1⟩
    | (some i', none) =>
      rw [hpv] at hf hi; cases hi
      exact ⟨hf.2.1, by rw [hf.2.2.2]; exact keq_sets _ _ hdb⟩
    | (none, _) => rw [hpv] at hi; cases hi
  have right : ∀ p, p < D.n → ∀ j, (prov p).2 = some j → j < B.n ∧ keq on (D.row p) (B.row j) := by
    intro p hp j hj
    have hf := hfrom p hp
    match hpv : prov p with
    | (some i, some j') =>
      rw [hpv] at hf hj; cases hj; exact ⟨hf.2.1, hf.2.2.2.1⟩
    | (none, some j') =>
      rw [hpv] at hf hj; cases hj
      exact ⟨hf.2.1, by rw [hf.2.2.2]; exact keq_sets _ _ hda⟩
    | (_, none) => rw [hpv] at hj; cases hj
  have noleft : ∀ p, p < D.n → (prov p).1 = none → ∀ i, i < A.n → ¬ keq on (D.row p) (A.row i) := by
    intro p hp hn i hi he
    have hf := hfrom p hp
    match hpv : prov p with
    | (some i', _) => rw [hpv] at hn; cases hn
    | (none, some j) =>
      rw [hpv] at hf
      exact hf.2.2.1 i hi (keq_trans (keq_symm (by rw [hf.2.2.2]; exact keq_sets _ _ hda)) he)
    | (none, none) => rw [hpv] at hf; exact hf
  have noright : ∀ p, p < D.n → (prov p).2 = none → ∀ j, j < B.n → ¬ keq on (D.row p) (B.row j) := by
    intro p hp hn j hj he
    have hf := hfrom p hp
    match hpv : prov p with
    | (_, some j') => rw [hpv] at hn; cases hn
    | (some i, none) =>
      rw [hpv] at hf
      exact hf.2.2.1 j hj (keq_trans (keq_symm (by rw [hf.2.2.2]; exact keq_sets _ _ hdb)) he)
    | (none, none) => rw [hpv] at hf; exact hf
  intro p q hp hq he
  apply hinj p q hp hq
  apply Prod.ext
  · cases h1 : (prov p).1 with
    | some i =>
      obtain ⟨hi, hie⟩ := left p hp i h1
      cases h2 : (prov q).1 with
      | some i' =>
        obtain ⟨hi', hie'⟩ := left q hq i' h2
        rw [hA i i' hi hi' (keq_trans (keq_symm hie) (keq_trans he hie'))]
      | none => exact (noleft q hq h2 i hi (keq_trans (keq_symm he) hie)).elim
    | none =>
      cases h2 : (prov q).1 with
      | some i' =>
        obtain ⟨hi', hie'⟩ := left q hq i' h2
        exact (noleft p hp h1 i' hi' (keq_trans he hie')).elim
      | none => rfl
  · cases h1 : (prov p).2 with
    | some j =>
      obtain ⟨hj, hje⟩ := right p hp j h1
      cases h2 : (prov q).2 with
      | some j' =>
        obtain ⟨hj', hje'⟩ := right q hq j' h2
        rw [hB j j' hj hj' (keq_trans (keq_symm hje) (keq_trans he hje'))]
      | none => exact (noright q hq h2 j hj (keq_trans (keq_symm he) hje)).elim
    | none =>
      cases h2 : (prov q).2 with
      | some j' =>
        obtain ⟨hj', hje'⟩ := right q hq j' h2
        exact (noright p hp h1 j' hj' (keq_trans he hje')).elim
      | none => rfl

/-! ### where the value cells come from -/

/-- one input of `join`: its rows, the name of its value column, its default -/
structure Src where
  t : Rows
  name : String
  dflt : Option Cell

/-- row `r` carries, in column `s.name`, the value of a row of `s` with `r`'s key — or, when `s` has
no such row, the default of `s` (which then exists) -/
def vrow (on : List String) (r : Row) (s : Src) : Prop :=
  (∃ j, j < s.t.n ∧ keq on (s.t.row j) r ∧ r s.name = s.t.row j s.name) ∨
  ((∀ j, j < s.t.n → ¬ keq on (s.t.row j) r) ∧ ∃ v, s.dflt = some v ∧ r s.name = v)

theorem vrow_congr {on : List String} {r r' : Row} {s : Src} (hk : keq on r r')
    (hv : r s.name = r' s.name) (h : vrow on r' s) : vrow on r s := by
  rcases h with ⟨j, hj, he, hval⟩ | ⟨hno, v, hd, hval⟩
  · exact .inl ⟨j, hj, keq_trans he (keq_symm hk), hv.trans hval⟩
  · exact .inr ⟨fun j hj he => hno j hj (keq_trans he hk), v, hd, hv.trans hval⟩

def VOK (on : List String) (D : Rows) (S : List Src) : Prop :=
  ∀ p, p < D.n → ∀ s ∈ S, vrow on (D.row p) s

/-- `A` is an accumulated outer join of the sources `S`, all of which have a default recorded in `da`:
it holds no key that none of them holds … (the part needed to fill in defaults) -/
def DefAcc (on : List String) (A : Rows) (S : List Src) (da : List (String × Cell)) : Prop :=
  (∀ s ∈ S, ∀ k, s.t.hasK on k → A.hasK on k) ∧
  (∀ s ∈ S, ∃ v, s.dflt = some v ∧ ∀ r : Row, r.sets da s.name = v)

/-- **every value cell of the result of one step is accounted for** -/
theorem JStep.vok {on ca cb : List String} {A B : Rows} {da db : List (String × Cell)} {D : Rows}
    (h : JStep on ca cb A B da db D) (hda : OffKeys on da) (hdb : OffKeys on db)
    {Sa Sb : List Src} (hVa : VOK on A Sa) (hVb : VOK on B Sb)
    (hna : ∀ s ∈ Sa, s.name ∈ ca ∧ s.name ∉ on ∧ ∀ kv ∈ db, kv.1 ≠ s.name)
    (hnb : ∀ s ∈ Sb, s.name ∈ cb ∧ s.name ∉ on ∧ ∀ kv ∈ da, kv.1 ≠ s.name)
    (hDa : da ≠ [] → DefAcc on A Sa da) (hDb : db ≠ [] → DefAcc on B Sb db) :
    VOK on D (Sa ++ Sb) := by
  obtain ⟨prov, _, hfrom, _, _, _⟩ := h.prov
  intro p hp s hs
  have hf := hfrom p hp
  match hpv : prov p with
  | (some i, some j) =>
    rw [hpv] at hf
    obtain ⟨hi, hj, hka, hkb, hva, hvb⟩ := hf
    rcases List.mem_append.1 hs with hs | hs
    · exact vrow_congr hka (hva _ (hna s hs).1 (hna s hs).2.1) (hVa i hi s hs)
    · exact vrow_congr hkb (hvb _ (hnb s hs).1 (hnb s hs).2.1) (hVb j hj s hs)
  | (none, some j) =>
    rw [hpv] at hf
    obtain ⟨hne, hj, hno, hrow⟩ := hf
    have hk : keq on (D.row p) (B.row j) := by rw [hrow]; exact keq_sets _ _ hda
    rcases List.mem_append.1 hs with hs | hs
    · obtain ⟨hsub, hdef⟩ := hDa hne
      obtain ⟨v, hv, hval⟩ := hdef s hs
      refine .inr ⟨?_, v, hv, by rw [hrow]; exact hval _⟩
      intro x hx he
      obtain ⟨i, hi, hie⟩ := hsub s hs (D.row p) ⟨x, hx, he⟩
      exact hno i hi (keq_trans (keq_symm hk) (keq_symm hie))
    · refine vrow_congr hk ?_ (hVb j hj s hs)
      rw [hrow]; exact Row.sets_of_not_mem _ _ _ (hnb s hs).2.2
  | (some i, none) =>
    rw [hpv] at hf
    obtain ⟨hne, hi, hno, hrow⟩ := hf
    have hk : keq on (D.row p) (A.row i) := by rw [hrow]; exact keq_sets _ _ hdb
    rcases List.mem_append.1 hs with hs | hs
    · refine vrow_congr hk ?_ (hVa i hi s hs)
      rw [hrow]; exact Row.sets_of_not_mem _ _ _ (hna s hs).2.2
    · obtain ⟨hsub, hdef⟩ := hDb hne
      obtain ⟨v, hv, hval⟩ := hdef s hs
      refine .inr ⟨?_, v, hv, by rw [hrow]; exact hval _⟩
      intro x hx he
      obtain ⟨j, hj, hje⟩ := hsub s hs (D.row p) ⟨x, hx, he⟩
      exact hno j hj (keq_trans (keq_symm hk) (keq_symm hje))
  | (none, none) => rw [hpv] at hf; exact hf.elim

end Pyg
