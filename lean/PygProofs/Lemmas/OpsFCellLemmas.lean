/-
  C08: reading the cells of a frame at labels it has no row for / columns it has; used by the by-cell fold over a list of frames.
-/
import PygModel.OpsF
import PygProofs.Lemmas.OpsFLemmas
import PygProofs.Lemmas.OpsFoldLemmas

namespace Pyg.Ops
open Pyg Pyg.Align

theorem colOf_some_of_mem (f : RFrame) (c : String) (hc : c ∈ f.names) : ∃ col, colOf f c = some col := by
  simp only [RFrame.names, List.mem_map] at hc
  obtain ⟨p, hp, rfl⟩ := hc
  cases h : f.cols.find? (·.1 == p.1) with
  | none =>
    rw [List.find?_eq_none] at h
    have := h p hp
    simp at this
  | some q => exact ⟨q.2, by simp [colOf, h]⟩

/-- a column the frame has: the default does not matter -/
theorem cellD_default (d d' : Option Rat) (f : RFrame) (m : Option Dir) (c : String) (t : Int) (hc : c ∈ f.names) :
    cellD d f m c t = cellD d' f m c t := by
  obtain ⟨col, h⟩ := colOf_some_of_mem f c hc
  simp [cellD, h]

/-- no row at `t`: NaN in every column the frame has (no fill method) -/
theorem cellD_no_row (d : Option Rat) (f : RFrame) (c : String) (t : Int) (hc : c ∈ f.names) (ht : t ∉ f.idx) :
    cellD d f Option.none c t = Option.none := by
  obtain ⟨col, h⟩ := colOf_some_of_mem f c hc
  simp [cellD, h, lookF, srcRow, (posOf_none f.idx t).mpr ht]


theorem appO_outside_frames (op : Op) (how : How) (a b : RFrame) (c : String) (t : Int) (hca : c ∈ a.names) (hcb : c ∈ b.names)
    (h : t ∉ join2 how a.idx b.idx) :
    op.appO (cellD Option.none a Option.none c t) (cellD Option.none b Option.none c t) = Option.none := by
  cases how
  · simp only [join2, mem_inter] at h
    by_cases ha : t ∈ a.idx
    · rw [cellD_no_row _ b c t hcb (fun hb => h ⟨ha, hb⟩), appO_none_right]
    · rw [cellD_no_row _ a c t hca ha, appO_none_left]
  · simp only [join2, mem_union, not_or] at h
    rw [cellD_no_row _ a c t hca h.1, appO_none_left]
  · rw [cellD_no_row _ a c t hca h, appO_none_left]
  · rw [cellD_no_row _ b c t hcb h, appO_none_right]

end Pyg.Ops
