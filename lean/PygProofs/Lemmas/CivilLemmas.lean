/-
  Facts about the closed-form Gregorian arithmetic of PygModel/Civil.lean, proved for EVERY integer day number and
  every integer year (the proleptic calendar in both directions; `/` and `%` on `Int` are floor division):
  `ymd` and `ord` are inverse bijections between day numbers and calendar dates, months are contiguous and
  28..31 days long, so adding months moves by at least 28 days per month.
  (Agreement with CPython's algorithms, `Pyg.Greg`, is in CivilGreg.lean.)
-/
import PygModel.Civil

namespace Pyg.Civil
open Pyg

/-- Gregorian leap year, on integers -/
def Leap (y : Int) : Prop := y % 4 = 0 ∧ (y % 100 ≠ 0 ∨ y % 400 = 0)

instance (y : Int) : Decidable (Leap y) := by unfold Leap; infer_instance

/-- length of month `m` (1..12) of year `y` -/
def dim (y m : Int) : Int :=
  if m = 2 then (if Leap y then 29 else 28)
  else if m = 4 ∨ m = 6 ∨ m = 9 ∨ m = 11 then 30 else 31

/-- a calendar date -/
def Valid (y m d : Int) : Prop := 1 ≤ m ∧ m ≤ 12 ∧ 1 ≤ d ∧ d ≤ dim y m

/-! ### the year of the era -/

/-- the two century corrections cancel to the century number -/
theorem cent_fact (c doe : Int) (hc0 : 0 ≤ c) (hc1 : c ≤ 3) (h1 : 36524 * c ≤ doe) (h2 : doe ≤ 36524 * c + 36524)
    (h3 : doe = 36524 * c + 36524 → c = 3) : doe / 36524 - doe / 146096 = c := by
  have hc : c = 0 ∨ c = 1 ∨ c = 2 ∨ c = 3 := by omega
  rcases hc with rfl | rfl | rfl | rfl <;> omega

/-- the heart of the "civil from days" algorithm: day `doy` of the `s`-th year of the `q`-th 4-year group of the
`c`-th century of a 400-year era lies in year-of-era `100c + 4q + s` according to the closed formula -/
theorem yoe_fact (c q s doy doe : Int) (hc0 : 0 ≤ c) (hc1 : c ≤ 3) (hq0 : 0 ≤ q) (hq1 : q ≤ 24)
    (hs0 : 0 ≤ s) (hs1 : s ≤ 3) (hd0 : 0 ≤ doy)
    (hd1 : doy ≤ 364 ∨ (doy = 365 ∧ s = 3 ∧ (q ≠ 24 ∨ c = 3)))
    (he : doe = 36524 * c + 1461 * q + 365 * s + doy) :
    (doe - doe / 1460 + doe / 36524 - doe / 146096) / 365 = 100 * c + 4 * q + s := by
  have h1 : doe / 36524 - doe / 146096 = c :=
    cent_fact c doe hc0 hc1 (by omega) (by omega) (by omega)
  have h2 : doe / 1460 = 25 * c + q + (24 * c + q + 365 * s + doy) / 1460 := by omega
  have h3 : 0 ≤ (24 * c + q + 365 * s + doy) / 1460 ∧ (24 * c + q + 365 * s + doy) / 1460 ≤ 1 := by omega
  omega

/-- days of the era before March 1st of year-of-era `yoe` -/
def dbe (yoe : Int) : Int := 365 * yoe + yoe / 4 - yoe / 100

/-- `yoe_fact` in terms of the year of the era: a day `doy` of the (March-based) year `yoe` -/
theorem yoe_of_doy (yoe doy : Int) (h0 : 0 ≤ yoe) (h1 : yoe ≤ 399) (hd0 : 0 ≤ doy)
    (hd1 : doy ≤ 364 ∨ (doy = 365 ∧ yoe % 4 = 3 ∧ (yoe % 100 ≠ 99 ∨ yoe = 399))) :
    let doe := dbe yoe + doy
    (doe - doe / 1460 + doe / 36524 - doe / 146096) / 365 = yoe ∧ 0 ≤ doe ∧ doe ≤ 146096 := by
  intro doe
  have e : doe = 36524 * (yoe / 100) + 1461 * (yoe % 100 / 4) + 365 * (yoe % 4) + doy := by
    show dbe yoe + doy = _
    unfold dbe; omega
  have := yoe_fact (yoe / 100) (yoe % 100 / 4) (yoe % 4) doy doe (by omega) (by omega) (by omega) (by omega)
    (by omega) (by omega) hd0 (by omega) e
  refine ⟨by omega, by omega, by omega⟩

/-- every day of an era is day `doy` of exactly such a year -/
theorem doe_decompose (doe : Int) (h0 : 0 ≤ doe) (h1 : doe ≤ 146096) :
    ∃ yoe doy, 0 ≤ yoe ∧ yoe ≤ 399 ∧ 0 ≤ doy ∧
      (doy ≤ 364 ∨ (doy = 365 ∧ yoe % 4 = 3 ∧ (yoe % 100 ≠ 99 ∨ yoe = 399))) ∧ doe = dbe yoe + doy := by
  obtain ⟨c, hc⟩ : ∃ c, c = if doe / 36524 ≥ 4 then 3 else doe / 36524 := ⟨_, rfl⟩
  obtain ⟨r1, hr1⟩ : ∃ r1, r1 = doe - 36524 * c := ⟨_, rfl⟩
  obtain ⟨q, hq⟩ : ∃ q, q = if r1 / 1461 ≥ 25 then 24 else r1 / 1461 := ⟨_, rfl⟩
  obtain ⟨r2, hr2⟩ : ∃ r2, r2 = r1 - 1461 * q := ⟨_, rfl⟩
  obtain ⟨s, hs⟩ : ∃ s, s = if r2 / 365 ≥ 4 then 3 else r2 / 365 := ⟨_, rfl⟩
  have c0 : 0 ≤ c ∧ c ≤ 3 := by split at hc <;> omega
  have r1b : 0 ≤ r1 ∧ r1 ≤ 36524 ∧ (r1 = 36524 → c = 3) := by split at hc <;> omega
  have q0 : 0 ≤ q ∧ q ≤ 24 := by split at hq <;> omega
  have r2b : 0 ≤ r2 ∧ r2 ≤ 1460 ∧ (r2 = 1460 → q ≠ 24 ∨ c = 3) := by split at hq <;> omega
  have s0 : 0 ≤ s ∧ s ≤ 3 := by split at hs <;> omega
  have r3b : 0 ≤ r2 - 365 * s ∧ r2 - 365 * s ≤ 365 ∧ (r2 - 365 * s = 365 → s = 3 ∧ r2 = 1460) := by
    split at hs <;> omega
  have e4 : (100 * c + 4 * q + s) / 4 = 25 * c + q := by omega
  have e100 : (100 * c + 4 * q + s) / 100 = c := by omega
  refine ⟨100 * c + 4 * q + s, r2 - 365 * s, by omega, by omega, by omega, by omega, ?_⟩
  unfold dbe; rw [e4, e100]; omega

/-! ### `ymd` and `ord` through their intermediate quantities -/

/-- month and day from the (March-based) day of the year, and the year correction -/
def tail (y' doy : Int) : Int × Int × Int :=
  let mp := (5 * doy + 2) / 153
  let d := doy - (153 * mp + 2) / 5 + 1
  let m := if mp < 10 then mp + 3 else mp - 9
  (y' + (if m ≤ 2 then 1 else 0), m, d)

/-- `ymd` of the day number that is day `doy` of March-based year `era*400 + yoe` -/
theorem ymd_of (era yoe doy : Int) (h0 : 0 ≤ yoe) (h1 : yoe ≤ 399) (hd0 : 0 ≤ doy)
    (hd1 : doy ≤ 364 ∨ (doy = 365 ∧ yoe % 4 = 3 ∧ (yoe % 100 ≠ 99 ∨ yoe = 399))) :
    ymd (era * 146097 + (dbe yoe + doy) - 305) = tail (yoe + era * 400) doy := by
  obtain ⟨hy, hb0, hb1⟩ := yoe_of_doy yoe doy h0 h1 hd0 hd1
  generalize hdoe : dbe yoe + doy = doe at *
  have e1 : (era * 146097 + doe - 305 + 305) / 146097 = era := by omega
  have e2 : (era * 146097 + doe - 305 + 305) % 146097 = doe := by omega
  unfold ymd
  simp only [e1, e2, hy]
  have e3 : doe - (365 * yoe + yoe / 4 - yoe / 100) = doy := by rw [← hdoe]; unfold dbe; omega
  rw [e3]
  rfl

/-- `ord` through the same quantities -/
theorem ord_of (y m d : Int) :
    ord y m d = ((if m ≤ 2 then y - 1 else y) / 400) * 146097
      + (dbe ((if m ≤ 2 then y - 1 else y) % 400) + ((153 * (if m > 2 then m - 3 else m + 9) + 2) / 5 + d - 1)) - 305 := by
  unfold ord dbe; simp only []; omega

/-- the March-based day of the year of a calendar date, and what `tail` makes of it -/
theorem tail_of_date (y m d : Int) (v : Valid y m d) :
    let doy := (153 * (if m > 2 then m - 3 else m + 9) + 2) / 5 + d - 1
    0 ≤ doy ∧ (doy ≤ 364 ∨ (doy = 365 ∧ m = 2 ∧ Leap y)) ∧
      tail (if m ≤ 2 then y - 1 else y) doy = (y, m, d) := by
  obtain ⟨h1, h2, h3, h4⟩ := v
  have hm : m = 1 ∨ m = 2 ∨ m = 3 ∨ m = 4 ∨ m = 5 ∨ m = 6 ∨ m = 7 ∨ m = 8 ∨ m = 9 ∨ m = 10 ∨ m = 11 ∨ m = 12 := by
    omega
  unfold dim at h4
  by_cases hl : Leap y
  all_goals
    rcases hm with rfl | rfl | rfl | rfl | rfl | rfl | rfl | rfl | rfl | rfl | rfl | rfl
  all_goals
    simp only [hl, Int.reduceLE, Int.reduceGT, Int.reduceEq, ↓reduceIte, or_true, or_false, and_true, and_false, Int.reduceAdd, Int.reduceSub, Int.reduceMul, Int.reduceDiv] at h4 ⊢
    refine ⟨by omega, by omega, ?_⟩
    unfold tail
    simp only [Prod.mk.injEq]
    refine ⟨?_, ?_, ?_⟩ <;> (repeat' split) <;> omega

/-- conversely every day of a March-based year is a calendar date, and `ord`'s intermediate quantities recover it -/
theorem tail_spec (y' doy : Int) (hd0 : 0 ≤ doy) (hd1 : doy ≤ 364 ∨ (doy = 365 ∧ Leap (y' + 1))) :
    Valid (tail y' doy).1 (tail y' doy).2.1 (tail y' doy).2.2 ∧
    (if (tail y' doy).2.1 ≤ 2 then (tail y' doy).1 - 1 else (tail y' doy).1) = y' ∧
    (153 * (if (tail y' doy).2.1 > 2 then (tail y' doy).2.1 - 3 else (tail y' doy).2.1 + 9) + 2) / 5
      + (tail y' doy).2.2 - 1 = doy := by
  obtain ⟨mp, hmp⟩ : ∃ mp, mp = (5 * doy + 2) / 153 := ⟨_, rfl⟩
  have hm : mp = 0 ∨ mp = 1 ∨ mp = 2 ∨ mp = 3 ∨ mp = 4 ∨ mp = 5 ∨ mp = 6 ∨ mp = 7 ∨ mp = 8 ∨ mp = 9 ∨ mp = 10
      ∨ mp = 11 := by omega
  unfold tail Valid dim
  simp only [← hmp]
  by_cases hl : Leap (y' + 1)
  all_goals
    rcases hm with rfl | rfl | rfl | rfl | rfl | rfl | rfl | rfl | rfl | rfl | rfl | rfl
  all_goals
    simp only [hl, Int.reduceLE, Int.reduceLT, Int.reduceGT, Int.reduceEq, ↓reduceIte, or_true, or_false,
      and_true, and_false, Int.reduceAdd, Int.reduceSub, Int.reduceMul, Int.reduceDiv, Int.add_zero, true_and] at hd1 ⊢
    omega

/-- date → day number → date, for every calendar date of every integer year -/
theorem ymd_ord (y m d : Int) (v : Valid y m d) : ymd (ord y m d) = (y, m, d) := by
  obtain ⟨hd0, hd1, ht⟩ := tail_of_date y m d v
  rw [ord_of]
  generalize hy' : (if m ≤ 2 then y - 1 else y) = y' at *
  generalize hdoy : (153 * (if m > 2 then m - 3 else m + 9) + 2) / 5 + d - 1 = doy at *
  rw [ymd_of (y' / 400) (y' % 400) doy (by omega) (by omega) hd0]
  · have : y' % 400 + y' / 400 * 400 = y' := by omega
    rw [this, ht]
  · rcases hd1 with h | ⟨h1, h2, h3⟩
    · exact Or.inl h
    · refine Or.inr ⟨h1, ?_⟩
      unfold Leap at h3
      have : y' = y - 1 := by rw [← hy']; simp [h2]
      omega

/-- day number → date → day number, and the date is a calendar date: every integer day number -/
theorem ord_ymd (n : Int) :
    Valid (ymd n).1 (ymd n).2.1 (ymd n).2.2 ∧ ord (ymd n).1 (ymd n).2.1 (ymd n).2.2 = n := by
  obtain ⟨yoe, doy, h0, h1, hd0, hd1, he⟩ :=
    doe_decompose ((n + 305) % 146097) (by omega) (by omega)
  have hn : n = (n + 305) / 146097 * 146097 + (dbe yoe + doy) - 305 := by omega
  generalize (n + 305) / 146097 = era at hn
  have hy := ymd_of era yoe doy h0 h1 hd0 hd1
  rw [← hn] at hy
  have hl : doy ≤ 364 ∨ (doy = 365 ∧ Leap (yoe + era * 400 + 1)) := by
    rcases hd1 with h | ⟨a, b, c⟩
    · exact Or.inl h
    · refine Or.inr ⟨a, ?_⟩
      unfold Leap; omega
  obtain ⟨v, e1, e2⟩ := tail_spec (yoe + era * 400) doy hd0 hl
  rw [hy]
  refine ⟨v, ?_⟩
  rw [ord_of, e1, e2]
  have a : (yoe + era * 400) / 400 = era := by omega
  have b : (yoe + era * 400) % 400 = yoe := by omega
  rw [a, b]; omega

/-! ### months are contiguous; adding months moves by 28..31 days per month -/

/-- `ord` is affine in the day (an over-long day just runs on, as `datetime(y,m,1) + (d-1)*DAY` does) -/
theorem ord_day (y m d : Int) : ord y m d = ord y m 1 + (d - 1) := by
  unfold ord; simp only []; omega

theorem dim_bounds (y m : Int) : 28 ≤ dim y m ∧ dim y m ≤ 31 := by
  unfold dim; repeat' split
  all_goals omega

/-- first day of the month with month count `M = 12*y + (m-1)` -/
def monthStart (M : Int) : Int := ord (M / 12) (1 + M % 12) 1

/-- the first of the next month is the day after the last of this one (December → January included) -/
theorem monthStart_succ (M : Int) : monthStart (M + 1) = monthStart M + dim (M / 12) (1 + M % 12) := by
  obtain ⟨y, hy⟩ : ∃ y, y = M / 12 := ⟨_, rfl⟩
  obtain ⟨r, hr⟩ : ∃ r, r = M % 12 := ⟨_, rfl⟩
  have hM : M = 12 * y + r := by omega
  have hr0 : 0 ≤ r ∧ r < 12 := by omega
  subst hM
  have e1 : (12 * y + r) / 12 = y := by omega
  have e2 : (12 * y + r) % 12 = r := by omega
  have e3 : (12 * y + r + 1) / 12 = if r = 11 then y + 1 else y := by split <;> omega
  have e4 : (12 * y + r + 1) % 12 = if r = 11 then 0 else r + 1 := by split <;> omega
  unfold monthStart
  rw [e1, e2, e3, e4]
  have hcases : r = 0 ∨ r = 1 ∨ r = 2 ∨ r = 3 ∨ r = 4 ∨ r = 5 ∨ r = 6 ∨ r = 7 ∨ r = 8 ∨ r = 9 ∨ r = 10 ∨ r = 11 := by
    omega
  unfold dim Leap ord
  rcases hcases with rfl | rfl | rfl | rfl | rfl | rfl | rfl | rfl | rfl | rfl | rfl | rfl
  all_goals
    simp only [Int.reduceLE, Int.reduceGT, Int.reduceEq, ↓reduceIte, or_true, or_false,
      Int.reduceAdd, Int.reduceSub, Int.reduceMul, Int.reduceDiv]
  all_goals first | omega | (split <;> omega)

theorem monthStart_add_nat (M : Int) : ∀ k : Nat,
    monthStart M + 28 * (k : Int) ≤ monthStart (M + k) ∧ monthStart (M + k) ≤ monthStart M + 31 * (k : Int)
  | 0 => by simp
  | k + 1 => by
    have ih := monthStart_add_nat M k
    have h := monthStart_succ (M + k)
    have hb := dim_bounds ((M + k) / 12) (1 + (M + k) % 12)
    have e : M + ((k + 1 : Nat) : Int) = M + (k : Int) + 1 := by omega
    rw [e, h]
    omega

/-- `k ≥ 0` months later is 28k..31k days later -/
theorem monthStart_add (M k : Int) (hk : 0 ≤ k) :
    monthStart M + 28 * k ≤ monthStart (M + k) ∧ monthStart (M + k) ≤ monthStart M + 31 * k := by
  have := monthStart_add_nat M k.toNat
  have e : (k.toNat : Int) = k := by omega
  rw [e] at this; exact this

/-- `_ymd(y, m, d)` for any integer month `m`: the first of the normalised month plus `d - 1` days -/
theorem ordYM_eq (y m d : Int) : ordYM y m d = monthStart (12 * y + m - 1) + (d - 1) := by
  unfold ordYM ymNorm monthStart
  simp only []
  rw [ord_day]
  have e1 : (12 * y + m - 1) / 12 = y + (m - 1) / 12 := by omega
  have e2 : (12 * y + m - 1) % 12 = (m - 1) % 12 := by omega
  rw [e1, e2]

/-- the month count of the date of day `n` -/
def monthCount (n : Int) : Int := 12 * (ymd n).1 + (ymd n).2.1 - 1

/-- a day number is the first of its month plus its day of month minus one -/
theorem day_split (n : Int) : n = monthStart (monthCount n) + ((ymd n).2.2 - 1) := by
  obtain ⟨v, e⟩ := ord_ymd n
  obtain ⟨h1, h2, _, _⟩ := v
  have := ordYM_eq (ymd n).1 (ymd n).2.1 (ymd n).2.2
  have e3 : ordYM (ymd n).1 (ymd n).2.1 (ymd n).2.2 = ord (ymd n).1 (ymd n).2.1 (ymd n).2.2 := by
    unfold ordYM ymNorm
    simp only []
    have a : (ymd n).1 + ((ymd n).2.1 - 1) / 12 = (ymd n).1 := by omega
    have b : 1 + ((ymd n).2.1 - 1) % 12 = (ymd n).2.1 := by omega
    rw [a, b]
  unfold monthCount
  rw [← this, e3, e]

theorem addMonths_eq (n k : Int) : addMonths n k = monthStart (monthCount n + k) + ((ymd n).2.2 - 1) := by
  unfold addMonths monthCount
  show ordYM (ymd n).1 ((ymd n).2.1 + k) (ymd n).2.2 = _
  rw [ordYM_eq]
  have : 12 * (ymd n).1 + ((ymd n).2.1 + k) - 1 = 12 * (ymd n).1 + (ymd n).2.1 - 1 + k := by omega
  rw [this]

/-- adding `k ≥ 0` months moves forward by 28k..31k days — every day number, every day of month -/
theorem addMonths_fwd (n k : Int) (hk : 0 ≤ k) : n + 28 * k ≤ addMonths n k ∧ addMonths n k ≤ n + 31 * k := by
  have h := monthStart_add (monthCount n) k hk
  have h1 := day_split n
  have h2 := addMonths_eq n k
  omega

/-- adding `k ≤ 0` months moves backward by 28|k|..31|k| days -/
theorem addMonths_bwd (n k : Int) (hk : k ≤ 0) : n + 31 * k ≤ addMonths n k ∧ addMonths n k ≤ n + 28 * k := by
  have h := monthStart_add (monthCount n + k) (-k) (by omega)
  have e : monthCount n + k + -k = monthCount n := by omega
  rw [e] at h
  have h1 := day_split n
  have h2 := addMonths_eq n k
  omega

/-- years are 12 months -/
theorem ordYM_year (y k m d : Int) : ordYM (y + k) m d = ordYM y (m + 12 * k) d := by
  rw [ordYM_eq, ordYM_eq]
  have : 12 * (y + k) + m - 1 = 12 * y + (m + 12 * k) - 1 := by omega
  rw [this]

/-! ### from a day of month that every month has (≤ 28) month arithmetic keeps the day and is additive -/

/-- the date `k` months after a date whose day of month is ≤ 28: same day of month, month count + k -/
theorem ymd_addMonths (n k : Int) (hd : (ymd n).2.2 ≤ 28) :
    ymd (addMonths n k) = ((monthCount n + k) / 12, 1 + (monthCount n + k) % 12, (ymd n).2.2) := by
  obtain ⟨v, _⟩ := ord_ymd n
  rw [addMonths_eq]
  unfold monthStart
  rw [← ord_day]
  apply ymd_ord
  have hb := dim_bounds ((monthCount n + k) / 12) (1 + (monthCount n + k) % 12)
  unfold Valid at *
  omega

theorem day_addMonths (n k : Int) (hd : day n ≤ 28) : day (addMonths n k) = day n := by
  unfold day at *; rw [ymd_addMonths n k hd]

theorem monthCount_addMonths (n k : Int) (hd : (ymd n).2.2 ≤ 28) : monthCount (addMonths n k) = monthCount n + k := by
  show 12 * (ymd (addMonths n k)).1 + (ymd (addMonths n k)).2.1 - 1 = monthCount n + k
  rw [ymd_addMonths n k hd]; simp only []; omega

/-- month bumps compose: `k` months then `j` months is `k + j` months (day of month ≤ 28) -/
theorem addMonths_add (n k j : Int) (hd : day n ≤ 28) : addMonths (addMonths n k) j = addMonths n (k + j) := by
  unfold day at hd
  rw [addMonths_eq (addMonths n k) j, monthCount_addMonths n k hd, ymd_addMonths n k hd, addMonths_eq n (k + j)]
  simp only []
  have : monthCount n + k + j = monthCount n + (k + j) := by omega
  rw [this]

theorem addMonths_zero (n : Int) : addMonths n 0 = n := by
  have := day_split n
  rw [addMonths_eq, Int.add_zero]; omega

end Pyg.Civil
