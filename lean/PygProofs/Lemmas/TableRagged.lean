/-
  Lemmas for `dictable(rows, columns = header)` with RAGGED rows (C01, `new_rows_ragged`): what the two
  nested `zipper`s of `_data_columns_as_dict` do when the rows do not all have the header's length.
-/
import PygProofs.Lemmas.TableMaskPlain

namespace Pyg
open Abs

/-- `lens` of lengths that are all `n` or 1, `n` occurring: `n` -/
theorem lens_of_mem {ls : List Nat} {n : Nat} (hall : ∀ l ∈ ls, l = n ∨ l = 1) (hex : n ∈ ls) :
    lens ls = .ok n := by
  unfold lens
  have hne : ls.isEmpty = false := by cases ls <;> simp_all
  simp only [hne, Bool.false_eq_true, if_false]
  split
  · rename_i hf
    by_cases h1 : n = 1
    · rw [h1]
    · have : n ∈ ls.filter (· != 1) := List.mem_filter.2 ⟨hex, by simpa using h1⟩
      rw [hf] at this; cases this
  · rename_i a rest hf
    have hmem : ∀ x ∈ a :: rest, x = n := by
      intro x hx
      rw [← hf] at hx
      obtain ⟨h1, h2⟩ := List.mem_filter.1 hx
      rcases hall x h1 with h | h
      · exact h
      · simp [h] at h2
    have ha : a = n := hmem a List.mem_cons_self
    have hr : rest.all (· == a) = true := by
      apply List.all_eq_true.2
      intro x hx
      simp [hmem x (List.mem_cons_of_mem _ hx), ha]
    rw [if_pos hr, ha]

theorem bcast_singleton {α} (n : Nat) (x : α) : bcast n [x] = List.replicate n x := rfl

namespace Table

/-- a length-1 row broadcast to width `c` has its cell at every position `j < c` -/
theorem bcast_getD_of_one {c j : Nat} {r : List Cell} (h1 : r.length = 1) (hj : j < c) :
    (bcast c r).getD j .none = r.getD 0 .none := by
  match r, h1 with
  | [a], _ => simp [bcast, List.getD_eq_getElem?_getD, hj]

/-- the keyed reading of ragged rows under a header of `c` distinct names, every row of length `c` or 1:
the rows with the length-1 ones repeated across the header -/
theorem dataCols_rows_ragged (cs : List String) (rs : List (List Cell)) (hcs : cs.Nodup)
    (hne : rs ≠ []) (hall : ∀ r ∈ rs, r.length = cs.length ∨ r.length = 1) :
    dataCols (.rows rs) (some cs) = some (.ok (ofRows cs (rs.map (bcast cs.length)))) := by
  have hnd : (ofRows cs (rs.map (bcast cs.length))).cols.Nodup := by rw [ofRows_cols]; exact hcs
  obtain ⟨r0, rest, rfl⟩ := List.exists_cons_of_ne_nil hne
  have hlall : ∀ l ∈ (r0 :: rest).map (·.length), l = cs.length ∨ l = 1 := by
    intro l hl
    obtain ⟨r, hr, rfl⟩ := List.mem_map.1 hl
    exact hall r hr
  by_cases hex : ∃ r ∈ r0 :: rest, r.length = cs.length
  · -- a row as long as the header: the common length is the header's
    obtain ⟨r, hr, hrl⟩ := hex
    have hlens : lens ((r0 :: rest).map (·.length)) = .ok cs.length :=
      lens_of_mem hlall (List.mem_map.2 ⟨r, hr, hrl⟩)
    have hz : zipper Cell.none (r0 :: rest) =
        .ok ((List.range cs.length).map fun j => (r0 :: rest).map fun r => (bcast cs.length r).getD j .none) := by
      unfold zipper
      rw [hlens]
    have hz2 : zipper2 cs ((List.range cs.length).map fun j =>
          (r0 :: rest).map fun r => (bcast cs.length r).getD j .none) =
        .ok (ofRows cs ((r0 :: rest).map (bcast cs.length))) := by
      unfold zipper2
      have : lens [cs.length, ((List.range cs.length).map fun j =>
          (r0 :: rest).map fun r => (bcast cs.length r).getD j Cell.none).length] = .ok cs.length := by
        apply lens_const (by simp)
        intro l hl
        simp at hl
        rcases hl with rfl | rfl <;> rfl
      rw [this]
      simp only
      rw [bcast_self rfl, bcast_self (by simp), ofRows_eq_zip]
      simp only [List.map_map, Function.comp_def]
    have hm : headerMisfit cs ((List.range cs.length).map fun j =>
        (r0 :: rest).map fun r => (bcast cs.length r).getD j Cell.none) = false := by
      unfold headerMisfit
      simp only [List.length_map, List.length_range]
      by_cases h : cs.length = 1 <;> simp [h]
    simp only [dataCols, hz, hm, Bool.false_eq_true, if_false, hz2, ofPairs_self_of_nodup _ hnd]
  · -- every row has length 1: one transposed column, repeated under every header name
    have h1 : ∀ r ∈ r0 :: rest, r.length = 1 := by
      intro r hr
      rcases hall r hr with h | h
      · exact absurd ⟨r, hr, h⟩ hex
      · exact h
    have hlens : lens ((r0 :: rest).map (·.length)) = .ok 1 := by
      apply lens_const (by simp)
      intro l hl
      obtain ⟨r, hr, rfl⟩ := List.mem_map.1 hl
      exact h1 r hr
    have hz : zipper Cell.none (r0 :: rest) =
        .ok [(r0 :: rest).map fun r => (bcast 1 r).getD 0 .none] := by
      unfold zipper
      rw [hlens]
      rfl
    have hz2 : zipper2 cs [(r0 :: rest).map fun r => (bcast 1 r).getD 0 .none] =
        .ok (ofRows cs ((r0 :: rest).map (bcast cs.length))) := by
      unfold zipper2
      simp only [List.length_singleton, lens_pair_one_right]
      rw [bcast_self rfl, ofRows_eq_zip, bcast_singleton]
      congr 2
      apply List.ext_getElem
      · simp
      · intro j hj1 hj2
        have hj : j < cs.length := by simpa using hj1
        simp only [List.getElem_replicate, List.getElem_map, List.getElem_range, List.map_map,
          Function.comp_def]
        apply List.map_congr_left
        intro r hr
        rw [bcast_getD_of_one (h1 r hr) hj, bcast_self (h1 r hr)]
    have hm : headerMisfit cs [(r0 :: rest).map fun r => (bcast 1 r).getD 0 Cell.none] = false := by
      simp [headerMisfit]
    simp only [dataCols, hz, hm, Bool.false_eq_true, if_false, hz2, ofPairs_self_of_nodup _ hnd]

/-- a row whose length is neither the header's nor 1 (header of `c ≠ 1` names): one of the two `zipper`s
raises `ValueError` -/
theorem dataCols_rows_bad (cs : List String) (rs : List (List Cell)) (hc : cs.length ≠ 1)
    (hbad : ∃ r ∈ rs, r.length ≠ cs.length ∧ r.length ≠ 1) :
    dataCols (.rows rs) (some cs) = some (.error .value) := by
  obtain ⟨r, hr, hb1, hb2⟩ := hbad
  obtain ⟨r0, rest, rfl⟩ := List.exists_cons_of_ne_nil (List.ne_nil_of_mem hr)
  cases hl : lens ((r0 :: rest).map (·.length)) with
  | error e =>
    have he := lens_error_value hl
    subst he
    have hz : zipper Cell.none (r0 :: rest) = .error .value := by
      unfold zipper
      rw [hl]
    simp only [dataCols, hz]
  | ok n =>
    have hrn : r.length = n := by
      rcases lens_ok hl r.length (List.mem_map.2 ⟨r, hr, rfl⟩) with h | h
      · exact h
      · exact absurd h hb2
    have hz : zipper Cell.none (r0 :: rest) =
        .ok ((List.range n).map fun j => (r0 :: rest).map fun r => (bcast n r).getD j .none) := by
      unfold zipper
      rw [hl]
    have hz2 : zipper2 cs ((List.range n).map fun j => (r0 :: rest).map fun r => (bcast n r).getD j .none) =
        .error .value := by
      unfold zipper2
      have : lens [cs.length, ((List.range n).map fun j =>
          (r0 :: rest).map fun r => (bcast n r).getD j Cell.none).length] = .error .value := by
        simp only [List.length_map, List.length_range]
        exact lens_pair_misfit hc (by omega) (by omega)
      rw [this]
    have hm : headerMisfit cs ((List.range n).map fun j =>
        (r0 :: rest).map fun r => (bcast n r).getD j Cell.none) = false := by
      simp [headerMisfit, hc]
    simp only [dataCols, hz, hm, Bool.false_eq_true, if_false, hz2]

/-- the rest of the constructor after the keyed reading gave a table `ofRows cs rows` over the distinct,
non-empty header `cs`: the `columns=` restriction and the final `lens` change nothing -/
theorem construct_of_dataCols_ofRows {data : Data} (cs : List String) (rows : List (List Cell))
    (hcs : cs.Nodup) (hk : cs ≠ []) (hdc : dataCols data (some cs) = some (.ok (ofRows cs rows))) :
    construct data (some cs) [] = some (.ok (ofRows cs rows)) := by
  have hnd : (ofRows cs rows).cols.Nodup := by rw [ofRows_cols]; exact hcs
  have hne : ofRows cs rows ≠ [] := by
    intro he
    have := ofRows_cols cs rows
    rw [he] at this
    exact hk this.symm
  have hlen : (ofRows cs rows).length > 0 := List.length_pos_iff.2 hne
  have hrestrict := restrict_self hnd
  rw [ofRows_cols] at hrestrict
  simp only [construct, hdc, List.map_nil, ofPairs, List.foldl_nil, updateWith_nil]
  change some (Table.finish (if (ofPairs (ofRows cs rows)).length > 0 then
      ofPairs (cs.map fun k => (k, ((ofPairs (ofRows cs rows)).col? k).getD [Cell.none]))
    else ofPairs (cs.map fun k => (k, [])))) = _
  rw [ofPairs_self_of_nodup _ hnd, if_pos hlen, hrestrict, finish_rect (ofRows_rect cs _)]

theorem construct_of_dataCols_error {data : Data} {columns : Option (List String)}
    {kwargs : List (String × ColVal)} {e : Err} (hdc : dataCols data columns = some (.error e)) :
    construct data columns kwargs = some (.error e) := by
  simp only [construct, hdc]

/-! ### a header of ONE name: the outer `zipper` repeats the name, `dict` keeps the last column -/

/-- `dict` of pairs that all carry the key `k`: the last value -/
theorem foldl_set_same_key (k : String) (vs : List (List Cell)) (v0 : List Cell) :
    ((List.replicate vs.length k).zip vs).foldl (fun t kv => Table.set t kv.1 kv.2) [(k, v0)] =
      [(k, vs.getLast?.getD v0)] := by
  induction vs generalizing v0 with
  | nil => rfl
  | cons v vs ih =>
    simp only [List.length_cons, List.replicate_succ, List.zip_cons_cons, List.foldl_cons]
    have : Table.set [(k, v0)] k v = [(k, v)] := by simp [Table.set, Table.has]
    rw [this, ih]
    cases vs with
    | nil => rfl
    | cons w ws =>
      obtain ⟨l, hl⟩ : ∃ l, (w :: ws).getLast? = some l := by
        cases h : (w :: ws).getLast? with
        | none => simp at h
        | some l => exact ⟨l, rfl⟩
      simp [List.getLast?_cons_cons, hl]

theorem ofPairs_same_key (k : String) (vs : List (List Cell)) :
    ofPairs ((List.replicate vs.length k).zip vs) =
      match vs.getLast? with
      | Option.none => []
      | some v => [(k, v)] := by
  cases vs with
  | nil => rfl
  | cons v vs =>
    unfold ofPairs
    simp only [List.length_cons, List.replicate_succ, List.zip_cons_cons, List.foldl_cons]
    have : Table.set [] k v = [(k, v)] := by simp [Table.set, Table.has]
    rw [this, foldl_set_same_key]
    cases vs with
    | nil => rfl
    | cons w ws =>
      obtain ⟨l, hl⟩ : ∃ l, (w :: ws).getLast? = some l := by
        cases h : (w :: ws).getLast? with
        | none => simp at h
        | some l => exact ⟨l, rfl⟩
      simp [List.getLast?_cons_cons, hl]

/-- the constructor's tail on a one-column keyed reading -/
theorem construct_of_dataCols_single {data : Data} (k : String) (v : List Cell)
    (hdc : dataCols data (some [k]) = some (.ok [(k, v)])) :
    construct data (some [k]) [] = some (.ok [(k, v)]) := by
  have hr : Table.Rect [(k, v)] v.length := by
    intro c hc
    simp only [List.mem_singleton] at hc
    subst hc; rfl
  have h1 : ofPairs [(k, v)] = [(k, v)] := by simp [ofPairs, Table.set, Table.has]
  simp only [construct, hdc, List.map_nil, ofPairs, List.foldl_nil, updateWith_nil]
  change some (Table.finish (if (ofPairs [(k, v)]).length > 0 then
      ofPairs ([k].map fun k' => (k', ((ofPairs [(k, v)]).col? k').getD [Cell.none]))
    else ofPairs ([k].map fun k' => (k', [])))) = _
  rw [h1]
  have h2 : Table.col? [(k, v)] k = some v := by simp [Table.col?]
  simp only [List.length_singleton, gt_iff_lt, Nat.lt_add_one, if_true, List.map_cons, List.map_nil, h2,
    Option.getD_some, h1]
  rw [finish_rect hr]

/-- the common length, when it is not 1, is the length of one of the lists -/
theorem lens_ok_mem {ls : List Nat} {n : Nat} (h : lens ls = .ok n) (hn : n ≠ 1) (hne : ls ≠ []) : n ∈ ls := by
  unfold lens at h
  have he : ls.isEmpty = false := by cases ls <;> simp_all
  simp only [he, Bool.false_eq_true, if_false] at h
  split at h
  · simp only [Except.ok.injEq] at h; exact absurd h.symm hn
  · rename_i m rest hf
    split at h
    · simp only [Except.ok.injEq] at h
      subst h
      have : m ∈ ls.filter (· != 1) := by rw [hf]; simp
      exact (List.mem_filter.1 this).1
    · cases h

/-- the keyed reading of rows under a one-name header (repaired code, fix C01-H2): rows of several cells are a `ValueError`; rows of one
cell (or none) are read as before -/
theorem dataCols_rows_header1 (k : String) (rs : List (List Cell)) (hne : rs ≠ []) (n : Nat)
    (hl : lens (rs.map (·.length)) = .ok n) :
    dataCols (.rows rs) (some [k]) =
      some (if n > 1 then .error .value else
        .ok (if n = 0 then [] else [(k, rs.map fun r => (bcast n r).getD (n - 1) .none)])) := by
  obtain ⟨r0, rest, rfl⟩ := List.exists_cons_of_ne_nil hne
  have hz : zipper Cell.none (r0 :: rest) =
      .ok ((List.range n).map fun j => (r0 :: rest).map fun r => (bcast n r).getD j .none) := by
    unfold zipper
    rw [hl]
  by_cases hn : n > 1
  · have hm : headerMisfit [k] ((List.range n).map fun j =>
        (r0 :: rest).map fun r => (bcast n r).getD j Cell.none) = true := by
      simp [headerMisfit, hn]
    simp only [dataCols, hz, hm, if_true, hn]
  · have hm : headerMisfit [k] ((List.range n).map fun j =>
        (r0 :: rest).map fun r => (bcast n r).getD j Cell.none) = false := by
      simp [headerMisfit]; omega
    have hz2 : zipper2 [k] ((List.range n).map fun j => (r0 :: rest).map fun r => (bcast n r).getD j .none) =
        .ok ((List.replicate n k).zip
          ((List.range n).map fun j => (r0 :: rest).map fun r => (bcast n r).getD j .none)) := by
      unfold zipper2
      simp only [List.length_singleton, List.length_map, List.length_range, lens_pair_one_left]
      rw [bcast_singleton, bcast_self (by simp)]
    simp only [dataCols, hz, hm, Bool.false_eq_true, if_false, hz2, hn]
    have := ofPairs_same_key k ((List.range n).map fun j => (r0 :: rest).map fun r => (bcast n r).getD j .none)
    simp only [List.length_map, List.length_range] at this
    rw [this]
    cases n with
    | zero => rfl
    | succ m =>
      simp [List.range_succ, List.getLast?_append]

end Table
end Pyg
