import PygModel.Waiter

namespace Pyg

/-! ### the auxiliary list functions are maps -/

theorem startList_eq_map : ∀ xs, startList xs = xs.map start
  | [] => by simp [startList]
  | x :: xs => by simp [startList, startList_eq_map xs]

theorem startKVs_eq_map : ∀ kvs, startKVs kvs = kvs.map fun p => start p.2
  | [] => by simp [startKVs]
  | (k, x) :: kvs => by simp [startKVs, startKVs_eq_map kvs]

theorem completeList_eq_map (i : Nat) (v : Val) : ∀ ts, completeList i v ts = ts.map (complete i v)
  | [] => by simp [completeList]
  | t :: ts => by simp [completeList, completeList_eq_map i v ts]

theorem resolveList_eq_map (res : Nat → Val) : ∀ xs, resolveList res xs = xs.map (resolve res)
  | [] => by simp [resolveList]
  | x :: xs => by simp [resolveList, resolveList_eq_map res xs]

theorem resolveKVs_eq (res : Nat → Val) :
    ∀ kvs, resolveKVs res kvs = (kvs.map (·.1)).zip (kvs.map fun p => resolve res p.2)
  | [] => by simp [resolveKVs]
  | (k, x) :: kvs => by simp [resolveKVs, resolveKVs_eq res kvs]

theorem mem_awaitablesList {i : Nat} : ∀ {xs : List W}, i ∈ awaitablesList xs ↔ ∃ x ∈ xs, i ∈ awaitables x
  | [] => by simp [awaitablesList]
  | x :: xs => by simp [awaitablesList, mem_awaitablesList (xs := xs)]

theorem mem_awaitablesKVs {i : Nat} :
    ∀ {kvs : List (String × W)}, i ∈ awaitablesKVs kvs ↔ ∃ p ∈ kvs, i ∈ awaitables p.2
  | [] => by simp [awaitablesKVs]
  | (k, x) :: kvs => by simp [awaitablesKVs, mem_awaitablesKVs (kvs := kvs)]

/-! ### slots -/

theorem allRet_map_ret {α} (g : α → Val) : ∀ xs : List α, allRet (xs.map fun x => Task.ret (g x)) = some (xs.map g)
  | [] => by simp [allRet]
  | x :: xs => by simp [allRet, allRet_map_ret g xs]

theorem allRet_some_iff : ∀ (ts : List Task) (vs : List Val), allRet ts = some vs ↔ ts = vs.map Task.ret
  | [], vs => by cases vs <;> simp [allRet]
  | .ret v :: ts, vs => by
      cases vs with
      | nil => simp [allRet]
      | cons w ws =>
        simp only [allRet, Option.map_eq_some_iff, List.map_cons, List.cons.injEq, Task.ret.injEq]
        constructor
        · rintro ⟨a, ha, h1, h2⟩
          subst h1 h2
          exact ⟨rfl, (allRet_some_iff ts a).1 ha⟩
        · rintro ⟨h1, h2⟩
          exact ⟨ws, (allRet_some_iff ts ws).2 h2, h1, rfl⟩
  | .wait j :: ts, vs => by cases vs <;> simp [allRet]
  | .gather k s :: ts, vs => by cases vs <;> simp [allRet]

theorem allRet_none_of_mem (ts : List Task) (t : Task) (h : t ∈ ts) (ht : t.result = none) :
    allRet ts = none := by
  cases hr : allRet ts with
  | none => rfl
  | some vs =>
    exfalso
    rw [allRet_some_iff] at hr
    subst hr
    obtain ⟨v, _, rfl⟩ := List.mem_map.1 h
    simp [Task.result] at ht

/-- an event leaves filled slots alone, so it commutes with the completion test of a gather node -/
theorem complete_collapse (i : Nat) (v : Val) (k : Kind) (slots : List Task) :
    complete i v (collapse k slots) = collapse k (slots.map (complete i v)) := by
  unfold collapse
  cases h : allRet slots with
  | some vs =>
    rw [allRet_some_iff] at h
    subst h
    have : (vs.map Task.ret).map (complete i v) = vs.map Task.ret := by
      simp [List.map_map, Function.comp_def, complete]
    rw [this, allRet_map_ret (fun x => x)]
    simp [complete]
  | none =>
    simp only [complete, completeList_eq_map]
    rfl

/-- two completion events for different awaitables commute on every task tree -/
theorem complete_comm_aux (i j : Nat) (a b : Val) (hij : i ≠ j) : ∀ n, ∀ t : Task, sizeOf t ≤ n →
    complete i a (complete j b t) = complete j b (complete i a t) := by
  intro n
  induction n with
  | zero => intro t h; cases t <;> simp at h
  | succ n ih =>
    intro t hs
    cases t with
    | ret v => simp [complete]
    | wait k =>
      by_cases hki : k = i
      · subst hki
        have : k ≠ j := hij
        simp [complete, this]
      · by_cases hkj : k = j
        · subst hkj; simp [complete, hki]
        · simp [complete, hki, hkj]
    | gather k slots =>
      simp only [complete, completeList_eq_map, complete_collapse, List.map_map]
      congr 1
      apply List.map_congr_left
      intro x hx
      have := List.sizeOf_lt_of_mem hx
      simp at hs
      exact ih x (by omega)

/-! ### the state after a set `D` of awaitables has completed -/

mutual
  /-- the task tree in which exactly the awaitables in `D` have completed (with results `res`) -/
  def stateOf (D : Nat → Bool) (res : Nat → Val) : W → Task
    | .val c => .ret (.cell c)
    | .aw id => if D id then .ret (res id) else .wait id
    | .list xs => collapse .list (stateOfList D res xs)
    | .tuple xs => collapse .tuple (stateOfList D res xs)
    | .dict kvs => collapse (.dict (kvs.map (·.1))) (stateOfKVs D res kvs)
  def stateOfList (D : Nat → Bool) (res : Nat → Val) : List W → List Task
    | [] => []
    | x :: xs => stateOf D res x :: stateOfList D res xs
  def stateOfKVs (D : Nat → Bool) (res : Nat → Val) : List (String × W) → List Task
    | [] => []
    | (_, x) :: kvs => stateOf D res x :: stateOfKVs D res kvs
end

theorem stateOfList_eq_map (D res) : ∀ xs, stateOfList D res xs = xs.map (stateOf D res)
  | [] => by simp [stateOfList]
  | x :: xs => by simp [stateOfList, stateOfList_eq_map D res xs]

theorem stateOfKVs_eq_map (D res) : ∀ kvs, stateOfKVs D res kvs = kvs.map fun p => stateOf D res p.2
  | [] => by simp [stateOfKVs]
  | (k, x) :: kvs => by simp [stateOfKVs, stateOfKVs_eq_map D res kvs]

theorem sizeOf_w_lt {kv : String × W} {kvs : List (String × W)} (h : kv ∈ kvs) :
    sizeOf kv.2 < sizeOf kvs := by
  have := List.sizeOf_lt_of_mem h
  cases kv; simp at *; omega

/-- before any event nothing has completed -/
theorem start_eq_stateOf (res : Nat → Val) : ∀ n, ∀ w : W, sizeOf w ≤ n →
    start w = stateOf (fun _ => false) res w := by
  intro n
  induction n with
  | zero => intro w h; cases w <;> simp at h
  | succ n ih =>
    intro w hs
    cases w with
    | val c => simp [start, stateOf]
    | aw id => simp [start, stateOf]
    | list xs =>
      simp only [start, stateOf, startList_eq_map, stateOfList_eq_map]
      congr 1
      apply List.map_congr_left
      intro x hx
      have := List.sizeOf_lt_of_mem hx
      simp at hs
      exact ih x (by omega)
    | tuple xs =>
      simp only [start, stateOf, startList_eq_map, stateOfList_eq_map]
      congr 1
      apply List.map_congr_left
      intro x hx
      have := List.sizeOf_lt_of_mem hx
      simp at hs
      exact ih x (by omega)
    | dict kvs =>
      simp only [start, stateOf, startKVs_eq_map, stateOfKVs_eq_map]
      congr 1
      apply List.map_congr_left
      intro p hp
      have := sizeOf_w_lt hp
      simp at hs
      exact ih p.2 (by omega)

/-- one event moves the state from `D` to `D ∪ {i}` -/
theorem complete_stateOf (res : Nat → Val) (i : Nat) : ∀ n, ∀ (w : W) (D : Nat → Bool), sizeOf w ≤ n →
    complete i (res i) (stateOf D res w) = stateOf (fun j => D j || j == i) res w := by
  intro n
  induction n with
  | zero => intro w D h; cases w <;> simp at h
  | succ n ih =>
    intro w D hs
    cases w with
    | val c => simp [stateOf, complete]
    | aw id =>
      simp only [stateOf]
      by_cases hD : D id = true
      · simp [hD, complete]
      · by_cases hi : id = i
        · subst hi; simp [hD, complete]
        · simp [hD, complete, hi]
    | list xs =>
      simp only [stateOf, stateOfList_eq_map, complete_collapse, List.map_map]
      congr 1
      apply List.map_congr_left
      intro x hx
      have := List.sizeOf_lt_of_mem hx
      simp at hs
      exact ih x D (by omega)
    | tuple xs =>
      simp only [stateOf, stateOfList_eq_map, complete_collapse, List.map_map]
      congr 1
      apply List.map_congr_left
      intro x hx
      have := List.sizeOf_lt_of_mem hx
      simp at hs
      exact ih x D (by omega)
    | dict kvs =>
      simp only [stateOf, stateOfKVs_eq_map, complete_collapse, List.map_map]
      congr 1
      apply List.map_congr_left
      intro p hp
      have := sizeOf_w_lt hp
      simp at hs
      exact ih p.2 D (by omega)

/-- when every awaitable of `w` has completed, the root task has returned the resolved structure -/
theorem stateOf_done (res : Nat → Val) (D : Nat → Bool) : ∀ n, ∀ (w : W), sizeOf w ≤ n →
    (∀ i ∈ awaitables w, D i = true) → stateOf D res w = .ret (resolve res w) := by
  intro n
  induction n with
  | zero => intro w h; cases w <;> simp at h
  | succ n ih =>
    intro w hs hall
    cases w with
    | val c => simp [stateOf, resolve]
    | aw id => simp [stateOf, resolve, hall id (by simp [awaitables])]
    | list xs =>
      have hx : xs.map (stateOf D res) = xs.map fun x => Task.ret (resolve res x) := by
        apply List.map_congr_left
        intro x hx
        have := List.sizeOf_lt_of_mem hx
        simp at hs
        apply ih x (by omega)
        intro i hi
        exact hall i (by simp only [awaitables]; exact mem_awaitablesList.2 ⟨x, hx, hi⟩)
      simp only [stateOf, stateOfList_eq_map, hx, collapse, allRet_map_ret, resolve, resolveList_eq_map,
        Kind.build]
    | tuple xs =>
      have hx : xs.map (stateOf D res) = xs.map fun x => Task.ret (resolve res x) := by
        apply List.map_congr_left
        intro x hx
        have := List.sizeOf_lt_of_mem hx
        simp at hs
        apply ih x (by omega)
        intro i hi
        exact hall i (by simp only [awaitables]; exact mem_awaitablesList.2 ⟨x, hx, hi⟩)
      simp only [stateOf, stateOfList_eq_map, hx, collapse, allRet_map_ret, resolve, resolveList_eq_map,
        Kind.build]
    | dict kvs =>
      have hx : (kvs.map fun p => stateOf D res p.2) = kvs.map fun p => Task.ret (resolve res p.2) := by
        apply List.map_congr_left
        intro p hp
        have := sizeOf_w_lt hp
        simp at hs
        apply ih p.2 (by omega)
        intro i hi
        exact hall i (by simp only [awaitables]; exact mem_awaitablesKVs.2 ⟨p, hp, hi⟩)
      simp only [stateOf, stateOfKVs_eq_map, hx, collapse, allRet_map_ret (fun p : String × W => resolve res p.2),
        resolve, resolveKVs_eq, Kind.build]

/-- while some awaitable of `w` is pending, the root task has not returned -/
theorem stateOf_pending (res : Nat → Val) (D : Nat → Bool) : ∀ n, ∀ (w : W), sizeOf w ≤ n →
    (∃ i ∈ awaitables w, D i = false) → (stateOf D res w).result = none := by
  intro n
  induction n with
  | zero => intro w h; cases w <;> simp at h
  | succ n ih =>
    intro w hs hex
    obtain ⟨i, hi, hD⟩ := hex
    cases w with
    | val c => simp [awaitables] at hi
    | aw id =>
      simp [awaitables] at hi; subst hi
      simp [stateOf, hD, Task.result]
    | list xs =>
      simp only [awaitables] at hi
      obtain ⟨x, hx, hix⟩ := mem_awaitablesList.1 hi
      have := List.sizeOf_lt_of_mem hx
      simp at hs
      have hp := ih x (by omega) ⟨i, hix, hD⟩
      have := allRet_none_of_mem (xs.map (stateOf D res)) _ (List.mem_map.2 ⟨x, hx, rfl⟩) hp
      simp [stateOf, stateOfList_eq_map, collapse, this, Task.result]
    | tuple xs =>
      simp only [awaitables] at hi
      obtain ⟨x, hx, hix⟩ := mem_awaitablesList.1 hi
      have := List.sizeOf_lt_of_mem hx
      simp at hs
      have hp := ih x (by omega) ⟨i, hix, hD⟩
      have := allRet_none_of_mem (xs.map (stateOf D res)) _ (List.mem_map.2 ⟨x, hx, rfl⟩) hp
      simp [stateOf, stateOfList_eq_map, collapse, this, Task.result]
    | dict kvs =>
      simp only [awaitables] at hi
      obtain ⟨p, hpm, hix⟩ := mem_awaitablesKVs.1 hi
      have := sizeOf_w_lt hpm
      simp at hs
      have hp := ih p.2 (by omega) ⟨i, hix, hD⟩
      have := allRet_none_of_mem (kvs.map fun p => stateOf D res p.2) _ (List.mem_map.2 ⟨p, hpm, rfl⟩) hp
      simp [stateOf, stateOfKVs_eq_map, collapse, this, Task.result]

/-- the state after a sequence of events is the state of the set of completed awaitables: the order and
repetitions of the events do not matter -/
theorem foldl_complete (res : Nat → Val) (w : W) : ∀ (σ : List Nat) (D : Nat → Bool),
    (σ.map fun i => (i, res i)).foldl (fun t e => complete e.1 e.2 t) (stateOf D res w) =
      stateOf (fun j => D j || σ.contains j) res w
  | [], D => by simp
  | i :: σ, D => by
      simp only [List.map_cons, List.foldl_cons]
      rw [complete_stateOf res i _ w D (Nat.le_refl _), foldl_complete res w σ]
      congr 1
      funext j
      by_cases hσ : j ∈ σ <;> by_cases hji : j = i <;> cases D j <;> simp [hσ, hji]

theorem runEvents_eq (res : Nat → Val) (w : W) (σ : List Nat) :
    runEvents w (σ.map fun i => (i, res i)) = stateOf (fun j => σ.contains j) res w := by
  unfold runEvents
  rw [start_eq_stateOf res _ w (Nat.le_refl _), foldl_complete]
  simp

end Pyg
