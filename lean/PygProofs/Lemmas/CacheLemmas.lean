import PygModel.Cache

namespace Pyg

/-- the first call of a history that has cache key `k` -/
def firstWith (calls : List Call) (k : Val) : Option Call := calls.find? fun c => callKey c == k

structure CacheInv (g : Call → Val) (st : CacheSt) (seen : List Call) : Prop where
  evals_eq : st.evals = st.cache.map (·.1)
  nodup : (st.cache.map (·.1)).Nodup
  keys : ∀ k, k ∈ st.cache.map (·.1) ↔ k ∈ seen.map callKey
  first : ∀ k v, st.cache.lookup k = some v → ∃ c0, firstWith seen k = some c0 ∧ v = g c0

theorem lookup_none_iff_not_mem (l : List (Val × Val)) (k : Val) : l.lookup k = none ↔ k ∉ l.map (·.1) := by
  rw [List.lookup_eq_none_iff]
  constructor
  · intro h hm
    obtain ⟨p, hp, e⟩ := List.mem_map.1 hm
    have := h p hp
    simp [e] at this
  · intro h p hp
    simp only [bne_iff_ne]
    intro e
    exact h (List.mem_map.2 ⟨p, hp, e.symm⟩)

theorem firstWith_append_of_some (seen : List Call) (c : Call) (k : Val) (c0 : Call)
    (h : firstWith seen k = some c0) : firstWith (seen ++ [c]) k = some c0 := by
  simp only [firstWith] at h ⊢
  rw [List.find?_append, h]; rfl

theorem firstWith_none_iff (seen : List Call) (k : Val) : firstWith seen k = none ↔ k ∉ seen.map callKey := by
  simp only [firstWith, List.find?_eq_none, List.mem_map, not_exists, not_and]
  constructor
  · intro h c hc e; exact absurd (by simpa using e) (h c hc)
  · intro h c hc; simpa using h c hc

theorem cacheCall_hit (f : Call → Res Val) (st : CacheSt) (c : Call) (v : Val)
    (h : st.cache.lookup (callKey c) = some v) : cacheCall f st c = (st, .ok v) := by
  simp [cacheCall, h]

theorem cacheCall_miss (g : Call → Val) (st : CacheSt) (c : Call)
    (h : st.cache.lookup (callKey c) = none) :
    cacheCall (fun c => .ok (g c)) st c =
      ({ cache := st.cache ++ [(callKey c, g c)], evals := st.evals ++ [callKey c] }, .ok (g c)) := by
  simp [cacheCall, h]

/-- one call on a cached non-raising function -/
theorem cacheCall_step (g : Call → Val) (st : CacheSt) (seen : List Call) (c : Call)
    (inv : CacheInv g st seen) :
    CacheInv g (cacheCall (fun c => .ok (g c)) st c).1 (seen ++ [c]) ∧
    ∃ c0, firstWith (seen ++ [c]) (callKey c) = some c0 ∧
      (cacheCall (fun c => .ok (g c)) st c).2 = .ok (g c0) := by
  cases hl : st.cache.lookup (callKey c) with
  | some v =>
    obtain ⟨c0, hc0, hv⟩ := inv.first _ v hl
    rw [cacheCall_hit _ st c v hl]
    refine ⟨⟨inv.evals_eq, inv.nodup, ?_, ?_⟩, c0, firstWith_append_of_some seen c _ c0 hc0, by rw [hv]⟩
    · intro k
      rw [inv.keys k]
      simp only [List.map_append, List.map_cons, List.map_nil, List.mem_append, List.mem_singleton]
      constructor
      · exact Or.inl
      · rintro (h | h)
        · exact h
        · subst h
          rw [← inv.keys]
          by_cases hm : callKey c ∈ st.cache.map (·.1)
          · exact hm
          · rw [← lookup_none_iff_not_mem] at hm; rw [hm] at hl; cases hl
    · intro k v' hk
      obtain ⟨c1, h1, h2⟩ := inv.first k v' hk
      exact ⟨c1, firstWith_append_of_some seen c k c1 h1, h2⟩
  | none =>
    have hnot : callKey c ∉ st.cache.map (·.1) := (lookup_none_iff_not_mem _ _).1 hl
    have hseen : firstWith seen (callKey c) = none := by
      rw [firstWith_none_iff, ← inv.keys]; exact hnot
    have hfirst : firstWith (seen ++ [c]) (callKey c) = some c := by
      simp only [firstWith] at hseen ⊢
      rw [List.find?_append, hseen]
      simp
    rw [cacheCall_miss g st c hl]
    refine ⟨⟨?_, ?_, ?_, ?_⟩, c, hfirst, rfl⟩
    · simp [inv.evals_eq]
    · simp only [List.map_append, List.map_cons, List.map_nil]
      rw [List.nodup_append]
      exact ⟨inv.nodup, by simp, by
        intro a ha b hb; simp at hb; subst hb; exact fun e => hnot (e ▸ ha)⟩
    · intro k
      simp only [List.map_append, List.map_cons, List.map_nil, List.mem_append, List.mem_singleton]
      rw [inv.keys k]
    · intro k v' hk
      rw [List.lookup_append] at hk
      cases hk1 : st.cache.lookup k with
      | some w =>
        rw [hk1] at hk
        simp at hk
        subst hk
        obtain ⟨c1, h1, h2⟩ := inv.first k w hk1
        exact ⟨c1, firstWith_append_of_some seen c k c1 h1, h2⟩
      | none =>
        rw [hk1] at hk
        simp only [Option.none_or, List.lookup_cons, List.lookup_nil] at hk
        by_cases hkk : k = callKey c
        · subst hkk
          simp at hk
          exact ⟨c, hfirst, hk.symm⟩
        · have : (k == callKey c) = false := by simpa using hkk
          simp [this] at hk

/-- `find?` of the first match does not change when the list is extended -/
theorem firstWith_prefix (xs ys : List Call) (k : Val) (c0 : Call) (h : firstWith xs k = some c0) :
    firstWith (xs ++ ys) k = some c0 := by
  simp only [firstWith] at h ⊢
  rw [List.find?_append, h]; rfl

theorem runCache_inv (g : Call → Val) : ∀ (cs : List Call) (st : CacheSt) (seen : List Call),
    CacheInv g st seen →
    CacheInv g (runCache (fun c => .ok (g c)) st cs).1 (seen ++ cs) ∧
    (runCache (fun c => .ok (g c)) st cs).2 =
      cs.map fun c => Except.ok (g ((firstWith (seen ++ cs) (callKey c)).getD c))
  | [], st, seen, inv => by simpa [runCache] using inv
  | c :: cs, st, seen, inv => by
      obtain ⟨inv1, c0, hc0, hr⟩ := cacheCall_step g st seen c inv
      have ih := runCache_inv g cs _ (seen ++ [c]) inv1
      have e : seen ++ [c] ++ cs = seen ++ c :: cs := by simp
      rw [e] at ih
      simp only [runCache, List.map_cons]
      refine ⟨ih.1, ?_⟩
      rw [ih.2, hr]
      have := firstWith_prefix (seen ++ [c]) cs (callKey c) c0 hc0
      rw [e] at this
      simp [this]

theorem runCache_append (f : Call → Res Val) : ∀ (st : CacheSt) (xs ys : List Call),
    runCache f st (xs ++ ys) =
      ((runCache f (runCache f st xs).1 ys).1, (runCache f st xs).2 ++ (runCache f (runCache f st xs).1 ys).2)
  | st, [], ys => by simp [runCache]
  | st, x :: xs, ys => by
      simp only [List.cons_append, runCache]
      rw [runCache_append f _ xs ys]

/-- the stored results do not depend on the evaluation log -/
theorem cacheCall_cache_indep (f : Call → Res Val) (st st' : CacheSt) (c : Call) (h : st.cache = st'.cache) :
    (cacheCall f st c).1.cache = (cacheCall f st' c).1.cache ∧ (cacheCall f st c).2 = (cacheCall f st' c).2 := by
  simp only [cacheCall, h]
  cases st'.cache.lookup (callKey c) with
  | some v => exact ⟨h, rfl⟩
  | none =>
    cases f c with
    | ok v => simp [h]
    | error e => simp [h]

theorem runCache_cache_indep (f : Call → Res Val) : ∀ (cs : List Call) (st st' : CacheSt), st.cache = st'.cache →
    (runCache f st cs).1.cache = (runCache f st' cs).1.cache
  | [], _, _, h => h
  | c :: cs, st, st', h => by
      simp only [runCache]
      exact runCache_cache_indep f cs _ _ (cacheCall_cache_indep f st st' c h).1

end Pyg
