/-
  helper lemmas for C15: folding the items of a tree into a base tree (`items_to_tree`) is the
  recursive merge, for ALL trees (structural induction over the nested inductive `Val`).
-/
import PygModel.Tree
import PygProofs.Lemmas.TreeLemmas

namespace Pyg.Tree
open Pyg.DA

/-- the loop of `items_to_tree`: successive `_tree_setitem` calls -/
abbrev build (ig : List Val) (its : List (Path × Val)) (base : List (String × Val)) :
    List (String × Val) :=
  its.foldl (fun acc pv => setKVs acc pv.1 pv.2 ig) base

/-- the branch `_tree_setitem` walks into at key `k` (a fresh one if missing or a leaf) -/
def subOf (k : String) (kvs : List (String × Val)) : List (String × Val) :=
  match lookup k kvs with
  | some (.dict s) => s
  | _ => []

theorem set_set {V} (k : String) (x y : V) : ∀ l : List (String × V), DA.set k x (DA.set k y l) = DA.set k x l
  | [] => by simp [DA.set]
  | (l, w) :: kvs => by
      by_cases h : k = l
      · simp [DA.set, h]
      · simp [DA.set, h, set_set k x y kvs]

theorem set_lookup_self {V} (k : String) (v : V) : ∀ l : List (String × V),
    lookup k l = some v → DA.set k v l = l
  | [], h => by simp [lookup] at h
  | (l, w) :: kvs, h => by
      by_cases e : k = l
      · simp only [lookup, if_pos e] at h; cases h; simp [DA.set, e]
      · simp only [lookup, if_neg e] at h; simp [DA.set, e, set_lookup_self k v kvs h]

theorem lookup_eq_none {V} (k : String) (l : List (String × V)) (h : k ∉ l.map (·.1)) :
    lookup k l = none := by
  cases e : lookup k l with
  | none => rfl
  | some v => exact absurd ((lookup_isSome_iff k l).1 (by simp [e])) h

theorem setKVs_deep (kvs : List (String × Val)) (k k2 : String) (rest : Path) (v : Val) (ig : List Val) :
    setKVs kvs (k :: k2 :: rest) v ig = DA.set k (.dict (setKVs (subOf k kvs) (k2 :: rest) v ig)) kvs := by
  simp only [setKVs, subOf]
  rfl

theorem subOf_set (k : String) (s kvs : List (String × Val)) : subOf k (DA.set k (.dict s) kvs) = s := by
  simp [subOf, lookup_set]

/-- pushing items below an existing branch -/
theorem build_push_aux (ig : List Val) (k : String) : ∀ (its : List (Path × Val)),
    (∀ pv ∈ its, pv.1 ≠ []) → ∀ (a s : List (String × Val)), lookup k a = some (.dict s) →
    build ig (its.map fun pv => (k :: pv.1, pv.2)) a = DA.set k (.dict (build ig its s)) a
  | [], _, a, s, h => by simp [build, set_lookup_self k _ a h]
  | (p, v) :: its, hp, a, s, h => by
      have hp0 : p ≠ [] := hp (p, v) (by simp)
      obtain ⟨k2, rest, rfl⟩ : ∃ k2 rest, p = k2 :: rest := by
        cases p with
        | nil => exact absurd rfl hp0
        | cons k2 rest => exact ⟨k2, rest, rfl⟩
      have hs : subOf k a = s := by simp [subOf, h]
      simp only [build, List.map_cons, List.foldl_cons, setKVs_deep, hs]
      have := build_push_aux ig k its (fun pv hm => hp pv (by simp [hm]))
        (DA.set k (.dict (setKVs s (k2 :: rest) v ig)) a) (setKVs s (k2 :: rest) v ig) (by simp [lookup_set])
      simp only [build] at this
      rw [this, set_set]

/-- all the items of a non-empty subtree hung below key `k` build that subtree in the branch at `k` -/
theorem build_push (ig : List Val) (k : String) (its : List (Path × Val))
    (hp : ∀ pv ∈ its, pv.1 ≠ []) (hne : its ≠ []) (a : List (String × Val)) :
    build ig (its.map fun pv => (k :: pv.1, pv.2)) a = DA.set k (.dict (build ig its (subOf k a))) a := by
  match its, hne with
  | (p, v) :: its, _ =>
    have hp0 : p ≠ [] := hp (p, v) (by simp)
    obtain ⟨k2, rest, rfl⟩ : ∃ k2 rest, p = k2 :: rest := by
      cases p with
      | nil => exact absurd rfl hp0
      | cons k2 rest => exact ⟨k2, rest, rfl⟩
    simp only [build, List.map_cons, List.foldl_cons, setKVs_deep]
    have := build_push_aux ig k its (fun pv hm => hp pv (by simp [hm]))
      (DA.set k (.dict (setKVs (subOf k a) (k2 :: rest) v ig)) a) (setKVs (subOf k a) (k2 :: rest) v ig)
      (by simp [lookup_set])
    simp only [build] at this
    rw [this, set_set]

theorem noEmptyKVs_cons (k : String) (v : Val) (kvs : List (String × Val)) :
    noEmptyKVs ((k, v) :: kvs) = true ↔ v ≠ .dict [] ∧ noEmpty v = true ∧ noEmptyKVs kvs = true := by
  simp only [noEmptyKVs, Bool.and_eq_true]
  constructor
  · rintro ⟨h1, h2⟩
    refine ⟨?_, ?_, h2⟩
    · rintro rfl; simp at h1
    · split at h1
      · simp at h1
      · exact h1
  · rintro ⟨h0, h1, h2⟩
    refine ⟨?_, h2⟩
    split
    · exact absurd rfl h0
    · exact h1

theorem items_leaf (v : Val) (hv : ∀ s, v ≠ .dict s) : items v = [([], v)] := by
  cases v with
  | dict s => exact absurd rfl (hv s)
  | _ => rfl

/-- the leaves listed by `tree_items` are leaves -/
theorem itemsKVs_path_ne : ∀ (kvs : List (String × Val)) (pv : Path × Val), pv ∈ itemsKVs kvs → pv.1 ≠ []
  | [], pv, h => by simp [itemsKVs] at h
  | (k, v) :: kvs, pv, h => by
      simp only [itemsKVs, List.mem_append, List.mem_map] at h
      rcases h with ⟨q, _, rfl⟩ | h
      · simp
      · exact itemsKVs_path_ne kvs pv h

mutual
  theorem items_ne_nil : ∀ v : Val, noEmpty v = true → v ≠ .dict [] → items v ≠ []
    | .dict s, h, hn => by
        simp only [items]
        exact itemsKVs_ne_nil s (by simpa [noEmpty] using h) (by rintro rfl; exact hn rfl)
    | .cell _, _, _ => by simp [items]
    | .list _, _, _ => by simp [items]
    | .tuple _, _, _ => by simp [items]
  theorem itemsKVs_ne_nil : ∀ s : List (String × Val), noEmptyKVs s = true → s ≠ [] → itemsKVs s ≠ []
    | [], _, h => absurd rfl h
    | (k, v) :: s, h, _ => by
        rw [noEmptyKVs_cons] at h
        have := items_ne_nil v h.2.1 h.1
        simp [itemsKVs, this]
end

theorem merge_leaf (ig : List Val) (old v : Val) (hv : ∀ s, v ≠ .dict s) :
    merge ig old v = if ig.contains v then old else v := by
  cases v with
  | dict s => exact absurd rfl (hv s)
  | _ => cases old <;> rfl

theorem mergeNew_leaf (ig : List Val) (v : Val) (hv : ∀ s, v ≠ .dict s) : mergeNew ig v = v := by
  cases v with
  | dict s => exact absurd rfl (hv s)
  | _ => rfl

theorem merge_dict (ig : List Val) (old : Val) (s : List (String × Val)) :
    merge ig old (.dict s) = .dict (mergeKVs ig (match old with | .dict a => a | _ => []) s) := by
  cases old <;> rfl

/-- the value `tree_update` leaves at key `k` when the update holds `v` there -/
def mergeAt (ig : List Val) (k : String) (a : List (String × Val)) (v : Val) : Val :=
  match lookup k a with
  | some old => merge ig old v
  | none => mergeNew ig v

theorem mergeKVs_cons (ig : List Val) (k : String) (v : Val) (a b : List (String × Val)) :
    mergeKVs ig a ((k, v) :: b) = mergeKVs ig (DA.set k (mergeAt ig k a v) a) b := by
  simp only [mergeKVs, mergeAt]
  cases lookup k a <;> rfl

theorem build_leaf (ig : List Val) (v : Val) (hv : ∀ s, v ≠ .dict s) (k : String) (a : List (String × Val)) :
    build ig ((items v).map fun pv => (k :: pv.1, pv.2)) a = DA.set k (mergeAt ig k a v) a := by
  simp only [items_leaf v hv, build, List.map_cons, List.map_nil, List.foldl_cons, List.foldl_nil,
    setKVs, mergeAt]
  cases h : lookup k a with
  | none => simp [mergeNew_leaf ig v hv]
  | some old =>
    simp only [Option.isSome_some, Bool.true_and, merge_leaf ig old v hv]
    by_cases hi : ig.contains v = true
    · rw [if_pos hi, if_pos hi, set_lookup_self k old a h]
    · rw [if_neg hi, if_neg hi]

mutual
  /-- the items of one non-empty subtree `v` of the update, hung below `k` -/
  theorem build_val (ig : List Val) : ∀ (v : Val), noEmpty v = true → v ≠ .dict [] →
      ∀ (k : String) (a : List (String × Val)),
      build ig ((items v).map fun pv => (k :: pv.1, pv.2)) a = DA.set k (mergeAt ig k a v) a
    | .dict s, hne, hnd, k, a => by
        have hs : noEmptyKVs s = true := by simpa [noEmpty] using hne
        have hs0 : s ≠ [] := by rintro rfl; exact hnd rfl
        simp only [items]
        rw [build_push ig k (itemsKVs s) (itemsKVs_path_ne s) (itemsKVs_ne_nil s hs hs0) a,
          build_kvs ig s hs (subOf k a)]
        congr 1
        simp only [mergeAt, subOf]
        cases lookup k a with
        | none => simp [mergeNew]
        | some old => simp only [merge_dict]; cases old <;> rfl
    | .cell c, _, _, k, a => build_leaf ig _ (by intro s h; cases h) k a
    | .list c, _, _, k, a => build_leaf ig _ (by intro s h; cases h) k a
    | .tuple c, _, _, k, a => build_leaf ig _ (by intro s h; cases h) k a
  /-- `items_to_tree(tree_items(u), base)` is the merge of `u` into `base`, whatever the base -/
  theorem build_kvs (ig : List Val) : ∀ (b : List (String × Val)), noEmptyKVs b = true →
      ∀ a : List (String × Val), build ig (itemsKVs b) a = mergeKVs ig a b
    | [], _, a => by simp [build, itemsKVs, mergeKVs]
    | (k, v) :: b, h, a => by
        rw [noEmptyKVs_cons] at h
        have h1 := build_val ig v h.2.1 h.1 k a
        have h2 := build_kvs ig b h.2.2 (DA.set k (mergeAt ig k a v) a)
        simp only [build] at h1 h2 ⊢
        rw [mergeKVs_cons]
        simp only [itemsKVs, List.foldl_append, h1, h2]
end

/-! ### the duplicate-path check of `items_to_tree` passes on the items of a tree with distinct keys -/

theorem itemsKVs_head : ∀ (kvs : List (String × Val)) (p : Path), p ∈ (itemsKVs kvs).map (·.1) →
    ∃ k rest, p = k :: rest ∧ k ∈ kvs.map (·.1)
  | [], p, h => by simp [itemsKVs] at h
  | (k, v) :: kvs, p, h => by
      simp only [itemsKVs, List.map_append, List.map_map, List.mem_append, List.mem_map] at h
      rcases h with ⟨q, _, rfl⟩ | ⟨q, hq, rfl⟩
      · exact ⟨k, q.1, rfl, by simp⟩
      · obtain ⟨k', rest, e, hk⟩ := itemsKVs_head kvs q.1 (List.mem_map.2 ⟨q, hq, rfl⟩)
        exact ⟨k', rest, e, by simp [hk]⟩

mutual
  theorem items_nodup : ∀ v : Val, wf v = true → ((items v).map (·.1)).Nodup
    | .dict s, h => by
        simp only [wf, Bool.and_eq_true, decide_eq_true_eq] at h
        simp only [items]
        exact itemsKVs_nodup s h.1 h.2
    | .cell _, _ => by simp [items]
    | .list _, _ => by simp [items]
    | .tuple _, _ => by simp [items]
  theorem itemsKVs_nodup : ∀ s : List (String × Val), (s.map (·.1)).Nodup → wfKVs s = true →
      ((itemsKVs s).map (·.1)).Nodup
    | [], _, _ => by simp [itemsKVs]
    | (k, v) :: s, hn, h => by
        simp only [wfKVs, Bool.and_eq_true] at h
        simp only [List.map_cons, List.nodup_cons] at hn
        simp only [itemsKVs, List.map_append, List.map_map]
        rw [List.nodup_append]
        refine ⟨?_, itemsKVs_nodup s hn.2 h.2, ?_⟩
        · have := items_nodup v h.1
          have e : ((fun (x : Path × Val) => x.1) ∘ fun (pv : Path × Val) => (k :: pv.1, pv.2)) =
              (fun p => k :: p) ∘ (fun x : Path × Val => x.1) := rfl
          rw [e, ← List.map_map]
          exact List.Pairwise.map _ (fun a b hab => by simpa using hab) this
        · intro p hp q hq e
          subst e
          simp only [List.mem_map, Function.comp] at hp
          obtain ⟨x, _, rfl⟩ := hp
          obtain ⟨k', rest, e, hk⟩ := itemsKVs_head s _ hq
          simp only [List.cons.injEq] at e
          exact hn.1 (e.1 ▸ hk)
end

theorem itemsKVs_any_empty (kvs : List (String × Val)) : (itemsKVs kvs).any (·.1.isEmpty) = false := by
  rw [List.any_eq_false]
  intro pv hm
  have := itemsKVs_path_ne kvs pv hm
  cases h : pv.1 with
  | nil => exact absurd h this
  | cons _ _ => simp

/-- `items_to_tree(tree_items(dict b), a, ignore)` for every `b` with distinct keys and without empty branches -/
theorem itemsToTree_items (ig : List Val) (a b : List (String × Val)) (hw : wf (.dict b) = true)
    (hn : noEmpty (.dict b) = true) :
    itemsToTree (items (.dict b)) a ig = .ok (mergeKVs ig a b) := by
  have h1 := items_nodup (.dict b) hw
  have h2 := itemsKVs_any_empty b
  have h3 := build_kvs ig b (by simpa [noEmpty] using hn) a
  simp only [items] at h1
  simp only [build] at h3
  simp only [itemsToTree, items, h1, not_true_eq_false, if_false, h2, Bool.false_eq_true, h3]
  rfl

/-! ### the specification `merge` on its own: fresh keys, self-merge -/

mutual
  theorem mergeNew_self (ig : List Val) : ∀ v : Val, wf v = true → mergeNew ig v = v
    | .dict s, h => by
        simp only [wf, Bool.and_eq_true, decide_eq_true_eq] at h
        simp only [mergeNew]
        rw [mergeKVs_fresh ig s h.2 [] (by simpa using h.1)]
        rfl
    | .cell _, _ => rfl
    | .list _, _ => rfl
    | .tuple _, _ => rfl
  /-- merging subtrees on fresh distinct keys appends them -/
  theorem mergeKVs_fresh (ig : List Val) : ∀ b : List (String × Val), wfKVs b = true →
      ∀ a : List (String × Val), (a.map (·.1) ++ b.map (·.1)).Nodup → mergeKVs ig a b = a ++ b
    | [], _, a, _ => by simp [mergeKVs]
    | (k, v) :: b, h, a, hn => by
        simp only [wfKVs, Bool.and_eq_true] at h
        have hk : k ∉ a.map (·.1) := by
          intro hm
          rw [List.nodup_append] at hn
          exact hn.2.2 _ hm _ (by simp) rfl
        simp only [mergeKVs, lookup_eq_none k a hk, mergeNew_self ig v h.1, set_of_not_mem k v a hk]
        rw [mergeKVs_fresh ig b h.2 (a ++ [(k, v)]) (by simpa [List.append_assoc] using hn)]
        simp
end

mutual
  /-- merging a tree into itself changes nothing (whatever the ignore list) -/
  theorem merge_self (ig : List Val) : ∀ v : Val, wf v = true → merge ig v v = v
    | .dict s, h => by
        simp only [wf, Bool.and_eq_true, decide_eq_true_eq] at h
        simp only [merge]
        rw [mergeKVs_self ig s h.2 s fun kv hm => lookup_of_mem_nodup kv.1 kv.2 s h.1 hm]
    | .cell _, _ => by simp [merge]
    | .list _, _ => by simp [merge]
    | .tuple _, _ => by simp [merge]
  theorem mergeKVs_self (ig : List Val) : ∀ b : List (String × Val), wfKVs b = true →
      ∀ a : List (String × Val), (∀ kv ∈ b, lookup kv.1 a = some kv.2) → mergeKVs ig a b = a
    | [], _, a, _ => by simp [mergeKVs]
    | (k, v) :: b, h, a, hl => by
        simp only [wfKVs, Bool.and_eq_true] at h
        have hk : lookup k a = some v := hl (k, v) (by simp)
        simp only [mergeKVs, hk, merge_self ig v h.1, set_lookup_self k v a hk]
        exact mergeKVs_self ig b h.2 a fun kv hm => hl kv (by simp [hm])
end

end Pyg.Tree
