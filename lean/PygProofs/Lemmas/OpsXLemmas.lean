/-
  Helper lemmas for the comparisons, `min_ / max_` and `pow_` of C08 (PygModel/OpsX.lean).
-/
import PygModel.OpsX
import PygProofs.Lemmas.OpsLemmas

namespace Pyg.Ops
open Pyg Pyg.Align

theorem kernel_eq_kernelG (op : Op) (a b : Operand) : kernel op a b = kernelG op.appO a b := by
  cases a <;> cases b <;> rfl

theorem rat_one_pow (n : Nat) : (1 : Rat) ^ n = 1 := by
  induction n with
  | zero => exact Rat.pow_zero 1
  | succ k ih => rw [Rat.pow_succ, ih, Rat.mul_one]

theorem natExp_natCast (n : Nat) : natExp (n : Rat) = some n := by simp [natExp]

theorem mm_app_comm (k : MM) (x y : Rat) : k.app x y = k.app y x := by
  cases k <;> simp only [MM.app] <;> split <;> split <;>
    first
    | rfl
    | (rename_i h1 h2
       first
       | exact Rat.le_antisymm h1 h2
       | exact Rat.le_antisymm h2 h1
       | (rcases @Rat.le_total x y with h | h <;> contradiction))

theorem mm_appO_comm (k : MM) (x y : Option Rat) : k.appO x y = k.appO y x := by
  cases x <;> cases y <;> simp [MM.appO, mm_app_comm]

/-- the generic kernel on two Series: result index and values -/
theorem binopG_index (f : Option Rat → Option Rat → Option Rat) (how : How) (m : Option Dir) (a b : RSeries) :
    ∃ ix, joinIndex how [a.idx, b.idx] = some ix ∧
      binopG f how m (.ts a) (.ts b) =
        .ts { idx := ix, vals := ((reindexR a ix m).vals.zip (reindexR b ix m).vals).map fun p => f p.1 p.2 } := by
  cases how <;> exact ⟨_, rfl, by simp [binopG, alignAll, indexesOf, joinIndex, kernelG, reindexR_idx]⟩

end Pyg.Ops
