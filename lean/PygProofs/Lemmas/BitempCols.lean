/-
  Helper lemmas for C17 (g4): multi-column frames, column by column.  `_drop_repeats` on a frame drops a row only if EVERY
  column repeats; seen from one column it drops SOME of the repeats of that column (`RepSub`), which no as-of cut notices.
-/
import PygModel.Bitemp
import PygProofs.Lemmas.BitempLemmas
import PygProofs.Lemmas.BitempInv

namespace Pyg.Bitemp
open List

/-! ### the recursive form of `_drop_repeats`' first step on frames -/

def stepF : Option (List (Option Int)) → StoreF → StoreF
  | _, [] => []
  | Option.none, r :: rest => r :: stepF (some r.vals) rest
  | some p, r :: rest =>
      if allRepeat (List.zipWith Option.or r.vals p) p then stepF (some (List.zipWith Option.or r.vals p)) rest
      else r :: stepF (some (List.zipWith Option.or r.vals p)) rest

theorem mask_eq_stepF (p : List (Option Int)) (d : StoreF) :
    ((d.zip ((List.zipWith allRepeat (ffillFromF p (d.map (·.vals))) (p :: ffillFromF p (d.map (·.vals)))).map (!·))).filter (·.2)).map (·.1)
      = stepF (some p) d := by
  induction d generalizing p with
  | nil => simp [stepF, ffillFromF]
  | cons r rest ih =>
    simp only [List.map_cons, ffillFromF, List.zipWith_cons_cons, List.zip_cons_cons, List.filter_cons, stepF]
    by_cases h : allRepeat (List.zipWith Option.or r.vals p) p = true
    · simp only [h, Bool.not_true, Bool.false_eq_true, if_false, if_true]
      exact ih _
    · simp only [Bool.not_eq_true] at h
      simp only [h, Bool.not_false, if_true, List.map_cons, Bool.false_eq_true, if_false]
      congr 1
      exact ih _

theorem dropLast_cons_ffillF (p : List (Option Int)) (vs : List (List (Option Int))) :
    List.zipWith allRepeat (ffillFromF p vs) ((p :: ffillFromF p vs).dropLast) =
      List.zipWith allRepeat (ffillFromF p vs) (p :: ffillFromF p vs) := by
  rw [List.dropLast_eq_take]
  simpa using zipWith_take_right allRepeat (ffillFromF p vs) (p :: ffillFromF p vs)

theorem dropRepeatsF_eq (d : StoreF) : dropRepeatsF d = keepLastF (stepF Option.none d) := by
  cases d with
  | nil => simp [dropRepeatsF, stepF, keepLastF, ffillF]
  | cons r rest =>
    unfold dropRepeatsF
    simp only [List.map_cons, ffillF, List.drop_succ_cons, List.drop_zero,
      List.zip_cons_cons, List.filter_cons, if_true, stepF]
    rw [dropLast_cons_ffillF, mask_eq_stepF]

theorem stepF_sublist (prev) (c : StoreF) : (stepF prev c).Sublist c := by
  induction c generalizing prev with
  | nil => cases prev <;> simp [stepF]
  | cons r rest ih =>
    cases prev with
    | none => simpa [stepF] using ih _
    | some p =>
      simp only [stepF]
      split
      · exact (ih _).cons _
      · exact (ih _).cons_cons _

theorem keepLastF_sublist (c : StoreF) : (keepLastF c).Sublist c := by
  induction c with
  | nil => simp [keepLastF]
  | cons r rest ih =>
    simp only [keepLastF]
    split
    · exact ih.cons _
    · exact ih.cons_cons _

theorem dropRepeatsF_sublist (c : StoreF) : (dropRepeatsF c).Sublist c := by
  rw [dropRepeatsF_eq]; exact (keepLastF_sublist _).trans (stepF_sublist _ _)

def SortedLtF (c : StoreF) : Prop := c.Pairwise (fun a b => a.stamp < b.stamp)

theorem keepLastF_of_sortedLt (c : StoreF) (h : SortedLtF c) : keepLastF c = c := by
  induction c with
  | nil => rfl
  | cons r rest ih =>
    simp only [keepLastF]
    have : rest.any (·.stamp == r.stamp) = false := by
      rw [List.any_eq_false]
      intro x hx
      have := List.rel_of_pairwise_cons h hx
      simp; omega
    rw [this]; simp [ih h.tail]

/-! ### one column of a frame -/

def cell (c : Nat) (vs : List (Option Int)) : Option Int := (vs[c]?).join

def projF (c : Nat) (r : RowF) : Row := ⟨r.date, r.stamp, cell c r.vals⟩

theorem colF_eq_map (c : Nat) (rows : StoreF) : colF c rows = rows.map (projF c) := rfl

theorem cell_zipWith_or (c : Nat) (a b : List (Option Int)) (ha : c < a.length) (hb : c < b.length) :
    cell c (List.zipWith Option.or a b) = (cell c a).or (cell c b) := by
  simp [cell, List.getElem?_zipWith, List.getElem?_eq_getElem ha, List.getElem?_eq_getElem hb]

theorem npEq_of_allRepeat (c : Nat) (a b : List (Option Int)) (ha : c < a.length) (hb : c < b.length)
    (h : allRepeat a b = true) : npEq (cell c a) (cell c b) = true := by
  unfold allRepeat at h
  rw [List.all_eq_true] at h
  have hm : npEq a[c] b[c] ∈ List.zipWith npEq a b := by
    rw [List.mem_iff_getElem]
    exact ⟨c, by simp only [List.length_zipWith]; omega, by simp⟩
  have := h _ hm
  simpa [cell, List.getElem?_eq_getElem ha, List.getElem?_eq_getElem hb] using this

/-- `S` is `C` without some rows that repeat the forward-filled value before them (state `a`: nothing seen yet / the filled
    value so far) -/
inductive RepSub : Option (Option Int) → Store → Store → Prop
  | nil (a) : RepSub a [] []
  | keep (a) (r : Row) (S C : Store) : RepSub (some (r.val.or (a.getD Option.none))) S C → RepSub a (r :: S) (r :: C)
  | drop (q : Option Int) (r : Row) (S C : Store) : npEq (r.val.or q) q = true → RepSub (some (r.val.or q)) S C →
      RepSub (some q) S (r :: C)

theorem RepSub.sublist {a S C} (h : RepSub a S C) : S.Sublist C := by
  induction h with
  | nil => simp
  | keep _ r _ _ _ ih => exact ih.cons_cons r
  | drop _ r _ _ _ _ ih => exact ih.cons r

/-- removing repeats of the filled value changes no as-of cut -/
theorem RepSub.spec {a S C} (h : RepSub a S C) {p} (hp : Down p) (hs : SortedLe C) :
    accVal a (S.filter p) = accVal a (C.filter p) := by
  induction h with
  | nil => rfl
  | keep a r S C _ ih =>
    by_cases hr : p r = true
    · simp only [List.filter_cons, hr, if_true, accVal_cons]; exact ih hs.tail
    · simp only [Bool.not_eq_true] at hr
      have h1 : C.filter p = [] := filter_nil_of_sorted hp hs hr
      have h2 : S.filter p = [] := List.eq_nil_of_sublist_nil (h1 ▸ (RepSub.sublist ‹_›).filter p)
      simp [hr, h1, h2]
  | drop q r S C heq hsub ih =>
    by_cases hr : p r = true
    · have hq : r.val.or q = q := by
        revert heq; cases r.val.or q <;> cases q <;> simp [npEq]
      simp only [List.filter_cons, hr, if_true, accVal_cons, Option.getD_some, hq]
      have := ih hs.tail
      rw [hq] at this
      exact this
    · simp only [Bool.not_eq_true] at hr
      have h1 : C.filter p = [] := filter_nil_of_sorted hp hs hr
      have h2 : S.filter p = [] := List.eq_nil_of_sublist_nil (h1 ▸ (RepSub.sublist hsub).filter p)
      simp [hr, h1, h2]

/-- seen from column `c`, the frame step drops some repeats of that column -/
theorem stepF_repSub (c w : Nat) (hc : c < w) (prev : Option (List (Option Int))) (d : StoreF)
    (hw : ∀ r ∈ d, r.vals.length = w) (hp : ∀ p ∈ prev, p.length = w) :
    RepSub (prev.map (cell c)) (colF c (stepF prev d)) (colF c d) := by
  induction d generalizing prev with
  | nil => cases prev <;> exact RepSub.nil _
  | cons r rest ih =>
    have hr : r.vals.length = w := hw r (by simp)
    have hrest : ∀ x ∈ rest, x.vals.length = w := fun x hx => hw x (by simp [hx])
    cases prev with
    | none =>
      simp only [stepF, colF_eq_map, List.map_cons, Option.map_none]
      apply RepSub.keep
      have := ih (some r.vals) hrest (by intro p hp; simp at hp; subst hp; exact hr)
      simpa [colF_eq_map, projF] using this
    | some p =>
      have hpl : p.length = w := hp p (by simp)
      have hz : (List.zipWith Option.or r.vals p).length = w := by simp [hr, hpl]
      have hcell : cell c (List.zipWith Option.or r.vals p) = (cell c r.vals).or (cell c p) :=
        cell_zipWith_or c _ _ (by omega) (by omega)
      have ih' := ih (some (List.zipWith Option.or r.vals p)) hrest (by intro q hq; simp at hq; subst hq; exact hz)
      simp only [Option.map_some, hcell] at ih'
      simp only [stepF, Option.map_some]
      split
      · rename_i hall
        simp only [colF_eq_map, List.map_cons]
        apply RepSub.drop
        · have := npEq_of_allRepeat c _ _ (by omega) (by omega) hall
          rw [hcell] at this
          exact this
        · simpa [colF_eq_map, projF] using ih'
      · simp only [colF_eq_map, List.map_cons]
        apply RepSub.keep
        simpa [colF_eq_map, projF] using ih'

/-! ### frame structure: groups, stable sort, keys -/

def stampLeF (a b : RowF) : Bool := decide (a.stamp ≤ b.stamp)

theorem sortStampF_eq (rows : StoreF) : sortStampF rows = rows.mergeSort stampLeF := rfl

theorem stampLeF_trans (a b c : RowF) : stampLeF a b → stampLeF b c → stampLeF a c := by
  simp only [stampLeF, decide_eq_true_eq]; omega

theorem stampLeF_total (a b : RowF) : (stampLeF a b || stampLeF b a) = true := by
  simp only [stampLeF, Bool.or_eq_true, decide_eq_true_eq]; omega

theorem mem_sortStampF {r : RowF} {c : StoreF} : r ∈ sortStampF c ↔ r ∈ c := List.mem_mergeSort

theorem mem_groupF {rows : StoreF} {d : Int} {r : RowF} : r ∈ groupF d rows ↔ r ∈ rows ∧ r.date = d := by
  simp [groupF]

theorem groupF_append (d : Int) (a b : StoreF) : groupF d (a ++ b) = groupF d a ++ groupF d b := by
  simp [groupF]

theorem groupF_sortStampF (d : Int) (rows : StoreF) : groupF d (sortStampF rows) = sortStampF (groupF d rows) :=
  mergeSort_filter stampLeF_trans stampLeF_total _ _

theorem sortStampF_of_sortedLt {c : StoreF} (h : SortedLtF c) : sortStampF c = c :=
  List.mergeSort_of_pairwise (h.imp (by intro a b hab; simp only [decide_eq_true_eq]; omega))

theorem mem_datesF {rows : StoreF} {d : Int} : d ∈ datesF rows ↔ ∃ r ∈ rows, r.date = d := by
  simp [datesF, List.mem_mergeSort, List.mem_eraseDups]

theorem datesF_nodup (rows : StoreF) : (datesF rows).Nodup :=
  (List.mergeSort_perm _ _).nodup_iff.mpr (nodup_eraseDups _)

theorem datesF_eq (c : Nat) (rows : StoreF) : datesF rows = dates (colF c rows) := by
  simp [datesF, dates, colF, List.map_map, Function.comp_def]

theorem colF_groupF (c : Nat) (d : Int) (rows : StoreF) : colF c (groupF d rows) = group d (colF c rows) := by
  simp only [colF_eq_map, groupF, group, List.filter_map]
  rfl

theorem colF_filter_vis (c : Nat) (asof : Option Int) (rows : StoreF) :
    colF c (rows.filter fun r => vis asof ⟨r.date, r.stamp, Option.none⟩) = (colF c rows).filter (vis asof) := by
  simp only [colF_eq_map, List.filter_map]
  congr 1

theorem colF_sortStampF (c : Nat) (rows : StoreF) : colF c (sortStampF rows) = sortStamp (colF c rows) := by
  rw [colF_eq_map, colF_eq_map, sortStampF_eq]
  exact List.map_mergeSort (by intro a _ b _; rfl)

theorem colF_append (c : Nat) (a b : StoreF) : colF c (a ++ b) = colF c a ++ colF c b := by simp [colF_eq_map]

/-- per date, the merged frame is `_drop_repeats` of that date's rows in stable stamp order -/
theorem group_mergeFramesF (d : Int) (o n : StoreF) :
    groupF d (mergeFramesF [o, n]) = dropRepeatsF (sortStampF (groupF d (o ++ n))) := by
  unfold mergeFramesF
  simp only [List.flatten_cons, List.flatten_nil, List.append_nil]
  rw [groupF, List.filter_flatMap]
  have hne : ∀ x ∈ datesF (sortStampF (o ++ n)), x ≠ d →
      List.filter (fun r => r.date == d) (dropRepeatsF (groupF x (sortStampF (o ++ n)))) = [] := by
    intro x _ hx
    rw [List.filter_eq_nil_iff]
    intro r hr
    have := (dropRepeatsF_sublist _).subset hr
    have := (mem_groupF.mp this).2
    simp; omega
  rw [flatMap_single _ d _ (datesF_nodup _) hne]
  have hself : List.filter (fun r => r.date == d) (dropRepeatsF (groupF d (sortStampF (o ++ n))))
      = dropRepeatsF (groupF d (sortStampF (o ++ n))) := by
    rw [List.filter_eq_self]
    intro r hr
    have := (dropRepeatsF_sublist _).subset hr
    simpa using (mem_groupF.mp this).2
  rw [hself, groupF_sortStampF]
  split
  · rfl
  · rename_i hnot
    have : groupF d (o ++ n) = [] := by
      by_cases hc : groupF d (o ++ n) = []
      · exact hc
      · exfalso
        obtain ⟨r, hr⟩ := List.exists_mem_of_ne_nil _ hc
        apply hnot
        rw [mem_datesF]
        exact ⟨r, mem_sortStampF.mpr (mem_groupF.mp hr).1, (mem_groupF.mp hr).2⟩
    rw [this]
    simp [sortStampF, dropRepeatsF_eq, stepF, keepLastF]

theorem mergeFramesF_subset (o n : StoreF) {r : RowF} (h : r ∈ mergeFramesF [o, n]) : r ∈ o ++ n := by
  have h1 : r ∈ groupF r.date (mergeFramesF [o, n]) := mem_groupF.mpr ⟨h, rfl⟩
  rw [group_mergeFramesF] at h1
  have := (dropRepeatsF_sublist _).subset h1
  exact (mem_groupF.mp (mem_sortStampF.mp this)).1

/-! ### the per-column invariant of a frame history whose stamps are, per date, strictly increasing in merge order -/

def InvC (c : Nat) (st rows : StoreF) : Prop :=
  (∀ d, SortedLtF (groupF d st)) ∧ SpecEq (colF c st) (colF c rows) ∧ ∀ r ∈ st, r ∈ rows

theorem sortedLe_colF (c : Nat) {X : StoreF} (h : SortedLtF X) : SortedLe (colF c X) := by
  rw [colF_eq_map]
  unfold SortedLe
  rw [List.pairwise_map]
  exact h.imp (by intro a b hab; show a.stamp ≤ b.stamp; omega)

theorem invC_merge (c w : Nat) (hc : c < w) {st rows n : StoreF} (h : InvC c st rows)
    (hw : ∀ r ∈ rows ++ n, r.vals.length = w) (hs : ∀ d, SortedLtF (groupF d (rows ++ n))) :
    InvC c (mergeFramesF [st, n]) (rows ++ n) := by
  obtain ⟨hg, he, hm⟩ := h
  -- per date the concatenation of the stored rows and the new rows is strictly increasing in stamp
  have hX : ∀ d, SortedLtF (groupF d (st ++ n)) := by
    intro d
    have hsd := hs d
    rw [groupF_append] at hsd ⊢
    obtain ⟨_, hn, hcross⟩ := List.pairwise_append.mp hsd
    refine List.pairwise_append.mpr ⟨hg d, hn, ?_⟩
    intro a ha b hb
    exact hcross a (mem_groupF.mpr ⟨hm a (mem_groupF.mp ha).1, (mem_groupF.mp ha).2⟩) b hb
  have hgm : ∀ d, groupF d (mergeFramesF [st, n]) = stepF Option.none (groupF d (st ++ n)) := by
    intro d
    rw [group_mergeFramesF, sortStampF_of_sortedLt (hX d), dropRepeatsF_eq,
      keepLastF_of_sortedLt _ ((hX d).sublist (stepF_sublist _ _))]
  refine ⟨?_, ?_, ?_⟩
  · intro d
    rw [hgm]
    exact (hX d).sublist (stepF_sublist _ _)
  · intro d p hp
    rw [← colF_groupF, hgm]
    have hwX : ∀ r ∈ groupF d (st ++ n), r.vals.length = w := by
      intro r hr
      have := (mem_groupF.mp hr).1
      rcases List.mem_append.mp this with h1 | h1
      · exact hw r (List.mem_append_left _ (hm r h1))
      · exact hw r (List.mem_append_right _ h1)
    have hrs := stepF_repSub c w hc Option.none (groupF d (st ++ n)) hwX (by simp)
    rw [Option.map_none] at hrs
    rw [hrs.spec hp (sortedLe_colF c (hX d)), colF_groupF, colF_append, colF_append, group_append, group_append,
      List.filter_append, List.filter_append, accVal_append, accVal_append, he d p hp]
  · intro r hr
    rcases List.mem_append.mp (mergeFramesF_subset _ _ hr) with h1 | h1
    · exact List.mem_append_left _ (hm r h1)
    · exact List.mem_append_right _ h1

def mergeStepFF (st : Option StoreF) (f : StoreF) : Option StoreF := some (biMergeF st f)

theorem invC_foldl (c w : Nat) (hc : c < w) (rest : List StoreF) : ∀ (st rows : StoreF), InvC c st rows →
    (∀ r ∈ rows ++ rest.flatten, r.vals.length = w) → (∀ d, SortedLtF (groupF d (rows ++ rest.flatten))) →
    ∃ st', rest.foldl mergeStepFF (some st) = some st' ∧ InvC c st' (rows ++ rest.flatten) := by
  induction rest with
  | nil => intro st rows h _ _; exact ⟨st, rfl, by simpa using h⟩
  | cons f rest ih =>
    intro st rows h hw hs
    have e : rows ++ (f :: rest).flatten = (rows ++ f) ++ rest.flatten := by simp
    rw [e] at hs hw ⊢
    have hs1 : ∀ d, SortedLtF (groupF d (rows ++ f)) := by
      intro d
      have := hs d
      rw [groupF_append] at this
      exact (List.pairwise_append.mp this).1
    have hw1 : ∀ r ∈ rows ++ f, r.vals.length = w := fun r hr => hw r (List.mem_append_left _ hr)
    exact ih _ _ (invC_merge c w hc h hw1 hs1) hw hs

theorem historyFF_eq (log : List (Int × TSF)) :
    historyFF log = (log.map fun v => BiF v.2 v.1).foldl mergeStepFF Option.none := by
  unfold historyFF
  rw [List.foldl_map]
  rfl

theorem logRowsF_eq (log : List (Int × TSF)) : logRowsF log = (log.map fun v => BiF v.2 v.1).flatten := by
  simp [logRowsF, List.flatMap_def]

/-- the per-column invariant after a frame history -/
theorem historyFF_invC (c w : Nat) (hc : c < w) (v : Int × TSF) (rest : List (Int × TSF))
    (hw : ∀ r ∈ logRowsF (v :: rest), r.vals.length = w) (hs : ∀ d, SortedLtF (groupF d (logRowsF (v :: rest)))) :
    ∃ st, historyFF (v :: rest) = some st ∧ InvC c st (logRowsF (v :: rest)) := by
  rw [logRowsF_eq] at hw hs ⊢
  simp only [List.map_cons, List.flatten_cons] at hw hs ⊢
  have h0 : InvC c (BiF v.2 v.1) (BiF v.2 v.1) := by
    refine ⟨?_, SpecEq.refl _, fun _ h => h⟩
    intro d
    have := hs d
    rw [groupF_append] at this
    exact (List.pairwise_append.mp this).1
  have := invC_foldl c w hc (rest.map fun v => BiF v.2 v.1) _ _ h0 hw hs
  simpa [historyFF_eq, List.foldl_cons, mergeStepFF, biMergeF] using this

/-! ### a column of a frame read is the read of the column -/

theorem cell_range_map (c w : Nat) (hc : c < w) (f : Nat → Option Int) : cell c ((List.range w).map f) = f c := by
  simp [cell, hc]

theorem biReadFS_col (c w : Nat) (hc : c < w) (st : StoreF) (asof : Option Int) (sel : Sel) :
    (biReadFS w st asof sel).map (fun p => (p.1, cell c p.2)) = biReadS (colF c st) asof sel := by
  have key : ∀ st' : StoreF,
      ((datesF (sortStampF st')).map fun d =>
        (d, (List.range w).map fun c' => sel.apply (colF c' (groupF d (sortStampF st'))))).map (fun p => (p.1, cell c p.2)) =
      (dates (sortStamp (colF c st'))).map fun d => (d, sel.apply (group d (sortStamp (colF c st')))) := by
    intro st'
    rw [List.map_map, datesF_eq c, colF_sortStampF]
    apply List.map_congr_left
    intro d _
    simp only [Function.comp, cell_range_map c w hc, colF_groupF, colF_sortStampF]
  cases asof with
  | none =>
    have := key st
    simpa [biReadFS, biReadS] using this
  | some T =>
    have e : colF c (st.filter fun r => decide (r.stamp ≤ T)) = (colF c st).filter (fun r => decide (r.stamp ≤ T)) := by
      simp only [colF_eq_map, List.filter_map]; rfl
    have := key (st.filter fun r => decide (r.stamp ≤ T))
    rw [e] at this
    exact this

theorem historyFF_some (v : Int × TSF) (rest : List (Int × TSF)) : ∃ st, historyFF (v :: rest) = some st := by
  have key : ∀ (l : List (Int × TSF)) (acc : StoreF),
      ∃ st, l.foldl (fun st v => some (biMergeF st (BiF v.2 v.1))) (some acc) = some st := by
    intro l
    induction l with
    | nil => intro acc; exact ⟨acc, rfl⟩
    | cons x l ih => intro acc; exact ih _
  exact key rest _

theorem nthF_proj (c : Nat) (n : Int) (v : StoreF) : (nthF n v).map (projF c) = nth n (v.map (projF c)) := by
  unfold nthF nth
  split <;> simp [List.getElem?_map]

theorem biReadF_col (c : Nat) (st : StoreF) (asof : Option Int) (n : Int) :
    (biReadF st asof n).map (fun p => (p.1, cell c p.2)) = biRead (colF c st) asof n := by
  have key : ∀ st' : StoreF,
      ((datesF (sortStampF st')).map fun d =>
        (d, ((nthF n (groupF d (sortStampF st'))).map (·.vals)).getD [])).map (fun p => (p.1, cell c p.2)) =
      (dates (sortStamp (colF c st'))).map fun d => (d, nthVal n (group d (sortStamp (colF c st')))) := by
    intro st'
    rw [List.map_map, datesF_eq c, colF_sortStampF]
    apply List.map_congr_left
    intro d _
    have e : group d (sortStamp (colF c st')) = (groupF d (sortStampF st')).map (projF c) := by
      rw [← colF_sortStampF, ← colF_groupF]; rfl
    simp only [Function.comp]
    rw [e, nthVal, ← nthF_proj]
    cases nthF n (groupF d (sortStampF st')) with
    | none => simp [cell]
    | some r => simp [projF]
  cases asof with
  | none =>
    have := key st
    simpa [biReadF, biRead] using this
  | some T =>
    have e : colF c (st.filter fun r => decide (r.stamp ≤ T)) = (colF c st).filter (fun r => decide (r.stamp ≤ T)) := by
      simp only [colF_eq_map, List.filter_map]; rfl
    have := key (st.filter fun r => decide (r.stamp ≤ T))
    rw [e] at this
    exact this

/-- a non-NaN value in the last row of a column in stamp order is the fold of the column -/
theorem mem_biRead_some_specRows (st : Store) (hs : ∀ d, SortedLe (group d st)) (asof : Option Int) (d x : Int)
    (h : (d, some x) ∈ biRead st asof (-1)) : (d, some x) ∈ specRows st asof := by
  rw [biRead_eq, List.mem_map] at h
  obtain ⟨d', hd', he⟩ := h
  obtain ⟨rfl, hv⟩ := Prod.mk.inj he
  rw [dates_sortStamp] at hd'
  unfold specRows
  rw [List.mem_map]
  refine ⟨d', hd', ?_⟩
  congr 1
  rw [group_sortStamp, group_filter, sortStamp_of_sorted ((hs d').sublist List.filter_sublist)] at hv
  simp only [nthVal, nth_neg_one] at hv
  cases hl : ((group d' st).filter (vis asof)).getLast? with
  | none => rw [hl] at hv; simp at hv
  | some r =>
    rw [hl] at hv
    obtain ⟨ys, hys⟩ := List.getLast?_eq_some_iff.mp hl
    rw [hys, lastVal_snoc]
    simp only [Option.bind_some] at hv
    rw [hv]; rfl

end Pyg.Bitemp
