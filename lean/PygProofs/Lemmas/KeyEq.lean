/-
  Key equality, characterised (shared by C02, C07, C11).

  `keyEq` is written from the property statements, not from the code: two scalar key cells are equal iff they are
  both `None`, both NaN, the same infinity, numbers of the same value (an int equals the same-valued float),
  the same string, the same instant (a `datetime.date` reaches the model as the datetime of its midnight:
  `as_primitive`, wire spelling `DT:`), the same bool — and in no other case (1 is not '1', `None` is not NaN,
  NaN is not +inf, `True` is not 1).
  `cmp_cell_eq_iff` / `cmp_tuple_eq_iff` say that the model's `cmp` returns 0 on exactly these pairs, for single
  cells and component-wise for the key tuples that `dictable[cols]` builds.  Hence every theorem stated with
  `cmp · · = .eq` (join_pairs_spec, xor_spec, listby_distinct, …) is a statement about this equality; a `cmp`
  model that matched more (or fewer) keys could not satisfy these lemmas.
-/
import PygModel.Cmp
import PygProofs.Lemmas.CmpLemmas

namespace Pyg

/-- equality of two scalar key cells as the statements word it (floats are stored in quarters: `.flt q` = q/4) -/
def keyEq : Cell → Cell → Bool
  | .none, .none => true
  | .nan, .nan => true
  | .pinf, .pinf => true
  | .ninf, .ninf => true
  | .bool a, .bool b => a == b
  | .str a, .str b => a == b
  | .dt a, .dt b => a == b
  | .int a, .int b => a == b
  | .flt a, .flt b => a == b
  | .int a, .flt q => 4 * a == q
  | .flt q, .int a => q == 4 * a
  | _, _ => false

/-- equality of two key tuples: same number of components, every component `keyEq` -/
def keysEq (xs ys : List Cell) : Prop :=
  xs.length = ys.length ∧ ∀ i (h : i < xs.length), keyEq xs[i] (ys.getD i .none) = true

/-- the same, computable -/
def keysEqB (xs ys : List Cell) : Bool :=
  xs.length == ys.length && (xs.zip ys).all fun p => keyEq p.1 p.2

theorem Cell.cmp_eq_iff (a b : Cell) : Cell.cmp a b = .eq ↔ keyEq a b = true := by
  cases a <;> cases b <;>
    simp [Cell.cmp, Cell.cmpSame, Cell.rank, Cell.num, Cell.skey, keyEq, Ordering.then_eq_eq]
  case bool.bool x y => cases x <;> cases y <;> simp
  case int.int x y => omega

/-- **single keys**: `cmp` is 0 on two scalar cells exactly when they are equal keys -/
theorem cmp_cell_eq_iff (a b : Cell) : cmp (.cell a) (.cell b) = .eq ↔ keyEq a b = true := by
  simp only [cmp, Val.norm, cmpN]
  exact Cell.cmp_eq_iff a b

theorem normList_cells (xs : List Cell) : normList (xs.map .cell) = xs.map .cell := by
  induction xs with
  | nil => rfl
  | cons x xs ih => simp [normList, Val.norm, ih]

theorem cmpArr_cells_eq_iff : ∀ (xs ys : List Cell), xs.length = ys.length →
    (cmpArr (xs.map .cell) (ys.map .cell) = .eq ↔
      ∀ i (h : i < xs.length), keyEq xs[i] (ys.getD i .none) = true)
  | [], [], _ => by simp [cmpArr]
  | [], _ :: _, h | _ :: _, [], h => by simp at h
  | x :: xs, y :: ys, h => by
    have ih := cmpArr_cells_eq_iff xs ys (by simpa using h)
    simp only [List.map_cons, cmpArr, cmpN, Ordering.then_eq_eq, Cell.cmp_eq_iff, ih, List.length_cons]
    constructor
    · rintro ⟨h0, hr⟩ i hi
      cases i with
      | zero => simpa using h0
      | succ i => simpa using hr i (by omega)
    · intro hall
      refine ⟨by simpa using hall 0 (by omega), fun i hi => ?_⟩
      have := hall (i + 1) (by omega)
      simpa [List.getElem_cons_succ] using this

/-- **key tuples**: `cmp` is 0 on two tuples of scalar cells exactly when they have the same number of components
and are `keyEq` component by component -/
theorem cmp_tuple_eq_iff (xs ys : List Cell) :
    cmp (.tuple (xs.map .cell)) (.tuple (ys.map .cell)) = .eq ↔ keysEq xs ys := by
  simp only [cmp, Val.norm, normList_cells, cmpN, Ordering.then_eq_eq, List.length_map, keysEq]
  constructor
  · rintro ⟨hl, ha⟩
    have hl : xs.length = ys.length := by simpa using hl
    exact ⟨hl, (cmpArr_cells_eq_iff xs ys hl).1 ha⟩
  · rintro ⟨hl, ha⟩
    exact ⟨by simpa using hl, (cmpArr_cells_eq_iff xs ys hl).2 ha⟩

theorem keysEqB_iff (xs ys : List Cell) : keysEqB xs ys = true ↔ keysEq xs ys := by
  simp only [keysEqB, keysEq, Bool.and_eq_true, beq_iff_eq]
  constructor
  · rintro ⟨hl, ha⟩
    refine ⟨hl, fun i hi => ?_⟩
    have hj : i < ys.length := by omega
    have := List.all_eq_true.1 ha (xs[i], ys[i]) (by
      rw [List.mem_iff_getElem]
      exact ⟨i, by simp; omega, by simp⟩)
    simpa [List.getD_eq_getElem?_getD, hj] using this
  · rintro ⟨hl, ha⟩
    refine ⟨hl, List.all_eq_true.2 ?_⟩
    rintro ⟨a, b⟩ hp
    obtain ⟨i, hi, he⟩ := List.mem_iff_getElem.1 hp
    simp only [List.length_zip] at hi
    have h1 : i < xs.length := by omega
    have h2 : i < ys.length := by omega
    simp only [List.getElem_zip, Prod.mk.injEq] at he
    have := ha i h1
    simpa [List.getD_eq_getElem?_getD, h2, he.1, he.2] using this

/-- a value that `cmp` finds equal to a scalar cell is itself a scalar cell (and an equal key) -/
theorem norm_cell_inv {v : Val} {c : Cell} (h : v.norm = .cell c) : v = .cell c := by
  cases v <;> simp_all [Val.norm]

theorem cmpN_cell_right {a : Val} {c : Cell} (h : cmpN a (.cell c) = .eq) :
    ∃ c', a = .cell c' ∧ keyEq c' c = true := by
  cases a with
  | cell c' => exact ⟨c', rfl, (Cell.cmp_eq_iff c' c).1 (by simpa [cmpN] using h)⟩
  | list xs => have := Cell.rank_ne c; simp [cmpN, Val.rank] at h; omega
  | tuple xs => have := Cell.rank_ne c; simp [cmpN, Val.rank] at h; omega
  | dict xs => have := Cell.rank_ne c; simp [cmpN, Val.rank] at h; omega

theorem cmpArr_cells_right : ∀ (vs : List Val) (ys : List Cell), vs.length = ys.length →
    cmpArr (normList vs) (ys.map .cell) = .eq → ∃ xs : List Cell, vs = xs.map .cell
  | [], [], _, _ => ⟨[], rfl⟩
  | [], _ :: _, h, _ | _ :: _, [], h, _ => by simp at h
  | v :: vs, y :: ys, h, he => by
    simp only [normList, List.map_cons, cmpArr, Ordering.then_eq_eq] at he
    obtain ⟨c', hc, _⟩ := cmpN_cell_right he.1
    obtain ⟨xs, hxs⟩ := cmpArr_cells_right vs ys (by simpa using h) he.2
    exact ⟨c' :: xs, by rw [norm_cell_inv hc, hxs]; rfl⟩

/-- **representatives**: whatever `cmp` finds equal to a key tuple of scalar cells is such a tuple, equal to it
component by component (used for the key a join row / a group carries) -/
theorem cmp_eq_tuple_cells {v : Val} {ys : List Cell} (h : cmp v (.tuple (ys.map .cell)) = .eq) :
    ∃ xs : List Cell, v = .tuple (xs.map .cell) ∧ keysEq xs ys := by
  cases v with
  | cell c => simp [cmp, Val.norm, cmpN, Val.rank] at h; have := Cell.rank_ne c; omega
  | list xs => simp [cmp, Val.norm, cmpN, Val.rank] at h
  | dict xs => simp [cmp, Val.norm, cmpN, Val.rank] at h
  | tuple vs =>
    have h' := h
    simp only [cmp, Val.norm, normList_cells, cmpN, Ordering.then_eq_eq] at h'
    have hl : (normList vs).length = ys.length := by simpa using h'.1
    have hl' : vs.length = ys.length := by
      rw [← hl]; clear hl h h'
      induction vs with
      | nil => rfl
      | cons v vs ih => simp [normList, ih]
    obtain ⟨xs, rfl⟩ := cmpArr_cells_right vs ys hl' h'.2
    exact ⟨xs, rfl, (cmp_tuple_eq_iff xs ys).1 h⟩

/-! ### `keyEq` is an equivalence (inherited from `cmp`), and what it does NOT identify -/

theorem keyEq_refl (a : Cell) : keyEq a a = true := by cases a <;> simp [keyEq]

theorem keyEq_symm {a b : Cell} (h : keyEq a b = true) : keyEq b a = true := by
  cases a <;> cases b <;> simp_all [keyEq] <;> omega

theorem keyEq_trans {a b c : Cell} (h1 : keyEq a b = true) (h2 : keyEq b c = true) : keyEq a c = true := by
  rw [← cmp_cell_eq_iff] at *
  have t := cmpN_tri (Val.cell a) (.cell b) (.cell c)
  simp only [cmp, Val.norm] at h1 h2 ⊢
  rw [h1, h2] at t
  revert t
  cases cmpN (.cell a) (.cell c) <;> simp [tri]

example : keyEq (.int 1) (.flt 4) = true ∧ keyEq .none .none = true ∧ keyEq .nan .nan = true := by decide
example : keyEq (.int 1) (.str "1") = false ∧ keyEq .none .nan = false ∧ keyEq .pinf .nan = false ∧
    keyEq .pinf .ninf = false ∧ keyEq (.bool true) (.int 1) = false ∧ keyEq (.int 0) .none = false ∧
    keyEq (.int 1) (.flt 5) = false ∧ keyEq (.str "") .none = false := by decide

end Pyg
