/-
  Helper lemmas for C17 (g4): evaluation of merges / reads on one-date histories (`List.mergeSort` and `List.eraseDups` do not
  reduce in the kernel, so concrete witnesses go through these), for series and for multi-column frames.
-/
import PygModel.Bitemp
import PygProofs.Lemmas.BitempLemmas

namespace Pyg.Bitemp
open List

theorem eraseDups_all_eq (d : Int) : ∀ (l : List Int), (∀ x ∈ l, x = d) → l ≠ [] → l.eraseDups = [d]
  | [], _, h => absurd rfl h
  | x :: l, hall, _ => by
    have hx : x = d := hall x (by simp)
    subst hx
    rw [List.eraseDups_cons]
    have : l.filter (fun b => !b == x) = [] := by
      rw [List.filter_eq_nil_iff]; intro y hy; simp [hall y (by simp [hy])]
    rw [this]; simp

theorem dates_single (d : Int) (rows : Store) (hd : ∀ r ∈ rows, r.date = d) (hne : rows ≠ []) : dates rows = [d] := by
  unfold dates
  rw [eraseDups_all_eq d _ (by intro x hx; obtain ⟨r, hr, rfl⟩ := List.mem_map.mp hx; exact hd r hr) (by simpa using hne)]
  simp

theorem group_single (d : Int) (rows : Store) (hd : ∀ r ∈ rows, r.date = d) : group d rows = rows := by
  unfold group; rw [List.filter_eq_self]; intro r hr; simp [hd r hr]

/-- a merge of frames that hold one date only and are, concatenated, in stamp order -/
theorem mergeFrames_single (d : Int) (o n : Store) (hd : ∀ r ∈ o ++ n, r.date = d) (hne : o ++ n ≠ [])
    (hs : SortedLe (o ++ n)) : mergeFrames [o, n] = dropRepeats (o ++ n) := by
  unfold mergeFrames
  simp only [List.flatten_cons, List.flatten_nil, List.append_nil]
  rw [sortStamp_of_sorted hs, dates_single d _ hd hne]
  simp [group_single d _ hd]

theorem biRead_single (d : Int) (st : Store) (hd : ∀ r ∈ st, r.date = d) (hne : st ≠ []) (hs : SortedLe st) (w : Int) :
    biRead st Option.none w = [(d, nthVal w st)] := by
  unfold biRead
  simp only []
  rw [sortStamp_of_sorted hs, dates_single d _ hd hne]
  simp [group_single d _ hd]

theorem specReadR_single (d : Int) (rows : Store) (hd : ∀ r ∈ rows, r.date = d) (hne : rows ≠ []) :
    specReadR rows Option.none = [(d, lastVal rows)] := by
  unfold specReadR
  simp only []
  rw [dates_single d _ hd hne]
  simp [group_single d _ hd]

/-! ### the same for multi-column frames -/

theorem datesF_single (d : Int) (rows : StoreF) (hd : ∀ r ∈ rows, r.date = d) (hne : rows ≠ []) : datesF rows = [d] := by
  unfold datesF
  rw [eraseDups_all_eq d _ (by intro x hx; obtain ⟨r, hr, rfl⟩ := List.mem_map.mp hx; exact hd r hr) (by simpa using hne)]
  simp

theorem groupF_single (d : Int) (rows : StoreF) (hd : ∀ r ∈ rows, r.date = d) : groupF d rows = rows := by
  unfold groupF; rw [List.filter_eq_self]; intro r hr; simp [hd r hr]

theorem sortStampF_of_sorted {c : StoreF} (h : c.Pairwise (fun a b => a.stamp ≤ b.stamp)) : sortStampF c = c :=
  List.mergeSort_of_pairwise (h.imp (by intro a b hab; simpa using hab))

theorem mergeFramesF_single (d : Int) (o n : StoreF) (hd : ∀ r ∈ o ++ n, r.date = d) (hne : o ++ n ≠ [])
    (hs : (o ++ n).Pairwise (fun a b => a.stamp ≤ b.stamp)) : mergeFramesF [o, n] = dropRepeatsF (o ++ n) := by
  unfold mergeFramesF
  simp only [List.flatten_cons, List.flatten_nil, List.append_nil]
  rw [sortStampF_of_sorted hs, datesF_single d _ hd hne]
  simp [groupF_single d _ hd]

theorem biReadF_single (d : Int) (st : StoreF) (hd : ∀ r ∈ st, r.date = d) (hne : st ≠ [])
    (hs : st.Pairwise (fun a b => a.stamp ≤ b.stamp)) (w : Int) :
    biReadF st Option.none w = [(d, ((nthF w st).map (·.vals)).getD [])] := by
  unfold biReadF
  simp only []
  rw [sortStampF_of_sorted hs, datesF_single d _ hd hne]
  simp [groupF_single d _ hd]

theorem biReadFS_single (width : Nat) (d : Int) (st : StoreF) (hd : ∀ r ∈ st, r.date = d) (hne : st ≠ [])
    (hs : st.Pairwise (fun a b => a.stamp ≤ b.stamp)) (sel : Sel) :
    biReadFS width st Option.none sel = [(d, (List.range width).map fun c => sel.apply (colF c st))] := by
  unfold biReadFS
  simp only []
  rw [sortStampF_of_sorted hs, datesF_single d _ hd hne]
  simp [groupF_single d _ hd]

end Pyg.Bitemp
