import PygProofs.Lemmas.EqLemmas

/-!
  C14, last clause on plain dicts: `eq` compares the key-sorted item lists position by position,
  Python `==` compares mappings (same size, every item of the left found on the right).  For
  association lists with distinct keys the two coincide:

  * `sortK` is a permutation (`sortK_perm`) sorted by key (`sortK_pairwise`);
  * two duplicate-free key lists of the same length, one included in the other, have the same
    elements (`mem_of_nodup_subset_length`, pigeonhole), so their sorted forms are equal
    (`keys_sortK_eq`, uniqueness of the sorted permutation);
  * `all2_sortK_iff`: positionwise comparison of the sorted items = size + lookup comparison.

  `eq_pyEq_aux` then extends `eq_pyEq_seq_aux` to nested plain dicts.
-/
namespace Pyg
open EqM

namespace EqM
variable {α : Type}

theorem insertK_perm (kv : String × α) : ∀ l, (insertK kv l).Perm (kv :: l)
  | [] => List.Perm.refl _
  | h :: t => by
      simp only [insertK]
      split
      · exact List.Perm.refl _
      · exact ((insertK_perm kv t).cons h).trans (List.Perm.swap kv h t)

theorem sortK_perm : ∀ l : List (String × α), (sortK l).Perm l
  | [] => List.Perm.refl _
  | h :: t => (insertK_perm h (sortK t)).trans ((sortK_perm t).cons h)

theorem insertK_pairwise (kv : String × α) : ∀ l : List (String × α),
    l.Pairwise (fun x y => x.1 ≤ y.1) → (insertK kv l).Pairwise (fun x y => x.1 ≤ y.1)
  | [], _ => by simp [insertK]
  | h :: t, hp => by
      rw [List.pairwise_cons] at hp
      simp only [insertK]
      split
      · rename_i hle
        rw [List.pairwise_cons]
        refine ⟨fun y hy => ?_, List.pairwise_cons.2 hp⟩
        rcases List.mem_cons.1 hy with rfl | hy
        · exact hle
        · exact String.le_trans hle (hp.1 y hy)
      · rename_i hle
        rw [List.pairwise_cons]
        refine ⟨fun y hy => ?_, insertK_pairwise kv t hp.2⟩
        rcases (mem_insertK kv y t).1 hy with rfl | hy
        · rcases String.le_total y.1 h.1 with h' | h'
          · exact absurd h' hle
          · exact h'
        · exact hp.1 y hy

theorem sortK_pairwise : ∀ l : List (String × α), (sortK l).Pairwise (fun x y => x.1 ≤ y.1)
  | [] => List.Pairwise.nil
  | h :: t => insertK_pairwise h _ (sortK_pairwise t)

/-- pigeonhole: a duplicate-free list included in a list that is not longer has all its elements -/
theorem mem_of_nodup_subset_length : ∀ (l1 l2 : List String), l1.Nodup → (∀ x ∈ l1, x ∈ l2) →
    l2.length ≤ l1.length → ∀ y ∈ l2, y ∈ l1
  | [], l2, _, _, hl, y, hy => by
      have : l2 = [] := List.eq_nil_of_length_eq_zero (by simpa using hl)
      subst this; exact hy
  | x :: t, l2, hn, hs, hl, y, hy => by
      rw [List.nodup_cons] at hn
      have hx : x ∈ l2 := hs x (by simp)
      by_cases e : y = x
      · simp [e]
      · have hlen : (l2.erase x).length = l2.length - 1 := by rw [List.length_erase]; simp [hx]
        have hpos : 1 ≤ l2.length := List.length_pos_of_mem hx
        have := mem_of_nodup_subset_length t (l2.erase x) hn.2
          (fun z hz => (List.mem_erase_of_ne (fun (h : z = x) => hn.1 (h ▸ hz))).2 (hs z (by simp [hz])))
          (by simp at hl; omega) y ((List.mem_erase_of_ne e).2 hy)
        exact List.mem_cons_of_mem _ this

/-- the key-sorted forms of two association lists with the same distinct keys list the keys alike -/
theorem keys_sortK_eq (A B : List (String × α)) (hA : (A.map (·.1)).Nodup) (hB : (B.map (·.1)).Nodup)
    (hl : A.length = B.length) (hs : ∀ k ∈ A.map (·.1), k ∈ B.map (·.1)) :
    (sortK A).map (·.1) = (sortK B).map (·.1) := by
  have hback := mem_of_nodup_subset_length (A.map (·.1)) (B.map (·.1)) hA hs (by simp [hl])
  have hperm : (A.map (·.1)).Perm (B.map (·.1)) :=
    (List.perm_ext_iff_of_nodup hA hB).2 fun k => ⟨hs k, hback k⟩
  have hp' : ((sortK A).map (·.1)).Perm ((sortK B).map (·.1)) :=
    (((sortK_perm A).map _).trans hperm).trans ((sortK_perm B).map _).symm
  refine List.Perm.eq_of_pairwise (le := fun (a b : String) => a ≤ b)
    (fun a b _ _ h1 h2 => String.le_antisymm h1 h2) ?_ ?_ hp'
  · exact List.pairwise_map.2 (sortK_pairwise A)
  · exact List.pairwise_map.2 (sortK_pairwise B)

end EqM

/-! ### lookup in association lists with distinct keys -/

theorem EVal.lookup_mem (k : String) (v : EVal) : ∀ l : List (String × EVal),
    EVal.lookup k l = some v → (k, v) ∈ l
  | [], h => by simp [EVal.lookup] at h
  | (j, w) :: l, h => by
      simp only [EVal.lookup] at h
      split at h
      · rename_i e
        have : k = j := by simpa using e
        cases h; simp [this]
      · exact List.mem_cons_of_mem _ (EVal.lookup_mem k v l h)

theorem EVal.lookup_of_mem (k : String) (v : EVal) : ∀ l : List (String × EVal),
    (l.map (·.1)).Nodup → (k, v) ∈ l → EVal.lookup k l = some v
  | [], _, h => by simp at h
  | (j, w) :: l, hn, h => by
      simp only [List.map_cons, List.nodup_cons] at hn
      simp only [EVal.lookup]
      rcases List.mem_cons.1 h with e | h
      · cases e; simp
      · have hne : ¬ (k == j) = true := by
          intro e
          have : k = j := by simpa using e
          exact hn.1 (this ▸ List.mem_map.2 ⟨(k, v), h, rfl⟩)
        rw [if_neg hne]
        exact EVal.lookup_of_mem k v l hn.2 h

/-- the item relation of the dict branch: same key, `f`-equal values -/
def itemRel (f : EVal → EVal → Bool) (x y : String × EVal) : Bool := x.1 == y.1 && f x.2 y.2

theorem eqKeys_eqVals_eq_all2 : ∀ X Y : List (String × EVal),
    (eqKeys X Y && eqVals X Y) = all2 (itemRel eqN) X Y
  | [], [] => rfl
  | [], _ :: _ => rfl
  | _ :: _, [] => rfl
  | x :: X, y :: Y => by
      simp only [eqKeys, eqVals, all2, itemRel, ← eqKeys_eqVals_eq_all2 X Y]
      cases x.1 == y.1 <;> cases eqN x.2 y.2 <;> cases eqKeys X Y <;> simp

theorem all2_itemRel_of_keys (f : EVal → EVal → Bool) : ∀ X Y : List (String × EVal),
    X.map (·.1) = Y.map (·.1) →
    (∀ x ∈ X, ∀ y ∈ Y, x.1 = y.1 → f x.2 y.2 = true) → all2 (itemRel f) X Y = true
  | [], [], _, _ => rfl
  | [], _ :: _, h, _ => by simp at h
  | _ :: _, [], h, _ => by simp at h
  | x :: X, y :: Y, h, hf => by
      simp only [List.map_cons, List.cons.injEq] at h
      simp only [all2, itemRel, Bool.and_eq_true, beq_iff_eq]
      exact ⟨⟨h.1, hf x (by simp) y (by simp) h.1⟩,
        all2_itemRel_of_keys f X Y h.2 fun a ha b hb => hf a (by simp [ha]) b (by simp [hb])⟩

theorem all2_itemRel_elim (f : EVal → EVal → Bool) : ∀ X Y : List (String × EVal),
    all2 (itemRel f) X Y = true →
    X.length = Y.length ∧ ∀ x ∈ X, ∃ y ∈ Y, x.1 = y.1 ∧ f x.2 y.2 = true
  | [], [], _ => ⟨rfl, fun x hx => by simp at hx⟩
  | [], _ :: _, h => by simp [all2] at h
  | _ :: _, [], h => by simp [all2] at h
  | x :: X, y :: Y, h => by
      simp only [all2, itemRel, Bool.and_eq_true, beq_iff_eq] at h
      obtain ⟨hl, hr⟩ := all2_itemRel_elim f X Y h.2
      refine ⟨by simp [hl], fun a ha => ?_⟩
      rcases List.mem_cons.1 ha with rfl | ha
      · exact ⟨y, by simp, h.1.1, h.1.2⟩
      · obtain ⟨b, hb, r⟩ := hr a ha
        exact ⟨b, by simp [hb], r⟩

/-- positionwise comparison of the key-sorted items = same size and every item of the left is found
on the right (for distinct keys) -/
theorem all2_sortK_iff (f : EVal → EVal → Bool) (A B : List (String × EVal))
    (hA : (A.map (·.1)).Nodup) (hB : (B.map (·.1)).Nodup) :
    all2 (itemRel f) (sortK A) (sortK B) = true ↔
      A.length = B.length ∧ ∀ x ∈ A, ∃ w, EVal.lookup x.1 B = some w ∧ f x.2 w = true := by
  constructor
  · intro h
    obtain ⟨hl, hr⟩ := all2_itemRel_elim f _ _ h
    rw [length_sortK, length_sortK] at hl
    refine ⟨hl, fun x hx => ?_⟩
    obtain ⟨y, hy, hk, hf⟩ := hr x ((mem_sortK x A).2 hx)
    refine ⟨y.2, ?_, hf⟩
    rw [hk]
    exact EVal.lookup_of_mem y.1 y.2 B hB ((mem_sortK y B).1 hy)
  · rintro ⟨hl, hr⟩
    apply all2_itemRel_of_keys
    · apply keys_sortK_eq A B hA hB hl
      intro k hk
      obtain ⟨x, hx, rfl⟩ := List.mem_map.1 hk
      obtain ⟨w, hw, _⟩ := hr x hx
      exact List.mem_map.2 ⟨(x.1, w), EVal.lookup_mem x.1 w B hw, rfl⟩
    · intro x hx y hy hk
      obtain ⟨w, hw, hf⟩ := hr x ((mem_sortK x A).1 hx)
      have := EVal.lookup_of_mem y.1 y.2 B hB ((mem_sortK y B).1 hy)
      rw [hk, this] at hw
      cases hw
      exact hf

/-! ### normalisation of items -/

theorem keys_normKVs : ∀ l : List (String × EVal), (EVal.normKVs l).map (·.1) = l.map (·.1)
  | [] => rfl
  | (k, v) :: l => by simp [EVal.normKVs, keys_normKVs l]

theorem length_normKVs (l : List (String × EVal)) : (EVal.normKVs l).length = l.length := by
  simpa using congrArg List.length (keys_normKVs l)

theorem mem_normKVs (x : String × EVal) : ∀ l : List (String × EVal),
    x ∈ EVal.normKVs l ↔ ∃ y ∈ l, x = (y.1, y.2.norm)
  | [] => by simp [EVal.normKVs]
  | (k, v) :: l => by simp [EVal.normKVs, mem_normKVs x l]

theorem lookup_normKVs (k : String) : ∀ l : List (String × EVal),
    EVal.lookup k (EVal.normKVs l) = (EVal.lookup k l).map EVal.norm
  | [] => rfl
  | (j, v) :: l => by
      simp only [EVal.normKVs, EVal.lookup]
      split
      · rfl
      · exact lookup_normKVs k l

theorem pyEqItems_iff : ∀ a b : List (String × EVal),
    pyEqItems a b = true ↔ ∀ x ∈ a, ∃ w, EVal.lookup x.1 b = some w ∧ pyEqV x.2 w = true
  | [], b => by simp [pyEqItems]
  | x :: a, b => by
      simp only [pyEqItems, Bool.and_eq_true, pyEqItems_iff a b, List.mem_cons, forall_eq_or_imp]
      cases EVal.lookup x.1 b <;> simp


/-- dicts as mappings: `eq` on two dicts (distinct keys, any values) is: same class, same size, and every item of the left is
found under its key on the right with an `eq` value - whatever the insertion orders -/
theorem eq_dict_iff_aux (c d : Nat) (a b : List (String × EVal))
    (ha : (a.map (·.1)).Nodup) (hb : (b.map (·.1)).Nodup) :
    eq (.dict c a) (.dict d b) = true ↔
      c = d ∧ a.length = b.length ∧ ∀ x ∈ a, ∃ w, EVal.lookup x.1 b = some w ∧ eq x.2 w = true := by
  simp only [eq, EVal.norm, eqN]
  rw [Bool.and_assoc, eqKeys_eqVals_eq_all2, Bool.and_eq_true, beq_iff_eq,
    all2_sortK_iff eqN _ _ (by rw [keys_normKVs]; exact ha) (by rw [keys_normKVs]; exact hb),
    length_normKVs, length_normKVs]
  apply and_congr_right; intro _
  apply and_congr_right; intro _
  constructor
  · intro hr x hx
    obtain ⟨w, hw, hf⟩ := hr (x.1, x.2.norm) ((mem_normKVs _ a).2 ⟨x, hx, rfl⟩)
    rw [lookup_normKVs] at hw
    cases hl : EVal.lookup x.1 b with
    | none => simp [hl] at hw
    | some w' =>
      rw [hl] at hw
      simp only [Option.map_some, Option.some.injEq] at hw
      subst hw
      exact ⟨w', rfl, hf⟩
  · intro hr x hx
    obtain ⟨y, hy, rfl⟩ := (mem_normKVs x a).1 hx
    obtain ⟨w, hw, hf⟩ := hr y hy
    exact ⟨w.norm, by rw [lookup_normKVs, hw]; rfl, hf⟩

/-! ### every dict has distinct keys (true of every python dict) -/

mutual
  def EVal.keysOk : EVal → Bool
    | .cell _ => true
    | .date _ => true
    | .tdelta _ => true
    | .cdelta _ => true
    | .fdt _ => true
    | .ftd _ => true
    | .nat => true
    | .index _ => true
    | .sub _ xs => EVal.keysOkList xs
    | .list xs => EVal.keysOkList xs
    | .tuple xs => EVal.keysOkList xs
    | .dict _ kvs => decide (kvs.map (·.1)).Nodup && EVal.keysOkKVs kvs
    | .arr _ xs => EVal.keysOkList xs
    | .series _ xs => EVal.keysOkList xs
    | .frame _ _ xs => EVal.keysOkList xs
  def EVal.keysOkList : List EVal → Bool
    | [] => true
    | x :: xs => x.keysOk && EVal.keysOkList xs
  def EVal.keysOkKVs : List (String × EVal) → Bool
    | [] => true
    | x :: xs => x.2.keysOk && EVal.keysOkKVs xs
end

theorem keysOkKVs_mem : ∀ {xs : List (String × EVal)}, EVal.keysOkKVs xs = true →
    ∀ x ∈ xs, x.2.keysOk = true
  | [], _, _, hx => by simp at hx
  | y :: ys, h, x, hx => by
      simp only [EVal.keysOkKVs, Bool.and_eq_true] at h
      rcases List.mem_cons.1 hx with rfl | hx
      · exact h.1
      · exact keysOkKVs_mem h.2 x hx

theorem plainKVs_mem : ∀ {xs : List (String × EVal)}, EVal.plainKVs xs = true →
    ∀ x ∈ xs, x.2.plain = true
  | [], _, _, hx => by simp at hx
  | y :: ys, h, x, hx => by
      simp only [EVal.plainKVs, Bool.and_eq_true] at h
      rcases List.mem_cons.1 hx with rfl | hx
      · exact h.1
      · exact plainKVs_mem h.2 x hx

/-- on NaN-free plain values (nested lists / tuples / plain dicts with distinct keys) `eq` is
Python `==` -/
theorem eq_pyEq_aux : ∀ (n : Nat) (a b : EVal), sizeOf a ≤ n →
    a.plain = true → b.plain = true → a.keysOk = true → b.keysOk = true → eq a b = pyEqV a b := by
  intro n
  induction n with
  | zero => intro a b h; cases a <;> simp at h
  | succ n ih =>
    intro a b h ha hb ka kb
    have hlist : ∀ xs ys : List EVal, sizeOf xs ≤ n → EVal.plainList xs = true →
        EVal.plainList ys = true → EVal.keysOkList xs = true → EVal.keysOkList ys = true →
        all2 (fun a b => eqN a.norm b.norm) xs ys = pyEqArr xs ys := by
      intro xs
      induction xs with
      | nil => intro ys _ _ _ _ _; cases ys <;> simp [all2, pyEqArr]
      | cons x xs ihx =>
        intro ys hs hx hy kx ky
        cases ys with
        | nil => simp [all2, pyEqArr]
        | cons y ys =>
          simp only [EVal.plainList, EVal.keysOkList, Bool.and_eq_true] at hx hy kx ky
          simp at hs
          simp only [all2, pyEqArr]
          have e := ih x y (by omega) hx.1 hy.1 kx.1 ky.1
          simp only [eq] at e
          rw [e, ihx ys (by omega) hx.2 hy.2 kx.2 ky.2]
    cases a <;> cases b <;> simp only [EVal.plain, Bool.false_eq_true] at ha hb <;>
      try (simp [eq, EVal.norm, eqN, pyEqV]; done)
    case cell.cell x y =>
      simp only [eq, EVal.norm, eqN, pyEqV]
      exact cellEq_eq_pyEq x y (by simpa using ha)
    case list.list xs ys =>
      simp at h
      simp only [EVal.keysOk] at ka kb
      simp only [eq, EVal.norm, eqN, eqArr_normList, pyEqV]; exact hlist xs ys (by omega) ha hb ka kb
    case tuple.tuple xs ys =>
      simp at h
      simp only [EVal.keysOk] at ka kb
      simp only [eq, EVal.norm, eqN, eqArr_normList, pyEqV]; exact hlist xs ys (by omega) ha hb ka kb
    case dict.dict c xs d ys =>
      simp at h
      simp only [Bool.and_eq_true, beq_iff_eq] at ha hb
      simp only [EVal.keysOk, Bool.and_eq_true, decide_eq_true_eq] at ka kb
      obtain ⟨rfl, hpx⟩ := ha
      obtain ⟨rfl, hpy⟩ := hb
      simp only [eq, EVal.norm, eqN, pyEqV, beq_self_eq_true, Bool.true_and]
      rw [eqKeys_eqVals_eq_all2, Bool.eq_iff_iff,
        all2_sortK_iff eqN _ _ (by rw [keys_normKVs]; exact ka.1) (by rw [keys_normKVs]; exact kb.1),
        Bool.and_eq_true, beq_iff_eq, pyEqItems_iff, length_normKVs, length_normKVs]
      apply and_congr_right
      intro _
      constructor
      · intro hr x hx
        obtain ⟨w, hw, hf⟩ := hr (x.1, x.2.norm) ((mem_normKVs _ xs).2 ⟨x, hx, rfl⟩)
        rw [lookup_normKVs] at hw
        cases hl : EVal.lookup x.1 ys with
        | none => simp [hl] at hw
        | some w' =>
          rw [hl] at hw
          simp only [Option.map_some, Option.some.injEq] at hw
          subst hw
          have hm := EVal.lookup_mem _ _ _ hl
          have := sizeOf_snd_lt' hx
          have e := ih x.2 w' (by omega) (plainKVs_mem hpx x hx) (plainKVs_mem hpy _ hm)
            (keysOkKVs_mem ka.2 x hx) (keysOkKVs_mem kb.2 _ hm)
          simp only [eq] at e
          exact ⟨w', rfl, by rw [← e]; exact hf⟩
      · intro hr x hx
        obtain ⟨y, hy, rfl⟩ := (mem_normKVs x xs).1 hx
        obtain ⟨w, hw, hf⟩ := hr y hy
        refine ⟨w.norm, by rw [lookup_normKVs, hw]; rfl, ?_⟩
        have hm := EVal.lookup_mem _ _ _ hw
        have := sizeOf_snd_lt' hy
        have e := ih y.2 w (by omega) (plainKVs_mem hpx y hy) (plainKVs_mem hpy _ hm)
          (keysOkKVs_mem ka.2 y hy) (keysOkKVs_mem kb.2 _ hm)
        simp only [eq] at e
        rw [e]; exact hf

end Pyg
