/-
  From the text of a tenor to the step it performs (C09): the decimal numeral Python's `'%d' % n` writes, read back by the
  model's char-level tokenizer.  With these the property theorems can be stated on `bumpStr t "<n><unit>"` — the string a
  caller passes — instead of on the internal `Step`.
-/
import PygModel.Bump
import PygProofs.Lemmas.BumpLemmas
import PygProofs.Lemmas.TokenLemmas

namespace Pyg.Bump
open Pyg Pyg.Gen

/-- `'%d' % n` (= `str(n)`): optional minus sign, then the decimal digits of `|n|` without leading zeros -/
def numText (n : Int) : List Char :=
  (if n < 0 then ['-'] else []) ++ (Nat.repr n.natAbs).toList

/-- the characters of `'%d%s' % (n, u)` -/
def tenorCs (n : Int) (u : Char) : List Char := numText n ++ [u]

/-- the string `'%d%s' % (n, u)`, e.g. `tenor (-3) 'b' = "-3b"` -/
def tenor (n : Int) (u : Char) : String := String.ofList (tenorCs n u)

/-- a compound tenor: the parts written one after the other, e.g. `"1y-3m2d"` -/
def tenors (ps : List (Int × Char)) : String := String.ofList (ps.flatMap fun p => tenorCs p.1 p.2)

example : tenor (-3) 'b' = "-3b" ∧ tenor 0 'd' = "0d" ∧ tenor 60 'y' = "60y" := by decide
example : tenors [(1, 'y'), (-3, 'm'), (2, 'd')] = "1y-3m2d" := by decide

/-- `int(str(n)) = n` on naturals: the model's `int(<digits>)` reads back the decimal numeral core Lean prints -/
theorem digitsVal_repr (n : Nat) : digitsVal (Nat.repr n).toList = n := by
  rw [Nat.toList_repr]
  have h : ∀ ds, digitsVal ds = Nat.ofDigitChars 10 ds 0 := fun ds => rfl
  rw [h]; exact Nat.ofDigitChars_ten_toDigits

theorem repr_digits (n : Nat) : ∀ c ∈ (Nat.repr n).toList, c.isDigit = true := by
  intro c hc
  rw [Nat.toList_repr] at hc
  exact Nat.isDigit_of_mem_toDigits (by decide) (by decide) hc

theorem repr_ne_nil (n : Nat) : (Nat.repr n).toList ≠ [] := by
  rw [Nat.toList_repr]; exact Nat.toDigits_ne_nil

/-- the token `'%d%s' % (n, u)` as the tokenizer lemmas see it -/
def numTok (n : Int) (u : Char) : Tok := ⟨if n < 0 then .minus else .none, (Nat.repr n.natAbs).toList, u⟩

theorem numTok_text (n : Int) (u : Char) : (numTok n u).text = tenorCs n u := by
  unfold numTok Tok.text tenorCs numText
  by_cases h : n < 0 <;> simp [h]

theorem numTok_wf (n : Int) (u : Char) (hu : u ∈ Gen.periodUnits) : (numTok n u).WF :=
  ⟨repr_ne_nil _, repr_digits _, hu⟩

/-- `int('%d' % n) = n`: the numeral is read back as the integer it was written from -/
theorem numTok_value (n : Int) (u : Char) : (numTok n u).value = n := by
  unfold numTok Tok.value
  by_cases h : n < 0 <;> simp only [h, if_true, if_false, digitsVal_repr] <;> omega

/-- the text `[-]digits ++ [unit]` is ONE token of the `period` regex, whatever follows it -/
theorem nextToken_tenor (n : Int) (u : Char) (hu : u ∈ Gen.periodUnits) (rest : List Char) :
    nextToken (tenorCs n u ++ rest) = some (n, u, rest) := by
  rw [← numTok_text, nextToken_text _ (numTok_wf n u hu), numTok_value]; rfl

/-! ### `bump.lower()` and the named-tenor lookup leave such a text alone -/

theorem toLower_digit (c : Char) (h : c.isDigit = true) : c.toLower = c := by
  unfold Char.toLower
  have : ¬ (c.val ≥ 'A'.val ∧ c.val ≤ 'Z'.val) := by
    unfold Char.isDigit at h
    simp only [Bool.and_eq_true, decide_eq_true_eq, ge_iff_le] at h
    intro ⟨h1, _⟩
    have a := h.2
    have e1 : ('9' : Char).val < ('A' : Char).val := by decide
    exact absurd (UInt32.lt_of_lt_of_le e1 h1) (UInt32.not_lt.2 a)
  simp only [this, dite_false]

theorem lower_numText (n : Int) : (numText n).map Char.toLower = numText n := by
  unfold numText
  rw [List.map_append]
  have h1 : ((Nat.repr n.natAbs).toList).map Char.toLower = (Nat.repr n.natAbs).toList := by
    conv => rhs; rw [← List.map_id (Nat.repr n.natAbs).toList]
    apply List.map_congr_left
    intro c hc; exact toLower_digit c (repr_digits _ c hc)
  rw [h1]
  by_cases h : n < 0 <;> simp [h]

/-- a lower-case unit letter of the `period` regex -/
def LowerUnit (u : Char) : Prop := u ∈ Gen.periodUnits ∧ u.toLower = u

instance (u : Char) : Decidable (LowerUnit u) := by unfold LowerUnit; infer_instance

example : LowerUnit 'b' ∧ LowerUnit 'q' ∧ ¬ LowerUnit 'B' := by decide

theorem lower_tenor (n : Int) (u : Char) : lower (tenor n u) = tenorCs n u.toLower := by
  unfold lower tenor tenorCs
  rw [String.toList_ofList, List.map_append, lower_numText]; rfl

theorem toLower_unit : ∀ u ∈ Gen.periodUnits, u.toLower ∈ Gen.periodUnits ∧ u.toLower.toLower = u.toLower := by decide

/-- the first character of a numeral is a digit or the minus sign -/
theorem numText_head (n : Int) : ∃ c r, numText n = c :: r ∧ (c.isDigit = true ∨ c = '-') := by
  unfold numText
  by_cases h : n < 0
  · simp only [h, if_true, List.cons_append, List.nil_append]; exact ⟨_, _, rfl, Or.inr rfl⟩
  · simp only [h, if_false, List.nil_append]
    cases hl : (Nat.repr n.natAbs).toList with
    | nil => exact absurd hl (repr_ne_nil _)
    | cons c r => exact ⟨c, r, rfl, Or.inl (repr_digits n.natAbs c (by rw [hl]; simp))⟩

theorem named_heads_b : ∀ kv ∈ Gen.namedTenors,
    (match kv.1.toList with | c :: _ => !c.isDigit && c != '-' | [] => false) = true := by decide

theorem named_heads : ∀ kv ∈ Gen.namedTenors, ∃ c r, kv.1.toList = c :: r ∧ c.isDigit = false ∧ c ≠ '-' := by
  intro kv hkv
  have h := named_heads_b kv hkv
  cases e : kv.1.toList with
  | nil => rw [e] at h; cases h
  | cons c r =>
    rw [e] at h
    simp only [Bool.and_eq_true, Bool.not_eq_eq_eq_not, Bool.not_true, bne_iff_ne, ne_eq] at h
    exact ⟨c, r, rfl, h.1, h.2⟩

/-- no named tenor (`spot`, `o/n`, ...) begins with a digit or a minus sign -/
theorem resolveNamed_num (c : Char) (r : List Char) (h : c.isDigit = true ∨ c = '-') : resolveNamed (c :: r) = c :: r := by
  unfold resolveNamed
  have : Gen.namedTenors.find? (fun kv => kv.1.toList == c :: r) = none := by
    rw [List.find?_eq_none]
    intro kv hkv
    obtain ⟨c', r', e, hd, hm⟩ := named_heads kv hkv
    simp only [e, beq_iff_eq, List.cons.injEq, not_and]
    intro hc; subst hc
    rcases h with h | h
    · rw [h] at hd; cases hd
    · exact absurd h hm
  rw [this]

theorem resolveNamed_nil : resolveNamed [] = [] := by decide

/-- a text made of `'%d%s'` parts is not a named tenor -/
theorem resolveNamed_parts (ps : List (Int × Char)) :
    resolveNamed (ps.flatMap fun p => tenorCs p.1 p.2) = ps.flatMap fun p => tenorCs p.1 p.2 := by
  cases ps with
  | nil => exact resolveNamed_nil
  | cons p ps =>
    obtain ⟨c, r, e, h⟩ := numText_head p.1
    simp only [List.flatMap_cons, tenorCs, e, List.cons_append]
    exact resolveNamed_num c _ h

theorem lower_tenors (ps : List (Int × Char)) (hu : ∀ p ∈ ps, p.2.toLower = p.2) :
    lower (tenors ps) = ps.flatMap fun p => tenorCs p.1 p.2 := by
  unfold lower tenors
  rw [String.toList_ofList]
  induction ps with
  | nil => rfl
  | cons p ps ih =>
    simp only [List.flatMap_cons, List.map_append]
    rw [ih (fun q hq => hu q (by simp [hq]))]
    congr 1
    unfold tenorCs
    rw [List.map_append, lower_numText]
    simp [hu p (by simp)]

end Pyg.Bump
