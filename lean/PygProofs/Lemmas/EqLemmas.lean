import PygModel.Eq

/-!
  Helper lemmas for C14: the scalar comparison is equality of a canonical key; `all2` lifts
  reflexivity / symmetry / transitivity from elements to sequences; `eqN` is an equivalence by
  induction on the size of the left operand.
-/
namespace Pyg
open EqM

namespace EqM

/-- canonical representative of a scalar under Python `==` (bool / int / float by value) -/
def ckey : Cell → Cell
  | .bool b => .flt (if b then 4 else 0)
  | .int n => .flt (4 * n)
  | c => c

theorem cellEq_iff (a b : Cell) : cellEq a b = true ↔ ckey a = ckey b := by
  cases a <;> cases b <;> simp [cellEq, Cell.pyEq, ckey] <;> omega

theorem pyEq_iff (a b : Cell) : Cell.pyEq a b = true ↔ (ckey a = ckey b ∧ a ≠ .nan) := by
  cases a <;> cases b <;> simp [Cell.pyEq, ckey] <;> omega

theorem ckey_nan (a : Cell) : ckey a = .nan ↔ a = .nan := by
  cases a <;> simp [ckey]

theorem cellEq_refl (a : Cell) : cellEq a a = true := (cellEq_iff a a).2 rfl

theorem cellEq_symm (a b : Cell) : cellEq a b = cellEq b a := by
  rw [Bool.eq_iff_iff, cellEq_iff, cellEq_iff]; exact eq_comm

theorem cellEq_trans (a b c : Cell) : cellEq a b = true → cellEq b c = true → cellEq a c = true := by
  rw [cellEq_iff, cellEq_iff, cellEq_iff]; exact Eq.trans

theorem pyEq_symm (a b : Cell) : Cell.pyEq a b = Cell.pyEq b a := by
  rw [Bool.eq_iff_iff, pyEq_iff, pyEq_iff]
  constructor
  · rintro ⟨h, hn⟩; refine ⟨h.symm, fun hb => hn ?_⟩
    rw [← ckey_nan, h, hb]; rfl
  · rintro ⟨h, hn⟩; refine ⟨h.symm, fun hb => hn ?_⟩
    rw [← ckey_nan, h, hb]; rfl

theorem pyEq_trans (a b c : Cell) : Cell.pyEq a b = true → Cell.pyEq b c = true → Cell.pyEq a c = true := by
  rw [pyEq_iff, pyEq_iff, pyEq_iff]
  rintro ⟨h1, hn⟩ ⟨h2, _⟩; exact ⟨h1.trans h2, hn⟩

theorem pyEq_refl (a : Cell) (h : a ≠ .nan) : Cell.pyEq a a = true := (pyEq_iff a a).2 ⟨rfl, h⟩

/-- away from NaN the scalar branch of `eq` is Python `==` -/
theorem cellEq_eq_pyEq (a b : Cell) (ha : a ≠ .nan) : cellEq a b = Cell.pyEq a b := by
  rw [Bool.eq_iff_iff, cellEq_iff, pyEq_iff]; simp [ha]

/-! ### all2 -/

theorem all2_length {α β} (f : α → β → Bool) : ∀ xs ys, all2 f xs ys = true → xs.length = ys.length
  | [], [], _ => rfl
  | [], _ :: _, h => by simp [all2] at h
  | _ :: _, [], h => by simp [all2] at h
  | x :: xs, y :: ys, h => by
      simp only [all2, Bool.and_eq_true] at h
      simp [all2_length f xs ys h.2]

/-- `len(x) == len(y)` and every pair of the zip: position by position -/
theorem all2_iff_get {α β} (f : α → β → Bool) : ∀ (xs : List α) (ys : List β),
    all2 f xs ys = true ↔ xs.length = ys.length ∧ ∀ k (h1 : k < xs.length) (h2 : k < ys.length), f xs[k] ys[k] = true
  | [], [] => by simp [all2]
  | [], _ :: _ => by simp [all2]
  | _ :: _, [] => by simp [all2]
  | x :: xs, y :: ys => by
    simp only [all2, Bool.and_eq_true, all2_iff_get f xs ys, List.length_cons, Nat.add_right_cancel_iff]
    constructor
    · rintro ⟨h0, hl, hk⟩
      refine ⟨hl, fun k h1 h2 => ?_⟩
      cases k with
      | zero => simpa using h0
      | succ k => simpa using hk k (by omega) (by omega)
    · rintro ⟨hl, hk⟩
      refine ⟨by simpa using hk 0 (by omega) (by omega), hl, fun k h1 h2 => ?_⟩
      have := hk (k + 1) (by omega) (by omega)
      simpa only [List.getElem_cons_succ] using this

theorem all2_refl {α} (f : α → α → Bool) : ∀ xs, (∀ x ∈ xs, f x x = true) → all2 f xs xs = true
  | [], _ => rfl
  | x :: xs, h => by
      simp only [all2, Bool.and_eq_true]
      exact ⟨h x (by simp), all2_refl f xs fun y hy => h y (by simp [hy])⟩

theorem all2_symm {α β} (f : α → β → Bool) (g : β → α → Bool) :
    ∀ xs ys, (∀ x ∈ xs, ∀ y ∈ ys, f x y = g y x) → all2 f xs ys = all2 g ys xs
  | [], [], _ => rfl
  | [], _ :: _, _ => rfl
  | _ :: _, [], _ => rfl
  | x :: xs, y :: ys, h => by
      simp only [all2]
      rw [h x (by simp) y (by simp), all2_symm f g xs ys]
      intro a ha b hb; exact h a (by simp [ha]) b (by simp [hb])

theorem all2_trans {α} (f : α → α → Bool) :
    ∀ xs ys zs, (∀ x ∈ xs, ∀ y ∈ ys, ∀ z ∈ zs, f x y = true → f y z = true → f x z = true) →
      all2 f xs ys = true → all2 f ys zs = true → all2 f xs zs = true
  | [], [], [], _, _, _ => rfl
  | [], [], _ :: _, _, _, h => by simp [all2] at h
  | [], _ :: _, _, _, h, _ => by simp [all2] at h
  | _ :: _, [], _, _, h, _ => by simp [all2] at h
  | _ :: _, _ :: _, [], _, _, h => by simp [all2] at h
  | x :: xs, y :: ys, z :: zs, h, h1, h2 => by
      simp only [all2, Bool.and_eq_true] at h1 h2 ⊢
      refine ⟨h x (by simp) y (by simp) z (by simp) h1.1 h2.1, all2_trans f xs ys zs ?_ h1.2 h2.2⟩
      intro a ha b hb c hc
      exact h a (by simp [ha]) b (by simp [hb]) c (by simp [hc])

theorem all2_mono {α β} (f g : α → β → Bool) :
    ∀ xs ys, (∀ x ∈ xs, ∀ y ∈ ys, f x y = g x y) → all2 f xs ys = all2 g xs ys
  | [], [], _ => rfl
  | [], _ :: _, _ => rfl
  | _ :: _, [], _ => rfl
  | x :: xs, y :: ys, h => by
      simp only [all2]
      rw [h x (by simp) y (by simp), all2_mono f g xs ys]
      intro a ha b hb; exact h a (by simp [ha]) b (by simp [hb])

theorem idxEq_symm (i j : List Cell) : idxEq i j = idxEq j i :=
  all2_symm _ _ i j fun x _ y _ => cellEq_symm x y

theorem idxEq_trans (i j k : List Cell) : idxEq i j = true → idxEq j k = true → idxEq i k = true :=
  all2_trans _ i j k fun x _ y _ z _ => cellEq_trans x y z

theorem idxEq_refl (i : List Cell) : idxEq i i = true :=
  all2_refl _ i fun c _ => cellEq_refl c

end EqM

/-! ### the mutual helpers are `all2` -/

theorem eqArr_eq_all2 : ∀ xs ys, eqArr xs ys = all2 eqN xs ys
  | [], [] | [], _ :: _ | _ :: _, [] => by simp [eqArr, all2]
  | x :: xs, y :: ys => by simp [eqArr, all2, eqArr_eq_all2 xs ys]

theorem eqVals_eq_all2 : ∀ xs ys, eqVals xs ys = all2 eqN (xs.map (·.2)) (ys.map (·.2))
  | [], [] | [], _ :: _ | _ :: _, [] => by simp [eqVals, all2]
  | x :: xs, y :: ys => by simp [eqVals, all2, eqVals_eq_all2 xs ys]

theorem eqKeys_eq_all2 : ∀ xs ys,
    eqKeys xs ys = all2 (fun (a b : String) => a == b) (xs.map (·.1)) (ys.map (·.1))
  | [], [] | [], _ :: _ | _ :: _, [] => by simp [eqKeys, all2]
  | x :: xs, y :: ys => by simp [eqKeys, all2, eqKeys_eq_all2 xs ys]

theorem eqKeys_iff (xs ys : List (String × EVal)) :
    eqKeys xs ys = true ↔ xs.map (·.1) = ys.map (·.1) := by
  induction xs generalizing ys with
  | nil => cases ys <;> simp [eqKeys]
  | cons x xs ih => cases ys <;> simp [eqKeys, ih]

theorem sizeOf_snd_lt' {kv : String × EVal} {kvs : List (String × EVal)} (h : kv ∈ kvs) :
    sizeOf kv.2 < sizeOf kvs := by
  have := List.sizeOf_lt_of_mem h
  cases kv; simp at *; omega

/-! ### labels of pandas objects free of NaN (needed for reflexivity only: `Index == Index` is not NaN-aware) -/

mutual
  def EVal.labelsOk : EVal → Bool
    | .cell _ => true
    | .date _ => true
    | .tdelta _ => true
    | .cdelta _ => true
    | .fdt _ => true
    | .ftd _ => true
    | .nat => true
    | .list xs => EVal.labelsOkList xs
    | .tuple xs => EVal.labelsOkList xs
    | .sub _ xs => EVal.labelsOkList xs
    | .index i => i.all (· != .nan)
    | .dict _ kvs => EVal.labelsOkKVs kvs
    | .arr _ xs => EVal.labelsOkList xs
    | .series i xs => i.all (· != .nan) && EVal.labelsOkList xs
    | .frame i c xs => i.all (· != .nan) && c.all (· != .nan) && EVal.labelsOkList xs
  def EVal.labelsOkList : List EVal → Bool
    | [] => true
    | x :: xs => x.labelsOk && EVal.labelsOkList xs
  def EVal.labelsOkKVs : List (String × EVal) → Bool
    | [] => true
    | x :: xs => x.2.labelsOk && EVal.labelsOkKVs xs
end

theorem labelsOkList_mem : ∀ {xs : List EVal}, EVal.labelsOkList xs = true → ∀ x ∈ xs, x.labelsOk = true
  | [], _, _, hx => by simp at hx
  | y :: ys, h, x, hx => by
      simp only [EVal.labelsOkList, Bool.and_eq_true] at h
      rcases List.mem_cons.1 hx with rfl | hx
      · exact h.1
      · exact labelsOkList_mem h.2 x hx

theorem labelsOkKVs_mem : ∀ {xs : List (String × EVal)}, EVal.labelsOkKVs xs = true →
    ∀ x ∈ xs, x.2.labelsOk = true
  | [], _, _, hx => by simp at hx
  | y :: ys, h, x, hx => by
      simp only [EVal.labelsOkKVs, Bool.and_eq_true] at h
      rcases List.mem_cons.1 hx with rfl | hx
      · exact h.1
      · exact labelsOkKVs_mem h.2 x hx

/-! ### eqN is an equivalence -/

theorem eqN_refl_aux : ∀ n, ∀ a : EVal, sizeOf a ≤ n → eqN a a = true := by
  intro n
  induction n with
  | zero => intro a h; cases a <;> simp at h
  | succ n ih =>
    intro a h
    have hlist : ∀ xs : List EVal, sizeOf xs ≤ n → eqArr xs xs = true := by
      intro xs hs
      rw [eqArr_eq_all2]
      apply all2_refl
      intro x hx
      have := List.sizeOf_lt_of_mem hx
      exact ih x (by omega)
    cases a <;> simp only [eqN, Bool.and_eq_true]
    case cell c => exact cellEq_refl c
    case date d => simp
    case tdelta d => simp
    case cdelta d => simp
    case fdt d => simp
    case ftd d => simp
    case sub c xs => simp at h; exact ⟨by simp, hlist xs (by omega)⟩
    case index i => exact idxEq_refl i
    case list xs => simp at h; exact hlist xs (by omega)
    case tuple xs => simp at h; exact hlist xs (by omega)
    case arr s xs => simp at h; exact ⟨by simp, hlist xs (by omega)⟩
    case series i xs =>
      simp at h
      exact ⟨idxEq_refl i, hlist xs (by omega)⟩
    case frame i c xs =>
      simp at h
      exact ⟨⟨idxEq_refl i, idxEq_refl c⟩, hlist xs (by omega)⟩
    case dict c kvs =>
      simp at h
      refine ⟨⟨by simp, (eqKeys_iff _ _).2 rfl⟩, ?_⟩
      rw [eqVals_eq_all2]
      apply all2_refl
      intro x hx
      obtain ⟨kv, hkv, rfl⟩ := List.mem_map.1 hx
      have := sizeOf_snd_lt' hkv
      exact ih _ (by omega)

theorem eqN_refl (a : EVal) : eqN a a = true :=
  eqN_refl_aux _ a (Nat.le_refl _)

theorem eqN_symm_aux : ∀ n, ∀ a b : EVal, sizeOf a ≤ n → eqN a b = eqN b a := by
  intro n
  induction n with
  | zero => intro a b h; cases a <;> simp at h
  | succ n ih =>
    intro a b h
    have hlist : ∀ xs ys : List EVal, sizeOf xs ≤ n → eqArr xs ys = eqArr ys xs := by
      intro xs ys hs
      rw [eqArr_eq_all2, eqArr_eq_all2]
      apply all2_symm
      intro x hx y _
      have := List.sizeOf_lt_of_mem hx
      exact ih x y (by omega)
    cases a <;> cases b <;> simp only [eqN]
    case cell.cell x y => exact cellEq_symm x y
    case date.date x y => exact Bool.beq_comm
    case tdelta.tdelta x y => exact Bool.beq_comm
    case cdelta.cdelta x y => exact Bool.beq_comm
    case fdt.fdt x y => exact Bool.beq_comm
    case ftd.ftd x y => exact Bool.beq_comm
    case sub.sub c xs d ys =>
      simp at h; rw [hlist xs ys (by omega), Bool.beq_comm (a := c)]
    case index.index i j => exact idxEq_symm i j
    case list.list xs ys => simp at h; exact hlist xs ys (by omega)
    case tuple.tuple xs ys => simp at h; exact hlist xs ys (by omega)
    case arr.arr s xs t ys =>
      simp at h; rw [hlist xs ys (by omega), Bool.beq_comm (a := s)]
    case series.series i xs j ys =>
      simp at h; rw [hlist xs ys (by omega), idxEq_symm i j]
    case frame.frame i c xs j d ys =>
      simp at h; rw [hlist xs ys (by omega), idxEq_symm i j, idxEq_symm c d]
    case dict.dict c xs d ys =>
      simp at h
      have hk : eqKeys xs ys = eqKeys ys xs := by
        rw [Bool.eq_iff_iff, eqKeys_iff, eqKeys_iff]; exact eq_comm
      have hv : eqVals xs ys = eqVals ys xs := by
        rw [eqVals_eq_all2, eqVals_eq_all2]
        apply all2_symm
        intro x hx y _
        obtain ⟨kv, hkv, rfl⟩ := List.mem_map.1 hx
        have := sizeOf_snd_lt' hkv
        exact ih _ _ (by omega)
      rw [hk, hv, Bool.beq_comm (a := c)]

theorem eqN_symm (a b : EVal) : eqN a b = eqN b a := eqN_symm_aux _ a b (Nat.le_refl _)

theorem eqN_trans_aux : ∀ n, ∀ a b c : EVal, sizeOf a ≤ n →
    eqN a b = true → eqN b c = true → eqN a c = true := by
  intro n
  induction n with
  | zero => intro a b c h; cases a <;> simp at h
  | succ n ih =>
    intro a b c h hab hbc
    have hlist : ∀ xs ys zs : List EVal, sizeOf xs ≤ n →
        eqArr xs ys = true → eqArr ys zs = true → eqArr xs zs = true := by
      intro xs ys zs hs
      rw [eqArr_eq_all2, eqArr_eq_all2, eqArr_eq_all2]
      apply all2_trans
      intro x hx y _ z _
      have := List.sizeOf_lt_of_mem hx
      exact ih x y z (by omega)
    cases a <;> cases b <;> simp only [eqN, Bool.false_eq_true] at hab <;>
      cases c <;> simp only [eqN, Bool.false_eq_true] at hbc ⊢
    case cell.cell.cell x y z => exact cellEq_trans x y z hab hbc
    case date.date.date x y z => simp at hab hbc ⊢; omega
    case tdelta.tdelta.tdelta x y z => simp at hab hbc ⊢; omega
    case cdelta.cdelta.cdelta x y z => simp at hab hbc ⊢; omega
    case fdt.fdt.fdt x y z => simp at hab hbc ⊢; omega
    case ftd.ftd.ftd x y z => simp at hab hbc ⊢; omega
    case sub.sub.sub c xs d ys e zs =>
      simp only [Bool.and_eq_true, beq_iff_eq] at hab hbc ⊢
      simp at h
      exact ⟨hab.1.trans hbc.1, hlist xs ys zs (by omega) hab.2 hbc.2⟩
    case index.index.index i j k => exact idxEq_trans i j k hab hbc
    case list.list.list xs ys zs => simp at h; exact hlist xs ys zs (by omega) hab hbc
    case tuple.tuple.tuple xs ys zs => simp at h; exact hlist xs ys zs (by omega) hab hbc
    case arr.arr.arr s xs t ys u zs =>
      simp only [Bool.and_eq_true, beq_iff_eq] at hab hbc ⊢
      simp at h
      exact ⟨hab.1.trans hbc.1, hlist xs ys zs (by omega) hab.2 hbc.2⟩
    case series.series.series i xs j ys k zs =>
      simp only [Bool.and_eq_true] at hab hbc ⊢
      simp at h
      exact ⟨idxEq_trans i j k hab.1 hbc.1, hlist xs ys zs (by omega) hab.2 hbc.2⟩
    case frame.frame.frame i c xs j d ys k e zs =>
      simp only [Bool.and_eq_true] at hab hbc ⊢
      simp at h
      exact ⟨⟨idxEq_trans i j k hab.1.1 hbc.1.1, idxEq_trans c d e hab.1.2 hbc.1.2⟩,
        hlist xs ys zs (by omega) hab.2 hbc.2⟩
    case dict.dict.dict c xs d ys e zs =>
      simp only [Bool.and_eq_true, beq_iff_eq] at hab hbc ⊢
      simp at h
      refine ⟨⟨hab.1.1.trans hbc.1.1, ?_⟩, ?_⟩
      · rw [eqKeys_iff] at *; exact hab.1.2.trans hbc.1.2
      · have h1 := hab.2; have h2 := hbc.2
        rw [eqVals_eq_all2] at h1 h2 ⊢
        refine all2_trans _ _ _ _ ?_ h1 h2
        intro x hx y _ z _
        obtain ⟨kv, hkv, rfl⟩ := List.mem_map.1 hx
        have := sizeOf_snd_lt' hkv
        exact ih _ _ _ (by omega)

theorem eqN_trans (a b c : EVal) : eqN a b = true → eqN b c = true → eqN a c = true :=
  eqN_trans_aux _ a b c (Nat.le_refl _)

end Pyg

namespace Pyg
open EqM

/-! ### normalisation: membership in `sortK`, preservation of `labelsOk`, the constructor kind -/

namespace EqM

theorem mem_insertK {α} (kv x : String × α) : ∀ l, x ∈ insertK kv l ↔ x = kv ∨ x ∈ l
  | [] => by simp [insertK]
  | h :: t => by
      simp only [insertK]
      split
      · simp
      · simp only [List.mem_cons, mem_insertK kv x t]
        constructor
        · rintro (h | h | h) <;> simp [h]
        · rintro (h | h | h) <;> simp [h]

theorem mem_sortK {α} (x : String × α) : ∀ l, x ∈ sortK l ↔ x ∈ l
  | [] => by simp [sortK]
  | h :: t => by
      simp only [sortK, mem_insertK, mem_sortK x t, List.mem_cons]

theorem length_insertK {α} (kv : String × α) : ∀ l, (insertK kv l).length = l.length + 1
  | [] => rfl
  | h :: t => by
      simp only [insertK]; split <;> simp [length_insertK kv t]

theorem length_sortK {α} : ∀ l : List (String × α), (sortK l).length = l.length
  | [] => rfl
  | h :: t => by simp [sortK, length_insertK, length_sortK t]

end EqM

theorem labelsOkKVs_iff (xs : List (String × EVal)) :
    EVal.labelsOkKVs xs = true ↔ ∀ x ∈ xs, x.2.labelsOk = true := by
  induction xs with
  | nil => simp [EVal.labelsOkKVs]
  | cons x xs ih => simp [EVal.labelsOkKVs, ih]

mutual
  theorem norm_labelsOk : ∀ a : EVal, a.labelsOk = true → a.norm.labelsOk = true
    | .cell _, _ => rfl
    | .date _, _ => rfl
    | .tdelta _, _ => rfl
    | .cdelta _, _ => rfl
    | .fdt _, _ => rfl
    | .ftd _, _ => rfl
    | .nat, _ => rfl
    | .index _, h => h
    | .sub _ xs, h => by
        simp only [EVal.norm, EVal.labelsOk] at h ⊢; exact normList_labelsOk xs h
    | .list xs, h => by
        simp only [EVal.norm, EVal.labelsOk] at h ⊢; exact normList_labelsOk xs h
    | .tuple xs, h => by
        simp only [EVal.norm, EVal.labelsOk] at h ⊢; exact normList_labelsOk xs h
    | .arr _ xs, h => by
        simp only [EVal.norm, EVal.labelsOk] at h ⊢; exact normList_labelsOk xs h
    | .series i xs, h => by
        simp only [EVal.norm, EVal.labelsOk, Bool.and_eq_true] at h ⊢
        exact ⟨h.1, normList_labelsOk xs h.2⟩
    | .frame i c xs, h => by
        simp only [EVal.norm, EVal.labelsOk, Bool.and_eq_true] at h ⊢
        exact ⟨h.1, normList_labelsOk xs h.2⟩
    | .dict c kvs, h => by
        simp only [EVal.norm, EVal.labelsOk] at h ⊢
        have := normKVs_labelsOk kvs h
        rw [labelsOkKVs_iff] at this ⊢
        intro x hx
        exact this x ((mem_sortK x _).1 hx)
  theorem normList_labelsOk : ∀ xs : List EVal, EVal.labelsOkList xs = true →
      EVal.labelsOkList (EVal.normList xs) = true
    | [], _ => rfl
    | x :: xs, h => by
        simp only [EVal.normList, EVal.labelsOkList, Bool.and_eq_true] at h ⊢
        exact ⟨norm_labelsOk x h.1, normList_labelsOk xs h.2⟩
  theorem normKVs_labelsOk : ∀ kvs : List (String × EVal), EVal.labelsOkKVs kvs = true →
      EVal.labelsOkKVs (EVal.normKVs kvs) = true
    | [], _ => rfl
    | (k, v) :: kvs, h => by
        simp only [EVal.normKVs, EVal.labelsOkKVs, Bool.and_eq_true] at h ⊢
        exact ⟨norm_labelsOk v h.1, normKVs_labelsOk kvs h.2⟩
end

/-- the container type `eq` is strict about: constructor and, for dicts, the exact class -/
def EVal.kind : EVal → Nat × Nat
  | .cell _ => (0, 0)
  | .date _ => (0, 0)
  | .tdelta _ => (0, 0)
  | .cdelta _ => (0, 0)
  | .fdt _ => (0, 0)
  | .ftd _ => (0, 0)
  | .nat => (0, 0)
  | .sub c _ => (7, c)
  | .index _ => (8, 0)
  | .list _ => (1, 0)
  | .tuple _ => (2, 0)
  | .dict c _ => (3, c)
  | .arr _ _ => (4, 0)
  | .series _ _ => (5, 0)
  | .frame _ _ _ => (6, 0)

theorem kind_norm (a : EVal) : a.norm.kind = a.kind := by
  cases a <;> simp [EVal.norm, EVal.kind]

theorem eqN_kind (a b : EVal) (h : eqN a b = true) : a.kind = b.kind := by
  cases a <;> cases b <;> simp only [eqN, Bool.false_eq_true] at h <;> simp [EVal.kind]
  · simp only [Bool.and_eq_true, beq_iff_eq] at h
    exact h.1
  · simp only [Bool.and_eq_true, beq_iff_eq] at h
    exact h.1.1

theorem eqArr_normList (xs ys : List EVal) :
    eqArr (EVal.normList xs) (EVal.normList ys) = all2 (fun a b => eqN a.norm b.norm) xs ys := by
  induction xs generalizing ys with
  | nil => cases ys <;> simp [EVal.normList, eqArr, all2]
  | cons x xs ih => cases ys <;> simp [EVal.normList, eqArr, all2, ih]

end Pyg

namespace Pyg
open EqM

/-! ### NaN-free scalars, dates and nested lists / tuples of them -/

mutual
  def EVal.seqPlain : EVal → Bool
    | .cell c => c != .nan
    | .date _ => true
    | .tdelta _ => true
    | .list xs => EVal.seqPlainList xs
    | .tuple xs => EVal.seqPlainList xs
    | _ => false
  def EVal.seqPlainList : List EVal → Bool
    | [] => true
    | x :: xs => x.seqPlain && EVal.seqPlainList xs
end

theorem eq_pyEq_seq_aux : ∀ (n : Nat) (a b : EVal), sizeOf a ≤ n →
    a.seqPlain = true → b.seqPlain = true → eq a b = pyEqV a b := by
  intro n
  induction n with
  | zero => intro a b h; cases a <;> simp at h
  | succ n ih =>
    intro a b h ha hb
    have hlist : ∀ xs ys : List EVal, sizeOf xs ≤ n → EVal.seqPlainList xs = true →
        EVal.seqPlainList ys = true → all2 (fun a b => eqN a.norm b.norm) xs ys = pyEqArr xs ys := by
      intro xs
      induction xs with
      | nil => intro ys _ _ _; cases ys <;> simp [all2, pyEqArr]
      | cons x xs ihx =>
        intro ys hs hx hy
        cases ys with
        | nil => simp [all2, pyEqArr]
        | cons y ys =>
          simp only [EVal.seqPlainList, Bool.and_eq_true] at hx hy
          simp at hs
          simp only [all2, pyEqArr]
          have e := ih x y (by omega) hx.1 hy.1
          simp only [eq] at e
          rw [e, ihx ys (by omega) hx.2 hy.2]
    cases a <;> cases b <;> simp only [EVal.seqPlain, Bool.false_eq_true] at ha hb <;>
      try (simp [eq, EVal.norm, eqN, pyEqV]; done)
    case cell.cell x y =>
      simp only [eq, EVal.norm, eqN, pyEqV]
      exact cellEq_eq_pyEq x y (by simpa using ha)
    case list.list xs ys =>
      simp at h
      simp only [eq, EVal.norm, eqN, eqArr_normList, pyEqV]; exact hlist xs ys (by omega) ha hb
    case tuple.tuple xs ys =>
      simp at h
      simp only [eq, EVal.norm, eqN, eqArr_normList, pyEqV]; exact hlist xs ys (by omega) ha hb


end Pyg
