/-
  Lemmas for the plain mask of C01 (`Recs.getMaskPlain`, PygModel/TableSpecPlain.lean): where the
  `zipper`-based mask of the model / reference machine IS the plain zip+filter, and what it does instead
  on a one-record table.
-/
import PygProofs.Lemmas.TableAbs2
import PygModel.TableSpecPlain

namespace Pyg
namespace Abs

theorem bcast_of_ne_one {α} (n : Nat) (v : List α) (h : v.length ≠ 1) : bcast n v = v := by
  unfold bcast
  split
  · simp at h
  · rfl

theorem lens_pair_one_right (n : Nat) : lens [n, 1] = .ok n := by
  by_cases h : n = 1
  · subst h; rfl
  · simp [lens, h]

theorem lens_pair_one_left (k : Nat) : lens [1, k] = .ok k := by
  by_cases h : k = 1
  · subst h; rfl
  · simp [lens, h]

theorem lens_pair_misfit {n k : Nat} (hn : n ≠ 1) (hk : k ≠ 1) (hnk : k ≠ n) : lens [n, k] = .error .value := by
  simp [lens, hn, hk]
  omega

/-- every record paired with the same flag: all of them or none -/
theorem zip_replicate_filter {α} (xs : List α) (b : Bool) :
    ((xs.zip (List.replicate xs.length b)).filter (·.2)).map (·.1) = if b then xs else [] := by
  induction xs with
  | nil => cases b <;> rfl
  | cons x xs ih =>
    cases b with
    | true => simpa [List.replicate_succ] using ih
    | false => simpa [List.replicate_succ] using ih

/-- one record repeated under every flag: as many copies as there are `true` flags -/
theorem replicate_zip_filter {α} (x : α) (m : List Bool) :
    (((List.replicate m.length x).zip m).filter (·.2)).map (·.1) = List.replicate (m.count true) x := by
  induction m with
  | nil => rfl
  | cons b m ih =>
    cases b with
    | true => simpa [List.replicate_succ] using ih
    | false => simpa [List.replicate_succ] using ih

end Abs

open Abs

namespace Recs

/-- on the reference machine: the `zipper` mask is the plain mask unless the table has exactly one record
and the mask is not a single flag -/
theorem getMask_eq_plain (r : Recs) (m : List Bool) (h : r.rows.length ≠ 1 ∨ m.length = 1) :
    r.getMask m = r.getMaskPlain m := by
  unfold getMask getMaskPlain zipper2
  by_cases hk : m.length = r.rows.length
  · -- one flag per record
    have hl : lens [r.rows.length, m.length] = .ok r.rows.length := by
      apply lens_const (by simp)
      intro l hl
      simp at hl
      rcases hl with rfl | rfl
      · rfl
      · exact hk
    rw [hl, if_pos hk]
    simp only
    rw [bcast_self rfl, bcast_self hk]
  · rw [if_neg hk]
    by_cases h1 : m.length = 1
    · -- a single flag, not exactly one record
      have hn : r.rows.length ≠ 1 := fun hn => hk (by omega)
      obtain ⟨b, rfl⟩ : ∃ b, m = [b] := by
        match m, h1 with
        | [b], _ => exact ⟨b, rfl⟩
      simp only [List.length_singleton, lens_pair_one_right]
      rw [bcast_of_ne_one _ _ hn]
      simp only [bcast]
      rw [zip_replicate_filter]
    · -- any other length
      have hn : r.rows.length ≠ 1 := by
        rcases h with h | h
        · exact h
        · exact absurd h h1
      rw [lens_pair_misfit hn h1 hk]
      match m, h1 with
      | [], _ => rfl
      | _ :: _ :: _, _ => rfl
      | [b], h1 => exact absurd rfl h1

/-- the deviation on the reference machine: exactly one record, a mask of two or more flags -/
theorem getMask_one_record (cols : List String) (x : List Cell) (m : List Bool) (hk : 2 ≤ m.length) :
    Recs.getMask ⟨cols, [x]⟩ m = .ok ⟨cols, List.replicate (m.count true) x⟩ ∧
    Recs.getMaskPlain ⟨cols, [x]⟩ m = .error .value := by
  constructor
  · unfold getMask zipper2
    simp only [List.length_singleton, lens_pair_one_left]
    rw [bcast_of_ne_one _ m (by omega)]
    simp only [bcast]
    rw [replicate_zip_filter]
  · unfold getMaskPlain
    rw [if_neg (by simp; omega)]
    match m, hk with
    | _ :: _ :: _, _ => rfl

/-- the side condition of `getMask_eq_plain` is exact: with exactly one record and a mask that is not a
single flag the `zipper` mask succeeds and the plain mask is a `ValueError` -/
theorem getMask_ne_plain (r : Recs) (m : List Bool) (hn : r.rows.length = 1) (hk : m.length ≠ 1) :
    (∃ r', r.getMask m = .ok r') ∧ r.getMaskPlain m = .error .value := by
  constructor
  · unfold getMask zipper2
    rw [hn, lens_pair_one_left]
    exact ⟨_, rfl⟩
  · unfold getMaskPlain
    rw [if_neg (by omega)]
    match m, hk with
    | [], _ => rfl
    | _ :: _ :: _, _ => rfl
    | [b], hk => exact absurd rfl hk

end Recs

/-! ### the checked mask of `__getitem__` (repaired code) against the plain reading: no side condition -/

namespace Table

theorem getMaskC_ok {t t' : Table} {m : List Bool} (h : t.getMaskC m = .ok t') : t.getMask m = .ok t' := by
  unfold getMaskC at h
  split at h
  · exact h
  · cases h

/-- **masks, unconditionally**: `d[mask]` of the model, seen as records, IS the plain zip+filter reading -
one flag per record, or a single flag, `ValueError` otherwise (also for a one-row table) -/
theorem abs_getMaskC (t : Table) (m : List Bool) : (t.getMaskC m).map abs = (abs t).getMaskPlain m := by
  unfold getMaskC
  by_cases hg : m.length = t.nrows ∨ m.length = 1
  · rw [if_pos hg, abs_getMask]
    apply Recs.getMask_eq_plain
    by_cases h1 : m.length = 1
    · exact Or.inr h1
    · left; rw [abs_rows_length]; omega
  · rw [if_neg hg]
    have h1 : m.length ≠ (abs t).rows.length := by rw [abs_rows_length]; exact fun h => hg (Or.inl h)
    have h2 : m.length ≠ 1 := fun h => hg (Or.inr h)
    unfold Recs.getMaskPlain
    rw [if_neg h1]
    match m, h2 with
    | [], _ => rfl
    | [_], h2 => exact absurd rfl h2
    | _ :: _ :: _, _ => rfl

end Table
end Pyg
