/-
  Lemmas about `PygModel.EqR`: the raising reading of `eq` never takes an error branch and computes `eq`.
-/
import PygModel.EqR
import PygProofs.Lemmas.EqLemmas

namespace Pyg
open EqM EqRM

/-! ### values whose cells fit their shape: an ndarray has as many cells as its shape says, a Series one per index
label, a DataFrame one per (index label, column label) -/

/-- number of cells of an array of the given shape -/
def shapeSize : List Nat → Nat
  | [] => 1
  | d :: ds => d * shapeSize ds

theorem shapeSize_zero : ∀ s : List Nat, s.contains 0 = true → shapeSize s = 0
  | [], h => by simp at h
  | d :: ds, h => by
      simp only [List.contains_cons, Bool.or_eq_true, beq_iff_eq] at h
      rcases h with h | h
      · simp [shapeSize, ← h]
      · simp [shapeSize, shapeSize_zero ds h]

mutual
  def EVal.sized : EVal → Bool
    | .cell _ => true
    | .date _ => true
    | .tdelta _ => true
    | .cdelta _ => true
    | .fdt _ => true
    | .ftd _ => true
    | .nat => true
    | .index _ => true
    | .sub _ xs => EVal.sizedList xs
    | .list xs => EVal.sizedList xs
    | .tuple xs => EVal.sizedList xs
    | .dict _ kvs => EVal.sizedKVs kvs
    | .arr s xs => (xs.length == shapeSize s) && EVal.sizedList xs
    | .series i xs => (xs.length == i.length) && EVal.sizedList xs
    | .frame i c xs => (xs.length == i.length * c.length) && EVal.sizedList xs
  def EVal.sizedList : List EVal → Bool
    | [] => true
    | x :: xs => x.sized && EVal.sizedList xs
  def EVal.sizedKVs : List (String × EVal) → Bool
    | [] => true
    | x :: xs => x.2.sized && EVal.sizedKVs xs
end

theorem sizedKVs_iff (xs : List (String × EVal)) :
    EVal.sizedKVs xs = true ↔ ∀ x ∈ xs, x.2.sized = true := by
  induction xs with
  | nil => simp [EVal.sizedKVs]
  | cons x xs ih => simp [EVal.sizedKVs, ih]

theorem normList_nil_iff : ∀ xs : List EVal, (EVal.normList xs).length = xs.length
  | [] => rfl
  | _ :: xs => by simp [EVal.normList, normList_nil_iff xs]

mutual
  theorem norm_sized : ∀ a : EVal, a.sized = true → a.norm.sized = true
    | .cell _, _ => rfl
    | .date _, _ => rfl
    | .tdelta _, _ => rfl
    | .cdelta _, _ => rfl
    | .fdt _, _ => rfl
    | .ftd _, _ => rfl
    | .nat, _ => rfl
    | .index _, _ => rfl
    | .sub _ xs, h => by
        simp only [EVal.norm, EVal.sized] at h ⊢; exact normList_sized xs h
    | .list xs, h => by
        simp only [EVal.norm, EVal.sized] at h ⊢; exact normList_sized xs h
    | .tuple xs, h => by
        simp only [EVal.norm, EVal.sized] at h ⊢; exact normList_sized xs h
    | .arr _ xs, h => by
        simp only [EVal.norm, EVal.sized, Bool.and_eq_true, normList_nil_iff] at h ⊢
        exact ⟨h.1, normList_sized xs h.2⟩
    | .series i xs, h => by
        simp only [EVal.norm, EVal.sized, Bool.and_eq_true, normList_nil_iff] at h ⊢
        exact ⟨h.1, normList_sized xs h.2⟩
    | .frame i c xs, h => by
        simp only [EVal.norm, EVal.sized, Bool.and_eq_true, normList_nil_iff] at h ⊢
        exact ⟨h.1, normList_sized xs h.2⟩
    | .dict c kvs, h => by
        simp only [EVal.norm, EVal.sized] at h ⊢
        have := normKVs_sized kvs h
        rw [sizedKVs_iff] at this ⊢
        intro x hx
        exact this x ((mem_sortK x _).1 hx)
  theorem normList_sized : ∀ xs : List EVal, EVal.sizedList xs = true → EVal.sizedList (EVal.normList xs) = true
    | [], _ => rfl
    | x :: xs, h => by
        simp only [EVal.normList, EVal.sizedList, Bool.and_eq_true] at h ⊢
        exact ⟨norm_sized x h.1, normList_sized xs h.2⟩
  theorem normKVs_sized : ∀ kvs : List (String × EVal), EVal.sizedKVs kvs = true →
      EVal.sizedKVs (EVal.normKVs kvs) = true
    | [], _ => rfl
    | (k, v) :: kvs, h => by
        simp only [EVal.normKVs, EVal.sizedKVs, Bool.and_eq_true] at h ⊢
        exact ⟨norm_sized v h.1, normKVs_sized kvs h.2⟩
end

/-! ### the primitives on the operands the guards let through -/

theorem minR_of_ne_nil : ∀ (bs : List Bool), bs ≠ [] → minR bs = .ok (bs.all id)
  | [], h => absurd rfl h
  | _ :: _, _ => rfl

theorem broadcastRev_self : ∀ s : List Nat, broadcastRev s s = some s
  | [] => rfl
  | a :: s => by simp [broadcastRev, broadcastRev_self s]

theorem veqShape_self (s : List Nat) (h : s.contains 0 = false) : veqShape s s = .ok s := by
  have h' : ¬ 0 ∈ s := by simpa using h
  simp [veqShape, broadcast, broadcastRev_self, h']

theorem unzipR_of_ne_nil {α} : ∀ (kvs : List (String × α)), kvs ≠ [] →
    unzipR kvs = .ok (kvs.map (·.1), kvs.map (·.2))
  | [], h => absurd rfl h
  | _ :: _, _ => rfl

theorem eqArr_eq_zip : ∀ xs ys : List EVal, xs.length = ys.length →
    eqArr xs ys = (List.zipWith eqN xs ys).all id
  | [], [], _ => rfl
  | [], _ :: _, h => by simp at h
  | _ :: _, [], h => by simp at h
  | x :: xs, y :: ys, h => by
      simp only [eqArr, List.zipWith_cons_cons, List.all_cons, id]
      rw [eqArr_eq_zip xs ys (by simpa using h)]

theorem eqArr_of_length_ne (xs ys : List EVal) (h : xs.length ≠ ys.length) : eqArr xs ys = false := by
  cases hb : eqArr xs ys with
  | false => rfl
  | true =>
    rw [eqArr_eq_all2] at hb
    exact absurd (all2_length _ _ _ hb) h

theorem eqVals_eq_zip : ∀ xs ys : List (String × EVal), xs.length = ys.length →
    eqVals xs ys = (List.zipWith (fun x y => eqN x.2 y.2) xs ys).all id
  | [], [], _ => rfl
  | [], _ :: _, h => by simp at h
  | _ :: _, [], h => by simp at h
  | x :: xs, y :: ys, h => by
      simp only [eqVals, List.zipWith_cons_cons, List.all_cons, id]
      rw [eqVals_eq_zip xs ys (by simpa using h)]

theorem eqKeys_of_length_ne (xs ys : List (String × EVal)) (h : xs.length ≠ ys.length) : eqKeys xs ys = false := by
  cases hb : eqKeys xs ys with
  | false => rfl
  | true =>
    rw [eqKeys_iff] at hb
    have := congrArg List.length hb
    simp at this
    exact absurd this h

theorem idxEq_length (i j : List Cell) (h : idxEq i j = true) : i.length = j.length :=
  all2_length _ _ _ h

/-! ### the branches, given the list comprehension -/

theorem seqBranch_eq (xs ys : List EVal) :
    seqBranch xs.length ys.length (.ok (List.zipWith eqN xs ys)) = .ok (eqArr xs ys) := by
  unfold seqBranch
  by_cases hl : xs.length = ys.length
  · rw [if_neg (by simpa using hl)]
    by_cases h0 : xs.length = 0
    · rw [if_pos h0]
      have hx : xs = [] := List.length_eq_zero_iff.1 h0
      have hy : ys = [] := List.length_eq_zero_iff.1 (hl ▸ h0)
      subst hx hy; rfl
    · rw [if_neg h0]
      have hne : List.zipWith eqN xs ys ≠ [] := by
        intro e
        have := congrArg List.length e
        simp only [List.length_zipWith, List.length_nil] at this
        omega
      simp only [Except.bind, minR_of_ne_nil _ hne, eqArr_eq_zip xs ys hl]
  · rw [if_pos hl, eqArr_of_length_ne xs ys hl]

theorem cellsBranch_eq (s : List Nat) (xs ys : List EVal) (hx : s.contains 0 = true → xs = [])
    (hy : s.contains 0 = true → ys = []) (hl : xs.length = ys.length) :
    cellsBranch s s (.ok (List.zipWith eqN xs ys)) = .ok (eqArr xs ys) := by
  unfold cellsBranch
  cases h0 : s.contains 0 with
  | true =>
    rw [hx h0, hy h0]; rfl
  | false =>
    simp only [Bool.false_eq_true, if_false, veqShape_self s h0, Except.bind, Except.map,
      eqArr_eq_zip xs ys hl]

theorem dictBranch_eq (c d : Nat) (a b : List (String × EVal)) :
    dictBranch c d a b (.ok (List.zipWith (fun x y => eqN x.2 y.2) a b)) =
      .ok (c == d && eqKeys a b && eqVals a b) := by
  unfold dictBranch
  by_cases hcd : c = d
  · by_cases hl : a.length = b.length
    · rw [if_neg (by simp [hcd, hl])]
      by_cases h0 : a.length = 0
      · rw [if_pos h0]
        have hx : a = [] := List.length_eq_zero_iff.1 h0
        have hy : b = [] := List.length_eq_zero_iff.1 (hl ▸ h0)
        subst hx hy; simp [eqKeys, eqVals, hcd]
      · rw [if_neg h0]
        have ha : a ≠ [] := fun e => h0 (by rw [e]; rfl)
        have hb : b ≠ [] := fun e => h0 (by rw [hl, e]; rfl)
        simp only [unzipR_of_ne_nil a ha, unzipR_of_ne_nil b hb, Except.bind]
        by_cases hk : a.map (·.1) = b.map (·.1)
        · rw [if_neg (by simpa using hk)]
          have hkeys : eqKeys a b = true := (eqKeys_iff a b).2 hk
          -- the values: `seqBranch` on the value tuples
          have hne : List.zipWith (fun x y => eqN x.2 y.2) a b ≠ [] := by
            intro e
            have := congrArg List.length e
            simp only [List.length_zipWith, List.length_nil] at this
            omega
          unfold seqBranch
          simp only [List.length_map, hl, ne_eq, not_true_eq_false, if_false]
          rw [if_neg (by omega)]
          simp only [Except.bind, minR_of_ne_nil _ hne, eqVals_eq_zip a b hl, hkeys, hcd, beq_self_eq_true,
            Bool.true_and]
        · rw [if_pos (by simpa using hk)]
          have hkeys : eqKeys a b = false := by
            cases hb' : eqKeys a b with
            | false => rfl
            | true => exact absurd ((eqKeys_iff a b).1 hb') hk
          simp [hkeys]
    · rw [if_pos (Or.inr hl), eqKeys_of_length_ne a b hl]; simp
  · rw [if_pos (Or.inl hcd)]
    have : (c == d) = false := by simpa using hcd
    simp [this]

/-! ### `eqNR` computes `eqN` and takes no error branch -/

theorem length_eq_zero_nil {xs : List EVal} (h : xs.length = 0) : xs = [] := List.length_eq_zero_iff.1 h

mutual
  theorem eqNR_eq : ∀ (a b : EVal), a.sized = true → b.sized = true → eqNR a b = .ok (eqN a b)
    | .cell _, b, _, _ => by cases b <;> simp [eqNR, eqN]
    | .date _, b, _, _ => by cases b <;> simp [eqNR, eqN]
    | .tdelta _, b, _, _ => by cases b <;> simp [eqNR, eqN]
    | .cdelta _, b, _, _ => by cases b <;> simp [eqNR, eqN]
    | .fdt _, b, _, _ => by cases b <;> simp [eqNR, eqN]
    | .ftd _, b, _, _ => by cases b <;> simp [eqNR, eqN]
    | .index _, b, _, _ => by cases b <;> simp [eqNR, eqN]
    | .sub c xs, b, ha, hb => by
        cases b <;> try (simp [eqNR, eqN]; done)
        rename_i d ys
        simp only [EVal.sized] at ha hb
        simp only [eqNR, eqN, zipR_eq xs ys ha hb, seqBranch_eq]
        by_cases hcd : c = d
        · simp [hcd]
        · have : (c == d) = false := by simpa using hcd
          simp [hcd, this]
    | .nat, b, _, _ => by cases b <;> simp [eqNR, eqN]
    | .list xs, b, ha, hb => by
        cases b <;> try (simp [eqNR, eqN]; done)
        rename_i ys
        simp only [EVal.sized] at ha hb
        simp only [eqNR, eqN, zipR_eq xs ys ha hb, seqBranch_eq]
    | .tuple xs, b, ha, hb => by
        cases b <;> try (simp [eqNR, eqN]; done)
        rename_i ys
        simp only [EVal.sized] at ha hb
        simp only [eqNR, eqN, zipR_eq xs ys ha hb, seqBranch_eq]
    | .arr s xs, b, ha, hb => by
        cases b <;> try (simp [eqNR, eqN]; done)
        rename_i t ys
        simp only [EVal.sized, Bool.and_eq_true, beq_iff_eq] at ha hb
        simp only [eqNR, eqN, zipR_eq xs ys ha.2 hb.2, arrBranch]
        by_cases hst : s = t
        · subst hst
          simp only [ne_eq, not_true_eq_false, if_false, beq_self_eq_true, Bool.true_and]
          exact cellsBranch_eq s xs ys
            (fun h0 => length_eq_zero_nil (by rw [ha.1, shapeSize_zero s h0]))
            (fun h0 => length_eq_zero_nil (by rw [hb.1, shapeSize_zero s h0])) (by rw [ha.1, hb.1])
        · have : (s == t) = false := by simpa using hst
          simp [hst, this]
    | .series i xs, b, ha, hb => by
        cases b <;> try (simp [eqNR, eqN]; done)
        rename_i j ys
        simp only [EVal.sized, Bool.and_eq_true, beq_iff_eq] at ha hb
        simp only [eqNR, eqN, zipR_eq xs ys ha.2 hb.2]
        cases hi : idxEq i j with
        | false => simp
        | true =>
          have hij := idxEq_length i j hi
          simp only [Bool.not_true, Bool.false_eq_true, if_false, Bool.true_and, ← hij]
          have hz : ∀ h0 : [i.length].contains 0 = true, i.length = 0 := by
            intro h0
            simp only [List.contains_cons, List.contains_nil, Bool.or_false, beq_iff_eq] at h0
            exact h0.symm
          exact cellsBranch_eq [i.length] xs ys
            (fun h0 => length_eq_zero_nil (by rw [ha.1]; exact hz h0))
            (fun h0 => length_eq_zero_nil (by rw [hb.1, ← hij]; exact hz h0)) (by rw [ha.1, hb.1, hij])
    | .frame i c xs, b, ha, hb => by
        cases b <;> try (simp [eqNR, eqN]; done)
        rename_i j d ys
        simp only [EVal.sized, Bool.and_eq_true, beq_iff_eq] at ha hb
        simp only [eqNR, eqN, zipR_eq xs ys ha.2 hb.2]
        cases hi : idxEq i j with
        | false => simp
        | true =>
          cases hc : idxEq c d with
          | false => simp
          | true =>
            have hij := idxEq_length i j hi
            have hcd := idxEq_length c d hc
            simp only [Bool.not_true, Bool.false_eq_true, if_false, Bool.true_and, ← hij, ← hcd]
            have hz : ∀ h0 : [i.length, c.length].contains 0 = true, i.length * c.length = 0 := by
              intro h0
              simp only [List.contains_cons, List.contains_nil, Bool.or_false, Bool.or_eq_true, beq_iff_eq] at h0
              rcases h0 with h | h <;> simp [← h]
            exact cellsBranch_eq [i.length, c.length] xs ys
              (fun h0 => length_eq_zero_nil (by rw [ha.1]; exact hz h0))
              (fun h0 => length_eq_zero_nil (by rw [hb.1, ← hij, ← hcd]; exact hz h0))
              (by rw [ha.1, hb.1, hij, hcd])
    | .dict c a, b, ha, hb => by
        cases b <;> try (simp [eqNR, eqN]; done)
        rename_i d b
        simp only [EVal.sized] at ha hb
        simp only [eqNR, eqN, zipValsR_eq a b ha hb, dictBranch_eq]
  theorem zipR_eq : ∀ (xs ys : List EVal), EVal.sizedList xs = true → EVal.sizedList ys = true →
      zipR xs ys = .ok (List.zipWith eqN xs ys)
    | [], _, _, _ => by simp [zipR]
    | _ :: _, [], _, _ => by simp [zipR]
    | x :: xs, y :: ys, ha, hb => by
        simp only [EVal.sizedList, Bool.and_eq_true] at ha hb
        simp only [zipR, eqNR_eq x y ha.1 hb.1, zipR_eq xs ys ha.2 hb.2, Except.bind, Except.map,
          List.zipWith_cons_cons]
  theorem zipValsR_eq : ∀ (a b : List (String × EVal)), EVal.sizedKVs a = true → EVal.sizedKVs b = true →
      zipValsR a b = .ok (List.zipWith (fun x y => eqN x.2 y.2) a b)
    | [], _, _, _ => by simp [zipValsR]
    | _ :: _, [], _, _ => by simp [zipValsR]
    | x :: xs, y :: ys, ha, hb => by
        simp only [EVal.sizedKVs, Bool.and_eq_true] at ha hb
        simp only [zipValsR, eqNR_eq x.2 y.2 ha.1 hb.1, zipValsR_eq xs ys ha.2 hb.2, Except.bind, Except.map,
          List.zipWith_cons_cons]
end

/-! ### no error branch is ever taken — for ALL values, well-shaped or not -/

theorem seqBranch_total (n m : Nat) (bs : List Bool) (h : bs.length = min n m) :
    ∃ v, seqBranch n m (.ok bs) = .ok v := by
  unfold seqBranch
  by_cases hl : n = m
  · rw [if_neg (by simpa using hl)]
    by_cases h0 : n = 0
    · rw [if_pos h0]; exact ⟨_, rfl⟩
    · rw [if_neg h0]
      have hne : bs ≠ [] := by
        intro e; rw [e] at h; simp only [List.length_nil] at h; omega
      simp only [Except.bind, minR_of_ne_nil _ hne]; exact ⟨_, rfl⟩
  · rw [if_pos hl]; exact ⟨_, rfl⟩

theorem cellsBranch_total (s : List Nat) (bs : List Bool) : ∃ v, cellsBranch s s (.ok bs) = .ok v := by
  unfold cellsBranch
  cases h0 : s.contains 0 with
  | true => exact ⟨_, rfl⟩
  | false =>
    simp only [Bool.false_eq_true, if_false, veqShape_self s h0, Except.bind, Except.map]; exact ⟨_, rfl⟩

theorem arrBranch_total (s t : List Nat) (bs : List Bool) : ∃ v, arrBranch s t (.ok bs) = .ok v := by
  unfold arrBranch
  by_cases hst : s = t
  · subst hst; rw [if_neg (by simp)]; exact cellsBranch_total s bs
  · rw [if_pos hst]; exact ⟨_, rfl⟩

theorem dictBranch_total {α} (c d : Nat) (a b : List (String × α)) (bs : List Bool)
    (h : bs.length = min a.length b.length) : ∃ v, dictBranch c d a b (.ok bs) = .ok v := by
  unfold dictBranch
  by_cases hg : c ≠ d ∨ a.length ≠ b.length
  · rw [if_pos hg]; exact ⟨_, rfl⟩
  · rw [if_neg hg]
    by_cases h0 : a.length = 0
    · rw [if_pos h0]; exact ⟨_, rfl⟩
    · rw [if_neg h0]
      have hl : a.length = b.length := by
        by_cases hl : a.length = b.length
        · exact hl
        · exact absurd (Or.inr hl) hg
      have ha : a ≠ [] := fun e => h0 (by rw [e]; rfl)
      have hb : b ≠ [] := fun e => h0 (by rw [hl, e]; rfl)
      simp only [unzipR_of_ne_nil a ha, unzipR_of_ne_nil b hb, Except.bind]
      by_cases hk : a.map (·.1) = b.map (·.1)
      · rw [if_neg (by simpa using hk)]
        exact seqBranch_total _ _ bs (by simpa using h)
      · rw [if_pos (by simpa using hk)]; exact ⟨_, rfl⟩

mutual
  theorem eqNR_total : ∀ (a b : EVal), ∃ v, eqNR a b = .ok v
    | .cell _, b => by cases b <;> (simp only [eqNR]; exact ⟨_, rfl⟩)
    | .date _, b => by cases b <;> (simp only [eqNR]; exact ⟨_, rfl⟩)
    | .tdelta _, b => by cases b <;> (simp only [eqNR]; exact ⟨_, rfl⟩)
    | .cdelta _, b => by cases b <;> (simp only [eqNR]; exact ⟨_, rfl⟩)
    | .fdt _, b => by cases b <;> (simp only [eqNR]; exact ⟨_, rfl⟩)
    | .ftd _, b => by cases b <;> (simp only [eqNR]; exact ⟨_, rfl⟩)
    | .index _, b => by cases b <;> (simp only [eqNR]; exact ⟨_, rfl⟩)
    | .sub c xs, b => by
        cases b <;> try (simp only [eqNR]; exact ⟨_, rfl⟩; done)
        rename_i d ys
        obtain ⟨bs, hz, hl⟩ := zipR_total xs ys
        simp only [eqNR, hz]
        by_cases hcd : c = d
        · rw [if_neg (by simpa using hcd)]; exact seqBranch_total _ _ bs hl
        · rw [if_pos (by simpa using hcd)]; exact ⟨_, rfl⟩
    | .nat, b => by cases b <;> (simp only [eqNR]; exact ⟨_, rfl⟩)
    | .list xs, b => by
        cases b <;> try (simp only [eqNR]; exact ⟨_, rfl⟩; done)
        rename_i ys
        obtain ⟨bs, hz, hl⟩ := zipR_total xs ys
        simp only [eqNR, hz]; exact seqBranch_total _ _ bs hl
    | .tuple xs, b => by
        cases b <;> try (simp only [eqNR]; exact ⟨_, rfl⟩; done)
        rename_i ys
        obtain ⟨bs, hz, hl⟩ := zipR_total xs ys
        simp only [eqNR, hz]; exact seqBranch_total _ _ bs hl
    | .arr s xs, b => by
        cases b <;> try (simp only [eqNR]; exact ⟨_, rfl⟩; done)
        rename_i t ys
        obtain ⟨bs, hz, _⟩ := zipR_total xs ys
        simp only [eqNR, hz]; exact arrBranch_total s t bs
    | .series i xs, b => by
        cases b <;> try (simp only [eqNR]; exact ⟨_, rfl⟩; done)
        rename_i j ys
        obtain ⟨bs, hz, _⟩ := zipR_total xs ys
        simp only [eqNR, hz]
        cases hi : idxEq i j with
        | false => exact ⟨false, by simp⟩
        | true =>
          simp only [Bool.not_true, Bool.false_eq_true, if_false, ← idxEq_length i j hi]
          exact cellsBranch_total _ bs
    | .frame i c xs, b => by
        cases b <;> try (simp only [eqNR]; exact ⟨_, rfl⟩; done)
        rename_i j d ys
        obtain ⟨bs, hz, _⟩ := zipR_total xs ys
        simp only [eqNR, hz]
        cases hi : idxEq i j with
        | false => exact ⟨false, by simp⟩
        | true =>
          cases hc : idxEq c d with
          | false => exact ⟨false, by simp⟩
          | true =>
            simp only [Bool.not_true, Bool.false_eq_true, if_false, ← idxEq_length i j hi, ← idxEq_length c d hc]
            exact cellsBranch_total _ bs
    | .dict c a, b => by
        cases b <;> try (simp only [eqNR]; exact ⟨_, rfl⟩; done)
        rename_i d b
        obtain ⟨bs, hz, hl⟩ := zipValsR_total a b
        simp only [eqNR, hz]; exact dictBranch_total c d a b bs hl
  theorem zipR_total : ∀ (xs ys : List EVal), ∃ bs, zipR xs ys = .ok bs ∧ bs.length = min xs.length ys.length
    | [], _ => ⟨[], by simp [zipR], by simp⟩
    | _ :: _, [] => ⟨[], by simp [zipR], by simp⟩
    | x :: xs, y :: ys => by
        obtain ⟨v, hv⟩ := eqNR_total x y
        obtain ⟨bs, hz, hl⟩ := zipR_total xs ys
        refine ⟨v :: bs, by simp only [zipR, hv, hz, Except.bind, Except.map], ?_⟩
        simp only [List.length_cons, hl]; omega
  theorem zipValsR_total : ∀ (a b : List (String × EVal)),
      ∃ bs, zipValsR a b = .ok bs ∧ bs.length = min a.length b.length
    | [], _ => ⟨[], by simp [zipValsR], by simp⟩
    | _ :: _, [] => ⟨[], by simp [zipValsR], by simp⟩
    | x :: xs, y :: ys => by
        obtain ⟨v, hv⟩ := eqNR_total x.2 y.2
        obtain ⟨bs, hz, hl⟩ := zipValsR_total xs ys
        refine ⟨v :: bs, by simp only [zipValsR, hv, hz, Except.bind, Except.map], ?_⟩
        simp only [List.length_cons, hl]; omega
end

end Pyg
