/-
  C04 (defect C04-D6): the `dialect` argument is a string.  `dialectOf` (the model of `dialect.lower() == 'uk'`) against the
  ENUMERATION of the spellings: it answers UK exactly on `uk UK Uk uK`, US exactly on `us US Us uS`, and nothing else is a dialect.
-/
import PygModel.DateParse
namespace Pyg.DateParse

theorem toLower_eq_iff (c l : Char) (hl : 97 ≤ l.val.toNat ∧ l.val.toNat ≤ 122) :
    c.toLower = l ↔ c = l ∨ c.val.toNat + 32 = l.val.toNat := by
  have hc := c.valid
  unfold Char.toLower
  constructor
  · intro h
    split at h
    · right
      have := congrArg (fun x => x.val.toNat) h
      simp only [UInt32.toNat_add] at this
      rename_i hh
      have h1 : c.val.toNat ≤ 90 := by simpa using UInt32.le_iff_toNat_le.mp hh.2
      have e : ('a'.val - 'A'.val).toNat = 32 := by decide
      rw [e] at this
      omega
    · left; exact h
  · rintro (h | h)
    · subst h
      have : ¬ (c.val ≥ 'A'.val ∧ c.val ≤ 'Z'.val) := by
        rintro ⟨_, h2⟩
        have h1 : c.val.toNat ≤ 90 := by simpa using UInt32.le_iff_toNat_le.mp h2
        omega
      rw [dif_neg this]
    · have h1 : c.val ≥ 'A'.val ∧ c.val ≤ 'Z'.val := by
        constructor
        · apply UInt32.le_iff_toNat_le.mpr; show 65 ≤ c.val.toNat; omega
        · apply UInt32.le_iff_toNat_le.mpr; show c.val.toNat ≤ 90; omega
      rw [dif_pos h1]
      apply Char.ext
      apply UInt32.toNat_inj.mp
      simp only [UInt32.toNat_add]
      have e : ('a'.val - 'A'.val).toNat = 32 := by decide
      rw [e]; omega

theorem toLower_eq_of (c l u : Char) (hl : 97 ≤ l.val.toNat ∧ l.val.toNat ≤ 122) (hu : u.val.toNat + 32 = l.val.toNat) :
    c.toLower = l ↔ c = l ∨ c = u := by
  rw [toLower_eq_iff c l hl]
  constructor
  · rintro (h | h)
    · exact Or.inl h
    · exact Or.inr (Char.ext (UInt32.toNat_inj.mp (by omega)))
  · rintro (h | h)
    · exact Or.inl h
    · subst h; exact Or.inr hu

theorem two_letters (d : String) (a b : Char) (A B : Char)
    (ha : 97 ≤ a.val.toNat ∧ a.val.toNat ≤ 122) (hA : A.val.toNat + 32 = a.val.toNat)
    (hb : 97 ≤ b.val.toNat ∧ b.val.toNat ≤ 122) (hB : B.val.toNat + 32 = b.val.toNat) :
    d.toList.map Char.toLower = [a, b] ↔ d ∈ [String.ofList [a, b], String.ofList [A, B], String.ofList [A, b], String.ofList [a, B]] := by
  constructor
  · intro h
    match hd : d.toList, h with
    | [x, y], h =>
      simp only [List.map_cons, List.map_nil, List.cons.injEq, and_true] at h
      rw [toLower_eq_of x a A ha hA, toLower_eq_of y b B hb hB] at h
      have e : d = String.ofList [x, y] := by rw [← hd, String.ofList_toList]
      rcases h with ⟨h1 | h1, h2 | h2⟩ <;> subst h1 <;> subst h2 <;> simp [e]
  · intro h
    simp only [List.mem_cons, List.not_mem_nil, or_false] at h
    rcases h with h | h | h | h <;> subst h <;> simp only [String.toList_ofList, List.map_cons, List.map_nil, List.cons.injEq, and_true]
      <;> rw [toLower_eq_of _ a A ha hA, toLower_eq_of _ b B hb hB] <;> simp

theorem dialectOf_eq (d : String) :
    (dialectOf d = some true ↔ d.toList.map Char.toLower = ['u', 'k']) ∧ (dialectOf d = some false ↔ d.toList.map Char.toLower = ['u', 's']) := by
  unfold dialectOf
  by_cases h1 : d.toList.map Char.toLower = ['u', 'k']
  · simp [h1]
  · by_cases h2 : d.toList.map Char.toLower = ['u', 's'] <;> simp [h1, h2]

theorem dialectOf_uk_iff (d : String) : dialectOf d = some true ↔ d ∈ ["uk", "UK", "Uk", "uK"] := by
  rw [(dialectOf_eq d).1, two_letters d 'u' 'k' 'U' 'K' (by decide) (by decide) (by decide) (by decide)]

theorem dialectOf_us_iff (d : String) : dialectOf d = some false ↔ d ∈ ["us", "US", "Us", "uS"] := by
  rw [(dialectOf_eq d).2, two_letters d 'u' 's' 'U' 'S' (by decide) (by decide) (by decide) (by decide)]

end Pyg.DateParse
