/-
  Helper lemmas for C10 (round i3): the business-day branch of `drange` — "every k-th weekday of the daily grid"
  (`rrule(DAILY)` filtered by `weekday() < 5`, then `[::k]`) — is, from a WEEKDAY `t0`, the iteration of
  `dt_bump(·, 'kb')` (closed-form offset `bOff`).  The bridge is the recurrence of `bOff` along the weekdays:
  the `(m+1)`-th weekday after a weekday is the `m`-th weekday after the next weekday.
-/
import PygModel.DRange
import PygProofs.Lemmas.DRangeLemmas

namespace Pyg.DRange
open Pyg

/-- the weekday test of the `'kb'` branch (`t.weekday() < 5`) -/
def isWd (t : Int) : Bool := decide (wdT t < 5)

theorem stride_one {α} : ∀ l : List α, strideGo 1 l 0 = l
  | [] => rfl
  | x :: xs => by show x :: strideGo 1 xs (1 - 1) = x :: xs; rw [stride_one xs]

theorem wdT_add_day (t : Int) : wdT (t + DAY) = (wdT t + 1) % 7 := by unfold wdT DAY; omega
theorem wdT_sub_day (t : Int) : wdT (t - DAY) = (wdT t + 6) % 7 := by unfold wdT DAY; omega

theorem bOff_zero (w : Int) (hw : w < 5) : bOff w 0 = 0 := by
  unfold bOff; simp only []; split <;> split <;> omega

/-- forward recurrence: from Monday..Thursday the next weekday is tomorrow -/
theorem bOff_succ (w m : Int) (hw : 0 ≤ w ∧ w < 4) (_hm : 0 ≤ m) : bOff w (m + 1) = 1 + bOff (w + 1) m := by
  unfold bOff; simp only []
  split <;> split <;> split <;> split <;> omega

/-- … from Friday it is Monday, three days on -/
theorem bOff_succ_fri (m : Int) (_hm : 0 ≤ m) : bOff 4 (m + 1) = 3 + bOff 0 m := by
  unfold bOff; simp only []
  split <;> split <;> split <;> split <;> omega

/-- backward recurrence: from Tuesday..Friday the previous weekday is yesterday -/
theorem bOff_pred (w m : Int) (hw : 1 ≤ w ∧ w < 5) (_hm : m ≤ 0) : bOff w (m - 1) = -1 + bOff (w - 1) m := by
  unfold bOff; simp only []
  split <;> split <;> split <;> split <;> omega

/-- … from Monday it is Friday, three days back -/
theorem bOff_pred_mon (m : Int) (_hm : m ≤ 0) : bOff 0 (m - 1) = -3 + bOff 4 m := by
  unfold bOff; simp only []
  split <;> split <;> split <;> split <;> omega

theorem bOff_nonneg (w m : Int) (hw : 0 ≤ w ∧ w < 5) (hm : 0 ≤ m) : 0 ≤ bOff w m := by
  unfold bOff; simp only []; split <;> split <;> omega

theorem bOff_nonpos (w m : Int) (hw : 0 ≤ w ∧ w < 5) (hm : m ≤ 0) : bOff w m ≤ 0 := by
  unfold bOff; simp only []; split <;> split <;> omega

/-- the step of `dt_bump(·, 'kb')` -/
def bStep (k : Int) (x : Int) : Int := x + DAY * bOff (wdT x) k

theorem dtBump_b (k : Int) : dtBump [(k, Per.b)] = bStep k := by
  funext x; simp [dtBump, bump1, bStep]

theorem bStep_inc (k : Int) (hk : 1 ≤ k) (x : Int) : x < bStep k x := by
  have := bOff_pos (wdT x) k (wdT_range x) hk
  unfold bStep DAY; omega

theorem bStep_dec (k : Int) (hk : k ≤ -1) (x : Int) : bStep k x < x := by
  have := bOff_neg (wdT x) k (wdT_range x) hk
  unfold bStep DAY; omega

/-- a weekend day at the head of the daily grid is filtered away -/
theorem filter_daily_skip (s t1 : Int) (hs : ¬ wdT s < 5) :
    (daily s t1).filter isWd = (daily (s + DAY) t1).filter isWd := by
  have hinc1 : ∀ t : Int, t < t + DAY := by intro t; unfold DAY; omega
  unfold daily
  rw [upTo_unfold _ hinc1 s t1]
  split
  · simp [isWd, hs]
  · rw [upTo_unfold _ hinc1 (s + DAY) t1]
    have : ¬ s + DAY ≤ t1 := by unfold DAY; omega
    simp [this]

/-- a weekday at the head is kept -/
theorem filter_daily_keep (s t1 : Int) (hs : wdT s < 5) (hle : s ≤ t1) :
    (daily s t1).filter isWd = s :: (daily (s + DAY) t1).filter isWd := by
  have hinc1 : ∀ t : Int, t < t + DAY := by intro t; unfold DAY; omega
  unfold daily
  rw [upTo_unfold _ hinc1 s t1]
  simp [hle, isWd, hs]

theorem filter_daily_past (s t1 : Int) (h : t1 < s) : (daily s t1).filter isWd = [] := by
  have hinc1 : ∀ t : Int, t < t + DAY := by intro t; unfold DAY; omega
  unfold daily
  rw [upTo_unfold _ hinc1 s t1]
  have : ¬ s ≤ t1 := by omega
  simp [this]

/-- every k-th weekday of the daily grid from a weekday `t`, after skipping `j` of them, is the `dt_bump 'kb'` iteration
started at the `j`-th weekday after `t` -/
theorem strideGo_weekdays (k : Nat) (hk : 1 ≤ k) (t1 : Int) :
    ∀ (n : Nat) (t : Int) (j : Nat), (t1 + 1 - t).toNat ≤ n → wdT t < 5 →
      strideGo k ((daily t t1).filter isWd) j = upTo (bStep k) (t + DAY * bOff (wdT t) j) t1 := by
  have hinc := bStep_inc (k : Int) (by omega)
  intro n
  induction n with
  | zero =>
    intro t j hn hw
    have hr := wdT_range t
    have h0 := bOff_nonneg (wdT t) j ⟨hr.1, hw⟩ (by omega)
    rw [filter_daily_past t t1 (by omega), strideGo_nil, upTo_unfold _ hinc]
    have : ¬ t + DAY * bOff (wdT t) j ≤ t1 := by unfold DAY; omega
    simp [this]
  | succ n ih =>
    intro t j hn hw
    have hr := wdT_range t
    by_cases hle : t ≤ t1
    · -- the rest of the weekday list starts at the next weekday `nw`
      have hrest : ∃ nw, (daily (t + DAY) t1).filter isWd = (daily nw t1).filter isWd ∧ t < nw ∧ wdT nw < 5 ∧
          ∀ m : Int, 0 ≤ m → nw + DAY * bOff (wdT nw) m = t + DAY * bOff (wdT t) (m + 1) := by
        by_cases h4 : wdT t < 4
        · refine ⟨t + DAY, rfl, by unfold DAY; omega, by rw [wdT_add_day]; omega, fun m hm => ?_⟩
          have e : wdT (t + DAY) = wdT t + 1 := by rw [wdT_add_day]; omega
          rw [e, bOff_succ (wdT t) m ⟨hr.1, h4⟩ hm]; unfold DAY; omega
        · have e4 : wdT t = 4 := by omega
          have e5 : wdT (t + DAY) = 5 := by rw [wdT_add_day]; omega
          have e6 : wdT (t + DAY + DAY) = 6 := by rw [wdT_add_day, e5]; rfl
          have e0 : wdT (t + DAY + DAY + DAY) = 0 := by rw [wdT_add_day, e6]; rfl
          refine ⟨t + DAY + DAY + DAY, ?_, by unfold DAY; omega, by omega, fun m hm => ?_⟩
          · rw [filter_daily_skip (t + DAY) t1 (by omega), filter_daily_skip (t + DAY + DAY) t1 (by omega)]
          · rw [e0, e4, bOff_succ_fri m hm]; unfold DAY; omega
      obtain ⟨nw, er, hlt, hwn, hrec⟩ := hrest
      rw [filter_daily_keep t t1 hw hle, er]
      cases j with
      | zero =>
        show t :: strideGo k _ (k - 1) = _
        rw [ih nw (k - 1) (by omega) hwn]
        have e0 : t + DAY * bOff (wdT t) ((0 : Nat) : Int) = t := by
          rw [show ((0 : Nat) : Int) = 0 from rfl, bOff_zero _ hw]; omega
        rw [e0, upTo_unfold _ hinc t t1]
        simp only [hle, if_true]
        have := hrec ((k - 1 : Nat) : Int) (by omega)
        rw [this, show (((k - 1 : Nat) : Int) + 1) = (k : Int) by omega]
        rfl
      | succ j =>
        show strideGo k _ j = _
        rw [ih nw j (by omega) hwn, hrec (j : Int) (by omega)]
        rw [show ((j : Int) + 1) = ((j + 1 : Nat) : Int) by omega]
    · have h0 := bOff_nonneg (wdT t) j ⟨hr.1, hw⟩ (by omega)
      rw [filter_daily_past t t1 (by omega), strideGo_nil, upTo_unfold _ hinc]
      have : ¬ t + DAY * bOff (wdT t) j ≤ t1 := by unfold DAY; omega
      simp [this]

/-! ### the mirror image: the daily grid read backwards -/

/-- the backward daily iteration `t, t - 1 day, …` down to `lo` -/
def dailyDown (t lo : Int) : List Int := downTo (· - DAY) t lo

theorem filter_dailyDown_skip (s lo : Int) (hs : ¬ wdT s < 5) :
    (dailyDown s lo).filter isWd = (dailyDown (s - DAY) lo).filter isWd := by
  have hdec1 : ∀ t : Int, t - DAY < t := by intro t; unfold DAY; omega
  unfold dailyDown
  rw [downTo_unfold _ hdec1 s lo]
  split
  · simp [isWd, hs]
  · rw [downTo_unfold _ hdec1 (s - DAY) lo]
    have : ¬ s - DAY ≥ lo := by unfold DAY; omega
    simp [this]

theorem filter_dailyDown_keep (s lo : Int) (hs : wdT s < 5) (hle : lo ≤ s) :
    (dailyDown s lo).filter isWd = s :: (dailyDown (s - DAY) lo).filter isWd := by
  have hdec1 : ∀ t : Int, t - DAY < t := by intro t; unfold DAY; omega
  unfold dailyDown
  rw [downTo_unfold _ hdec1 s lo]
  have : s ≥ lo := hle
  simp [this, isWd, hs]

theorem filter_dailyDown_past (s lo : Int) (h : s < lo) : (dailyDown s lo).filter isWd = [] := by
  have hdec1 : ∀ t : Int, t - DAY < t := by intro t; unfold DAY; omega
  unfold dailyDown
  rw [downTo_unfold _ hdec1 s lo]
  have : ¬ s ≥ lo := by omega
  simp [this]

/-- every k-th weekday of the backward daily grid from a weekday `t`, after skipping `j`, is the `dt_bump '-kb'` iteration
started at the `j`-th weekday before `t` -/
theorem strideGo_weekdays_down (k : Nat) (hk : 1 ≤ k) (lo : Int) :
    ∀ (n : Nat) (t : Int) (j : Nat), (t + 1 - lo).toNat ≤ n → wdT t < 5 →
      strideGo k ((dailyDown t lo).filter isWd) j = downTo (bStep (-(k : Int))) (t + DAY * bOff (wdT t) (-(j : Int))) lo := by
  have hdec := bStep_dec (-(k : Int)) (by omega)
  intro n
  induction n with
  | zero =>
    intro t j hn hw
    have hr := wdT_range t
    have h0 := bOff_nonpos (wdT t) (-(j : Int)) ⟨hr.1, hw⟩ (by omega)
    rw [filter_dailyDown_past t lo (by omega), strideGo_nil, downTo_unfold _ hdec]
    have : ¬ t + DAY * bOff (wdT t) (-(j : Int)) ≥ lo := by unfold DAY; omega
    simp [this]
  | succ n ih =>
    intro t j hn hw
    have hr := wdT_range t
    by_cases hle : lo ≤ t
    · have hrest : ∃ pw, (dailyDown (t - DAY) lo).filter isWd = (dailyDown pw lo).filter isWd ∧ pw < t ∧ wdT pw < 5 ∧
          ∀ m : Int, m ≤ 0 → pw + DAY * bOff (wdT pw) m = t + DAY * bOff (wdT t) (m - 1) := by
        by_cases h1 : 1 ≤ wdT t
        · refine ⟨t - DAY, rfl, by unfold DAY; omega, by rw [wdT_sub_day]; omega, fun m hm => ?_⟩
          have e : wdT (t - DAY) = wdT t - 1 := by rw [wdT_sub_day]; omega
          rw [e, bOff_pred (wdT t) m ⟨h1, hw⟩ hm]; unfold DAY; omega
        · have e0 : wdT t = 0 := by omega
          have e6 : wdT (t - DAY) = 6 := by rw [wdT_sub_day, e0]; rfl
          have e5 : wdT (t - DAY - DAY) = 5 := by rw [wdT_sub_day, e6]; rfl
          have e4 : wdT (t - DAY - DAY - DAY) = 4 := by rw [wdT_sub_day, e5]; rfl
          refine ⟨t - DAY - DAY - DAY, ?_, by unfold DAY; omega, by omega, fun m hm => ?_⟩
          · rw [filter_dailyDown_skip (t - DAY) lo (by omega), filter_dailyDown_skip (t - DAY - DAY) lo (by omega)]
          · rw [e4, e0, bOff_pred_mon m hm]; unfold DAY; omega
      obtain ⟨pw, er, hlt, hwn, hrec⟩ := hrest
      rw [filter_dailyDown_keep t lo hw hle, er]
      cases j with
      | zero =>
        show t :: strideGo k _ (k - 1) = _
        rw [ih pw (k - 1) (by omega) hwn]
        have e0 : t + DAY * bOff (wdT t) (-((0 : Nat) : Int)) = t := by
          rw [show (-((0 : Nat) : Int)) = 0 from rfl, bOff_zero _ hw]; omega
        rw [e0, downTo_unfold _ hdec t lo]
        have hge : t ≥ lo := hle
        simp only [hge, if_true]
        have := hrec (-((k - 1 : Nat) : Int)) (by omega)
        rw [this, show (-((k - 1 : Nat) : Int) - 1) = -(k : Int) by omega]
        rfl
      | succ j =>
        show strideGo k _ j = _
        rw [ih pw j (by omega) hwn, hrec (-(j : Int)) (by omega)]
        rw [show (-(j : Int) - 1) = -((j + 1 : Nat) : Int) by omega]
    · have h0 := bOff_nonpos (wdT t) (-(j : Int)) ⟨hr.1, hw⟩ (by omega)
      rw [filter_dailyDown_past t lo (by omega), strideGo_nil, downTo_unfold _ hdec]
      have : ¬ t + DAY * bOff (wdT t) (-(j : Int)) ≥ lo := by unfold DAY; omega
      simp [this]

end Pyg.DRange
