/-
  C04: the month-name spellings pass `strip` and `squeeze` unchanged, so the theorems about `dtCs` (the text after
  `t.strip()` and the blank handling) are theorems about `dtStr`, the model of `dt(<string>)`.
-/
import PygProofs.Lemmas.MonthNameLemmas
import PygProofs.Lemmas.SqueezeLemmas

namespace Pyg.DateParse
open Pyg Pyg.Bump Pyg.Gen

theorem plain_of_alpha (c : Char) (h : c.isAlpha = true) : Plain c := by
  refine ⟨?_, ?_, ?_⟩ <;> rintro rfl <;> exact absurd h (by decide)

theorem notWs_of_digit (c : Char) (h : c.isDigit = true) : isWs c = false := by
  cases hw : isWs c with
  | false => rfl
  | true =>
    simp only [isWs, Bool.or_eq_true, decide_eq_true_eq] at hw
    rcases hw with ((((rfl | rfl) | rfl) | rfl) | rfl) | rfl <;> exact absurd h (by decide)

theorem notWs_of_alpha (c : Char) (h : c.isAlpha = true) : isWs c = false := by
  cases hw : isWs c with
  | false => rfl
  | true =>
    simp only [isWs, Bool.or_eq_true, decide_eq_true_eq] at hw
    rcases hw with ((((rfl | rfl) | rfl) | rfl) | rfl) | rfl <;> exact absurd h (by decide)

theorem dropWhile_head (p : Char → Bool) (l : List Char) (h : ∀ c, l.head? = some c → p c = false) : l.dropWhile p = l := by
  cases l with
  | nil => rfl
  | cons c r => simp [h c rfl]

/-- a text that neither starts nor ends with white space is its own `strip` -/
theorem strip_ends (cs : List Char) (hh : ∀ c, cs.head? = some c → isWs c = false) (hl : ∀ c, cs.getLast? = some c → isWs c = false) :
    strip cs = cs := by
  unfold strip
  rw [dropWhile_head _ cs hh, dropWhile_head _ cs.reverse (by rw [List.head?_reverse]; exact hl), List.reverse_reverse]

/-- one blank, then a run of plain characters -/
theorem squeezeGo_blank_plain (c : Char) (ds rest : List Char) (h : ∀ x ∈ c :: ds, Plain x) :
    squeezeGo false false (' ' :: (c :: ds ++ rest)) = ' ' :: (c :: ds ++ squeezeGo false false rest) := by
  have := squeezeGo_blanks false false [' '] (c :: ds ++ rest) (by simp)
  simp only [List.cons_append, List.nil_append] at this
  rw [List.cons_append, this, ← List.cons_append, squeezeGo_plain false _ c ds rest h]
  simp

/-- a dash, then a run of plain characters -/
theorem squeezeGo_dash_plain (c : Char) (ds rest : List Char) (h : ∀ x ∈ c :: ds, Plain x) :
    squeezeGo false false ('-' :: (c :: ds ++ rest)) = '-' :: (c :: ds ++ squeezeGo false false rest) := by
  rw [squeezeGo_sep false false '-' _ (Or.inr rfl), squeezeGo_plain true false c ds rest h]
  simp

theorem IsNumeral.plain {k : Nat} {cs : List Char} (h : IsNumeral k cs) : ∀ x ∈ cs, Plain x := fun x hx => plain_of_digit x (h.2.2 x hx)

theorem IsMonthName.plain {m : Nat} {w : List Char} (h : IsMonthName m w) : ∀ x ∈ w, Plain x := fun x hx => plain_of_alpha x (h.2.2.1 x hx)

theorem getLast?_append_ne (l l' : List Char) (h : l' ≠ []) : (l ++ l').getLast? = l'.getLast? := by
  rw [List.getLast?_append]
  cases l' with
  | nil => exact absurd rfl h
  | cons a r => rw [List.getLast?_cons]; rfl

/-- the last character of `x ++ tm` is a digit when `x` ends in one: a time suffix ends in a digit -/
theorem TimeText.last_digit {tm : List Char} {a b : Int} (h : TimeText tm a b) (x : List Char)
    (hx : ∀ c, x.getLast? = some c → c.isDigit = true) : ∀ c, (x ++ tm).getLast? = some c → c.isDigit = true := by
  have num : ∀ k (cs pre : List Char), IsNumeral k cs → ∀ c, (pre ++ cs).getLast? = some c → c.isDigit = true := by
    intro k cs pre hn c hc
    rw [getLast?_append_ne _ _ hn.1] at hc
    exact hn.2.2 c (List.mem_of_getLast? hc)
  cases h with
  | none => simpa using hx
  | hm l hh mm _ _ h2 _ _ =>
    intro c hc
    have e : x ++ l :: (hh ++ ':' :: mm) = (x ++ l :: (hh ++ [':'])) ++ mm := by simp
    rw [e] at hc; exact num 2 mm _ h2 c hc
  | hms l hh mm ss _ _ _ h3 _ _ _ =>
    intro c hc
    have e : x ++ l :: (hh ++ ':' :: (mm ++ ':' :: ss)) = (x ++ l :: (hh ++ ':' :: (mm ++ [':']))) ++ ss := by simp
    rw [e] at hc; exact num 2 ss _ h3 c hc
  | frac l hh mm ss fr _ _ _ _ h4 _ _ _ =>
    intro c hc
    have e : x ++ l :: (hh ++ ':' :: (mm ++ ':' :: (ss ++ '.' :: fr))) = (x ++ l :: (hh ++ ':' :: (mm ++ ':' :: (ss ++ ['.'])))) ++ fr := by simp
    rw [e] at hc; exact num 6 fr _ h4 c hc

theorem IsNumeral.last_digit {k : Nat} {cs : List Char} (h : IsNumeral k cs) (pre : List Char) :
    ∀ c, (pre ++ cs).getLast? = some c → c.isDigit = true := by
  intro c hc
  rw [getLast?_append_ne _ _ h.1] at hc
  exact h.2.2 c (List.mem_of_getLast? hc)

/-- `d<s>Mon<s>yyyy[ time]`, `s` a blank or a dash: unchanged by `strip` and `squeeze` -/
theorem clean_dMy (m : Nat) (dd w yy tm : List Char) (s : Char) (hms us : Int) (hs : s = ' ' ∨ s = '-') (hd : IsNumeral 2 dd)
    (hw : IsMonthName m w) (hy : IsNumeral 4 yy) (ht : TimeText tm hms us) :
    squeeze (strip (dd ++ s :: (w ++ s :: (yy ++ tm)))) = dd ++ s :: (w ++ s :: (yy ++ tm)) := by
  have hst : strip (dd ++ s :: (w ++ s :: (yy ++ tm))) = dd ++ s :: (w ++ s :: (yy ++ tm)) := by
    apply strip_ends
    · intro c hc
      cases dd with
      | nil => exact absurd rfl hd.1
      | cons d0 ds => simp only [List.cons_append, List.head?_cons, Option.some.injEq] at hc; subst hc; exact notWs_of_digit _ (hd.2.2 _ (by simp))
    · intro c hc
      have e : dd ++ s :: (w ++ s :: (yy ++ tm)) = (dd ++ s :: (w ++ [s]) ++ yy) ++ tm := by simp
      rw [e] at hc
      exact notWs_of_digit c (ht.last_digit _ (hy.last_digit _) c hc)
  rw [hst]; unfold squeeze
  obtain ⟨c, cs, rfl⟩ : ∃ c cs, w = c :: cs := by
    cases w with
    | nil => exact absurd rfl hw.2.1
    | cons c cs => exact ⟨c, cs, rfl⟩
  obtain ⟨y0, ys, rfl⟩ : ∃ c cs, yy = c :: cs := by
    cases yy with
    | nil => exact absurd rfl hy.1
    | cons c cs => exact ⟨c, cs, rfl⟩
  rw [squeezeGo_plain_run dd _ hd.plain]
  rcases hs with rfl | rfl
  · rw [squeezeGo_blank_plain c cs _ hw.plain, squeezeGo_blank_plain y0 ys _ hy.plain, ht.squeeze_id]
  · rw [squeezeGo_dash_plain c cs _ hw.plain, squeezeGo_dash_plain y0 ys _ hy.plain, ht.squeeze_id]

/-- `Mon d, yyyy[ time]` -/
theorem clean_Mdy_comma (m : Nat) (dd w yy tm : List Char) (hms us : Int) (hd : IsNumeral 2 dd)
    (hw : IsMonthName m w) (hy : IsNumeral 4 yy) (ht : TimeText tm hms us) :
    squeeze (strip (w ++ ' ' :: (dd ++ ',' :: ' ' :: (yy ++ tm)))) = w ++ ' ' :: (dd ++ ',' :: ' ' :: (yy ++ tm)) := by
  have hst : strip (w ++ ' ' :: (dd ++ ',' :: ' ' :: (yy ++ tm))) = w ++ ' ' :: (dd ++ ',' :: ' ' :: (yy ++ tm)) := by
    apply strip_ends
    · intro c hc
      cases w with
      | nil => exact absurd rfl hw.2.1
      | cons d0 ds => simp only [List.cons_append, List.head?_cons, Option.some.injEq] at hc; subst hc; exact notWs_of_alpha _ (hw.2.2.1 _ (by simp))
    · intro c hc
      have e : w ++ ' ' :: (dd ++ ',' :: ' ' :: (yy ++ tm)) = (w ++ ' ' :: (dd ++ [',', ' ']) ++ yy) ++ tm := by simp
      rw [e] at hc
      exact notWs_of_digit c (ht.last_digit _ (hy.last_digit _) c hc)
  rw [hst]; unfold squeeze
  obtain ⟨d0, ds, rfl⟩ : ∃ c cs, dd = c :: cs := by
    cases dd with
    | nil => exact absurd rfl hd.1
    | cons c cs => exact ⟨c, cs, rfl⟩
  obtain ⟨y0, ys, rfl⟩ : ∃ c cs, yy = c :: cs := by
    cases yy with
    | nil => exact absurd rfl hy.1
    | cons c cs => exact ⟨c, cs, rfl⟩
  have hdc : ∀ x ∈ d0 :: (ds ++ [',']), Plain x := by
    intro x hx
    simp only [List.mem_cons, List.mem_append, List.not_mem_nil, or_false] at hx
    rcases hx with rfl | hx | rfl
    · exact hd.plain _ (by simp)
    · exact hd.plain _ (by simp [hx])
    · unfold Plain; decide
  have e : d0 :: ds ++ ',' :: ' ' :: (y0 :: ys ++ tm) = d0 :: (ds ++ [',']) ++ ' ' :: (y0 :: ys ++ tm) := by simp
  rw [squeezeGo_plain_run w _ hw.plain, e, squeezeGo_blank_plain d0 (ds ++ [',']) _ hdc, squeezeGo_blank_plain y0 ys _ hy.plain, ht.squeeze_id]

/-- `Mon d yyyy[ time]` -/
theorem clean_Mdy (m : Nat) (dd w yy tm : List Char) (hms us : Int) (hd : IsNumeral 2 dd)
    (hw : IsMonthName m w) (hy : IsNumeral 4 yy) (ht : TimeText tm hms us) :
    squeeze (strip (w ++ ' ' :: (dd ++ ' ' :: (yy ++ tm)))) = w ++ ' ' :: (dd ++ ' ' :: (yy ++ tm)) := by
  have hst : strip (w ++ ' ' :: (dd ++ ' ' :: (yy ++ tm))) = w ++ ' ' :: (dd ++ ' ' :: (yy ++ tm)) := by
    apply strip_ends
    · intro c hc
      cases w with
      | nil => exact absurd rfl hw.2.1
      | cons d0 ds => simp only [List.cons_append, List.head?_cons, Option.some.injEq] at hc; subst hc; exact notWs_of_alpha _ (hw.2.2.1 _ (by simp))
    · intro c hc
      have e : w ++ ' ' :: (dd ++ ' ' :: (yy ++ tm)) = (w ++ ' ' :: (dd ++ [' ']) ++ yy) ++ tm := by simp
      rw [e] at hc
      exact notWs_of_digit c (ht.last_digit _ (hy.last_digit _) c hc)
  rw [hst]; unfold squeeze
  obtain ⟨d0, ds, rfl⟩ : ∃ c cs, dd = c :: cs := by
    cases dd with
    | nil => exact absurd rfl hd.1
    | cons c cs => exact ⟨c, cs, rfl⟩
  obtain ⟨y0, ys, rfl⟩ : ∃ c cs, yy = c :: cs := by
    cases yy with
    | nil => exact absurd rfl hy.1
    | cons c cs => exact ⟨c, cs, rfl⟩
  rw [squeezeGo_plain_run w _ hw.plain, squeezeGo_blank_plain d0 ds _ hd.plain, squeezeGo_blank_plain y0 ys _ hy.plain, ht.squeeze_id]

/-- `yyyy-mm-dd[ time]`: unchanged by `strip` and `squeeze` -/
theorem clean_iso (yy mm dd tm : List Char) (hms us : Int) (hy : IsNumeral 4 yy) (hm : IsNumeral 2 mm) (hd : IsNumeral 2 dd)
    (ht : TimeText tm hms us) :
    squeeze (strip (yy ++ '-' :: (mm ++ '-' :: (dd ++ tm)))) = yy ++ '-' :: (mm ++ '-' :: (dd ++ tm)) := by
  have hst : strip (yy ++ '-' :: (mm ++ '-' :: (dd ++ tm))) = yy ++ '-' :: (mm ++ '-' :: (dd ++ tm)) := by
    apply strip_ends
    · intro c hc
      cases yy with
      | nil => exact absurd rfl hy.1
      | cons d0 ds => simp only [List.cons_append, List.head?_cons, Option.some.injEq] at hc; subst hc; exact notWs_of_digit _ (hy.2.2 _ (by simp))
    · intro c hc
      have e : yy ++ '-' :: (mm ++ '-' :: (dd ++ tm)) = (yy ++ '-' :: (mm ++ ['-']) ++ dd) ++ tm := by simp
      rw [e] at hc
      exact notWs_of_digit c (ht.last_digit _ (hd.last_digit _) c hc)
  rw [hst]; unfold squeeze
  obtain ⟨m0, ms, rfl⟩ : ∃ c cs, mm = c :: cs := by
    cases mm with
    | nil => exact absurd rfl hm.1
    | cons c cs => exact ⟨c, cs, rfl⟩
  obtain ⟨d0, ds, rfl⟩ : ∃ c cs, dd = c :: cs := by
    cases dd with
    | nil => exact absurd rfl hd.1
    | cons c cs => exact ⟨c, cs, rfl⟩
  rw [squeezeGo_plain_run yy _ hy.plain, squeezeGo_dash_plain m0 ms _ hm.plain, squeezeGo_dash_plain d0 ds _ hd.plain, ht.squeeze_id]
end Pyg.DateParse
