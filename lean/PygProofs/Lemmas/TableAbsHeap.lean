/-
  Refinement lemmas of C01, part 3: the heap of the history machine seen through `abs`.
-/
import PygProofs.Lemmas.TableAbs2

namespace Pyg
open Table Abs

/-- a machine state (heap, outcome) read as lists of records -/
def absStep (p : Heap × Out) : RHeap × Out := (p.1.map abs, p.2)

/-- the outcomes of a history of the dictable machine, line by line -/
def stepTrace (s : Heap) : List Op → List Out
  | [] => []
  | op :: ops => (step s op).2 :: stepTrace (step s op).1 ops

theorem map_put (s : Heap) (d : Nat) (t : Table) :
    (s.put d t).map abs = RHeap.put (s.map abs) d (abs t) := by
  unfold Heap.put RHeap.put
  rw [List.length_map]
  split <;> simp [List.map_set]

theorem absStep_bind (s : Heap) (d : Nat) (r : Except Err Table) :
    absStep (s.bind d r) = RHeap.bind (s.map abs) d (r.map abs) := by
  cases r with
  | error e => rfl
  | ok t => simp only [Heap.bind, absStep, map_put]; rfl

theorem absStep_bind' (s : Heap) (d : Nat) {r : Except Err Table} {r' : Except Err Recs}
    (h : r.map abs = r') : absStep (s.bind d r) = RHeap.bind (s.map abs) d r' := by
  rw [← h]; exact absStep_bind s d r

theorem absStep_query (s : Heap) (r : Except Err Val) :
    absStep (s.query r) = RHeap.query (s.map abs) r := by
  cases r <;> rfl

theorem Abs.mapM_option_map {α β γ} (f : α → Option β) (g : β → γ) (xs : List α) :
    xs.mapM (fun x => (f x).map g) = (xs.mapM f).map (List.map g) := by
  induction xs with
  | nil => rfl
  | cons x xs ih =>
    simp only [List.mapM_cons, ih]
    cases f x with
    | none => rfl
    | some t =>
      cases xs.mapM f with
      | none => rfl
      | some ts => rfl

theorem mapM_getElem?_abs (s : Heap) (hs : List Nat) :
    hs.mapM (fun h => (s.map abs)[h]?) = (hs.mapM fun h => s[h]?).map (List.map abs) := by
  have hf : (fun h : Nat => (s.map abs)[h]?) = fun h : Nat => (s[h]?).map abs := by
    funext h; exact List.getElem?_map
  rw [hf]
  exact mapM_option_map _ _ _

theorem mem_of_mapM_getElem? {s : Heap} : ∀ (hs : List Nat) (ts : List Table),
    hs.mapM (fun h => s[h]?) = some ts → ∀ t ∈ ts, t ∈ s := by
  intro hs
  induction hs with
  | nil => intro ts h t ht; simp at h; subst h; cases ht
  | cons a as ih =>
    intro ts h t ht
    simp only [List.mapM_cons, Option.bind_eq_bind, Option.bind_eq_some_iff, Option.pure_def,
      Option.some.injEq] at h
    obtain ⟨x, hx, ys, hys, rfl⟩ := h
    rcases List.mem_cons.1 ht with rfl | hm
    · exact List.mem_of_getElem? hx
    · exact ih ys hys t hm

end Pyg
