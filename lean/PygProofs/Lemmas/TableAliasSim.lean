/-
  Conservativity of the reference-heap layer (PygModel/TableAlias.lean): as long as no two handles share a
  cell, `rstep (.op o)` seen through the handles IS `step o` on the value heap.
-/
import PygProofs.Lemmas.TableAlias

namespace Pyg
namespace RefHeap

/-- the value heap the handles read -/
def vheap (s : RefHeap) : Heap := s.ptr.map fun c => s.cells.getD c []

theorem cells_cellOf (s : RefHeap) (hw : s.WF) (h : Nat) : s.cells[s.cellOf h]? = s.vheap[h]? := by
  unfold cellOf vheap
  rw [List.getElem?_map]
  cases hp : s.ptr[h]? with
  | none => simp
  | some c =>
    have hc : c < s.cells.length := hw c (List.mem_of_getElem? hp)
    simp [List.getD_eq_getElem?_getD, hc]

theorem vheap_alloc (s : RefHeap) (hw : s.WF) (d : Nat) (t : Table) :
    vheap ⟨bindPtr s.ptr d s.cells.length, s.cells ++ [t]⟩ = s.vheap.put d t := by
  have hold : (s.ptr.map fun c => (s.cells ++ [t]).getD c []) = s.ptr.map fun c => s.cells.getD c [] := by
    apply List.map_congr_left
    intro c hc
    have := hw c hc
    simp [List.getD_eq_getElem?_getD, List.getElem?_append_left this]
  have hnew : (s.cells ++ [t]).getD s.cells.length [] = t := by simp [List.getD_eq_getElem?_getD]
  unfold vheap bindPtr Heap.put
  simp only [List.length_map]
  split
  · rw [List.map_set, hnew, hold]
  · rw [List.map_append, hold]
    simp

theorem vheap_set (s : RefHeap) (hw : s.WF) (hinj : s.ptr.Nodup) (h c : Nat) (t' : Table)
    (hp : s.ptr[h]? = some c) : vheap ⟨s.ptr, s.cells.set c t'⟩ = s.vheap.set h t' := by
  have hh : h < s.ptr.length := (List.getElem?_eq_some_iff.1 hp).1
  have hc : c < s.cells.length := hw c (List.mem_of_getElem? hp)
  unfold vheap
  apply List.ext_getElem?
  intro i
  rw [List.getElem?_set, List.getElem?_map, List.getElem?_map]
  by_cases hi : h = i
  · subst hi
    have hp' : s.ptr[h] = c := (List.getElem?_eq_some_iff.1 hp).2
    simp [hh, hp', List.getD_eq_getElem?_getD, hc]
  · rw [if_neg hi]
    cases hpi : s.ptr[i]? with
    | none => rfl
    | some x =>
      have hx : x ≠ c := by
        intro hxc
        subst hxc
        exact hi ((List.getElem?_inj hh hinj).1 (hp.trans hpi.symm))
      simp [List.getD_eq_getElem?_getD, List.getElem?_set_ne (Ne.symm hx)]

theorem mapM_cellOf (s : RefHeap) (hw : s.WF) (hs : List Nat) :
    (hs.map s.cellOf).mapM (fun c => s.cells[c]?) = hs.mapM fun h => s.vheap[h]? := by
  induction hs with
  | nil => rfl
  | cons h hs ih => simp only [List.map_cons, List.mapM_cons, cells_cellOf s hw, ih]

theorem ptrAfter_none (s : RefHeap) (out : Out) : s.ptrAfter Option.none out = s.ptr := rfl

theorem ptrAfter_err (s : RefHeap) (d : Option Nat) (e : Err) : s.ptrAfter d (.err e) = s.ptr := by
  cases d <;> rfl

theorem ptrAfter_badHandle (s : RefHeap) (d : Option Nat) : s.ptrAfter d .badHandle = s.ptr := by
  cases d <;> rfl

theorem ptrAfter_alias (s : RefHeap) (d : Option Nat) (c : Nat) : s.ptrAfter d (.alias c) = s.ptr := by
  cases d <;> rfl

theorem ptrAfter_val (s : RefHeap) (d : Option Nat) (v : Val) : s.ptrAfter d (.val v) = s.ptr := by
  cases d <;> rfl

theorem ptrAfter_unit (s : RefHeap) (d : Nat) : s.ptrAfter (some d) .unit = bindPtr s.ptr d s.cells.length := rfl

end RefHeap

theorem Out.aliasTo_none (out : Out) : out.aliasTo Option.none = out := by cases out <;> rfl

open RefHeap

/-- binding the result of a table-producing operation: fresh cell + pointer = `Heap.bind` on the view -/
theorem rbind_sim (s : RefHeap) (hw : s.WF) (d : Nat) (r : Except Err Table) :
    vheap ⟨s.ptrAfter (some d) (Heap.bind s.cells s.cells.length r).2, (Heap.bind s.cells s.cells.length r).1⟩ =
      (s.vheap.bind d r).1 ∧
    (Heap.bind s.cells s.cells.length r).2 = (s.vheap.bind d r).2 := by
  cases r with
  | error e => exact ⟨rfl, rfl⟩
  | ok t =>
    have hput : Heap.put s.cells s.cells.length t = s.cells ++ [t] := by simp [Heap.put]
    simp only [Heap.bind, hput, ptrAfter_unit]
    exact ⟨vheap_alloc s hw d t, trivial⟩

/-- a query leaves both heaps alone -/
theorem rquery_sim (s : RefHeap) (d : Option Nat) (r : Except Err Val) :
    vheap ⟨s.ptrAfter d (Heap.query s.cells r).2, (Heap.query s.cells r).1⟩ = (s.vheap.query r).1 ∧
    (Heap.query s.cells r).2 = (s.vheap.query r).2 := by
  cases r with
  | error e => exact ⟨by simp only [Heap.query, ptrAfter_err], rfl⟩
  | ok v => exact ⟨by simp only [Heap.query, ptrAfter_val], rfl⟩

/-- in-place write through a handle: the cell of the handle on one side, the handle's slot on the other -/
theorem rset_sim (s : RefHeap) (hw : s.WF) (hinj : s.ptr.Nodup) (h : Nat) (t t' : Table)
    (hv : s.vheap[h]? = some t) : vheap ⟨s.ptr, s.cells.set (s.cellOf h) t'⟩ = s.vheap.set h t' := by
  have hp : ∃ c, s.ptr[h]? = some c := by
    unfold vheap at hv
    rw [List.getElem?_map] at hv
    cases hp : s.ptr[h]? with
    | none => rw [hp] at hv; cases hv
    | some c => exact ⟨c, rfl⟩
  obtain ⟨c, hp⟩ := hp
  have : s.cellOf h = c := by simp [cellOf, hp]
  rw [this]
  exact vheap_set s hw hinj h c t' hp

/-- **conservativity, one step**: with no two handles on one cell, an operation of the value machine run
through the reference heap gives, seen through the handles, exactly `step` on the value heap -/
theorem rstep_op_sim (s : RefHeap) (hw : s.WF) (hinj : s.ptr.Nodup) (o : Op) :
    (rstep s (.op o)).1.vheap = (step s.vheap o).1 ∧ (rstep s (.op o)).2 = (step s.vheap o).2 := by
  cases o with
  | new dst data columns kwargs =>
    simp only [rstep, Op.mapHandles, Op.dst?, Op.aliasOf, step, Out.aliasTo_none]
    cases construct data columns kwargs with
    | none => exact ⟨rfl, rfl⟩
    | some r => exact rbind_sim s hw dst r
  | setitem h k v =>
    simp only [rstep, Op.mapHandles, Op.dst?, Op.aliasOf, step, cells_cellOf s hw, Out.aliasTo_none, ptrAfter_none]
    cases hv : s.vheap[h]? with
    | none => exact ⟨rfl, rfl⟩
    | some t =>
      dsimp only
      cases t.setitem k v with
      | error e => exact ⟨rfl, rfl⟩
      | ok t' => exact ⟨rset_sim s hw hinj h t t' hv, rfl⟩
  | delitem h k =>
    simp only [rstep, Op.mapHandles, Op.dst?, Op.aliasOf, step, cells_cellOf s hw, Out.aliasTo_none, ptrAfter_none]
    cases hv : s.vheap[h]? with
    | none => exact ⟨rfl, rfl⟩
    | some t =>
      dsimp only
      cases t.delitem k with
      | error e => exact ⟨rfl, rfl⟩
      | ok t' => exact ⟨rset_sim s hw hinj h t t' hv, rfl⟩
  | update h kvs =>
    simp only [rstep, Op.mapHandles, Op.dst?, Op.aliasOf, step, cells_cellOf s hw, Out.aliasTo_none, ptrAfter_none]
    cases hv : s.vheap[h]? with
    | none => exact ⟨rfl, rfl⟩
    | some t =>
      dsimp only
      cases t.update kvs with
      | mk t' oe => cases oe <;> exact ⟨rset_sim s hw hinj h t t' hv, rfl⟩
  | len h =>
    simp only [rstep, Op.mapHandles, Op.dst?, Op.aliasOf, step, cells_cellOf s hw, Out.aliasTo_none]
    cases s.vheap[h]? with
    | none => exact ⟨rfl, rfl⟩
    | some t => exact rquery_sim s _ _
  | shape h =>
    simp only [rstep, Op.mapHandles, Op.dst?, Op.aliasOf, step, cells_cellOf s hw, Out.aliasTo_none]
    cases s.vheap[h]? with
    | none => exact ⟨rfl, rfl⟩
    | some t => exact rquery_sim s _ _
  | row h i =>
    simp only [rstep, Op.mapHandles, Op.dst?, Op.aliasOf, step, cells_cellOf s hw, Out.aliasTo_none]
    cases s.vheap[h]? with
    | none => exact ⟨rfl, rfl⟩
    | some t => exact rquery_sim s _ _
  | col h k =>
    simp only [rstep, Op.mapHandles, Op.dst?, Op.aliasOf, step, cells_cellOf s hw, Out.aliasTo_none]
    cases s.vheap[h]? with
    | none => exact ⟨rfl, rfl⟩
    | some t => exact rquery_sim s _ _
  | iter h =>
    simp only [rstep, Op.mapHandles, Op.dst?, Op.aliasOf, step, cells_cellOf s hw, Out.aliasTo_none]
    cases s.vheap[h]? with
    | none => exact ⟨rfl, rfl⟩
    | some t => exact rquery_sim s _ _
  | tup h ks =>
    simp only [rstep, Op.mapHandles, Op.dst?, Op.aliasOf, step, cells_cellOf s hw, Out.aliasTo_none]
    cases s.vheap[h]? with
    | none => exact ⟨rfl, rfl⟩
    | some t => exact rquery_sim s _ _
  | apply h f =>
    simp only [rstep, Op.mapHandles, Op.dst?, Op.aliasOf, step, cells_cellOf s hw, Out.aliasTo_none]
    cases s.vheap[h]? with
    | none => exact ⟨rfl, rfl⟩
    | some t => exact rquery_sim s _ _
  | slice dst h a b st =>
    simp only [rstep, Op.mapHandles, Op.dst?, Op.aliasOf, step, cells_cellOf s hw, Out.aliasTo_none]
    cases s.vheap[h]? with
    | none => exact ⟨rfl, rfl⟩
    | some t => exact rbind_sim s hw dst _
  | mask dst h m =>
    simp only [rstep, Op.mapHandles, Op.dst?, Op.aliasOf, step, cells_cellOf s hw, Out.aliasTo_none]
    cases s.vheap[h]? with
    | none => exact ⟨rfl, rfl⟩
    | some t => exact rbind_sim s hw dst _
  | take dst h is =>
    simp only [rstep, Op.mapHandles, Op.dst?, Op.aliasOf, step, cells_cellOf s hw, Out.aliasTo_none]
    cases s.vheap[h]? with
    | none => exact ⟨rfl, rfl⟩
    | some t => exact rbind_sim s hw dst _
  | proj dst h ks =>
    simp only [rstep, Op.mapHandles, Op.dst?, Op.aliasOf, step, cells_cellOf s hw, Out.aliasTo_none]
    cases s.vheap[h]? with
    | none => exact ⟨rfl, rfl⟩
    | some t => exact rbind_sim s hw dst _
  | call dst h consts fns =>
    simp only [rstep, Op.mapHandles, Op.dst?, Op.aliasOf, step, cells_cellOf s hw, Out.aliasTo_none]
    cases s.vheap[h]? with
    | none => exact ⟨rfl, rfl⟩
    | some t => exact rbind_sim s hw dst _
  | relabel dst h r =>
    simp only [rstep, Op.mapHandles, Op.dst?, Op.aliasOf, step, cells_cellOf s hw, Out.aliasTo_none]
    cases s.vheap[h]? with
    | none => exact ⟨rfl, rfl⟩
    | some t => exact rbind_sim s hw dst _
  | doo dst h f keys =>
    simp only [rstep, Op.mapHandles, Op.dst?, Op.aliasOf, step, cells_cellOf s hw, Out.aliasTo_none]
    cases s.vheap[h]? with
    | none => exact ⟨rfl, rfl⟩
    | some t => exact rbind_sim s hw dst _
  | concat dst hs =>
    simp only [rstep, Op.mapHandles, Op.dst?, step, mapM_cellOf s hw]
    cases hm : hs.mapM (fun h => s.vheap[h]?) with
    | none => cases hs <;> exact ⟨rfl, rfl⟩
    | some ts =>
      match ts, hm with
      | [], hm =>
        have := rbind_sim s hw dst (.ok [])
        cases hs with
        | nil => exact this
        | cons a as => cases as <;> exact this
      | [t], hm =>
        -- a single operand: the handle list is a singleton
        have hlen : hs.length = 1 := by
          have : ∀ (hs : List Nat) (ts : List Table), hs.mapM (fun h => s.vheap[h]?) = some ts →
              hs.length = ts.length := by
            intro hs
            induction hs with
            | nil => intro ts h; simp at h; subst h; rfl
            | cons a as ih =>
              intro ts h
              simp only [List.mapM_cons, Option.bind_eq_bind, Option.bind_eq_some_iff, Option.pure_def,
                Option.some.injEq] at h
              obtain ⟨x, _, ys, hys, rfl⟩ := h
              simp [ih ys hys]
          simpa using this hs [t] hm
        match hs, hlen with
        | [h], _ => exact ⟨rfl, rfl⟩
      | t1 :: t2 :: ts, hm =>
        have := rbind_sim s hw dst (.ok (Table.concat (t1 :: t2 :: ts)))
        cases hs with
        | nil => exact this
        | cons a as => cases as <;> exact this
  | addrec dst h r =>
    simp only [rstep, Op.mapHandles, Op.dst?, Op.aliasOf, step, cells_cellOf s hw, Out.aliasTo_none]
    cases s.vheap[h]? with
    | none => exact ⟨rfl, rfl⟩
    | some t =>
      cases construct (Data.cols (r.map fun kv => (kv.1, ColVal.one kv.2))) Option.none [] with
      | none => exact ⟨rfl, rfl⟩
      | some r2 =>
        cases r2 with
        | error e => exact ⟨rfl, rfl⟩
        | ok t2 => exact rbind_sim s hw dst _
  | addnone h =>
    simp only [rstep, Op.mapHandles, Op.dst?, Op.aliasOf, step, cells_cellOf s hw, ptrAfter_none]
    cases s.vheap[h]? with
    | none => exact ⟨rfl, rfl⟩
    | some t => exact ⟨rfl, rfl⟩
  | copy dst h =>
    simp only [rstep, Op.mapHandles, Op.dst?, Op.aliasOf, step, cells_cellOf s hw, Out.aliasTo_none]
    cases s.vheap[h]? with
    | none => exact ⟨rfl, rfl⟩
    | some t => exact rbind_sim s hw dst _

theorem nodup_set_fresh {l : List Nat} {x : Nat} (hn : l.Nodup) (hx : x ∉ l) (d : Nat) : (l.set d x).Nodup := by
  induction l generalizing d with
  | nil => simp
  | cons a l ih =>
    have ha : a ∉ l ∧ l.Nodup := by simpa using hn
    have hx' : x ≠ a ∧ x ∉ l := by simpa using hx
    cases d with
    | zero => simp [hx'.2, ha.2]
    | succ d =>
      simp only [List.set_cons_succ, List.nodup_cons]
      refine ⟨?_, ih ha.2 hx'.2 d⟩
      intro hm
      rcases List.mem_or_eq_of_mem_set hm with h | h
      · exact ha.1 h
      · exact hx'.1 h.symm

/-- an operation of the value machine never creates an alias: distinct pointers stay distinct -/
theorem rstep_op_nodup (s : RefHeap) (hw : s.WF) (hinj : s.ptr.Nodup) (o : Op) :
    (rstep s (.op o)).1.ptr.Nodup := by
  have hfresh : s.cells.length ∉ s.ptr := fun hm => Nat.lt_irrefl _ (hw _ hm)
  simp only [rstep, ptrAfter]
  split
  · unfold bindPtr
    split
    · exact nodup_set_fresh hinj hfresh _
    · simp only [List.nodup_append, hinj, List.nodup_cons, List.not_mem_nil, not_false_eq_true,
        List.nodup_nil, and_self, List.mem_singleton, true_and]
      intro a ha b hb
      subst hb
      intro hab
      subst hab
      exact hfresh ha
  · exact hinj

end Pyg
