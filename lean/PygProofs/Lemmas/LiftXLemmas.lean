import PygModel.LiftX
import PygProofs.Lemmas.LiftLemmas

namespace Pyg

/-! ### the auxiliary list functions are maps -/

theorem itemByIXList_eq_map (i n : Nat) : ∀ xs, itemByIXList i n xs = xs.map (itemByIX i n)
  | [] => by simp [itemByIXList]
  | x :: xs => by simp [itemByIXList, itemByIXList_eq_map i n xs]

theorem itemByKeyXKVs_eq_map (key : String) (keys : List String) (pos : Option Nat) :
    ∀ kvs, itemByKeyXKVs key keys pos kvs = mapXKW (itemByKeyX key keys pos) kvs
  | [] => by simp [itemByKeyXKVs, mapXKW]
  | (k, v) :: kvs => by
      have := itemByKeyXKVs_eq_map key keys pos kvs
      simp [itemByKeyXKVs, mapXKW] at this ⊢
      exact this

theorem tXList_eq_map : ∀ xs, tXList xs = xs.map tX
  | [] => by simp [tXList]
  | x :: xs => by simp [tXList, tXList_eq_map xs]

theorem tXKVs_eq_map : ∀ kvs, tXKVs kvs = mapXKW tX kvs
  | [] => by simp [tXKVs, mapXKW]
  | (k, v) :: kvs => by
      have := tXKVs_eq_map kvs
      simp [tXKVs, mapXKW] at this ⊢
      exact this

theorem embList_eq_map : ∀ xs, Val.embList xs = xs.map Val.emb
  | [] => by simp [Val.embList]
  | x :: xs => by simp [Val.embList, embList_eq_map xs]

theorem embKVs_eq_map : ∀ kvs, Val.embKVs kvs = kvs.map fun p => (p.1, p.2.emb)
  | [] => by simp [Val.embKVs]
  | (k, v) :: kvs => by simp [Val.embKVs, embKVs_eq_map kvs]

theorem xkeysOf_mapXKW (g : XVal → XVal) (kw : XKW) : xkeysOf (mapXKW g kw) = xkeysOf kw := by
  simp [xkeysOf, mapXKW, List.map_map, Function.comp_def]

theorem dropAxisX_mapXKW (g : XVal → XVal) (kw : XKW) : dropAxisX (mapXKW g kw) = mapXKW g (dropAxisX kw) := by
  simp [dropAxisX, mapXKW, List.filter_map, Function.comp_def]

theorem dropAxisX_idem (kw : XKW) : dropAxisX (dropAxisX kw) = dropAxisX kw := by
  simp [dropAxisX, List.filter_filter]

theorem mapXKW_mapXKW (g h : XVal → XVal) (kw : XKW) : mapXKW g (mapXKW h kw) = mapXKW (g ∘ h) kw := by
  simp [mapXKW, List.map_map, Function.comp_def]

theorem mapXKW_id (kw : XKW) : mapXKW (fun c => c) kw = kw := by
  simp [mapXKW]

theorem axisIs1_dropAxisX (kw : XKW) : axisIs1 (dropAxisX kw) = false := by
  have : (dropAxisX kw).lookup "axis" = Option.none := by
    induction kw with
    | nil => simp [dropAxisX]
    | cons p kw ih =>
      obtain ⟨k, v⟩ := p
      by_cases hk : k = "axis"
      · subst hk; simpa [dropAxisX] using ih
      · have h1 : (k != "axis") = true := by simpa using hk
        have h2 : ("axis" == k) = false := by simpa using fun h => hk h.symm
        simp only [dropAxisX, List.filter_cons, h1, if_true, List.lookup, h2]
        simpa [dropAxisX] using ih
  simp [axisIs1, this]

/-- `_wrapped` pops `axis` first; a second pop changes nothing — except that `axis` itself is gone, so frames and
2-d arrays are then looped by column -/
theorem wrappedX_dropAxisX_of_noaxis (T : LoopTypes) (f : XLeafFn) (v : XVal) (args : List XVal) (kw : XKW)
    (h : axisIs1 kw = false) : wrappedX T f v args (dropAxisX kw) = wrappedX T f v args kw := by
  cases v <;> simp [wrappedX, dropAxisX_idem, axisIs1_dropAxisX, h]

/-! ### the plain fragment: on lists, tuples and dicts the extended model is the C19 model -/

theorem embKVs_keys (kvs : KW) : xkeysOf (Val.embKVs kvs) = keysOf kvs := by
  simp [embKVs_eq_map, xkeysOf, keysOf, List.map_map, Function.comp_def]

theorem xgetIdx_emb : ∀ (xs : List Val) (i : Nat), xgetIdx (xs.map Val.emb) i = (getIdx xs i).emb
  | [], i => by simp [xgetIdx, getIdx, Val.emb]
  | x :: xs, 0 => by simp [xgetIdx, getIdx]
  | x :: xs, i + 1 => by
      have := xgetIdx_emb xs i
      simpa [xgetIdx, getIdx] using this

theorem xgetKey_emb : ∀ (kvs : KW) (k : String),
    xgetKey (kvs.map fun p => (p.1, p.2.emb)) k = (getKey kvs k).emb
  | [], k => by simp [xgetKey, getKey, Val.emb]
  | (k0, v0) :: kvs, k => by
      have := xgetKey_emb kvs k
      by_cases hk : k = k0
      · subst hk; simp [xgetKey, getKey, List.lookup]
      · have : (k == k0) = false := by simpa using hk
        simp [xgetKey, getKey, List.lookup, this] at *
        assumption

mutual
  theorem itemByIX_emb (i n : Nat) : ∀ v : Val, itemByIX i n v.emb = (itemByI i n v).emb
    | .cell c => by simp [Val.emb, itemByIX, itemByI]
    | .dict kvs => by simp [Val.emb, itemByIX, itemByI]
    | .list xs => by
        simp only [Val.emb, itemByIX, itemByI, embList_eq_map, List.length_map]
        split
        · exact xgetIdx_emb xs i
        · rw [← embList_eq_map, itemByIXList_emb i n xs]; simp [Val.emb]
    | .tuple xs => by
        simp only [Val.emb, itemByIX, itemByI, embList_eq_map, List.length_map]
        split
        · exact xgetIdx_emb xs i
        · rw [← embList_eq_map, itemByIXList_emb i n xs]; simp [Val.emb]
  theorem itemByIXList_emb (i n : Nat) : ∀ xs : List Val,
      itemByIXList i n (Val.embList xs) = Val.embList (itemByIList i n xs)
    | [] => by simp [Val.embList, itemByIXList, itemByIList]
    | x :: xs => by
        simp [Val.embList, itemByIXList, itemByIList, itemByIX_emb i n x, itemByIXList_emb i n xs]
end

mutual
  theorem itemByKeyX_emb (k : String) (keys : List String) : ∀ v : Val,
      itemByKeyX k keys Option.none v.emb = (itemByKey k keys v).emb
    | .cell c => by simp [Val.emb, itemByKeyX, itemByKey]
    | .list xs => by simp [Val.emb, itemByKeyX, itemByKey]
    | .tuple xs => by simp [Val.emb, itemByKeyX, itemByKey]
    | .dict kvs => by
        simp only [Val.emb, itemByKeyX, itemByKey, embKVs_keys]
        split
        · rw [embKVs_eq_map]; exact xgetKey_emb kvs k
        · rw [itemByKeyXKVs_emb k keys kvs]; simp [Val.emb]
  theorem itemByKeyXKVs_emb (k : String) (keys : List String) : ∀ kvs : KW,
      itemByKeyXKVs k keys Option.none (Val.embKVs kvs) = Val.embKVs (itemByKeyKVs k keys kvs)
    | [] => by simp [Val.embKVs, itemByKeyXKVs, itemByKeyKVs]
    | (k0, v) :: kvs => by
        simp [Val.embKVs, itemByKeyXKVs, itemByKeyKVs, itemByKeyX_emb k keys v, itemByKeyXKVs_emb k keys kvs]
end

theorem dropAxisX_emb (kw : KW) : dropAxisX (Val.embKVs kw) = Val.embKVs (dropAxis kw) := by
  simp [embKVs_eq_map, dropAxisX, dropAxis, List.filter_map, Function.comp_def]

theorem map_itemByIX_emb (i n : Nat) (args : List Val) :
    (Val.embList args).map (itemByIX i n) = Val.embList (args.map (itemByI i n)) := by
  simp [embList_eq_map, List.map_map, Function.comp_def, itemByIX_emb]

theorem mapXKW_itemByIX_emb (i n : Nat) (kw : KW) :
    mapXKW (itemByIX i n) (Val.embKVs kw) = Val.embKVs (mapKW (itemByI i n) kw) := by
  simp [embKVs_eq_map, mapXKW, mapKW, List.map_map, Function.comp_def, itemByIX_emb]

theorem map_itemByKeyX_emb (k : String) (keys : List String) (args : List Val) :
    (Val.embList args).map (itemByKeyX k keys Option.none) = Val.embList (args.map (itemByKey k keys)) := by
  simp [embList_eq_map, List.map_map, Function.comp_def, itemByKeyX_emb]

theorem mapXKW_itemByKeyX_emb (k : String) (keys : List String) (kw : KW) :
    mapXKW (itemByKeyX k keys Option.none) (Val.embKVs kw) = Val.embKVs (mapKW (itemByKey k keys) kw) := by
  simp [embKVs_eq_map, mapXKW, mapKW, List.map_map, Function.comp_def, itemByKeyX_emb]

/-- a leaf function on extended values that agrees with `f` on plain ones -/
def Extends (f' : XLeafFn) (f : LeafFn) : Prop :=
  ∀ a args kw, f' (Val.emb a) (Val.embList args) (Val.embKVs kw) = (f a args kw).map Val.emb

mutual
  theorem wrappedX_embed_aux (T : LoopTypes) (f' : XLeafFn) (f : LeafFn) (hl : T.list = true) (ht : T.tuple = true)
      (hd : T.dicts.contains 0 = true) (hf : Extends f' f) : ∀ (v : Val) (args : List Val) (kw : KW),
      wrappedX T f' v.emb (Val.embList args) (Val.embKVs kw) = (wrapped f v args kw).map Val.emb
    | .cell c, args, kw => by
        simp only [Val.emb, wrappedX, wrapped, dropAxisX_emb]
        exact hf (.cell c) args (dropAxis kw)
    | .list xs, args, kw => by
        simp only [Val.emb, wrappedX, wrapped, hl, if_true, dropAxisX_emb]
        have e : (Val.embList xs).length = xs.length := by simp [embList_eq_map]
        rw [e, wrappedXSeq_embed_aux T f' f hl ht hd hf xs.length 0 xs args (dropAxis kw)]
        cases wrappedSeq f xs.length 0 xs args (dropAxis kw) <;> simp [Except.map, Val.emb]
    | .tuple xs, args, kw => by
        simp only [Val.emb, wrappedX, wrapped, ht, if_true, dropAxisX_emb]
        have e : (Val.embList xs).length = xs.length := by simp [embList_eq_map]
        rw [e, wrappedXSeq_embed_aux T f' f hl ht hd hf xs.length 0 xs args (dropAxis kw)]
        cases wrappedSeq f xs.length 0 xs args (dropAxis kw) <;> simp [Except.map, Val.emb]
    | .dict kvs, args, kw => by
        simp only [Val.emb, wrappedX, wrapped, hd, if_true, dropAxisX_emb, embKVs_keys]
        rw [wrappedXKVs_embed_aux T f' f hl ht hd hf (sortStr (keysOf kvs)) kvs args (dropAxis kw)]
        cases wrappedKVs f (sortStr (keysOf kvs)) kvs args (dropAxis kw) <;> simp [Except.map, Val.emb]
  theorem wrappedXSeq_embed_aux (T : LoopTypes) (f' : XLeafFn) (f : LeafFn) (hl : T.list = true) (ht : T.tuple = true)
      (hd : T.dicts.contains 0 = true) (hf : Extends f' f) : ∀ (n i : Nat) (xs : List Val) (args : List Val) (kw : KW),
      wrappedXSeq T f' n i (Val.embList xs) (Val.embList args) (Val.embKVs kw)
        = (wrappedSeq f n i xs args kw).map Val.embList
    | n, i, [], args, kw => by simp [Val.embList, wrappedXSeq, wrappedSeq, Except.map]
    | n, i, x :: xs, args, kw => by
        simp only [Val.embList, wrappedXSeq, wrappedSeq, map_itemByIX_emb, mapXKW_itemByIX_emb]
        rw [wrappedX_embed_aux T f' f hl ht hd hf x, wrappedXSeq_embed_aux T f' f hl ht hd hf n (i + 1) xs args kw]
        cases wrapped f x (args.map (itemByI i n)) (mapKW (itemByI i n) kw) <;> simp [Except.map]
        cases wrappedSeq f n (i + 1) xs args kw <;> simp [Val.embList]
  theorem wrappedXKVs_embed_aux (T : LoopTypes) (f' : XLeafFn) (f : LeafFn) (hl : T.list = true) (ht : T.tuple = true)
      (hd : T.dicts.contains 0 = true) (hf : Extends f' f) : ∀ (keys : List String) (kvs : KW) (args : List Val) (kw : KW),
      wrappedXKVs T f' keys (Val.embKVs kvs) (Val.embList args) (Val.embKVs kw)
        = (wrappedKVs f keys kvs args kw).map Val.embKVs
    | keys, [], args, kw => by simp [Val.embKVs, wrappedXKVs, wrappedKVs, Except.map]
    | keys, (k, v) :: kvs, args, kw => by
        simp only [Val.embKVs, wrappedXKVs, wrappedKVs, map_itemByKeyX_emb, mapXKW_itemByKeyX_emb]
        rw [wrappedX_embed_aux T f' f hl ht hd hf v, wrappedXKVs_embed_aux T f' f hl ht hd hf keys kvs args kw]
        cases wrapped f v (args.map (itemByKey k keys)) (mapKW (itemByKey k keys) kw) <;> simp [Except.map]
        cases wrappedKVs f keys kvs args kw <;> simp [Val.embKVs]
end

end Pyg

namespace Pyg

/-! ### the element loops -/

theorem wrappedXSeq_get {T : LoopTypes} {f : XLeafFn} {n : Nat} : ∀ (xs : List XVal) (i : Nat) (args : List XVal)
    (kw : XKW) (ys : List XVal), wrappedXSeq T f n i xs args kw = .ok ys →
    ys.length = xs.length ∧ ∀ j x, xs[j]? = some x → ∃ y, ys[j]? = some y ∧
      wrappedX T f x (args.map (itemByIX (i + j) n)) (mapXKW (itemByIX (i + j) n) kw) = .ok y
  | [], i, args, kw, ys, h => by
      simp [wrappedXSeq] at h
      subst h
      simp
  | x :: xs, i, args, kw, ys, h => by
      rw [wrappedXSeq] at h
      split at h
      · cases h
      · rename_i y hy
        split at h
        · cases h
        · rename_i ys' hys
          cases h
          have ih := wrappedXSeq_get xs (i + 1) args kw ys' hys
          refine ⟨by simp [ih.1], ?_⟩
          intro j x' hj
          cases j with
          | zero =>
            simp at hj; subst hj
            exact ⟨y, by simp, by simpa using hy⟩
          | succ j =>
            simp at hj
            obtain ⟨y', h1, h2⟩ := ih.2 j x' hj
            refine ⟨y', by simpa using h1, ?_⟩
            have e : i + (j + 1) = i + 1 + j := by omega
            rw [e]; exact h2

theorem wrappedXKVs_lookup {T : LoopTypes} {f : XLeafFn} {keys : List String} : ∀ (kvs : XKW) (args : List XVal)
    (kw : XKW) (r : XKW), wrappedXKVs T f keys kvs args kw = .ok r →
    xkeysOf r = xkeysOf kvs ∧ ∀ k v, kvs.lookup k = some v → ∃ y, r.lookup k = some y ∧
      wrappedX T f v (args.map (itemByKeyX k keys Option.none)) (mapXKW (itemByKeyX k keys Option.none) kw) = .ok y
  | [], args, kw, r, h => by
      simp [wrappedXKVs] at h
      subst h
      simp [xkeysOf]
  | (k0, v0) :: kvs, args, kw, r, h => by
      rw [wrappedXKVs] at h
      split at h
      · cases h
      · rename_i y hy
        split at h
        · cases h
        · rename_i r' hr
          cases h
          have ih := wrappedXKVs_lookup kvs args kw r' hr
          refine ⟨by simp [xkeysOf] at ih ⊢; exact ih.1, ?_⟩
          intro k v hk
          by_cases hkk : k = k0
          · subst hkk
            simp [List.lookup] at hk
            subst hk
            exact ⟨y, by simp [List.lookup], hy⟩
          · have hne : (k == k0) = false := by simpa using hkk
            simp [List.lookup, hne] at hk ⊢
            exact ih.2 k v hk

/-- the Series loop: one result per label, in label order -/
theorem serCalls_get {T : LoopTypes} {f : XLeafFn} {keys : List String} : ∀ (ks : List String) (xs : List XVal)
    (args : List XVal) (kw : XKW) (ys : List XVal), ks.length = xs.length →
    serCalls T f keys ks xs args kw = .ok ys →
    ys.length = xs.length ∧ ∀ (j : Nat) (k : String) (x : XVal), ks[j]? = some k → xs[j]? = some x → ∃ y, ys[j]? = some y ∧
      wrappedX T f x (args.map (itemByKeyX k keys Option.none)) (mapXKW (itemByKeyX k keys Option.none) kw) = .ok y
  | [], [], args, kw, ys, _, h => by
      simp [serCalls] at h
      subst h
      simp
  | [], _ :: _, _, _, _, hl, _ => by simp at hl
  | _ :: _, [], _, _, _, hl, _ => by simp at hl
  | k0 :: ks, x0 :: xs, args, kw, ys, hl, h => by
      rw [serCalls] at h
      split at h
      · cases h
      · rename_i y hy
        split at h
        · cases h
        · rename_i ys' hys
          cases h
          have ih := serCalls_get ks xs args kw ys' (by simpa using hl) hys
          refine ⟨by simp [ih.1], ?_⟩
          intro j k x hk hx
          cases j with
          | zero =>
            simp at hk hx; subst hk; subst hx
            exact ⟨y, by simp, hy⟩
          | succ j =>
            simp at hk hx
            obtain ⟨y', h1, h2⟩ := ih.2 j k x hk hx
            exact ⟨y', by simpa using h1, h2⟩

/-- the column loop of a DataFrame: one leaf call per column, in column order, with the POSITION handed to the
companion selection -/
theorem frameCalls_get {f : XLeafFn} {idx keys : List String} {rows : List (List Cell)} : ∀ (cs : List String) (i : Nat)
    (args : List XVal) (kw : XKW) (ys : List XVal), frameCalls f idx keys rows i cs args kw = .ok ys →
    ys.length = cs.length ∧ ∀ j c, cs[j]? = some c → ∃ y, ys[j]? = some y ∧
      f (.ser idx (colOf rows (i + j))) (args.map (itemByKeyX c keys (some (i + j))))
        (mapXKW (itemByKeyX c keys (some (i + j))) kw) = .ok y
  | [], i, args, kw, ys, h => by
      simp [frameCalls] at h
      subst h
      simp
  | c0 :: cs, i, args, kw, ys, h => by
      rw [frameCalls] at h
      split at h
      · cases h
      · rename_i y hy
        split at h
        · cases h
        · rename_i ys' hys
          cases h
          have ih := frameCalls_get cs (i + 1) args kw ys' hys
          refine ⟨by simp [ih.1], ?_⟩
          intro j c hj
          cases j with
          | zero =>
            simp at hj; subst hj
            exact ⟨y, by simp, by simpa using hy⟩
          | succ j =>
            simp at hj
            obtain ⟨y', h1, h2⟩ := ih.2 j c hj
            refine ⟨y', by simpa using h1, ?_⟩
            have e : i + (j + 1) = i + 1 + j := by omega
            rw [e]; exact h2

/-- the column loop of a 2-d array -/
theorem arrCalls_get {f : XLeafFn} {nc : Nat} {rows : List (List Cell)} : ∀ (k i : Nat)
    (args : List XVal) (kw : XKW) (ys : List XVal), arrCalls f nc rows i k args kw = .ok ys →
    ys.length = k ∧ ∀ j, j < k → ∃ y, ys[j]? = some y ∧
      f (itemByIX (i + j) nc (.arr2 nc rows)) (args.map (itemByIX (i + j) nc)) (mapXKW (itemByIX (i + j) nc) kw) = .ok y
  | 0, i, args, kw, ys, h => by
      simp [arrCalls] at h
      subst h
      simp
  | k + 1, i, args, kw, ys, h => by
      rw [arrCalls] at h
      split at h
      · cases h
      · rename_i y hy
        split at h
        · cases h
        · rename_i ys' hys
          cases h
          have ih := arrCalls_get k (i + 1) args kw ys' hys
          refine ⟨by simp [ih.1], ?_⟩
          intro j hj
          cases j with
          | zero => exact ⟨y, by simp, by simpa using hy⟩
          | succ j =>
            obtain ⟨y', h1, h2⟩ := ih.2 j (by omega)
            refine ⟨y', by simpa using h1, ?_⟩
            have e : i + (j + 1) = i + 1 + j := by omega
            rw [e]; exact h2

end Pyg
