/-
  The list-of-records view of the dictable model: how `rows`/`cols` move through the row-selecting
  operations (helper lemmas of the refinement theorems of `Pyg.Props.C01`).
-/
import PygProofs.Lemmas.TableRect

namespace Pyg
namespace Table

theorem rows_length {t : Table} {n : Nat} (h : t.Rect n) (hne : t ≠ []) : t.rows.length = n := by
  simp [rows, nrows_of_rect h hne]

theorem nrows_gatherRows {t : Table} (hne : t ≠ []) (idx : List Nat) : (t.gatherRows idx).nrows = idx.length := by
  cases t with
  | nil => exact absurd rfl hne
  | cons c t => simp [gatherRows, nrows]

/-- the generic lemma of DESIGN §4: gathering rows in every column = mapping the row function -/
theorem rows_gatherRows {t : Table} (hne : t ≠ []) (idx : List Nat) :
    (t.gatherRows idx).rows = idx.map t.row := by
  unfold rows
  rw [nrows_gatherRows hne]
  apply List.ext_getElem
  · simp
  · intro j h1 h2
    simp only [List.getElem_map, List.getElem_range]
    exact row_gatherRows t idx j (by simpa using h1)

theorem rows_emptyLike {t : Table} (hne : t ≠ []) : t.emptyLike.rows = [] := by
  cases t with
  | nil => exact absurd rfl hne
  | cons c t => simp [emptyLike, rows, nrows]

theorem cols_emptyLike (t : Table) : t.emptyLike.cols = t.cols := by
  simp [emptyLike, cols, List.map_map, Function.comp_def]

/-- gathering all rows in order gives the table back -/
theorem gatherRows_range {t : Table} {n : Nat} (h : t.Rect n) : t.gatherRows (List.range n) = t := by
  unfold gatherRows
  calc t.map (fun c => (c.1, (List.range n).map fun i => c.2.getD i .none))
      = t.map (fun c => c) := by
        apply List.map_congr_left
        intro c hc
        have hl := h c hc
        congr 1
        apply List.ext_getElem
        · simp [hl]
        · intro j h1 h2
          simp only [List.getElem_map, List.getElem_range]
          simp [List.getD_eq_getElem?_getD, h2]
    _ = t := by simp

/-! ### positions of the true flags = filter -/

theorem mem_zip_range {α} {n : Nat} {xs : List α} {j : Nat} {x : α} (h : (j, x) ∈ (List.range n).zip xs) :
    xs[j]? = some x := by
  obtain ⟨i, hi, he⟩ := List.mem_iff_getElem.1 h
  rw [List.getElem_zip] at he
  simp only [List.getElem_range, Prod.mk.injEq] at he
  obtain ⟨rfl, rfl⟩ := he
  have : i < xs.length := by
    simp only [List.length_zip, List.length_range] at hi
    omega
  simp [this]

/-- selecting by the positions of the true flags of `xs.map p` is `xs.filter p` -/
theorem positions_filter {α} (xs : List α) (p : α → Bool) (d : α) :
    ((((List.range xs.length).zip (xs.map p)).filter (·.2)).map (·.1)).map (fun j => xs.getD j d)
      = xs.filter p := by
  rw [List.zip_map_right, List.filter_map, List.map_map, List.map_map]
  have h2 : ((fun x : Nat × Bool => x.2) ∘ Prod.map id p) = (p ∘ Prod.snd : Nat × α → Bool) := by
    funext q; rfl
  rw [h2]
  refine Eq.trans (List.map_congr_left (g := Prod.snd) ?_) ?_
  · intro q hq
    have hm := (List.mem_filter.1 hq).1
    have := mem_zip_range (j := q.1) (x := q.2) hm
    simp [List.getD_eq_getElem?_getD, this]
  · rw [← List.filter_map, List.map_snd_zip (by simp)]

theorem positions_range (n : Nat) (m : List Bool) (hm : m.length = n) :
    (((List.range n).zip m).filter (·.2)).map (·.1) = (List.range n).filter fun i => m.getD i false := by
  have hmm : m = (List.range n).map fun i => m.getD i false := by
    apply List.ext_getElem
    · simp [hm]
    · intro i h1 h2
      simp [List.getD_eq_getElem?_getD, h1]
  have := positions_filter (List.range n) (fun i => m.getD i false) 0
  simp only [List.length_range] at this
  rw [← hmm] at this
  rw [← this]
  symm
  calc List.map (fun j => (List.range n).getD j 0) _ = List.map (fun j => j) _ := by
        apply List.map_congr_left
        intro j hj
        obtain ⟨q, hq, rfl⟩ := List.mem_map.1 hj
        have := (List.of_mem_zip (a := q.1) (b := q.2) (List.mem_filter.1 hq).1).1
        have hlt : q.1 < n := by simpa using this
        simp [List.getD_eq_getElem?_getD, hlt]
    _ = _ := by simp

/-! ### masks -/

/-- a mask of the table's length: `zipper` pairs the rows with the flags -/
theorem maskIdx_full (n : Nat) (m : List Bool) (hm : m.length = n) :
    maskIdx n m = .ok ((((List.range n).zip m).filter (·.2)).map (·.1)) := by
  unfold maskIdx zipper2
  have hl : lens [(List.range n).length, m.length] = .ok n := by
    apply lens_const (by simp)
    intro l hl
    simp at hl
    rcases hl with rfl | rfl <;> simp [hm]
  rw [hl]
  simp only
  rw [bcast_self (by simp), bcast_self hm]

theorem maskIdx_lt {n : Nat} {m : List Bool} {idx : List Nat} (h : maskIdx n m = .ok idx) :
    ∀ i ∈ idx, i < n := by
  unfold maskIdx at h
  split at h
  · cases h
  · rename_i ps hps
    cases h
    unfold zipper2 at hps
    split at hps
    · cases hps
    · rename_i k hk
      cases hps
      intro i hi
      simp only [List.mem_map, List.mem_filter] at hi
      obtain ⟨p, ⟨hp, _⟩, rfl⟩ := hi
      have hmem := (List.of_mem_zip hp).1
      unfold bcast at hmem
      split at hmem
      · rename_i x hx
        have hx' := List.eq_of_mem_replicate hmem
        have hlen : n = 1 := by simpa using congrArg List.length hx
        subst hlen
        simp at hx
        omega
      · simpa using hmem

/-- `d[mask]` for a mask of the table's length: the flagged rows in order, all columns -/
theorem getMask_full {t : Table} {n : Nat} (h : t.Rect n) (hne : t ≠ []) (m : List Bool) (hm : m.length = n) :
    ∃ t', t.getMask m = .ok t' ∧ t'.cols = t.cols ∧
      t'.rows = ((t.rows.zip m).filter (·.2)).map (·.1) := by
  have hrows : t.rows = (List.range n).map t.row := by simp [rows, nrows_of_rect h hne]
  have key : ∀ idx : List Nat, idx = (((List.range n).zip m).filter (·.2)).map (·.1) →
      idx.map t.row = ((t.rows.zip m).filter (·.2)).map (·.1) := by
    intro idx hidx
    rw [hidx, hrows, List.zip_map_left, List.filter_map, List.map_map, List.map_map]
    rfl
  unfold getMask
  rw [nrows_of_rect h hne, maskIdx_full n m hm]
  simp only
  split
  · rename_i he
    refine ⟨_, rfl, cols_emptyLike t, ?_⟩
    rw [rows_emptyLike hne, ← key _ rfl]
    have : (((List.range n).zip m).filter (·.2)).map (·.1) = [] := by simpa using he
    rw [this]; rfl
  · refine ⟨_, rfl, cols_gatherRows t _, ?_⟩
    rw [rows_gatherRows hne]
    exact key _ rfl

/-! ### integer lists -/

theorem mapE_pyIdx {n : Nat} {is : List Int} {idx : List Nat}
    (h : mapE (fun i => match pyIdx n i with | some j => Except.ok j | Option.none => Except.error Err.index) is
      = .ok idx) : (∀ i ∈ is, (pyIdx n i).isSome) ∧ idx = is.filterMap (pyIdx n) := by
  induction is generalizing idx with
  | nil => simp [mapE] at h; subst h; simp
  | cons a as ih =>
    simp only [mapE] at h
    split at h
    · cases h
    · rename_i y hy
      split at h
      · cases h
      · rename_i ys hys
        cases h
        obtain ⟨h1, h2⟩ := ih hys
        cases hp : pyIdx n a with
        | none => simp [hp] at hy
        | some j =>
          simp only [hp, Except.ok.injEq] at hy
          subst hy
          refine ⟨?_, ?_⟩
          · intro i hi
            rcases List.mem_cons.1 hi with rfl | hm
            · simp [hp]
            · exact h1 i hm
          · simp [hp, h2]

theorem mapE_pyIdx_error {n : Nat} {is : List Int} {e : Err}
    (h : mapE (fun i => match pyIdx n i with | some j => Except.ok j | Option.none => Except.error Err.index) is
      = .error e) : e = .index ∧ ∃ i ∈ is, pyIdx n i = Option.none := by
  induction is with
  | nil => simp [mapE] at h
  | cons a as ih =>
    simp only [mapE] at h
    cases hp : pyIdx n a with
    | none =>
      simp only [hp] at h
      cases h
      exact ⟨rfl, a, List.mem_cons_self, hp⟩
    | some j =>
      simp only [hp] at h
      split at h
      · rename_i e' he'
        cases h
        obtain ⟨h1, i, hi, h2⟩ := ih he'
        exact ⟨h1, i, List.mem_cons_of_mem _ hi, h2⟩
      · cases h

theorem filterMap_congr' {α β} {f g : α → Option β} {l : List α} (h : ∀ x ∈ l, f x = g x) :
    l.filterMap f = l.filterMap g := by
  induction l with
  | nil => rfl
  | cons a as ih =>
    simp only [List.filterMap_cons, h a List.mem_cons_self]
    rw [ih (fun x hx => h x (List.mem_cons_of_mem _ hx))]

theorem getTake_ok {t t' : Table} {n : Nat} (h : t.Rect n) (hne : t ≠ []) {is : List Int}
    (ht : t.getTake is = .ok t') :
    t'.cols = t.cols ∧ (∀ i ∈ is, (pyIdx n i).isSome) ∧
      t'.rows = is.filterMap fun i => (pyIdx n i).map t.row := by
  unfold getTake at ht
  rw [nrows_of_rect h hne] at ht
  split at ht
  · rename_i he
    have : is = [] := by simpa using he
    subst this
    cases ht
    exact ⟨cols_emptyLike t, by simp, by simp [rows_emptyLike hne]⟩
  · split at ht
    · cases ht
    · rename_i idx hidx
      cases ht
      obtain ⟨h1, h2⟩ := mapE_pyIdx hidx
      refine ⟨cols_gatherRows t _, h1, ?_⟩
      rw [rows_gatherRows hne, h2, List.map_filterMap]

/-! ### slices -/

theorem getSlice_eq_gather {t : Table} {n : Nat} (h : t.Rect n) (a b s : Option Int) (hs : s ≠ some 0) :
    t.getSlice a b s = .ok (t.gatherRows (sliceIdx n a b (s.getD 1))) := by
  unfold getSlice
  have : (s == some 0) = false := by
    cases s with
    | none => rfl
    | some x =>
      have : x ≠ 0 := fun hx => hs (by rw [hx])
      simp [this]
  rw [this]
  simp only [Bool.false_and, Bool.false_eq_true, if_false, gatherRows]
  congr 1
  apply List.map_congr_left
  intro c hc
  simp [pySlice, h c hc]

/-! ### concatenation -/

theorem mem_dedupKeys {k : String} {ks : List String} : k ∈ dedupKeys ks ↔ k ∈ ks := by
  induction ks with
  | nil => simp [dedupKeys]
  | cons a as ih =>
    simp only [dedupKeys, List.mem_cons, List.mem_filter, ih]
    constructor
    · rintro (h | ⟨h, _⟩)
      · exact Or.inl h
      · exact Or.inr h
    · intro h
      by_cases hk : k = a
      · exact Or.inl hk
      · rcases h with h | h
        · exact Or.inl h
        · exact Or.inr ⟨h, by simpa using hk⟩

theorem col?_map_keys (keys : List String) (F : String → List Cell) (k : String) (hk : k ∈ keys) :
    Table.col? (keys.map fun k' => (k', F k')) k = some (F k) := by
  unfold Table.col?
  induction keys with
  | nil => cases hk
  | cons a as ih =>
    simp only [List.map_cons, List.find?_cons]
    by_cases ha : a = k
    · subst ha; simp
    · have : (a == k) = false := by simpa using ha
      simp only [this]
      rcases List.mem_cons.1 hk with rfl | hm
      · exact absurd rfl ha
      · exact ih hm

/-- a family of columns, each the concatenation of per-table pieces of the tables' lengths: its rows are
the tables' rows one table after the other -/
theorem rows_flatMap {α} (ts : List α) (len : α → Nat) (keys : List String) (g : String → α → List Cell)
    (hg : ∀ k ∈ keys, ∀ t ∈ ts, (g k t).length = len t) :
    (List.range ((ts.map len).sum)).map (fun j => keys.map fun k => (ts.flatMap (g k)).getD j .none)
      = ts.flatMap fun t => (List.range (len t)).map fun i => keys.map fun k => (g k t).getD i .none := by
  induction ts with
  | nil => rfl
  | cons t ts ih =>
    simp only [List.map_cons, List.sum_cons, List.flatMap_cons, List.range_add, List.map_append, List.map_map]
    congr 1
    · apply List.map_congr_left
      intro j hj
      apply List.map_congr_left
      intro k hk
      have hl := hg k hk t List.mem_cons_self
      have hj' : j < (g k t).length := by rw [hl]; simpa using hj
      simp [List.getD_eq_getElem?_getD, List.getElem?_append_left hj']
    · rw [← ih (fun k hk t' ht' => hg k hk t' (List.mem_cons_of_mem _ ht'))]
      apply List.map_congr_left
      intro j _
      apply List.map_congr_left
      intro k hk
      have hl := hg k hk t List.mem_cons_self
      simp only [List.getD_eq_getElem?_getD]
      rw [List.getElem?_append_right (by omega)]
      congr 2
      omega

theorem abs_rows_getD (t : Table) (n : Nat) (hr : t.Rect n) (hne : t ≠ []) (j : Nat) (hj : j < n) :
    t.rows.getD j [] = t.row j := by
  simp [rows, nrows_of_rect hr hne, List.getD_eq_getElem?_getD, hj]

theorem lookup_row (t : Table) (i : Nat) (k : String) :
    Recs.lookup t.cols (t.row i) k = (t.getCol k).getD i .none := by
  have hrow : t.cols.zip (t.row i) = t.map fun c => (c.1, c.2.getD i .none) := by
    simp [cols, row, List.zip_map']
  unfold Recs.lookup getCol col?
  rw [hrow, List.find?_map]
  have : ((fun x : String × Cell => x.1 == k) ∘ fun c : String × List Cell => (c.1, c.2.getD i Cell.none))
      = fun c => c.1 == k := by funext c; rfl
  rw [this]
  cases t.find? (fun c => c.1 == k) with
  | none =>
    simp only [Option.map_none, Option.getD_none, List.getD_eq_getElem?_getD, List.getElem?_replicate]
    split <;> rfl
  | some e => simp

end Table
end Pyg
