/-
  Helper lemmas for the DataFrame part of C08 (PygModel/OpsF.lean): sorted lists of column names, the shape of
  reindexed frames, the per-column kernel.
-/
import PygModel.OpsF
import PygProofs.Lemmas.OpsLemmas

namespace Pyg.Ops
open Pyg Pyg.Align

/-! ### strictly increasing lists of names -/

abbrev SortedS (l : List String) : Prop := l.Pairwise (· < ·)

theorem str_tri (a b : String) : a < b ∨ a = b ∨ b < a := by
  by_cases h1 : a < b
  · exact .inl h1
  · by_cases h2 : b < a
    · exact .inr (.inr h2)
    · exact .inr (.inl (String.le_antisymm (String.not_lt.mp h2) (String.not_lt.mp h1)))

theorem mem_insS (t s : String) (l : List String) : t ∈ insS s l ↔ t = s ∨ t ∈ l := by
  induction l with
  | nil => simp [insS]
  | cons x xs ih =>
    simp only [insS]
    split
    · simp
    · split
      · rename_i h1 h2; subst h2; simp
      · simp [ih]; constructor
        · rintro (h | h | h) <;> simp [h]
        · rintro (h | h | h) <;> simp [h]

theorem sorted_insS (s : String) (l : List String) (h : SortedS l) : SortedS (insS s l) := by
  induction l with
  | nil => simp [insS]
  | cons x xs ih =>
    have hx := List.pairwise_cons.mp h
    simp only [insS]
    split
    · rename_i h1
      refine List.pairwise_cons.mpr ⟨?_, h⟩
      intro y hy
      rcases List.mem_cons.mp hy with rfl | hy
      · exact h1
      · exact String.lt_trans h1 (hx.1 y hy)
    · split
      · exact h
      · rename_i h1 h2
        refine List.pairwise_cons.mpr ⟨?_, ih hx.2⟩
        intro y hy
        rcases (mem_insS y s xs).mp hy with rfl | hy
        · rcases str_tri y x with h3 | h3 | h3
          · exact absurd h3 h1
          · exact absurd h3 h2
          · exact h3
        · exact hx.1 y hy

theorem mem_sortS (l : List String) (t : String) : t ∈ sortS l ↔ t ∈ l := by
  induction l with
  | nil => simp [sortS]
  | cons x xs ih =>
    have : sortS (x :: xs) = insS x (sortS xs) := rfl
    rw [this, mem_insS, ih]; simp

theorem sorted_sortS (l : List String) : SortedS (sortS l) := by
  induction l with
  | nil => simp [sortS]
  | cons x xs ih => exact sorted_insS x _ ih

/-- two strictly increasing lists of names with the same members are equal -/
theorem sortedS_ext (a b : List String) (ha : SortedS a) (hb : SortedS b) (h : ∀ t, t ∈ a ↔ t ∈ b) : a = b := by
  induction a generalizing b with
  | nil =>
    cases b with
    | nil => rfl
    | cons y ys => have := (h y).mpr (by simp); simp at this
  | cons x xs ih =>
    cases b with
    | nil => have := (h x).mp (by simp); simp at this
    | cons y ys =>
      have hx := List.pairwise_cons.mp ha
      have hy := List.pairwise_cons.mp hb
      have hxy : x = y := by
        have h1 := (h x).mp (by simp)
        have h2 := (h y).mpr (by simp)
        rcases List.mem_cons.mp h1 with e | h1
        · exact e
        · rcases List.mem_cons.mp h2 with e | h2
          · exact e.symm
          · exact absurd (hy.1 x h1) (String.lt_asymm (hx.1 y h2))
      subst hxy
      congr 1
      apply ih ys hx.2 hy.2
      intro t
      constructor
      · intro ht
        have := (h t).mp (by simp [ht])
        rcases List.mem_cons.mp this with e | h'
        · subst e; exact absurd (hx.1 t ht) (String.lt_irrefl _)
        · exact h'
      · intro ht
        have := (h t).mpr (by simp [ht])
        rcases List.mem_cons.mp this with e | h'
        · subst e; exact absurd (hy.1 t ht) (String.lt_irrefl _)
        · exact h'

theorem sortedS_nodup (l : List String) (h : SortedS l) : l.Nodup := by
  refine List.Pairwise.imp ?_ h
  intro a b hab e; subst e; exact String.lt_irrefl _ hab

theorem mem_interS (a b : List String) (t : String) : t ∈ interS a b ↔ t ∈ a ∧ t ∈ b := by
  simp [interS, List.mem_filter]

theorem mem_unionS (a b : List String) (t : String) : t ∈ unionS a b ↔ t ∈ a ∨ t ∈ b := by
  simp only [unionS, List.mem_append, List.mem_filter]
  constructor
  · rintro (h | ⟨h, _⟩) <;> simp [h]
  · rintro (h | h)
    · exact .inl h
    · by_cases ha : t ∈ a
      · exact .inl ha
      · exact .inr ⟨h, by simpa using ha⟩

/-! ### reindexed frames -/

/-- the value a Series gives at label `t` after `_df_reindex(s, index, method)` -/
def lookR (s : RSeries) (m : Option Dir) (t : Int) : Option Rat :=
  match m with
  | Option.none => valueAtR s t
  | some .ffill => (posAsOf (nonaR s).idx t).bind fun i => ((nonaR s).vals[i]?).join
  | some .bfill => (posNext (nonaR s).idx t).bind fun i => ((nonaR s).vals[i]?).join

theorem reindexR_eq (s : RSeries) (ix : List Int) (m : Option Dir) : reindexR s ix m = { idx := ix, vals := ix.map (lookR s m) } := by
  cases m with
  | none => rfl
  | some d => cases d <;> rfl

/-- the cell `(t, c)` of `f` as an operator sees it: the reindexed value, or `d` when `f` has no column `c` -/
def cellD (d : Option Rat) (f : RFrame) (m : Option Dir) (c : String) (t : Int) : Option Rat :=
  match colOf f c with
  | some col => lookF f m col t
  | Option.none => d

theorem reindexF_names (f : RFrame) (ix : List Int) (m : Option Dir) : (reindexF f ix m).names = f.names := by
  simp [reindexF, RFrame.names, List.map_map, Function.comp_def]

theorem reindexF_ncols (f : RFrame) (ix : List Int) (m : Option Dir) : (reindexF f ix m).cols.length = f.cols.length := by
  simp [reindexF]

theorem colOf_reindexF (f : RFrame) (ix : List Int) (m : Option Dir) (c : String) :
    colOf (reindexF f ix m) c = (colOf f c).map fun col => ix.map (lookF f m col) := by
  simp only [colOf, reindexF, List.find?_map, Option.map_map]
  rfl

theorem colOf_some_mem (f : RFrame) (c : String) (col : RCol) (h : colOf f c = some col) : c ∈ f.names := by
  simp only [colOf, Option.map_eq_some_iff] at h
  obtain ⟨p, hp, rfl⟩ := h
  have h1 := List.mem_of_find?_eq_some hp
  have h2 := List.find?_some hp
  simp at h2
  simp only [RFrame.names, List.mem_map]
  exact ⟨p, h1, h2⟩

theorem colOf_none_iff (f : RFrame) (c : String) : colOf f c = Option.none ↔ c ∉ f.names := by
  simp [colOf, RFrame.names, List.find?_eq_none]
  constructor
  · intro h x y; exact h _ _ y rfl
  · intro h a b hab e; subst e; exact h _ hab

/-- `_df_column` of a reindexed frame with several columns -/
theorem colArg_df (d : Option Rat) (c : String) (f : RFrame) (ix : List Int) (m : Option Dir) (hf : f.cols.length > 1) :
    colArg d c (.df (reindexF f ix m)) =
      match colOf f c with
      | some col => .ts { idx := ix, vals := ix.map (lookF f m col) }
      | Option.none => .num d := by
  have h1 : ¬ (reindexF f ix m).cols.length = 1 := by rw [reindexF_ncols]; omega
  simp only [colArg, h1, if_false, colOf_reindexF]
  cases colOf f c <;> rfl

/-! ### the kernel on columns given as functions of the label -/

theorem bcast_tt (op : Op) (ix : List Int) (fa fb : Int → Option Rat) :
    bcast ix (kernel op (.ts { idx := ix, vals := ix.map fa }) (.ts { idx := ix, vals := ix.map fb })) =
      ix.map fun t => op.appO (fa t) (fb t) := by
  simp [bcast, kernel, List.zip_map', List.map_map, Function.comp_def]

theorem bcast_tn (op : Op) (ix : List Int) (fa : Int → Option Rat) (q : Option Rat) :
    bcast ix (kernel op (.ts { idx := ix, vals := ix.map fa }) (.num q)) = ix.map fun t => op.appO (fa t) q := by
  simp [bcast, kernel, List.map_map, Function.comp_def]

theorem bcast_nt (op : Op) (ix : List Int) (fb : Int → Option Rat) (q : Option Rat) :
    bcast ix (kernel op (.num q) (.ts { idx := ix, vals := ix.map fb })) = ix.map fun t => op.appO q (fb t) := by
  simp [bcast, kernel, List.map_map, Function.comp_def]

theorem bcast_nn (op : Op) (ix : List Int) (p q : Option Rat) :
    bcast ix (kernel op (.num p) (.num q)) = ix.map fun _ => op.appO p q := by
  simp [bcast, kernel]

/-- one column of the result of two frames with several columns each -/
theorem col_value (op : Op) (d : Option Rat) (c : String) (a b : RFrame) (ix : List Int) (m : Option Dir)
    (ha : a.cols.length > 1) (hb : b.cols.length > 1) :
    bcast ix (kernel op (colArg d c (.df (reindexF a ix m))) (colArg d c (.df (reindexF b ix m)))) =
      ix.map fun t => op.appO (cellD d a m c t) (cellD d b m c t) := by
  rw [colArg_df d c a ix m ha, colArg_df d c b ix m hb]
  unfold cellD
  cases colOf a c <;> cases colOf b c <;> simp only [bcast_tt, bcast_tn, bcast_nt, bcast_nn]

theorem multiNames_frames (a b : RFrame) (ha : a.cols.length > 1) (hb : b.cols.length > 1) :
    multiNames [.df a, .df b] = [a.names, b.names] := by
  simp [multiNames, ha, hb]

/-- the columns of the result of two frames with several columns each: the common header in its own order if both
have the same header, else the sorted intersection / union -/
def frameCols (ch : ColHow) (a b : RFrame) : List String :=
  if b.names = a.names then a.names else colsJoin ch a.names [b.names]

theorem resultCols_two (ch : ColHow) (a b : RFrame) : resultCols ch [a.names, b.names] = some (frameCols ch a b) := by
  simp only [resultCols, frameCols, List.all_cons, List.all_nil, Bool.and_true, beq_iff_eq]
  split <;> rfl

/-- reading the cell `(t, c)` of a frame given column by column as functions of the label -/
theorem cell_of_built (d : Option Rat) (ix : List Int) (cols : List String) (g : String → Int → Option Rat)
    (c : String) (t : Int) (hc : c ∈ cols) (ht : t ∈ ix) :
    cellD d { idx := ix, cols := cols.map fun c => (c, ix.map (g c)) } Option.none c t = g c t := by
  have h1 : colOf { idx := ix, cols := cols.map fun c => (c, ix.map (g c)) } c = some (ix.map (g c)) := by
    simp only [colOf, List.find?_map]
    cases hf : List.find? ((fun x : String × RCol => x.1 == c) ∘ fun c => (c, ix.map (g c))) cols with
    | none =>
      rw [List.find?_eq_none] at hf
      have := hf c hc
      simp at this
    | some c' =>
      have := List.find?_some hf
      simp at this
      subst this
      rfl
  obtain ⟨i, hi⟩ := posOf_of_mem ix t ht
  have h2 := (posOf_some ix t i hi).1
  simp only [cellD, h1, lookF, srcRow, hi, Option.bind_some, List.getElem?_map, h2, Option.map_some, Option.join_some]

theorem appO_neutral_right (op : Op) (x : Option Rat) : op.appO x (some op.neutral) = x := by
  cases op <;> cases x <;> simp [Op.appO, Op.app, Op.neutral, Rat.add_zero, Rat.mul_one] <;> grind

theorem appO_neutral_left_add (x : Option Rat) : Op.appO .add (some (Op.neutral .add)) x = x := by
  cases x <;> simp [Op.appO, Op.app, Op.neutral, Rat.zero_add]

theorem appO_neutral_left_mul (x : Option Rat) : Op.appO .mul (some (Op.neutral .mul)) x = x := by
  cases x <;> simp [Op.appO, Op.app, Op.neutral, Rat.one_mul]

/-- a column the frame has: the default is irrelevant -/
theorem cellD_mem (d d' : Option Rat) (f : RFrame) (m : Option Dir) (c : String) (t : Int) (h : c ∈ f.names) :
    cellD d f m c t = cellD d' f m c t := by
  unfold cellD
  cases hc : colOf f c with
  | none => exact absurd h ((colOf_none_iff f c).mp hc)
  | some col => rfl

/-- a column the frame lacks: the default -/
theorem cellD_not_mem (d : Option Rat) (f : RFrame) (m : Option Dir) (c : String) (t : Int) (h : c ∉ f.names) :
    cellD d f m c t = d := by
  unfold cellD
  rw [(colOf_none_iff f c).mpr h]

theorem frameCols_comm (ch : ColHow) (hch : ch = .ij ∨ ch = .oj) (a b : RFrame) : frameCols ch a b = frameCols ch b a := by
  unfold frameCols
  by_cases h : b.names = a.names
  · simp [h]
  · have h' : ¬ a.names = b.names := fun e => h e.symm
    simp only [h, h', if_false]
    apply sortedS_ext _ _ (sorted_sortS _) (sorted_sortS _)
    intro t
    rcases hch with rfl | rfl
    · simp only [mem_sortS, List.foldl_cons, List.foldl_nil, mem_interS]; exact And.comm
    · simp only [mem_sortS, List.foldl_cons, List.foldl_nil, mem_unionS]; exact Or.comm

/-- one column of the result of a frame with several columns and a Series -/
theorem col_value_ts (op : Op) (d : Option Rat) (c : String) (a : RFrame) (s : RSeries) (ix : List Int) (m : Option Dir)
    (ha : a.cols.length > 1) :
    bcast ix (kernel op (colArg d c (.df (reindexF a ix m))) (colArg d c (.ts (reindexR s ix m)))) =
      ix.map fun t => op.appO (cellD d a m c t) (lookR s m t) := by
  rw [colArg_df d c a ix m ha, reindexR_eq]
  unfold cellD
  cases colOf a c <;> simp only [colArg, bcast_tt, bcast_nt]

theorem col_value_ts' (op : Op) (d : Option Rat) (c : String) (a : RFrame) (s : RSeries) (ix : List Int) (m : Option Dir)
    (ha : a.cols.length > 1) :
    bcast ix (kernel op (colArg d c (.ts (reindexR s ix m))) (colArg d c (.df (reindexF a ix m)))) =
      ix.map fun t => op.appO (lookR s m t) (cellD d a m c t) := by
  rw [colArg_df d c a ix m ha, reindexR_eq]
  unfold cellD
  cases colOf a c <;> simp only [colArg, bcast_tt, bcast_tn]

theorem col_value_num (op : Op) (d : Option Rat) (c : String) (a : RFrame) (q : Option Rat) (ix : List Int) (m : Option Dir)
    (ha : a.cols.length > 1) :
    bcast ix (kernel op (colArg d c (.df (reindexF a ix m))) (colArg d c (.num q))) =
      ix.map fun t => op.appO (cellD d a m c t) q := by
  rw [colArg_df d c a ix m ha]
  unfold cellD
  cases colOf a c <;> simp only [colArg, bcast_tn, bcast_nn]

theorem col_value_num' (op : Op) (d : Option Rat) (c : String) (a : RFrame) (q : Option Rat) (ix : List Int) (m : Option Dir)
    (ha : a.cols.length > 1) :
    bcast ix (kernel op (colArg d c (.num q)) (colArg d c (.df (reindexF a ix m)))) =
      ix.map fun t => op.appO q (cellD d a m c t) := by
  rw [colArg_df d c a ix m ha]
  unfold cellD
  cases colOf a c <;> simp only [colArg, bcast_nt, bcast_nn]

theorem resultCols_one (ch : ColHow) (a : RFrame) : resultCols ch [a.names] = some a.names := by
  simp [resultCols]

theorem names_ne_nil (a : RFrame) (ha : a.cols.length > 1) : a.names ≠ [] := by
  intro h
  have : a.names.length = a.cols.length := by simp [RFrame.names]
  rw [h] at this
  simp at this
  omega

/-! ### a frame with one column -/

theorem zip_as_range (idx : List Int) (col : RCol) (h : col.length = idx.length) :
    idx.zip col = (List.range idx.length).map fun i => (idx.getD i 0, (col[i]?).join) := by
  apply List.ext_getElem
  · simp [h]
  · intro i h1 h2
    have hi : i < idx.length := by simp at h2; exact h2
    have hc : i < col.length := by omega
    simp [List.getElem?_eq_getElem hi, List.getElem?_eq_getElem hc]

theorem validRows_one (idx : List Int) (n : String) (col : RCol) :
    validRows { idx := idx, cols := [(n, col)] } = (List.range idx.length).filter fun i => ((col[i]?).join).isSome := by
  simp [validRows]

theorem nonaR_as_rows (idx : List Int) (n : String) (col : RCol) (h : col.length = idx.length) :
    (nonaR { idx := idx, vals := col }).idx = (validRows { idx := idx, cols := [(n, col)] }).map (fun i => idx.getD i 0) ∧
    (nonaR { idx := idx, vals := col }).vals = (validRows { idx := idx, cols := [(n, col)] }).map (fun i => (col[i]?).join) := by
  simp only [nonaR, validRows_one, zip_as_range idx col h, List.filter_map, List.map_map]
  constructor <;> rfl

/-- a frame with one (rectangular) column is reindexed like the Series of that column, with any fill method -/
theorem lookF_one (idx : List Int) (n : String) (col : RCol) (h : col.length = idx.length) (m : Option Dir) (t : Int) :
    lookF { idx := idx, cols := [(n, col)] } m col t = lookR { idx := idx, vals := col } m t := by
  obtain ⟨h1, h2⟩ := nonaR_as_rows idx "" col h
  cases m with
  | none => rfl
  | some d =>
    cases d <;> simp only [lookF, srcRow, lookR, h1, h2, List.getElem?_map, Option.bind_assoc] <;>
      congr 1 <;> funext j <;> cases (validRows { idx := idx, cols := [("", col)] })[j]? <;> simp

theorem colArg_one (d : Option Rat) (c : String) (idx : List Int) (n : String) (col : RCol) (ix : List Int) (m : Option Dir)
    (h : col.length = idx.length) :
    colArg d c (.df (reindexF { idx := idx, cols := [(n, col)] } ix m)) = .ts (reindexR { idx := idx, vals := col } ix m) := by
  rw [reindexR_eq]
  simp only [colArg, reindexF, List.map_cons, List.map_nil, List.length_cons, List.length_nil, if_true, List.head?_cons, Option.map_some,
    Option.getD_some]
  congr 2
  apply List.map_congr_left
  intro t _
  exact lookF_one idx n col h m t

/-- a Series result packed as a one-column frame (`pd.DataFrame(res)`) -/
def wrap1 (name : String) : Operand → FOperand
  | .ts r => .df { idx := r.idx, cols := [(name, r.vals)] }
  | .num q => .num q

/-! ### aggregates on frames -/


theorem mem_foldl_interS (c : List String) (cs : List (List String)) (t : String) :
    t ∈ cs.foldl interS c ↔ t ∈ c ∧ ∀ j ∈ cs, t ∈ j := by
  induction cs generalizing c with
  | nil => simp
  | cons x xs ih =>
    simp only [List.foldl_cons]
    rw [ih, mem_interS]
    simp only [List.mem_cons, forall_eq_or_imp]
    exact and_assoc

theorem mem_foldl_unionS (c : List String) (cs : List (List String)) (t : String) :
    t ∈ cs.foldl unionS c ↔ t ∈ c ∨ ∃ j ∈ cs, t ∈ j := by
  induction cs generalizing c with
  | nil => simp
  | cons x xs ih =>
    simp only [List.foldl_cons]
    rw [ih, mem_unionS]
    simp only [List.mem_cons, exists_eq_or_imp]
    exact or_assoc

/-- the joint header of the aggregates -/
def aggCols (ch : ColHow) (f : RFrame) (fs : List RFrame) : List String := colsJoin ch f.names (fs.map (·.names))

theorem colOf_built (ix : List Int) (cols : List String) (v : String → RCol) (c : String) (hc : c ∈ cols) :
    colOf { idx := ix, cols := cols.map fun c => (c, v c) } c = some (v c) := by
  simp only [colOf, List.find?_map]
  cases hf : List.find? ((fun x : String × RCol => x.1 == c) ∘ fun c => (c, v c)) cols with
  | none =>
    rw [List.find?_eq_none] at hf
    have := hf c hc
    simp at this
  | some c' =>
    have := List.find?_some hf
    simp at this
    subst this
    rfl

theorem col_recol (cols : List String) (x : RFrame) (ix : List Int) (m : Option Dir) (c : String) (hc : c ∈ cols) :
    colOf (recolumnF cols (reindexF x ix m)) c = some (ix.map (cellD Option.none x m c)) := by
  unfold recolumnF
  rw [colOf_built _ cols _ c hc, colOf_reindexF]
  unfold cellD
  cases colOf x c <;> simp [reindexF]

theorem joinIndex_two (how : How) (x y : List Int) : ∃ ix, joinIndex how [x, y] = some ix := by
  cases how <;> exact ⟨_, rfl⟩

end Pyg.Ops
