/-
  Helper lemmas for the month / quarter / year units of dt_bump and for `_ymd` (C09, C04): what the generated
  `Gen.ym` / `Gen.ymd` compute, and what `datetime(y, m, 1) + (d-1) days` is in calendar terms.
-/
import PygModel.Bump
import PygProofs.Lemmas.BumpLemmas
import PygProofs.Lemmas.GregPeriod

namespace Pyg.Bump
open Pyg Pyg.Gen Pyg.Greg

/-- for a day-of-month argument (anything ≤ 1500) the day/year swap guard of `_ymd` is off -/
theorem ymd_small_day (y m d : Int) (hd : d ≤ 1500) :
    Gen.ymd y m d = ⟨(Gen.ym y m).1, (Gen.ym y m).2, d - 1⟩ := by
  unfold Gen.ymd
  have h : ¬ (d > 1500 ∧ d < 3000 ∧ y > 0 ∧ y < 32 ∧ m > 0 ∧ m < 13) := by omega
  simp only [h, if_false]

/-- `ym` is determined by the month count `12*y + m` -/
theorem ym_of_normal (Y M y m : Int) (h1 : 1 ≤ m) (h2 : m ≤ 12) (h : 12 * Y + M = 12 * y + m) :
    Gen.ym Y M = (y, m) := by
  unfold Gen.ym; simp only [Prod.mk.injEq]; omega

/-- `ym` depends on the month count `12*y + m` only -/
theorem ym_congr (Y M Y' M' : Int) (h : 12 * Y + M = 12 * Y' + M') : Gen.ym Y M = Gen.ym Y' M' := by
  unfold Gen.ym; simp only [Prod.mk.injEq]; omega

/-- `(t.year, t.month, t.day)` of a date built from valid fields: any year 1..9999 -/
theorem ymdOf_mkDate (y m d : Nat) (v : Valid y m d) : ymdOf (mkDate y m d) = ⟨y, m, d⟩ := by
  unfold ymdOf mkDate
  rw [ordOf_ofOrd, Int.toNat_natCast]
  exact fromOrd_ord_all y m d v.toU

theorem checkRange_mkDate (y m d : Nat) (v : Valid y m d) : checkRange (mkDate y m d) = .ok (mkDate y m d) := by
  rw [checkRange_ok]
  have := ord_range y m d v
  unfold mkDate ofOrd MAXUS DAYUS
  omega

/-- the month after `(y, m)` -/
def nextMonth (y m : Nat) : Nat × Nat := if m < 12 then (y, m + 1) else (y + 1, 1)

/-- `datetime(y, m, 1) + (d - 1) days` for a day number 1..31: the day `d` of that month when the month has it,
otherwise the excess days rolled into the following month -/
theorem mkMonthPlus_day (y m d : Nat) (hy : 1 ≤ y ∧ y < 9999) (hm : 1 ≤ m ∧ m ≤ 12) (hd : 1 ≤ d ∧ d ≤ 31) :
    mkMonthPlus ⟨y, m, (d : Int) - 1⟩ =
      .ok (if d ≤ dim y m then mkDate y m d else mkDate (nextMonth y m).1 (nextMonth y m).2 (d - dim y m)) := by
  unfold mkMonthPlus
  have hc : (1 : Int) ≤ (y : Int) ∧ (y : Int) ≤ 9999 ∧ (1 : Int) ≤ (m : Int) ∧ (m : Int) ≤ 12 := by omega
  simp only [hc, and_self, if_true, Int.toNat_natCast]
  have hb := dim_bounds y m hm.1 hm.2
  split
  · rename_i h
    have v : Valid y m d := by unfold Valid; omega
    have e : ((ord y m 1 : Nat) : Int) + ((d : Int) - 1) = ((ord y m d : Nat) : Int) := by unfold ord; omega
    rw [e]; exact checkRange_mkDate y m d v
  · rename_i h
    have hc := month_contig y m hy.1 hm.1 hm.2
    unfold nextMonth
    split
    · rename_i hlt
      simp only [hlt, if_true] at hc ⊢
      have hb2 := dim_bounds y (m + 1) (by omega) (by omega)
      have v : Valid y (m + 1) (d - dim y m) := by unfold Valid; omega
      have e : ((ord y m 1 : Nat) : Int) + ((d : Int) - 1) = ((ord y (m + 1) (d - dim y m) : Nat) : Int) := by
        unfold ord at *; omega
      rw [e]; exact checkRange_mkDate _ _ _ v
    · rename_i hlt
      simp only [hlt, if_false] at hc ⊢
      have hb2 := dim_bounds (y + 1) 1 (by omega) (by omega)
      have v : Valid (y + 1) 1 (d - dim y m) := by unfold Valid; omega
      have e : ((ord y m 1 : Nat) : Int) + ((d : Int) - 1) = ((ord (y + 1) 1 (d - dim y m) : Nat) : Int) := by
        unfold ord at *; omega
      rw [e]; exact checkRange_mkDate _ _ _ v

/-- `datetime(y, m, 1) + (d - 1) days` for a day every month has (d ≤ 28), any year 1..9999 -/
theorem mkMonthPlus_small (y m d : Nat) (hy : 1 ≤ y ∧ y ≤ 9999) (hm : 1 ≤ m ∧ m ≤ 12) (hd : 1 ≤ d ∧ d ≤ 28) :
    mkMonthPlus ⟨y, m, (d : Int) - 1⟩ = .ok (mkDate y m d) := by
  unfold mkMonthPlus
  have hc : (1 : Int) ≤ (y : Int) ∧ (y : Int) ≤ 9999 ∧ (1 : Int) ≤ (m : Int) ∧ (m : Int) ≤ 12 := by omega
  simp only [hc, and_self, if_true, Int.toNat_natCast]
  have hb := dim_bounds y m hm.1 hm.2
  have v : Valid y m d := by unfold Valid; omega
  have e : ((ord y m 1 : Nat) : Int) + ((d : Int) - 1) = ((ord y m d : Nat) : Int) := by unfold ord; omega
  rw [e]; exact checkRange_mkDate y m d v

/-- a month / year step from a day of month ≤ 28 at midnight, any start date: it succeeds iff the target year is 1..9999 and
then keeps the day of month -/
theorem ymdShift_small (y m d : Nat) (v : Valid y m d) (hd : d ≤ 28) (dy dm r : Int) :
    applyStep (mkDate y m d) (.ymdShift dy dm) = .ok r ↔
      ∃ y' m' : Nat, Gen.ym ((y : Int) + dy) ((m : Int) + dm) = ((y' : Int), (m' : Int)) ∧ 1 ≤ y' ∧ y' ≤ 9999 ∧
        1 ≤ m' ∧ m' ≤ 12 ∧ r = mkDate y' m' d := by
  have hv := v
  unfold Valid at hv
  simp only [applyStep, ymdOf_mkDate y m d v, ymdDate]
  rw [ymd_small_day _ _ _ (by omega)]
  have hn : 1 ≤ (Gen.ym ((y : Int) + dy) ((m : Int) + dm)).2 ∧ (Gen.ym ((y : Int) + dy) ((m : Int) + dm)).2 ≤ 12 := by
    unfold Gen.ym; simp only []; omega
  generalize Gen.ym ((y : Int) + dy) ((m : Int) + dm) = p at hn
  obtain ⟨Y, M⟩ := p
  simp only at hn ⊢
  constructor
  · intro h
    by_cases hY : 1 ≤ Y ∧ Y ≤ 9999
    · refine ⟨Y.toNat, M.toNat, by rw [Int.toNat_of_nonneg (by omega), Int.toNat_of_nonneg (by omega)], by omega, by omega, by omega, by omega, ?_⟩
      have e : (⟨Y, M, (d : Int) - 1⟩ : MonthPlus) = ⟨(Y.toNat : Int), (M.toNat : Int), (d : Int) - 1⟩ := by
        rw [Int.toNat_of_nonneg (by omega), Int.toNat_of_nonneg (by omega)]
      rw [e, mkMonthPlus_small Y.toNat M.toNat d (by omega) (by omega) (by omega)] at h
      cases h; rfl
    · unfold mkMonthPlus at h
      have : ¬ (1 ≤ Y ∧ Y ≤ 9999 ∧ 1 ≤ M ∧ M ≤ 12) := by omega
      simp only [this, if_false] at h
      cases h
  · intro ⟨y', m', e, h1, h2, h3, h4, hr⟩
    simp only [Prod.mk.injEq] at e
    rw [e.1, e.2, hr]
    exact mkMonthPlus_small y' m' d ⟨h1, h2⟩ ⟨h3, h4⟩ (by omega)

end Pyg.Bump
