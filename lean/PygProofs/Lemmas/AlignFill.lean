/-
  Helper lemmas for C03: the model with method LISTS and `limit` (`reindexFill`, `reindexLeafM`, `reindexTreeM`, `syncJM`,
  `presyncCallM`) refines the model with one optional direction (`reindexFrame`, `reindexLeaf`, `reindexTree`, `syncJ`,
  `presyncCall`) that the older theorems speak about, and the container lemmas for the general functions.
-/
import PygModel.Align
import PygProofs.Lemmas.AlignLemmas
import PygProofs.Lemmas.AlignTree
import PygProofs.Lemmas.AlignLimit

namespace Pyg.Align
open Pyg Pyg.Fill

theorem reindexFrameL_nolimit (f : Frame) (idx : List Int) (d : Dir) :
    reindexFrameL f idx d Option.none = reindexFrame f idx (some d) := by
  simp only [reindexFrameL, reindexFrame, asofColLim_nolimit]

theorem fillna_nil' (lim : Option Nat) (f : Frame) : fillna [] lim f = .ok f := rfl

/-- one optional direction, no limit: the general function is the old one -/
theorem reindexFill_single (f : Frame) (idx : List Int) (m : Option Dir) :
    reindexFill f idx (fillMethods m) Option.none = .ok (reindexFrame f idx m) := by
  cases m with
  | none => rfl
  | some d =>
    cases d with
    | ffill => simp only [fillMethods, reindexFill, limOk]; rw [reindexFrameL_nolimit]; rfl
    | bfill => simp only [fillMethods, reindexFill, limOk]; rw [reindexFrameL_nolimit]; rfl

theorem reindexLeafM_single (ix : Index) (m : Option Dir) (l : Leaf) :
    reindexLeafM ix (fillMethods m) Option.none l = reindexLeaf ix m l := by
  cases l with
  | ts s f => cases ix <;> simp [reindexLeafM, reindexLeaf, reindexFill_single, Except.map]
  | arr xs => cases ix <;> rfl
  | other v => rfl

/-! ### the recursion that hands a method list out over a container of the same length -/

mutual
  /-- a bare method is never split: the recursion is the plain `@loop` recursion -/
  theorem mapMS_bare (g : List Method → Leaf → Res Leaf) (ms : List Method) :
      ∀ t : Tree, t.mapMS g true ms = t.mapM (g ms)
    | .leaf l => by simp [Tree.mapMS, Tree.mapM]
    | .node tag kids => by simp [Tree.mapMS, Tree.mapM, mapKidsMS_bare g ms kids]
  theorem mapKidsMS_bare (g : List Method → Leaf → Res Leaf) (ms : List Method) :
      ∀ ks : List (String × Tree), mapKidsMS g true ms ks = mapKidsM (g ms) ks
    | [] => rfl
    | (k, t) :: r => by simp only [mapKidsMS, mapKidsM, mapMS_bare g ms t, mapKidsMS_bare g ms r]
end

mutual
  theorem skel_mapMS (g : List Method → Leaf → Res Leaf) (hg : ∀ ms l l', g ms l = .ok l' → l'.skel = l.skel) :
      ∀ (bare : Bool) (ms : List Method) (t t' : Tree), t.mapMS g bare ms = .ok t' → t'.skel = t.skel
    | bare, ms, .leaf l, t', h => by
      simp only [Tree.mapMS] at h
      cases hl : g ms l with
      | error e => rw [hl] at h; cases h
      | ok l' => rw [hl] at h; cases h; simp [Tree.skel, hg ms l l' hl]
    | bare, ms, .node tag kids, t', h => by
      simp only [Tree.mapMS] at h
      split at h
      · rename_i hc
        have hlen : ms.length = kids.length := by simp at hc; exact hc.2
        cases hk : zipKidsMS g ms kids with
        | error e => rw [hk] at h; cases h
        | ok ks' => rw [hk] at h; cases h; simp [Tree.skel, skel_zipKidsMS g hg ms kids ks' hlen hk]
      · cases hk : mapKidsMS g bare ms kids with
        | error e => rw [hk] at h; cases h
        | ok ks' => rw [hk] at h; cases h; simp [Tree.skel, skel_mapKidsMS g hg bare ms kids ks' hk]
  theorem skel_mapKidsMS (g : List Method → Leaf → Res Leaf) (hg : ∀ ms l l', g ms l = .ok l' → l'.skel = l.skel) :
      ∀ (bare : Bool) (ms : List Method) (ks ks' : List (String × Tree)), mapKidsMS g bare ms ks = .ok ks' → skelKids ks' = skelKids ks
    | bare, ms, [], ks', h => by simp [mapKidsMS] at h; cases h; rfl
    | bare, ms, (k, t) :: r, ks', h => by
      simp only [mapKidsMS] at h
      cases ht : t.mapMS g bare ms with
      | error e => rw [ht] at h; cases h
      | ok t' =>
        rw [ht] at h
        cases hr : mapKidsMS g bare ms r with
        | error e => rw [hr] at h; cases h
        | ok r' =>
          rw [hr] at h; cases h
          simp [skelKids, skel_mapMS g hg bare ms t t' ht, skel_mapKidsMS g hg bare ms r r' hr]
  theorem skel_zipKidsMS (g : List Method → Leaf → Res Leaf) (hg : ∀ ms l l', g ms l = .ok l' → l'.skel = l.skel) :
      ∀ (ms : List Method) (ks ks' : List (String × Tree)), ms.length = ks.length → zipKidsMS g ms ks = .ok ks' →
        skelKids ks' = skelKids ks
    | [], [], ks', _, h => by simp [zipKidsMS] at h; cases h; rfl
    | [], _ :: _, _, hl, _ => by simp at hl
    | _ :: _, [], _, hl, _ => by simp at hl
    | m :: ms, (k, t) :: r, ks', hl, h => by
      simp only [zipKidsMS] at h
      cases ht : t.mapMS g true [m] with
      | error e => rw [ht] at h; cases h
      | ok t' =>
        rw [ht] at h
        cases hr : zipKidsMS g ms r with
        | error e => rw [hr] at h; cases h
        | ok r' =>
          rw [hr] at h; cases h
          simp [skelKids, skel_mapMS g hg true [m] t t' ht, skel_zipKidsMS g hg ms r r' (by simpa using hl) hr]
end

/-- member `l` of the input and member `l'` of the result at the same position: `l'` is `l` treated with the whole method
list, or - where a list / tuple container has exactly as many members as the list has methods - with ONE method of the list -/
def SplitImage (g : List Method → Leaf → Res Leaf) (ms : List Method) (l l' : Leaf) : Prop :=
  ∃ ms', (ms' = ms ∨ ∃ m ∈ ms, ms' = [m]) ∧ g ms' l = .ok l'

theorem SplitImage.single {g : List Method → Leaf → Res Leaf} {m : Method} {ms : List Method} {l l' : Leaf}
    (h : SplitImage g [m] l l') (hm : m ∈ ms) : SplitImage g ms l l' := by
  obtain ⟨ms', h1, h2⟩ := h
  refine ⟨ms', Or.inr ⟨m, hm, ?_⟩, h2⟩
  rcases h1 with h1 | ⟨m', hm', h1⟩
  · exact h1
  · simp at hm'; subst hm'; exact h1

theorem SplitImage.tail {g : List Method → Leaf → Res Leaf} {m : Method} {ms : List Method} {l l' : Leaf}
    (h : ∃ m' ∈ ms, g [m'] l = .ok l') : ∃ m' ∈ m :: ms, g [m'] l = .ok l' := by
  obtain ⟨m', hm', h2⟩ := h
  exact ⟨m', by simp [hm'], h2⟩

mutual
  theorem pairs_mapMS (g : List Method → Leaf → Res Leaf) :
      ∀ (bare : Bool) (ms : List Method) (t t' : Tree), t.mapMS g bare ms = .ok t' →
        Pairs (SplitImage g ms) t.leaves t'.leaves
    | bare, ms, .leaf l, t', h => by
      simp only [Tree.mapMS] at h
      cases hl : g ms l with
      | error e => rw [hl] at h; cases h
      | ok l1 => rw [hl] at h; cases h; exact .cons ⟨ms, Or.inl rfl, hl⟩ .nil
    | bare, ms, .node tag kids, t', h => by
      simp only [Tree.mapMS] at h
      split at h
      · rename_i hc
        have hlen : ms.length = kids.length := by simp at hc; exact hc.2
        cases hk : zipKidsMS g ms kids with
        | error e => rw [hk] at h; cases h
        | ok ks' =>
          rw [hk] at h; cases h
          exact (pairs_zipKidsMS g ms kids ks' hlen hk).mono fun l l' ⟨m, hm, hg⟩ => ⟨[m], Or.inr ⟨m, hm, rfl⟩, hg⟩
      · cases hk : mapKidsMS g bare ms kids with
        | error e => rw [hk] at h; cases h
        | ok ks' => rw [hk] at h; cases h; exact pairs_mapKidsMS g bare ms kids ks' hk
  theorem pairs_mapKidsMS (g : List Method → Leaf → Res Leaf) :
      ∀ (bare : Bool) (ms : List Method) (ks ks' : List (String × Tree)), mapKidsMS g bare ms ks = .ok ks' →
        Pairs (SplitImage g ms) (leavesKids ks) (leavesKids ks')
    | bare, ms, [], ks', h => by simp [mapKidsMS] at h; cases h; exact .nil
    | bare, ms, (k, t) :: r, ks', h => by
      simp only [mapKidsMS] at h
      cases ht : t.mapMS g bare ms with
      | error e => rw [ht] at h; cases h
      | ok t' =>
        rw [ht] at h
        cases hr : mapKidsMS g bare ms r with
        | error e => rw [hr] at h; cases h
        | ok r' =>
          rw [hr] at h; cases h
          exact (pairs_mapMS g bare ms t t' ht).append (pairs_mapKidsMS g bare ms r r' hr)
  /-- where the list is handed out, every member below child `i` is treated with method `i` alone -/
  theorem pairs_zipKidsMS (g : List Method → Leaf → Res Leaf) :
      ∀ (ms : List Method) (ks ks' : List (String × Tree)), ms.length = ks.length → zipKidsMS g ms ks = .ok ks' →
        Pairs (fun l l' => ∃ m ∈ ms, g [m] l = .ok l') (leavesKids ks) (leavesKids ks')
    | [], [], ks', _, h => by simp [zipKidsMS] at h; cases h; exact .nil
    | [], _ :: _, _, hl, _ => by simp at hl
    | _ :: _, [], _, hl, _ => by simp at hl
    | m :: ms, (k, t) :: r, ks', hl, h => by
      simp only [zipKidsMS] at h
      cases ht : t.mapMS g true [m] with
      | error e => rw [ht] at h; cases h
      | ok t' =>
        rw [ht] at h
        cases hr : zipKidsMS g ms r with
        | error e => rw [hr] at h; cases h
        | ok r' =>
          rw [hr] at h; cases h
          refine Pairs.append ?_ ?_
          · rw [mapMS_bare] at ht
            exact (pairs_mapM (g [m]) t t' ht).mono fun l l' hg => ⟨m, by simp, hg⟩
          · exact (pairs_zipKidsMS g ms r r' (by simpa using hl) hr).mono fun l l' hh => SplitImage.tail hh
end

/-- one optional direction given as a word, no limit: the general function is the old one -/
theorem reindexTreeM_single (ix : Index) (m : Option Dir) (t : Tree) :
    reindexTreeM ix true (fillMethods m) Option.none t = reindexTree ix m t := by
  have : reindexLeafM ix (fillMethods m) Option.none = reindexLeaf ix m := funext (reindexLeafM_single ix m)
  cases ix <;> simp only [reindexTreeM, reindexTree, mapMS_bare, this]

/-- a bare method (list): no splitting, the plain recursion with the whole list on every member -/
theorem reindexTreeM_bare (ix : Index) (ms : List Method) (lim : Option Nat) (t : Tree) :
    reindexTreeM ix true ms lim t = match ix with
      | .none => .ok t
      | _ => t.mapM (reindexLeafM ix ms lim) := by
  cases ix <;> simp only [reindexTreeM, mapMS_bare]

theorem syncJM_single (j : Join) (m : Option Dir) (ch : Option How) (t : Tree) :
    syncJM j true (fillMethods m) ch t = syncJ j m ch t := by
  cases t with
  | leaf l => cases j <;> rfl
  | node tag kids =>
    cases j with
    | how h => simp only [syncJM, syncJ, sync, dfIndexJ, reindexTreeM_single]
    | explicit ix => simp only [syncJM, syncJ, reindexTreeM_single]

theorem presyncCallM_single (j : Join) (m : Option Dir) (args kwargs : List (String × Tree)) :
    presyncCallM j true (fillMethods m) args kwargs = presyncCall j m args kwargs := by
  simp only [presyncCallM, presyncCall, presyncOnto, reindexTreeM_single]

theorem reindexLeafM_none (ms : List Method) (lim : Option Nat) (l : Leaf) : reindexLeafM .none ms lim l = .ok l := by
  cases l <;> rfl

theorem reindexLeafM_skel (ix : Index) (ms : List Method) (lim : Option Nat) (l l' : Leaf)
    (h : reindexLeafM ix ms lim l = .ok l') : l'.skel = l.skel := by
  cases l with
  | ts s f =>
    cases ix with
    | none => simp [reindexLeafM] at h; subst h; rfl
    | len n => simp [reindexLeafM] at h
    | times idx =>
      simp only [reindexLeafM] at h
      cases hr : reindexFill f idx ms lim with
      | error e => rw [hr] at h; cases h
      | ok g => rw [hr] at h; cases h; rfl
  | other v => simp [reindexLeafM] at h; subst h; rfl
  | arr xs =>
    cases ix with
    | times idx => simp only [reindexLeafM] at h; split at h <;> cases h; rfl
    | none => simp [reindexLeafM] at h; subst h; rfl
    | len n =>
      simp only [reindexLeafM] at h
      split at h <;> cases h
      rfl

theorem skel_reindexTreeM (ix : Index) (bare : Bool) (ms : List Method) (lim : Option Nat) (t t' : Tree)
    (h : reindexTreeM ix bare ms lim t = .ok t') : t'.skel = t.skel := by
  cases ix with
  | none => simp [reindexTreeM] at h; subst h; rfl
  | times idx => exact skel_mapMS _ (fun ms' => reindexLeafM_skel _ ms' lim) _ _ _ _ h
  | len n => exact skel_mapMS _ (fun ms' => reindexLeafM_skel _ ms' lim) _ _ _ _ h

/-- `reindexTreeM` acts position by position, whatever the joint index is: member `k` of the result is member `k` of the input
reindexed with the whole method list or (list handed out by `loops`) with one method of it -/
theorem pairs_reindexTreeM (ix : Index) (bare : Bool) (ms : List Method) (lim : Option Nat) (t t' : Tree)
    (h : reindexTreeM ix bare ms lim t = .ok t') :
    Pairs (SplitImage (fun ms' => reindexLeafM ix ms' lim) ms) t.leaves t'.leaves := by
  cases ix with
  | none =>
    simp [reindexTreeM] at h; subst h
    exact Pairs.diag _ fun l _ => ⟨ms, Or.inl rfl, reindexLeafM_none ms lim l⟩
  | times idx => exact pairs_mapMS _ _ _ _ _ h
  | len n => exact pairs_mapMS _ _ _ _ _ h

/-- with a bare method: member `k` of the result is member `k` of the input reindexed with exactly that method (list) -/
theorem pairs_reindexTreeM_bare (ix : Index) (ms : List Method) (lim : Option Nat) (t t' : Tree)
    (h : reindexTreeM ix true ms lim t = .ok t') :
    Pairs (fun l l' => reindexLeafM ix ms lim l = .ok l') t.leaves t'.leaves := by
  rw [reindexTreeM_bare] at h
  cases ix with
  | none => simp at h; subst h; exact Pairs.diag _ fun l _ => reindexLeafM_none ms lim l
  | times idx => exact pairs_mapM _ _ _ h
  | len n => exact pairs_mapM _ _ _ h

/-- keys play no role in what the joint index sees: a dict keyed 'index' is opened like any other dict -/
theorem flatKids_rekey (g : String → String) (ks : List (String × Tree)) :
    flatKids (ks.map fun k => (g k.1, k.2)) = flatKids ks := by
  induction ks with
  | nil => rfl
  | cons k r ih => obtain ⟨a, t⟩ := k; simp only [List.map_cons, flatKids, ih]

end Pyg.Align
