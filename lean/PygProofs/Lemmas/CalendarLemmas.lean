/-
  Helper lemmas for C05 (Calendar): the while-loops, day ranges, the business-day list `bd a b`
  and its counting function, positions in the table.
-/
import PygModel.Calendar

namespace Pyg.Calendar
open Pyg
open Pyg.Civil (wd)

/-! ### the while loops -/

theorem loopUp_ge (cond : Int → Bool) : ∀ (k : Nat) (t : Int), t ≤ loopUp cond k t
  | 0, t => by simp [loopUp]
  | k + 1, t => by
    unfold loopUp
    split
    · have := loopUp_ge cond k (t + 1); omega
    · omega

/-- every value the loop stepped over satisfied the loop condition -/
theorem loopUp_skipped (cond : Int → Bool) :
    ∀ (k : Nat) (t s : Int), t ≤ s → s < loopUp cond k t → cond s = true
  | 0, t, s, h1, h2 => by simp [loopUp] at h2; omega
  | k + 1, t, s, h1, h2 => by
    unfold loopUp at h2
    split at h2
    · next hc =>
      by_cases hs : s = t
      · subst hs; exact hc
      · exact loopUp_skipped cond k (t + 1) s (by omega) h2
    · omega

/-- with a stopping point `b` inside the fuel the loop exits at or before `b`, on a value failing the condition -/
theorem loopUp_stops (cond : Int → Bool) :
    ∀ (k : Nat) (t b : Int), t ≤ b → b < t + k → cond b = false →
      loopUp cond k t ≤ b ∧ cond (loopUp cond k t) = false
  | 0, t, b, h1, h2, _ => by omega
  | k + 1, t, b, h1, h2, hb => by
    unfold loopUp
    split
    · next hc =>
      have : t ≠ b := by intro h; subst h; simp [hc] at hb
      exact loopUp_stops cond k (t + 1) b (by omega) (by omega) hb
    · next hc => exact ⟨h1, by simpa using hc⟩

theorem loopDown_le (cond : Int → Bool) : ∀ (k : Nat) (t : Int), loopDown cond k t ≤ t
  | 0, t => by simp [loopDown]
  | k + 1, t => by
    unfold loopDown
    split
    · have := loopDown_le cond k (t - 1); omega
    · omega

theorem loopDown_skipped (cond : Int → Bool) :
    ∀ (k : Nat) (t s : Int), s ≤ t → loopDown cond k t < s → cond s = true
  | 0, t, s, h1, h2 => by simp [loopDown] at h2; omega
  | k + 1, t, s, h1, h2 => by
    unfold loopDown at h2
    split at h2
    · next hc =>
      by_cases hs : s = t
      · subst hs; exact hc
      · exact loopDown_skipped cond k (t - 1) s (by omega) h2
    · omega

theorem loopDown_stops (cond : Int → Bool) :
    ∀ (k : Nat) (t b : Int), b ≤ t → t < b + k → cond b = false →
      b ≤ loopDown cond k t ∧ cond (loopDown cond k t) = false
  | 0, t, b, h1, h2, _ => by omega
  | k + 1, t, b, h1, h2, hb => by
    unfold loopDown
    split
    · next hc =>
      have : t ≠ b := by intro h; subst h; simp [hc] at hb
      exact loopDown_stops cond k (t - 1) b (by omega) (by omega) hb
    · next hc => exact ⟨h1, by simpa using hc⟩

/-! ### day ranges -/

theorem mem_daysUp : ∀ (n : Nat) (a x : Int), x ∈ daysUp a n ↔ a ≤ x ∧ x < a + n
  | 0, a, x => by simp [daysUp]
  | n + 1, a, x => by
    simp only [daysUp, List.mem_cons, mem_daysUp n (a + 1) x]
    omega

theorem daysUp_append : ∀ (m n : Nat) (a : Int), daysUp a (m + n) = daysUp a m ++ daysUp (a + m) n
  | 0, n, a => by simp [daysUp]
  | m + 1, n, a => by
    have : m + 1 + n = (m + n) + 1 := by omega
    rw [this]
    simp only [daysUp, List.cons_append, daysUp_append m n (a + 1)]
    have : a + 1 + (m : Int) = a + ((m + 1 : Nat) : Int) := by omega
    rw [this]

theorem pairwise_daysUp : ∀ (n : Nat) (a : Int), (daysUp a n).Pairwise (· < ·)
  | 0, a => by simp [daysUp]
  | n + 1, a => by
    simp only [daysUp, List.pairwise_cons]
    refine ⟨?_, pairwise_daysUp n (a + 1)⟩
    intro x hx
    rw [mem_daysUp] at hx
    omega

theorem mem_daysFromTo (a b x : Int) : x ∈ daysFromTo a b ↔ a ≤ x ∧ x ≤ b := by
  unfold daysFromTo
  rw [mem_daysUp]
  omega

theorem daysFromTo_split (a b e : Int) (h1 : a ≤ b + 1) (h2 : b ≤ e) :
    daysFromTo a e = daysFromTo a b ++ daysFromTo (b + 1) e := by
  unfold daysFromTo
  have h : (e + 1 - a).toNat = (b + 1 - a).toNat + (e + 1 - (b + 1)).toNat := by omega
  rw [h, daysUp_append]
  have : a + ((b + 1 - a).toNat : Int) = b + 1 := by omega
  rw [this]

theorem daysFromTo_self (a : Int) : daysFromTo a a = [a] := by
  unfold daysFromTo
  have : (a + 1 - a).toNat = 1 := by omega
  rw [this]; rfl

theorem daysFromTo_empty (a b : Int) (h : b < a) : daysFromTo a b = [] := by
  unfold daysFromTo
  have : (b + 1 - a).toNat = 0 := by omega
  rw [this]; rfl

/-! ### business days of an interval and their count -/

theorem mem_bd (c : Cal) (a b x : Int) : x ∈ c.bd a b ↔ a ≤ x ∧ x ≤ b ∧ c.isB x = true := by
  unfold Cal.bd
  rw [List.mem_filter, mem_daysFromTo]
  exact ⟨fun ⟨⟨h1, h2⟩, h3⟩ => ⟨h1, h2, h3⟩, fun ⟨h1, h2, h3⟩ => ⟨⟨h1, h2⟩, h3⟩⟩

theorem bd_split (c : Cal) (a b e : Int) (h1 : a ≤ b + 1) (h2 : b ≤ e) :
    c.bd a e = c.bd a b ++ c.bd (b + 1) e := by
  unfold Cal.bd
  rw [daysFromTo_split a b e h1 h2, List.filter_append]

theorem bd_empty (c : Cal) (a b : Int) (h : b < a) : c.bd a b = [] := by
  unfold Cal.bd; rw [daysFromTo_empty a b h]; rfl

theorem bd_self (c : Cal) (a : Int) : c.bd a a = if c.isB a then [a] else [] := by
  unfold Cal.bd; rw [daysFromTo_self]; simp [List.filter]
  cases c.isB a <;> rfl

theorem pairwise_bd (c : Cal) (a b : Int) : (c.bd a b).Pairwise (· < ·) :=
  (pairwise_daysUp _ _).filter _

theorem nodup_bd (c : Cal) (a b : Int) : (c.bd a b).Nodup :=
  (pairwise_bd c a b).imp (fun h => by omega)

/-- a business day `x` of `[a, e]` splits the list at its own position -/
theorem bd_split_at (c : Cal) (a e x : Int) (h1 : a ≤ x) (h2 : x ≤ e) (hx : c.isB x = true) :
    c.bd a e = c.bd a (x - 1) ++ x :: c.bd (x + 1) e := by
  rw [bd_split c a (x - 1) e (by omega) (by omega)]
  have : x - 1 + 1 = x := by omega
  rw [this, bd_split c x x e (by omega) h2, bd_self, hx]
  rfl

/-- number of business days in `[a, b]` -/
def cnt (c : Cal) (a b : Int) : Nat := (c.bd a b).length

theorem cnt_split (c : Cal) (a b e : Int) (h1 : a ≤ b + 1) (h2 : b ≤ e) :
    cnt c a e = cnt c a b + cnt c (b + 1) e := by
  unfold cnt; rw [bd_split c a b e h1 h2, List.length_append]

theorem cnt_empty (c : Cal) (a b : Int) (h : b < a) : cnt c a b = 0 := by
  unfold cnt; rw [bd_empty c a b h]; rfl

theorem cnt_self (c : Cal) (a : Int) : cnt c a a = if c.isB a then 1 else 0 := by
  unfold cnt; rw [bd_self]; cases c.isB a <;> rfl

/-- a business day inside `[a, b]` makes the count positive -/
theorem cnt_pos (c : Cal) (a b x : Int) (h1 : a ≤ x) (h2 : x ≤ b) (hx : c.isB x = true) : 0 < cnt c a b := by
  unfold cnt
  exact List.length_pos_of_mem ((mem_bd c a b x).2 ⟨h1, h2, hx⟩)

/-- no business day in `[a, b]` makes the count zero -/
theorem cnt_zero (c : Cal) (a b : Int) (h : ∀ x, a ≤ x → x ≤ b → c.isB x = false) : cnt c a b = 0 := by
  unfold cnt
  rw [List.length_eq_zero_iff, List.eq_nil_iff_forall_not_mem]
  intro x hx
  rw [mem_bd] at hx
  have := h x hx.1 hx.2.1
  simp [this] at hx

/-! ### positions in a list -/

theorem idxIn_append_cons (a : Int) : ∀ (pre post : List Int), a ∉ pre →
    idxIn a (pre ++ a :: post) = some pre.length
  | [], post, _ => by simp [idxIn]
  | x :: pre, post, h => by
    have hx : x ≠ a := by intro e; subst e; simp at h
    have hp : a ∉ pre := by intro e; exact h (List.mem_cons_of_mem _ e)
    simp [idxIn, hx, idxIn_append_cons a pre post hp]

theorem idxIn_none (a : Int) : ∀ (l : List Int), a ∉ l → idxIn a l = none
  | [], _ => rfl
  | x :: l, h => by
    have hx : x ≠ a := by intro e; subst e; simp at h
    have hp : a ∉ l := by intro e; exact h (List.mem_cons_of_mem _ e)
    simp [idxIn, hx, idxIn_none a l hp]

theorem idxIn_some_mem (a : Int) : ∀ (l : List Int) (i : Nat), idxIn a l = some i → a ∈ l
  | [], i, h => by simp [idxIn] at h
  | x :: l, i, h => by
    by_cases hx : x = a
    · subst hx; simp
    · simp only [idxIn, hx, if_false, Option.map_eq_some_iff] at h
      obtain ⟨j, hj, _⟩ := h
      exact List.mem_cons_of_mem _ (idxIn_some_mem a l j hj)

theorem getElem?_append_cons_length (pre post : List Int) (a : Int) :
    (pre ++ a :: post)[pre.length]? = some a := by
  rw [List.getElem?_append_right (Nat.le_refl _)]; simp


/-! ### the predicate and `adjust` -/

theorem isHol_eq_not_isB (c : Cal) (t : Int) : c.isHol t = !c.isB t := by
  simp [Cal.isHol, Cal.isB, Bool.not_and]

theorem adjF_spec (c : Cal) (t : Int) :
    t ≤ c.adjF t ∧ (∀ s, t ≤ s → s < c.adjF t → c.isB s = false) ∧ (c.adjF t ≤ c.t1 → c.isB (c.adjF t) = true) := by
  unfold Cal.adjF
  generalize hc1 : (fun t => c.isHol t && decide (t ≤ c.t1)) = cond1
  generalize hc2 : (fun t => decide (t > c.t1) && c.weekend.contains (wd t)) = cond2
  generalize hk : (c.t1 + 1 - t).toNat + 1 = k
  have h1 := loopUp_ge cond1 k t
  have h2 := loopUp_ge cond2 7 (loopUp cond1 k t)
  have s1 := loopUp_skipped cond1 k t
  have s2 := loopUp_skipped cond2 7 (loopUp cond1 k t)
  refine ⟨by omega, ?_, ?_⟩
  · intro s hs1 hs2
    by_cases hlt : s < loopUp cond1 k t
    · have := s1 s hs1 hlt
      rw [← hc1] at this
      simp [isHol_eq_not_isB] at this
      exact this.1
    · have := s2 s (by omega) hs2
      rw [← hc2] at this
      simp [Cal.isB] at this ⊢
      intro hw; exact absurd this.2 hw
  · intro hle
    -- the first loop stops at or before max t (t1+1), on a value that is not (holiday and ≤ t1)
    have hb : ∃ b, t ≤ b ∧ b < t + k ∧ cond1 b = false := by
      by_cases htt : t ≤ c.t1 + 1
      · exact ⟨c.t1 + 1, htt, by omega, by rw [← hc1]; simp; intro _; omega⟩
      · exact ⟨t, by omega, by omega, by rw [← hc1]; simp; omega⟩
    obtain ⟨b, hb1, hb2, hb3⟩ := hb
    have st := loopUp_stops cond1 k t b hb1 hb2 hb3
    generalize hr1 : loopUp cond1 k t = r1 at *
    have hr1le : r1 ≤ c.t1 := by omega
    have e2 : loopUp cond2 7 r1 = r1 := by
      have : cond2 r1 = false := by rw [← hc2]; simp; omega
      simp [loopUp, this]
    rw [e2]
    have := st.2
    rw [← hc1] at this
    simp [isHol_eq_not_isB] at this
    cases hB : c.isB r1
    · exact absurd (this hB) (by omega)
    · rfl

theorem adjP_spec (c : Cal) (t : Int) :
    c.adjP t ≤ t ∧ (∀ s, s ≤ t → c.adjP t < s → c.isB s = false) ∧ (c.t0 ≤ c.adjP t → c.isB (c.adjP t) = true) := by
  unfold Cal.adjP
  generalize hc1 : (fun t => c.isHol t && decide (t ≥ c.t0)) = cond1
  generalize hc2 : (fun t => decide (t < c.t0) && c.weekend.contains (wd t)) = cond2
  generalize hk : (t + 1 - c.t0).toNat + 1 = k
  have h1 := loopDown_le cond1 k t
  have h2 := loopDown_le cond2 7 (loopDown cond1 k t)
  have s1 := loopDown_skipped cond1 k t
  have s2 := loopDown_skipped cond2 7 (loopDown cond1 k t)
  refine ⟨by omega, ?_, ?_⟩
  · intro s hs1 hs2
    by_cases hlt : loopDown cond1 k t < s
    · have := s1 s hs1 hlt
      rw [← hc1] at this
      simp [isHol_eq_not_isB] at this
      exact this.1
    · have := s2 s (by omega) hs2
      rw [← hc2] at this
      simp [Cal.isB] at this ⊢
      intro hw; exact absurd this.2 hw
  · intro hle
    have hb : ∃ b, b ≤ t ∧ t < b + k ∧ cond1 b = false := by
      by_cases htt : c.t0 - 1 ≤ t
      · exact ⟨c.t0 - 1, htt, by omega, by rw [← hc1]; simp; intro _; omega⟩
      · exact ⟨t, by omega, by omega, by rw [← hc1]; simp; omega⟩
    obtain ⟨b, hb1, hb2, hb3⟩ := hb
    have st := loopDown_stops cond1 k t b hb1 hb2 hb3
    generalize hr1 : loopDown cond1 k t = r1 at *
    have hr1le : c.t0 ≤ r1 := by omega
    have e2 : loopDown cond2 7 r1 = r1 := by
      have : cond2 r1 = false := by rw [← hc2]; simp; omega
      simp [loopDown, this]
    rw [e2]
    have := st.2
    rw [← hc1] at this
    simp [isHol_eq_not_isB] at this
    cases hB : c.isB r1
    · exact absurd (this hB) (by omega)
    · rfl

/-- `adjust(t,'f')` is the least business day on or after `t`, provided one exists up to `t1` -/
theorem adjF_least (c : Cal) (t : Int) (h : ∃ b, t ≤ b ∧ b ≤ c.t1 ∧ c.isB b = true) :
    c.isB (c.adjF t) = true ∧ t ≤ c.adjF t ∧ c.adjF t ≤ c.t1 ∧ ∀ b, t ≤ b → c.isB b = true → c.adjF t ≤ b := by
  obtain ⟨h1, h2, h3⟩ := adjF_spec c t
  have least : ∀ b, t ≤ b → c.isB b = true → c.adjF t ≤ b := by
    intro b hb hB
    by_cases hlt : b < c.adjF t
    · have := h2 b hb hlt; rw [hB] at this; cases this
    · omega
  obtain ⟨b, hb1, hb2, hb3⟩ := h
  have := least b hb1 hb3
  exact ⟨h3 (by omega), h1, by omega, least⟩

theorem adjP_greatest (c : Cal) (t : Int) (h : ∃ b, b ≤ t ∧ c.t0 ≤ b ∧ c.isB b = true) :
    c.isB (c.adjP t) = true ∧ c.adjP t ≤ t ∧ c.t0 ≤ c.adjP t ∧ ∀ b, b ≤ t → c.isB b = true → b ≤ c.adjP t := by
  obtain ⟨h1, h2, h3⟩ := adjP_spec c t
  have greatest : ∀ b, b ≤ t → c.isB b = true → b ≤ c.adjP t := by
    intro b hb hB
    by_cases hlt : c.adjP t < b
    · have := h2 b hb hlt; rw [hB] at this; cases this
    · omega
  obtain ⟨b, hb1, hb2, hb3⟩ := h
  have := greatest b hb1 hb3
  exact ⟨h3 (by omega), h1, by omega, greatest⟩

/-- a business day inside the range is left alone by every convention -/
theorem adjust_bday (c : Cal) (a : Adj) (t : Int) (h0 : c.t0 ≤ t) (h1 : t ≤ c.t1) (hB : c.isB t = true) :
    c.adjust a t = t := by
  have hf : c.adjF t = t := by
    have := adjF_least c t ⟨t, by omega, h1, hB⟩
    have := this.2.2.2 t (by omega) hB
    omega
  have hp : c.adjP t = t := by
    have := adjP_greatest c t ⟨t, by omega, h0, hB⟩
    have := this.2.2.2 t (by omega) hB
    omega
  cases a <;> simp [Cal.adjust, hf, hp]

/-! ### the table: position of a business day = number of business days before it -/

/-- business days of the calendar strictly before `x` -/
def K (c : Cal) (x : Int) : Nat := cnt c c.t0 (x - 1)

theorem K_add (c : Cal) (a b : Int) (h0 : c.t0 ≤ a) (h : a ≤ b) : K c b = K c a + cnt c a (b - 1) := by
  unfold K
  rw [cnt_split c c.t0 (a - 1) (b - 1) (by omega) (by omega)]
  have : a - 1 + 1 = a := by omega
  rw [this]

theorem K_mono (c : Cal) (a b : Int) (h0 : c.t0 ≤ a) (h : a ≤ b) : K c a ≤ K c b := by
  rw [K_add c a b h0 h]; omega

/-- a business day `a < b` is counted in `K b` but not in `K a` -/
theorem K_lt (c : Cal) (a b : Int) (h0 : c.t0 ≤ a) (h : a < b) (hB : c.isB a = true) : K c a < K c b := by
  rw [K_add c a b h0 (by omega)]
  have := cnt_pos c a (b - 1) a (by omega) (by omega) hB
  omega

/-- two business days with the same count are the same day -/
theorem K_inj (c : Cal) (a b : Int) (ha : c.t0 ≤ a) (hb : c.t0 ≤ b) (hBa : c.isB a = true) (hBb : c.isB b = true)
    (h : K c a = K c b) : a = b := by
  by_cases h1 : a < b
  · have := K_lt c a b ha h1 hBa; omega
  · by_cases h2 : b < a
    · have := K_lt c b a hb h2 hBb; omega
    · omega

theorem bdays_split_at (c : Cal) (a : Int) (h0 : c.t0 ≤ a) (h1 : a ≤ c.t1) (hB : c.isB a = true) :
    c.bdays = c.bd c.t0 (a - 1) ++ a :: c.bd (a + 1) c.t1 := bd_split_at c c.t0 c.t1 a h0 h1 hB

theorem K_lt_length (c : Cal) (a : Int) (h0 : c.t0 ≤ a) (h1 : a ≤ c.t1) (hB : c.isB a = true) :
    K c a < c.bdays.length := by
  rw [bdays_split_at c a h0 h1 hB]; simp [K, cnt]

theorem clockOf_bday (c : Cal) (a : Int) (h0 : c.t0 ≤ a) (h1 : a ≤ c.t1) (hB : c.isB a = true) :
    clockOfT c.bdays a = .ok (K c a) := by
  unfold clockOfT
  rw [bdays_split_at c a h0 h1 hB, idxIn_append_cons]
  · rfl
  · intro hm; rw [mem_bd] at hm; omega

theorem clockOf_ok (c : Cal) (a : Int) (i : Nat) (h : clockOfT c.bdays a = .ok i) :
    c.t0 ≤ a ∧ a ≤ c.t1 ∧ c.isB a = true ∧ i = K c a := by
  unfold clockOfT at h
  split at h
  · next j hj =>
    have hm := idxIn_some_mem a _ j hj
    unfold Cal.bdays at hm
    rw [mem_bd] at hm
    have := clockOf_bday c a hm.1 hm.2.1 hm.2.2
    unfold clockOfT at this
    rw [hj] at this
    simp at this h
    exact ⟨hm.1, hm.2.1, hm.2.2, by omega⟩
  · cases h

theorem atIdx_K (c : Cal) (a : Int) (h0 : c.t0 ≤ a) (h1 : a ≤ c.t1) (hB : c.isB a = true) :
    atIdxT c.bdays (K c a) = .ok a := by
  unfold atIdxT
  have : ¬ ((K c a : Int) < 0) := by omega
  simp only [this, if_false, Int.toNat_natCast]
  rw [bdays_split_at c a h0 h1 hB]
  have := getElem?_append_cons_length (c.bd c.t0 (a - 1)) (c.bd (a + 1) c.t1) a
  unfold K cnt
  rw [this]

theorem atIdx_ok (c : Cal) (j r : Int) (h : atIdxT c.bdays j = .ok r) :
    0 ≤ j ∧ c.t0 ≤ r ∧ r ≤ c.t1 ∧ c.isB r = true ∧ j = K c r := by
  unfold atIdxT at h
  split at h
  · cases h
  · next hj =>
    split at h
    · next r' hr' =>
      simp at h; subst h
      have hm : r' ∈ c.bdays := List.mem_of_getElem? hr'
      have hm' := hm
      unfold Cal.bdays at hm'
      rw [mem_bd] at hm'
      have hk := atIdx_K c r' hm'.1 hm'.2.1 hm'.2.2
      unfold atIdxT at hk
      have : ¬ ((K c r' : Int) < 0) := by omega
      simp only [this, if_false, Int.toNat_natCast] at hk
      split at hk
      · next r2 hr2 =>
        simp at hk; subst hk
        have hlt : j.toNat < c.bdays.length := by
          rcases List.getElem?_eq_some_iff.1 hr' with ⟨hl, _⟩; exact hl
        have := (List.getElem?_inj hlt (nodup_bd c c.t0 c.t1)).1 (hr'.trans hr2.symm)
        exact ⟨by omega, hm'.1, hm'.2.1, hm'.2.2, by omega⟩
      · cases hk
    · cases h

theorem atIdx_lt (c : Cal) (j : Int) (h0 : 0 ≤ j) (h1 : j < c.bdays.length) : ∃ r, atIdxT c.bdays j = .ok r := by
  unfold atIdxT
  have : ¬ (j < 0) := by omega
  simp only [this, if_false]
  have hlt : j.toNat < c.bdays.length := by omega
  rw [List.getElem?_eq_getElem hlt]
  exact ⟨_, rfl⟩


/-! ### `add`: both paths land on the business day whose count is `n` more -/

/-- "inside the calendar's range" for `add` from the (adjusted) business day `s` by `n`: `s` is in the table and
so is position `K s + n` — exactly what the table path needs in order not to raise `KeyError` -/
def InRange (c : Cal) (s n : Int) : Prop :=
  c.t0 ≤ s ∧ s ≤ c.t1 ∧ c.isB s = true ∧ 0 ≤ (K c s : Int) + n ∧ (K c s : Int) + n < c.bdays.length

theorem cnt_pos_mem (c : Cal) (a b : Int) (h : 0 < cnt c a b) : ∃ x, a ≤ x ∧ x ≤ b ∧ c.isB x = true := by
  unfold cnt at h
  obtain ⟨x, hx⟩ := List.exists_mem_of_length_pos h
  exact ⟨x, (mem_bd c a b x).1 hx⟩

theorem addFuel_ge (c : Cal) : (c.t1 - c.t0).toNat + 1 ≤ c.addFuel := by unfold Cal.addFuel; omega

theorem add_spec (c : Cal) (a : Adj) (t n : Int) (h : InRange c (c.adjust a t) n) :
    ∃ r, c.add a t n = .ok r ∧ c.isB r = true ∧ c.t0 ≤ r ∧ r ≤ c.t1 ∧ (K c r : Int) = K c (c.adjust a t) + n := by
  obtain ⟨h0, h1, hB, hj0, hj1⟩ := h
  generalize hs : c.adjust a t = s at *
  unfold Cal.add Cal.addT
  rw [hs]
  by_cases hn : n.natAbs > 1
  · -- table path
    simp only [hn, if_true, clockOf_bday c s h0 h1 hB]
    obtain ⟨r, hr⟩ := atIdx_lt c _ hj0 hj1
    have := atIdx_ok c _ r hr
    refine ⟨r, ?_, this.2.2.2.1, this.2.1, this.2.2.1, by omega⟩
    exact hr
  · simp only [hn, if_false]
    by_cases h1n : n = 1
    · subst h1n
      simp only [if_true]
      -- the business day at position K s + 1 bounds the loop
      obtain ⟨r', hr'⟩ := atIdx_lt c _ hj0 hj1
      obtain ⟨_, q0, q1, qB, qK⟩ := atIdx_ok c _ r' hr'
      have hlt : s < r' := by
        by_cases hle : r' ≤ s
        · have := K_mono c r' s q0 hle; omega
        · omega
      have hstop : c.isHol r' = false := by rw [isHol_eq_not_isB, qB]; rfl
      have hfuel := addFuel_ge c
      have st := loopUp_stops c.isHol c.addFuel (s + 1) r' (by omega) (by omega) hstop
      have ge := loopUp_ge c.isHol c.addFuel (s + 1)
      have sk := loopUp_skipped c.isHol c.addFuel (s + 1)
      generalize loopUp c.isHol c.addFuel (s + 1) = r at *
      have rB : c.isB r = true := by
        have := st.2; rw [isHol_eq_not_isB] at this; simpa using this
      refine ⟨r, rfl, rB, by omega, by omega, ?_⟩
      rw [K_add c s r h0 (by omega), cnt_split c s s (r - 1) (by omega) (by omega), cnt_self, hB]
      have : cnt c (s + 1) (r - 1) = 0 := by
        apply cnt_zero
        intro x hx1 hx2
        have := sk x hx1 (by omega)
        rw [isHol_eq_not_isB] at this; simpa using this
      rw [this]; simp
    · simp only [h1n, if_false]
      by_cases hm1 : n = -1
      · subst hm1
        simp only [if_true]
        have hKpos : 0 < cnt c c.t0 (s - 1) := by unfold K at hj0; omega
        obtain ⟨b, hb0, hb1, hbB⟩ := cnt_pos_mem c _ _ hKpos
        have hstop : c.isHol b = false := by rw [isHol_eq_not_isB, hbB]; rfl
        have hfuel := addFuel_ge c
        have st := loopDown_stops c.isHol c.addFuel (s - 1) b (by omega) (by omega) hstop
        have le := loopDown_le c.isHol c.addFuel (s - 1)
        have sk := loopDown_skipped c.isHol c.addFuel (s - 1)
        generalize loopDown c.isHol c.addFuel (s - 1) = r at *
        have rB : c.isB r = true := by
          have := st.2; rw [isHol_eq_not_isB] at this; simpa using this
        refine ⟨r, rfl, rB, by omega, by omega, ?_⟩
        have e := K_add c r s (by omega) (by omega)
        rw [cnt_split c r r (s - 1) (by omega) (by omega), cnt_self, rB] at e
        have : cnt c (r + 1) (s - 1) = 0 := by
          apply cnt_zero
          intro x hx1 hx2
          have := sk x hx2 (by omega)
          rw [isHol_eq_not_isB] at this; simpa using this
        rw [this] at e; simp at e; omega
      · simp only [hm1, if_false]
        have : n = 0 := by omega
        subst this
        exact ⟨s, rfl, hB, h0, h1, by omega⟩

/-! ### `Calendar.drange(.., '1b')` -/

theorem mapM_atIdx_slice (c : Cal) : ∀ (mid pre post : List Int), c.bdays = pre ++ mid ++ post →
    ((List.range mid.length).map (fun (i : Nat) => (pre.length : Int) + (i : Int) * 1)).mapM (atIdxT c.bdays) = .ok mid
  | [], pre, post, _ => rfl
  | x :: mid, pre, post, h => by
    rw [List.length_cons, List.range_succ_eq_map, List.map_cons, List.mapM_cons]
    have hx : atIdxT c.bdays ((pre.length : Int) + ((0 : Nat) : Int) * 1) = .ok x := by
      unfold atIdxT
      have : ¬ ((pre.length : Int) + ((0 : Nat) : Int) * 1 < 0) := by omega
      simp only [this, if_false]
      have e : ((pre.length : Int) + ((0 : Nat) : Int) * 1).toNat = pre.length := by omega
      rw [e, h, List.append_assoc, List.cons_append, getElem?_append_cons_length]
    have ih := mapM_atIdx_slice c mid (pre ++ [x]) post (by rw [h]; simp)
    have e : (List.map (fun (i : Nat) => (pre.length : Int) + (i : Int) * 1) (List.map Nat.succ (List.range mid.length)))
        = (List.range mid.length).map (fun (i : Nat) => ((pre ++ [x]).length : Int) + (i : Int) * 1) := by
      rw [List.map_map]
      apply List.map_congr_left
      intro i _
      simp only [Function.comp, List.length_append, List.length_cons, List.length_nil]
      omega
    rw [hx, e, ih]
    rfl


theorem atIdx_of_getElem? (c : Cal) (i : Nat) (a : Int) (h : c.bdays[i]? = some a) : atIdxT c.bdays i = .ok a := by
  unfold atIdxT
  have : ¬ ((i : Int) < 0) := by omega
  simp [this, h]


/-! ### the registry -/

/-- run a history of `calendar(key, ...)` calls -/
def runReg (month : Int → Int) (r : Registry) (ops : List (String × CalArgs)) : Registry :=
  ops.foldl (fun r op => (r.calendar month op.1 op.2).1) r

theorem get?_set_same (r : Registry) (k : String) (c : Cal) : (r.set k c).get? k = some c := by
  simp [Registry.set, Registry.get?]

theorem find?_filter_of_imp {α} (p q : α → Bool) (h : ∀ x, p x = true → q x = true) :
    ∀ l : List α, (l.filter q).find? p = l.find? p
  | [] => rfl
  | x :: l => by
    have ih := find?_filter_of_imp p q h l
    cases hq : q x
    · have hp : p x = false := by
        cases hp : p x
        · rfl
        · rw [h x hp] at hq; cases hq
      simp [List.filter, hq, List.find?, hp, ih]
    · simp only [List.filter, hq, List.find?]
      cases p x
      · exact ih
      · rfl

theorem get?_set_other (r : Registry) (k k' : String) (c : Cal) (h : k' ≠ k) :
    (r.set k' c).get? k = r.get? k := by
  have h1 : (k' == k) = false := by simpa using h
  simp only [Registry.set, Registry.get?, List.find?, h1]
  congr 1
  apply find?_filter_of_imp
  intro e he
  have : e.1 = k := by simpa using he
  simp [this]
  intro e'; exact h e'.symm

theorem calendar_fetch (month : Int → Int) (r : Registry) (k : String) (c : Cal) (h : r.get? k = some c) :
    (r.calendar month k ⟨none, none, none, none⟩).2 = c := by
  simp [Registry.calendar, h, CalArgs.isDefault]

/-- a `calendar(k', …)` call that does not (re-)register `k` leaves the entry of `k` alone -/
theorem calendar_frame (month : Int → Int) (r : Registry) (k k' : String) (a : CalArgs) (c : Cal)
    (hk : r.get? k = some c) (h : k' = k → a.isDefault = true) :
    ((r.calendar month k' a).1).get? k = some c := by
  unfold Registry.calendar
  by_cases e : k' = k
  · subst e
    simp [hk, h rfl]
  · cases hg : r.get? k' <;> cases hd : a.isDefault <;> simp [get?_set_other r k k' _ e, hk]


end Pyg.Calendar
