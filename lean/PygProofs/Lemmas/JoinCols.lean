/-
  Lemmas for the table-level statements of C02 that speak about cells and column names rather than about the
  model's own functions: keys read from named columns (`rowKeys`, `keysOf_named`), and lookup of a result
  column by name (`vcol?` on `joinTableOf`).
-/
import PygModel.Join
import PygProofs.Lemmas.JoinLemmas
import PygProofs.Lemmas.KeyEq

namespace Pyg

/-- the key cells of row `i` read from the named columns -/
def Table.keyCells (t : Table) (names : List String) (i : Nat) : List Cell :=
  names.map fun k => t.jcellAt k i

/-- the per-row keys `dictable[names]` builds from named columns: one tuple of cells per row -/
def Table.rowKeys (t : Table) (names : List String) : List Val :=
  (List.range t.nrows).map fun i => .tuple ((t.keyCells names i).map .cell)

theorem col?_of_mem {t : Table} {k : String} (h : k ∈ t.cols) : ∃ xs, t.col? k = some xs := by
  simp only [Table.cols, List.mem_map] at h
  obtain ⟨c, hc, rfl⟩ := h
  simp only [Table.col?]
  cases hf : t.find? (·.1 == c.1) with
  | some d => exact ⟨d.2, rfl⟩
  | none =>
    have := List.find?_eq_none.1 hf c hc
    simp at this

theorem getD_map_cell (xs : List Cell) (i : Nat) :
    (xs.map Val.cell).getD i (.cell .none) = .cell (xs.getD i .none) := by
  simp only [List.getD_eq_getElem?_getD, List.getElem?_map]
  cases xs[i]? <;> rfl

theorem mapM_keyCol_named {t : Table} : ∀ (names : List String), (∀ k ∈ names, k ∈ t.cols) →
    (names.map KeySpec.col).mapM t.keyCol = .ok (names.map fun k => ((t.col? k).getD []).map .cell)
  | [], _ => rfl
  | k :: ks, h => by
    obtain ⟨xs, hxs⟩ := col?_of_mem (h k (by simp))
    have ih := mapM_keyCol_named ks (fun k' hk' => h k' (by simp [hk']))
    simp only [List.map_cons, List.mapM_cons, Table.keyCol, hxs, ih, bind, Except.bind, pure,
      Except.pure, Option.getD_some]

theorem keysOf_named {t : Table} {names : List String} (h : ∀ k ∈ names, k ∈ t.cols) :
    t.keysOf (names.map .col) = .ok (t.rowKeys names) := by
  simp only [Table.keysOf, mapM_keyCol_named names h, bind, Except.bind, pure, Except.pure,
    Table.rowKeys, zipCols, Table.keyCells, List.map_map, Function.comp_def, getD_map_cell,
    Table.jcellAt]

theorem joinColNames_named : ∀ (ln rn : List String), ln.length = rn.length →
    joinColNames (ln.map .col) (rn.map .col) = .ok ln
  | [], [], _ => rfl
  | [], _ :: _, h | _ :: _, [], h => by simp at h
  | l :: ls, r :: rs, h => by
    simp only [List.map_cons, joinColNames, joinColNames_named ls rs (by simpa using h), bind,
      Except.bind, pure, Except.pure]

theorem keyAt_rowKeys {t : Table} {names : List String} {i : Nat} (h : i < t.nrows) :
    keyAt (t.rowKeys names) i = .tuple ((t.keyCells names i).map .cell) := by
  simp [keyAt, Table.rowKeys, List.getD_eq_getElem?_getD, h]

theorem cmp_rowKeys_eq {x y : Table} {ln rn : List String} {i j : Nat} (hi : i < x.nrows)
    (hj : j < y.nrows) :
    (cmp (keyAt (x.rowKeys ln) i) (keyAt (y.rowKeys rn) j) == .eq) =
      keysEqB (x.keyCells ln i) (y.keyCells rn j) := by
  rw [keyAt_rowKeys hi, keyAt_rowKeys hj, Bool.eq_iff_iff, beq_iff_eq, cmp_tuple_eq_iff, keysEqB_iff]

/-- look a column of a result table up by name (the first one, as `dict` access) -/
def vcol? (t : VTable) (k : String) : Option (List Val) := (t.find? (·.1 == k)).map (·.2)

theorem mem_lminus_iff {xs ys : List String} {k : String} : k ∈ lminus xs ys ↔ k ∈ xs ∧ k ∉ ys := by
  simp [lminus, List.mem_filter]

theorem mem_linter_iff {xs ys : List String} {k : String} : k ∈ linter xs ys ↔ k ∈ xs ∧ k ∈ ys := by
  simp [linter, List.mem_filter]

theorem find?_named {α} (f : String → α) (k : String) : ∀ (l : List String),
    (l.map fun k' => (k', f k')).find? (·.1 == k) = if k ∈ l then some (k, f k) else none
  | [] => by simp
  | h :: t => by
    simp only [List.map_cons, List.find?_cons, List.mem_cons]
    by_cases hk : h = k
    · subst hk; simp
    · have : (h == k) = false := by simpa using hk
      simp only [this, find?_named f k t]
      have : (k = h) = False := by simpa using fun e => hk e.symm
      simp [this]

theorem find?_keycols_none {β} (g : String × Nat → β) (k : String) (cols : List String) (n : Nat)
    (h : k ∉ cols) : ((cols.zipIdx n).map fun p => (p.1, g p)).find? (·.1 == k) = none := by
  rw [List.find?_eq_none]
  intro c hc
  simp only [List.mem_map] at hc
  obtain ⟨p, hp, rfl⟩ := hc
  have : p.1 ∈ cols := List.fst_mem_of_mem_zipIdx hp
  simp only [beq_iff_eq]
  intro e; exact h (e ▸ this)

theorem find?_of_mem_nodup {β} : ∀ (l : List (String × β)) (e : String × β),
    (l.map (·.1)).Nodup → e ∈ l → l.find? (·.1 == e.1) = some e
  | [], _, _, h => by simp at h
  | h :: t, e, hn, hm => by
    simp only [List.map_cons, List.nodup_cons] at hn
    simp only [List.find?_cons]
    by_cases he : h.1 = e.1
    · have : h = e := by
        rcases List.mem_cons.1 hm with rfl | hm
        · rfl
        · exact absurd (he ▸ List.mem_map_of_mem (f := Prod.fst) hm) hn.1
      simp [this]
    · have : (h.1 == e.1) = false := by simpa using he
      simp only [this]
      rcases List.mem_cons.1 hm with rfl | hm
      · exact absurd rfl he
      · exact find?_of_mem_nodup t e hn.2 hm

section cols
variable (x y : Table) (cols : List String) (mode : Mode) (kp : List (Val × Nat × Nat))

theorem vcol_left {k : String} (hx : k ∈ x.cols) (hy : k ∉ y.cols) (hc : k ∉ cols) :
    vcol? (joinTableOf x y cols mode kp) k = some (kp.map fun p => .cell (x.jcellAt k p.2.1)) := by
  have h2 : k ∈ lminus (lminus x.cols cols) (linter (lminus x.cols cols) (lminus y.cols cols)) := by
    simp [mem_lminus_iff, mem_linter_iff, hx, hy, hc]
  simp only [vcol?, joinTableOf, List.find?_append, find?_keycols_none _ k cols 0 hc,
    find?_named, h2, if_true, Option.none_or, Option.some_or, Option.map_some]

theorem vcol_right {k : String} (hx : k ∉ x.cols) (hy : k ∈ y.cols) (hc : k ∉ cols) :
    vcol? (joinTableOf x y cols mode kp) k = some (kp.map fun p => .cell (y.jcellAt k p.2.2)) := by
  have h2 : k ∉ lminus (lminus x.cols cols) (linter (lminus x.cols cols) (lminus y.cols cols)) := by
    simp [mem_lminus_iff, mem_linter_iff, hx]
  have h3 : k ∈ lminus (lminus y.cols cols) (linter (lminus x.cols cols) (lminus y.cols cols)) := by
    simp [mem_lminus_iff, mem_linter_iff, hx, hy, hc]
  simp only [vcol?, joinTableOf, List.find?_append, find?_keycols_none _ k cols 0 hc,
    find?_named, h2, h3, if_true, if_false, Option.none_or, Option.some_or, Option.map_some]

theorem vcol_both {k : String} (hx : k ∈ x.cols) (hy : k ∈ y.cols) (hc : k ∉ cols) :
    vcol? (joinTableOf x y cols mode kp) k =
      some (kp.map fun p => mode.apply (x.jcellAt k p.2.1) (y.jcellAt k p.2.2)) := by
  have h2 : k ∉ lminus (lminus x.cols cols) (linter (lminus x.cols cols) (lminus y.cols cols)) := by
    simp [mem_lminus_iff, mem_linter_iff, hx, hy, hc]
  have h3 : k ∉ lminus (lminus y.cols cols) (linter (lminus x.cols cols) (lminus y.cols cols)) := by
    simp [mem_lminus_iff, mem_linter_iff, hx, hy, hc]
  have h4 : k ∈ linter (lminus x.cols cols) (lminus y.cols cols) := by
    simp [mem_lminus_iff, mem_linter_iff, hx, hy, hc]
  simp only [vcol?, joinTableOf, List.find?_append, find?_keycols_none _ k cols 0 hc,
    find?_named, h2, h3, h4, if_true, if_false, Option.none_or, Option.map_some]

theorem vcol_none {k : String} (hx : k ∉ x.cols) (hy : k ∉ y.cols) (hc : k ∉ cols) :
    vcol? (joinTableOf x y cols mode kp) k = none := by
  have h2 : k ∉ lminus (lminus x.cols cols) (linter (lminus x.cols cols) (lminus y.cols cols)) := by
    simp [mem_lminus_iff, mem_linter_iff, hx]
  have h3 : k ∉ lminus (lminus y.cols cols) (linter (lminus x.cols cols) (lminus y.cols cols)) := by
    simp [mem_lminus_iff, mem_linter_iff, hy]
  have h4 : k ∉ linter (lminus x.cols cols) (lminus y.cols cols) := by
    simp [mem_lminus_iff, mem_linter_iff, hx]
  simp only [vcol?, joinTableOf, List.find?_append, find?_keycols_none _ k cols 0 hc,
    find?_named, h2, h3, h4, if_false, Option.none_or, Option.map_none]

theorem vcol_key (hnd : cols.Nodup) {j : Nat} (hj : j < cols.length) :
    vcol? (joinTableOf x y cols mode kp) cols[j] = some (kp.map fun p => tupleGet j p.1) := by
  have hm : (cols[j], kp.map fun p => tupleGet j p.1) ∈
      (cols.zipIdx.map fun (c, n) => (c, kp.map fun p => tupleGet n p.1)) := by
    refine List.mem_map.2 ⟨(cols[j], j), ?_, rfl⟩
    simp [List.mem_zipIdx_iff_getElem?, hj]
  have := find?_of_mem_nodup _ _ (by simpa [List.map_map, Function.comp_def] using hnd) hm
  simp only [vcol?, joinTableOf, List.find?_append, this, Option.some_or, Option.map_some]

end cols
end Pyg
